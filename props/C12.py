"""C12 — mutex blocks of one name are mutually exclusive, re-entrant and always released."""
import glob
import os
import subprocess

import checklib

MODULES = ["Ecal.Props.C12"]
GEN = os.path.join(checklib.LEAN, "Ecal", "Gen", "C12.lean")

RULE = ("id-generator cases (mode I): 2..16 goroutines request >= 10^5 ids in total from pool.NewThreadID / "
        "erp.NewThreadID at the same moment, also while SetWorkerCount spawns workers (whose ids are collected by "
        "rendezvous tasks): no duplicate, no zero id. Directly evaluated threads request their ids concurrently. "
        "Pool life-cycles: id-generator variants r/f request ids and collect worker ids over 1..3 restarts (JoinAll + "
        "SetWorkerCount / processor Finish + Start): all ids ever handed out by one pool distinct; S/M/L runs restart the "
        "processor 0..3 times first; mode L = direct threads holding ids from BEFORE the restart share blocks with sinks on "
        "the restarted workers (occupants told apart by id and kind of thread). "
        "Other cases: case = generated ECAL program (1..3 roles, each a sequence of mutex blocks over names a,b,c, nesting <=3 incl. "
        "same-name re-entry, every exit kind n/e/r/b/c from inside a block, exits through 1..3 frames at once, "
        "non-atomic read-yield-write of a per-name global counter in every block) + thread configuration "
        "(2..16 threads; S = pool workers triggered by concurrently posted events, D = goroutines with their own "
        "NewThreadID evaluating a call, M = both) + seed. Directed cases first: all exit kinds, exits through nested "
        "frames, ordered three-name nesting, failing holders with 16 threads, and rendezvous programs in which a block of "
        "name a and a block of name b MUST be occupied at the same time to finish. Compared: max simultaneous threads "
        "inside per name, final counters, completion of everything within the bound, rendezvous pairs; the recorded "
        "enter/exit trace is replayed on the model (every model event enabled, quiescent end, model counters equal). "
        "Non-trivial = the trace shows a hand-over of a name between two threads or two threads inside blocks at once.")

SPEC = dict(lean_modules=MODULES, shards=8, rule=RULE)

META = dict(
    technique=("Lean 4 invariant proof over an executable transition system of mutexRuntime.Eval (ghost holder of the "
               "sync.Mutex, pointwise invariants), tied to /repo by (1) three-valued source facts re-extracted with go/ast on "
               "every run and decided in Lean (every use of the two tables and their aliases under MutexesMutex, in all "
               "packages; the named mutex's Unlock deferred with nothing fallible before the defer; order Lock<setOwner, "
               "reset<Unlock, create-only-when-absent, blocking operations outside table sections; NewThreadID one critical "
               "section, id counter only incremented and starting >= 1) with Lean negative witnesses on variant protocols; the "
               "ordered skeleton is recorded and a change / an unknown fact amplifies the search, and (2) generated concurrent "
               "ECAL programs run on the real interpreter: occupancy, counters, completion, real end state (owners 0, every "
               "mutex TryLock-able), and the enter/exit trace replayed on the model"),
    level_text=("Proof, for any number of threads (a thread = its id > 0), names, nesting depth, programs and schedules: "
                "mutual_exclusion / inside_is_owner, different_names_independent + other_names_untouched, reentrant_no_block + "
                "decision_matches_ownership, released_on_every_exit + unlock_frees_name + release_steps_never_block (the model's "
                "release runs on every outcome BECAUSE it is deferred: that is the fact unlock_deferred_on_acquiring_path plus "
                "the 7 scripted exit kinds (normal end, raise caught / uncaught, return, break, continue, x.panic) — no interpreter-raised runtime error inside a block; "
                "without_defer_error_leaks_lock is the counterexample), later_entrant_gets_in (safety) + waiter_progress / "
                "single_name_no_deadlock / ordered_names_no_deadlock (progress: with finitely many names nested by every "
                "thread in one global order a waiting system always has a thread inside the protocol with an enabled step or a "
                "holder executing its body; two_names_opposite_order_deadlock: without the order the real protocol deadlocks), "
                "locked_has_live_holder, no_lost_update, ids_distinct (+ load-then-add / reset counterexamples, "
                "id_counter_monotone, first_thread_id_positive)."),
    level_note=("Trusted: Lean kernel + propext/Classical.choice/Quot.sound; sync.Mutex is a correct lock; each MutexesMutex "
                "section is one atomic, non-blocking event (supported by the facts table_uses_under_table_lock and "
                "protocol_order_facts, which are syntactic go/ast analyses with `unknown` where aliases escape — none today); a thread IS its tid (two goroutines evaluating with one "
                "tid re-enter each other's blocks — fact no_literal_tid + tests: seeded sink-closure case, mode J concurrent "
                "debugger injections; the InjectValue defect of this kind is repaired in /repo f411ead) and there is ONE pool per provider "
                "(erp.Processor is an exported field; ids taken before it is replaced may collide with the new pool's — "
                "mode I variant x observes this, it is not excluded); the trace replay expands an observed enter/exit by the "
                "model's own state (which branch Go took and when it released is seen only through occupancy, counters and the "
                "end state); bodies are unconstrained in the model; fairness of the Go scheduler is not modelled."),
)


# the ordered skeletons the model was written against (informational: a change amplifies the search)
SKELETON = ["T[get M[N],get O[N],if !foundM{M=new;set M[N]=M}]", "if !foundO || O != tid", "M.Lock", "T[set O[N]=tid]",
            "defer", "T[set O[N]=0]", "M.Unlock", "end", "else if O == tid", "end", "body"]
ID_SKELETON = ["lock", "read", "inc", "unlock"]


def read_skeletons():
    import json
    src = open(GEN).read() if os.path.exists(GEN) else ""
    out = {}
    for name in ("skeleton", "idSkeleton"):
        k = src.find("def " + name + " : List String := [")
        if k < 0:
            out[name] = None
            continue
        k = src.index("[", k + len("def " + name + " : List String")) + 1
        items = []
        while k < len(src) and src[k] != "]":
            if src[k] == '"':
                e = k + 1
                while src[e] != '"':
                    e += 2 if src[e] == "\\" else 1
                items.append(json.loads(src[k:e + 1]))
                k = e + 1
            else:
                k += 1
        out[name] = items
    return out


# observations the extractor classifies as `unknown` on the tree as it is, each with the reason why this is
# expected; any OTHER unknown observation makes the run search harder (amplified correspondence)
EXPECTED_UNKNOWN = {}


def unknown_facts():
    import re
    src = open(GEN).read() if os.path.exists(GEN) else ""
    out = [m.group(1) for m in re.finditer(r'\("((?:[^"\\\\]|\\\\.)*)", "unknown"\)', src)]
    if "def idFirst : Option Nat := none" in src:
        out.append("idFirst")
    return out


def extract(ctx, binp):
    if os.path.exists(GEN):
        os.remove(GEN)
    env = dict(checklib.GOENV, VERIF_REPO=checklib.REPO)
    p = subprocess.run([binp, "C12", "-tool", "skeleton", GEN], env=env, stdout=subprocess.PIPE,
                       stderr=subprocess.STDOUT, text=True, timeout=120)
    if p.returncode != 0 or not os.path.exists(GEN):
        raise checklib.CheckError("skeleton extraction failed: " + p.stdout[-500:])


def split_go(res):
    """(summary, trace) of a harness result line"""
    # (a case re-checked alone by checklib carries the process's stderr text in front of the result)
    r = res.replace("Warning: The thread pool queue is filling up ...", "")
    if r.startswith("PANIC DEADLOCK "):
        r = r[len("PANIC "):]
    if " T=" in r:
        s, t = r.split(" T=", 1)
        return s, (t.strip() or "-")
    return r, "-"


def correspondence(ctx, binp, tier, budget):
    for f in (glob.glob(os.path.join(ctx.work, "cases.*")) + glob.glob(os.path.join(ctx.work, "out.*"))
              + glob.glob(os.path.join(ctx.work, "c12.deadlocks"))):
        os.remove(f)
    old = ctx.tier
    ctx.tier = tier
    try:
        cases, gores, stats, infos = checklib.run_cases(ctx, binp, "C12", shards=SPEC["shards"], budget_s=budget)
    finally:
        ctx.tier = old
    lines = {}
    for i in cases:
        _, tr = split_go(gores.get(i, "MISSING-RESULT"))
        lines[i] = cases[i] + "\t" + tr
    model = checklib.run_driver(ctx, "C12", lines, shards=SPEC["shards"])
    bad, validated, events, nontrivial, exact = [], 0, 0, set(), 0

    for i in sorted(cases):
        g, _ = split_go(gores.get(i, "MISSING-RESULT"))
        m, attrs = model.get(i, ("MISSING-MODEL-RESULT", {}))
        events += int(attrs.get("ev", "0") or 0)
        if attrs.get("nt") == "1":
            nontrivial.add(cases[i])
        if g == m and attrs.get("replay") == "ok":
            validated += 1
            exact += attrs.get("exact") == "1"
        else:
            bad.append(i)
    return dict(cases=cases, gores=gores, model=model, bad=bad, validated=validated, events=events, exact=exact,
                nontrivial=nontrivial, stats=stats, infos=infos)


def report(ctx, r, limit=3):
    bad = sorted(r["bad"], key=lambda i: (r["gores"].get(i, "").startswith("SKIPPED"), len(r["cases"][i]), i))
    for i in bad[:limit]:
        g, tr = split_go(r["gores"].get(i, "MISSING-RESULT"))
        m, attrs = r["model"].get(i, ("MISSING", {}))
        rp = checklib.write_replay(
            ctx, "input", {"payload": r["cases"][i], "trace": tr[:20000]},
            {"result": m, "replay": "ok"}, {"result": g, "replay": attrs.get("replay")},
            "./check C12 --replay <this file>  (schedule dependent: the replay repeats the case)")
        checklib.violation(ctx, rp, f"go={g[:90]!r} model={m[:90]!r} trace-replay={attrs.get('replay', '')[:80]}")


def run(ctx):
    thorough = ctx.tier == "thorough"
    ctx.log("go: building harness against", checklib.REPO)
    binp = checklib.go_build(ctx)
    ctx.harness = binp
    extract(ctx, binp)
    ctx.log("lean: building", MODULES)
    lres = checklib.lean_check(ctx, MODULES, leanchecker=thorough)
    cov = ctx.coverage
    cov["obligations"] = lres["obligations"]
    cov["discharged"] = lres["discharged"]
    cov["checker_cmd"] = ("harness C12 -tool skeleton lean/Ecal/Gen/C12.lean && " + lres.get("checker_cmd", ""))
    cov["theorems"] = lres["theorems"]
    cov["axioms_used"] = lres["axioms"]
    cov["trusted_base"] = checklib.BASE_TRUSTED + [
        "sync.Mutex is a lock; every section guarded by erp.MutexesMutex is atomic and non-blocking (modelled as one event)",
        "a thread is its tid; one thread pool per runtime provider (erp.Processor not replaced while ids are in use)",
        "thread ids > 0 and distinct: proved for the generator protocol (ids_distinct), tied to ThreadPool.NewThreadID by "
        "the extracted access shape (newThreadID_is_one_critical_section) and by the id-hammer cases (mode I)",
        "go/ast skeleton extractor (go/cmd/harness/c12tool.go): identifiers normalised by role, table section sorted",
        "the expansion of an observed enter/exit into model events in lean/Ecal/Drivers/C12.lean",
    ]
    if lres.get("leanchecker"):
        cov["leanchecker_ok"] = lres["leanchecker"]
    ctx.assumptions += [
        "generated programs take new names in increasing order (a<b<c) so that they cannot deadlock by themselves; "
        "lock-order inversion between different names is a property of the program, not of C12",
        "bodies terminate (the model does not constrain what a body does between the protocol steps)",
    ]
    proof_broken = bool(lres["failures"]) or lres["discharged"] != lres["obligations"]
    if proof_broken:
        ctx.log("LEAN FAILURES:", lres["failures"])
        if lres["failures"] and lres["failures"][0].startswith("lake build failed") and not os.path.exists(checklib.DRIVER):
            raise checklib.CheckError(lres["failures"][0])

    r = correspondence(ctx, binp, ctx.tier, 600 if not thorough else 3000)
    ctx.log(f"harness: {len(r['cases'])} cases, {r['validated']} traces validated, {len(r['bad'])} disagreements")
    cov["evaluations"] = len(r["cases"])
    cov["distinct_nontrivial"] = len(r["nontrivial"])
    cov["traces_validated_against_impl"] = r["validated"]
    cov["model_events_replayed"] = r["events"]
    # traces that carry the protocol events of hooks/C12.patch are replayed one recorded event = one model event
    cov["protocol_traces_validated_one_to_one"] = r["exact"]
    cov["rule"] = RULE
    cov["input_distribution"] = r["stats"]
    cov["disagreements"] = len(r["bad"])
    cov["crashes"] = sum(len(i["crashes"]) for i in r["infos"].values())
    cov["exhaustive"] = False
    idx = sorted(r["cases"])[:: max(1, len(r["cases"]) // 6)][:6]
    cov["samples"] = [{"case": r["cases"][i], "go": split_go(r["gores"].get(i, ""))[0],
                       "model": r["model"].get(i, ("", {}))[0],
                       "trace_replay": r["model"].get(i, ("", {}))[1].get("replay")} for i in idx]
    report(ctx, r)
    sk = read_skeletons()
    changed = [n for n, want in (("skeleton", SKELETON), ("idSkeleton", ID_SKELETON)) if sk.get(n) != want]
    cov["skeleton_changed"] = {n: sk.get(n) for n in changed} if changed else False
    if changed:
        ctx.notes.append("ordered synchronisation skeleton differs from the one the model was written against "
                         "(not a failure by itself): " + ", ".join(changed))
    unk = unknown_facts()
    unexpected = [u for u in unk if u not in EXPECTED_UNKNOWN]
    cov["facts_unknown"] = {u: EXPECTED_UNKNOWN.get(u, "NOT EXPECTED: the extractor cannot classify this on the tree under test") for u in unk}
    if unexpected:
        ctx.notes.append("source facts with verdict unknown (not a failure by itself): " + "; ".join(unexpected))
    found = bool(r["bad"])
    if (changed or proof_broken or unexpected) and not found and not thorough:
        # restructured code or a broken fact and the quick cases agree: search harder in this run
        ctx.log("skeleton changed" if changed else ("obligation broken" if proof_broken else "fact unknown"),
                "- running the amplified correspondence")
        r2 = correspondence(ctx, binp, "amplified", 900)
        cov["amplified_evaluations"] = len(r2["cases"])
        cov["amplified_traces_validated"] = r2["validated"]
        cov["amplified_disagreements"] = len(r2["bad"])
        ctx.log(f"amplified: {len(r2['cases'])} cases, {r2['validated']} traces validated, {len(r2['bad'])} disagreements")
        if r2["bad"]:
            report(ctx, r2, limit=1)
            found = True
    if unexpected and thorough and not found and not proof_broken:
        # in the thorough tier a fact the extractor cannot establish is not acceptable: the generator's
        # envelope (bodies shorter than the deadlock bound, three names, …) cannot stand in for it
        rp = checklib.write_replay(ctx, "obligation", {"facts_unknown": unexpected,
                                                       "facts": open(GEN).read() if os.path.exists(GEN) else None},
                                   "every source fact established (verdict some true)", "verdict unknown: " + "; ".join(unexpected),
                                   "harness C12 -tool skeleton", theorem="facts with verdict unknown: " + "; ".join(unexpected)[:400])
        checklib.violation(ctx, rp, no_input=True)
    if proof_broken and not found:
        rp = checklib.write_replay(ctx, "obligation", {"failures": lres["failures"], "theorems": lres["theorems"],
                                                       "facts": open(GEN).read() if os.path.exists(GEN) else None},
                                   "all property theorems and source facts check",
                                   "see failures", "cd lean && lake build " + " ".join(MODULES),
                                   theorem="; ".join(lres["failures"])[:500])
        checklib.violation(ctx, rp, no_input=True)
    checklib.write_evidence(ctx)
    return 1 if ctx.violations else 0


def replay(ctx, path):
    import json
    obj = json.load(open(path))
    case = obj.get("case", {})
    if "payload" not in case:
        print("replay of kind", obj.get("kind"), ":", json.dumps(obj, indent=1)[:3000])
        binp = checklib.go_build(ctx)
        extract(ctx, binp)
        lres = checklib.lean_check(ctx, MODULES)
        print("lean:", lres["failures"] or "all theorems check")
        if lres["failures"]:
            print(f"VIOLATION property=C12 replay={os.path.relpath(path, checklib.VERIF)}")
        return 1 if lres["failures"] else 0
    binp = checklib.go_build(ctx)
    lock = checklib._lean_lock()
    try:
        checklib.sh(["lake", "build", "driver"], cwd=checklib.LEAN)
    finally:
        lock.close()
    fails = 0
    reps = 40
    for k in range(reps):
        p = subprocess.run([binp, "C12", "-one", case["payload"]], stdout=subprocess.PIPE, stderr=subprocess.STDOUT,
                           text=True, cwd=ctx.work, env=checklib.GOENV, timeout=120)
        lines = [l for l in p.stdout.replace("Warning: The thread pool queue is filling up ...", "").splitlines() if l.strip()]
        go = lines[0] if (lines and p.returncode in (0, 3, 4)) else "CRASH " + " ".join(p.stdout.split())[:300]
        g, tr = split_go(go)
        model = checklib.run_driver(ctx, "C12", {0: case["payload"] + "\t" + tr}, shards=1)
        m, attrs = model.get(0, ("MISSING", {}))
        ok = g == m and attrs.get("replay") == "ok"
        if not ok:
            fails += 1
            if fails == 1:
                print("case  :", case["payload"])
                print("go    :", g)
                print("model :", m, attrs)
    print(f"agree : {reps - fails}/{reps} repetitions")
    if fails:
        print(f"VIOLATION property=C12 replay={os.path.relpath(path, checklib.VERIF)}")
    return 1 if fails else 0
