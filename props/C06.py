"""C06 — no ECAL program, sink attribute or event can crash the host process."""
import os
import subprocess

import checklib

UNIVERSE = ["null", "true", "0", "-1", "1.5", "1e+300", '""', '"a"', '"1"', "[]", "[1]", "{}", '{"a":1}', "fn",
            "-0.5", "-1e+300", "(0/0)", "(1/0)"]


def decode(p):
    f = p.split(" ")
    try:
        if f[0] == "X":
            mode = {"p": "plain", "t": "inside try { } except { x.mark(1) }", "s": "as the body of a sink triggered by an event",
                    "d": "as the LAST of two sinks on the same event", "f": "as the FIRST of two sinks on the same event",
                    "m": "as the middle one of three sinks on the same event", "w": "as a sink triggered twice"}[f[1]]
            return {"kind": f[2], "mode": mode, "source": bytes.fromhex(f[4]).decode("utf8", "replace") if f[4] != "-" else ""}
        if f[0] == "D":
            return {"kind": "acyclic container nested deeply, then one operation that recurses over it in Go", "variant": f[1], "depth": int(f[2])}
        if f[0] == "T":
            return {"kind": "cron + pulse trigger firing after Processor.Finish()"}
        if f[0] == "K":
            return {"kind": "shared container, sink triggered without waiting", "variant": f[1], "workers": int(f[2]),
                    "mutex": f[3] == "1", "iterations": int(f[4])}
        if f[0] == "A":
            return {"kind": "sink attribute", "source": "sink s kindmatch [\"k\"], %s %s { x.mark(1) }  (kindmatch itself when it is the attribute), then two events" % (f[1], UNIVERSE[int(f[2])])}
        if f[0] == "E":
            return {"kind": "event state against statematch (real worker)",
                    "source": "sink s kindmatch [\"k\"], statematch {\"a\": %s} { x.mark(1) }; addEventAndWait(\"e\", \"k\", {\"a\": %s, \"b\": %s})" % (
                        UNIVERSE[int(f[1])], UNIVERSE[int(f[2])], UNIVERSE[int(f[1])])}
    except Exception:
        pass
    return p


GEN = os.path.join(checklib.LEAN, "Ecal", "Gen", "C06.lean")
BASELINE = os.path.join(checklib.LEAN, "Ecal", "Gen", "C06Expected.txt")

ALL_FAMILIES = ["conc", "depth", "trigger", "import", "sinkattr2", "directed", "corpus", "binop", "prefix", "read", "write", "read2", "write2", "write3", "dot", "dotw",
                "builtin", "sinkattr", "event", "random"]
SCOPE_FAMILIES = ["read", "write", "read2", "write2", "write3", "dot", "dotw", "directed", "random"]
ENGINE_FAMILIES = ["event", "sinkattr", "sinkattr2", "conc", "trigger", "depth", "directed"]
BUILTIN_TYPES = {"rangeFunc": ["range"], "newFunc": ["new"], "typeFunc": ["type"], "lenFunc": ["len"], "delFunc": ["del"],
                 "addFunc": ["add"], "concatFunc": ["concat"], "nowFunc": ["now"], "randFunc": ["rand"],
                 "timestampFunc": ["timestamp"], "dumpenvFunc": ["dumpenv"], "docFunc": ["doc"], "sleepFunc": ["sleep"],
                 "raise": ["raise"], "addevent": ["addEvent", "addEventAndWait"], "addeventandwait": ["addEventAndWait"],
                 "setCronTrigger": ["setCronTrigger"], "setPulseTrigger": ["setPulseTrigger"]}


def families_for(changed):
    """census lines (file:function:kind:count, with +/- prefix) -> case families that reach that code"""
    fams = set()
    for line in changed:
        f = line.lstrip("+-").split(":")
        path, func = f[0], (f[1] if len(f) > 1 else "")
        if path == "interpreter/func_provider.go":
            typ = func.split(".")[0]
            if typ in BUILTIN_TYPES:
                fams.update("builtin:" + b for b in BUILTIN_TYPES[typ])
                fams.add("directed")
                if typ in ("addevent", "addeventandwait"):
                    fams.update(ENGINE_FAMILIES)
            else:
                fams.update(["builtin", "directed"])          # shared helpers (Assert*Param …): every builtin
        elif path == "scope/varsscope.go":
            fams.update(SCOPE_FAMILIES)
        elif path in ("engine/rule.go", "engine/pool/threadpool.go", "interpreter/rt_sink.go"):
            fams.update(ENGINE_FAMILIES)
        elif path in ("interpreter/rt_arithmetic.go", "interpreter/rt_boolean.go", "interpreter/rt_general.go"):
            fams.update(["binop", "prefix", "directed", "random"])
        elif path in ("interpreter/rt_value.go", "interpreter/rt_assign.go"):
            fams.update(SCOPE_FAMILIES + ["binop"])
        elif path.startswith("interpreter/rt_") or path == "util/error.go":
            fams.update(["directed", "random", "builtin", "read", "write"])
        else:
            fams.update(ALL_FAMILIES)
    return sorted(fams)


def extract(ctx):
    """Regenerate the panic-site census of the anchored files from the tree under test. The census is DATA:
    it goes into the evidence (`census_changed`) and, when it differs from the baseline the case families were
    designed against, makes this run look harder at the changed functions (amplify). It never fails the check."""
    binp = checklib.go_build(ctx, out="harness-extract")
    p = subprocess.run([binp, "C06", "-tool", "census"], stdout=subprocess.PIPE, stderr=subprocess.PIPE, text=True,
                       env=checklib.GOENV, timeout=300)
    if p.returncode != 0:
        raise checklib.CheckError("census extractor failed: " + p.stderr[-500:])
    expected = [l for l in open(BASELINE).read().split("\n") if l.strip()]
    got = [l for l in p.stdout.split("\n") if l.strip()]
    body = ["/-! GENERATED by `harness C06 -tool census` from the Go sources under test - do not edit.",
            "DATA, not an obligation (no theorem is stated about it and no property module imports it):",
            "`census`  file:function:kind:count of every potentially panicking expression of the files anchored by C06",
            "          (unchecked type assertions, index / slice expressions, `/` `%`, interface ==, stores, Assert*, panic);",
            "`expected` the census of the tree the case families of the correspondence were designed against",
            "          (Ecal/Gen/C06Expected.txt). A difference is recorded in evidence/C06.json (`census_changed`) and makes",
            "          `./check C06` additionally run the thorough enumeration of the case families that reach the changed",
            "          functions (props/C06.py `amplify`); only a real PANIC/CRASH/HANG or outcome-class difference is a violation. -/",
            "namespace Ecal.Gen.C06",
            "def census : List String := ["]
    body.append(",\n".join('  "%s"' % l for l in got))
    body.append("]")
    body.append("def expected : List String := [")
    body.append(",\n".join('  "%s"' % l for l in expected))
    body.append("]")
    body.append("end Ecal.Gen.C06")
    new = "\n".join(body) + "\n"
    old = open(GEN).read() if os.path.exists(GEN) else ""
    if new != old:
        if os.path.exists(GEN):
            os.remove(GEN)
        open(GEN, "w").write(new)
    ctx.coverage["census_sites"] = len(got)
    gs, es = set(got), set(expected)
    ctx.coverage["census_changed"] = ["+" + l for l in sorted(gs - es)] + ["-" + l for l in sorted(es - gs)]


def compare(ctx, cases, gores, model):
    """the comparison rule of checklib.standard; returns the indices that disagree (smallest payloads first)"""
    bad = []
    for i in sorted(cases):
        g = gores.get(i, "MISSING-RESULT")
        m, attrs = model.get(i, ("MISSING-MODEL-RESULT", {}))
        if m.startswith("UNSUP") or attrs.get("skip") == "1":
            if g.startswith(("CRASH", "PANIC", "HANG")):
                bad.append(i)
            continue
        if g == m or ("spec" in attrs and g == attrs["spec"]):
            continue
        bad.append(i)
    bad.sort(key=lambda i: (len(cases[i]), i))
    return bad


def enumerate_thorough(ctx, focus, budget_s, sub):
    """run the thorough enumeration (optionally only the families in `focus`) in its own work directory"""
    old_tier, old_work = ctx.tier, ctx.work
    ctx.tier = "thorough"
    ctx.work = os.path.join(old_work, sub)
    os.makedirs(ctx.work, exist_ok=True)
    saved = checklib.GOENV.get("C06_FOCUS")
    if focus:
        checklib.GOENV["C06_FOCUS"] = ",".join(focus)
    try:
        cases, gores, stats, infos = checklib.run_cases(ctx, ctx.harness, ctx.prop, shards=SPEC["shards"], budget_s=budget_s)
        model = checklib.run_driver(ctx, ctx.prop, cases, shards=SPEC["shards"])
    finally:
        ctx.tier, ctx.work = old_tier, old_work
        if saved is None:
            checklib.GOENV.pop("C06_FOCUS", None)
        else:
            checklib.GOENV["C06_FOCUS"] = saved
    return cases, gores, model


def amplify(ctx, changed):
    """the census changed: thorough enumeration of the case families that reach the changed functions"""
    fams = families_for(changed)
    ctx.log("census changed (%d lines): amplified search over %s" % (len(changed), ",".join(fams)))
    info = {"families": fams}
    ctx.coverage["amplified_search"] = info
    try:
        cases, gores, model = enumerate_thorough(ctx, fams, 240, "amplify")
    except checklib.CheckError as e:
        info["not_finished"] = str(e)[:200]
        ctx.notes.append("amplified search did not finish within its budget: " + str(e)[:200])
        return
    bad = compare(ctx, cases, gores, model)
    info["evaluations"] = len(cases)
    info["disagreements"] = len(bad)
    ctx.coverage["evaluations"] = ctx.coverage.get("evaluations", 0) + len(cases)
    seen = set()
    for i in bad:
        if cases[i] in seen:
            continue
        seen.add(cases[i])
        rp = checklib.write_replay(ctx, "input", {"payload": cases[i], "readable": decode(cases[i])},
                                   model.get(i, ("MISSING", {}))[0], gores.get(i, "MISSING"),
                                   f"./check {ctx.prop} --replay <this file>", tag="amplify")
        checklib.violation(ctx, rp, f"(amplified search) go={gores.get(i, 'MISSING')[:80]!r} model={model.get(i, ('MISSING', {}))[0][:80]!r}")
        if len(seen) == 3:
            break


def search(ctx):
    """a proof obligation broke and no generated case failed: enumerate thoroughly"""
    try:
        cases, gores, model = enumerate_thorough(ctx, None, 3000, "search")
    except checklib.CheckError:
        return None
    for i in compare(ctx, cases, gores, model):
        return checklib.write_replay(ctx, "input", {"payload": cases[i], "readable": decode(cases[i])},
                                     model.get(i, ("MISSING", {}))[0], gores.get(i, "MISSING"),
                                     f"./check {ctx.prop} --replay <this file>", tag="search")
    return None


SPEC = dict(
    lean_modules=["Ecal.Props.C06"],
    shards=12,
    budget_s=1500,
    extract=extract,
    search=search,
    rule=("cases = programs run by the real parser/interpreter/engine: inputs of the repaired defects and odd literal shapes; "
          "every prefix/binary operator x the value universe {null,true,0,-1,1.5,1e+300,\"\",\"a\",\"1\",[],[1],{},{\"a\":1},function,-0.5,-1e+300,NaN,+Inf} on both sides; "
          "container reads/writes/nested writes with in-range, negative, beyond-negative, fractional, huge, NaN, string, null, bool, container "
          "indices on list/map/string/null/function/number; every function of InbuildFuncMap x all argument vectors of length 0..2 "
          "(thorough 0..3; length 3/4 sampled); sink declarations with each attribute set to each universe value followed by events; "
          "statematch of every universe value against event state of every universe value through a real worker "
          "(sink + addEventAndWait); element-level sink attributes / duplicate attributes; a container shared by the main thread and a sink "
          "triggered without waiting (6 variants x WorkerCount 1/2/4 x with/without mutex, child process); random ill-typed programs of "
          "the shared generator (child process); each also inside try/except, as a sink body, as one of two sinks on one event, as a sink triggered twice "
          "(quick: all short cases + a seed-dependent part of the matrices). Compared: outcome class (value / error type / parse or "
          "validation error) + marker log; PANIC/CRASH/HANG anywhere is a violation, also on cases outside the model. "
          "Non-trivial = the case ends in an error value, or is a sink-attribute / event case."),
    exhaustive="operators x universe^2, builtins x universe^(0..2) (thorough ..3), sink attributes x universe, statematch x state universe^2",
    trusted_base=[
        "value-vs-error prediction: shared evaluator model (Ecal.Ev) where it covers the program, else the argument-check transcription of Ecal/Model/Prims.lean; programs outside both are run for crashes and for the metamorphic rule only",
        "metamorphic rule (Go side, model-free): the result inside try / inside a sink / as one of two sinks / as a sink triggered twice is derived from what the real code does with the plain program",
        "closed value universe: float64, string, bool, nil, []interface{}, map[interface{}]interface{}, *function; values of other Go types returned by stdlib / user Go functions are outside model and generators",
        "the model is sequential: data-race freedom of container accesses from several ECAL threads is NOT modelled (family K tests it; known finding unsynchronised-shared-container)",
        "PVal.NumOK (0 <= int(x) -> int(x) <= int(x+1) <= int(x)+1) for the Prims transcription; amd64 conversion results for NaN/Inf/huge in the driver's universe",
        "no debugger attached (rt.erp.Debugger == nil): the debugger branches (VisitState, AssertOk in typed except, Kill -> Goexit) are not reached by any case",
        "setPulseTrigger / setCronTrigger goroutines can outlive their case inside a shard process: a late assertion panic would be attributed to a later case",
        "the census extractor (go/ast, syntactic) only steers the search; it is not an obligation",
    ],
    assumptions=[
        "READING of 'inside a sink it fails only that sink invocation' (decision of the coordinator; C10's text makes fail-on-first-error the intended default for every ECAL runtime, interpreter/provider.go): the error is reported for that sink and does not escape the trigger sequence of ITS event - no later event, no worker, no host is affected - but the sinks of the SAME event that come after the failing one do not run. Modes d / f / m test exactly this (failing sink last / first / in the middle of three, followed by a second event)",
        "no cyclic or very deeply nested (about 10^5 and more) container reaches an operation that recurses over it in Go: printing (fmt / stringutil: interpolation, log, error detail, type(), the return statement's 'Return value: %v') or deep comparison (reflect.DeepEqual: ==, !=, in, notin, statematch) - known finding cyclic-container-stringify: fatal Go stack overflow",
        "non-termination that is not written by the user but is C04's subject is out of scope here: `for a in f()` with f returning range(3) never ends (cross-reference C04 / agent-EVAL)",
        "a container shared by several ECAL threads is only used inside `mutex` blocks (known finding unsynchronised-shared-container: fatal 'concurrent map' error otherwise)",
        "user-written non-termination is outside the property (e.g. `for a in range(1, 0) { }`, a sink that waits for an event only it can process)",
        "user-supplied Go functions (stdlib bridge) are outside the property",
    ],
    decode=decode,
)

META = dict(
    technique=("Lean 4: (1) Go's panicking primitives as a layer over the evaluator model's own values, the interpreter's guarded sites as "
               "guard -> primitive, proved sufficient, proved to be what the compared model computes (refinement), unguarded variants proved to "
               "panic; (2) the evaluator model never panics on a decidable fragment (Hoare rules + induction on fuel), membership measured on "
               "every generated tree; (3) differential outcome-class / crash correspondence with the real interpreter, engine and workers, with "
               "a model-free metamorphic rule for the cases outside the model; (4) panic-site census as search amplifier"),
    level_text=("PROVED about the evaluator model Ecal.Ev (the model every run compares with /repo): at the value-level sites of the interpreter "
                "(list read/write with any index, delete/insert, map-literal key, %, ==/in, operand assertions) the model computes exactly "
                "'guard, then Go primitive' (model_is_guard_then_primitive), under the guard the primitive cannot panic for any operands "
                "(guards_sufficient), and without the guard it panics on the inputs of the repaired defects (guards_necessary). For EVERY tree the "
                "parser model returns (C07 parse_wellformed_strict -> wellformed_frag), any scope, fuel and any state satisfying Inv, the model "
                "never yields panic (eval_never_panics: all constructs of the model, calls of user functions and of the model's builtins "
                "included; anything else ends in `unsupported`), its validation never panics (validate_never_panics, on the structural twin the "
                "driver runs and cross-checks against the shared model's validate), and running any function-table entry never panics "
                "(user_function_run_never_panics). The real parser's trees are tied to this per case: fragB holds on 99 % of the generated "
                "programs (evidence frag_share; the rest do not parse). In the model a panic can only come from the SHAPE of a tree; the value-level guards are "
                "transcribed as errors and shown sufficient by (1). An error of a try body reaches the except dispatch (tryCore). "
                "PROVED about TRANSCRIPTIONS that no theorem ties to /repo (Ecal/Model/Prims.lean): builtin argument checks of "
                "len/add/del/concat/range/raise/type (compared with Go only where the driver falls back to them, about 13 % of the builtin cases), "
                "sink-attribute kind check and statematch key test (guard and panic condition are the same predicate by transcription). "
                "TESTED, not proved: everything about the engine (rule registration, matching, workers; 'fails only that invocation' in the declared "
                "reading - the error stays inside the trigger sequence of its event, later sinks of the SAME event do not run (fail-on-first-error, "
                "C10) - modes s/d/f/m/w, families A, E), the builtins outside the model (28 % of the cases are outside the model: measured per run, "
                "evidence outside_model_not_compared; there only crash + the Go-vs-Go metamorphic rule apply), imported units, sink/mutex, triggers "
                "firing after Finish (T), concurrency (K), deep nesting (D). Compared observable: value / error value / control signal / validation "
                "error / no parse + x.mark markers - never error type, text, position (C03/C04). Any PANIC/CRASH/HANG of the "
                "real code is a violation, also on cases outside the model; crashes are classified by the Go runtime's own message."),
    level_note=("Two recorded findings, not repaired: (a) cyclic-container-stringify - a container that contains itself, or an acyclic one nested about "
                "10^5..10^6 deep, overflows the Go stack when Go recurses over it: printing (interpolation, log, error detail, type(), return of such a "
                "value) or reflect.DeepEqual (==, in, statematch), fatal; shallow nesting (10^3, 10^4) works and is checked on every run; (b) unsynchronised-shared-container - ECAL offers `mutex` for shared data; two ECAL threads "
                "(main thread and a sink triggered by addEvent without waiting, or two workers) that use ONE Go map without it end the host with "
                "'fatal error: concurrent map read and map write'; a repair needs locking in every container access (for-in, del, len, add, index), "
                "so it is recorded; the mutex-protected variants of the same programs never crash (checked on every run). "
                "Not proved: error_in_sink_local (in the declared reading) / match_total / sink_attr_total of DESIGN 4 (the engine is not modelled: "
                "tested by families A, E, K, T and modes s/d/f/m/w only). model_is_guard_then_primitive + ev_computes_guarded_sites tie ALL seven value-level sites to "
                "definitions of Ecal.Ev (eval on modint, numOp, delB, addB are equations whose right sides contain the Site functions). "
                "prims_builtins_agree_with_ev ties the Prims transcriptions of len / del / add / concat / raise / type to the evaluator's lenB / delB / addB / concatB "
                "and the raise and type branches of runBuiltin (same class on every argument vector and heap unless the model leaves itself); range and the two "
                "engine transcriptions (sinkAttrSite, stateKeySite) stay transcription-only. `for a in f()` with f returning an iterator never ends: C04's finding, out of scope here. The census is data, not an obligation."),
)


_last_go = {}
_orig_run_cases = checklib.run_cases
_orig_run_driver = checklib.run_driver


def _run_cases(ctx, *a, **kw):
    r = _orig_run_cases(ctx, *a, **kw)
    _last_go.clear()
    _last_go.update(r[1])
    return r


def _run_driver(ctx, prop, cases, *a, **kw):
    """a random program that is outside the model (UNSUP) AND left a cyclic heap in the model (`cyc=1`): Go's
    `CRASH so-stringify` there is the known finding, not an unexplained crash"""
    model = _orig_run_driver(ctx, prop, cases, *a, **kw)
    progs = [at for (_, at) in model.values() if "frag" in at]
    if progs:
        inside = sum(1 for at in progs if at["frag"] == "1")
        ctx.coverage["frag_share"] = {"program_cases": len(progs), "inside_Frag": inside,
                                      "share": round(inside / len(progs), 4),
                                      "meaning": "generated programs (tree from the real parser) for which fragB holds, i.e. to which eval_never_panics_frag applies"}
    for i, (m, attrs) in list(model.items()):
        if attrs.get("cyc") == "1" and _last_go.get(i) == "CRASH so-stringify":
            model[i] = ("CRASH so-stringify", {"kf": "cyclic-container-stringify", "spec": "CRASH so-stringify"})
    return model


def run(ctx):
    checklib.run_cases, checklib.run_driver = _run_cases, _run_driver
    try:
        checklib.standard(ctx, SPEC)
    finally:
        checklib.run_cases, checklib.run_driver = _orig_run_cases, _orig_run_driver
    checklib.write_evidence(ctx)
    changed = ctx.coverage.get("census_changed") or []
    if changed and ctx.tier != "thorough":      # the thorough tier has just run the whole enumeration
        checklib.run_cases, checklib.run_driver = _run_cases, _run_driver
        try:
            amplify(ctx, changed)
        finally:
            checklib.run_cases, checklib.run_driver = _orig_run_cases, _orig_run_driver
        checklib.write_evidence(ctx)
    return 1 if ctx.violations else 0
