"""C17 — file imports cannot escape the configured root directory."""
import checklib


def _s(h):
    return "" if h == "-" else bytes.fromhex(h).decode("utf8", "backslashreplace")


def decode(p):
    f = p.split(" ")
    try:
        if f[0] == "P":
            return {"kind": "Clean(a), Join(a,b), Rel(a,b)", "a": _s(f[1]), "b": _s(f[2])}
        d = {"kind": "Resolve" if f[0] == "R" else "import statement", "cwd": "B/" + _s(f[1]), "root": _s(f[3]),
             "root_is": "B/" + _s(f[4]), "path_prefix": None if f[5] == "~" else _s(f[5]), "depth": int(f[6])}
        if d["depth"]:
            d["then_every_sequence_of_depth_elements_from"] = _s(f[7]).split(",")
        d["files"] = _s(f[2]).split(",")
        return d
    except Exception:
        return p


def post(ctx, cases, gores, model):
    """a file outside the root came back: a violation whatever the model says"""
    n = 0
    by_file = {}
    for i in sorted(cases, key=lambda i: (len(cases[i]), i)):
        g = gores.get(i, "")
        if cases[i][0] in "RI" and any(x.startswith("O") for x in g.split(",")):
            n += 1
            for x in g.split(","):
                if x.startswith("O"):
                    by_file[x] = by_file.get(x, 0) + 1
            if n <= 2:
                rp = checklib.write_replay(ctx, "input", {"payload": cases[i], "readable": decode(cases[i])},
                                           "no O<n> entry (resolve_confined)", g,
                                           f"./check {ctx.prop} --replay <this file>", tag="outside")
                checklib.violation(ctx, rp, f"content of a file OUTSIDE the root returned: go={g[:80]!r}")
    ctx.coverage["outside_results"] = n
    if by_file:
        ctx.coverage["outside_by_file"] = by_file
    ctx.coverage["paths_resolved"] = sum(len(g.split(",")) for i, g in gores.items() if cases.get(i, " ")[0] in "RI")
    ctx.coverage["files_opened_inside"] = sum(sum(1 for x in g.split(",") if x.startswith("I"))
                                              for i, g in gores.items() if cases.get(i, " ")[0] in "RI")


SPEC = dict(
    lean_modules=["Ecal.Props.C17"],
    shards=16,
    rule=("cases: (a) P lines = pairs of strings (all pairs (a,b) of strings of <=3 (quick; thorough: a <=4, b <=3) elements over "
          "{a,b,.,..,''} joined by '/', plus random byte strings) through filepath.Clean/Join/Rel vs. the model's; "
          "(b) R lines = FileImportLocator.Resolve in a real directory tree with sentinel files inside and outside the root "
          "(sibling with the root's name as prefix, parent, grandparent, another absolute location), 18 root spellings "
          "(absolute, relative, '.', '', '..', trailing slash, nested, with '..', repeated separators) x every path of "
          "<=5 (quick) / <=6 (thorough) elements over {nm,.,..,'',/nm,a.b,'a b',..x,rootX,root} (one line = one prefix with "
          "all 100 two-element continuations) plus random longer paths with arbitrary bytes; (c) I lines = the same through "
          "`import \"<path>\" as x` in the interpreter. Compared: which file's content came back (inside / OUTSIDE) or error, "
          "per path. Non-trivial = a P line, or an R/I line on which at least one path opens an existing file."),
    exhaustive="all element sequences up to the stated length for every listed root spelling; all pairs for the primitives",
    trusted_base=[
        "the kernel's path walk agrees with the lexical walk on cleaned paths in a tree without symbolic links (the harness's tree has none)",
        "ioutil.ReadFile opens exactly the string it is given",
    ],
    assumptions=["no symbolic links below or above the root (the property is lexical)",
                 "Unix path semantics (separator '/', no volume names)"],
    decode=decode,
    post=post,
)

META = dict(
    technique=("Lean 4 theorems over an element-list model of filepath.Clean/Join/Rel and of FileImportLocator.Resolve + "
               "differential correspondence with Go's filepath and with Resolve / import in a real directory tree"),
    level_text=("Proof: for all byte strings root and p, if Resolve opens q then q is cleaned, has the cleaned root's elements as a "
                "prefix followed only by ordinary names, and the node it denotes from any working directory is the root's node "
                "extended downwards; otherwise nothing is opened. Model tied to Go's filepath.Clean/Join/Rel and to Resolve by an "
                "exhaustive-for-short / random-for-long differential run in a real directory tree."),
    level_note=("Trusted: Lean kernel + propext/Classical.choice/Quot.sound; the correspondence harness; lexical property "
                "(symbolic links out of scope); Unix separators."),
)


def run(ctx):
    return checklib.standard(ctx, SPEC)
