"""C17 — file imports cannot escape the configured root directory."""
import json
import os
import re
import shutil
import subprocess

import checklib

GEN = os.path.join(checklib.LEAN, "Ecal", "Gen", "C17.lean")


def extract(ctx):
    """regenerate lean/Ecal/Gen/C17.lean (where the Root of every FileImportLocator literal comes from) from the
    tree under test. A root the extractor cannot follow is neither an error nor an alarm: it is listed as
    `unknown`, noted in the evidence, and the harness (which repeats the extraction) amplifies the T / J cases."""
    binp = checklib.go_build(ctx)
    previous = open(GEN).read() if os.path.exists(GEN) else None
    if previous is not None:
        os.remove(GEN)
    p = subprocess.run([binp, "C17", "-tool", "extract", GEN], stdout=subprocess.PIPE, stderr=subprocess.STDOUT, text=True,
                       env=dict(checklib.GOENV, VERIF_REPO=checklib.REPO), cwd=ctx.work, timeout=120)
    if p.returncode != 0 or not os.path.exists(GEN):
        if previous is None:
            raise checklib.CheckError("C17: no generated facts and the extractor failed: " + p.stdout[-500:])
        open(GEN, "w").write(previous)
        ctx.notes.append("C17 facts NOT regenerated (extractor failed: %s); the committed Gen/C17.lean was used, cases amplified"
                         % " ".join(p.stdout.split())[:300])
        return
    rows = [l.split("\t") for l in p.stdout.splitlines() if l.count("\t") >= 3]
    ctx.coverage["source_facts"] = [{"group": r[0], "site": r[1], "what": r[2], "verdict": r[3], "why": (r[4] if len(r) > 4 else "").strip()}
                                    for r in rows]
    for r in rows:
        if "unknown" in r[3] or "REFUTED" in r[3]:
            ctx.notes.append("source fact (%s) %s at %s: %s (%s)" % (r[0], r[2], r[1], r[3], (r[4] if len(r) > 4 else "").strip()))
    ctx.log("source facts:", "; ".join("%s %s [%s]" % (r[1].split(".")[-1], r[2], r[3]) for r in rows))


def _s(h):
    return "" if h == "-" else bytes.fromhex(h).decode("utf8", "backslashreplace")


def decode(p):
    f = p.split(" ")
    try:
        if f[0] == "P":
            return {"kind": "Clean(a), Join(a,b), Rel(a,b)", "a": _s(f[1]), "b": _s(f[2])}
        f[0] = f[0].upper()
        if f[0] == "J":
            return {"kind": "import statement in a program parsed under a source name", "cwd": "B/" + _s(f[1]),
                    "locator_root": _s(f[3]), "root_is": "B/" + _s(f[4]), "source_name": _s(f[5]), "import_path": _s(f[6]),
                    "files (pos>inner = module importing inner)": _s(f[2]).split(",")}
        if f[0] in "TUV":
            d = {"kind": ("cli/tool: CLIInterpreter{Dir}.CreateRuntimeProvider + entry file with the import statement" if f[0] == "T" else
                          "cli/tool CLIInterpreter.Interpret(false) over `ecal run [-dir <dir>] -loglevel Error <entry file>`" if f[0] == "U" else
                          "cli/tool CLIInterpreter.Interpret(false) over `ecal run [-dir <dir>] -loglevel Error`, import typed at the console (HandleInput)"),
                 "cwd": "B/" + _s(f[1]), "configured_dir": ("(no -dir)" if f[3] == "~" else _s(f[3])), "model_root": _s(f[4]), "root_is": "B/" + _s(f[5]),
                 "path_prefix": None if f[6] == "~" else _s(f[6]), "depth": int(f[7]),
                 "tree_also_has": "top/dlink -> nowhere (dangling), top/lnin -> root/sub, top/lnout -> ../abs"}
            if d["depth"]:
                d["then_every_sequence_of_depth_elements_from"] = _s(f[8]).split(",")
            d["files"] = _s(f[2]).split(",")
            return d
        d = {"kind": {"R": "Resolve", "I": "import statement", "N": "import statement, provider's default locator"}.get(f[0], f[0]), "cwd": "B/" + _s(f[1]), "root": _s(f[3]),
             "root_is": "B/" + _s(f[4]), "path_prefix": None if f[5] == "~" else _s(f[5]), "depth": int(f[6])}
        if d["depth"]:
            d["then_every_sequence_of_depth_elements_from"] = _s(f[7]).split(",")
        d["files"] = _s(f[2]).split(",")
        return d
    except Exception:
        return p


def _unbatch(payload, g, m):
    """the payload of the first path on which the batched results g and m differ, as a line of its own"""
    f = payload.split(" ")
    gs, ms = g.split(","), m.split(",")
    k = next((j for j in range(min(len(gs), len(ms))) if gs[j] != ms[j]), None)
    nine = f[0].upper() in "TUV"
    pre_i, dep_i, alp_i = (6, 7, 8) if nine else (5, 6, 7)
    if k is None or len(f) != (9 if nine else 8) or f[dep_i] == "0":
        return None
    alpha = _sb(f[alp_i]).split(b",")
    depth = int(f[dep_i])
    ext = []
    for _ in range(depth):
        ext.append(alpha[k % len(alpha)])
        k //= len(alpha)
    ext.reverse()
    if f[pre_i] == "~":
        path = b"/".join(ext)
    else:
        path = _sb(f[pre_i]) + b"".join(b"/" + e for e in ext)
    f[pre_i], f[dep_i], f[alp_i] = (path.hex() if path else "-"), "0", "-"
    return " ".join(f)


def _sb(h):
    return b"" if h == "-" else bytes.fromhex(h)


# ------------------------------------------------------------------ one-sided comparison
# The property constrains what may be OPENED and RETURNED, not that something must be: per path the real code
# is wrong only if it returns content of a file outside the root, content together with an error, content of
# another file than the path names, content the model does not predict without an observed open, or if it OPENS
# (hook) a string that the Spec `inside` forbids. A stricter rejection, a cache hit after the test, an error
# although the file exists, a differently spelled open that is inside = notes.

def _obs(line):
    out = []
    for x in line.split(","):
        ev, _, res = x.rpartition("=")
        out.append((ev, res) if "=" in x else ("", x))
    return out


def _one(gev, gres, mev, mres):
    """('ok'|'note'|'judge'|'viol', text)"""
    if gres.startswith("O"):
        return "viol", "content of a file OUTSIDE the root returned"
    if gres == "E+":
        return "viol", "content returned together with an error"
    if not (gres in ("rej", "E") or re.fullmatch(r"I\d+", gres)):
        return "viol", "unexpected result " + gres[:60]
    if (gev, gres) == (mev, mres):
        return "ok", ""
    noev = gev in ("-", "?", "")
    if gres.startswith("I"):
        if mres.startswith("I") and mres != gres:
            return "viol", "content of another file than the path names (model: %s)" % mres
        if noev:
            if mres == gres:
                return ("ok", "") if gev == "?" or mev == "?" else ("note", "content without an observed open (cache after the test?)")
            return "viol", "content without an observed open where the model predicts " + mres
        if gev == mev:
            return "viol", "content although the opened path names no file in the tree"
        return "judge", ""
    # the real code answers with an error
    if noev:
        if mres in ("rej", "E") and mev in ("-", "?", ""):
            return "ok", ""
        return "note", "stricter: error and no open where the model opens"
    if gev == mev:
        return "note", "error although the opened file exists"
    return "judge", ""


def _line_verdicts(g, m):
    go, mo = _obs(g), _obs(m)
    if len(go) != len(mo):
        return [("viol", "result has %d entries, the model %d" % (len(go), len(mo)))]
    out = []
    for (gev, gres), (mev, mres) in zip(go, mo):
        worst = ("ok", "")
        for cls in gres.split("+"):
            v = _one(gev, cls, mev, mres)
            if ["ok", "note", "judge", "viol"].index(v[0]) > ["ok", "note", "judge", "viol"].index(worst[0]):
                worst = v
        out.append(worst)
    return out


def equal(g, m, attrs):
    """pure: False only for a definite violation; differences that need the driver's judgement pass here and are judged in post()"""
    if g == m:
        return True
    if "=" not in g or "=" not in m or g.startswith(("PANIC", "CRASH", "HANG", "bad-payload", "CREATE-ERROR")):
        return False
    return all(v[0] != "viol" for v in _line_verdicts(g, m))


def _fields(payload):
    f = payload.split(" ")
    k = f[0].upper()
    root_i = 4 if k in "TUV" else 3
    return k, f, root_i


def _judge_many(ctx, items):
    """items: (payload, canonical opened string as hex); one driver run; -> [('in'|'out'|'bad', file index|'-')]"""
    lines = {}
    for j, (payload, q) in enumerate(items):
        k, f, root_i = _fields(payload)
        lines[j] = " ".join(["K", f[1], f[2], f[root_i], q])
    if not lines:
        return []
    res = checklib.run_driver(ctx, ctx.prop, lines, shards=4)
    out = []
    for j in range(len(items)):
        r = res.get(j, ("bad", {}))[0]
        out.append(tuple(r.split(",")) if "," in r else ("bad", "-"))
    return out


def _judge_open(ctx, payload, gev_full):
    """ask the model about every string the real code opened: ('in'|'out', file index|'-') per string"""
    return _judge_many(ctx, [(payload, q) for q in gev_full.split("|")])


def _run_lines(ctx, payloads, marked=False, strace_out=None):
    inp = os.path.join(ctx.work, "c17-lines-%d.txt" % len(os.listdir(ctx.work)))
    with open(inp, "w") as fh:
        for j, pl in enumerate(payloads):
            fh.write("%d\t%s\n" % (j, pl))
    cmd = [ctx.harness, ctx.prop, "-tool", "runlines-marked" if marked else "runlines", inp]
    if strace_out:
        cmd = ["strace", "-f", "-xx", "-s", "8192", "-e", "trace=%file", "-o", strace_out] + cmd
    pr = subprocess.run(cmd, stdout=subprocess.PIPE, stderr=subprocess.PIPE, text=True, cwd=ctx.work,
                        env=dict(checklib.GOENV, VERIF_REPO=checklib.REPO), timeout=900)
    out, base = {}, ""
    for l in pr.stdout.splitlines():
        if l.startswith("#base\t"):
            base = l.split("\t", 1)[1]
        elif "\t" in l and l.split("\t", 1)[0].isdigit():
            out[int(l.split("\t", 1)[0])] = l.split("\t", 1)[1]
    return out, base


def _single(payload, k):
    """the payload of path number k of a batched line, as a line of its own"""
    kind, f, _ = _fields(payload)
    nine = kind in "TUV"
    pre_i, dep_i, alp_i = (6, 7, 8) if nine else (5, 6, 7)
    if kind in "JC" or len(f) != (9 if nine else 8) or f[dep_i] == "0":
        return None
    alpha = _sb(f[alp_i]).split(b",")
    ext = []
    for _ in range(int(f[dep_i])):
        ext.append(alpha[k % len(alpha)])
        k //= len(alpha)
    ext.reverse()
    path = b"/".join(ext) if f[pre_i] == "~" else _sb(f[pre_i]) + b"".join(b"/" + e for e in ext)
    f = list(f)
    f[pre_i], f[dep_i], f[alp_i] = (path.hex() if path else "-"), "0", "-"
    return " ".join(f)


def _judge_path(ctx, payload, gobs, mobs):
    """final verdict for one single-path observation that needs judging"""
    gev, gres = gobs
    verdicts = _judge_open(ctx, payload, gev)
    for where, idx in verdicts:
        if where != "in":
            return "viol", "the real code OPENS a path that is not inside the root (hook), result %s" % gres
    # the content: what the model predicts for this path, or else the file the LAST opened string names
    if gres.startswith("I") and gres != mobs[1] and verdicts and verdicts[-1][1] != gres[1:]:
        return "viol", "content %s is not the file the opened path names (%s)" % (gres, verdicts[-1][1])
    return "note", "a differently spelled / shorter sequence of opens, all inside the root"


def _strace_sample(ctx, cases, n):
    """run a sample of R / I / J lines under strace and judge EVERY path handed to a file system call while a line runs"""
    if not shutil.which("strace"):
        ctx.notes.append("strace not available: file accesses that bypass the hook are covered by the source fact only")
        return
    idxs = [i for i in sorted(cases) if cases[i][0].upper() in "RIJ"]
    idxs = idxs[:: max(1, len(idxs) // n)][:n]
    trace = os.path.join(ctx.work, "c17-strace.txt")
    try:
        out, base = _run_lines(ctx, [cases[i] for i in idxs], marked=True, strace_out=trace)
    except Exception as e:
        ctx.notes.append("strace sample failed to run: %r" % (e,))
        return
    if not base or not os.path.exists(trace):
        ctx.notes.append("strace sample produced no trace")
        return
    par1, par2 = os.path.dirname(base), os.path.dirname(os.path.dirname(base))
    cur, seen, keys = None, 0, {}
    for l in open(trace, errors="replace"):
        m = re.match(r"\d+\s+(\w+)\((.*)", l)
        if not m:
            continue
        strs = re.findall(r'"((?:\\x[0-9a-f]{2})*)"', m.group(2))
        if not strs:
            continue
        path = bytes.fromhex(strs[0].replace("\\x", "")).decode("latin1")
        if path.startswith("/c17-marker/"):
            t = path.rsplit("/", 1)[1]
            cur = int(t) if t.isdigit() else None
            continue
        if cur is None or m.group(1) in ("chdir", "execve", "getcwd"):
            continue
        if path.startswith(("/proc/", "/sys/", "/dev/", "/etc/", "/usr/", "/lib")):
            continue
        if m.group(1) in ("newfstatat", "stat", "lstat", "statx", "fstatat64") and (
                path == "." or (path.startswith("/") and (base + "/").startswith(path.rstrip("/") + "/"))):
            continue  # os.Getwd's probing of "." and $PWD (an ancestor of the sandbox), not a path of the import
        seen += 1
        canon = path.replace(base[1:], "@B").replace(par1[1:], "@1").replace(par2[1:], "@2").replace(os.path.basename(base), "@:")
        if len(keys) < 20000:
            keys.setdefault((cur, canon), m.group(1))
    klist = sorted(keys)
    verdicts = _judge_many(ctx, [(cases[idxs[c]], q.encode("latin1").hex() or "-") for c, q in klist])
    bad = [(c, keys[(c, q)], q) for (c, q), v in zip(klist, verdicts) if v[0] != "in"]
    ctx.coverage["strace_lines"] = len(idxs)
    ctx.coverage["strace_file_syscalls_judged"] = seen
    for cur, sysc, canon in bad[:2]:
        i = idxs[cur]
        rp = checklib.write_replay(ctx, "input", {"payload": cases[i], "readable": decode(cases[i]), "syscall": sysc, "path": canon},
                                   "every path handed to a file system call while the line runs is inside the root (Spec inside)",
                                   "%s(%s)" % (sysc, canon), "strace -f -e trace=%%file harness C17 -tool runlines-marked <file with this payload>",
                                   tag="strace")
        checklib.violation(ctx, rp, "file access outside the root seen by strace (not at the hook): %s(%r)" % (sysc, canon[:100]))
    if bad:
        ctx.coverage["strace_outside_accesses"] = len(bad)


def post(ctx, cases, gores, model):
    notes, tojudge, nviol = {}, [], 0
    by_file = {}
    for i in sorted(cases, key=lambda i: (len(cases[i]), i)):
        if cases[i][0] not in KINDS + "Cc":
            continue
        g, m = gores.get(i, ""), model.get(i, ("", {}))[0]
        for x in g.split(","):
            r = x.split("=")[-1]
            for cls in r.split("+"):
                if cls.startswith("O"):
                    by_file[cls] = by_file.get(cls, 0) + 1
        if g == m or "=" not in g or "=" not in m:
            continue
        for k, (v, text) in enumerate(_line_verdicts(g, m)):
            if v == "note":
                notes[text] = notes.get(text, 0) + 1
            elif v == "judge":
                tojudge.append((i, k))
            elif v == "viol":
                nviol += 1
    ctx.coverage["outside_results"] = sum(by_file.values())
    if by_file:
        ctx.coverage["outside_by_file"] = by_file
    # strings the real code opened that differ from the model's: full strings (batched lines print digests: run the path
    # alone), then the model judges them against the Spec
    CAP = 300
    singles = []
    for i, k in tojudge[:CAP]:
        sp = _single(cases[i], k)
        singles.append(sp if sp is not None else cases[i])
    judged_viol = 0
    if singles:
        try:
            gout, _ = _run_lines(ctx, singles)
            mout = checklib.run_driver(ctx, ctx.prop, dict(enumerate(singles)), shards=4)
        except Exception as e:
            gout, mout = {}, {}
            ctx.notes.append("judging run failed: %r" % (e,))
        for j, sp in enumerate(singles):
            g1, m1 = gout.get(j, "MISSING"), mout.get(j, ("MISSING", {}))[0]
            if "=" not in g1 or "=" not in m1:
                continue
            for (v, text), gobs, mobs in zip(_line_verdicts(g1, m1), _obs(g1), _obs(m1)):
                if v == "judge":
                    v, text = _judge_path(ctx, sp, gobs, mobs)
                if v == "note":
                    notes[text] = notes.get(text, 0) + 1
                elif v == "viol":
                    judged_viol += 1
                    if judged_viol <= 2:
                        rp = checklib.write_replay(ctx, "input", {"payload": sp, "readable": decode(sp)}, m1, g1,
                                                   f"./check {ctx.prop} --replay <this file>", tag="judged")
                        checklib.violation(ctx, rp, "%s: go=%r model=%r" % (text, g1[:100], m1[:100]))
    if len(tojudge) > CAP:
        notes["differently spelled opens not judged individually (beyond the first %d)" % CAP] = len(tojudge) - CAP
    ctx.coverage["one_sided_notes"] = notes
    ctx.coverage["opens_judged_against_inside"] = min(len(tojudge), CAP)
    for text, n in sorted(notes.items()):
        ctx.notes.append("%d paths: %s (allowed by the property; noted)" % (n, text))
    # the dynamic backstop for file accesses the hook does not see
    _strace_sample(ctx, cases, 600 if ctx.tier == "thorough" else 40)
    ctx.coverage["paths_resolved"] = sum(len(g.split(",")) for i, g in gores.items() if cases.get(i, " ")[0] in KINDS)
    ctx.coverage["files_opened_inside"] = sum(sum(1 for x in g.split(",") if x.split("=")[-1].startswith("I"))
                                              for i, g in gores.items() if cases.get(i, " ")[0] in KINDS)
    ctx.coverage["opens_observed_at_the_hook"] = sum(sum(1 for x in g.split(",") if x[:1] not in "-?")
                                                     for i, g in gores.items() if cases.get(i, " ")[0] in KINDS)
    hookless = sum(1 for i in cases if cases[i][0] in "rijtuvnc")
    ctx.coverage["hook_present"] = hookless == 0
    if hookless:
        # the open itself is the observable of this property: a tree without the instrumentation point cannot be checked
        rp = checklib.write_replay(ctx, "obligation", {"missing": 'verifhook.At("c17.open", <path>) directly before the read in FileImportLocator.Resolve'},
                                   "the instrumentation point c17.open exists in package util (hooks/C17.patch)", "not found / never fires",
                                   f"grep -n c17.open {checklib.REPO}/util/*.go", tag="hook")
        checklib.violation(ctx, rp, "instrumentation removed: no c17.open point in FileImportLocator.Resolve - which files it opens cannot be observed")
    # obligations = property statements; regenerated source facts are listed apart
    thms = ctx.coverage.get("theorems", [])
    facts = [t for t in thms if t.startswith("Ecal.Props.C17Facts.")]
    if ctx.coverage.get("obligations") == ctx.coverage.get("discharged"):
        ctx.coverage["obligations"] = ctx.coverage["discharged"] = len(thms) - len(facts)
    else:
        ctx.coverage["obligations"] = len(thms) - len(facts)
        ctx.coverage["discharged"] = max(0, ctx.coverage.get("discharged", 0) - len(facts))
    ctx.coverage["source_fact_theorems"] = facts


def replay(ctx, path):
    """one case again: the real code, the model, the one-sided judgement"""
    obj = json.load(open(path))
    case = obj.get("case", {})
    if "payload" not in case:
        return checklib.replay(ctx, SPEC, path)
    ctx.harness = checklib.go_build(ctx)
    subprocess.run(["lake", "build", "driver"], cwd=checklib.LEAN, stdout=subprocess.DEVNULL, stderr=subprocess.DEVNULL)
    payload = case["payload"]
    gout, _ = _run_lines(ctx, [payload])
    g = gout.get(0, "MISSING")
    m = checklib.run_driver(ctx, ctx.prop, {0: payload}, shards=1).get(0, ("MISSING", {}))[0]
    print("case  :", case.get("readable", payload))
    print("go    :", g[:400])
    print("model :", m[:400])
    ok = True
    if g != m:
        if "=" not in g or "=" not in m:
            ok = False
        else:
            for k, ((v, text), gobs, mobs) in enumerate(zip(_line_verdicts(g, m), _obs(g), _obs(m))):
                if v == "judge":
                    sp = _single(payload, k) or payload
                    g1 = _run_lines(ctx, [sp])[0].get(0, "MISSING")
                    v, text = _judge_path(ctx, sp, _obs(g1)[0], mobs) if "=" in g1 else ("viol", "no result")
                if v != "ok":
                    print("path %d: %s: %s (go %s, model %s)" % (k, v, text, "=".join(gobs)[:80], "=".join(mobs)[:80]))
                if v == "viol":
                    ok = False
    if case.get("syscall"):
        # found by the strace sample: run this one line under strace again and judge every path it hands to the file system
        before = len(ctx.violations)
        _strace_sample(ctx, {0: payload}, 1)
        print("strace: %d file system calls judged, %d outside the root" % (ctx.coverage.get("strace_file_syscalls_judged", 0),
                                                                          ctx.coverage.get("strace_outside_accesses", 0) or 0))
        if len(ctx.violations) > before:
            return 1
    print("agree :", ok)
    if not ok:
        print(f"VIOLATION property={ctx.prop} replay={os.path.relpath(path, checklib.VERIF)}")
    return 0 if ok else 1


KINDS = "RIJTUVNrijtuvn"   # + C (concurrent) lines

SPEC = dict(
    lean_modules=["Ecal.Props.C17", "Ecal.Props.C17Facts"],
    shards=16,
    rule=("cases: (a) P lines = pairs (a,b) of strings (a <=4, b <=3 elements over {a,b,.,..,''} joined by '/', all pairs; plus random "
          "byte strings) through filepath.Clean/Join/Rel vs. the model's. (b) R lines = FileImportLocator.Resolve (one locator per line) "
          "in a real directory tree with sentinel files inside and outside the root (sibling with the root's name as prefix, parent, "
          "grandparent, another absolute location = $HOME), 29 listed root spellings (absolute, relative, '.', '', '..', trailing slash, "
          "nested, with '..', repeated separators, names with blank / dot / leading dots, roots ABOVE the tree: '/', parent, "
          "grandparent) + random spellings located by the kernel x every path of <=5 elements over {nm,.,..,'',/nm,a.b,'a b',..x,"
          "rootX,root} (one line = one prefix with all 100 two-element continuations; length 6 for all roots in the thorough tier and "
          "for one seed-rotated root in the quick tier), every path of <=3 elements over that alphabet + {$u.. ${u}.. %2e%2e ..%2f ~ "
          "..\\ ... '.. ' ' ..' ..NUL} (names that a rewrite after the test would turn into '..'), random longer paths with arbitrary "
          "bytes. (c) I lines = the same through `import \"<path>\" as x` in the interpreter (paths a literal cannot carry go through "
          "an interpolated value); N = with the provider's default locator. (d) T / U / V lines = the real cli/tool: CLIInterpreter{Dir}."
          "CreateRuntimeProvider + LoadInitialFile (T), the whole CLIInterpreter.Interpret(false) over `ecal run [-dir d] <entry>` (U: ParseArgs, LoadStdlibPlugins, CreateTerm, CreateRuntimeProvider, LoadInitialFile) or with the import typed at the console (V: HandleInput); Dir in "
          "{existing, MISSING, a file, DANGLING symlink, symlink to a directory (modelled as its target), '', '.', none}. (e) J lines "
          "= import statements in programs parsed under source NAMES {plain, with directories, starting with '..', absolute, equal "
          "to files outside the root, ''} x import paths (plain, './', '../' prefixed, leading to module files that import again). "
          "C lines = ONE locator used by two goroutines (an outside and an inside path, 2x10^4 / 2x10^5 rounds). "
          "Compared per path, ONE-SIDED (the property says what may be opened and returned, not that something must be): a violation "
          "is content of a file OUTSIDE the root (O<n>, whatever the model says), content together with an error (E+), content of "
          "another file than the path names, content without an observed open that the model does not predict, and any string "
          "reaching the open (verifhook point c17.open directly before ReadFile) that the Spec `inside` forbids (the driver judges the "
          "real code's string with insideB, proved equal to `inside`; batched lines print digests, a differing path is run alone "
          "first). A stricter rejection, a cache hit after the test, an error although the file exists, a differently spelled open "
          "that is inside = notes in the evidence. A tree WITHOUT the c17.open point is a violation (the open is the observable). "
          "Dynamic backstop: a sample of R/I/J lines (40 quick, 600 thorough) runs under `strace -f -e trace=%file`; every path handed "
          "to a file system call while a line runs is judged against `inside` (Getwd's stat of '.'/$PWD, /proc /sys /dev /etc /usr /lib "
          "ignored). Regenerated three-valued source facts (Option Bool in Lean; only REFUTED breaks; unknown is noted and enlarges the "
          "T/U/V/J/extended-alphabet cases, which re-run the same tree and alphabets and so have no trigger of their own for what was "
          "unknown): locator roots; no other file access (calls reachable from Resolve with helpers followed at their call site: none "
          "before the test / in its rejecting branch / handed anything but the tested LOCAL variable; none at all reachable from "
          "importRuntime.Eval; cli/tool's own entry / log / config reads listed); receiver and argument of Resolve in Eval. "
          "Non-trivial = a P line, or another line on which at least one path opens an existing file."),
    exhaustive="all element sequences up to the stated length for every listed root spelling; all pairs for the primitives",
    trusted_base=[
        "the kernel's path walk agrees with the lexical walk on cleaned paths in a tree without symbolic links (the harness's tree has none)",
        "ioutil.ReadFile opens exactly the string it is given",
        "go/ast extractors of the source facts (go/cmd/harness/c17tool.go, c17tool2.go): tables of (value, error) / string-rewriting / "
        "file-system library functions, calls qualified through the files' import tables (no go/types: the source importer does not "
        "resolve modules offline); they follow local definitions, writes to struct fields and same-package calls; the polarity of a "
        "guard is not analysed; anything else is reported as unknown, never as a negative",
        "strace (when installed) for the sample of lines run under it; its -xx string output and the marker stats that attribute "
        "system calls to lines",
        "statelessness of Resolve is checked only as far as the cases go: one locator per line, two goroutines on one locator in the "
        "C lines, package state shared within a shard, plus the source fact that the tested value is a local variable",
    ],
    assumptions=["no symbolic links below or above the root (the property is lexical)",
                 "Unix path semantics (separator '/', no volume names)",
                 "the tree under test keeps the instrumentation point c17.open directly before the read in Resolve (checked: its absence "
                 "is reported as a violation)",
                 "file accesses of Resolve / importRuntime.Eval other than the hooked read are excluded by the source fact (go/ast, "
                 "unknown = not an alarm) and by the strace sample, not by the model; code gated by environment variables or other "
                 "triggers the cases do not set is covered by the source fact only",
                 "cli/tool reads its own entry file, log file and <dir>/.ecal.json by design (not imports)"],
    decode=decode,
    post=post,
    extract=extract,
    equal=equal,
)

META = dict(
    technique=("Lean 4 theorems over an element-list model AND a byte-level model (Go's index loops, proved equal) of filepath.Clean/"
               "Join/Rel, of FileImportLocator.Resolve and of the import statement + one-sided differential correspondence with Go's "
               "filepath and with Resolve / import / the command line tool in a real directory tree, observing the open itself (hook) "
               "and, on a sample, every file system call (strace); regenerated three-valued source facts"),
    level_text=("Proof about the model: for all byte strings root and p, if the MODEL of Resolve (byte-level or element-level) opens q "
                "then q is cleaned, has the cleaned root's elements as a prefix followed only by ordinary names, and the node it denotes "
                "from any working directory is the root's node extended downwards; otherwise nothing is opened; nested import statements "
                "open only such q whatever the source names are, PROVIDED the regenerated fact establishes that importRuntime.Eval calls "
                "the configured locator. Tie: every string the real code hands to the open is judged against the proved Spec and every "
                "returned content against the file the path names, exhaustively for short and randomly for long paths; the model's own "
                "prediction is compared too, differences the property allows are noted, not failed."),
    level_note=("Trusted: Lean kernel + propext/Classical.choice/Quot.sound; the correspondence harness, the verifhook point c17.open "
                "(mandatory; it reports the variable, the source fact says the read's argument is that local variable), strace for the "
                "sampled lines; the kernel's path walk = the lexical walk on cleaned paths without symbolic links; ReadFile opens its "
                "argument; the go/ast fact extractors (no go/types; 'unknown' is not an alarm). 'No file access besides the hooked read' "
                "rests on the source fact + the strace sample, not on a proof. Lexical property (symbolic links out of scope); Unix "
                "separators; sequential use plus two-goroutine lines."),
)


def run(ctx):
    return checklib.standard(ctx, SPEC)
