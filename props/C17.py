"""C17 — file imports cannot escape the configured root directory."""
import os
import re
import subprocess

import checklib

GEN = os.path.join(checklib.LEAN, "Ecal", "Gen", "C17.lean")


def extract(ctx):
    """regenerate lean/Ecal/Gen/C17.lean (where the Root of every FileImportLocator literal comes from) from the
    tree under test. A root the extractor cannot follow is neither an error nor an alarm: it is listed as
    `unknown`, noted in the evidence, and the harness (which repeats the extraction) amplifies the T / J cases."""
    binp = checklib.go_build(ctx)
    previous = open(GEN).read() if os.path.exists(GEN) else None
    if previous is not None:
        os.remove(GEN)
    p = subprocess.run([binp, "C17", "-tool", "extract", GEN], stdout=subprocess.PIPE, stderr=subprocess.STDOUT, text=True,
                       env=dict(checklib.GOENV, VERIF_REPO=checklib.REPO), cwd=ctx.work, timeout=120)
    if p.returncode != 0 or not os.path.exists(GEN):
        if previous is None:
            raise checklib.CheckError("C17: no generated facts and the extractor failed: " + p.stdout[-500:])
        open(GEN, "w").write(previous)
        ctx.notes.append("C17 facts NOT regenerated (extractor failed: %s); the committed Gen/C17.lean was used, cases amplified"
                         % " ".join(p.stdout.split())[:300])
        return
    rows = [l.split("\t") for l in p.stdout.splitlines() if l.count("\t") >= 2]
    ctx.coverage["locator_roots"] = [{"site": r[0], "root": r[1], "verdict": r[2], "why": (r[3] if len(r) > 3 else "")} for r in rows]
    for r in rows:
        if r[2] != "configured":
            ctx.notes.append("locator root %s at %s: %s (%s)" % (r[1], r[0], r[2], r[3] if len(r) > 3 else ""))
    ctx.log("locator roots:", "; ".join("%s <- %s [%s]" % (r[0].split(":")[-1], r[1], r[2]) for r in rows))


def _s(h):
    return "" if h == "-" else bytes.fromhex(h).decode("utf8", "backslashreplace")


def decode(p):
    f = p.split(" ")
    try:
        if f[0] == "P":
            return {"kind": "Clean(a), Join(a,b), Rel(a,b)", "a": _s(f[1]), "b": _s(f[2])}
        if f[0] == "J":
            return {"kind": "import statement in a program parsed under a source name", "cwd": "B/" + _s(f[1]),
                    "locator_root": _s(f[3]), "root_is": "B/" + _s(f[4]), "source_name": _s(f[5]), "import_path": _s(f[6]),
                    "files (pos>inner = module importing inner)": _s(f[2]).split(",")}
        if f[0] == "T":
            d = {"kind": "cli/tool: CLIInterpreter{Dir}.CreateRuntimeProvider + entry file with the import statement",
                 "cwd": "B/" + _s(f[1]), "configured_dir": _s(f[3]), "model_root": _s(f[4]), "root_is": "B/" + _s(f[5]),
                 "path_prefix": None if f[6] == "~" else _s(f[6]), "depth": int(f[7]),
                 "tree_also_has": "top/dlink -> nowhere (dangling), top/lnin -> root/sub, top/lnout -> ../abs"}
            if d["depth"]:
                d["then_every_sequence_of_depth_elements_from"] = _s(f[8]).split(",")
            d["files"] = _s(f[2]).split(",")
            return d
        d = {"kind": "Resolve" if f[0] == "R" else "import statement", "cwd": "B/" + _s(f[1]), "root": _s(f[3]),
             "root_is": "B/" + _s(f[4]), "path_prefix": None if f[5] == "~" else _s(f[5]), "depth": int(f[6])}
        if d["depth"]:
            d["then_every_sequence_of_depth_elements_from"] = _s(f[7]).split(",")
        d["files"] = _s(f[2]).split(",")
        return d
    except Exception:
        return p


def post(ctx, cases, gores, model):
    """a file outside the root came back: a violation whatever the model says"""
    n = 0
    by_file = {}
    for i in sorted(cases, key=lambda i: (len(cases[i]), i)):
        g = gores.get(i, "")
        if cases[i][0] in "RIJT" and any(x.startswith("O") for x in g.split(",")):
            n += 1
            for x in g.split(","):
                if x.startswith("O"):
                    by_file[x] = by_file.get(x, 0) + 1
            if n <= 2:
                rp = checklib.write_replay(ctx, "input", {"payload": cases[i], "readable": decode(cases[i])},
                                           "no O<n> entry (resolve_confined)", g,
                                           f"./check {ctx.prop} --replay <this file>", tag="outside")
                checklib.violation(ctx, rp, f"content of a file OUTSIDE the root returned: go={g[:80]!r}")
    ctx.coverage["outside_results"] = n
    if by_file:
        ctx.coverage["outside_by_file"] = by_file
    ctx.coverage["paths_resolved"] = sum(len(g.split(",")) for i, g in gores.items() if cases.get(i, " ")[0] in "RIJT")
    ctx.coverage["files_opened_inside"] = sum(sum(1 for x in g.split(",") if x.startswith("I"))
                                              for i, g in gores.items() if cases.get(i, " ")[0] in "RIJT")


SPEC = dict(
    lean_modules=["Ecal.Props.C17"],
    shards=16,
    rule=("cases: (a) P lines = pairs of strings (all pairs (a,b) of strings of <=3 (quick; thorough: a <=4, b <=3) elements over "
          "{a,b,.,..,''} joined by '/', plus random byte strings) through filepath.Clean/Join/Rel vs. the model's; "
          "(b) R lines = FileImportLocator.Resolve in a real directory tree with sentinel files inside and outside the root "
          "(sibling with the root's name as prefix, parent, grandparent, another absolute location), 18 root spellings "
          "(absolute, relative, '.', '', '..', trailing slash, nested, with '..', repeated separators) x every path of "
          "<=5 (quick) / <=6 (thorough) elements over {nm,.,..,'',/nm,a.b,'a b',..x,rootX,root} (one line = one prefix with "
          "all 100 two-element continuations) plus random longer paths with arbitrary bytes; (c) I lines = the same through "
          "`import \"<path>\" as x` in the interpreter. Compared: which file's content came back (inside / OUTSIDE) or error, "
          "per path. (d) T lines = the real cli/tool: CLIInterpreter{Dir}.CreateRuntimeProvider then an entry file with the import "
          "statement through LoadInitialFile, Dir in {existing, MISSING, a file, DANGLING symlink, symlink to a directory inside / "
          "outside (modelled as its target), '', '.'} from working directories that hold sentinel files: with a missing / dangling "
          "root every import must fail. (e) J lines = import statements in entry programs parsed under source NAMES {plain, with "
          "directories, starting with '..', absolute, equal to files outside the root, ''} x import paths (plain, './', '../' "
          "prefixed, leading to module files that import again) x 18 roots. A regenerated source fact (where every "
          "FileImportLocator literal's Root comes from; three-valued) is a Lean obligation; a root that is not established "
          "amplifies (d) and (e). Non-trivial = a P line, or another line on which at least one path opens an existing file."),
    exhaustive="all element sequences up to the stated length for every listed root spelling; all pairs for the primitives",
    trusted_base=[
        "the kernel's path walk agrees with the lexical walk on cleaned paths in a tree without symbolic links (the harness's tree has none)",
        "ioutil.ReadFile opens exactly the string it is given",
        "go/ast extractor of the locator-root fact (go/cmd/harness/c17tool.go): table of (value, error) library functions; "
        "follows local definitions and same-package calls; anything else is reported as unknown, never as a negative",
    ],
    assumptions=["no symbolic links below or above the root (the property is lexical)",
                 "Unix path semantics (separator '/', no volume names)"],
    decode=decode,
    post=post,
    extract=extract,
)

META = dict(
    technique=("Lean 4 theorems over an element-list model of filepath.Clean/Join/Rel and of FileImportLocator.Resolve + "
               "differential correspondence with Go's filepath and with Resolve / import in a real directory tree"),
    level_text=("Proof: for all byte strings root and p, if Resolve opens q then q is cleaned, has the cleaned root's elements as a "
                "prefix followed only by ordinary names, and the node it denotes from any working directory is the root's node "
                "extended downwards; otherwise nothing is opened. Model tied to Go's filepath.Clean/Join/Rel and to Resolve by an "
                "exhaustive-for-short / random-for-long differential run in a real directory tree."),
    level_note=("Trusted: Lean kernel + propext/Classical.choice/Quot.sound; the correspondence harness; lexical property "
                "(symbolic links out of scope); Unix separators."),
)


def run(ctx):
    return checklib.standard(ctx, SPEC)
