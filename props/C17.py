"""C17 — file imports cannot escape the configured root directory."""
import os
import re
import subprocess

import checklib

GEN = os.path.join(checklib.LEAN, "Ecal", "Gen", "C17.lean")


def extract(ctx):
    """regenerate lean/Ecal/Gen/C17.lean (where the Root of every FileImportLocator literal comes from) from the
    tree under test. A root the extractor cannot follow is neither an error nor an alarm: it is listed as
    `unknown`, noted in the evidence, and the harness (which repeats the extraction) amplifies the T / J cases."""
    binp = checklib.go_build(ctx)
    previous = open(GEN).read() if os.path.exists(GEN) else None
    if previous is not None:
        os.remove(GEN)
    p = subprocess.run([binp, "C17", "-tool", "extract", GEN], stdout=subprocess.PIPE, stderr=subprocess.STDOUT, text=True,
                       env=dict(checklib.GOENV, VERIF_REPO=checklib.REPO), cwd=ctx.work, timeout=120)
    if p.returncode != 0 or not os.path.exists(GEN):
        if previous is None:
            raise checklib.CheckError("C17: no generated facts and the extractor failed: " + p.stdout[-500:])
        open(GEN, "w").write(previous)
        ctx.notes.append("C17 facts NOT regenerated (extractor failed: %s); the committed Gen/C17.lean was used, cases amplified"
                         % " ".join(p.stdout.split())[:300])
        return
    rows = [l.split("\t") for l in p.stdout.splitlines() if l.count("\t") >= 3]
    ctx.coverage["source_facts"] = [{"group": r[0], "site": r[1], "what": r[2], "verdict": r[3], "why": (r[4] if len(r) > 4 else "").strip()}
                                    for r in rows]
    for r in rows:
        if "unknown" in r[3] or "REFUTED" in r[3]:
            ctx.notes.append("source fact (%s) %s at %s: %s (%s)" % (r[0], r[2], r[1], r[3], (r[4] if len(r) > 4 else "").strip()))
    ctx.log("source facts:", "; ".join("%s %s [%s]" % (r[1].split(".")[-1], r[2], r[3]) for r in rows))


def _s(h):
    return "" if h == "-" else bytes.fromhex(h).decode("utf8", "backslashreplace")


def decode(p):
    f = p.split(" ")
    try:
        if f[0] == "P":
            return {"kind": "Clean(a), Join(a,b), Rel(a,b)", "a": _s(f[1]), "b": _s(f[2])}
        f[0] = f[0].upper()
        if f[0] == "J":
            return {"kind": "import statement in a program parsed under a source name", "cwd": "B/" + _s(f[1]),
                    "locator_root": _s(f[3]), "root_is": "B/" + _s(f[4]), "source_name": _s(f[5]), "import_path": _s(f[6]),
                    "files (pos>inner = module importing inner)": _s(f[2]).split(",")}
        if f[0] in "TUV":
            d = {"kind": ("cli/tool: CLIInterpreter{Dir}.CreateRuntimeProvider + entry file with the import statement" if f[0] == "T" else
                          "cli/tool CLIInterpreter.Interpret(false) over `ecal run [-dir <dir>] -loglevel Error <entry file>`" if f[0] == "U" else
                          "cli/tool CLIInterpreter.Interpret(false) over `ecal run [-dir <dir>] -loglevel Error`, import typed at the console (HandleInput)"),
                 "cwd": "B/" + _s(f[1]), "configured_dir": ("(no -dir)" if f[3] == "~" else _s(f[3])), "model_root": _s(f[4]), "root_is": "B/" + _s(f[5]),
                 "path_prefix": None if f[6] == "~" else _s(f[6]), "depth": int(f[7]),
                 "tree_also_has": "top/dlink -> nowhere (dangling), top/lnin -> root/sub, top/lnout -> ../abs"}
            if d["depth"]:
                d["then_every_sequence_of_depth_elements_from"] = _s(f[8]).split(",")
            d["files"] = _s(f[2]).split(",")
            return d
        d = {"kind": {"R": "Resolve", "I": "import statement", "N": "import statement, provider's default locator"}.get(f[0], f[0]), "cwd": "B/" + _s(f[1]), "root": _s(f[3]),
             "root_is": "B/" + _s(f[4]), "path_prefix": None if f[5] == "~" else _s(f[5]), "depth": int(f[6])}
        if d["depth"]:
            d["then_every_sequence_of_depth_elements_from"] = _s(f[7]).split(",")
        d["files"] = _s(f[2]).split(",")
        return d
    except Exception:
        return p


def _unbatch(payload, g, m):
    """the payload of the first path on which the batched results g and m differ, as a line of its own"""
    f = payload.split(" ")
    gs, ms = g.split(","), m.split(",")
    k = next((j for j in range(min(len(gs), len(ms))) if gs[j] != ms[j]), None)
    nine = f[0].upper() in "TUV"
    pre_i, dep_i, alp_i = (6, 7, 8) if nine else (5, 6, 7)
    if k is None or len(f) != (9 if nine else 8) or f[dep_i] == "0":
        return None
    alpha = _sb(f[alp_i]).split(b",")
    depth = int(f[dep_i])
    ext = []
    for _ in range(depth):
        ext.append(alpha[k % len(alpha)])
        k //= len(alpha)
    ext.reverse()
    if f[pre_i] == "~":
        path = b"/".join(ext)
    else:
        path = _sb(f[pre_i]) + b"".join(b"/" + e for e in ext)
    f[pre_i], f[dep_i], f[alp_i] = (path.hex() if path else "-"), "0", "-"
    return " ".join(f)


def _sb(h):
    return b"" if h == "-" else bytes.fromhex(h)


def post(ctx, cases, gores, model):
    """a file outside the root came back: a violation whatever the model says"""
    n = 0
    by_file = {}
    for i in sorted(cases, key=lambda i: (len(cases[i]), i)):
        g = gores.get(i, "")
        if cases[i][0] in KINDS and any(x.split("=")[-1].startswith("O") for x in g.split(",")):
            n += 1
            for x in g.split(","):
                if x.split("=")[-1].startswith("O"):
                    by_file[x.split("=")[-1]] = by_file.get(x.split("=")[-1], 0) + 1
            if n <= 2:
                rp = checklib.write_replay(ctx, "input", {"payload": cases[i], "readable": decode(cases[i])},
                                           "no O<n> entry (resolve_confined)", g,
                                           f"./check {ctx.prop} --replay <this file>", tag="outside")
                checklib.violation(ctx, rp, f"content of a file OUTSIDE the root returned: go={g[:80]!r}")
    ctx.coverage["outside_results"] = n
    # a line that carries many paths prints digests of the opened strings: on a mismatch run the first differing
    # path alone (unbatched), where both sides print the full strings, and report that as the replay
    expanded = 0
    for i in sorted(cases, key=lambda i: (len(cases[i]), i)):
        g, m = gores.get(i, ""), model.get(i, ("", {}))[0]
        if cases[i][0] not in KINDS or g == m or "," not in g:
            continue
        single = _unbatch(cases[i], g, m)
        if single is None:
            continue
        expanded += 1
        if expanded > 2:
            break
        try:
            pr = subprocess.run([ctx.harness, ctx.prop, "-one", single], stdout=subprocess.PIPE, stderr=subprocess.STDOUT, text=True,
                                cwd=ctx.work, env=checklib.GOENV, timeout=120)
            lines = [l for l in pr.stdout.splitlines() if l.strip()]
            go1 = lines[0] if lines else "NO-OUTPUT"
            m1 = checklib.run_driver(ctx, ctx.prop, {0: single}, shards=1).get(0, ("MISSING", {}))[0]
        except Exception as e:  # the unbatched rerun is a convenience: the batched line is reported anyway
            ctx.notes.append("unbatched rerun failed: %r" % (e,))
            continue
        if go1 != m1:
            rp = checklib.write_replay(ctx, "input", {"payload": single, "readable": decode(single), "found_in_batched_line": decode(cases[i])},
                                       m1, go1, f"./check {ctx.prop} --replay <this file>", tag="unbatched")
            checklib.violation(ctx, rp, "go=%r model=%r (first differing path of a batched line, run alone: opened strings in full, hex)"
                               % (go1[:120], m1[:120]))
        else:
            ctx.notes.append("a batched line differs (%r vs %r) but its first differing path agrees when run alone: the result depends on "
                             "the preceding paths of the line (state in the locator / package?)" % (g[:60], m[:60]))
    if by_file:
        ctx.coverage["outside_by_file"] = by_file
    ctx.coverage["paths_resolved"] = sum(len(g.split(",")) for i, g in gores.items() if cases.get(i, " ")[0] in KINDS)
    ctx.coverage["files_opened_inside"] = sum(sum(1 for x in g.split(",") if x.split("=")[-1].startswith("I"))
                                              for i, g in gores.items() if cases.get(i, " ")[0] in KINDS)
    ctx.coverage["opens_observed_at_the_hook"] = sum(sum(1 for x in g.split(",") if x[:1] not in "-?")
                                                     for i, g in gores.items() if cases.get(i, " ")[0] in KINDS)
    hookless = sum(1 for i in cases if cases[i][0] in "rijtuvn")
    ctx.coverage["hook_present"] = hookless == 0
    if hookless:
        ctx.notes.append("the tree under test has no verifhook.At(\"c17.open\", …) point in FileImportLocator.Resolve: the opened paths are "
                         "NOT observed in this run (content / error only)")
    # obligations = property statements; regenerated source facts are listed apart
    thms = ctx.coverage.get("theorems", [])
    facts = [t for t in thms if t.startswith("Ecal.Props.C17Facts.")]
    if ctx.coverage.get("obligations") == ctx.coverage.get("discharged"):
        ctx.coverage["obligations"] = ctx.coverage["discharged"] = len(thms) - len(facts)
    else:
        ctx.coverage["obligations"] = len(thms) - len(facts)
        ctx.coverage["discharged"] = max(0, ctx.coverage.get("discharged", 0) - len(facts))
    ctx.coverage["source_fact_theorems"] = facts


KINDS = "RIJTUVNrijtuvn"

SPEC = dict(
    lean_modules=["Ecal.Props.C17", "Ecal.Props.C17Facts"],
    shards=16,
    rule=("cases: (a) P lines = pairs (a,b) of strings (a <=4, b <=3 elements over {a,b,.,..,''} joined by '/', all pairs; plus random "
          "byte strings) through filepath.Clean/Join/Rel vs. the model's. (b) R lines = FileImportLocator.Resolve (one locator per line) "
          "in a real directory tree with sentinel files inside and outside the root (sibling with the root's name as prefix, parent, "
          "grandparent, another absolute location = $HOME), 29 listed root spellings (absolute, relative, '.', '', '..', trailing slash, "
          "nested, with '..', repeated separators, names with blank / dot / leading dots, roots ABOVE the tree: '/', parent, "
          "grandparent) + random spellings located by the kernel x every path of <=5 elements over {nm,.,..,'',/nm,a.b,'a b',..x,"
          "rootX,root} (one line = one prefix with all 100 two-element continuations; length 6 for all roots in the thorough tier and "
          "for one seed-rotated root in the quick tier), every path of <=3 elements over that alphabet + {$u.. ${u}.. %2e%2e ..%2f ~ "
          "..\\ ... '.. ' ' ..' ..NUL} (names that a rewrite after the test would turn into '..'), random longer paths with arbitrary "
          "bytes. (c) I lines = the same through `import \"<path>\" as x` in the interpreter (paths a literal cannot carry go through "
          "an interpolated value); N = with the provider's default locator. (d) T / U / V lines = the real cli/tool: CLIInterpreter{Dir}."
          "CreateRuntimeProvider + LoadInitialFile (T), the whole CLIInterpreter.Interpret(false) over `ecal run [-dir d] <entry>` (U: ParseArgs, LoadStdlibPlugins, CreateTerm, CreateRuntimeProvider, LoadInitialFile) or with the import typed at the console (V: HandleInput); Dir in "
          "{existing, MISSING, a file, DANGLING symlink, symlink to a directory (modelled as its target), '', '.', none}. (e) J lines "
          "= import statements in programs parsed under source NAMES {plain, with directories, starting with '..', absolute, equal "
          "to files outside the root, ''} x import paths (plain, './', '../' prefixed, leading to module files that import again). "
          "Compared per path, exactly: the strings that reached the open (verifhook point c17.open directly before ReadFile; B-"
          "independent spelling) and what came back: rej (an error and no open), E, E+ (error together with content), I<n> / O<n> (content "
          "of file n inside / OUTSIDE the root; any O is a violation whatever the model says). Regenerated three-valued source facts "
          "(locator roots; calls reachable from Resolve; receiver and argument of Resolve in importRuntime.Eval) are Lean obligations "
          "of their own; one that is not established amplifies (d), (e) and the extended alphabet. Non-trivial = a P line, or another "
          "line on which at least one path opens an existing file."),
    exhaustive="all element sequences up to the stated length for every listed root spelling; all pairs for the primitives",
    trusted_base=[
        "the kernel's path walk agrees with the lexical walk on cleaned paths in a tree without symbolic links (the harness's tree has none)",
        "ioutil.ReadFile opens exactly the string it is given",
        "go/ast extractors of the source facts (go/cmd/harness/c17tool.go, c17tool2.go): tables of (value, error) / string-rewriting / "
        "file-system library functions, calls qualified through the files' import tables (no go/types: the source importer does not "
        "resolve modules offline); they follow local definitions, writes to struct fields and same-package calls; the polarity of a "
        "guard is not analysed; anything else is reported as unknown, never as a negative",
        "NOT CHECKED: FileImportLocator.Resolve is stateless (one locator is reused within a line and package state would show up "
        "only through the order of the cases of a shard)",
    ],
    assumptions=["no symbolic links below or above the root (the property is lexical)",
                 "Unix path semantics (separator '/', no volume names)"],
    decode=decode,
    post=post,
    extract=extract,
)

META = dict(
    technique=("Lean 4 theorems over an element-list model of filepath.Clean/Join/Rel, of FileImportLocator.Resolve and of the import "
               "statement (instantiated with source facts regenerated on every run) + differential correspondence with Go's filepath "
               "and with Resolve / import / the command line tool in a real directory tree, observing the open itself"),
    level_text=("Proof about the model: for all byte strings root and p, if the MODEL of Resolve opens q then q is cleaned, has the "
                "cleaned root's elements as a prefix followed only by ordinary names, and the node it denotes from any working "
                "directory is the root's node extended downwards; otherwise nothing is opened; nested import statements open only "
                "such q whatever the source names are (given the regenerated facts about rt_general.go). Model tied to the code by "
                "an exhaustive-for-short / random-for-long differential run that compares the string reaching ReadFile and the "
                "returned content / error with the model's prediction, per path."),
    level_note=("Trusted: Lean kernel + propext/Classical.choice/Quot.sound; the correspondence harness and the verifhook point "
                "c17.open (placed directly before ReadFile; it reports the variable, the extracted fact says the call's argument is "
                "that variable); the kernel's path walk = the lexical walk on cleaned paths without symbolic links; ReadFile opens "
                "its argument; the go/ast fact extractors. Not checked: statelessness of Resolve. Lexical property (symbolic links "
                "out of scope); Unix separators."),
)


def run(ctx):
    return checklib.standard(ctx, SPEC)
