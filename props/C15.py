"""C15 — debugging only observes: same outcome, and every suspended thread can be resumed."""
import glob
import os

import importlib.util

import checklib

_spec = importlib.util.spec_from_file_location("props__conc", os.path.join(os.path.dirname(os.path.abspath(__file__)), "_conc.py"))
_conc = importlib.util.module_from_spec(_spec)
_spec.loader.exec_module(_conc)


def decode(p):
    f = p.split(" ")
    try:
        src = bytes.fromhex(f[-1]).decode("utf8", "replace") if f[-1] != "-" else ""
        if f[0] == "D":
            return {"kind": "debugged run vs plain run", "threads": int(f[1]), "breakOnStart": f[2][0] == "1",
                    "breakOnError": f[2][1] == "1", "breakpoint_edits": f[3], "script": f[4], "timing": f[5],
                    "seed": f[6], "visit_trace_events": len(f[7].split(",")), "program": src}
        if f[0] == "S":
            return {"kind": "sink program on pool workers", "workers": int(f[1]), "events": int(f[2]), "breakpoint_edits": f[3],
                    "script": f[4], "program": src}
        if f[0] == "K":
            return {"kind": "StopThreads", "threads": int(f[1]), "breakpoint_edits": f[2], "program": src}
    except Exception:
        pass
    return p


def post(ctx, cases, gores, model):
    """replay the handshake traces recorded at the hook points on the transition system"""
    cov = ctx.coverage
    lines = []
    for fn in sorted(glob.glob(os.path.join(ctx.work, "c15-hs.*.txt"))):
        for l in open(fn, errors="replace"):
            l = l.rstrip("\n")
            if "\t" in l:
                tr, payload = l.split("\t", 1)
                if tr:
                    lines.append((tr, payload))
    hooks = cov.get("input_distribution", {}).get("hooks.present", 0) > 0
    dist = cov.get("input_distribution", {})
    cov["window_continues_completed_inside_the_window"] = dist.get("window.inside", 0)
    cov["window_continues_not_completed_while_parked"] = dist.get("window.missed", 0)
    if hooks and dist.get("window.inside", 0) == 0:
        ctx.notes.append("hooks are present but NO Continue completed while its thread was parked between 'marked suspended' and Wait "
                         f"({dist.get('window.missed', 0)} attempts blocked): the window schedule was not exercised on this tree "
                         "(e.g. the flag and the wait are one critical section there)")
    cov["hooks_present"] = hooks
    cov["traces_validated_against_impl"] = 0
    cov["handshake_events_replayed"] = 0
    # per-thread visit traces of the sink cases (pool workers): the model must suspend exactly where the thread did
    vts = []
    for fn in sorted(glob.glob(os.path.join(ctx.work, "c15-vt.*.txt"))):
        for l in open(fn, errors="replace"):
            l = l.rstrip("\n")
            if "\t" in l:
                vts.append(tuple(l.split("\t", 1)))
    cov["sink_thread_traces_validated"] = 0
    if vts:
        res = checklib.run_driver(ctx, ctx.prop, {i: tr for i, (tr, _) in enumerate(vts)}, args=["vt"], shards=4)
        badv = [i for i in sorted(res) if res[i][0] != "ok"]
        cov["sink_thread_traces_validated"] = len(res) - len(badv)
        for i in badv[:2]:
            tr, payload = vts[i]
            rp = checklib.write_replay(ctx, "vtrace", {"payload": payload, "readable": decode(payload), "thread_trace": tr},
                                       "the model suspends exactly at the `!` marks of the recorded per-thread trace",
                                       res[i][0], f"./check {ctx.prop} --replay <this file>", tag=tr)
            checklib.violation(ctx, rp, f"per-thread trace of a pool worker differs from the model: {res[i][0]}")
    if not hooks:
        ctx.notes.append("interpreter/debug.go of the tree under test has no verifhook call sites (hooks/C15.patch not "
                         "applied): the window / random schedules fell back to polling and no handshake trace was recorded")
    if lines:
        res = checklib.run_driver(ctx, ctx.prop, {i: tr for i, (tr, _) in enumerate(lines)}, args=["hs"], shards=4)
        # a trace must be accepted AND end with the thread executing again (`m,w` = parked for ever is not ok)
        bad = [i for i in sorted(res) if not (res[i][0].startswith("ok ") and res[i][0].endswith(".run"))]
        # a trace must also end with the thread executing again unless the case hung
        cov["traces_validated_against_impl"] = len(res) - len(bad)
        cov["handshake_events_replayed"] = sum(len(tr.split(",")) for tr, _ in lines)
        for i in bad[:2]:
            tr, payload = lines[i]
            rp = checklib.write_replay(ctx, "trace", {"payload": payload, "readable": decode(payload), "handshake_trace": tr},
                                       "every recorded hook event is a step of Hs.step (lean/Ecal/Model/Debug.lean)",
                                       res[i][0], f"./check {ctx.prop} --replay <this file>", tag=tr)
            checklib.violation(ctx, rp, f"handshake trace not accepted by the model or thread left parked: {res[i][0]}")


ESTABLISHED_READS = {("scope", "Parent"), ("scope", "Name"), ("scope", "ToJSONObject"), ("ast", "Equals"), ("ext", "fmt.Sprintf[ast]"),
                     ("debugger", "VisitState"), ("debugger", "VisitStepInState"), ("debugger", "VisitStepOutState"),
                     ("debugger", "SetLockingState"), ("debugger", "SetThreadPool"), ("debugger", "RecordThreadFinished")}


def denied(cat, detail):
    return cat in ("scopepkg", "logger", "runtime", "astwrite", "rtwrite", "otherwrite", "pkgvarwrite") or \
        (cat == "scope" and detail in ("SetValue", "SetLocalValue", "Clear", "NewChild"))


def extract(ctx):
    """regenerate the fact debugger_is_read_only (lean/Ecal/Gen/C15.lean) from the type-checked source"""
    import re
    txt = _conc.extract(ctx, "C15", "C15.lean")
    cov = ctx.coverage
    unknown = []
    if "def typeChecked : Bool := true" not in txt:
        unknown.append("package interpreter did not type-check")
    unknown += ["not found: " + m for m in re.findall(r'\("([^"]+)", false\)', txt.split("def reachable")[0])]
    unres = txt.split("def unresolved")[1]
    unknown += ["unresolved: " + a + " in " + f for f, a in re.findall(r'\("([^"]*)", "([^"]*)"\)', unres)]
    acc = re.findall(r'\("([^"]*)", "([^"]*)", "([^"]*)"\)', txt.split("def observerAccesses")[1].split("def ownWrites")[0])
    cov["fact_accesses"] = sorted(set(c + ":" + d for _, c, d in acc))
    not_established = sorted(set(c + ":" + d for _, c, d in acc if (c, d) not in ESTABLISHED_READS and not denied(c, d)))
    cov["fact_accesses_not_established"] = not_established
    if not_established:
        unknown.append("accesses neither denied nor established as reads: " + ", ".join(not_established))
    cov["fact_debugger_is_read_only"] = "unknown" if unknown else "established-or-refuted-by-lean (observer_accesses_allowed, own_writes_locked, own_reads_locked, visit_returns_nil, debugger_read_at_eval_time)"
    cov["fact_debugger_uses"] = sorted(set(a for _, a in re.findall(r'\("([^"]*)", "([^"]*)"\)', txt.split("def debuggerUses")[1].split("def debuggerFields")[0])))
    cov["fact_functions_reachable"] = len(re.findall(r'"', txt.split("def reachable")[1].split("\n")[0])) // 2
    if unknown:
        ctx.notes.append("fact debugger_is_read_only is UNKNOWN (" + "; ".join(unknown[:5]) + "): no obligation is broken by that; "
                         "the metamorphic search is amplified (4x programs) in this run")
        checklib.GOENV["C15_AMPLIFY"] = "1"


def search(ctx):
    """the fact is refuted (or a proof broke) and the quick run saw no difference: thorough metamorphic search"""
    ctx.log("search: thorough metamorphic run for a concrete difference")
    cases, gores, model, bad = _conc.stress(ctx, ctx.harness, "thorough", "search", SPEC.get("shards", 8), 900)
    ctx.coverage["search_evaluations"] = len(cases)
    if not bad:
        return None
    i = bad[0]
    return checklib.write_replay(ctx, "input", {"payload": cases[i], "readable": decode(cases[i])},
                                 model.get(i, ("MISSING", {}))[0], gores.get(i, "MISSING"),
                                 f"./check {ctx.prop} --replay <this file>")


SPEC = dict(
    extract=extract,
    search=search,
    lean_modules=["Ecal.Props.C15"],
    shards=12,
    rule=("cases = generated terminating programs (functions incl. bounded recursion and nested calls, loops, try/except/"
          "finally with raised and runtime errors, lists/maps, log output) x break point edit sequences (set/disable/"
          "remove) x scripts over {resume, stepin, stepover, stepout} with break point edits while suspended x "
          "breakOnStart/breakOnError x 1-4 threads x life cycle (library `lib` and program `main` loaded in steps, debugger attached before any parse / after the library ran / between two evaluations of the same AST / detached and re-attached / after parsing everything / by the program itself inside a function call; break points on both sides of the attach point) x timing {poll, window = Continue issued exactly between 'marked "
          "suspended' and Wait via hook points, random delays at the hook points}; plus StopThreads cases. Compared: "
          "same=1 (result, error, log, global scope dump equal to the plain run) and the lines at which threads REPORT "
          "suspension (status/describe commands) against the model run on the visit trace recorded from the real "
          "interpreter. Non-trivial = the model predicts at least one suspension."),
    trusted_base=[
        "the visit trace handed to the model is recorded from the real interpreter by a wrapper around the debugger (harness code) - except for the directed cases, whose traces are literals (c15pinned.go); `finished` events are inserted by the harness by specification (after the entry file, every console line, every sink execution), not taken from the code's RecordThreadFinished calls; `vis` (every evaluated literal node and every statement of a statement list is announced to the debugger) counts evaluations through the parent's call of the child runtime, so it cannot see a parent that bypasses the child runtime (that is what the pinned directed traces are for)",
        "Go's sync.Cond / sync.Mutex behave as the handshake transition system assumes (no spurious wake-ups, Wait releases the lock atomically)",
        "hook events are logged in an order consistent with the lock order (hooks/C15.patch places them inside the critical sections)",
        "fact extractor (go/types over package interpreter): static classification of receivers / assignment targets; reflection, unsafe and function values are outside it (function values are reported as unresolved)",
        "that the scope / AST methods the debugger is allowed to call (Parent, Name, ToJSONObject, Equals) are read-only is tested (metamorphic run, C05), not proved",
    ],
    assumptions=[
        "transparency (same result/log/variables) is a tested metamorphic relation over generated programs, not a theorem about the Go evaluator",
        "the sanity assertion of VisitStepOutState (top of the recorded call stack equals the returning call) is proved to hold for event streams of ONE execution seen by a debugger attached at any moment with an empty recorded stack (ghost stack in Props/C15.lean); a debugger object detached inside one call and re-attached inside another (stale stack) is outside that shape and panics there",
        "the transparency generator is c15Gen (functions, recursion, loops, try/except incl. one-line, lists/maps, log), not the C04/C05 generators: no objects, closures, imports, mutex blocks, e.trace; self-containing values only as the known-finding corpus program",
        "one controller per thread at a time (two concurrent Continue calls for the same thread are outside the model)",
        "eventual resumption needs a fair Go scheduler and a terminating program",
        "debugging state belongs to an EXECUTION: when an execution ends (sink execution on a pool worker, console line, entry file) every pending command of its thread id - resume, step, kill - ends with it (fix thread-finished-clears-state); the property's 'every suspended thread can be resumed' and 'suspends whenever it arrives at an active break point' are read per execution",
        "the model is per thread; break points are shared between threads only through edits made while that thread is suspended; edits by a second controller while threads run are tested for survival and for unchanged suspensions on unvisited lines only",
    ],
    decode=decode,
    post=post,
)

META = dict(
    technique=("Lean 4 theorems over (a) the decision functions VisitState/VisitStepInState/VisitStepOutState on an abstract visit "
               "trace and (b) the suspend/continue handshake as a transition system; correspondence: debugged vs plain runs of the "
               "real interpreter, reported suspension lines vs the model, recorded handshake traces replayed on the transition system, "
               "directed 'Continue inside the window' schedule"),
    level_text=("Proof (model): no reachable handshake state has the thread waiting with running=true; after Continue's check EVERY "
                "interleaving of controller and thread steps is at most 12 steps long and ends with the thread executing again with the "
                "command (continue_always_releases); StopThreads on a suspended thread is a schedule of the same transition system and "
                "releases it (no Continue of another controller in flight); suspension at an active break point whenever a thread in any "
                "debugging situation arrives, along any trace, from a different position (source AND line; lastAt = the node visited last or the call at which it was last reported suspended; pos_tracks_lastAt, suspends_whenever_arriving), no re-suspension on the same line after resume, "
                "step-in/over/out targets for arbitrary balanced call nesting; the call stack Go records always matches the returning call on every event stream of one execution seen by a debugger attached at any moment, and the model's depth is its length (callstack_assertion_never_fails, depth_is_stack_length); the old code's lost resume "
                "is a reachable stuck state. Regenerated facts (type-checked extraction, three-valued): what the debugger's evaluator side "
                "touches, maps only under the lock on both sides, debugger read at evaluation time, visit functions return nil. "
                "Transparency of the Go debugger (same result, log, variables) is tested metamorphically, not proved; concurrency of several "
                "controllers and threads is tested (process survives), not modelled (the model is per thread, break points shared only "
                "through edits made while that thread is suspended)."),
    level_note=("Trusted: Lean kernel + propext/Classical.choice/Quot.sound; harness (recording wrapper, controller, comparison); Go's "
                "sync primitives."),
)


def run(ctx):
    return checklib.standard(ctx, SPEC)


def replay(ctx, path):
    import json
    obj = json.load(open(path))
    if obj.get("kind") == "trace":
        lock = checklib._lean_lock()
        try:
            checklib.sh(["lake", "build", "driver"], cwd=checklib.LEAN)
        finally:
            lock.close()
        tr = obj["case"]["handshake_trace"]
        res = checklib.run_driver(ctx, ctx.prop, {0: tr}, args=["hs"], shards=1)
        print("handshake trace:", tr)
        print("model          :", res.get(0))
        ok = res.get(0, ("",))[0].startswith("ok ")
        if not ok:
            print(f"VIOLATION property={ctx.prop} replay={os.path.relpath(path, checklib.VERIF)}")
        return 0 if ok else 1
    return checklib.replay(ctx, SPEC, path)
