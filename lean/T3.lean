import Ecal.Model.Lexer
namespace Ecal.Lex
theorem slice_length (l : L) (a b : Nat) (hab : a ≤ b) (hb : b ≤ l.inp.size) : (l.slice a b).length = b - a := by
  simp [L.slice, Array.size_extract]; omega

theorem slice_getLast (l : L) (a b : Nat) (hab : a < b) (hb : b ≤ l.inp.size) :
    (l.slice a b).getLast? = some (l.inp.getD (b - 1) 0) := by
  rw [List.getLast?_eq_getElem?, slice_length l a b (by omega) hb]
  simp only [L.slice, Array.getElem?_toList]
  rw [Array.getElem?_extract]
  have : b - a - 1 < min b l.inp.size - a := by omega
  simp [this, Array.getD]
  have h1 : a + (b - a - 1) = b - 1 := by omega
  have h2 : b - 1 < l.inp.size := by omega
  simp [h1, h2]
end Ecal.Lex
