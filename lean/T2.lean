import Ecal.Lemmas.LexerInv
namespace Ecal.Lex
open Ecal.Lex.Spec

/-- tracked loop of the string lexer: the bookkeeping pair stays true; on exit the pending rune
    is the end token -/
theorem value_loop (ae : Bool) (endTok : Option Nat) (T : List Tok) (fuel : Nat) :
    ∀ (l : L) (r : Option Nat) (esc : Bool) (a b p : Nat) (l' : L) (a' b' : Nat),
    Pend l r p → Tr l.inp T p a b → lexValueLoop ae endTok fuel l r esc a b = some (l', a', b') →
    l'.core = l.core ∧ ∃ p', Pend l' endTok p' ∧ Tr l.inp T p' a' b' := by
  induction fuel with
  | zero => intro l r esc a b p l' a' b' _ _ h; simp [lexValueLoop] at h
  | succ n ih =>
    intro l r esc a b p l' a' b' hp htr h
    simp only [lexValueLoop] at h
    obtain ⟨f1, f2, f3, f4⟩ := hp.facts
    split at h
    · split at h
      · simp at h
      · obtain ⟨np, nc⟩ := next_spec l f2
        obtain ⟨c1, _, _, _, _⟩ := core_fields nc
        have := ih _ _ _ _ _ l.pos l' a' b' np (by rw [c1]; exact htr.step f1 f3 f4) h
        rw [c1] at this
        exact ⟨this.1.trans nc, this.2⟩
    · rename_i hcond
      simp only [Option.some.injEq, Prod.mk.injEq] at h
      obtain ⟨rfl, rfl, rfl⟩ := h
      have hr : r = endTok := by
        cases ae <;> simp at hcond
        · exact hcond
        · exact hcond.1
      subst hr
      exact ⟨rfl, p, hp, htr⟩

theorem block_loop (T : List Tok) (fuel : Nat) :
    ∀ (l : L) (r : Option Nat) (a b p : Nat) (l' : L) (a' b' : Nat),
    Pend l r p → Tr l.inp T p a b → blockLoop fuel l r a b = some (l', a', b') →
    l'.core = l.core ∧ l'.peek 1 = some 47 ∧ ∃ p', Pend l' (some 42) p' ∧ Tr l.inp T p' a' b' := by
  induction fuel with
  | zero => intro l r a b p l' a' b' _ _ h; simp [blockLoop] at h
  | succ n ih =>
    intro l r a b p l' a' b' hp htr h
    simp only [blockLoop] at h
    obtain ⟨f1, f2, f3, f4⟩ := hp.facts
    split at h
    · split at h
      · simp at h
      · obtain ⟨np, nc⟩ := next_spec l f2
        obtain ⟨c1, _, _, _, _⟩ := core_fields nc
        have := ih _ _ _ _ l.pos l' a' b' np (by rw [c1]; exact htr.step f1 f3 f4) h
        rw [c1] at this
        exact ⟨this.1.trans nc, this.2⟩
    · rename_i hcond
      simp only [Option.some.injEq, Prod.mk.injEq] at h
      obtain ⟨rfl, rfl, rfl⟩ := h
      simp only [Bool.or_eq_true, bne_iff_ne, ne_eq, not_or, Decidable.not_not] at hcond
      obtain ⟨hr, hpk⟩ := hcond
      subst hr
      exact ⟨rfl, hpk, p, hp, htr⟩

theorem hash_loop (fuel : Nat) : ∀ (l0 l : L) (r : Option Nat), Scan l0 l r →
    let res := hashLoop fuel l r
    res.1.core = l0.core ∧ ∃ p, Pend res.1 res.2 p ∧ l0.pos ≤ p ∧ NoNl l0.inp l0.pos p := by
  induction fuel with
  | zero => intro l0 l r h; simpa [hashLoop] using ⟨h.core, h.ex⟩
  | succ n ih =>
    intro l0 l r h
    simp only [hashLoop]
    split
    · rename_i hc
      simp only [Bool.and_eq_true, bne_iff_ne, ne_eq] at hc
      cases r with
      | none => exact absurd rfl hc.2
      | some c => exact ih _ _ _ (h.next (by intro h'; apply hc.1; rw [h']))
    · exact ⟨h.core, h.ex⟩

end Ecal.Lex
