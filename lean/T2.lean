import Ecal.Lemmas.LexerInv
namespace Ecal.Lex
open Ecal.Lex.Spec

theorem block_inv (l la : L) (h : Inv l) (hb : Blk l la) (hpk : la.peek 1 = some 42) :
    AllOK (lexCommentBlock la).1 ∧ ((lexCommentBlock la).2 = Next.token → Inv (lexCommentBlock la).1) := by
  obtain ⟨b2, _⟩ := next_blk hb.le hpk (by decide)
  have hlb := hb.trans b2
  obtain ⟨a1, a2, a3, a4, a5⟩ := core_fields hlb.core
  obtain ⟨np, nc⟩ := next_spec { (la.next).1 with start := (la.next).1.pos } hlb.le
  obtain ⟨n1, n2, n3, n4, n5⟩ := core_fields nc
  simp only [] at n1 n2 n3 n4 n5
  have htr0 : Tr l.inp l.toks.toList (la.next).1.pos l.line l.lastnl := h.tr.noNl hlb.ge hlb.nonl
  simp only [lexCommentBlock]
  generalize hres : blockLoop _ _ _ _ _ = res
  cases res with
  | none =>
    simp only []
    refine ⟨?_, fun h' => by simp at h'⟩
    apply emit_allOK
    · intro t ht; simp only [] at ht ⊢; rw [n5, a5] at ht; rw [n1, n5, a1, a5]; exact h.ok t ht
    · right; simp only []; rw [n1, n2, n3, n4, n5, a1, a2, a3, a5]; exact htr0
  | some x =>
    obtain ⟨l', a', b'⟩ := x
    obtain ⟨lc, hpk', p', hp', htr'⟩ := block_loop l.toks.toList _ _ _ _ _ _ _ _ _ np
      (by rw [n1, n2, n3, a1, a2, a3]; exact htr0) hres
    obtain ⟨c1, c2, c3, c4, c5⟩ := core_fields lc
    rw [n1, a1] at htr'
    obtain ⟨g1, g2, g3, g4⟩ := hp'.facts
    have hpos : Tr l.inp l.toks.toList l'.pos a' b' := by
      refine htr'.noNl g1 ?_
      have := g4 (by decide)
      rwa [c1, n1, a1] at this
    have hok' : AllOK l' := by
      intro t ht; rw [c5, n5, a5] at ht; rw [c1, c5, n1, n5, a1, a5]; exact h.ok t ht
    have hst' : Tr l'.inp l'.toks.toList l'.start l'.line l'.lastnl := by
      rw [c1, c2, c3, c4, c5, n1, n2, n3, n4, n5, a1, a2, a3, a5]; exact htr0
    simp only []
    -- the state after the emit, then the final `/`
    have hem := emit_allOK l' tPRECOMMENT (l'.slice l'.start (l'.pos - 1)) false false hok' (Or.inr hst')
    have hpe : (l'.emit tPRECOMMENT (l'.slice l'.start (l'.pos - 1)) false false).peek 1 = some 47 := by
      rw [← hpk']; exact peek_congr rfl rfl 1
    obtain ⟨b3, _⟩ := next_blk (l := l'.emit tPRECOMMENT (l'.slice l'.start (l'.pos - 1)) false false)
      (by simpa [L.emit] using g2) hpe (by decide)
    obtain ⟨d1, d2, d3, d4, d5⟩ := core_fields b3.core
    have hI : l'.inp = l.inp := c1.trans (n1.trans a1)
    have hT : l'.toks = l.toks := c5.trans (n5.trans a5)
    have hn : NoNl l'.inp l'.pos (l'.emit tPRECOMMENT (l'.slice l'.start (l'.pos - 1)) false false).next.1.pos := b3.nonl
    have hge : l'.pos ≤ (l'.emit tPRECOMMENT (l'.slice l'.start (l'.pos - 1)) false false).next.1.pos := b3.ge
    rw [hI] at hn
    have hfin : Inv { (l'.emit tPRECOMMENT (l'.slice l'.start (l'.pos - 1)) false false).next.1 with
        line := a', lastnl := b' } := by
      refine ⟨b3.le, ?_, ?_⟩
      · show Tr (l'.emit tPRECOMMENT (l'.slice l'.start (l'.pos - 1)) false false).next.1.inp
          (l'.emit tPRECOMMENT (l'.slice l'.start (l'.pos - 1)) false false).next.1.toks.toList _ a' b'
        rw [d1, d5]
        show Tr l'.inp (l'.toks.push _).toList _ a' b'
        rw [Array.toList_push, hI, hT]
        exact (hpos.mono _).noNl hge hn
      · intro t ht
        change t ∈ (l'.emit tPRECOMMENT (l'.slice l'.start (l'.pos - 1)) false false).next.1.toks.toList at ht
        show TokOK (l'.emit tPRECOMMENT (l'.slice l'.start (l'.pos - 1)) false false).next.1.inp
          (l'.emit tPRECOMMENT (l'.slice l'.start (l'.pos - 1)) false false).next.1.toks.toList t
        rw [d5] at ht
        rw [d1, d5]
        exact hem t ht
    exact ⟨hfin.ok, fun _ => hfin⟩

theorem lexComment_inv (l : L) (h : Inv l)
    (hcase : l.peek 1 = some 35 ∨ (l.peek 1 = some 47 ∧ l.peek 2 = some 42)) :
    AllOK (lexComment l).1 ∧ ((lexComment l).2 = Next.token → Inv (lexComment l).1) := by
  obtain ⟨np, nc⟩ := next_spec l h.le
  simp only [lexComment]
  split
  · rename_i h35
    rw [h35] at np
    exact hash_inv l _ h np nc
  · rename_i h35
    rw [← peek1_eq] at h35
    rcases hcase with hc | ⟨h47, h42⟩
    · exact absurd hc h35
    · obtain ⟨b1, b1p⟩ := next_blk h.le h47 (by decide)
      exact block_inv l _ h b1 (peek2_shift h42 (by decide) (core_fields b1.core).1 (b1p (by decide)))

end Ecal.Lex
