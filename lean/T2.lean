import Ecal.Lemmas.LexerInv
namespace Ecal.Lex
open Ecal.Lex.Spec

theorem symbolBytes_clean : ∀ p ∈ symbolBytes, ∀ b ∈ p.1, b ≠ 10 ∧ b < 128 := by decide

theorem isSym_clean {k : List Nat} (h : isSym k = true) : ∀ b ∈ k, b ≠ 10 ∧ b < 128 := by
  simp only [isSym, lookupTab, Option.isSome_map, List.find?_isSome] at h
  obtain ⟨p, hp, hk⟩ := h
  have : p.1 = k := by simpa using hk
  rw [← this]; exact symbolBytes_clean p hp

theorem runeKey_clean {r : Option Nat} (h : ∀ b ∈ runeKey r, b ≠ 10 ∧ b < 128) : ∃ c, r = some c ∧ c ≠ 10 := by
  cases r with
  | none => have := (h 0xEF (by simp [runeKey])).2; omega
  | some c =>
    refine ⟨c, rfl, ?_⟩
    intro h10; subst h10
    have := (h 10 (by simp [runeKey, lowerByte])).1
    exact this rfl

theorem blank_ne10 {r : Option Nat} (h : blank r = false) : ∃ c, r = some c ∧ c ≠ 10 := by
  cases r with
  | none => simp [blank] at h
  | some c => exact ⟨c, rfl, nonblank_ne10 (by simpa [blank] using h)⟩

/-- result of the text loop: either it backed up already (`early`) or `r` is still pending -/
theorem text_loop (fuel : Nat) : ∀ (l0 l : L) (r : Option Nat), Scan l0 l r →
    let res := lexTextBlock.loop fuel l r
    Blk l0 (if res.2.2 then res.1 else if res.2.1 != none then res.1.backup 0 else res.1) := by
  induction fuel with
  | zero => intro l0 l r h; simpa [lexTextBlock.loop] using h.finish
  | succ n ih =>
    intro l0 l r h
    simp only [lexTextBlock.loop]
    split
    · simpa using h.finish
    · rename_i hb
      obtain ⟨c, rfl, hc10⟩ := blank_ne10 (by simpa using hb)
      have hfin : Blk l0 (l.backup 0) := by simpa using h.finish
      split
      · simpa using hfin
      · split
        · simpa using hfin
        · exact ih _ _ _ (h.next hc10)

theorem lexTextBlock_blk (l : L) (hle : l.pos ≤ l.inp.size) : Blk l (lexTextBlock l) := by
  obtain ⟨np, nc⟩ := next_spec l hle
  have h0 : Scan l (l.next).1 (l.next).2 := ⟨nc, l.pos, np, Nat.le_refl _, noNl_empty _ _⟩
  simp only [lexTextBlock]
  split
  · rename_i hs
    have hcl := isSym_clean hs
    obtain ⟨c, hr, hc10⟩ := runeKey_clean (r := (l.next).2) (fun b hb => hcl b (List.mem_append_left _ hb))
    obtain ⟨d, hd, hd10⟩ := runeKey_clean (r := (l.next).1.peek 1) (fun b hb => hcl b (List.mem_append_right _ hb))
    obtain ⟨f1, f2, f3, f4⟩ := np.facts
    have b1 : Blk l (l.next).1 := ⟨nc, f1, f2, by
      have hi := (core_fields nc).1
      rw [← hi]; apply f4; rw [hr]; simpa using hc10⟩
    exact b1.trans (next_blk b1.le hd hd10).1
  · split
    · rename_i hs
      obtain ⟨c, hr, hc10⟩ := runeKey_clean (isSym_clean hs)
      obtain ⟨f1, f2, f3, f4⟩ := np.facts
      exact ⟨nc, f1, f2, by
        have hi := (core_fields nc).1
        rw [← hi]; apply f4; rw [hr]; simpa using hc10⟩
    · exact text_loop _ l _ _ h0

end Ecal.Lex
