import Ecal.Model.Cascade
/-!
Invariant of the cascade transition system and its preservation by every event.
-/
namespace Ecal.Cascade

/-- created and not finished -/
def unf (m : Mon) : Bool := !m.phase.finished

/-- per-monitor part of the invariant: how the error bookkeeping relates to the phase -/
def Mon.ok (m : Mon) : Prop :=
  match m.phase with
  | .fresh => m.todo = [] ∧ m.failed = [] ∧ m.err = none ∧ m.inErrors = false ∧ m.skipped = false
  | .queued => m.failed = [] ∧ m.err = none ∧ m.inErrors = false
  | .running _ => m.err = none ∧ m.inErrors = false
  | .failing _ => m.failed ≠ [] ∧ m.todo = [] ∧ m.err = none ∧ m.inErrors = false
  | .errSet _ => m.failed ≠ [] ∧ m.todo = [] ∧ m.err = some m.failed ∧ m.inErrors = true
  | .notifying _ => m.failed ≠ [] ∧ m.todo = [] ∧ m.err = some m.failed ∧ m.inErrors = true
  | .done => m.todo = [] ∧ ((m.failed = [] ∧ m.err = none ∧ m.inErrors = false) ∨
                            (m.failed ≠ [] ∧ m.err = some m.failed ∧ m.inErrors = true))

structure Inv (s : State) : Prop where
  count    : s.unfinished = s.mons.countP unf
  post_le  : s.postPending + s.posted ≤ 1
  post_iff : s.postPending + s.posted = 1 ↔ s.unfinished = 0
  mon_ok   : ∀ m ∈ s.mons, m.ok
  /-- no finish-handler observer ⇒ the root has not been handed over, or its event was skipped -/
  hreg     : s.handlerReg = false → ∀ r, s.mons[0]? = some r → r.phase = .fresh ∨ r.skipped = true
  hskip    : s.handlerReg = true → ∀ r, s.mons[0]? = some r → r.skipped = false
  wreg     : s.waitReturned = true → s.waiting = true
  pre      : s.posted = 0 → s.dWait = 0 ∧ s.dHandler = 0 ∧ s.dQueue = 0 ∧ s.released = 0 ∧
               s.handlerCalls = 0 ∧ s.waitReturned = false ∧
               s.obsWait = (if s.waiting then 1 else 0) ∧ s.obsHandler = (if s.handlerReg then 1 else 0)
  post     : s.posted = 1 → s.dWait + s.released = (if s.waiting then 1 else 0) ∧
               s.dHandler + s.handlerCalls = (if s.handlerReg then 1 else 0)
  noPanic  : s.panicked = false

theorem inv_init (w : Nat) (ff : Bool) : Inv (init w ff) := by
  refine ⟨?_, ?_, ?_, ?_, ?_, ?_, ?_, ?_, ?_, ?_⟩ <;> simp [init, unf, Phase.finished, Mon.ok]

theorem getElem_of_get? {l : List Mon} {i : Nat} {m : Mon} (h : l[i]? = some m) :
    ∃ hi : i < l.length, l[i] = m := by
  obtain ⟨hi, h⟩ := List.getElem?_eq_some_iff.mp h
  exact ⟨hi, h⟩

theorem mem_of_get? {l : List Mon} {i : Nat} {m : Mon} (h : l[i]? = some m) : m ∈ l := by
  obtain ⟨hi, h⟩ := getElem_of_get? h
  exact h ▸ List.getElem_mem hi

theorem boole_le_countP (l : List Mon) (i : Nat) (hi : i < l.length) :
    (if unf l[i] = true then 1 else 0) ≤ l.countP unf := by
  induction l generalizing i with
  | nil => simp at hi
  | cons x l ih =>
    cases i with
    | zero => simp [List.countP_cons]
    | succ i =>
      simp at hi
      have := ih i hi
      simp [List.countP_cons]
      omega

/-- an unfinished monitor exists ⇒ nothing posted or about to be posted -/
theorem Inv.unposted {s : State} (h : Inv s) {i : Nat} {m : Mon} (hi : s.mons[i]? = some m)
    (hu : unf m = true) : 1 ≤ s.unfinished ∧ s.postPending = 0 ∧ s.posted = 0 := by
  obtain ⟨hl, hm⟩ := getElem_of_get? hi
  have h1 := boole_le_countP s.mons i hl
  rw [hm, hu] at h1
  simp only [if_true] at h1
  have h2 := h.count
  have h3 := h.post_le
  have h4 := h.post_iff
  omega

/-- posted (or about to be) ⇒ every monitor is finished -/
theorem Inv.all_finished {s : State} (h : Inv s) (hp : s.postPending + s.posted = 1) :
    ∀ m ∈ s.mons, m.phase.finished = true := by
  have h0 := h.post_iff.mp hp
  have h1 := h.count
  rw [h0] at h1
  have := List.countP_eq_zero.mp h1.symm
  intro m hm
  have := this m hm
  simpa [unf] using this

theorem anyQueued_false {s : State} (h : ∀ m ∈ s.mons, m.phase.finished = true) : s.anyQueued = false := by
  simp only [State.anyQueued, List.any_eq_false]
  intro m hm
  have := h m hm
  cases hp : m.phase <;> simp_all [Phase.finished]

/-- what a replacement of monitor `i` has to respect when `i` is the root -/
def RootKeep (s : State) (i : Nat) (m' : Mon) : Prop :=
  i = 0 → (s.handlerReg = false → m'.phase = .fresh ∨ m'.skipped = true) ∧ (s.handlerReg = true → m'.skipped = false)

theorem Inv.root_keep {s : State} (h : Inv s) {i : Nat} {m m' : Mon} (hi : s.mons[i]? = some m)
    (hph : m.phase ≠ .fresh) (hsk : m'.skipped = m.skipped) : RootKeep s i m' := by
  intro i0
  subst i0
  constructor
  · intro hr
    rcases h.hreg hr m hi with h1 | h1
    · exact absurd h1 hph
    · right; rw [hsk]; exact h1
  · intro hr
    rw [hsk]; exact h.hskip hr m hi

theorem root_after_set {s : State} {i : Nat} {m' r : Mon} (h0 : (s.mons.set i m')[0]? = some r) :
    (i = 0 ∧ r = m') ∨ (i ≠ 0 ∧ s.mons[0]? = some r) := by
  rw [List.getElem?_set] at h0
  split at h0
  · rename_i h; left
    split at h0
    · cases h0; exact ⟨h, rfl⟩
    · cases h0
  · rename_i h; right; exact ⟨h, h0⟩

/-- replacing a monitor without changing whether it is finished -/
theorem inv_setMon {s : State} {i : Nat} {m m' : Mon} (h : Inv s) (hi : s.mons[i]? = some m)
    (hf : unf m' = unf m) (hok : m'.ok) (hk : RootKeep s i m') : Inv (s.setMon i m') := by
  obtain ⟨hl, hm⟩ := getElem_of_get? hi
  refine ⟨?_, h.post_le, h.post_iff, ?_, ?_, ?_, h.wreg, h.pre, h.post, h.noPanic⟩
  · show s.unfinished = (s.mons.set i m').countP unf
    rw [List.countP_set hl, hm, hf]
    have := boole_le_countP s.mons i hl
    rw [hm] at this
    have := h.count
    omega
  · intro x hx
    rcases List.mem_or_eq_of_mem_set hx with hx | hx
    · exact h.mon_ok x hx
    · exact hx ▸ hok
  · intro hr r h0
    rcases root_after_set h0 with ⟨i0, rfl⟩ | ⟨_, h0'⟩
    · exact (hk i0).1 hr
    · exact h.hreg hr r h0'
  · intro hr r h0
    rcases root_after_set h0 with ⟨i0, rfl⟩ | ⟨_, h0'⟩
    · exact (hk i0).2 hr
    · exact h.hskip hr r h0'

/-- a monitor finishes (`Finish` → `descendantFinished`) -/
theorem inv_finish {s : State} {i : Nat} {m m' : Mon} (h : Inv s) (hi : s.mons[i]? = some m)
    (hu : unf m = true) (hf : unf m' = false) (hok : m'.ok) (hk : RootKeep s i m') :
    Inv (finishOne (s.setMon i m')) := by
  obtain ⟨hl, hm⟩ := getElem_of_get? hi
  obtain ⟨hu1, hpp, hpo⟩ := h.unposted hi hu
  have hcnt : (s.mons.set i m').countP unf + 1 = s.mons.countP unf := by
    rw [List.countP_set hl, hm, hf, hu]
    have := boole_le_countP s.mons i hl
    rw [hm, hu] at this
    simp only [if_true, Bool.false_eq_true, if_false] at this ⊢
    omega
  have hc := h.count
  refine ⟨?_, ?_, ?_, ?_, ?_, ?_, h.wreg, ?_, ?_, h.noPanic⟩
  · show s.unfinished - 1 = (s.mons.set i m').countP unf
    omega
  · show (if s.unfinished = 1 then s.postPending + 1 else s.postPending) + s.posted ≤ 1
    split <;> omega
  · show (if s.unfinished = 1 then s.postPending + 1 else s.postPending) + s.posted = 1 ↔ s.unfinished - 1 = 0
    split <;> omega
  · intro x hx
    have hx' : x ∈ s.mons.set i m' := hx
    rcases List.mem_or_eq_of_mem_set hx' with hx | hx
    · exact h.mon_ok x hx
    · exact hx ▸ hok
  · intro hr r h0
    rcases root_after_set h0 with ⟨i0, rfl⟩ | ⟨_, h0'⟩
    · exact (hk i0).1 hr
    · exact h.hreg hr r h0'
  · intro hr r h0
    rcases root_after_set h0 with ⟨i0, rfl⟩ | ⟨_, h0'⟩
    · exact (hk i0).2 hr
    · exact h.hskip hr r h0'
  · exact h.pre
  · intro hp1
    have : s.posted = 1 := hp1
    omega

theorem inv_step {s s' : State} {e : Event} (h : Inv s) (hs : step s e = some s') : Inv s' := by
  cases e with
  | register =>
    simp only [step] at hs
    split at hs; · cases hs
    rename_i hw
    split at hs
    · rename_i r hr
      split at hs
      · rename_i hph
        cases hs
        have hu : unf r = true := by simp [unf, hph, Phase.finished]
        obtain ⟨_, hpp, hpo⟩ := h.unposted hr hu
        have hpre := h.pre hpo
        have hw' : s.waiting = false := by simpa using hw
        refine ⟨h.count, h.post_le, h.post_iff, h.mon_ok, h.hreg, h.hskip, ?_, ?_, ?_, h.noPanic⟩
        · intro _; rfl
        · intro _
          obtain ⟨a, b, c, d, e, f, g, k⟩ := hpre
          refine ⟨a, b, c, d, e, f, ?_, k⟩
          show s.obsWait + 1 = _
          simp [hw'] at g ⊢
          omega
        · intro hp1
          have : s.posted = 1 := hp1
          omega
      · cases hs
    · cases hs
  | regHandler =>
    simp only [step] at hs
    split at hs; · cases hs
    rename_i hw
    split at hs
    · rename_i r hr
      split at hs
      · rename_i hph
        cases hs
        have hu : unf r = true := by simp [unf, hph, Phase.finished]
        obtain ⟨_, hpp, hpo⟩ := h.unposted hr hu
        have hpre := h.pre hpo
        have hw' : s.handlerReg = false := by simpa using hw
        have hok := h.mon_ok r (mem_of_get? hr)
        simp only [Mon.ok, hph] at hok
        refine ⟨h.count, h.post_le, h.post_iff, h.mon_ok, ?_, ?_, h.wreg, ?_, ?_, h.noPanic⟩
        · intro hr'; cases hr'
        · intro _ r' hr'
          have hr'' : s.mons[0]? = some r' := hr'
          rw [hr] at hr''; cases hr''
          exact hok.2.2.2.2
        · intro _
          obtain ⟨a, b, c, d, e, f, g, k⟩ := hpre
          refine ⟨a, b, c, d, e, f, g, ?_⟩
          show s.obsHandler + 1 = _
          simp [hw'] at k ⊢
          omega
        · intro hp1
          have : s.posted = 1 := hp1
          omega
      · cases hs
    · cases hs
  | addEvent i trig rules =>
    simp only [step] at hs
    split at hs
    · rename_i m hm
      split at hs
      · rename_i hph
        have hu : unf m = true := by simp [unf, hph, Phase.finished]
        have hok := h.mon_ok m (mem_of_get? hm)
        simp only [Mon.ok, hph] at hok
        obtain ⟨_, hpp, hpo⟩ := h.unposted hm hu
        split at hs
        · split at hs
          · rename_i hguard
            cases hs
            have h1 : Inv (s.setMon i { m with phase := .queued, todo := rules }) :=
              inv_setMon h hm (by simp [unf, hph, Phase.finished]) (by simp [Mon.ok]; exact ⟨hok.2.1, hok.2.2.1, hok.2.2.2.1⟩)
                (by
                  intro i0
                  have hreg := hguard.2 i0
                  constructor
                  · intro hf; rw [hreg] at hf; cases hf
                  · intro _; exact hok.2.2.2.2)
            exact ⟨h1.count, h1.post_le, h1.post_iff, h1.mon_ok, h1.hreg, h1.hskip, h1.wreg, h1.pre, h1.post, h1.noPanic⟩
          · cases hs
        · split at hs
          · cases hs
          · rename_i hguard
            cases hs
            exact inv_finish h hm hu (by simp [unf, Phase.finished])
              (by simp [Mon.ok]; exact ⟨hok.1, Or.inl ⟨hok.2.1, hok.2.2.1, hok.2.2.2.1⟩⟩)
              (by
                intro i0
                constructor
                · intro _; right; rfl
                · intro hr; exact absurd ⟨i0, hr⟩ hguard)
      all_goals cases hs
    · cases hs
  | newChild p =>
    simp only [step] at hs
    split at hs
    · rename_i m hm
      split at hs
      · rename_i w r rest hph htodo
        cases hs
        have hu : unf m = true := by simp [unf, hph, Phase.finished]
        obtain ⟨hu1, hpp, hpo⟩ := h.unposted hm hu
        have hc := h.count
        refine ⟨?_, h.post_le, ?_, ?_, ?_, ?_, h.wreg, h.pre, h.post, h.noPanic⟩
        · show s.unfinished + 1 = (s.mons ++ [_]).countP unf
          simp [List.countP_append, List.countP_cons, unf, Phase.finished]
          exact hc
        · show s.postPending + s.posted = 1 ↔ s.unfinished + 1 = 0
          omega
        · intro x hx
          have hx' : x ∈ s.mons ++ [({ parent := some p, phase := .fresh } : Mon)] := hx
          rcases List.mem_append.mp hx' with hx | hx
          · exact h.mon_ok x hx
          · simp at hx; subst hx; simp [Mon.ok]
        · intro hr r0 h0
          have h0' : (s.mons ++ [({ parent := some p, phase := .fresh } : Mon)])[0]? = some r0 := h0
          obtain ⟨hl, _⟩ := getElem_of_get? hm
          rw [List.getElem?_append_left (by omega)] at h0'
          exact h.hreg hr r0 h0'
        · intro hr r0 h0
          have h0' : (s.mons ++ [({ parent := some p, phase := .fresh } : Mon)])[0]? = some r0 := h0
          obtain ⟨hl, _⟩ := getElem_of_get? hm
          rw [List.getElem?_append_left (by omega)] at h0'
          exact h.hskip hr r0 h0'
      · cases hs
    · cases hs
  | pop w i =>
    simp only [step] at hs
    split at hs
    · split at hs
      · rename_i m hm
        split at hs
        · rename_i hph
          cases hs
          have hok := h.mon_ok m (mem_of_get? hm)
          simp only [Mon.ok, hph] at hok
          exact inv_setMon h hm (by simp [unf, hph, Phase.finished]) (by simp [Mon.ok]; exact ⟨hok.2.1, hok.2.2⟩) (h.root_keep hm (by simp [hph]) rfl)
        · cases hs
      · cases hs
    · cases hs
  | ruleReturns i ok =>
    simp only [step] at hs
    split at hs
    · rename_i m hm
      split at hs
      · rename_i w r rest hph htodo
        cases hs
        have hok := h.mon_ok m (mem_of_get? hm)
        simp only [Mon.ok, hph] at hok
        exact inv_setMon h hm (by simp [unf, hph]) (by simp [Mon.ok, hph]; exact hok) (h.root_keep hm (by simp [hph]) rfl)
      · cases hs
    · cases hs
  | taskDone i =>
    simp only [step] at hs
    split at hs
    · rename_i m hm
      split at hs
      · rename_i w hph htodo
        have hok := h.mon_ok m (mem_of_get? hm)
        simp only [Mon.ok, hph] at hok
        have hu : unf m = true := by simp [unf, hph, Phase.finished]
        split at hs
        · rename_i hfl
          cases hs
          exact inv_finish h hm hu (by simp [unf, Phase.finished])
            (by simp [Mon.ok]; exact ⟨htodo, Or.inl ⟨hfl, hok.1, hok.2⟩⟩) (h.root_keep hm (by simp [hph]) rfl)
        · rename_i hfl
          cases hs
          exact inv_setMon h hm (by simp [unf, hph, Phase.finished])
            (by simp [Mon.ok]; exact ⟨hfl, htodo, hok.1, hok.2⟩) (h.root_keep hm (by simp [hph]) rfl)
      · cases hs
    · cases hs
  | setErrors i =>
    simp only [step] at hs
    split at hs
    · rename_i m hm
      split at hs
      · rename_i w hph
        cases hs
        have hok := h.mon_ok m (mem_of_get? hm)
        simp only [Mon.ok, hph] at hok
        exact inv_setMon h hm (by simp [unf, hph, Phase.finished])
          (by simp [Mon.ok]; exact ⟨hok.1, hok.2.1⟩) (h.root_keep hm (by simp [hph]) rfl)
      all_goals cases hs
    · cases hs
  | errFinish i =>
    simp only [step] at hs
    split at hs
    · rename_i m hm
      split at hs
      · rename_i w hph
        cases hs
        have hok := h.mon_ok m (mem_of_get? hm)
        simp only [Mon.ok, hph] at hok
        exact inv_finish h hm (by simp [unf, hph, Phase.finished]) (by simp [unf, Phase.finished])
          (by simp [Mon.ok]; exact hok) (h.root_keep hm (by simp [hph]) rfl)
      all_goals cases hs
    · cases hs
  | notified i =>
    simp only [step] at hs
    split at hs
    · rename_i m hm
      split at hs
      · rename_i w hph
        cases hs
        have hok := h.mon_ok m (mem_of_get? hm)
        simp only [Mon.ok, hph] at hok
        exact inv_setMon h hm (by simp [unf, hph, Phase.finished])
          (by simp [Mon.ok]; exact ⟨hok.2.1, Or.inr ⟨hok.1, hok.2.2.1, hok.2.2.2⟩⟩) (h.root_keep hm (by simp [hph]) rfl)
      all_goals cases hs
    · cases hs
  | dropQueue =>
    simp only [step] at hs
    split at hs
    · cases hs
      exact ⟨h.count, h.post_le, h.post_iff, h.mon_ok, h.hreg, h.hskip, h.wreg, h.pre, h.post, h.noPanic⟩
    · cases hs
  | post =>
    simp only [step] at hs
    split at hs
    · cases hs
    · rename_i hpp
      cases hs
      have hle := h.post_le
      have hiff := h.post_iff
      have hpo : s.posted = 0 := by omega
      obtain ⟨a, b, c, d, e, f, g, k⟩ := h.pre hpo
      refine ⟨h.count, ?_, ?_, h.mon_ok, h.hreg, h.hskip, h.wreg, ?_, ?_, h.noPanic⟩
      · show s.postPending - 1 + (s.posted + 1) ≤ 1
        omega
      · show s.postPending - 1 + (s.posted + 1) = 1 ↔ s.unfinished = 0
        omega
      · intro hp0
        have : s.posted + 1 = 0 := hp0
        omega
      · intro _
        show s.dWait + s.obsWait + s.released = (if s.waiting then 1 else 0) ∧
          s.dHandler + s.obsHandler + s.handlerCalls = (if s.handlerReg then 1 else 0)
        omega
  | observerRuns o =>
    have hle := h.post_le
    cases o with
    | wait =>
      simp only [step] at hs
      split at hs
      · cases hs
      · rename_i hd
        cases hs
        have hp1 : s.posted = 1 := by
          by_cases hp0 : s.posted = 0
          · exact absurd (h.pre hp0).1 hd
          · omega
        obtain ⟨a, b⟩ := h.post hp1
        refine ⟨h.count, h.post_le, h.post_iff, h.mon_ok, h.hreg, h.hskip, h.wreg, ?_, ?_, h.noPanic⟩
        · intro hp0
          have : s.posted = 0 := hp0
          omega
        · intro _
          show s.dWait - 1 + (s.released + 1) = (if s.waiting then 1 else 0) ∧
            s.dHandler + s.handlerCalls = (if s.handlerReg then 1 else 0)
          omega
    | handler =>
      simp only [step] at hs
      split at hs
      · cases hs
      · rename_i hd
        cases hs
        have hp1 : s.posted = 1 := by
          by_cases hp0 : s.posted = 0
          · exact absurd (h.pre hp0).2.1 hd
          · omega
        obtain ⟨a, b⟩ := h.post hp1
        refine ⟨h.count, h.post_le, h.post_iff, h.mon_ok, h.hreg, h.hskip, h.wreg, ?_, ?_, h.noPanic⟩
        · intro hp0
          have : s.posted = 0 := hp0
          omega
        · intro _
          show s.dWait + s.released = (if s.waiting then 1 else 0) ∧
            s.dHandler - 1 + (s.handlerCalls + 1) = (if s.handlerReg then 1 else 0)
          omega
    | queue =>
      simp only [step] at hs
      split at hs
      · cases hs
      · rename_i hd
        cases hs
        have hp1 : s.posted = 1 := by
          by_cases hp0 : s.posted = 0
          · exact absurd (h.pre hp0).2.2.1 hd
          · omega
        have hq := anyQueued_false (h.all_finished (by omega))
        refine ⟨h.count, h.post_le, h.post_iff, h.mon_ok, h.hreg, h.hskip, h.wreg, ?_, h.post, ?_⟩
        · intro hp0
          have : s.posted = 0 := hp0
          omega
        · show (s.panicked || s.anyQueued) = false
          simp [hq, h.noPanic]
  | waitReturns =>
    simp only [step] at hs
    split at hs
    · rename_i hc
      cases hs
      have hle := h.post_le
      have hp1 : s.posted = 1 := by
        by_cases hp0 : s.posted = 0
        · have := (h.pre hp0).2.2.2.1
          omega
        · omega
      refine ⟨h.count, h.post_le, h.post_iff, h.mon_ok, h.hreg, h.hskip, ?_, ?_, h.post, h.noPanic⟩
      · intro _
        show s.waiting = true
        have := (h.post hp1).1
        cases hw : s.waiting
        · simp [hw] at this; omega
        · rfl
      · intro hp0
        have : s.posted = 0 := hp0
        omega
    · cases hs
  | allErrors =>
    simp only [step] at hs
    cases hs
    exact h

theorem inv_run {s s' : State} {es : List Event} (h : Inv s) (hr : run s es = some s') : Inv s' := by
  induction es generalizing s with
  | nil => simp [run] at hr; exact hr ▸ h
  | cons e es ih =>
    simp only [run, List.foldlM_cons] at hr
    cases hstep : step s e with
    | none => simp [hstep] at hr
    | some s1 =>
      simp [hstep] at hr
      exact ih (inv_step h hstep) hr

theorem inv_reachable {s : State} (h : Reachable s) : Inv s := by
  obtain ⟨w, ff, es, hr⟩ := h
  exact inv_run (inv_init w ff) hr

end Ecal.Cascade
