import Ecal.Model.InterpImpl
import Ecal.Lemmas.Interp
/-! Helper lemmas: the index-level loop (`Ecal.InterpImpl`) against the segmentation (`Ecal.Interp`). -/
namespace Ecal.InterpImpl
open Ecal.Interp

/-- `strings.Index(s, "{{")` is the length of the text before the first opening marker -/
theorem index2_open : ∀ s : Str, index2 123 s = (splitOpen s).map (fun p => p.1.length) := by
  intro s
  induction s using splitOpen.induct with
  | case1 => simp [index2, splitOpen]
  | case2 rest => simp [index2, splitOpen]
  | case3 c rest hne ih =>
    rw [splitOpen]
    · cases rest with
      | nil => simp [index2, splitOpen]
      | cons b r =>
        have hnot : ¬ (c = 123 ∧ b = 123) := by
          intro h; exact hne r h.1 (by rw [h.2])
        rw [index2, if_neg hnot, ih]
        cases splitOpen (b :: r) with
        | none => rfl
        | some p => simp
    · intro rest' h1 h2; exact hne rest' h1 h2

/-- `strings.Index(s, "}}")` -/
theorem index2_close : ∀ s : Str, index2 125 s = (splitClose s).map (fun p => p.1.length) := by
  intro s
  induction s using splitClose.induct with
  | case1 => simp [index2, splitClose]
  | case2 rest => simp [index2, splitClose]
  | case3 c rest hne ih =>
    rw [splitClose]
    · cases rest with
      | nil => simp [index2, splitClose]
      | cons b r =>
        have hnot : ¬ (c = 125 ∧ b = 125) := by
          intro h; exact hne r h.1 (by rw [h.2])
        rw [index2, if_neg hnot, ih]
        cases splitClose (b :: r) with
        | none => rfl
        | some p => simp
    · intro rest' h1 h2; exact hne rest' h1 h2

theorem sliceFrom_app (a m b : Str) (n : Nat) (h : a.length + m.length = n) :
    sliceFrom (a ++ m ++ b) n = some b := by
  unfold sliceFrom
  have hl : (a ++ m).length = n := by simp [h]
  rw [if_pos (by simp; omega), List.drop_left' hl]

theorem sliceFrom_open (a b : Str) : sliceFrom (a ++ 123 :: 123 :: b) (a.length + 2) = some b := by
  have : a ++ 123 :: 123 :: b = a ++ [123, 123] ++ b := by simp
  rw [this]; exact sliceFrom_app a [123, 123] b _ rfl

theorem sliceTo_app (a b : Str) : sliceTo (a ++ b) a.length = some a := by
  unfold sliceTo
  rw [if_pos (by simp), List.take_left' rfl]

theorem getInfix_none {s : Str} (h : splitOpen s = none) : getInfix s = some none := by
  unfold getInfix; rw [index2_open, h]; rfl

theorem getInfix_open_only {s a b : Str} (h1 : splitOpen s = some (a, b)) (h2 : splitClose b = none) :
    getInfix s = some none := by
  obtain ⟨e1, _⟩ := splitOpen_spec h1
  unfold getInfix; rw [index2_open, h1]
  simp only [Option.map_some]
  have : sliceFrom s (a.length + 2) = some b := by
    rw [e1]; exact sliceFrom_open a b
  rw [this]; simp only []
  rw [index2_close, h2]; rfl

theorem getInfix_both {s a b c d : Str} (h1 : splitOpen s = some (a, b)) (h2 : splitClose b = some (c, d)) :
    getInfix s = some (some c) := by
  obtain ⟨e1, _⟩ := splitOpen_spec h1
  obtain ⟨e2, _⟩ := splitClose_spec h2
  unfold getInfix; rw [index2_open, h1]
  simp only [Option.map_some]
  have hs : sliceFrom s (a.length + 2) = some b := by
    rw [e1]; exact sliceFrom_open a b
  rw [hs]; simp only []
  rw [index2_close, h2]
  simp only [Option.map_some]
  have hsl : slice s (a.length + 2) (a.length + 2 + c.length) = some c := by
    unfold slice
    have hd : s.drop (a.length + 2) = b := by
      rw [e1]
      have : a ++ 123 :: 123 :: b = (a ++ [123, 123]) ++ b := by simp
      rw [this, List.drop_left' (by simp)]
    have hb : a.length + 2 + c.length ≤ s.length := by rw [e1, e2]; simp; omega
    rw [if_pos ⟨by omega, hb⟩, hd, e2]
    have : a.length + 2 + c.length - (a.length + 2) = c.length := by omega
    rw [this, List.take_left' rfl]
  rw [hsl]; rfl

/-- accumulator form of the stateful fold -/
theorem foldl_stepS_acc {σ : Type} (ev : σ → Str → Str × σ) (segs : List Seg) (o : Str) (st : σ) :
    segs.foldl (stepS ev) (o, st) =
      (o ++ (segs.foldl (stepS ev) ([], st)).1, (segs.foldl (stepS ev) ([], st)).2) := by
  induction segs generalizing o st with
  | nil => simp
  | cons seg segs ih =>
    cases seg with
    | text t =>
      simp only [List.foldl, stepS]
      rw [ih (o ++ t) st, ih ([] ++ t) st]; simp
    | code c =>
      simp only [List.foldl, stepS]
      rw [ih (o ++ (ev st c).1) (ev st c).2, ih ([] ++ (ev st c).1) (ev st c).2]; simp

/-- the Go loop computes the fold over the segmentation whenever its fuel covers the remaining text -/
theorem loop_spec {σ : Type} (ev : σ → Str → Str × σ) : ∀ (fuel : Nat) (st : σ) (buf rest : Str),
    rest.length < 4 * fuel →
    loop ev fuel st buf rest =
      Out.ok (buf ++ ((segments rest).foldl (stepS ev) ([], st)).1) ((segments rest).foldl (stepS ev) ([], st)).2 := by
  intro fuel
  induction fuel with
  | zero => intro st buf rest h; omega
  | succ f ih =>
    intro st buf rest hlen
    unfold loop
    cases h1 : splitOpen rest with
    | none =>
      rw [getInfix_none h1, segments_none h1]; simp [stepS]
    | some p =>
      obtain ⟨a, b⟩ := p
      cases h2 : splitClose b with
      | none => rw [getInfix_open_only h1 h2, segments_open_only h1 h2]; simp [stepS]
      | some q =>
        obtain ⟨c, d⟩ := q
        obtain ⟨e1, _⟩ := splitOpen_spec h1
        obtain ⟨e2, _⟩ := splitClose_spec h2
        rw [getInfix_both h1 h2]
        simp only []
        rw [index2_open, h1]
        simp only [Option.map_some]
        have hpre : sliceTo rest a.length = some a := by rw [e1]; exact sliceTo_app a _
        have hrest : sliceFrom rest (a.length + 2 + c.length + 2) = some d := by
          rw [e1, e2]
          have : a ++ 123 :: 123 :: (c ++ 125 :: 125 :: d) = a ++ (123 :: 123 :: c ++ [125, 125]) ++ d := by simp
          rw [this]
          exact sliceFrom_app a _ d _ (by simp; omega)
        rw [hpre, hrest]
        simp only []
        have hd : d.length < 4 * f := by
          have := splitOpen_len h1; have := splitClose_len h2; omega
        rw [ih (ev st c).2 (buf ++ a ++ (ev st c).1) d hd, segments_both h1 h2]
        simp only [List.foldl, stepS]
        rw [foldl_stepS_acc ev (segments d) ([] ++ a ++ (ev st c).1) (ev st c).2]
        simp [List.append_assoc]

/-- the log kept by `logged` is the list of code segments, whatever the evaluator does -/
theorem foldl_logged {σ : Type} (ev : σ → Str → Str × σ) (segs : List Seg) (o : Str) (st : σ) (l : List Str) :
    (segs.foldl (stepS (logged ev)) (o, (st, l))).2.2 = l ++ codes segs := by
  induction segs generalizing o st l with
  | nil => simp [codes]
  | cons seg segs ih =>
    cases seg with
    | text t => simp only [List.foldl, stepS, codes]; exact ih _ _ _
    | code c =>
      simp only [List.foldl, stepS, codes, logged]
      rw [ih]; simp

/-- the instrumentation does not change text or state -/
theorem foldl_logged_erase {σ : Type} (ev : σ → Str → Str × σ) (segs : List Seg) (o : Str) (st : σ) (l : List Str) :
    ((segs.foldl (stepS (logged ev)) (o, (st, l))).1, (segs.foldl (stepS (logged ev)) (o, (st, l))).2.1)
      = segs.foldl (stepS ev) (o, st) := by
  induction segs generalizing o st l with
  | nil => simp
  | cons seg segs ih =>
    cases seg with
    | text t => simp only [List.foldl, stepS]; exact ih _ _ _
    | code c => simp only [List.foldl, stepS, logged]; exact ih _ _ _

/-- for an evaluator that ignores and keeps the state, the stateful fold is `interp` -/
theorem foldl_pure {σ : Type} (ev : Str → Str) (segs : List Seg) (o : Str) (st : σ) :
    segs.foldl (stepS (fun s c => (ev c, s))) (o, st) = (o ++ segs.flatMap (Seg.out ev), st) := by
  induction segs generalizing o with
  | nil => simp
  | cons seg segs ih =>
    cases seg with
    | text t => simp only [List.foldl, stepS]; rw [ih]; simp [Seg.out]
    | code c => simp only [List.foldl, stepS]; rw [ih]; simp [Seg.out]

/-- the first opening marker: the text before it does not even END in a `{` that would pair with it -/
theorem splitOpen_first : ∀ {s a b : Str}, splitOpen s = some (a, b) → hasOpen (a ++ [123]) = false := by
  intro s
  induction s using splitOpen.induct with
  | case1 => intro a b h; simp [splitOpen] at h
  | case2 rest => intro a b h; simp [splitOpen] at h; obtain ⟨rfl, rfl⟩ := h; simp [hasOpen]
  | case3 c rest hne ih =>
    intro a b h
    rw [splitOpen] at h
    · cases hr : splitOpen rest with
      | none => simp [hr] at h
      | some p =>
        obtain ⟨a', b'⟩ := p; simp [hr] at h; obtain ⟨rfl, rfl⟩ := h
        have h2 := ih hr
        obtain ⟨e1, _⟩ := splitOpen_spec hr
        show hasOpen (c :: (a' ++ [123])) = false
        rw [hasOpen]
        · exact h2
        · intro r hc ha
          subst hc
          cases a' with
          | nil => exact hne (123 :: b') rfl (by rw [e1]; simp)
          | cons x xs =>
            simp at ha; obtain ⟨rfl, _⟩ := ha
            exact hne (xs ++ 123 :: 123 :: b') rfl (by rw [e1]; simp)
    · intro rest' h1 h2; exact hne rest' h1 h2

/-- the first closing marker after the opening one: the code before it does not END in a `}` that would pair with it -/
theorem splitClose_first : ∀ {s a b : Str}, splitClose s = some (a, b) → hasClose (a ++ [125]) = false := by
  intro s
  induction s using splitClose.induct with
  | case1 => intro a b h; simp [splitClose] at h
  | case2 rest => intro a b h; simp [splitClose] at h; obtain ⟨rfl, rfl⟩ := h; simp [hasClose]
  | case3 c rest hne ih =>
    intro a b h
    rw [splitClose] at h
    · cases hr : splitClose rest with
      | none => simp [hr] at h
      | some p =>
        obtain ⟨a', b'⟩ := p; simp [hr] at h; obtain ⟨rfl, rfl⟩ := h
        have h2 := ih hr
        obtain ⟨e1, _⟩ := splitClose_spec hr
        show hasClose (c :: (a' ++ [125])) = false
        rw [hasClose]
        · exact h2
        · intro r hc ha
          subst hc
          cases a' with
          | nil => exact hne (125 :: b') rfl (by rw [e1]; simp)
          | cons x xs =>
            simp at ha; obtain ⟨rfl, _⟩ := ha
            exact hne (xs ++ 125 :: 125 :: b') rfl (by rw [e1]; simp)
    · intro rest' h1 h2; exact hne rest' h1 h2

/-- converse of `splitOpen_first`: a `{{` that is preceded by text without an opening marker — not even a
    trailing `{` — IS the first opening marker -/
theorem splitOpen_of_first : ∀ (pre rest : Str), hasOpen (pre ++ [123]) = false →
    splitOpen (pre ++ 123 :: 123 :: rest) = some (pre, rest) := by
  intro pre
  induction pre with
  | nil => intro rest _; simp [splitOpen]
  | cons c p ih =>
    intro rest h
    have hne : ∀ r, c = 123 → p ++ 123 :: 123 :: rest = 123 :: r → False := by
      intro r hc hp
      subst hc
      cases p with
      | nil => simp [hasOpen] at h
      | cons x xs =>
        simp at hp; obtain ⟨rfl, _⟩ := hp
        simp [hasOpen] at h
    have hp : hasOpen (p ++ [123]) = false := by
      have : hasOpen (c :: (p ++ [123])) = false := h
      rw [hasOpen] at this
      · exact this
      · intro r hc hr
        subst hc
        cases p with
        | nil => simp [hasOpen] at h
        | cons x xs => simp at hr; obtain ⟨rfl, _⟩ := hr; simp [hasOpen] at h
    show splitOpen (c :: (p ++ 123 :: 123 :: rest)) = some (c :: p, rest)
    rw [splitOpen]
    · rw [ih rest hp]; rfl
    · intro r h1 h2; exact hne r h1 h2

theorem splitClose_of_first : ∀ (pre rest : Str), hasClose (pre ++ [125]) = false →
    splitClose (pre ++ 125 :: 125 :: rest) = some (pre, rest) := by
  intro pre
  induction pre with
  | nil => intro rest _; simp [splitClose]
  | cons c p ih =>
    intro rest h
    have hne : ∀ r, c = 125 → p ++ 125 :: 125 :: rest = 125 :: r → False := by
      intro r hc hp
      subst hc
      cases p with
      | nil => simp [hasClose] at h
      | cons x xs =>
        simp at hp; obtain ⟨rfl, _⟩ := hp
        simp [hasClose] at h
    have hp : hasClose (p ++ [125]) = false := by
      have : hasClose (c :: (p ++ [125])) = false := h
      rw [hasClose] at this
      · exact this
      · intro r hc hr
        subst hc
        cases p with
        | nil => simp [hasClose] at h
        | cons x xs => simp at hr; obtain ⟨rfl, _⟩ := hr; simp [hasClose] at h
    show splitClose (c :: (p ++ 125 :: 125 :: rest)) = some (c :: p, rest)
    rw [splitClose]
    · rw [ih rest hp]; rfl
    · intro r h1 h2; exact hne r h1 h2

/-- no opening marker at all ⇔ `splitOpen` finds none -/
theorem splitOpen_none_iff : ∀ s : Str, splitOpen s = none ↔ hasOpen s = false := by
  intro s
  induction s using splitOpen.induct with
  | case1 => simp [splitOpen, hasOpen]
  | case2 rest => simp [splitOpen, hasOpen]
  | case3 c rest hne ih =>
    rw [splitOpen, hasOpen]
    · rw [← ih]; cases splitOpen rest <;> simp
    · intro r h1 h2; exact hne r h1 h2
    · intro r h1 h2; exact hne r h1 h2

theorem splitClose_none_iff : ∀ s : Str, splitClose s = none ↔ hasClose s = false := by
  intro s
  induction s using splitClose.induct with
  | case1 => simp [splitClose, hasClose]
  | case2 rest => simp [splitClose, hasClose]
  | case3 c rest hne ih =>
    rw [splitClose, hasClose]
    · rw [← ih]; cases splitClose rest <;> simp
    · intro r h1 h2; exact hne r h1 h2
    · intro r h1 h2; exact hne r h1 h2

end Ecal.InterpImpl
