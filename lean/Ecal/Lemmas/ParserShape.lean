import Ecal.Lemmas.ParserShapeBase
/-!
The well-formedness invariant of the parser: one induction on the fuel over all mutually recursive
parser functions (partial correctness; termination and absence of panics are `Ecal.Parse.specs`).
Every function which appends children to a node reports the signatures it appended (`Ext`), every
expression parse returns a `WellFormed` node.
-/
namespace Ecal.Parse
open Ecal.Lex
variable {ts : List Tok}

abbrev ET : Err → Prop := fun _ => True

/-- result of an expression parse -/
def ResW (r : Node) : Prop := (∃ t, r.tok = some t) ∧ WellFormed r = true ∧ InOk r

macro "wpr " h:term : tactic => `(tactic| apply Sat.bind $h (fun _ _ => trivial))
macro "wlast " h:term : tactic => `(tactic| apply Sat.mono $h (fun _ _ => trivial))

def identSig (s : Sig) : Bool := s.1 = "identifier" || s.1 = "funccall" || (s.1 = "compaccess" && s.2 = 1)
def exceptSig (s : Sig) : Bool := s.1 = "except"

structure SpecsW (ts : List Tok) (f : Nat) : Prop where
  run : ∀ rbp p, Cur ts p → Sat (run f rbp) p (fun r p' => Cur ts p' ∧ ResW r) ET
  loopLed : ∀ rbp left p, Cur ts p → ResW left → Sat (loopLed f rbp left) p (fun r p' => Cur ts p' ∧ ResW r) ET
  nudOf : ∀ self p, Cur ts p → Fresh self → self.nud ≠ .none → Sat (nudOf f self) p (fun r p' => Cur ts p' ∧ ResW r) ET
  exprList : ∀ stop acc p, Cur ts p → KW acc → Sat (exprList f stop acc) p (fun r p' => Cur ts p' ∧ ∃ e, Ext acc r e) ET
  sinkAttrs : ∀ acc p, Cur ts p → KW acc → Sat (sinkAttrs f acc) p (fun r p' => Cur ts p' ∧ ∃ e, Ext acc r e) ET
  guardAndStatements : ∀ acc p, Cur ts p → KW acc → Sat (guardAndStatements f acc) p
    (fun r p' => Cur ts p' ∧ ∃ k, Ext acc r [("guard", 1), ("statements", k)]) ET
  elifs : ∀ acc p, Cur ts p → KW acc → Sat (elifs f acc) p
    (fun r p' => Cur ts p' ∧ ∃ e, Ext acc r e ∧ ifShape e = true) ET
  excepts : ∀ acc p, Cur ts p → KW acc → Sat (excepts f acc) p
    (fun r p' => Cur ts p' ∧ ∃ e, Ext acc r e ∧ e.all exceptSig = true) ET
  exceptTypes : ∀ acc p, Cur ts p → KW acc → Sat (exceptTypes f acc) p (fun r p' => Cur ts p' ∧ ∃ e, Ext acc r e) ET
  parseMore : ∀ self acc p, Cur ts p → (∃ t, self.tok = some t) → KW acc → Sat (parseMore f self acc) p
    (fun r p' => Cur ts p' ∧ ∃ e, Ext acc r e ∧ e.all identSig = true) ET
  innerStatements : ∀ acc p, Cur ts p → KW acc → Sat (innerStatements f acc) p
    (fun r p' => Cur ts p' ∧ ∃ k, Ext acc r [("statements", k)]) ET
  moreStatements : ∀ acc n p, Cur ts p → (∃ t, n.tok = some t) → KW acc → Sat (moreStatements f acc n) p
    (fun r p' => Cur ts p' ∧ ∃ e, Ext acc r e) ET
  topLoop : ∀ acc n p, Cur ts p → (∃ t, n.tok = some t) → KW acc → Sat (topLoop f acc n) p
    (fun r p' => Cur ts p' ∧ ∃ e, Ext acc r e) ET

theorem specsW_zero : SpecsW ts 0 := by
  constructor <;> intros <;>
    first
    | (rw [run]; exact Sat.throw trivial)
    | (rw [loopLed]; exact Sat.throw trivial)
    | (rw [nudOf]; exact Sat.throw trivial)
    | (rw [exprList]; exact Sat.throw trivial)
    | (rw [sinkAttrs]; exact Sat.throw trivial)
    | (rw [guardAndStatements]; exact Sat.throw trivial)
    | (rw [elifs]; exact Sat.throw trivial)
    | (rw [excepts]; exact Sat.throw trivial)
    | (rw [exceptTypes]; exact Sat.throw trivial)
    | (rw [parseMore]; exact Sat.throw trivial)
    | (rw [innerStatements]; exact Sat.throw trivial)
    | (rw [moreStatements]; exact Sat.throw trivial)
    | (rw [topLoop]; exact Sat.throw trivial)

theorem Ext.add1 {acc c : Node} (hacc : KW acc) (hc : WellFormed c = true) :
    Ext acc (acc.add (some c)) [(c.name, c.children.length)] := (Ext.refl (hacc.add hc)).of_add

theorem shapeOk_container {nm : String} {cs : List Sig} (h : kindOf nm = .container) : shapeOk nm cs = true := by
  simp [shapeOk, h]

theorem kw_statements (bb) : KW (instanceOf bb T_STATEMENTS none) := by
  rw [inst_statements]; exact KW.mk0 _ _ _ _ _ _ (by decide)
theorem name_statements (bb t) : (instanceOf bb T_STATEMENTS t).name = "statements" := by rw [inst_statements]; rfl

/-- a finished statements node -/
theorem wf_statements {bb : Nat} {st : Node} {e : List Sig} (h : Ext (instanceOf bb T_STATEMENTS none) st e) :
    WellFormed st = true ∧ st.name = "statements" := by
  have hn : st.name = "statements" := by rw [h.name, name_statements]
  exact ⟨h.wf (by rw [hn]; exact shapeOk_container (by decide)), hn⟩

theorem exprListW {f : Nat} (ih : SpecsW ts f) (stop : List Nat) (acc : Node) (p : P) (hc : Cur ts p) (hacc : KW acc) :
    Sat (exprList (f+1) stop acc) p (fun r p' => Cur ts p' ∧ ∃ e, Ext acc r e) ET := by
  rw [exprList]
  wpr (isNotEndAndNotTokens_spec _ hc)
  rintro b _ rfl
  split
  · wpr (ih.run _ _ hc)
    intro e p1 ⟨hc1, hr1⟩
    wpr (skipComma_spec hc1)
    intro _ p2 ⟨hc2, _⟩
    wlast (ih.exprList _ _ _ hc2 (hacc.add hr1.2.1))
    intro r p3 ⟨hc3, e', he⟩
    exact ⟨hc3, _, he.of_add⟩
  · exact Sat.pure ⟨hc, [], Ext.refl hacc⟩

theorem sinkAttrsW {f : Nat} (ih : SpecsW ts f) (acc : Node) (p : P) (hc : Cur ts p) (hacc : KW acc) :
    Sat (sinkAttrs (f+1) acc) p (fun r p' => Cur ts p' ∧ ∃ e, Ext acc r e) ET := by
  rw [sinkAttrs]
  wpr (isNotEndAndNotTokens_spec _ hc)
  rintro b _ rfl
  split
  · wpr (ih.run _ _ hc)
    intro e p1 ⟨hc1, hr1⟩
    wpr (skipComma_spec hc1)
    intro _ p2 ⟨hc2, _⟩
    wlast (ih.sinkAttrs _ _ hc2 (hacc.add hr1.2.1))
    intro r p3 ⟨hc3, e', he⟩
    exact ⟨hc3, _, he.of_add⟩
  · exact Sat.pure ⟨hc, [], Ext.refl hacc⟩

/-- an accepted string or identifier token is a complete node -/
theorem accept_wf {c : Node} {id : Nat} (h : Fresh c) (hid : ∃ t, c.tok = some t ∧ t.id = id)
    (ha : id = 5 ∨ id = 7) : WellFormed c = true ∧ c.name = (if id = 5 then "string" else "identifier") := by
  obtain ⟨t, ht, hidt⟩ := hid
  subst hidt
  have hne : t.id ≠ 26 := by omega
  rcases ha with ha | ha
  · have hn := h.name_of_id ht hne (by rw [ha]; rfl)
    refine ⟨(wf_iff c).2 ⟨h.KW, ?_⟩, by simp [ha, hn]⟩
    rw [h.sigs, hn]; decide
  · have hn := h.name_of_id ht hne (by rw [ha]; rfl)
    refine ⟨(wf_iff c).2 ⟨h.KW, ?_⟩, by simp [ha, hn]⟩
    rw [h.sigs, hn]; decide

theorem exceptTypesW {f : Nat} (ih : SpecsW ts f) (acc : Node) (p : P) (hc : Cur ts p) (hacc : KW acc) :
    Sat (exceptTypes (f+1) acc) p (fun r p' => Cur ts p' ∧ ∃ e, Ext acc r e) ET := by
  rw [exceptTypes]
  wpr (isNotEndAndNotTokens_spec _ hc)
  rintro b _ rfl
  split
  · wpr (acceptChild_spec _ hc)
    intro s p1 ⟨hc1, _, hf1, hid1⟩
    wpr (skipComma_spec hc1)
    intro _ p2 ⟨hc2, _⟩
    wlast (ih.exceptTypes _ _ hc2 (hacc.add (accept_wf hf1 hid1 (Or.inl rfl)).1))
    intro r p3 ⟨hc3, e', he⟩
    exact ⟨hc3, _, he.of_add⟩
  · exact Sat.pure ⟨hc, [], Ext.refl hacc⟩

theorem moreStatementsW {f : Nat} (ih : SpecsW ts f) (acc n : Node) (p : P) (hc : Cur ts p)
    (hn : ∃ t, n.tok = some t) (hacc : KW acc) :
    Sat (moreStatements (f+1) acc n) p (fun r p' => Cur ts p' ∧ ∃ e, Ext acc r e) ET := by
  rw [moreStatements]
  obtain ⟨nt, hnt⟩ := hn
  wpr (hasMoreStatements_spec hnt hc)
  rintro b _ rfl
  split
  · wpr (curId_spec hc)
    rintro id _ ⟨rfl, _⟩
    split
    · wpr (skipToken_spec _ hc)
      intro _ p1 ⟨hc1, _⟩
      wpr (ih.run _ _ hc1)
      intro e p2 ⟨hc2, hr2⟩
      wlast (ih.moreStatements _ _ _ hc2 hr2.1 (hacc.add hr2.2.1))
      intro r p3 ⟨hc3, e', he⟩
      exact ⟨hc3, _, he.of_add⟩
    · split
      · exact Sat.pure ⟨hc, [], Ext.refl hacc⟩
      · wpr (ih.run _ _ hc)
        intro e p2 ⟨hc2, hr2⟩
        wlast (ih.moreStatements _ _ _ hc2 hr2.1 (hacc.add hr2.2.1))
        intro r p3 ⟨hc3, e', he⟩
        exact ⟨hc3, _, he.of_add⟩
  · exact Sat.pure ⟨hc, [], Ext.refl hacc⟩

theorem topLoopW {f : Nat} (ih : SpecsW ts f) (acc n : Node) (p : P) (hc : Cur ts p)
    (hn : ∃ t, n.tok = some t) (hacc : KW acc) :
    Sat (topLoop (f+1) acc n) p (fun r p' => Cur ts p' ∧ ∃ e, Ext acc r e) ET := by
  rw [topLoop]
  obtain ⟨nt, hnt⟩ := hn
  wpr (hasMoreStatements_spec hnt hc)
  rintro b _ rfl
  split
  · wpr (skipOpt_spec _ hc)
    intro _ p1 ⟨hc1, _⟩
    wpr (ih.run _ _ hc1)
    intro e p2 ⟨hc2, hr2⟩
    wlast (ih.topLoop _ _ _ hc2 hr2.1 (hacc.add hr2.2.1))
    intro r p3 ⟨hc3, e', he⟩
    exact ⟨hc3, _, he.of_add⟩
  · exact Sat.pure ⟨hc, [], Ext.refl hacc⟩

theorem innerStatementsW {f : Nat} (ih : SpecsW ts f) (acc : Node) (p : P) (hc : Cur ts p) (hacc : KW acc) :
    Sat (innerStatements (f+1) acc) p (fun r p' => Cur ts p' ∧ ∃ k, Ext acc r [("statements", k)]) ET := by
  rw [innerStatements]
  wpr (skipToken_spec _ hc)
  intro _ p1 ⟨hc1, _⟩
  smk
  wpr (curIsNot_spec _ hc1)
  rintro nr _ rfl
  apply Sat.bind (Q1 := fun st q => Cur ts q ∧ ∃ e, Ext (instanceOf p1.braceBlock T_STATEMENTS none) st e)
    (E1 := ET) ?_ (fun _ he => he)
  · intro st p2 ⟨hc2, e, hst⟩
    wpr (skipToken_spec _ hc2)
    intro _ p3 ⟨hc3, _⟩
    obtain ⟨hwf, hname⟩ := wf_statements hst
    exact Sat.pure ⟨hc3, st.children.length, by simpa [hname] using Ext.add1 hacc hwf⟩
  · split
    · wpr (ih.run _ _ hc1)
      intro e p2 ⟨hc2, hr2⟩
      wpr (curIsNot_spec _ hc2)
      rintro pr _ rfl
      split
      · wlast (ih.moreStatements _ _ _ hc2 hr2.1 ((kw_statements _).add hr2.2.1))
        intro r p3 ⟨hc3, e', he⟩
        exact ⟨hc3, _, he.of_add⟩
      · exact Sat.pure ⟨hc2, [], Ext.refl (kw_statements _)⟩
    · exact Sat.pure ⟨hc1, [], Ext.refl (kw_statements _)⟩

end Ecal.Parse

namespace Ecal.Parse
open Ecal.Lex
variable {ts : List Tok}

theorem shapeOk_one {nm : String} {s : Sig} (h : kindOf nm = .one) : shapeOk nm [s] = true := by
  simp [shapeOk, h]

/-- `guard(c)` / `compaccess(c)`: constructed node with exactly one well-formed child -/
theorem wf_guard1 (bb : Nat) {c : Node} (hc : WellFormed c = true) :
    WellFormed ((instanceOf bb T_GUARD none).add (some c)) = true ∧
    ((instanceOf bb T_GUARD none).add (some c)).name = "guard" ∧
    ((instanceOf bb T_GUARD none).add (some c)).children.length = 1 := by
  rw [inst_guard]
  refine ⟨(wf_iff _).2 ⟨(KW.mk0 _ _ _ _ _ _ (by decide)).add hc, ?_⟩, by rw [Node.add_name]; rfl, by rw [Node.add_children]; rfl⟩
  simp only [Node.add_name, sigs_add]
  exact shapeOk_one (by decide)

theorem wf_compaccess1 (bb : Nat) {c : Node} (hc : WellFormed c = true) :
    WellFormed ((instanceOf bb T_COMPACCESS none).add (some c)) = true ∧
    ((instanceOf bb T_COMPACCESS none).add (some c)).name = "compaccess" ∧
    ((instanceOf bb T_COMPACCESS none).add (some c)).children.length = 1 := by
  rw [inst_compaccess]
  refine ⟨(wf_iff _).2 ⟨(KW.mk0 _ _ _ _ _ _ (by decide)).add hc, ?_⟩, by rw [Node.add_name]; rfl, by rw [Node.add_children]; rfl⟩
  simp only [Node.add_name, sigs_add]
  exact shapeOk_one (by decide)

theorem braced_runW {f : Nat} (ih : SpecsW ts f) (p : P) (hc : Cur ts p) :
    Sat (withBraceBlock (run f 0)) p (fun a p' => Cur ts p' ∧ p'.toks.length < p'.toks.length + 1 ∧ ResW a) ET := by
  unfold withBraceBlock
  apply Sat.bind (Sat.modifyP (Q := fun _ q => Cur ts q) hc) (fun _ h => h)
  intro _ q hq
  apply Sat.bind (E1 := fun _ => False) (Q1 := fun r q' => match r with
      | .ok a => Cur ts q' ∧ ResW a
      | .error _ => True) _ (fun _ h => h.elim)
  · rintro r q' hr
    apply Sat.bind (Sat.modifyP (Q := fun _ q'' => match r with
      | .ok a => Cur ts q'' ∧ ResW a
      | .error _ => True) (by cases r <;> exact hr)) (fun _ h => h)
    rintro _ q'' hr'
    cases r with
    | ok a => exact Sat.pure ⟨hr'.1, by omega, hr'.2⟩
    | error e => exact Sat.throw trivial
  · exact Sat.attempt (E' := ET) (ih.run 0 q hq) (fun e _ _ => trivial)

theorem guardAndStatementsW {f : Nat} (ih : SpecsW ts f) (acc : Node) (p : P) (hc : Cur ts p) (hacc : KW acc) :
    Sat (guardAndStatements (f+1) acc) p
      (fun r p' => Cur ts p' ∧ ∃ k, Ext acc r [("guard", 1), ("statements", k)]) ET := by
  rw [guardAndStatements]
  wpr (braced_runW ih p hc)
  intro e p1 ⟨hc1, _, hr1⟩
  smk
  obtain ⟨hwf, hname, hlen⟩ := wf_guard1 p1.braceBlock hr1.2.1
  wlast (ih.innerStatements _ _ hc1 (hacc.add hwf))
  intro r p3 ⟨hc3, k, he⟩
  have h4 := he.of_add
  rw [hname, hlen] at h4
  exact ⟨hc3, k, h4⟩

theorem elifsW {f : Nat} (ih : SpecsW ts f) (acc : Node) (p : P) (hc : Cur ts p) (hacc : KW acc) :
    Sat (elifs (f+1) acc) p (fun r p' => Cur ts p' ∧ ∃ e, Ext acc r e ∧ ifShape e = true) ET := by
  rw [elifs]
  wpr (isNotEndAndToken_spec _ hc)
  rintro b _ rfl
  split
  · wpr (skipToken_spec _ hc)
    intro _ p1 ⟨hc1, _⟩
    wpr (ih.guardAndStatements _ _ hc1 hacc)
    intro s p2 ⟨hc2, k, hs2⟩
    wlast (ih.elifs _ _ hc2 hs2.kw)
    intro r p3 ⟨hc3, e, he, hsh⟩
    exact ⟨hc3, _, hs2.trans he, by simp [ifShape, hsh]⟩
  · exact Sat.pure ⟨hc, [], Ext.refl hacc, rfl⟩

theorem shapeOk_infix {nm : String} {a b : Sig} (h : kindOf nm = .binary ∨ kindOf nm = .plusminus) :
    shapeOk nm [a, b] = true := by
  rcases h with h | h <;> simp [shapeOk, h]

theorem compat_infix {k : Kind} {x : Nud} (h : kindCompat k x .infix = true) : k = .binary ∨ k = .plusminus := by
  cases k <;> cases x <;> simp_all [kindCompat]

theorem loopLedW {f : Nat} (ih : SpecsW ts f) (rbp : Nat) (left : Node) (p : P) (hc : Cur ts p) (hl : ResW left) :
    Sat (loopLed (f+1) rbp left) p (fun r p' => Cur ts p' ∧ ResW r) ET := by
  rw [loopLed]
  wpr (cur_spec hc)
  rintro nx _ ⟨rfl, hnx, hfx, _⟩
  split
  · split
    · obtain ⟨lt, hlt⟩ := hl.1
      wpr (tokOf_spec (ts := ts) _ hlt)
      rintro _ _ ⟨rfl, rfl⟩
      obtain ⟨nt, hnt⟩ := hfx.tok
      wpr (tokOf_spec (ts := ts) _ hnt)
      rintro _ _ ⟨rfl, rfl⟩
      split
      · exact Sat.pure ⟨hc, hl⟩
      · exact Sat.throw trivial
    · next hled =>
      wpr (advance_spec _ (Cur.toks (by assumption)))
      intro post p1 ⟨hc1, _⟩
      wpr (ih.run _ _ hc1)
      intro right p2 ⟨hc2, hr2⟩
      have hfx' := hfx.addMeta post
      have hres : ResW (((nx.addMeta post).add (some left)).add (some right)) := by
        obtain ⟨t, ht⟩ := hfx'.tok
        refine ⟨⟨t, by simp [ht]⟩, (wf_iff _).2 ⟨(hfx'.KW.add hl.2.1).add hr2.2.1, ?_⟩, ?_⟩
        · have hk : kindOf nx.name = .binary ∨ kindOf nx.name = .plusminus := by
            rcases hfx.compat with h | h
            · cases hl' : nx.led
              · exact absurd hl' hled
              · rw [hl'] at h; exact compat_infix h
            · exact absurd h.2 hled
          simp only [Node.add_name, Node.addMeta_name, sigs_add, sigs_addMeta, hfx.sigs, List.nil_append,
            List.cons_append]
          exact shapeOk_infix hk
        · exact hfx'.inOk.of_eq (by simp) (by simp)
      wlast (ih.loopLed _ _ _ hc2 hres)
      intro r p3 h3
      exact h3
  · exact Sat.pure ⟨hc, hl⟩

theorem runW {f : Nat} (ih : SpecsW ts f) (rbp : Nat) (p : P) (hc : Cur ts p) :
    Sat (run (f+1) rbp) p (fun r p' => Cur ts p' ∧ ResW r) ET := by
  rw [run]
  sget
  wpr (advance_spec _ (Cur.toks (by assumption)))
  intro post p1 ⟨hc1, _⟩
  obtain ⟨hi, n, hn⟩ := hc
  simp only [hn]
  have hf := (hi.fresh n hn).addMeta post
  split
  · obtain ⟨t, ht⟩ := hf.tok
    wpr (tokOf_spec (ts := ts) _ ht)
    rintro _ _ ⟨rfl, rfl⟩
    exact Sat.throw trivial
  · next hnud =>
    wpr (ih.nudOf _ _ hc1 hf hnud)
    intro left p2 ⟨hc2, hr2⟩
    wlast (ih.loopLed _ _ _ hc2 hr2)
    intro r p3 h3
    exact h3

end Ecal.Parse

namespace Ecal.Parse
open Ecal.Lex
variable {ts : List Tok}

theorem Ext.wf_container {acc r : Node} {e : List Sig} (h : Ext acc r e) (hk : kindOf acc.name = .container) :
    WellFormed r = true := h.wf (by rw [h.name]; exact shapeOk_container hk)

theorem kw_funccall (bb) : KW (instanceOf bb T_FUNCCALL none) := by
  rw [inst_funccall]; exact KW.mk0 _ _ _ _ _ _ (by decide)
theorem name_funccall (bb t) : (instanceOf bb T_FUNCCALL t).name = "funccall" := by rw [inst_funccall]; rfl
theorem kw_params (bb) : KW (instanceOf bb T_PARAMS none) := by
  rw [inst_params]; exact KW.mk0 _ _ _ _ _ _ (by decide)
theorem name_params (bb t) : (instanceOf bb T_PARAMS t).name = "params" := by rw [inst_params]; rfl
theorem name_list (bb t) : (instanceOf bb T_LIST t).name = "list" := by rw [inst_list]; rfl
theorem name_map (bb t) : (instanceOf bb T_MAP t).name = "map" := by rw [inst_map]; rfl

theorem shapeOk_identifier {nm : String} {cs : List Sig} (h : kindOf nm = .identifier) :
    shapeOk nm cs = cs.all identSig := by
  simp only [shapeOk, h]; rfl

theorem shapeOk_except {nm : String} {e : List Sig} {k : Nat} (h : kindOf nm = .except) :
    shapeOk nm (e ++ [("statements", k)]) = true := by
  simp [shapeOk, h]

/-- name of an accepted token -/
theorem accept_name {c : Node} {id : Nat} {nm : String} {b x l} (h : Fresh c) (hid : ∃ t, c.tok = some t ∧ t.id = id)
    (hne : id ≠ 26) (htab : table id = some (nm, b, x, l)) : c.name = nm := by
  obtain ⟨t, ht, hidt⟩ := hid
  subst hidt
  exact h.name_of_id ht hne htab

theorem exceptsW {f : Nat} (ih : SpecsW ts f) (acc : Node) (p : P) (hc : Cur ts p) (hacc : KW acc) :
    Sat (excepts (f+1) acc) p (fun r p' => Cur ts p' ∧ ∃ e, Ext acc r e ∧ e.all exceptSig = true) ET := by
  rw [excepts]
  wpr (isNotEndAndToken_spec _ hc)
  rintro b _ rfl
  split
  · wpr (acceptChild_spec _ hc)
    intro ex p1 ⟨hc1, _, hf1, hid1⟩
    have hexn : ex.name = "except" := accept_name hf1 hid1 (by decide) (by rfl)
    wpr (ih.exceptTypes _ _ hc1 hf1.KW)
    intro ex2 p2 ⟨hc2, e2, hs2⟩
    wpr (curId_spec hc2)
    rintro id _ ⟨rfl, _⟩
    apply Sat.bind (Q1 := fun ex3 q => Cur ts q ∧ ∃ e, Ext ex ex3 e) (E1 := ET) ?_ (fun _ he => he)
    · intro ex3 p3 ⟨hc3, e3, hs3⟩
      wpr (ih.innerStatements _ _ hc3 hs3.kw)
      intro ex4 p4 ⟨hc4, k, hs4⟩
      have h4 := hs3.trans hs4
      have hn4 : ex4.name = "except" := h4.name.trans hexn
      have hwf4 : WellFormed ex4 = true := h4.wf (by
        rw [h4.sg, hf1.sigs, hn4]; exact shapeOk_except (by decide))
      wlast (ih.excepts _ _ hc4 (hacc.add hwf4))
      intro r p5 ⟨hc5, e5, he5, hall⟩
      refine ⟨hc5, _, he5.of_add, ?_⟩
      simp [exceptSig, hn4] at hall ⊢
      exact hall
    · split
      · wpr (acceptChild_spec _ hc2)
        intro a p3 ⟨hc3, _, hf3, hid3⟩
        wpr (acceptChild_spec _ hc3)
        intro i p4 ⟨hc4, _, hf4, hid4⟩
        have han : a.name = "as" := accept_name hf3 hid3 (by decide) (by rfl)
        have hwa : WellFormed (a.add (some i)) = true := (wf_iff _).2
          ⟨hf3.KW.add (accept_wf hf4 hid4 (Or.inr rfl)).1, by
            simp only [Node.add_name, sigs_add, hf3.sigs, List.nil_append, han]
            exact shapeOk_one (by decide)⟩
        exact Sat.pure ⟨hc4, _, hs2.trans (Ext.add1 hs2.kw hwa)⟩
      · split
        · wpr (acceptChild_spec _ hc2)
          intro i p3 ⟨hc3, _, hf3, hid3⟩
          exact Sat.pure ⟨hc3, _, hs2.trans (Ext.add1 hs2.kw (accept_wf hf3 hid3 (Or.inr rfl)).1)⟩
        · exact Sat.pure ⟨hc2, _, hs2⟩
  · exact Sat.pure ⟨hc, [], Ext.refl hacc, rfl⟩

theorem parseMoreW {f : Nat} (ih : SpecsW ts f) (self acc : Node) (p : P) (hc : Cur ts p)
    (hself : ∃ t, self.tok = some t) (hacc : KW acc) :
    Sat (parseMore (f+1) self acc) p (fun r p' => Cur ts p' ∧ ∃ e, Ext acc r e ∧ e.all identSig = true) ET := by
  rw [parseMore]
  wpr (curId_spec hc)
  rintro id _ ⟨rfl, _⟩
  split
  · wpr (skipToken_spec _ hc)
    intro _ p1 ⟨hc1, _⟩
    wpr (acceptChild_spec _ hc1)
    intro nx p2 ⟨hc2, _, hf2, hid2⟩
    have hnn : nx.name = "identifier" := accept_name hf2 hid2 (by decide) (by rfl)
    wpr (ih.parseMore _ _ _ hc2 hself hf2.KW)
    intro nx' p3 ⟨hc3, e, hs3, hall⟩
    have hn' : nx'.name = "identifier" := hs3.name.trans hnn
    have hwf : WellFormed nx' = true := hs3.wf (by
      rw [hs3.sg, hf2.sigs, hn', shapeOk_identifier (by decide)]; simpa using hall)
    refine Sat.pure ⟨hc3, _, Ext.add1 hacc hwf, ?_⟩
    simp [identSig, hn']
  · split
    · wpr (skipToken_spec _ hc)
      intro _ p1 ⟨hc1, _⟩
      smk
      wpr (ih.exprList _ _ _ hc1 (kw_funccall _))
      intro fc p2 ⟨hc2, e2, hs2⟩
      wpr (skipToken_spec _ hc2)
      intro _ p3 ⟨hc3, _⟩
      have hwf : WellFormed fc = true := hs2.wf_container (by rw [name_funccall]; decide)
      have hfn : fc.name = "funccall" := hs2.name.trans (name_funccall _ _)
      wlast (ih.parseMore _ _ _ hc3 hself (hacc.add hwf))
      intro r p4 ⟨hc4, e4, hs4, hall⟩
      refine ⟨hc4, _, hs4.of_add, ?_⟩
      simp [identSig, hfn] at hall ⊢
      exact hall
    · wpr (cur_spec hc)
      rintro cn _ ⟨rfl, hcn, hfc, _⟩
      obtain ⟨ct, hct⟩ := hfc.tok
      wpr (tokOf_spec (ts := ts) _ hct)
      rintro _ _ ⟨rfl, rfl⟩
      have hself' := hself
      obtain ⟨st, hst⟩ := hself
      wpr (tokOf_spec (ts := ts) _ hst)
      rintro _ _ ⟨rfl, rfl⟩
      split
      · wpr (skipToken_spec _ hc)
        intro _ p1 ⟨hc1, _⟩
        smk
        wpr (ih.run _ _ hc1)
        intro e p2 ⟨hc2, hr2⟩
        wpr (skipToken_spec _ hc2)
        intro _ p3 ⟨hc3, _⟩
        obtain ⟨hwf, hname, hlen⟩ := wf_compaccess1 p1.braceBlock hr2.2.1
        wlast (ih.parseMore _ _ _ hc3 hself' (hacc.add hwf))
        intro r p4 ⟨hc4, e4, hs4, hall⟩
        have h5 := hs4.of_add
        rw [hname, hlen] at h5
        refine ⟨hc4, _, h5, ?_⟩
        simp [identSig] at hall ⊢
        exact hall
      · exact Sat.pure ⟨hc, [], Ext.refl hacc, rfl⟩

end Ecal.Parse

namespace Ecal.Parse
open Ecal.Lex
variable {ts : List Tok}

theorem compat_term {k : Kind} {l : Led} (h : kindCompat k .term l = true) : k = .terminal := by
  cases k <;> cases l <;> simp_all [kindCompat]
theorem compat_prefix {k : Kind} {l : Led} (h : kindCompat k .prefix l = true) : k = .plusminus ∨ k = .prefix1 := by
  cases k <;> cases l <;> simp_all [kindCompat]
theorem compat_import {k : Kind} {l : Led} (h : kindCompat k .import_ l = true) : k = .import_ := by
  cases k <;> cases l <;> simp_all [kindCompat]
theorem compat_sink {k : Kind} {l : Led} (h : kindCompat k .sink l = true) : k = .sink := by
  cases k <;> cases l <;> simp_all [kindCompat]
theorem compat_func {k : Kind} {l : Led} (h : kindCompat k .func l = true) : k = .function := by
  cases k <;> cases l <;> simp_all [kindCompat]
theorem compat_return {k : Kind} {l : Led} (h : kindCompat k .return_ l = true) : k = .return_ := by
  cases k <;> cases l <;> simp_all [kindCompat]
theorem compat_identifier {k : Kind} {l : Led} (h : kindCompat k .identifier l = true) : k = .identifier := by
  cases k <;> cases l <;> simp_all [kindCompat]
theorem compat_guard {k : Kind} {l : Led} (h : kindCompat k .guard l = true) : k = .if_ := by
  cases k <;> cases l <;> simp_all [kindCompat]
theorem compat_loop {k : Kind} {l : Led} (h : kindCompat k .loop l = true) : k = .loop := by
  cases k <;> cases l <;> simp_all [kindCompat]
theorem compat_try {k : Kind} {l : Led} (h : kindCompat k .try_ l = true) : k = .try_ := by
  cases k <;> cases l <;> simp_all [kindCompat]
theorem compat_mutex {k : Kind} {l : Led} (h : kindCompat k .mutex l = true) : k = .mutex := by
  cases k <;> cases l <;> simp_all [kindCompat]
theorem compat_block {k : Kind} {l : Led} (h : kindCompat k .block l = true) : False := by
  cases k <;> cases l <;> simp_all [kindCompat]

def tryRestSig (c : Sig) : Bool := c.1 = "except" || c.1 = "otherwise" || c.1 = "finally"

theorem all_except_tryRest {e : List Sig} (h : e.all exceptSig = true) : e.all tryRestSig = true := by
  simp only [List.all_eq_true] at h ⊢
  intro x hx
  have := h x hx
  simp [exceptSig] at this
  simp [tryRestSig, this]

theorem shapeOk_try {nm : String} {k : Nat} {r : List Sig} (h : kindOf nm = .try_) :
    shapeOk nm (("statements", k) :: r) = r.all tryRestSig := by
  simp only [shapeOk, h]; simp; rfl

theorem wf_in_len {n : Node} (h : WellFormed n = true) (hn : n.name = "in") : n.children.length = 2 := by
  have := ((wf_iff n).1 h).2
  rw [hn] at this
  simpa [shapeOk, show kindOf "in" = .binary by decide, sigs] using this

/-- a finished `otherwise { … }` / `finally { … }` clause -/
theorem wf_blockOnly {o r : Node} {k : Nat} (hf : Fresh o) (hk : kindOf o.name = .blockOnly)
    (h : Ext o r [("statements", k)]) : WellFormed r = true := by
  refine h.wf ?_
  rw [h.sg, hf.sigs, h.name]
  simp [shapeOk, hk]

/-- a node built on the fresh node `self` -/
theorem resW_of_ext {self r : Node} {e : List Sig} (hf : Fresh self) (h : Ext self r e)
    (hs : shapeOk self.name e = true) : ResW r := by
  obtain ⟨t, ht⟩ := hf.tok
  refine ⟨⟨t, h.tok.trans ht⟩, h.wf ?_, hf.inOk.of_eq h.tok h.name⟩
  rw [h.sg, hf.sigs, h.name]; simpa using hs

end Ecal.Parse

namespace Ecal.Parse
open Ecal.Lex
variable {ts : List Tok}

theorem nudOfW {f : Nat} (ih : SpecsW ts f) (self : Node) (p : P) (hc : Cur ts p) (hf : Fresh self)
    (hnud : self.nud ≠ .none) :
    Sat (nudOf (f+1) self) p (fun r p' => Cur ts p' ∧ ResW r) ET := by
  rw [nudOf]
  obtain ⟨stok, hstok⟩ := hf.tok
  have hcompat : kindCompat (kindOf self.name) self.nud self.led = true := by
    rcases hf.compat with h | h
    · exact h
    · exact absurd h.1 hnud
  split
  · next h => exact absurd h hnud
  · -- term
    next hx =>
    rw [hx] at hcompat
    have hk := compat_term hcompat
    exact Sat.pure ⟨hc, resW_of_ext hf (Ext.refl hf.KW) (by simp [shapeOk, hk])⟩
  · -- inner
    wpr (ih.run _ _ hc)
    intro e p1 ⟨hc1, hr1⟩
    wpr (skipToken_spec _ hc1)
    intro _ p2 ⟨hc2, _⟩
    exact Sat.pure ⟨hc2, hr1⟩
  · -- prefix
    next hx =>
    rw [hx] at hcompat
    have hk := compat_prefix hcompat
    wpr (ih.run _ _ hc)
    intro e p1 ⟨hc1, hr1⟩
    exact Sat.pure ⟨hc1, resW_of_ext hf (Ext.add1 hf.KW hr1.2.1) (by rcases hk with hk | hk <;> simp [shapeOk, hk])⟩
  · -- import
    next hx =>
    rw [hx] at hcompat
    have hk := compat_import hcompat
    wpr (acceptChild_spec _ hc)
    intro s p1 ⟨hc1, _, hf1, hid1⟩
    wpr (skipToken_spec _ hc1)
    intro _ p2 ⟨hc2, _⟩
    wpr (acceptChild_spec _ hc2)
    intro i p3 ⟨hc3, _, hf3, hid3⟩
    obtain ⟨hw1, hn1⟩ := accept_wf hf1 hid1 (Or.inl rfl)
    obtain ⟨hw3, hn3⟩ := accept_wf hf3 hid3 (Or.inr rfl)
    have hx1 := Ext.add1 hf.KW hw1
    have hx3 := hx1.trans (Ext.add1 hx1.kw hw3)
    exact Sat.pure ⟨hc3, resW_of_ext hf hx3 (by
      simp [T_STRING, T_IDENTIFIER] at hn1 hn3
      simp [shapeOk, hk, hn1, hn3])⟩
  · -- sink
    next hx =>
    rw [hx] at hcompat
    have hk := compat_sink hcompat
    wpr (acceptChild_spec _ hc)
    intro nm p1 ⟨hc1, _, hf1, hid1⟩
    obtain ⟨hw1, hn1⟩ := accept_wf hf1 hid1 (Or.inr rfl)
    have hx1 := Ext.add1 hf.KW hw1
    wpr (ih.sinkAttrs _ _ hc1 hx1.kw)
    intro s2 p2 ⟨hc2, e2, hs2⟩
    wlast (ih.innerStatements _ _ hc2 hs2.kw)
    intro r p3 ⟨hc3, k, hs3⟩
    refine ⟨hc3, resW_of_ext hf ((hx1.trans hs2).trans hs3) ?_⟩
    simp [T_IDENTIFIER] at hn1
    simp [shapeOk, hk, hn1]
    exact ⟨k, by rw [← List.cons_append, List.getLast?_append]; rfl⟩
  · -- func
    next hx =>
    rw [hx] at hcompat
    have hk := compat_func hcompat
    apply Sat.bind (Q1 := fun s1 q => Cur ts q ∧ ∃ e, Ext self s1 e ∧ (e = [] ∨ ∃ n, e = [("identifier", n)]))
      (E1 := ET) ?_ (fun _ he => he)
    · intro s1 p1 ⟨hc1, e1, hs1, he1⟩
      wpr (skipToken_spec _ hc1)
      intro _ p2 ⟨hc2, _⟩
      smk
      wpr (ih.exprList _ _ _ hc2 (kw_params _))
      intro ps p3 ⟨hc3, e3, hs3⟩
      wpr (skipToken_spec _ hc3)
      intro _ p4 ⟨hc4, _⟩
      have hwp : WellFormed ps = true := hs3.wf_container (by rw [name_params]; decide)
      have hpn : ps.name = "params" := hs3.name.trans (name_params _ _)
      wlast (ih.innerStatements _ _ hc4 (hs1.kw.add hwp))
      intro r p5 ⟨hc5, k, hs5⟩
      refine ⟨hc5, resW_of_ext hf (hs1.trans hs5.of_add) ?_⟩
      rcases he1 with rfl | ⟨n, rfl⟩ <;> simp [shapeOk, hk, hpn]
    · wpr (curId_spec hc)
      rintro id _ ⟨rfl, _⟩
      split
      · wpr (acceptChild_spec _ hc)
        intro i p1 ⟨hc1, _, hf1, hid1⟩
        obtain ⟨hw1, hn1⟩ := accept_wf hf1 hid1 (Or.inr rfl)
        simp [T_IDENTIFIER] at hn1
        exact Sat.pure ⟨hc1, _, Ext.add1 hf.KW hw1, Or.inr ⟨i.children.length, by rw [hn1]⟩⟩
      · exact Sat.pure ⟨hc, [], Ext.refl hf.KW, Or.inl rfl⟩
  · -- return
    next hx =>
    rw [hx] at hcompat
    have hk := compat_return hcompat
    wpr (tokOf_spec (ts := ts) _ hstok)
    rintro _ _ ⟨rfl, rfl⟩
    wpr (cur_spec hc)
    rintro cn _ ⟨rfl, hcn, hfc, _⟩
    obtain ⟨ct, hct⟩ := hfc.tok
    wpr (tokOf_spec (ts := ts) _ hct)
    rintro _ _ ⟨rfl, rfl⟩
    split
    · wpr (ih.run _ _ hc)
      intro e p1 ⟨hc1, hr1⟩
      exact Sat.pure ⟨hc1, resW_of_ext hf (Ext.add1 hf.KW hr1.2.1) (by simp [shapeOk, hk])⟩
    · exact Sat.pure ⟨hc, resW_of_ext hf (Ext.refl hf.KW) (by simp [shapeOk, hk])⟩
  · -- identifier
    next hx =>
    rw [hx] at hcompat
    have hk := compat_identifier hcompat
    wlast (ih.parseMore _ _ _ hc ⟨stok, hstok⟩ hf.KW)
    intro r p1 ⟨hc1, e, hs1, hall⟩
    exact ⟨hc1, resW_of_ext hf hs1 (by rw [shapeOk_identifier hk]; exact hall)⟩
  · -- list
    next hx =>
    smk
    have hkw : KW (instanceOf p.braceBlock T_LIST self.tok) := by
      rw [inst_list]; exact KW.mk0 _ _ _ _ _ _ (by simp [hstok])
    wpr (ih.exprList _ _ _ hc hkw)
    intro st p1 ⟨hc1, e1, hs1⟩
    wpr (skipToken_spec _ hc1)
    intro _ p2 ⟨hc2, _⟩
    have htok : st.tok = some stok := by rw [hs1.tok, instanceOf_tok]; exact hstok
    refine Sat.pure ⟨hc2, ⟨stok, htok⟩, hs1.wf_container (by rw [name_list]; decide), ?_⟩
    intro t' ht' hid
    obtain ⟨t, ht, h | ⟨b, htab⟩⟩ := hf.entry'
    · exact absurd h.1 hnud
    · rw [hx] at htab
      have := table_list_id htab
      rw [ht] at hstok; cases hstok
      rw [htok] at ht'; cases ht'
      omega
  · -- map
    next hx =>
    smk
    have hkw : KW (instanceOf p.braceBlock T_MAP self.tok) := by
      rw [inst_map]; exact KW.mk0 _ _ _ _ _ _ (by simp [hstok])
    wpr (ih.exprList _ _ _ hc hkw)
    intro st p1 ⟨hc1, e1, hs1⟩
    wpr (skipToken_spec _ hc1)
    intro _ p2 ⟨hc2, _⟩
    have htok : st.tok = some stok := by rw [hs1.tok, instanceOf_tok]; exact hstok
    refine Sat.pure ⟨hc2, ⟨stok, htok⟩, hs1.wf_container (by rw [name_map]; decide), ?_⟩
    intro t' ht' hid
    obtain ⟨t, ht, h | ⟨b, htab⟩⟩ := hf.entry'
    · exact absurd h.1 hnud
    · rw [hx] at htab
      have := table_map_id htab
      rw [ht] at hstok; cases hstok
      rw [htok] at ht'; cases ht'
      omega
  · -- guard (if)
    next hx =>
    rw [hx] at hcompat
    have hk := compat_guard hcompat
    wpr (ih.guardAndStatements _ _ hc hf.KW)
    intro s1 p1 ⟨hc1, k1, hs1⟩
    wpr (ih.elifs _ _ hc1 hs1.kw)
    intro s2 p2 ⟨hc2, e2, hs2, hsh2⟩
    wpr (curId_spec hc2)
    rintro id _ ⟨rfl, _⟩
    split
    · wpr (skipToken_spec _ hc2)
      intro _ p3 ⟨hc3, _⟩
      smk
      smk
      have hwt : WellFormed (instanceOf p3.braceBlock T_TRUE none) = true := by
        rw [inst_true]; decide
      obtain ⟨hwf, hname, hlen⟩ := wf_guard1 p3.braceBlock hwt
      wlast (ih.innerStatements _ _ hc3 (hs2.kw.add hwf))
      intro r p4 ⟨hc4, k4, hs4⟩
      have h5 := hs4.of_add
      rw [hname, hlen] at h5
      refine ⟨hc4, resW_of_ext hf ((hs1.trans hs2).trans h5) ?_⟩
      simp [shapeOk, hk, ifShape, ifShape_append _ _ hsh2]
    · refine Sat.pure ⟨hc2, resW_of_ext hf (hs1.trans hs2) ?_⟩
      simp [shapeOk, hk, ifShape, hsh2]
  · -- loop
    next hx =>
    rw [hx] at hcompat
    have hk := compat_loop hcompat
    wpr (braced_runW ih p hc)
    intro e p1 ⟨hc1, _, hr1⟩
    obtain ⟨et, het⟩ := hr1.1
    wpr (tokOf_spec (ts := ts) _ het)
    rintro _ _ ⟨rfl, rfl⟩
    apply Sat.bind (Q1 := fun g q => q = p1 ∧ WellFormed g = true ∧
        ((g.name = "guard" ∧ g.children.length = 1) ∨ (g.name = "in" ∧ g.children.length = 2)))
      (E1 := ET) ?_ (fun _ he => he)
    · rintro g _ ⟨rfl, hwg, hg⟩
      wlast (ih.innerStatements _ _ hc1 (hf.KW.add hwg))
      intro r p3 ⟨hc3, k, hs3⟩
      refine ⟨hc3, resW_of_ext hf hs3.of_add ?_⟩
      rcases hg with ⟨h1, h2⟩ | ⟨h1, h2⟩ <;> simp [shapeOk, hk, h1, h2]
    · split
      · smk
        obtain ⟨hwf, hname, hlen⟩ := wf_guard1 p1.braceBlock hr1.2.1
        exact Sat.pure ⟨rfl, hwf, Or.inl ⟨hname, hlen⟩⟩
      · next hid =>
        have hin : e.name = "in" := hr1.2.2 _ het (by simpa [T_IN] using hid)
        exact Sat.pure ⟨rfl, hr1.2.1, Or.inr ⟨hin, wf_in_len hr1.2.1 hin⟩⟩
  · -- try
    next hx =>
    rw [hx] at hcompat
    have hk := compat_try hcompat
    wpr (ih.innerStatements _ _ hc hf.KW)
    intro t1 p1 ⟨hc1, k1, hs1⟩
    wpr (ih.excepts _ _ hc1 hs1.kw)
    intro t2 p2 ⟨hc2, e2, hs2, hall2⟩
    apply Sat.bind (Q1 := fun t3 q => Cur ts q ∧ ∃ e, Ext self t3 (("statements", k1) :: e) ∧ e.all tryRestSig = true)
      (E1 := ET) ?_ (fun _ he => he)
    · intro t3 p3 ⟨hc3, e3, hs3, hall3⟩
      wpr (curId_spec hc3)
      rintro id _ ⟨rfl, _⟩
      split
      · wpr (acceptChild_spec _ hc3)
        intro fi p4 ⟨hc4, _, hf4, hid4⟩
        have hfn : fi.name = "finally" := accept_name hf4 hid4 (by decide) (by rfl)
        wpr (ih.innerStatements _ _ hc4 hf4.KW)
        intro fi2 p5 ⟨hc5, k5, hs5⟩
        have hwf : WellFormed fi2 = true := wf_blockOnly hf4 (by rw [hfn]; decide) hs5
        have hn2 : fi2.name = "finally" := hs5.name.trans hfn
        refine Sat.pure ⟨hc5, resW_of_ext hf (hs3.trans (Ext.add1 hs3.kw hwf)) ?_⟩
        rw [List.cons_append, shapeOk_try hk]
        simp [List.all_append, hall3, tryRestSig, hn2]
      · refine Sat.pure ⟨hc3, resW_of_ext hf hs3 ?_⟩
        rw [shapeOk_try hk]; exact hall3
    · wpr (curId_spec hc2)
      rintro id _ ⟨rfl, _⟩
      split
      · wpr (acceptChild_spec _ hc2)
        intro o p3 ⟨hc3, _, hf3, hid3⟩
        have hon : o.name = "otherwise" := accept_name hf3 hid3 (by decide) (by rfl)
        wpr (ih.innerStatements _ _ hc3 hf3.KW)
        intro o2 p4 ⟨hc4, k4, hs4⟩
        have hwf : WellFormed o2 = true := wf_blockOnly hf3 (by rw [hon]; decide) hs4
        have hn2 : o2.name = "otherwise" := hs4.name.trans hon
        refine Sat.pure ⟨hc4, _, (hs1.trans hs2).trans (Ext.add1 hs2.kw hwf), ?_⟩
        simp [List.all_append, all_except_tryRest hall2, tryRestSig, hn2]
      · exact Sat.pure ⟨hc2, _, hs1.trans hs2, all_except_tryRest hall2⟩
  · -- mutex
    next hx =>
    rw [hx] at hcompat
    have hk := compat_mutex hcompat
    wpr (acceptChild_spec _ hc)
    intro i p1 ⟨hc1, _, hf1, hid1⟩
    obtain ⟨hw1, hn1⟩ := accept_wf hf1 hid1 (Or.inr rfl)
    simp [T_IDENTIFIER] at hn1
    wlast (ih.innerStatements _ _ hc1 (hf.KW.add hw1))
    intro r p2 ⟨hc2, k, hs2⟩
    refine ⟨hc2, resW_of_ext hf hs2.of_add ?_⟩
    simp [shapeOk, hk, hn1]
  · -- block: a fresh node never has this null denotation
    next hx =>
    rw [hx] at hcompat
    exact (compat_block hcompat).elim

theorem specsW : ∀ f, SpecsW ts f
  | 0 => specsW_zero
  | f+1 =>
    have ih := specsW f
    { run := runW ih, loopLed := loopLedW ih, nudOf := nudOfW ih, exprList := exprListW ih,
      sinkAttrs := sinkAttrsW ih, guardAndStatements := guardAndStatementsW ih, elifs := elifsW ih,
      excepts := exceptsW ih, exceptTypes := exceptTypesW ih, parseMore := parseMoreW ih,
      innerStatements := innerStatementsW ih, moreStatements := moreStatementsW ih, topLoop := topLoopW ih }

end Ecal.Parse

namespace Ecal.Parse
open Ecal.Lex
variable {ts : List Tok}

/-- ParseWithRuntime's body: a returned tree is well formed (any token list, any fuel) -/
theorem parseBody_wf (fuel : Nat) (toks : List Tok) :
    Sat (parseBody fuel) { toks := toks, node := none } (fun r _ => WellFormed r = true) ET := by
  have ih := specsW (ts := toks) fuel
  unfold parseBody
  wpr (advance_spec (ts := toks) _ (fun t ht => ht))
  intro _ p1 ⟨hc1, _⟩
  wpr (ih.run _ _ hc1)
  intro n p2 ⟨hc2, hr2⟩
  apply Sat.bind (Q1 := fun n' q => Cur toks q ∧ WellFormed n' = true) (E1 := ET) ?_ (fun _ he => he)
  · intro n' p3 ⟨hc3, hn3⟩
    apply Sat.bind (Sat.getP (Q := fun a p' => p3 = a ∧ p3 = p') ⟨rfl, rfl⟩) (fun _ he => he)
    rintro _ _ ⟨rfl, rfl⟩
    obtain ⟨hi, nx, hnx⟩ := hc3
    simp only [hnx]
    obtain ⟨t, ht⟩ := (hi.fresh nx hnx).tok
    wpr (tokOf_spec (ts := toks) _ ht)
    rintro _ _ ⟨rfl, rfl⟩
    split
    · exact Sat.throw trivial
    · exact Sat.pure hn3
  · obtain ⟨nt, hnt⟩ := hr2.1
    wpr (hasMoreStatements_spec hnt hc2)
    rintro b _ rfl
    split
    · smk
      wlast (ih.topLoop _ _ _ hc2 hr2.1 ((kw_statements _).add hr2.2.1))
      intro r p3 ⟨hc3, e, he⟩
      exact ⟨hc3, (wf_statements he.of_add).1⟩
    · exact Sat.pure ⟨hc2, hr2.2.1⟩

end Ecal.Parse
