import Ecal.Lemmas.ParserShapeBase
/-!
The well-formedness invariant of the parser: one induction on the fuel over all mutually recursive
parser functions (partial correctness; termination and absence of panics are `Ecal.Parse.specs`).
Every function which appends children to a node reports the signatures it appended (`Ext`), every
expression parse returns a `WellFormed` node.
-/
namespace Ecal.Parse
open Ecal.Lex

abbrev ET : Err → Prop := fun _ => True

/-- result of an expression parse -/
def ResW (r : Node) : Prop := (∃ t, r.tok = some t) ∧ WellFormed r = true ∧ InOk r

macro "wpr " h:term : tactic => `(tactic| apply Sat.bind $h (fun _ _ => trivial))
macro "wlast " h:term : tactic => `(tactic| apply Sat.mono $h (fun _ _ => trivial))

def identSig (s : Sig) : Bool := s.1 = "identifier" || s.1 = "funccall" || (s.1 = "compaccess" && s.2 = 1)
def exceptSig (s : Sig) : Bool := s.1 = "except"

structure SpecsW (f : Nat) : Prop where
  run : ∀ rbp p, Cur p → Sat (run f rbp) p (fun r p' => Cur p' ∧ ResW r) ET
  loopLed : ∀ rbp left p, Cur p → ResW left → Sat (loopLed f rbp left) p (fun r p' => Cur p' ∧ ResW r) ET
  nudOf : ∀ self p, Cur p → Fresh self → self.nud ≠ .none → Sat (nudOf f self) p (fun r p' => Cur p' ∧ ResW r) ET
  exprList : ∀ stop acc p, Cur p → KW acc → Sat (exprList f stop acc) p (fun r p' => Cur p' ∧ ∃ e, Ext acc r e) ET
  sinkAttrs : ∀ acc p, Cur p → KW acc → Sat (sinkAttrs f acc) p (fun r p' => Cur p' ∧ ∃ e, Ext acc r e) ET
  guardAndStatements : ∀ acc p, Cur p → KW acc → Sat (guardAndStatements f acc) p
    (fun r p' => Cur p' ∧ ∃ k, Ext acc r [("guard", 1), ("statements", k)]) ET
  elifs : ∀ acc p, Cur p → KW acc → Sat (elifs f acc) p
    (fun r p' => Cur p' ∧ ∃ e, Ext acc r e ∧ ifShape e = true) ET
  excepts : ∀ acc p, Cur p → KW acc → Sat (excepts f acc) p
    (fun r p' => Cur p' ∧ ∃ e, Ext acc r e ∧ e.all exceptSig = true) ET
  exceptTypes : ∀ acc p, Cur p → KW acc → Sat (exceptTypes f acc) p (fun r p' => Cur p' ∧ ∃ e, Ext acc r e) ET
  parseMore : ∀ self acc p, Cur p → (∃ t, self.tok = some t) → KW acc → Sat (parseMore f self acc) p
    (fun r p' => Cur p' ∧ ∃ e, Ext acc r e ∧ e.all identSig = true) ET
  innerStatements : ∀ acc p, Cur p → KW acc → Sat (innerStatements f acc) p
    (fun r p' => Cur p' ∧ ∃ k, Ext acc r [("statements", k)]) ET
  moreStatements : ∀ acc n p, Cur p → (∃ t, n.tok = some t) → KW acc → Sat (moreStatements f acc n) p
    (fun r p' => Cur p' ∧ ∃ e, Ext acc r e) ET
  topLoop : ∀ acc n p, Cur p → (∃ t, n.tok = some t) → KW acc → Sat (topLoop f acc n) p
    (fun r p' => Cur p' ∧ ∃ e, Ext acc r e) ET

theorem specsW_zero : SpecsW 0 := by
  constructor <;> intros <;>
    first
    | (rw [run]; exact Sat.throw trivial)
    | (rw [loopLed]; exact Sat.throw trivial)
    | (rw [nudOf]; exact Sat.throw trivial)
    | (rw [exprList]; exact Sat.throw trivial)
    | (rw [sinkAttrs]; exact Sat.throw trivial)
    | (rw [guardAndStatements]; exact Sat.throw trivial)
    | (rw [elifs]; exact Sat.throw trivial)
    | (rw [excepts]; exact Sat.throw trivial)
    | (rw [exceptTypes]; exact Sat.throw trivial)
    | (rw [parseMore]; exact Sat.throw trivial)
    | (rw [innerStatements]; exact Sat.throw trivial)
    | (rw [moreStatements]; exact Sat.throw trivial)
    | (rw [topLoop]; exact Sat.throw trivial)

theorem Ext.add1 {acc c : Node} (hacc : KW acc) (hc : WellFormed c = true) :
    Ext acc (acc.add (some c)) [(c.name, c.children.length)] := (Ext.refl (hacc.add hc)).of_add

theorem shapeOk_container {nm : String} {cs : List Sig} (h : kindOf nm = .container) : shapeOk nm cs = true := by
  simp [shapeOk, h]

theorem kw_statements (bb) : KW (instanceOf bb T_STATEMENTS none) := by
  rw [inst_statements]; exact KW.mk0 _ _ _ _ _ _ (by decide)
theorem name_statements (bb t) : (instanceOf bb T_STATEMENTS t).name = "statements" := by rw [inst_statements]; rfl

/-- a finished statements node -/
theorem wf_statements {bb : Nat} {st : Node} {e : List Sig} (h : Ext (instanceOf bb T_STATEMENTS none) st e) :
    WellFormed st = true ∧ st.name = "statements" := by
  have hn : st.name = "statements" := by rw [h.name, name_statements]
  exact ⟨h.wf (by rw [hn]; exact shapeOk_container (by decide)), hn⟩

theorem exprListW {f : Nat} (ih : SpecsW f) (stop : List Nat) (acc : Node) (p : P) (hc : Cur p) (hacc : KW acc) :
    Sat (exprList (f+1) stop acc) p (fun r p' => Cur p' ∧ ∃ e, Ext acc r e) ET := by
  rw [exprList]
  wpr (isNotEndAndNotTokens_spec _ hc)
  rintro b _ rfl
  split
  · wpr (ih.run _ _ hc)
    intro e p1 ⟨hc1, hr1⟩
    wpr (skipComma_spec hc1)
    intro _ p2 ⟨hc2, _⟩
    wlast (ih.exprList _ _ _ hc2 (hacc.add hr1.2.1))
    intro r p3 ⟨hc3, e', he⟩
    exact ⟨hc3, _, he.of_add⟩
  · exact Sat.pure ⟨hc, [], Ext.refl hacc⟩

theorem sinkAttrsW {f : Nat} (ih : SpecsW f) (acc : Node) (p : P) (hc : Cur p) (hacc : KW acc) :
    Sat (sinkAttrs (f+1) acc) p (fun r p' => Cur p' ∧ ∃ e, Ext acc r e) ET := by
  rw [sinkAttrs]
  wpr (isNotEndAndNotTokens_spec _ hc)
  rintro b _ rfl
  split
  · wpr (ih.run _ _ hc)
    intro e p1 ⟨hc1, hr1⟩
    wpr (skipComma_spec hc1)
    intro _ p2 ⟨hc2, _⟩
    wlast (ih.sinkAttrs _ _ hc2 (hacc.add hr1.2.1))
    intro r p3 ⟨hc3, e', he⟩
    exact ⟨hc3, _, he.of_add⟩
  · exact Sat.pure ⟨hc, [], Ext.refl hacc⟩

/-- an accepted string or identifier token is a complete node -/
theorem accept_wf {c : Node} {id : Nat} (h : Fresh c) (hid : ∃ t, c.tok = some t ∧ t.id = id)
    (ha : id = 5 ∨ id = 7) : WellFormed c = true ∧ c.name = (if id = 5 then "string" else "identifier") := by
  obtain ⟨t, ht, hidt⟩ := hid
  subst hidt
  have hne : t.id ≠ 26 := by omega
  rcases ha with ha | ha
  · have hn := h.name_of_id ht hne (by rw [ha]; rfl)
    refine ⟨(wf_iff c).2 ⟨h.KW, ?_⟩, by simp [ha, hn]⟩
    rw [h.sigs, hn]; decide
  · have hn := h.name_of_id ht hne (by rw [ha]; rfl)
    refine ⟨(wf_iff c).2 ⟨h.KW, ?_⟩, by simp [ha, hn]⟩
    rw [h.sigs, hn]; decide

theorem exceptTypesW {f : Nat} (ih : SpecsW f) (acc : Node) (p : P) (hc : Cur p) (hacc : KW acc) :
    Sat (exceptTypes (f+1) acc) p (fun r p' => Cur p' ∧ ∃ e, Ext acc r e) ET := by
  rw [exceptTypes]
  wpr (isNotEndAndNotTokens_spec _ hc)
  rintro b _ rfl
  split
  · wpr (acceptChild_spec _ hc)
    intro s p1 ⟨hc1, _, hf1, hid1⟩
    wpr (skipComma_spec hc1)
    intro _ p2 ⟨hc2, _⟩
    wlast (ih.exceptTypes _ _ hc2 (hacc.add (accept_wf hf1 hid1 (Or.inl rfl)).1))
    intro r p3 ⟨hc3, e', he⟩
    exact ⟨hc3, _, he.of_add⟩
  · exact Sat.pure ⟨hc, [], Ext.refl hacc⟩

theorem moreStatementsW {f : Nat} (ih : SpecsW f) (acc n : Node) (p : P) (hc : Cur p)
    (hn : ∃ t, n.tok = some t) (hacc : KW acc) :
    Sat (moreStatements (f+1) acc n) p (fun r p' => Cur p' ∧ ∃ e, Ext acc r e) ET := by
  rw [moreStatements]
  obtain ⟨nt, hnt⟩ := hn
  wpr (hasMoreStatements_spec hnt hc)
  rintro b _ rfl
  split
  · wpr (curId_spec hc)
    rintro id _ ⟨rfl, _⟩
    split
    · wpr (skipToken_spec _ hc)
      intro _ p1 ⟨hc1, _⟩
      wpr (ih.run _ _ hc1)
      intro e p2 ⟨hc2, hr2⟩
      wlast (ih.moreStatements _ _ _ hc2 hr2.1 (hacc.add hr2.2.1))
      intro r p3 ⟨hc3, e', he⟩
      exact ⟨hc3, _, he.of_add⟩
    · split
      · exact Sat.pure ⟨hc, [], Ext.refl hacc⟩
      · wpr (ih.run _ _ hc)
        intro e p2 ⟨hc2, hr2⟩
        wlast (ih.moreStatements _ _ _ hc2 hr2.1 (hacc.add hr2.2.1))
        intro r p3 ⟨hc3, e', he⟩
        exact ⟨hc3, _, he.of_add⟩
  · exact Sat.pure ⟨hc, [], Ext.refl hacc⟩

theorem topLoopW {f : Nat} (ih : SpecsW f) (acc n : Node) (p : P) (hc : Cur p)
    (hn : ∃ t, n.tok = some t) (hacc : KW acc) :
    Sat (topLoop (f+1) acc n) p (fun r p' => Cur p' ∧ ∃ e, Ext acc r e) ET := by
  rw [topLoop]
  obtain ⟨nt, hnt⟩ := hn
  wpr (hasMoreStatements_spec hnt hc)
  rintro b _ rfl
  split
  · wpr (skipOpt_spec _ hc)
    intro _ p1 ⟨hc1, _⟩
    wpr (ih.run _ _ hc1)
    intro e p2 ⟨hc2, hr2⟩
    wlast (ih.topLoop _ _ _ hc2 hr2.1 (hacc.add hr2.2.1))
    intro r p3 ⟨hc3, e', he⟩
    exact ⟨hc3, _, he.of_add⟩
  · exact Sat.pure ⟨hc, [], Ext.refl hacc⟩

theorem innerStatementsW {f : Nat} (ih : SpecsW f) (acc : Node) (p : P) (hc : Cur p) (hacc : KW acc) :
    Sat (innerStatements (f+1) acc) p (fun r p' => Cur p' ∧ ∃ k, Ext acc r [("statements", k)]) ET := by
  rw [innerStatements]
  wpr (skipToken_spec _ hc)
  intro _ p1 ⟨hc1, _⟩
  smk
  wpr (curIsNot_spec _ hc1)
  rintro nr _ rfl
  apply Sat.bind (Q1 := fun st q => Cur q ∧ ∃ e, Ext (instanceOf p1.braceBlock T_STATEMENTS none) st e)
    (E1 := ET) ?_ (fun _ he => he)
  · intro st p2 ⟨hc2, e, hst⟩
    wpr (skipToken_spec _ hc2)
    intro _ p3 ⟨hc3, _⟩
    obtain ⟨hwf, hname⟩ := wf_statements hst
    exact Sat.pure ⟨hc3, st.children.length, by simpa [hname] using Ext.add1 hacc hwf⟩
  · split
    · wpr (ih.run _ _ hc1)
      intro e p2 ⟨hc2, hr2⟩
      wpr (curIsNot_spec _ hc2)
      rintro pr _ rfl
      split
      · wlast (ih.moreStatements _ _ _ hc2 hr2.1 ((kw_statements _).add hr2.2.1))
        intro r p3 ⟨hc3, e', he⟩
        exact ⟨hc3, _, he.of_add⟩
      · exact Sat.pure ⟨hc2, [], Ext.refl (kw_statements _)⟩
    · exact Sat.pure ⟨hc1, [], Ext.refl (kw_statements _)⟩

end Ecal.Parse
