import Ecal.Lemmas.EvalScope
/-!
The list / map builtins of `Model/Eval.lean` (`lenB`, `addB`, `delB`, `appendVals`, `delAt`) against the obvious
list model.  A list value is a Go slice `.list r l`: backing array `r` (its length is the capacity) and length `l`;
`St.elems st r l` are its elements.
-/
namespace Ecal.Ev

def St.backing (st : St) (r : Nat) : List Val := st.lists.getD r []
def St.elems (st : St) (r l : Nat) : List Val := (st.backing r).take l
def St.entries (st : St) (r : Nat) : List (Val × Val) := st.maps.getD r []

theorem getBacking_run (r : Nat) (st : St) : runM (getBacking r) st = (.ok (st.backing r), st) := rfl
theorem setBacking_run (r : Nat) (b : List Val) (st : St) :
    runM (setBacking r b) st = (.ok (), { st with lists := st.lists.setIfInBounds r b }) := rfl
theorem newBacking_run (b : List Val) (st : St) :
    runM (newBacking b) st = (.ok st.lists.size, { st with lists := st.lists.push b }) := rfl
theorem getList_run (r l : Nat) (st : St) : runM (getList r l) st = (.ok (st.elems r l), st) := rfl
theorem getMap_run (r : Nat) (st : St) : runM (getMap r) st = (.ok (st.entries r), st) := rfl
theorem setMap_run (r : Nat) (kvs : List (Val × Val)) (st : St) :
    runM (setMap r kvs) st = (.ok (), { st with maps := st.maps.setIfInBounds r kvs }) := rfl

/-! ### append -/
theorem appendVals_nil (r l : Nat) (st : St) : runM (appendVals r l []) st = (.ok (.list r l), st) := rfl

theorem appendVals_fits (r l : Nat) (vs : List Val) (st : St) (hne : vs ≠ [])
    (hfit : l + vs.length ≤ (st.backing r).length) :
    runM (appendVals r l vs) st =
      (.ok (.list r (l + vs.length)),
       { st with lists := st.lists.setIfInBounds r ((st.backing r).take l ++ vs ++ (st.backing r).drop (l + vs.length)) }) := by
  have he : vs.isEmpty = false := by cases vs <;> simp_all
  unfold appendVals
  simp only [he, Bool.false_eq_true, if_false]
  rw [runM_bind, getBacking_run]
  simp only [hfit, if_true]
  rw [runM_bind, setBacking_run]
  rfl

theorem appendVals_grows (r l c : Nat) (vs : List Val) (st : St) (hne : vs ≠ [])
    (hbig : ¬ l + vs.length ≤ (st.backing r).length) (hc : growCap (st.backing r).length (l + vs.length) = some c) :
    runM (appendVals r l vs) st =
      (.ok (.list st.lists.size (l + vs.length)),
       { st with lists := st.lists.push ((st.backing r).take l ++ vs ++ List.replicate (c - (l + vs.length)) Val.null) }) := by
  have he : vs.isEmpty = false := by cases vs <;> simp_all
  unfold appendVals
  simp only [he, Bool.false_eq_true, if_false]
  rw [runM_bind, getBacking_run]
  simp only [hbig, if_false, hc]
  rw [runM_bind, newBacking_run]
  rfl

theorem appendVals_noCap (r l : Nat) (vs : List Val) (st st' : St) (res : Val) (hne : vs ≠ [])
    (hbig : ¬ l + vs.length ≤ (st.backing r).length) (hc : growCap (st.backing r).length (l + vs.length) = none) :
    runM (appendVals r l vs) st ≠ (.ok res, st') := by
  have he : vs.isEmpty = false := by cases vs <;> simp_all
  unfold appendVals
  simp only [he, Bool.false_eq_true, if_false]
  rw [runM_bind, getBacking_run]
  simp only [hbig, if_false, hc, runM_throw]
  intro h; injection h with h1 _; cases h1

theorem backing_set_same (st : St) (r : Nat) (b : List Val) (hr : r < st.lists.size) :
    ({ st with lists := st.lists.setIfInBounds r b } : St).backing r = b := by
  simp [St.backing, hr]
theorem backing_set_other (st : St) (r q : Nat) (b : List Val) (h : q ≠ r) :
    ({ st with lists := st.lists.setIfInBounds r b } : St).backing q = st.backing q := by
  simp only [St.backing, Array.getD_eq_getD_getElem?]
  rw [Array.getElem?_setIfInBounds_ne (Ne.symm h)]
theorem backing_push_new (st : St) (b : List Val) :
    ({ st with lists := st.lists.push b } : St).backing st.lists.size = b := by
  simp [St.backing]
theorem backing_push_old (st : St) (q : Nat) (b : List Val) (h : q ≠ st.lists.size) :
    ({ st with lists := st.lists.push b } : St).backing q = st.backing q := by
  simp only [St.backing, Array.getD_eq_getD_getElem?, Array.getElem?_push]
  simp [h]

theorem take_append_exact (a vs rest : List Val) (n : Nat) (h : a.length = n) :
    (a ++ vs ++ rest).take (n + vs.length) = a ++ vs := by
  rw [← h, ← List.length_append, List.take_left']
  rfl

/-- `append(slice, vs…)` against the list model, with Go's aliasing: the result has the old elements followed by
    `vs`.  Either it stays in the SAME backing array (capacity suffices): capacity unchanged, every alias of
    length ≤ the old length keeps its elements — a longer alias sees `vs` written over its tail —; or it moves to
    a NEW backing array: no existing array changes, so every alias of the old list is unchanged.  No other
    backing array changes in either case. -/
theorem append_model (r l : Nat) (vs : List Val) (st st' : St) (res : Val)
    (hr : r < st.lists.size) (hl : l ≤ (st.backing r).length)
    (h : runM (appendVals r l vs) st = (.ok res, st')) :
    ∃ r', res = .list r' (l + vs.length) ∧ st'.elems r' (l + vs.length) = st.elems r l ++ vs ∧
      (∀ q, q ≠ r' → st'.backing q = st.backing q) ∧
      ((r' = r ∧ (st'.backing r).length = (st.backing r).length ∧ ∀ l2, l2 ≤ l → st'.elems r l2 = st.elems r l2) ∨
       (r' = st.lists.size ∧ ∀ l2, st'.elems r l2 = st.elems r l2)) := by
  by_cases hne : vs = []
  · subst hne
    rw [appendVals_nil] at h
    injection h with h1 h2; injection h1 with h1; subst h1; subst h2
    exact ⟨r, rfl, by simp [St.elems], fun _ _ => rfl, Or.inl ⟨rfl, rfl, fun _ _ => rfl⟩⟩
  · have htl : ((st.backing r).take l).length = l := by simp [hl]
    by_cases hfit : l + vs.length ≤ (st.backing r).length
    · rw [appendVals_fits r l vs st hne hfit] at h
      injection h with h1 h2; injection h1 with h1; subst h1; subst h2
      refine ⟨r, rfl, ?_, fun q hq => backing_set_other st r q _ hq, Or.inl ⟨rfl, ?_, ?_⟩⟩
      · simp only [St.elems, backing_set_same st r _ hr]
        exact take_append_exact _ vs _ l htl
      · rw [backing_set_same st r _ hr]; simp; omega
      · intro l2 hl2
        simp only [St.elems, backing_set_same st r _ hr]
        rw [List.append_assoc, List.take_append_of_le_length (by omega), List.take_take]
        simp [Nat.min_eq_left hl2]
    · cases hc : growCap (st.backing r).length (l + vs.length) with
      | none => exact absurd h (appendVals_noCap r l vs st st' res hne hfit hc)
      | some c =>
        rw [appendVals_grows r l c vs st hne hfit hc] at h
        injection h with h1 h2; injection h1 with h1; subst h1; subst h2
        refine ⟨st.lists.size, rfl, ?_, fun q hq => backing_push_old st q _ hq, Or.inr ⟨rfl, ?_⟩⟩
        · simp only [St.elems, backing_push_new]
          exact take_append_exact _ vs _ l htl
        · intro l2
          simp only [St.elems, backing_push_old st r _ (Nat.ne_of_lt hr)]

/-! ### len / add / del -/
theorem len_list (r l : Nat) (rest : List Val) : lenB (.list r l :: rest) = pure (.num (Float.ofNat l)) := rfl
theorem len_map (r : Nat) (rest : List Val) (st : St) :
    runM (lenB (.map r :: rest)) st = (.ok (.num (Float.ofNat (st.entries r).length)), st) := rfl
theorem len_other (v : Val) (rest : List Val) (h1 : ∀ r l, v ≠ .list r l) (h2 : ∀ r, v ≠ .map r) :
    lenB (v :: rest) = throw (plain "Need a list or a map as first parameter") := by
  cases v <;> first | rfl | (exfalso; exact h1 _ _ rfl) | (exfalso; exact h2 _ rfl)
theorem len_noargs : lenB [] = throw (plain "Need a list or a map as first parameter") := rfl

/-- add(list, v) is `append(list, v)` -/
theorem add_append (r l : Nat) (v : Val) : addB [.list r l, v] = appendVals r l [v] := rfl
theorem add_noList (a v : Val) (rest : List Val) (h : ∀ r l, a ≠ .list r l) :
    addB (a :: v :: rest) = throw (plain "Parameter 1 should be a list") := by
  cases a <;> first | rfl | (exfalso; exact h _ _ rfl)
theorem add_fewArgs (a : Val) : addB [] = throw (plain "Need a list as first parameter and a value as second parameter") ∧
    addB [a] = throw (plain "Need a list as first parameter and a value as second parameter") := by
  constructor
  · rfl
  · cases a <;> rfl

/-- `del(list, i)` for a valid index: the elements of the result are the old ones without position `i`; it is the
    SAME backing array with the tail shifted down (the old slice therefore sees its last element twice), no other
    array changes -/
theorem delAt_model (r l i : Nat) (st : St) (hr : r < st.lists.size) (hl : l ≤ (st.backing r).length) (hi : i < l) :
    ∃ st', runM (delAt r l i) st = (.ok (.list r (l - 1)), st') ∧
      st'.elems r (l - 1) = (st.elems r l).eraseIdx i ∧
      st'.backing r = (st.backing r).take i ++ ((st.backing r).take l).drop (i + 1) ++ (st.backing r).drop (l - 1) ∧
      ∀ q, q ≠ r → st'.backing q = st.backing q := by
  refine ⟨{ st with lists := st.lists.setIfInBounds r ((st.backing r).take i ++ ((st.backing r).take l).drop (i + 1) ++ (st.backing r).drop (l - 1)) }, ?_, ?_, ?_, ?_⟩
  · unfold delAt
    rw [runM_bind, getBacking_run]
    simp only
    rw [runM_bind, setBacking_run]
    rfl
  · simp only [St.elems, backing_set_same st r _ hr]
    have h1 : ((st.backing r).take i ++ ((st.backing r).take l).drop (i + 1)).length = l - 1 := by
      simp; omega
    rw [List.take_append_of_le_length (by omega), List.take_of_length_le (by omega)]
    rw [List.eraseIdx_eq_take_drop_succ, List.take_take]
    simp [Nat.min_eq_left (Nat.le_of_lt hi)]
  · exact backing_set_same st r _ hr
  · intro q hq; exact backing_set_other st r q _ hq

/-- `del(list, k)`: index check — a number outside `0 ≤ i < len` is the error -/
theorem del_list_run (r l : Nat) (x : Float) (i : Int) (st : St) (hi : runM (goInt x) st = (.ok i, st)) :
    runM (delB [.list r l, .num x]) st =
      if i < 0 || i ≥ (l : Int) then (.error (plain "Out of bounds access to list"), st)
      else runM (delAt r l i.toNat) st := by
  unfold delB
  rw [runM_bind]
  simp only [numParamB, runM_pure]
  rw [runM_bind, hi]
  simp only
  split <;> rfl

/-- `del(map, k)` removes the entry whose key is the STRING form of `k` (number keys stay: sic) -/
theorem del_map_run (r : Nat) (k : Val) (key : List Nat) (st : St) (hk : runM (sprint k) st = (.ok key, st)) :
    runM (delB [.map r, k]) st =
      (.ok (.map r), { st with maps := st.maps.setIfInBounds r ((st.entries r).filter fun p => !(keyEq p.1 (.str key))) }) := by
  unfold delB
  rw [runM_bind, hk]
  simp only
  rw [runM_bind, getMap_run]
  simp only
  rw [runM_bind, setMap_run]
  rfl

theorem del_badArgs : delB [] = throw (plain "Need a list or a map as first parameter and an index or key as second parameter") := rfl

end Ecal.Ev
