import Ecal.Lemmas.EvalScope
/-!
The list / map builtins of `Model/Eval.lean` (`lenB`, `addB`, `delB`, `appendVals`, `delAt`) against the obvious
list model.  A list value is a Go slice `.list r l`: backing array `r` (its length is the capacity) and length `l`;
`St.elems st r l` are its elements.
-/
namespace Ecal.Ev

def St.backing (st : St) (r : Nat) : List Val := st.lists.getD r []
def St.elems (st : St) (r l : Nat) : List Val := (st.backing r).take l
def St.entries (st : St) (r : Nat) : List (Val × Val) := st.maps.getD r []

theorem getBacking_run (r : Nat) (st : St) : runM (getBacking r) st = (.ok (st.backing r), st) := rfl
theorem setBacking_run (r : Nat) (b : List Val) (st : St) :
    runM (setBacking r b) st = (.ok (), { st with lists := st.lists.setIfInBounds r b }) := rfl
theorem newBacking_run (b : List Val) (st : St) :
    runM (newBacking b) st = (.ok st.lists.size, { st with lists := st.lists.push b }) := rfl
theorem getList_run (r l : Nat) (st : St) : runM (getList r l) st = (.ok (st.elems r l), st) := rfl
theorem getMap_run (r : Nat) (st : St) : runM (getMap r) st = (.ok (st.entries r), st) := rfl
theorem setMap_run (r : Nat) (kvs : List (Val × Val)) (st : St) :
    runM (setMap r kvs) st = (.ok (), { st with maps := st.maps.setIfInBounds r kvs }) := rfl

/-! ### append -/
theorem appendVals_nil (r l : Nat) (st : St) : runM (appendVals r l []) st = (.ok (.list r l), st) := rfl

theorem appendVals_fits (r l : Nat) (vs : List Val) (st : St) (hne : vs ≠ [])
    (hfit : l + vs.length ≤ (st.backing r).length) :
    runM (appendVals r l vs) st =
      (.ok (.list r (l + vs.length)),
       { st with lists := st.lists.setIfInBounds r ((st.backing r).take l ++ vs ++ (st.backing r).drop (l + vs.length)) }) := by
  have he : vs.isEmpty = false := by cases vs <;> simp_all
  unfold appendVals
  simp only [he, Bool.false_eq_true, if_false]
  rw [runM_bind, getBacking_run]
  simp only [hfit, if_true]
  rw [runM_bind, setBacking_run]
  rfl

theorem appendVals_grows (r l c : Nat) (vs : List Val) (st : St) (hne : vs ≠ [])
    (hbig : ¬ l + vs.length ≤ (st.backing r).length) (hc : growCap (st.backing r).length (l + vs.length) = some c) :
    runM (appendVals r l vs) st =
      (.ok (.list st.lists.size (l + vs.length)),
       { st with lists := st.lists.push ((st.backing r).take l ++ vs ++ List.replicate (c - (l + vs.length)) Val.null) }) := by
  have he : vs.isEmpty = false := by cases vs <;> simp_all
  unfold appendVals
  simp only [he, Bool.false_eq_true, if_false]
  rw [runM_bind, getBacking_run]
  simp only [hbig, if_false, hc]
  rw [runM_bind, newBacking_run]
  rfl

theorem appendVals_noCap (r l : Nat) (vs : List Val) (st st' : St) (res : Val) (hne : vs ≠ [])
    (hbig : ¬ l + vs.length ≤ (st.backing r).length) (hc : growCap (st.backing r).length (l + vs.length) = none) :
    runM (appendVals r l vs) st ≠ (.ok res, st') := by
  have he : vs.isEmpty = false := by cases vs <;> simp_all
  unfold appendVals
  simp only [he, Bool.false_eq_true, if_false]
  rw [runM_bind, getBacking_run]
  simp only [hbig, if_false, hc, runM_throw]
  intro h; injection h with h1 _; cases h1

theorem backing_set_same (st : St) (r : Nat) (b : List Val) (hr : r < st.lists.size) :
    ({ st with lists := st.lists.setIfInBounds r b } : St).backing r = b := by
  simp [St.backing, hr]
theorem backing_set_other (st : St) (r q : Nat) (b : List Val) (h : q ≠ r) :
    ({ st with lists := st.lists.setIfInBounds r b } : St).backing q = st.backing q := by
  simp only [St.backing, Array.getD_eq_getD_getElem?]
  rw [Array.getElem?_setIfInBounds_ne (Ne.symm h)]
theorem backing_push_new (st : St) (b : List Val) :
    ({ st with lists := st.lists.push b } : St).backing st.lists.size = b := by
  simp [St.backing]
theorem backing_push_old (st : St) (q : Nat) (b : List Val) (h : q ≠ st.lists.size) :
    ({ st with lists := st.lists.push b } : St).backing q = st.backing q := by
  simp only [St.backing, Array.getD_eq_getD_getElem?, Array.getElem?_push]
  simp [h]

theorem take_append_exact (a vs rest : List Val) (n : Nat) (h : a.length = n) :
    (a ++ vs ++ rest).take (n + vs.length) = a ++ vs := by
  rw [← h, ← List.length_append, List.take_left']
  rfl

/-- `append(slice, vs…)` against the list model, with Go's aliasing: the result has the old elements followed by
    `vs`.  Either it stays in the SAME backing array (capacity suffices): capacity unchanged, every alias of
    length ≤ the old length keeps its elements — a longer alias sees `vs` written over its tail —; or it moves to
    a NEW backing array: no existing array changes, so every alias of the old list is unchanged.  No other
    backing array changes in either case. -/
theorem append_model (r l : Nat) (vs : List Val) (st st' : St) (res : Val)
    (hr : r < st.lists.size) (hl : l ≤ (st.backing r).length)
    (h : runM (appendVals r l vs) st = (.ok res, st')) :
    ∃ r', res = .list r' (l + vs.length) ∧ st'.elems r' (l + vs.length) = st.elems r l ++ vs ∧
      (∀ q, q ≠ r' → st'.backing q = st.backing q) ∧
      ((r' = r ∧ (st'.backing r).length = (st.backing r).length ∧ ∀ l2, l2 ≤ l → st'.elems r l2 = st.elems r l2) ∨
       (r' = st.lists.size ∧ ∀ l2, st'.elems r l2 = st.elems r l2)) := by
  by_cases hne : vs = []
  · subst hne
    rw [appendVals_nil] at h
    injection h with h1 h2; injection h1 with h1; subst h1; subst h2
    exact ⟨r, rfl, by simp [St.elems], fun _ _ => rfl, Or.inl ⟨rfl, rfl, fun _ _ => rfl⟩⟩
  · have htl : ((st.backing r).take l).length = l := by simp [hl]
    by_cases hfit : l + vs.length ≤ (st.backing r).length
    · rw [appendVals_fits r l vs st hne hfit] at h
      injection h with h1 h2; injection h1 with h1; subst h1; subst h2
      refine ⟨r, rfl, ?_, fun q hq => backing_set_other st r q _ hq, Or.inl ⟨rfl, ?_, ?_⟩⟩
      · simp only [St.elems, backing_set_same st r _ hr]
        exact take_append_exact _ vs _ l htl
      · rw [backing_set_same st r _ hr]; simp; omega
      · intro l2 hl2
        simp only [St.elems, backing_set_same st r _ hr]
        rw [List.append_assoc, List.take_append_of_le_length (by omega), List.take_take]
        simp [Nat.min_eq_left hl2]
    · cases hc : growCap (st.backing r).length (l + vs.length) with
      | none => exact absurd h (appendVals_noCap r l vs st st' res hne hfit hc)
      | some c =>
        rw [appendVals_grows r l c vs st hne hfit hc] at h
        injection h with h1 h2; injection h1 with h1; subst h1; subst h2
        refine ⟨st.lists.size, rfl, ?_, fun q hq => backing_push_old st q _ hq, Or.inr ⟨rfl, ?_⟩⟩
        · simp only [St.elems, backing_push_new]
          exact take_append_exact _ vs _ l htl
        · intro l2
          simp only [St.elems, backing_push_old st r _ (Nat.ne_of_lt hr)]

/-! ### len / add / del -/
theorem len_list (r l : Nat) (rest : List Val) : lenB (.list r l :: rest) = pure (.num (Float.ofNat l)) := rfl
theorem len_map (r : Nat) (rest : List Val) (st : St) :
    runM (lenB (.map r :: rest)) st = (.ok (.num (Float.ofNat (st.entries r).length)), st) := rfl
theorem len_other (v : Val) (rest : List Val) (h1 : ∀ r l, v ≠ .list r l) (h2 : ∀ r, v ≠ .map r) :
    lenB (v :: rest) = throw (plain "Need a list or a map as first parameter") := by
  cases v <;> first | rfl | (exfalso; exact h1 _ _ rfl) | (exfalso; exact h2 _ rfl)
theorem len_noargs : lenB [] = throw (plain "Need a list or a map as first parameter") := rfl

/-- add(list, v) builds a new list (`appendNew`) -/
theorem add_append (r l : Nat) (v : Val) : addB [.list r l, v] = appendNew r l v := rfl
theorem add_noList (a v : Val) (rest : List Val) (h : ∀ r l, a ≠ .list r l) :
    addB (a :: v :: rest) = throw (plain "Parameter 1 should be a list") := by
  cases a <;> first | rfl | (exfalso; exact h _ _ rfl)
theorem add_fewArgs (a : Val) : addB [] = throw (plain "Need a list as first parameter and a value as second parameter") ∧
    addB [a] = throw (plain "Need a list as first parameter and a value as second parameter") := by
  constructor
  · rfl
  · cases a <;> rfl

/-- what a builtin that builds a NEW list leaves: the result is the new cell `st.lists.size` holding exactly `xs`
    (capacity = length), and NO existing backing array changes — so neither the argument nor any alias of it -/
def NewList (st st' : St) (res : Val) (xs : List Val) : Prop :=
  res = .list st.lists.size xs.length ∧ st'.elems st.lists.size xs.length = xs ∧
  st'.backing st.lists.size = xs ∧ ∀ q, q < st.lists.size → st'.backing q = st.backing q

theorem newListExact_run (xs : List Val) (st : St) :
    runM (newListExact xs) st = (.ok (.list st.lists.size xs.length), { st with lists := st.lists.push xs }) := rfl

theorem newList_push (st : St) (xs : List Val) :
    NewList st { st with lists := st.lists.push xs } (.list st.lists.size xs.length) xs :=
  ⟨rfl, by simp [St.elems, backing_push_new], backing_push_new st xs, fun q hq => backing_push_old st q xs (Nat.ne_of_lt hq)⟩

/-- `del(list, i)` (repaired): a new list = the old elements without position `i` -/
theorem delAt_model (r l i : Nat) (st : St) :
    ∃ st', runM (delAt r l i) st = (.ok (.list st.lists.size ((st.elems r l).take i ++ (st.elems r l).drop (i + 1)).length), st') ∧
      NewList st st' (.list st.lists.size ((st.elems r l).take i ++ (st.elems r l).drop (i + 1)).length)
        ((st.elems r l).eraseIdx i) := by
  refine ⟨{ st with lists := st.lists.push ((st.elems r l).take i ++ (st.elems r l).drop (i + 1)) }, rfl, ?_⟩
  rw [List.eraseIdx_eq_take_drop_succ]
  exact newList_push st _

/-- `add(list, v)` (repaired): a new list = the old elements followed by `v` -/
theorem appendNew_model (r l : Nat) (v : Val) (st : St) :
    ∃ st', runM (appendNew r l v) st = (.ok (.list st.lists.size (st.elems r l ++ [v]).length), st') ∧
      NewList st st' (.list st.lists.size (st.elems r l ++ [v]).length) (st.elems r l ++ [v]) :=
  ⟨_, rfl, newList_push st _⟩

/-- `add(list, v, i)` (repaired): a new list = the old elements with `v` inserted before position `i` -/
theorem insertAt_model (r l i : Nat) (v : Val) (st : St) :
    ∃ st', runM (insertAt r l v i) st = (.ok (.list st.lists.size ((st.elems r l).take i ++ [v] ++ (st.elems r l).drop i).length), st') ∧
      NewList st st' (.list st.lists.size ((st.elems r l).take i ++ [v] ++ (st.elems r l).drop i).length)
        ((st.elems r l).take i ++ [v] ++ (st.elems r l).drop i) :=
  ⟨_, rfl, newList_push st _⟩

/-- `del(list, k)`: index check — a number outside `0 ≤ i < len` is the error -/
theorem del_list_run (r l : Nat) (x : Float) (i : Int) (st : St) (hi : runM (goInt x) st = (.ok i, st)) :
    runM (delB [.list r l, .num x]) st =
      if i < 0 || i ≥ (l : Int) then (.error (plain "Out of bounds access to list"), st)
      else runM (delAt r l i.toNat) st := by
  unfold delB
  rw [runM_bind]
  simp only [numParamB, runM_pure]
  rw [runM_bind, hi]
  simp only
  split <;> rfl

/-- `del(map, k)` (repaired) removes the entry under `delKeyOf`: an existing NUMBER key when the string form of `k`
    is a number, else the string form — the key reads and writes choose (`fieldKey`) -/
theorem del_map_run (r : Nat) (k : Val) (key : List Nat) (st : St) (hk : runM (sprint k) st = (.ok key, st)) :
    runM (delB [.map r, k]) st =
      (.ok (.map r), { st with maps := st.maps.setIfInBounds r (List.filter (fun p => !(keyEq p.1 (delKeyOf (st.entries r) key))) (st.entries r)) }) := by
  unfold delB
  rw [runM_bind, hk]
  simp only
  rw [runM_bind, getMap_run]
  simp only
  rw [runM_bind, setMap_run]
  rfl

/-- after `del(map, k)` the key is gone: a lookup of the removed key finds nothing (keys on which `keyEq` is an
    equivalence: every key but NaN; here: whenever no remaining entry matches) -/
theorem mapLookup_filter_removed (kvs : List (Val × Val)) (dk : Val) :
    mapLookup (kvs.filter fun p => !(keyEq p.1 dk)) dk = none := by
  unfold mapLookup
  have : (kvs.filter fun p => !(keyEq p.1 dk)).find? (fun p => keyEq p.1 dk) = none := by
    rw [List.find?_eq_none]
    intro p hp
    simp only [List.mem_filter, Bool.not_eq_eq_eq_not, Bool.not_true] at hp
    simp [hp.2]
  rw [this]; rfl

theorem del_badArgs : delB [] = throw (plain "Need a list or a map as first parameter and an index or key as second parameter") := rfl


/-! ### add(l, v, i) and concat -/
theorem append_inBounds (r l : Nat) (vs : List Val) (st st' : St) (r' l' : Nat) (hr : r < st.lists.size)
    (h : runM (appendVals r l vs) st = (.ok (.list r' l'), st')) : r' < st'.lists.size ∧ st.lists.size ≤ st'.lists.size := by
  by_cases hne : vs = []
  · subst hne; rw [appendVals_nil] at h
    injection h with h1 h2; injection h1 with h1; injection h1 with h1 _; subst h1; subst h2; exact ⟨hr, Nat.le_refl _⟩
  · by_cases hfit : l + vs.length ≤ (st.backing r).length
    · rw [appendVals_fits r l vs st hne hfit] at h
      injection h with h1 h2; injection h1 with h1; injection h1 with h1 _; subst h1; subst h2
      simp [hr]
    · cases hc : growCap (st.backing r).length (l + vs.length) with
      | none => exact absurd h (appendVals_noCap r l vs st st' _ hne hfit hc)
      | some c =>
        rw [appendVals_grows r l c vs st hne hfit hc] at h
        injection h with h1 h2; injection h1 with h1; injection h1 with h1 _; subst h1; subst h2
        simp

theorem elems_length (st : St) (r l : Nat) (hl : l ≤ (st.backing r).length) : (st.elems r l).length = l := by
  simp [St.elems, hl]

theorem take_prefix_exact (x rest : List Val) (n : Nat) (h : x.length = n) : (x ++ rest).take n = x := by
  rw [← h]; exact List.take_left'  rfl

/-- `add(l, v, i)`: index check and insertion -/
theorem add_insert_run (r l : Nat) (v : Val) (x : Float) (i : Int) (st : St) (hi : runM (goInt x) st = (.ok i, st))
    (hint : isIntegral x = true) :
    runM (addB [.list r l, v, .num x]) st =
      if i < 0 || i > (l : Int) then (.error (plain "Out of bounds access to list"), st)
      else runM (insertAt r l v i.toNat) st := by
  unfold addB
  simp only
  rw [runM_bind]
  simp only [numParamB, runM_pure]
  rw [runM_bind, hi]
  simp only [hint, Bool.not_true, Bool.false_eq_true, if_false]
  split <;> rfl

/-- the elements a concat argument contributes -/
def St.elemsOf (st : St) : Val → List Val
  | .list r l => st.elems r l
  | _ => []

theorem concatGo_model (st0 : St) : ∀ (args : List Val) (cr cl : Nat) (s s' : St) (res : Val),
    (∀ a ∈ args, ∃ r l, a = .list r l ∧ r < st0.lists.size) →
    st0.lists.size ≤ cr → cr < s.lists.size → cl ≤ (s.backing cr).length →
    (∀ q, q < st0.lists.size → s.backing q = st0.backing q) →
    runM (concatGo args (.list cr cl)) s = (.ok res, s') →
    ∃ r' l', res = .list r' l' ∧ st0.lists.size ≤ r' ∧
      s'.elems r' l' = s.elems cr cl ++ args.flatMap st0.elemsOf ∧
      ∀ q, q < st0.lists.size → s'.backing q = st0.backing q := by
  intro args
  induction args with
  | nil =>
    intro cr cl s s' res _ hcr _ _ hk h
    simp only [concatGo, runM_pure] at h
    injection h with h1 h2; injection h1 with h1; subst h1; subst h2
    exact ⟨cr, cl, rfl, hcr, by simp, hk⟩
  | cons a rest ih =>
    intro cr cl s s' res hargs hcr hcs hcl hk h
    obtain ⟨r, l, ha, hr⟩ := hargs a (by simp)
    subst ha
    simp only [concatGo] at h
    rw [runM_bind, getList_run] at h
    simp only at h
    rw [runM_bind] at h
    cases hap : runM (appendVals cr cl (s.elems r l)) s with
    | mk ra s1 =>
      rw [hap] at h
      cases ra with
      | error e => simp at h
      | ok x =>
        simp only at h
        obtain ⟨r', hx, hel, hoth, hcase⟩ := append_model cr cl (s.elems r l) s s1 x hcs hcl hap
        subst hx
        have hb := append_inBounds cr cl (s.elems r l) s s1 r' _ hcs hap
        have hr'ge : st0.lists.size ≤ r' := by
          rcases hcase with ⟨e, _⟩ | ⟨e, _⟩
          · rw [e]; exact hcr
          · rw [e]; omega
        have hk1 : ∀ q, q < st0.lists.size → s1.backing q = st0.backing q := by
          intro q hq
          rw [hoth q (by omega)]; exact hk q hq
        have hsame : s.elems r l = st0.elems r l := by simp only [St.elems, hk r hr]
        have hcl1 : cl + (s.elems r l).length ≤ (s1.backing r').length := by
          have h5 : (s1.elems r' (cl + (s.elems r l).length)).length = cl + (s.elems r l).length := by
            rw [hel, List.length_append, elems_length s cr cl hcl]
          generalize (s.elems r l).length = n at h5 ⊢
          have h6 : (s1.elems r' (cl + n)).length = min (cl + n) (s1.backing r').length := by simp [St.elems]
          omega
        obtain ⟨r2, l2, e1, e2, e3, e4⟩ := ih r' _ s1 s' res (fun b hb' => hargs b (by simp [hb'])) hr'ge hb.1 hcl1 hk1 h
        refine ⟨r2, l2, e1, e2, ?_, e4⟩
        rw [e3, hel, hsame]
        simp [St.elemsOf, List.append_assoc]

/-- `concat(l1, l2, …)` (at least two lists): the result holds the elements of all arguments in order and lives in a
    NEW backing array — no existing array, hence no argument and no alias of one, changes -/
theorem concat_model (args : List Val) (st st' : St) (res : Val)
    (hargs : ∀ a ∈ args, ∃ r l, a = .list r l ∧ r < st.lists.size)
    (h : runM (concatB args) st = (.ok res, st')) :
    ∃ r' l', res = .list r' l' ∧ st.lists.size ≤ r' ∧ st'.elems r' l' = args.flatMap st.elemsOf ∧
      ∀ q, q < st.lists.size → st'.backing q = st.backing q := by
  unfold concatB at h
  by_cases hlen : args.length < 2
  · simp only [hlen, if_true] at h
    rw [runM_bind, runM_throw] at h
    simp at h
  · simp only [hlen, if_false] at h
    rw [runM_bind, newBacking_run] at h
    simp only at h
    have := concatGo_model st args st.lists.size 0 _ st' res hargs (Nat.le_refl _) (by simp) (Nat.zero_le _)
      (fun q hq => backing_push_old st q [] (Nat.ne_of_lt hq)) h
    obtain ⟨r', l', e1, e2, e3, e4⟩ := this
    exact ⟨r', l', e1, e2, by rw [e3]; simp [St.elems], e4⟩

theorem concat_fewArgs (args : List Val) (st : St) (h : args.length < 2) :
    runM (concatB args) st = (.error (plain "Need at least two lists as parameters"), st) := by
  unfold concatB
  simp only [h, if_true]
  rw [runM_bind, runM_throw]

theorem concat_notList (a : Val) (rest : List Val) (cur : Val) (h : ∀ r l, a ≠ .list r l) :
    concatGo (a :: rest) cur = throw (plain "Parameter 1 should be a list") := by
  cases a <;> first | rfl | (exfalso; exact h _ _ rfl)

/-! ### the code BEFORE the add / del repair (negative witnesses only) -/

/-- del(list, i) before the repair: `append(argList[:i], argList[i+1:]...)` shifts inside the argument's array -/
def delAtOld (r l i : Nat) : M Val := do
  let b ← getBacking r
  setBacking r (b.take i ++ (b.take l).drop (i + 1) ++ b.drop (l - 1))
  pure (.list r (l - 1))

/-- add(list, v, i) before the repair: `append(list, 0); copy(list[i+1:], list[i:]); list[i] = v` in place -/
def insertAtOld (r l : Nat) (v : Val) (i : Nat) : M Val := do
  match ← appendVals r l [.num 0] with
  | .list r' l' =>
    let b ← getBacking r'
    let cur := b.take l'
    setBacking r' (cur.take i ++ [v] ++ (cur.drop i).take (l' - i - 1) ++ b.drop l')
    pure (.list r' l')
  | x => pure x

/-- del(map, k) before the repair: always the string form of `k` -/
def delKeyOld (key : List Nat) : Val := .str key

end Ecal.Ev
