import Ecal.Lemmas.LexTerminates
import Ecal.Lemmas.LexerGap
/-!
List-level facts about the token list of the lexer model (C18): the EOF token occurs only at the
end and carries the line of the end of the input, `Pos` is strictly increasing, and every token
was produced by `lexToken` from a token-boundary state standing at its `Pos`.
-/
namespace Ecal.Lex
open Ecal.Lex.Spec

/-- the EOF token skipWhiteSpace's loop pushes carries the line of the end of the input, if the
    line counter was true when the loop started (`p` = start of the pending rune) -/
theorem sws_loop_eof (fuel : Nat) : ∀ (l : L) (r : Option Nat) (p : Nat), Pend l r p →
    l.line = nlBefore l.inp p → (r = none → l.inp.size ≤ l.pos) →
    (r ≠ none → l.inp.size - l.pos < fuel) → 1 ≤ fuel →
    (skipWhiteSpace.loop fuel l r).2 = false →
    ∃ e, (skipWhiteSpace.loop fuel l r).1.toks = l.toks.push e ∧ e.id = tEOF ∧
      e.line = lineOf l.inp l.inp.size := by
  induction fuel with
  | zero => intro l r p _ _ _ _ h; omega
  | succ n ih =>
    intro l r p hp hline hn hf _ hfalse
    simp only [skipWhiteSpace.loop] at hfalse ⊢
    obtain ⟨f1, f2, f3, f4⟩ := hp.facts
    split at hfalse
    · rename_i hb
      simp only [hb, if_true]
      generalize hl1 : (if r = some 10 then { l.track r with skippedNl := l.skippedNl + 1 } else l) = l1 at hfalse ⊢
      have e1 : l1.inp = l.inp ∧ l1.pos = l.pos ∧ l1.toks = l.toks ∧ l1.line = nlBefore l.inp l.pos := by
        subst hl1; split
        · rename_i h10
          obtain ⟨hq, hb10⟩ := f3 h10
          refine ⟨by simp [L.track], by simp [L.track], by simp [L.track], ?_⟩
          simp only [L.track, trackPair, h10, if_true]
          rw [hq, hline]; simp [nlBefore, hb10]
        · rename_i h10
          refine ⟨rfl, rfl, rfl, ?_⟩
          rw [hline, (nlBefore_noNl' f1 (f4 h10)).1]
      obtain ⟨i1, i2, i3, i4⟩ := e1
      by_cases hr2 : (l1.next).2 = none
      · simp only [hr2, if_true]
        rw [next_none_state l1 hr2]
        have hsz : l.inp.size ≤ l.pos := by
          have := (next_none_iff l1).1 hr2; rw [i1, i2] at this; exact this
        have hpe : l.pos = l.inp.size := Nat.le_antisymm f2 hsz
        refine ⟨Tok.mk tEOF l1.start [] false false l1.skippedNl l1.stamp.1 l1.stamp.2,
          by simp [L.emitToken, L.emit, i3], rfl, ?_⟩
        show l1.line + 1 = lineOf l.inp l.inp.size
        rw [i4, hpe]; rfl
      · simp only [hr2, if_false] at hfalse ⊢
        obtain ⟨np, nc⟩ := next_spec l1 (by rw [i1, i2]; exact f2)
        obtain ⟨c1, c2, _, _, c5⟩ := core_fields nc
        obtain ⟨p1, p2, _, _⟩ := next_some_progress l1 (by rw [i1, i2]; exact f2) hr2
        have hrs : r ≠ none := by
          intro h0
          apply hr2; apply (next_none_iff l1).2
          rw [i1, i2]; exact hn h0
        have hfl := hf hrs
        rw [i2] at p1
        rw [i1] at p2
        have hm : l.inp.size - (l1.next).1.pos < n := by omega
        have := ih (l1.next).1 (l1.next).2 l1.pos np (by rw [c1, c2, i1, i2]; exact i4)
          (fun h0 => absurd h0 hr2) (fun _ => by rw [c1, i1]; exact hm) (by omega) hfalse
        rw [c5, i3, c1, i1] at this
        exact this
    · simp at hfalse

/-- skipWhiteSpace run from a state that satisfies the invariant: if it returns false, the token it
    pushed is EOF with the line of the end of the input -/
theorem sws_eof_line (l : L) (h : Inv l) (hfalse : (skipWhiteSpace l).2 = false) :
    ∃ e, (skipWhiteSpace l).1.toks = l.toks.push e ∧ e.id = tEOF ∧ e.line = lineOf l.inp l.inp.size := by
  obtain ⟨np, nc⟩ := next_spec l h.le
  obtain ⟨c1, c2, _, _, c5⟩ := core_fields nc
  simp only [skipWhiteSpace] at hfalse ⊢
  have hp0 : Pend ({ (l.next).1 with skippedNl := 0 } : L) (l.next).2 l.pos :=
    ⟨np.le, np.none_pos, np.some_pos⟩
  have := sws_loop_eof ((l.next).1.inp.size + 2) { (l.next).1 with skippedNl := 0 } (l.next).2 l.pos hp0
    (by show (l.next).1.line = nlBefore (l.next).1.inp l.pos; rw [c1, c2]; exact h.tr.1)
    (fun h0 => by
      show (l.next).1.inp.size ≤ (l.next).1.pos
      rw [next_none_state l h0]; exact (next_none_iff l).1 h0)
    (fun _ => by show (l.next).1.inp.size - (l.next).1.pos < (l.next).1.inp.size + 2; omega) (by omega) hfalse
  obtain ⟨e, he, hid, hline⟩ := this
  exact ⟨e, by rw [he]; show (l.next).1.toks.push e = _; rw [c5], hid, by rw [hline]; show lineOf (l.next).1.inp _ = _; rw [c1]⟩

theorem nlBefore_mono (inp : Bytes) (a : Nat) : ∀ n, nlBefore inp a ≤ nlBefore inp (a + n)
  | 0 => Nat.le_refl _
  | n+1 => by
    rw [← Nat.add_assoc]
    simp only [nlBefore]
    exact Nat.le_trans (nlBefore_mono inp a n) (Nat.le_add_right _ _)

theorem lineOf_mono (inp : Bytes) {a b : Nat} (h : a ≤ b) : lineOf inp a ≤ lineOf inp b := by
  obtain ⟨n, rfl⟩ := Nat.exists_eq_add_of_le h
  exact Nat.add_le_add_right (nlBefore_mono inp a n) 1

/-- how a token got into the list: `lexToken`, run on a token-boundary state `s` of the same input
    (invariant, first rune not blank), pushed exactly it; unless it is a comment or an error token,
    `s` stood at the token's `Pos` -/
def GenOK (inp : Bytes) (t : Tok) : Prop :=
  ∃ s : L, Inv s ∧ Ready s ∧ s.inp = inp ∧ (lexToken s).1.toks = s.toks.push t ∧
    (t.id = tPOSTCOMMENT ∨ t.id = tPRECOMMENT ∨ t.id = tERROR ∨ t.pos = s.pos)

/-- where the previous token's phase ended (`e`): at offset 0 if there is no previous token; else
    behind the previous token `a` — directly behind its text when its value is its source text
    (`EndOK`: keywords, symbols, identifiers, comments) -/
def PrevEnd (pre : List Tok) (e : Nat) : Prop :=
  (pre = [] ∧ e = 0) ∨ ∃ pre' a, pre = pre' ++ [a] ∧ a.pos < e ∧ EndOK a.id a.pos a.val.length e

/-- **the gap in front of a token**: `t` (with the tokens `pre` before it) was lexed from the boundary
    offset `spos` — `Pos` itself, or the comment opener in front of it (`OffOK`) — where a rune stands
    that is not blank, and everything between the end of the previous token's phase and `spos` is a
    run of blank runes -/
def GapAt (inp : Bytes) (pre : List Tok) (t : Tok) : Prop :=
  ∃ spos e, OffOK t.id t.pos spos ∧ spos < inp.size ∧ blank (some (decodeRune inp spos).1) = false ∧
    BlankRun inp e spos ∧ PrevEnd pre e

/-- the tokens before the final EOF: no EOF among them, `Pos` strictly increasing, each generated
    by `lexToken` at a token boundary, each with a blank gap in front of it -/
def TokBody (inp : Bytes) (body : List Tok) : Prop :=
  (∀ t ∈ body, t.id ≠ tEOF) ∧ body.Pairwise (fun a b => a.pos < b.pos) ∧ (∀ t ∈ body, GenOK inp t) ∧
  (∀ pre t post, body = pre ++ t :: post → GapAt inp pre t)

/-- decomposing a list that ends in `x` -/
theorem snoc_decomp {α : Type} {body pre post : List α} {x t : α} (h : body ++ [x] = pre ++ t :: post) :
    (post = [] ∧ pre = body ∧ t = x) ∨ ∃ post', post = post' ++ [x] ∧ body = pre ++ t :: post' := by
  rcases List.eq_nil_or_concat post with rfl | ⟨post', y, rfl⟩
  · left
    have := List.append_inj' h (by simp)
    exact ⟨rfl, this.1.symm, by simpa using this.2.symm⟩
  · right
    have h' : body ++ [x] = (pre ++ t :: post') ++ [y] := by simpa using h
    have := List.append_inj' h' (by simp)
    have hy : x = y := by simpa using this.2
    exact ⟨post', by rw [hy]; simp, this.1⟩

/-- the shape of a complete token list: the body, then either nothing (the body ends with an error
    token) or the EOF token, which carries the line of the end of the input unless the body ends
    with an error token (the lexer had stopped; that EOF is incidental) -/
def Final (inp : Bytes) (ts : List Tok) : Prop :=
  ∃ body fin, ts = body ++ fin ∧ TokBody inp body ∧
    ((fin = [] ∧ ∃ e, body.getLast? = some e ∧ e.id = tERROR) ∨
     (∃ eof, fin = [eof] ∧ eof.id = tEOF ∧
       (eof.line = lineOf inp inp.size ∨ ∃ e, body.getLast? = some e ∧ e.id = tERROR)))

/-- between tokens: the list so far is a body, and every token starts before the read position -/
structure ListInv (l : L) : Prop where
  body : TokBody l.inp l.toks.toList
  lt : ∀ t ∈ l.toks.toList, t.pos < l.pos
  gap : ∃ e, BlankRun l.inp e l.pos ∧ PrevEnd l.toks.toList e

theorem TokBody.push {inp : Bytes} {body : List Tok} {t : Tok} (h : TokBody inp body)
    (hid : t.id ≠ tEOF) (hlt : ∀ a ∈ body, a.pos < t.pos) (hg : GenOK inp t) (hgap : GapAt inp body t) :
    TokBody inp (body ++ [t]) := by
  obtain ⟨b1, b2, b3, b4⟩ := h
  refine ⟨?_, ?_, ?_, ?_⟩
  · intro a ha
    rcases List.mem_append.mp ha with ha | ha
    · exact b1 a ha
    · rw [List.mem_singleton.mp ha]; exact hid
  · rw [List.pairwise_append]
    refine ⟨b2, List.pairwise_singleton _ _, ?_⟩
    intro a ha b hb
    rw [List.mem_singleton.mp hb]; exact hlt a ha
  · intro a ha
    rcases List.mem_append.mp ha with ha | ha
    · exact b3 a ha
    · rw [List.mem_singleton.mp ha]; exact hg
  · intro pre a post hd
    rcases snoc_decomp hd with ⟨_, rfl, rfl⟩ | ⟨post', _, hb⟩
    · exact hgap
    · exact b4 pre a post' hb

theorem lex_loop_final (fuel : Nat) : ∀ (l : L), Inv l → Ready l → ListInv l → l.inp.size - l.pos < fuel →
    Final l.inp (lex.loop fuel l).toks.toList := by
  induction fuel with
  | zero => intro l _ _ _ h; omega
  | succ n ih =>
    intro l h hr hl hf
    obtain ⟨_, t2, t3, t, ht, hle1, hprog, hstop, hid, hge, hkind⟩ := lexToken_inv l h hr
    obtain ⟨sf, st⟩ := sws_total (lexToken l).1 hle1
    have e := sws_ext (lexToken l).1
    -- the list after this phase is a body again
    obtain ⟨hkind, hoff, hend⟩ := hkind
    have hgapT : GapAt l.inp l.toks.toList t := by
      obtain ⟨e, he1, he2⟩ := hl.gap
      exact ⟨l.pos, e, hoff, hr.1, hr.2, he1, he2⟩
    have hbody : TokBody l.inp (l.toks.toList ++ [t]) :=
      hl.body.push hid (fun a ha => Nat.lt_of_lt_of_le (hl.lt a ha) hge) ⟨l, h, hr, rfl, ht, hkind⟩ hgapT
    have hlast : (l.toks.toList ++ [t]).getLast? = some t := by simp
    have htoks1 : (lexToken l).1.toks.toList = l.toks.toList ++ [t] := by rw [ht]; simp
    simp only [lex.loop]
    split
    · rename_i hc
      simp only [Bool.or_eq_true, Bool.not_eq_true', decide_eq_true_eq] at hc
      cases hok : (skipWhiteSpace (lexToken l).1).2 with
      | false =>
        -- EOF was pushed
        obtain ⟨eof, he, heid⟩ := sf hok
        refine ⟨l.toks.toList ++ [t], [eof], by rw [he]; simp [htoks1], hbody, Or.inr ⟨eof, rfl, heid, ?_⟩⟩
        -- its line: the invariant held when skipWhiteSpace started, unless an error token was pushed
        have hinv1 : t.id = tERROR ∨ Inv (lexToken l).1 := by
          cases hx : (lexToken l).2 with
          | token => exact Or.inr (t2 hx)
          | stop => exact (hstop hx).imp id (fun h => h.2)
        rcases hinv1 with hte | hinv1
        · exact Or.inr ⟨t, hlast, hte⟩
        · obtain ⟨e', he', _, hline⟩ := sws_eof_line _ hinv1 hok
          have : eof = e' := by
            have h1 := he.symm.trans he'
            have := congrArg Array.back? h1
            simpa using this
          rw [this, hline, t3]; exact Or.inl rfl
      | true =>
        have hnx : (lexToken l).2 = Next.stop := by
          rcases hc with hc | hc
          · rw [hok] at hc; simp at hc
          · exact hc
        refine ⟨l.toks.toList ++ [t], [], by rw [st hok]; simp [htoks1], hbody, Or.inl ⟨rfl, t, hlast, ?_⟩⟩
        rcases hstop hnx with hte | ⟨hend, _⟩
        · exact hte
        · have := sws_false_at_end _ hend
          rw [hok] at this; simp at this
    · rename_i hc
      simp only [Bool.or_eq_true, Bool.not_eq_true', decide_eq_true_eq, not_or, Bool.not_eq_false] at hc
      obtain ⟨hok, hnx⟩ := hc
      have htok : (lexToken l).2 = Next.token := by
        cases hx : (lexToken l).2 with
        | token => rfl
        | stop => exact absurd hx hnx
      obtain ⟨i1, i2, i3⟩ := sws_inv_ready _ (t2 htok) hok
      have hp := hprog htok
      have hinp : (skipWhiteSpace (lexToken l).1).1.inp = l.inp := e.1.trans t3
      have hl2 : ListInv (skipWhiteSpace (lexToken l).1).1 := by
        refine ⟨by rw [hinp, st hok, htoks1]; exact hbody, ?_, ?_⟩
        · intro a ha
          rw [st hok, htoks1] at ha
          rcases List.mem_append.mp ha with ha | ha
          · have := hl.lt a ha; omega
          · rw [List.mem_singleton.mp ha]; omega
        · refine ⟨(lexToken l).1.pos, ?_, Or.inr ⟨l.toks.toList, t, by rw [st hok, htoks1], hp, hend⟩⟩
          have := sws_blank (lexToken l).1 hle1 hok
          rw [t3] at this; rw [hinp]; exact this
      have := ih _ i1 i2 hl2 (by rw [hinp]; rw [t3] at hle1; omega)
      rw [hinp] at this
      exact this

/-- **the shape of every token list** -/
theorem lex_final (input : List Nat) : Final input.toArray (lex input).toList := by
  have h0 : Inv ({ inp := input.toArray } : L) :=
    ⟨Nat.zero_le _, ⟨rfl, Or.inl rfl⟩, fun t ht => by simp at ht⟩
  obtain ⟨sf, st⟩ := sws_total ({ inp := input.toArray } : L) (Nat.zero_le _)
  have e := sws_ext ({ inp := input.toArray } : L)
  simp only [lex]
  split
  · rename_i hok
    simp only [Bool.not_eq_true'] at hok
    obtain ⟨eof, he, hid, hline⟩ := sws_eof_line _ h0 hok
    exact ⟨[], [eof], by rw [he]; simp, ⟨by simp, by simp, by simp, by intro pre t post h; simp at h⟩,
      Or.inr ⟨eof, rfl, hid, Or.inl hline⟩⟩
  · rename_i hok
    simp only [Bool.not_eq_true', Bool.not_eq_false] at hok
    obtain ⟨i1, i2, i3⟩ := sws_inv_ready _ h0 hok
    have hl : ListInv (skipWhiteSpace ({ inp := input.toArray } : L)).1 := by
      refine ⟨?_, ?_, ?_⟩
      · rw [st hok]; exact ⟨by simp, by simp, by simp, by intro pre t post h; simp at h⟩
      · intro a ha; rw [st hok] at ha; simp at ha
      · refine ⟨0, ?_, Or.inl ⟨by rw [st hok], rfl⟩⟩
        have := sws_blank ({ inp := input.toArray } : L) (Nat.zero_le _) hok
        rw [e.1]; exact this
    have := lex_loop_final (input.length + 2) _ i1 i2 hl (by rw [e.1]; simp; omega)
    rw [e.1] at this
    exact this

end Ecal.Lex
