import Ecal.Lemmas.Path
/-!
Refinement: the byte-level functions of `Ecal.Path` (`cleanBytes`, `relBytes`, `resolveBytes`, which follow
Go's index loops) compute exactly the element-level functions (`cleanStr`, `relStr`, `resolve`) the
property theorems are about.
-/
namespace Ecal.Path

/-! refinement -/

theorem joinSep_snoc (segs : List Seg) (e : Seg) :
    joinSep (segs ++ [e]) = if segs = [] then e else joinSep segs ++ 47 :: e := by
  induction segs with
  | nil => simp [joinSep]
  | cons s r ih =>
    cases r with
    | nil => simp [joinSep]
    | cons t r' =>
      simp only [List.cons_append, joinSep] at ih ⊢
      rw [ih]
      simp

theorem joinSep_eq_nil (segs : List Seg) (h : ∀ s ∈ segs, s ≠ []) : joinSep segs = [] ↔ segs = [] := by
  cases segs with
  | nil => simp [joinSep]
  | cons s r =>
    have hs : s ≠ [] := h s (by simp)
    cases r with
    | nil => simp [joinSep, hs]
    | cons t r' => simp [joinSep, hs]

theorem joinSep_append_len (b a : List Seg) : (joinSep a).length ≤ (joinSep (a ++ b)).length := by
  induction b generalizing a with
  | nil => simp
  | cons x b ih =>
    have h1 : (joinSep a).length ≤ (joinSep (a ++ [x])).length := by
      rw [joinSep_snoc]
      split
      · rename_i h; subst h; simp [joinSep]
      · simp
    have h2 := ih (a ++ [x])
    simp only [List.append_assoc, List.singleton_append] at h2
    omega

def rootPre (rooted : Bool) : List Nat := if rooted then [47] else []
def buf (rooted : Bool) (segs : List Seg) : List Nat := rootPre rooted ++ joinSep segs
def ddOf (rooted : Bool) (k : Nat) : Nat := (buf rooted (List.replicate k dotdot)).length
def absRev (rooted : Bool) (st : CState) : List Nat := (buf rooted st.toSegs).reverse

def StOK (rooted : Bool) (st : CState) : Prop :=
  (∀ n ∈ st.names, IsName n ∧ 47 ∉ n) ∧ (rooted = true → st.k = 0)

theorem backtrackLoop_slash (dd : Nat) (Y : List Nat) (hY : dd ≤ Y.length) :
    ∀ (m : List Nat) (c : Nat), (∀ x ∈ c :: m, x ≠ 47) → backtrackLoop dd c (m ++ 47 :: Y) = Y := by
  intro m
  induction m with
  | nil =>
    intro c hc
    have hc' : c ≠ 47 := hc c (by simp)
    simp only [List.nil_append, backtrackLoop, List.length_cons]
    rw [if_pos ⟨by omega, hc'⟩]
    cases Y with
    | nil => rfl
    | cons y ys => simp [backtrackLoop]
  | cons c' m ih =>
    intro c hc
    have hc' : c ≠ 47 := hc c (by simp)
    simp only [List.cons_append, backtrackLoop, List.length_cons, List.length_append]
    rw [if_pos ⟨by omega, hc'⟩]
    exact ih c' (fun x hx => hc x (by simp at hx ⊢; rcases hx with h | h <;> simp [h]))

theorem backtrackLoop_stop (dd : Nat) (X : List Nat) (hX : X.length = dd) :
    ∀ (m : List Nat) (c : Nat), (∀ x ∈ c :: m, x ≠ 47) → backtrackLoop dd c (m ++ X) = X := by
  intro m
  induction m with
  | nil =>
    intro c _
    cases X with
    | nil => rfl
    | cons y ys =>
      simp only [List.nil_append, backtrackLoop]
      rw [if_neg (by simp at hX ⊢; omega)]
  | cons c' m ih =>
    intro c hc
    have hc' : c ≠ 47 := hc c (by simp)
    simp only [List.cons_append, backtrackLoop, List.length_cons, List.length_append]
    rw [if_pos ⟨by omega, hc'⟩]
    exact ih c' (fun x hx => hc x (by simp at hx ⊢; rcases hx with h | h <;> simp [h]))

theorem takeElem_spec : ∀ l : List Nat,
    l = (takeElem l).1 ++ (takeElem l).2 ∧ 47 ∉ (takeElem l).1 ∧
      ((takeElem l).2 = [] ∨ (takeElem l).2.head? = some 47) := by
  intro l
  induction l with
  | nil => simp [takeElem]
  | cons c cs ih =>
    by_cases hc : c = 47
    · simp [takeElem, hc]
    · simp only [takeElem, hc, if_false]
      obtain ⟨h1, h2, h3⟩ := ih
      refine ⟨by simp; exact h1, ?_, h3⟩
      intro hm
      simp only [List.mem_cons] at hm
      rcases hm with h | h
      · exact hc h.symm
      · exact h2 h

/-- one element `e` followed by the end or a separator: the element loop does `cleanStep` on `e` -/
theorem foldl_elems_elem (rooted : Bool) (st : CState) (e r : List Nat) (he : 47 ∉ e)
    (hr : r = [] ∨ r.head? = some 47) :
    (elems (e ++ r)).foldl (cleanStep rooted) st = (elems r).foldl (cleanStep rooted) (cleanStep rooted st e) := by
  rcases hr with rfl | hr
  · rw [List.append_nil, elems_noslash e he]
    simp [elems, split, cleanStep_nil]
  · cases r with
    | nil => simp at hr
    | cons x r' =>
      simp only [List.head?_cons, Option.some.injEq] at hr
      subst hr
      rw [elems_append_slash, elems_noslash e he, elems_slash_cons]
      simp [cleanStep_nil]


theorem toSegs_nonempty (rooted : Bool) (st : CState) (h : StOK rooted st) : ∀ s ∈ st.toSegs, s ≠ [] := by
  intro s hs
  simp only [CState.toSegs, List.mem_append, List.mem_replicate, List.mem_reverse] at hs
  rcases hs with ⟨_, rfl⟩ | hs
  · simp [dotdot]
  · exact (h.1 s hs).1.1

theorem buf_length_eq (rooted : Bool) (segs : List Seg) (h : ∀ s ∈ segs, s ≠ []) :
    ((rooted && (buf rooted segs).length != 1) || (!rooted && (buf rooted segs).length != 0)) = true ↔ segs ≠ [] := by
  have hj := joinSep_eq_nil segs h
  cases rooted with
  | true =>
    simp only [buf, rootPre, if_true, List.length_append, List.length_singleton, Bool.true_and, Bool.not_true,
      Bool.false_and, Bool.or_false, bne_iff_ne, ne_eq]
    rw [← hj]
    constructor
    · intro h1 h2; apply h1; simp [h2]
    · intro h1 h2; apply h1; apply List.eq_nil_of_length_eq_zero; omega
  | false =>
    simp only [buf, rootPre, Bool.false_eq_true, if_false, List.nil_append, Bool.false_and, Bool.not_false, Bool.true_and,
      Bool.false_or, bne_iff_ne, ne_eq]
    rw [← hj]
    constructor
    · intro h1 h2; apply h1; simp [h2]
    · intro h1 h2; apply h1; exact List.eq_nil_of_length_eq_zero h2

theorem absRev_push (rooted : Bool) (st : CState) (h : StOK rooted st) (e : Seg) :
    e.reverse ++ (if ((rooted && (absRev rooted st).length != 1) || (!rooted && (absRev rooted st).length != 0)) = true
      then 47 :: absRev rooted st else absRev rooted st) = absRev rooted { st with names := e :: st.names } := by
  have hne := toSegs_nonempty rooted st h
  have hc := buf_length_eq rooted st.toSegs hne
  have hsegs : ({ st with names := e :: st.names } : CState).toSegs = st.toSegs ++ [e] := by
    simp [CState.toSegs]
  simp only [absRev, List.length_reverse] at hc ⊢
  rw [hsegs]
  by_cases hs : st.toSegs = []
  · have : ¬ (((rooted && (buf rooted st.toSegs).length != 1) || (!rooted && (buf rooted st.toSegs).length != 0)) = true) := by
      rw [hc]; simp [hs]
    rw [if_neg this, hs]
    simp [buf, joinSep]
  · have : ((rooted && (buf rooted st.toSegs).length != 1) || (!rooted && (buf rooted st.toSegs).length != 0)) = true := hc.mpr hs
    rw [if_pos this]
    simp [buf, joinSep_snoc, hs]

theorem absRev_backtrack (rooted : Bool) (k : Nat) (n : Seg) (ns : List Seg) (h : StOK rooted ⟨k, n :: ns⟩) :
    (absRev rooted ⟨k, n :: ns⟩).length > ddOf rooted k ∧
      backtrack (ddOf rooted k) (absRev rooted ⟨k, n :: ns⟩) = absRev rooted ⟨k, ns⟩ := by
  obtain ⟨⟨hn1, _, _⟩, hn47⟩ := h.1 n (by simp)
  have hsegs : (⟨k, n :: ns⟩ : CState).toSegs = (⟨k, ns⟩ : CState).toSegs ++ [n] := by simp [CState.toSegs]
  have hlen : ddOf rooted k ≤ (buf rooted (⟨k, ns⟩ : CState).toSegs).length := by
    simp only [ddOf, buf, CState.toSegs, List.length_append]
    have := joinSep_append_len ns.reverse (List.replicate k dotdot)
    omega
  -- the reversed name: first byte and the rest, none a separator
  obtain ⟨c, m, hcm⟩ : ∃ c m, n.reverse = c :: m := by
    cases hr : n.reverse with
    | nil => exact absurd (List.reverse_eq_nil_iff.mp hr) hn1
    | cons c m => exact ⟨c, m, rfl⟩
  have hall : ∀ x ∈ c :: m, x ≠ 47 := by
    intro x hx he
    apply hn47
    have : x ∈ n.reverse := by rw [hcm]; exact hx
    rw [← he]; simpa using this
  simp only [absRev, hsegs]
  by_cases hs : (⟨k, ns⟩ : CState).toSegs = []
  · -- nothing below the name: stop at `dotdot`
    have hk : ddOf rooted k = (rootPre rooted).length := by
      have : k = 0 := by
        simp only [CState.toSegs, List.append_eq_nil_iff, List.replicate_eq_nil_iff, List.reverse_eq_nil_iff] at hs
        exact hs.1
      simp [ddOf, buf, this, joinSep]
    have hb : (buf rooted ((⟨k, ns⟩ : CState).toSegs ++ [n])).reverse = c :: (m ++ (rootPre rooted).reverse) := by
      simp [buf, hs, joinSep, hcm]
    rw [hb, hs]
    refine ⟨by simp [hk]; omega, ?_⟩
    simp only [backtrack]
    rw [backtrackLoop_stop (ddOf rooted k) (rootPre rooted).reverse (by simp [hk]) m c hall]
    simp [buf, joinSep]
  · have hb : (buf rooted ((⟨k, ns⟩ : CState).toSegs ++ [n])).reverse =
        c :: (m ++ 47 :: (buf rooted (⟨k, ns⟩ : CState).toSegs).reverse) := by
      simp [buf, joinSep_snoc, hs, hcm]
    rw [hb]
    refine ⟨by simp; omega, ?_⟩
    simp only [backtrack]
    exact backtrackLoop_slash (ddOf rooted k) _ (by simpa using hlen) m c hall

theorem absRev_names_nil (rooted : Bool) (k : Nat) : (absRev rooted ⟨k, []⟩).length = ddOf rooted k := by
  simp [absRev, ddOf, CState.toSegs]

theorem absRev_dotdot (k : Nat) :
    46 :: 46 :: (if (absRev false ⟨k, []⟩).length > 0 then 47 :: absRev false ⟨k, []⟩ else absRev false ⟨k, []⟩) =
      absRev false ⟨k + 1, []⟩ := by
  have hne : ∀ s ∈ List.replicate k dotdot, s ≠ [] := by
    intro s hs; rw [(List.mem_replicate.mp hs).2]; simp [dotdot]
  have hj := joinSep_eq_nil (List.replicate k dotdot) hne
  simp only [absRev, CState.toSegs, List.reverse_nil, List.append_nil, buf, rootPre, Bool.false_eq_true, if_false,
    List.nil_append, List.length_reverse]
  rw [List.replicate_succ', joinSep_snoc]
  by_cases hk : k = 0
  · subst hk; simp [joinSep, dotdot]
  · have h1 : List.replicate k dotdot ≠ [] := by simp [hk]
    have h2 : joinSep (List.replicate k dotdot) ≠ [] := fun h => h1 (hj.mp h)
    have h3 : (joinSep (List.replicate k dotdot)).length > 0 := by
      cases hh : joinSep (List.replicate k dotdot) with
      | nil => exact absurd hh h2
      | cons _ _ => simp
    rw [if_pos h3, if_neg h1]
    simp [dotdot]


theorem stOK_step (rooted : Bool) (st : CState) (e : Seg) (h : StOK rooted st) (he : 47 ∉ e) :
    StOK rooted (cleanStep rooted st e) := by
  refine ⟨cleanStep_names rooted st e (fun x => 47 ∉ x) h.1 he, ?_⟩
  intro hr
  subst hr
  exact cleanStep_k st e (h.2 rfl)

/-- the byte loop computes the element fold -/
theorem cleanLoop_spec (rooted : Bool) : ∀ (fuel : Nat) (rest : List Nat) (st : CState),
    rest.length ≤ fuel → StOK rooted st →
    cleanLoop rooted fuel rest (absRev rooted st) (ddOf rooted st.k) =
      absRev rooted ((elems rest).foldl (cleanStep rooted) st) := by
  intro fuel
  induction fuel with
  | zero =>
    intro rest st hl _
    have : rest = [] := List.eq_nil_of_length_eq_zero (by omega)
    subst this
    simp [cleanLoop, elems, split, cleanStep_nil]
  | succ fuel ih =>
    intro rest st hl hst
    cases rest with
    | nil => simp [cleanLoop, elems, split, cleanStep_nil]
    | cons c t =>
      have hlt : t.length ≤ fuel := by simp at hl; omega
      unfold cleanLoop
      simp only
      by_cases h47 : c = 47
      · subst h47
        rw [if_pos rfl, ih t st hlt hst, elems_slash_cons]
        simp [cleanStep_nil]
      · rw [if_neg h47]
        by_cases hdot : c = 46 ∧ (t = [] ∨ t.head? = some 47)
        · rw [if_pos hdot]
          obtain ⟨rfl, ht⟩ := hdot
          have := foldl_elems_elem rooted st [46] t (by simp) ht
          simp only [List.cons_append, List.nil_append] at this
          rw [this, ih t st hlt hst]
          have : cleanStep rooted st [46] = st := cleanStep_dot rooted st
          rw [this]
        · rw [if_neg hdot]
          by_cases hdd : c = 46 ∧ t.head? = some 46 ∧ (t.tail = [] ∨ t.tail.head? = some 47)
          · rw [if_pos hdd]
            obtain ⟨rfl, ht1, ht2⟩ := hdd
            cases t with
            | nil => simp at ht1
            | cons c2 t2 =>
              simp only [List.head?_cons, Option.some.injEq] at ht1
              subst ht1
              simp only [List.tail_cons] at ht2 ⊢
              have hlt2 : t2.length ≤ fuel := by simp at hlt; omega
              have hfold := foldl_elems_elem rooted st dotdot t2 (by simp [dotdot]) ht2
              simp only [dotdot, List.cons_append, List.nil_append] at hfold
              rw [hfold]
              have hstep := stOK_step rooted st [46, 46] hst (by simp)
              obtain ⟨k, names⟩ := st
              cases names with
              | cons n ns =>
                obtain ⟨hgt, hbt⟩ := absRev_backtrack rooted k n ns hst
                rw [if_pos hgt, hbt]
                have hcs : cleanStep rooted ⟨k, n :: ns⟩ [46, 46] = ⟨k, ns⟩ := by simp [cleanStep, dotdot, dot]
                rw [hcs] at hstep ⊢
                exact ih t2 ⟨k, ns⟩ hlt2 hstep
              | nil =>
                have hng : ¬ (absRev rooted ⟨k, []⟩).length > ddOf rooted k := by
                  rw [absRev_names_nil]; omega
                rw [if_neg hng]
                cases rooted with
                | true =>
                  simp only [Bool.not_true, Bool.false_eq_true, if_false]
                  have hcs : cleanStep true ⟨k, []⟩ [46, 46] = ⟨k, []⟩ := by simp [cleanStep, dotdot, dot]
                  rw [hcs] at hstep ⊢
                  exact ih t2 ⟨k, []⟩ hlt2 hstep
                | false =>
                  simp only [Bool.not_false, if_true]
                  have hcs : cleanStep false ⟨k, []⟩ [46, 46] = ⟨k + 1, []⟩ := by simp [cleanStep, dotdot, dot]
                  rw [hcs] at hstep ⊢
                  rw [absRev_dotdot k]
                  have := ih t2 ⟨k + 1, []⟩ hlt2 hstep
                  rw [absRev_names_nil]
                  exact this
          · rw [if_neg hdd]
            obtain ⟨hsplit, hno, hrest⟩ := takeElem_spec (c :: t)
            generalize hte : takeElem (c :: t) = te at hsplit hno hrest
            obtain ⟨e, r⟩ := te
            simp only at hsplit hno hrest ⊢
            -- the element is not empty, not ".", not ".."
            have he1 : e ≠ [] := by
              intro h; subst h
              simp only [List.nil_append] at hsplit
              rcases hrest with h | h
              · rw [h] at hsplit; simp at hsplit
              · rw [← hsplit] at h; simp at h; exact h47 h
            have he2 : e ≠ dot := by
              intro h; subst h
              apply hdot
              simp only [dot, List.cons_append, List.nil_append, List.cons.injEq] at hsplit
              obtain ⟨rfl, rfl⟩ := hsplit
              exact ⟨rfl, hrest⟩
            have he3 : e ≠ dotdot := by
              intro h; subst h
              apply hdd
              simp only [dotdot, List.cons_append, List.nil_append, List.cons.injEq] at hsplit
              obtain ⟨rfl, rfl⟩ := hsplit
              exact ⟨rfl, by simp, by simpa using hrest⟩
            have hlr : r.length ≤ fuel := by
              have h1 : (c :: t).length = e.length + r.length := by rw [hsplit]; simp
              have h2 : e.length > 0 := by
                cases e with
                | nil => exact absurd rfl he1
                | cons _ _ => simp
              simp at h1 hl; omega
            have hcs : cleanStep rooted st e = { st with names := e :: st.names } := by
              simp [cleanStep, he1, he2, he3]
            have hstep := stOK_step rooted st e hst hno
            rw [hsplit, foldl_elems_elem rooted st e r hno hrest, hcs]
            rw [hcs] at hstep
            rw [absRev_push rooted st hst e]
            exact ih r _ hlr hstep

/-- **the byte loop of Go's `Clean` (lazybuf, `dotdot` index, backtracking to the last separator)
    computes exactly the element-level `cleanStr`** -/
theorem cleanBytes_eq_cleanStr (s : Str) : cleanBytes s = cleanStr s := by
  unfold cleanBytes
  by_cases hs : s = []
  · subst hs; rfl
  · rw [if_neg hs]
    have h0 : ∀ rooted, StOK rooted ⟨0, []⟩ := fun _ => ⟨by simp, fun _ => rfl⟩
    cases s with
    | nil => exact absurd rfl hs
    | cons c t =>
      by_cases hc : c = 47
      · subst hc
        have hr : isRooted (47 :: t) = true := by simp [isRooted]
        simp only [hr, if_true, List.drop_succ_cons, List.drop_zero]
        have hspec := cleanLoop_spec true ((47 :: t).length + 1) t ⟨0, []⟩ (by simp; omega) (h0 true)
        have ha : absRev true ⟨0, []⟩ = [47] := by simp [absRev, buf, rootPre, CState.toSegs, joinSep]
        have hd : ddOf true 0 = 1 := by simp [ddOf, buf, rootPre, joinSep]
        rw [ha, hd] at hspec
        rw [hspec]
        have hne : absRev true ((elems t).foldl (cleanStep true) ⟨0, []⟩) ≠ [] := by
          simp [absRev, buf, rootPre]
        rw [if_neg hne]
        simp [absRev, cleanStr, cleanP, hr, CPath.render, buf, rootPre, elems_slash_cons, cleanFold, cleanStep_nil]
      · have hr : isRooted (c :: t) = false := by
          unfold isRooted; split <;> simp_all
        simp only [hr, Bool.false_eq_true, if_false]
        have hspec := cleanLoop_spec false ((c :: t).length + 1) (c :: t) ⟨0, []⟩ (by simp) (h0 false)
        have ha : absRev false ⟨0, []⟩ = [] := by simp [absRev, buf, rootPre, CState.toSegs, joinSep]
        have hd : ddOf false 0 = 0 := by simp [ddOf, buf, rootPre, joinSep]
        rw [ha, hd] at hspec
        rw [hspec]
        have hok : StOK false ((elems (c :: t)).foldl (cleanStep false) ⟨0, []⟩) := by
          refine ⟨foldl_cleanStep_names false (fun e => 47 ∉ e) _ (elems_slashfree _) ⟨0, []⟩ (by simp), by simp⟩
        have hne := toSegs_nonempty false _ hok
        have hj := joinSep_eq_nil _ hne
        simp only [absRev, buf, rootPre, Bool.false_eq_true, if_false, List.nil_append, List.reverse_eq_nil_iff,
          List.reverse_reverse, cleanStr, cleanP, hr, CPath.render, cleanFold]
        cases hsg : ((elems (c :: t)).foldl (cleanStep false) ⟨0, []⟩).toSegs with
        | nil => simp [joinSep]
        | cons x xs =>
          rw [hsg] at hj
          have : joinSep (x :: xs) ≠ [] := fun h => by simpa using hj.mp h
          rw [if_neg this]

/-! refinement of Rel -/

theorem takeElem_noslash (x : List Nat) (hx : 47 ∉ x) : takeElem x = (x, []) := by
  induction x with
  | nil => rfl
  | cons c cs ih =>
    have hc : c ≠ 47 := by intro e; apply hx; simp [e]
    have hcs : 47 ∉ cs := by intro e; apply hx; simp [e]
    simp [takeElem, hc, ih hcs]

theorem takeElem_append_slash (x rest : List Nat) (hx : 47 ∉ x) : takeElem (x ++ 47 :: rest) = (x, 47 :: rest) := by
  induction x with
  | nil => simp [takeElem]
  | cons c cs ih =>
    have hc : c ≠ 47 := by intro e; apply hx; simp [e]
    have hcs : 47 ∉ cs := by intro e; apply hx; simp [e]
    simp [takeElem, hc, ih hcs]

theorem takeElem_joinSep (x : Seg) (r : List Seg) (hx : 47 ∉ x) :
    takeElem (joinSep (x :: r)) = (x, if r = [] then [] else 47 :: joinSep r) := by
  cases r with
  | nil => simp [joinSep, takeElem_noslash x hx]
  | cons y r' => simp [joinSep, takeElem_append_slash x _ hx]

theorem takeElem_joinSep_drop (x : Seg) (r : List Seg) (hx : 47 ∉ x) :
    (takeElem (joinSep (x :: r))).2.drop 1 = joinSep r := by
  rw [takeElem_joinSep x r hx]
  cases r <;> simp [joinSep]

def SegsOK (l : List Seg) : Prop := ∀ s ∈ l, s ≠ [] ∧ 47 ∉ s

theorem relWalk_spec : ∀ (bs ts : List Seg) (fuel : Nat), bs.length < fuel → SegsOK bs → SegsOK ts →
    ¬ ((stripCommon bs ts).1 = [] ∧ (stripCommon bs ts).2 = []) →
    relWalk fuel (joinSep bs) (joinSep ts) =
      (joinSep (stripCommon bs ts).1, (stripCommon bs ts).1.head?.getD [], joinSep (stripCommon bs ts).2) := by
  intro bs
  induction bs with
  | nil =>
    intro ts fuel hf _ hts hne
    cases fuel with
    | zero => omega
    | succ fuel =>
      cases ts with
      | nil => exact absurd ⟨by simp [stripCommon], by simp [stripCommon]⟩ hne
      | cons y ts' =>
        obtain ⟨hy1, hy2⟩ := hts y (by simp)
        simp only [relWalk, stripCommon, joinSep, takeElem]
        rw [takeElem_joinSep y ts' hy2]
        simp [hy1]
  | cons x bs' ih =>
    intro ts fuel hf hbs hts hne
    obtain ⟨hx1, hx2⟩ := hbs x (by simp)
    cases fuel with
    | zero => omega
    | succ fuel =>
      cases ts with
      | nil =>
        simp only [relWalk, stripCommon, joinSep, takeElem]
        rw [takeElem_joinSep x bs' hx2]
        simp [Ne.symm hx1]
      | cons y ts' =>
        obtain ⟨hy1, hy2⟩ := hts y (by simp)
        by_cases hxy : x = y
        · subst hxy
          simp only [stripCommon, if_true] at hne ⊢
          unfold relWalk
          simp only [takeElem_joinSep x bs' hx2, takeElem_joinSep x ts' hx2, ne_eq, not_true_eq_false, if_false]
          have h1 := takeElem_joinSep_drop x bs' hx2
          have h2 := takeElem_joinSep_drop x ts' hx2
          rw [takeElem_joinSep x bs' hx2] at h1
          rw [takeElem_joinSep x ts' hx2] at h2
          simp only at h1 h2
          rw [h1, h2]
          exact ih ts' fuel (by simp at hf; omega) (fun s hs => hbs s (by simp [hs])) (fun s hs => hts s (by simp [hs])) hne
        · simp only [stripCommon, hxy, if_false]
          unfold relWalk
          simp only [takeElem_joinSep x bs' hx2, takeElem_joinSep y ts' hy2]
          rw [if_pos (Ne.symm hxy)]
          simp

theorem count47_joinSep (segs : List Seg) (h : ∀ s ∈ segs, 47 ∉ s) : (joinSep segs).count 47 = segs.length - 1 := by
  induction segs with
  | nil => simp [joinSep]
  | cons s r ih =>
    have hs : 47 ∉ s := h s (by simp)
    have hr := ih (fun x hx => h x (by simp [hx]))
    cases r with
    | nil => simp [joinSep, List.count_eq_zero.mpr hs]
    | cons t r' =>
      simp only [joinSep, List.count_append, List.count_cons_self, List.length_cons] at hr ⊢
      rw [List.count_eq_zero.mpr hs]
      omega

theorem joinSep_ups (n : Nat) (t' : List Seg) (ht : ∀ s ∈ t', s ≠ []) :
    joinSep (List.replicate (n + 1) dotdot ++ t') =
      dotdot ++ (List.replicate n [47, 46, 46]).flatten ++ (if joinSep t' ≠ [] then 47 :: joinSep t' else []) := by
  have hj := joinSep_eq_nil t' ht
  induction n with
  | zero =>
    cases t' with
    | nil => simp [joinSep]
    | cons y ys =>
      have : joinSep (y :: ys) ≠ [] := fun h => by simpa using hj.mp h
      simp [joinSep, this]
  | succ n ih =>
    rw [List.replicate_succ, List.cons_append]
    have hne : List.replicate (n + 1) dotdot ++ t' ≠ [] := by simp [List.replicate_succ]
    cases hl : List.replicate (n + 1) dotdot ++ t' with
    | nil => exact absurd hl hne
    | cons z zs =>
      simp only [joinSep]
      rw [← hl, ih]
      simp [List.replicate_succ, dotdot]

theorem segs_len_le (segs : List Seg) (h : ∀ s ∈ segs, s ≠ []) : segs.length ≤ (joinSep segs).length := by
  induction segs with
  | nil => simp
  | cons s r ih =>
    have hr := ih (fun x hx => h x (by simp [hx]))
    have hs : s.length > 0 := by
      cases s with
      | nil => exact absurd rfl (h [] (by simp))
      | cons _ _ => simp
    cases r with
    | nil => simp only [joinSep, List.length_cons, List.length_nil]; omega
    | cons t r' => simp only [joinSep, List.length_append, List.length_cons] at hr ⊢; omega

theorem render_inj (c1 c2 : CPath) (h1 : Good c1) (h2 : Good c2) (h : c1.render = c2.render) : c1 = c2 := by
  rw [← cleanP_render c1 h1, ← cleanP_render c2 h2, h]

theorem good_segsOK (c : CPath) (h : Good c) : SegsOK c.segs := by
  obtain ⟨k, names, hs, hn, _⟩ := h
  intro s hm
  rw [hs] at hm
  simp only [List.mem_append, List.mem_replicate] at hm
  rcases hm with ⟨_, rfl⟩ | hm
  · simp [dotdot]
  · exact ⟨(hn s hm).1.1, (hn s hm).2⟩

theorem good_no_dot (c : CPath) (h : Good c) : dot ∉ c.segs := by
  obtain ⟨k, names, hs, hn, _⟩ := h
  rw [hs]
  intro hm
  simp only [List.mem_append, List.mem_replicate] at hm
  rcases hm with ⟨_, hd⟩ | hm
  · simp [dot, dotdot] at hd
  · exact (hn dot hm).1.2.1 rfl

theorem targElems_segsOK (c : CPath) (h : Good c) : SegsOK (targElems c) := by
  unfold targElems
  split
  · intro s hs; simp only [List.mem_singleton] at hs; subst hs; simp [dot]
  · exact good_segsOK c h

theorem head_joinSep (l : List Seg) (h : SegsOK l) : (joinSep l).head? ≠ some 47 := by
  cases l with
  | nil => simp [joinSep]
  | cons x r =>
    obtain ⟨hx1, hx2⟩ := h x (by simp)
    cases x with
    | nil => exact absurd rfl hx1
    | cons c cs =>
      have hc : c ≠ 47 := by intro e; apply hx2; simp [e]
      cases r <;> simp [joinSep, hc]

/-- the base string of the walk (`.` replaced by the empty string) -/
theorem base_bytes (cb : CPath) (h : Good cb) :
    (if cb.render = dot then [] else cb.render) = rootPre cb.rooted ++ joinSep cb.segs := by
  obtain ⟨rooted, segs⟩ := cb
  cases rooted with
  | true => simp [CPath.render, rootPre, dot]
  | false =>
    cases segs with
    | nil => simp [CPath.render, rootPre, joinSep]
    | cons x r =>
      have hne : joinSep (x :: r) ≠ dot := by
        intro he
        have : (⟨false, x :: r⟩ : CPath) = ⟨false, []⟩ := by
          apply render_inj _ _ h ⟨0, [], rfl, by simp, by simp⟩
          simp [CPath.render, he]
        exact absurd (congrArg CPath.segs this) (by simp)
      simp [CPath.render, rootPre, hne]

theorem targ_bytes (ct : CPath) : ct.render = rootPre ct.rooted ++ joinSep (targElems ct) := by
  obtain ⟨rooted, segs⟩ := ct
  cases rooted with
  | true => simp [CPath.render, rootPre, targElems]
  | false =>
    cases segs with
    | nil => simp [CPath.render, rootPre, targElems, joinSep]
    | cons x r => simp [CPath.render, rootPre, targElems]

theorem head_rootPre (rooted : Bool) (l : List Seg) (h : SegsOK l) :
    ((rootPre rooted ++ joinSep l).head? == some 47) = rooted := by
  cases rooted with
  | true => simp [rootPre]
  | false =>
    have := head_joinSep l h
    simp only [rootPre, Bool.false_eq_true, if_false, List.nil_append, beq_eq_false_iff_ne, ne_eq]
    exact this

/-- **Go's `Rel`, with its index walk over the cleaned strings, computes exactly the element-level `relStr`** -/
theorem relBytes_eq_relStr (a b : Str) : relBytes a b = relStr a b := by
  have hgb := cleanP_good a
  have hgt := cleanP_good b
  unfold relBytes relStr relSegs
  simp only [cleanBytes_eq_cleanStr, cleanStr]
  generalize cleanP a = cb at hgb
  generalize cleanP b = ct at hgt
  by_cases heq : cb = ct
  · subst heq; simp [joinSep]
  · have hne : ¬ ct.render = cb.render := fun h => heq (render_inj _ _ hgb hgt h.symm)
    rw [if_neg hne, if_neg heq, base_bytes cb hgb, targ_bytes ct]
    have hbs := good_segsOK cb hgb
    have hts := targElems_segsOK ct hgt
    rw [head_rootPre cb.rooted _ hbs, head_rootPre ct.rooted _ hts]
    by_cases hr : cb.rooted = ct.rooted
    · have hr' : ¬ (cb.rooted ≠ ct.rooted) := by simp [hr]
      have hr'' : (cb.rooted != ct.rooted) = false := by simp [hr]
      rw [hr'', if_neg hr']
      simp only [Bool.false_eq_true, if_false]
      -- the walk
      have hnot : ¬ ((stripCommon cb.segs (targElems ct)).1 = [] ∧ (stripCommon cb.segs (targElems ct)).2 = []) := by
        intro ⟨h1, h2⟩
        obtain ⟨c, hc1, hc2⟩ := stripCommon_spec cb.segs (targElems ct)
        rw [h1, List.append_nil] at hc1
        rw [h2, List.append_nil] at hc2
        have hsame : cb.segs = targElems ct := by rw [hc1, hc2]
        unfold targElems at hsame
        split at hsame
        · exact good_no_dot cb hgb (by rw [hsame]; simp)
        · apply heq
          cases cb; cases ct
          simp only at hr hsame
          rw [hr, hsame]
      have hlen := segs_len_le cb.segs (fun s hs => (hbs s hs).1)
      have hwalk : relWalk ((rootPre cb.rooted ++ joinSep cb.segs).length + (rootPre ct.rooted ++ joinSep (targElems ct)).length + 1)
          (rootPre cb.rooted ++ joinSep cb.segs) (rootPre ct.rooted ++ joinSep (targElems ct)) =
          (joinSep (stripCommon cb.segs (targElems ct)).1, (stripCommon cb.segs (targElems ct)).1.head?.getD [],
            joinSep (stripCommon cb.segs (targElems ct)).2) := by
        rw [← hr]
        cases hrt : cb.rooted with
        | true =>
          simp only [rootPre, if_true, List.singleton_append, List.length_cons]
          unfold relWalk
          simp only [takeElem, if_true, ne_eq, not_true_eq_false, if_false, List.drop_succ_cons, List.drop_zero]
          exact relWalk_spec _ _ _ (by omega) hbs hts hnot
        | false =>
          simp only [rootPre, Bool.false_eq_true, if_false, List.nil_append]
          exact relWalk_spec _ _ _ (by omega) hbs hts hnot
      rw [hwalk]
      simp only
      obtain ⟨c, hc1, hc2⟩ := stripCommon_spec cb.segs (targElems ct)
      cases hs : stripCommon cb.segs (targElems ct) with
      | mk b' t' =>
        rw [hs] at hc1 hc2
        simp only at hc1 hc2 ⊢
        have hb' : SegsOK b' := fun s hm => hbs s (by rw [hc1]; simp [hm])
        have ht' : SegsOK t' := fun s hm => hts s (by rw [hc2]; simp [hm])
        cases b' with
        | nil => simp [joinSep, dotdot]
        | cons x xs =>
          simp only [List.head?_cons, Option.getD_some]
          by_cases hx : x = dotdot
          · simp [hx]
          · have hjn : joinSep (x :: xs) ≠ [] := by
              intro h
              have := (joinSep_eq_nil (x :: xs) (fun s hm => (hb' s hm).1)).mp h
              simp at this
            simp only [hx, if_false, hjn, ne_eq, not_false_eq_true, if_true,
              count47_joinSep (x :: xs) (fun s hm => (hb' s hm).2), List.length_cons, Nat.add_sub_cancel, Option.map_some,
              Option.some.injEq]
            rw [joinSep_ups xs.length t' (fun s hm => (ht' s hm).1)]
    · have hr' : cb.rooted ≠ ct.rooted := hr
      have hr'' : (cb.rooted != ct.rooted) = true := by simp [hr]
      rw [hr'', if_pos hr']
      simp


theorem joinBytes_eq_joinStr (a b : Str) : joinBytes a b = joinStr a b := by
  simp [joinBytes, joinStr, cleanBytes_eq_cleanStr]

theorem isSubpathBytes_eq (root sub : Str) : isSubpathBytes root sub = isSubpath root sub := by
  simp [isSubpathBytes, isSubpath, relBytes_eq_relStr]

theorem resolveBytes_eq_resolve (root p : Str) : resolveBytes root p = resolve root p := by
  simp [resolveBytes, resolve, cleanBytes_eq_cleanStr, joinBytes_eq_joinStr, isSubpathBytes_eq]

end Ecal.Path
