import Ecal.Model.GoPrim
import Ecal.Lemmas.C06Guards
/-!
C06 — the evaluator model computes the guarded SITES: equations about `Ecal.Ev.eval` / `numOp` / `delB` / `addB`
(the definitions the driver runs) whose right-hand sides contain `Ecal.GoPrim.Site.modint / numOperands / del / insert`.
Deleting a guard in Model/Eval.lean (e.g. `if yi = 0`) breaks these proofs.
-/
namespace Ecal.Lemmas.C06Sites
open Ecal.Ev Ecal.GoPrim Ecal.Lemmas.C06Guards
open Ecal.Parse (Node)

/-- a result of the GoPrim layer inside the evaluator monad -/
def liftR {α : Type} : R α → M α
  | .ok a => pure a
  | .error e => throw e

/-- what `eval` does on a `modint` node once both operands are evaluated: the operand kinds, the two integer
    conversions, then the SITE `Site.modint` (guard `int64(b) == 0`, then Go's `%`) -/
def modintTail (n ca cb : Node) (a b : Val) : M Val :=
  match a, b with
  | .num x, .num y => do
    let xi ← goInt x
    let yi ← goInt y
    let r ← liftR (Site.modint xi yi (rtErr "Runtime error" n))
    pure (.num (Float.ofInt r))
  | .num _, _ => throw (rtErr "Operand is not a number" cb)
  | _, _ => throw (rtErr "Operand is not a number" ca)

theorem eval_modint (f sc : Nat) (n ca cb : Node) (h : n.name = "modint") (hc : n.children = [some ca, some cb]) :
    eval (f+1) sc n = (do let a ← eval f sc ca; let b ← eval f sc cb; modintTail n ca cb a b) := by
  conv => lhs; unfold eval
  simp [h, hc, child]
  refine bind_congr (fun a => bind_congr (fun b => ?_))
  unfold modintTail
  cases a <;> cases b <;> try rfl
  refine bind_congr (fun xi => bind_congr (fun yi => ?_))
  unfold Site.modint intMod liftR
  by_cases hy : yi = 0 <;> simp [hy]

/-- what `numOp` does once both operands are evaluated: the SITE `Site.numOperands` (comma-ok tests, then the
    unchecked assertions), then the operation -/
def numOpTail (ca cb : Node) (op : Float → Float → Val) (a b : Val) : M Val := do
  let p ← liftR (Site.numOperands a b (rtErr "Operand is not a number" ca) (rtErr "Operand is not a number" cb))
  pure (op p.1 p.2)

theorem numOp_site (f sc : Nat) (n ca cb : Node) (hc : n.children = [some ca, some cb]) (op : Float → Float → Val) :
    numOp (f+1) sc n op = (do let a ← eval f sc ca; let b ← eval f sc cb; numOpTail ca cb op a b) := by
  conv => lhs; unfold numOp
  simp [hc, child]
  refine bind_congr (fun a => bind_congr (fun b => ?_))
  unfold numOpTail
  cases a <;> cases b <;> rfl

/-- `eval` on the arithmetic nodes IS `numOp` (hence the operand site) -/
theorem eval_times (f sc : Nat) (n : Node) (h : n.name = "times") :
    eval (f+1) sc n = numOp f sc n (fun a b => .num (a * b)) := by
  conv => lhs; unfold eval
  simp [h]

theorem eval_div (f sc : Nat) (n : Node) (h : n.name = "div") :
    eval (f+1) sc n = numOp f sc n (fun a b => .num (a / b)) := by
  conv => lhs; unfold eval
  simp [h]

theorem getList_run {α : Type} (r l : Nat) (f : List Val → M α) (s : St) :
    (getList r l >>= f).run.run s = (f ((s.lists.getD r []).take l)).run.run s := rfl

/-- the five arithmetic nodes with two operands: `eval` IS `numOp` with the node's operation -/
theorem eval_arith (f sc : Nat) (n ca cb : Node) (hc : n.children = [some ca, some cb])
    (h : n.name = "plus" ∨ n.name = "minus" ∨ n.name = "times" ∨ n.name = "div" ∨ n.name = "divint") :
    ∃ op : Float → Float → Val, eval (f+1) sc n = numOp f sc n op := by
  rcases h with h | h | h | h | h
  · exact ⟨fun a b => .num (a + b), by conv => lhs; unfold eval
                                       simp [h, hc]⟩
  · exact ⟨fun a b => .num (a - b), by conv => lhs; unfold eval
                                       simp [h, hc]⟩
  · exact ⟨fun a b => .num (a * b), eval_times f sc n h⟩
  · exact ⟨fun a b => .num (a / b), eval_div f sc n h⟩
  · exact ⟨fun a b => .num (a / b).floor, by conv => lhs; unfold eval
                                             simp [h]⟩

/-- `delB` on a list: the two conversions, then the SITE `Site.del` on the elements of the slice (guard
    `i < 0 || i >= len`, then `argList[:i]`, `argList[i+1:]`), the result stored as a NEW list. Hypothesis: the
    slice does not reach beyond its backing array (true for every list value the evaluator creates). -/
theorem delB_site (r l : Nat) (k : Val) (s : St) (hl : l ≤ (s.lists.getD r []).length) :
    (delB [.list r l, k]).run.run s =
      (do let x ← numParamB 2 k
          let i ← goInt x
          let xs ← getList r l
          let ys ← liftR (Site.del xs i)
          newListExact ys : M Val).run.run s := by
  have hlen : ((s.lists.getD r []).take l).length = l := by rw [List.length_take]; exact Nat.min_eq_left hl
  unfold delB
  cases k <;> try rfl
  rename_i x
  simp only [numParamB, pure_bind]
  unfold goInt
  split
  · rfl
  · simp only [pure_bind]
    rw [getList_run, del_eq, hlen]
    by_cases hg : x.toInt64.toInt < 0 ∨ x.toInt64.toInt ≥ (l : Int)
    · have hb : (decide (x.toInt64.toInt < 0) || decide (x.toInt64.toInt ≥ (l : Int))) = true := by
        rcases hg with h | h <;> simp [h]
      simp only [hb, hg, if_true, liftR]
      rfl
    · have hb : (decide (x.toInt64.toInt < 0) || decide (x.toInt64.toInt ≥ (l : Int))) = false := by
        have h1 : ¬ x.toInt64.toInt < 0 := fun h => hg (Or.inl h)
        have h2 : ¬ x.toInt64.toInt ≥ (l : Int) := fun h => hg (Or.inr h)
        simp [h1, h2]
      simp only [hb, hg, if_false, liftR, Bool.false_eq_true]
      rfl

/-- `addB` with an index: the two conversions, then the SITE `Site.insert` on the elements of the slice (guard
    `i < 0 || i > len`, then `argList[:i]`, the value, `argList[i:]`); only after the site the model leaves itself for
    a non-integral index (`unsupported`), otherwise the result is stored as a NEW list. -/
theorem addB_site (r l : Nat) (v ix : Val) (s : St) (hl : l ≤ (s.lists.getD r []).length) :
    (addB [.list r l, v, ix]).run.run s =
      (do let x ← numParamB 3 ix
          let i ← goInt x
          let xs ← getList r l
          match Site.insert xs v i with
          | .error e => throw e
          | .ok ys => if !(isIntegral x) then throw (Sig.unsupported "add with a non-integral index") else newListExact ys : M Val).run.run s := by
  have hlen : ((s.lists.getD r []).take l).length = l := by rw [List.length_take]; exact Nat.min_eq_left hl
  unfold addB
  simp only []
  cases ix <;> try rfl
  rename_i x
  simp only [numParamB, pure_bind]
  unfold goInt
  split
  · rfl
  · simp only [pure_bind]
    rw [getList_run, insert_eq, hlen]
    by_cases hg : x.toInt64.toInt < 0 ∨ x.toInt64.toInt > (l : Int)
    · have hb : (decide (x.toInt64.toInt < 0) || decide (x.toInt64.toInt > (l : Int))) = true := by
        rcases hg with h | h <;> simp [h]
      simp only [hb, hg, if_true]
      rfl
    · have hb : (decide (x.toInt64.toInt < 0) || decide (x.toInt64.toInt > (l : Int))) = false := by
        have h1 : ¬ x.toInt64.toInt < 0 := fun h => hg (Or.inl h)
        have h2 : ¬ x.toInt64.toInt > (l : Int) := fun h => hg (Or.inr h)
        simp [h1, h2]
      simp only [hb, hg, if_false, Bool.false_eq_true]
      split <;> rfl
end Ecal.Lemmas.C06Sites
