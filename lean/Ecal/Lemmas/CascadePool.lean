import Ecal.Lemmas.CascadeLive
import Ecal.Lemmas.PoolFair
/-!
A coupled pair of executions (non-vacuity of `Ecal.Props.C02.PoolCoupling`): one cascade with one
task on one worker. Cascade level `cX`: NewRootMonitor, handler observer, push (tick 2), pop (tick 3),
the rule returns, the task ends, clean-up, post, callbacks. Pool level `cY`: the worker passes the
kill check (tick 0), a polling broadcast (tick 1), `AddTask` pushes (tick 2), the worker pops (tick 3).
-/
namespace Ecal.Cascade

def cXevs : List ConcEvent := [.newRoot, .at 0 .regHandler, .at 0 (.addEvent 0 true [0]), .at 0 (.pop 0 0),
  .at 0 (.ruleReturns 0 true), .at 0 (.taskDone 0), .at 0 .dropQueue, .at 0 .post,
  .at 0 (.observerRuns .handler), .at 0 (.observerRuns .queue)]

def cXend : Conc :=
  { workers := 1, failFirst := false,
    roots := [{ workers := 1, failFirst := false, mons := [{ parent := none, phase := .done }],
                unfinished := 0, posted := 1, handlerReg := true, handlerCalls := 1 }] }

theorem cXrun : Conc.run (Conc.init 1 false) cXevs = some cXend := rfl

def cX : Exec := execOfRun (Conc.init 1 false) cXend cXevs ⟨1, false, [], rfl⟩ cXrun

theorem cX_noQueuedB : ∀ k, k < 10 → k ≠ 3 →
    ((execState (Conc.init 1 false) cXevs k).roots.all fun s => s.mons.all fun m => m.phase != .queued) = true := by
  decide

/-- a task is queued at the cascade level exactly at tick 3 -/
theorem cX_queued_only_at_3 : ∀ n, (cX.C n).taskQueued → n = 3 := by
  intro n hq
  by_cases h3 : n = 3
  · exact h3
  · exfalso
    by_cases h10 : 10 ≤ n
    · have hlen : cXevs.length ≤ n := by
        have : cXevs.length = 10 := by decide
        omega
      have : cX.C n = cXend := execState_final cXrun hlen
      rw [this] at hq
      exact noQueued_of_roots (by decide) hq
    · exact noQueued_of_roots (cX_noQueuedB n (by omega) h3) hq

theorem cX_pop_at_3 : cX.tookPop 3 := by
  have h3 : 3 < cXevs.length := by decide
  exact ⟨0, 0, 0, rfl, by
    have := execState_step cXrun h3
    show (Conc.stepE (execState (Conc.init 1 false) cXevs 3) (.at 0 (.pop 0 0))).isSome = true
    rw [show (ConcEvent.at 0 (Event.pop 0 0)) = cXevs[3] from rfl, this]; rfl⟩

/-! ### the number of queued tasks along cascade steps -/

def isQ (m : Mon) : Bool := m.phase == .queued

def State.queuedCount (s : State) : Nat := s.mons.countP isQ

def Conc.queuedCount (C : Conc) : Nat := (C.roots.map State.queuedCount).sum

def Event.isPush : Event → Bool
  | .addEvent _ true _ => true
  | _ => false

theorem countQ_set (l : List Mon) (i : Nat) (m m' : Mon) (h : l[i]? = some m) :
    (l.set i m').countP isQ + (if isQ m then 1 else 0) = l.countP isQ + (if isQ m' then 1 else 0) := by
  obtain ⟨hl, hm⟩ := getElem_of_get? h
  rw [List.countP_set hl, hm]
  have : (if isQ l[i] = true then 1 else 0) ≤ l.countP isQ := by
    induction l generalizing i with
    | nil => simp at hl
    | cons x l ih =>
      cases i with
      | zero => simp [List.countP_cons]
      | succ i =>
        simp at hl
        have := ih i (by simpa using h) hl (by simpa using hm)
        simp [List.countP_cons]; omega
  rw [hm] at this
  omega

/-- a cascade step changes the number of queued tasks by +1 for a push, −1 for a pop, 0 otherwise -/
theorem queuedCount_step {v v' : State} {e : Event} (hs : step v e = some v') :
    v'.queuedCount + (if e.isPop then 1 else 0) = v.queuedCount + (if e.isPush then 1 else 0) := by
  have viaSet : ∀ {i : Nat} {m m' : Mon}, v.mons[i]? = some m →
      (v.setMon i m').queuedCount + (if isQ m then 1 else 0) = v.queuedCount + (if isQ m' then 1 else 0) :=
    fun hm => countQ_set v.mons _ _ _ hm
  cases e with
  | register =>
    simp only [step] at hs
    split at hs; · cases hs
    split at hs
    · split at hs
      · cases hs; rfl
      · cases hs
    · cases hs
  | regHandler =>
    simp only [step] at hs
    split at hs; · cases hs
    split at hs
    · split at hs
      · cases hs; rfl
      · cases hs
    · cases hs
  | addEvent i trig rules =>
    simp only [step] at hs
    split at hs
    · rename_i m hm
      split at hs
      · rename_i hph
        cases trig with
        | true =>
          simp only [if_true] at hs
          split at hs
          · cases hs
            have := viaSet (m' := { m with phase := .queued, todo := rules }) hm
            simp [isQ, hph] at this
            simp [Event.isPush, Event.isPop, State.queuedCount, State.setMon] at this ⊢
            omega
          · cases hs
        | false =>
          simp only [Bool.false_eq_true, if_false] at hs
          split at hs
          · cases hs
          · cases hs
            have := viaSet (m' := { m with phase := .done, skipped := true }) hm
            simp [isQ, hph] at this
            simp [Event.isPush, Event.isPop, State.queuedCount, State.setMon, finishOne] at this ⊢
            omega
      all_goals cases hs
    · cases hs
  | newChild p =>
    simp only [step] at hs
    split at hs
    · split at hs
      · cases hs
        simp [Event.isPush, Event.isPop, State.queuedCount, List.countP_append, isQ]
      · cases hs
    · cases hs
  | pop w i =>
    simp only [step] at hs
    split at hs
    · split at hs
      · rename_i m hm
        split at hs
        · rename_i hph
          cases hs
          have := viaSet (m' := { m with phase := .running w }) hm
          simp [isQ, hph] at this
          simp [Event.isPush, Event.isPop, State.queuedCount, State.setMon] at this ⊢
          omega
        · cases hs
      · cases hs
    · cases hs
  | ruleReturns i ok =>
    simp only [step] at hs
    split at hs
    · rename_i m hm
      split at hs
      · rename_i w r rest hph htodo
        cases hs
        have key : ∀ M : Mon, isQ M = false → (v.setMon i M).queuedCount = v.queuedCount := by
          intro M hM
          have := viaSet (m' := M) hm
          simp [hM, show isQ m = false by simp [isQ, hph]] at this
          exact this
        simp only [Event.isPush, Event.isPop, Bool.false_eq_true, if_false, Nat.add_zero]
        exact key _ (by simp [isQ, hph])
      · cases hs
    · cases hs
  | taskDone i =>
    simp only [step] at hs
    split at hs
    · rename_i m hm
      split at hs
      · rename_i w hph htodo
        split at hs
        · cases hs
          have := viaSet (m' := { m with phase := .done }) hm
          simp [isQ, hph] at this
          simp [Event.isPush, Event.isPop, State.queuedCount, State.setMon, finishOne] at this ⊢
          omega
        · cases hs
          have := viaSet (m' := { m with phase := .failing w }) hm
          simp [isQ, hph] at this
          simp [Event.isPush, Event.isPop, State.queuedCount, State.setMon] at this ⊢
          omega
      · cases hs
    · cases hs
  | setErrors i =>
    simp only [step] at hs
    split at hs
    · rename_i m hm
      split at hs
      · rename_i w hph
        cases hs
        have := viaSet (m' := { m with phase := .errSet w, err := some m.failed, inErrors := true }) hm
        simp [isQ, hph] at this
        simp [Event.isPush, Event.isPop, State.queuedCount, State.setMon] at this ⊢
        omega
      all_goals cases hs
    · cases hs
  | errFinish i =>
    simp only [step] at hs
    split at hs
    · rename_i m hm
      split at hs
      · rename_i w hph
        cases hs
        have := viaSet (m' := { m with phase := .notifying w }) hm
        simp [isQ, hph] at this
        simp [Event.isPush, Event.isPop, State.queuedCount, State.setMon, finishOne] at this ⊢
        omega
      all_goals cases hs
    · cases hs
  | notified i =>
    simp only [step] at hs
    split at hs
    · rename_i m hm
      split at hs
      · rename_i w hph
        cases hs
        have := viaSet (m' := { m with phase := .done }) hm
        simp [isQ, hph] at this
        simp [Event.isPush, Event.isPop, State.queuedCount, State.setMon] at this ⊢
        omega
      all_goals cases hs
    · cases hs
  | dropQueue =>
    simp only [step] at hs
    split at hs
    · cases hs; rfl
    · cases hs
  | post =>
    simp only [step] at hs
    split at hs
    · cases hs
    · cases hs; rfl
  | observerRuns o =>
    cases o <;> simp only [step] at hs <;> split at hs <;> first | (cases hs; done) | (cases hs; rfl)
  | waitReturns =>
    simp only [step] at hs
    split at hs
    · cases hs; rfl
    · cases hs
  | allErrors => simp only [step] at hs; cases hs; rfl

theorem sum_map_set (l : List State) (f : State → Nat) (r : Nat) (x : State) (hr : r < l.length) :
    ((l.set r x).map f).sum + f l[r] = (l.map f).sum + f x := by
  induction l generalizing r with
  | nil => simp at hr
  | cons a l ih =>
    cases r with
    | zero => simp only [List.set_cons_zero, List.map_cons, List.sum_cons, List.getElem_cons_zero]; omega
    | succ r =>
      simp at hr
      have := ih r hr
      simp only [List.set_cons_succ, List.map_cons, List.sum_cons, List.getElem_cons_succ]; omega

/-- a step of the shared system changes the number of queued tasks by +1 for a push, −1 for a pop -/
theorem conc_queuedCount_step {C C' : Conc} {r : Nat} {e : Event} (hs : Conc.step C r e = some C') :
    C'.queuedCount + (if e.isPop then 1 else 0) = C.queuedCount + (if e.isPush then 1 else 0) := by
  simp only [Conc.step] at hs
  split at hs
  · cases hs
  · rename_i v hv
    split at hs
    · split at hs
      · cases hs
      · rename_i v' hstep
        cases hs
        rw [view_eq] at hv
        obtain ⟨s0, hs0, hs0v⟩ := Option.map_eq_some_iff.mp hv
        obtain ⟨hr, hget⟩ := List.getElem?_eq_some_iff.mp hs0
        have h1 := queuedCount_step hstep
        have hv0 : v.queuedCount = s0.queuedCount := by rw [← hs0v]; rfl
        have h2 := sum_map_set C.roots State.queuedCount r v'.local hr
        have hl : (v'.local).queuedCount = v'.queuedCount := rfl
        simp only [Conc.queuedCount, shared_roots]
        rw [hget, hl] at h2
        omega
    · cases hs

theorem queuedCount_pos_of_taskQueued {C : Conc} (h : C.taskQueued) : 0 < C.queuedCount := by
  obtain ⟨r, v, i, m, hv, hm, hph⟩ := h
  rw [view_eq] at hv
  obtain ⟨s0, hs0, hs0v⟩ := Option.map_eq_some_iff.mp hv
  have hm' : s0.mons[i]? = some m := by rw [← hs0v] at hm; exact hm
  have h1 : 0 < s0.queuedCount := by
    apply List.countP_pos_iff.mpr
    exact ⟨m, List.mem_of_getElem? hm', by simp [isQ, hph]⟩
  obtain ⟨hr, hget⟩ := List.getElem?_eq_some_iff.mp hs0
  have h2 := sum_map_set C.roots State.queuedCount r { s0 with mons := [] } hr
  rw [hget] at h2
  have h0 : State.queuedCount { s0 with mons := [] } = 0 := rfl
  simp only [Conc.queuedCount]
  omega

/-- one tick of a cascade-level execution after the additions stopped: the number of queued tasks
    shrinks by one iff a pop is taken -/
theorem exec_queued_tick (X : Exec) {N n : Nat} (ha : X.AddsStopAt N) (hn : N ≤ n) :
    (X.tookPop n → (X.C (n + 1)).queuedCount + 1 = (X.C n).queuedCount) ∧
    (¬ X.tookPop n → (X.C (n + 1)).queuedCount = (X.C n).queuedCount) := by
  rw [X.next n]
  cases he : X.ev n with
  | none =>
    refine ⟨?_, fun _ => rfl⟩
    rintro ⟨r, w, i, h1, _⟩; simp [he] at h1
  | some e =>
    simp only
    have hadd := ha n hn e he
    cases hs : Conc.stepE (X.C n) e with
    | none =>
      refine ⟨?_, fun _ => by simp⟩
      rintro ⟨r, w, i, h1, h3⟩
      rw [he] at h1; cases h1
      rw [hs] at h3; cases h3
    | some C' =>
      simp only [Option.getD_some]
      cases e with
      | newRoot => simp [ConcEvent.adds] at hadd
      | «at» r e0 =>
        simp only [Conc.stepE] at hs
        have hq := conc_queuedCount_step hs
        have hpush : e0.isPush = false := by
          cases e0 <;> simp_all [ConcEvent.adds, Event.isPush]
        constructor
        · rintro ⟨r', w, i, h1, _⟩
          rw [he] at h1; cases h1
          simp [Event.isPop, Event.isPush] at hq; omega
        · intro hnp
          have hpop : e0.isPop = false := by
            cases e0 with
            | pop w i => exact absurd ⟨r, w, i, he, by simp [Conc.stepE, hs]⟩ hnp
            | _ => rfl
          simp [hpop, hpush] at hq; omega

theorem cX_tookPop_only_at_3 : ∀ n, cX.tookPop n → n = 3 := by
  intro n ⟨r, w, i, he, _⟩
  have he' : cXevs[n]? = some (.at r (.pop w i)) := he
  rcases n with _ | _ | _ | _ | _ | _ | _ | _ | _ | _ | n <;> simp [cXevs] at he' <;> rfl

theorem cX_addsStop : cX.AddsStopAt 3 := execOfRun_addsStop _ cXrun (by decide)

theorem cX_queuedCount_at_3 : (cX.C 3).queuedCount = 1 := by
  show (execState (Conc.init 1 false) cXevs 3).queuedCount = 1
  decide

end Ecal.Cascade

namespace Ecal.Pool

def cYstart : State := (runFrom repaired init [.swcSet 1]).getD init

theorem cYstart_reachable : Reachable repaired cYstart := ⟨[.swcSet 1], rfl⟩

def cYevs : List Event := [.killPass 0, .bcast, .aPush 1, .pop 0 1]

def cY : Exec := Exec.ofList cYstart cYstart_reachable cYevs

theorem cY_pop_only_at_3 : ∀ n, cY.took isPop n → n = 3 := by
  intro n ⟨e, he, hp, _⟩
  have he' : cYevs[n]? = some e := he
  rcases n with _ | _ | _ | _ | n
  · simp [cYevs] at he'; subst he'; simp [isPop] at hp
  · simp [cYevs] at he'; subst he'; simp [isPop] at hp
  · simp [cYevs] at he'; subst he'; simp [isPop] at hp
  · rfl
  · simp [cYevs] at he'

theorem cY_queue_at_3 : (cY.C 3).queue ≠ [] := by decide

theorem cY_live : ∀ n, 0 < (cY.C n).live := by
  intro n
  rcases n with _ | _ | _ | _ | n
  · decide
  · decide
  · decide
  · decide
  · have : cY.C (n + 4) = execC cYstart cYevs cYevs.length := execC_rest cYstart cYevs (n + 4) (by simp [cYevs])
    rw [this]
    decide

/-! ### the queue length along pool steps -/

def isPush : Event → Bool
  | .aPush _ => true
  | _ => false

/-- only `aPush` lengthens the queue, only `pop` shortens it (by exactly one) -/
theorem queue_length_step {s s1 : State} {e : Event} (hs : step repaired s e = some s1) (hp : isPush e = false) :
    s1.queue.length + (if isPop e then 1 else 0) = s.queue.length := by
  cases e <;> simp only [step] at hs <;> (repeat' split at hs) <;>
    first
    | (cases hs; done)
    | (simp [isPush] at hp; done)
    | (cases hs; simp [isPop, State.goto]; done)
    | (cases hs; simp_all [isPop, List.length_erase_of_mem]; done)
    | (rename_i hmem; cases hs; simp only [isPop, if_true]; rw [List.length_erase_of_mem hmem]; have := List.length_pos_of_mem hmem; omega)

theorem not_push_of_internal {e : Event} (h : isInternal e = true ∨ e = .bcast) : isPush e = false := by
  rcases h with h | h
  · cases e <;> simp_all [isInternal, isPush]
  · subst h; rfl

/-- one tick of a pool execution after the calls stopped: the queue shrinks by one iff a pop is taken -/
theorem exec_queue_tick (Y : Exec) {N n : Nat} (hc : Y.CallsStopAt N) (hn : N ≤ n) :
    (Y.took isPop n → (Y.C (n + 1)).queue.length + 1 = (Y.C n).queue.length) ∧
    (¬ Y.took isPop n → (Y.C (n + 1)).queue.length = (Y.C n).queue.length) := by
  rw [Y.next n]
  cases he : Y.ev n with
  | none =>
    refine ⟨?_, fun _ => rfl⟩
    rintro ⟨e, h1, _⟩; simp [he] at h1
  | some e =>
    cases hs : step repaired (Y.C n) e with
    | none =>
      refine ⟨?_, fun _ => by simp [hs]⟩
      rintro ⟨e', h1, _, h3⟩
      simp [he] at h1; subst h1; simp [hs] at h3
    | some s1 =>
      simp only [hs, Option.getD_some]
      have hq := queue_length_step hs (not_push_of_internal (hc n hn e he))
      constructor
      · rintro ⟨e', h1, h2, _⟩
        simp [he] at h1; subst h1
        simp [h2] at hq; omega
      · intro hnp
        have : isPop e = false := by
          cases hpe : isPop e with
          | false => rfl
          | true => exact absurd ⟨e, he, hpe, by simp [hs]⟩ hnp
        simp [this] at hq; omega

theorem cY_callsStop : cY.CallsStopAt 3 := by
  intro n hn e he
  have he' : cYevs[n]? = some e := he
  rcases n with _ | _ | _ | _ | n
  · omega
  · omega
  · omega
  · simp [cYevs] at he'; subst he'; left; decide
  · simp [cYevs] at he'

theorem cY_took_pop_3 : cY.took isPop 3 := ⟨.pop 0 1, rfl, rfl, by decide⟩

theorem cY_queue_length_at_3 : (cY.C 3).queue.length = 1 := by decide

end Ecal.Pool
