import Ecal.Lemmas.CascadeLive
import Ecal.Lemmas.PoolFair
/-!
A coupled pair of executions (non-vacuity of `Ecal.Props.C02.PoolCoupling`): one cascade with one
task on one worker. Cascade level `cX`: NewRootMonitor, handler observer, push (tick 2), pop (tick 3),
the rule returns, the task ends, clean-up, post, callbacks. Pool level `cY`: the worker passes the
kill check (tick 0), a polling broadcast (tick 1), `AddTask` pushes (tick 2), the worker pops (tick 3).
-/
namespace Ecal.Cascade

def cXevs : List ConcEvent := [.newRoot, .at 0 .regHandler, .at 0 (.addEvent 0 true [0]), .at 0 (.pop 0 0),
  .at 0 (.ruleReturns 0 true), .at 0 (.taskDone 0), .at 0 .dropQueue, .at 0 .post,
  .at 0 (.observerRuns .handler), .at 0 (.observerRuns .queue)]

def cXend : Conc :=
  { workers := 1, failFirst := false,
    roots := [{ workers := 1, failFirst := false, mons := [{ parent := none, phase := .done }],
                unfinished := 0, posted := 1, handlerReg := true, handlerCalls := 1 }] }

theorem cXrun : Conc.run (Conc.init 1 false) cXevs = some cXend := rfl

def cX : Exec := execOfRun (Conc.init 1 false) cXend cXevs ⟨1, false, [], rfl⟩ cXrun

theorem cX_noQueuedB : ∀ k, k < 10 → k ≠ 3 →
    ((execState (Conc.init 1 false) cXevs k).roots.all fun s => s.mons.all fun m => m.phase != .queued) = true := by
  decide

/-- a task is queued at the cascade level exactly at tick 3 -/
theorem cX_queued_only_at_3 : ∀ n, (cX.C n).taskQueued → n = 3 := by
  intro n hq
  by_cases h3 : n = 3
  · exact h3
  · exfalso
    by_cases h10 : 10 ≤ n
    · have hlen : cXevs.length ≤ n := by
        have : cXevs.length = 10 := by decide
        omega
      have : cX.C n = cXend := execState_final cXrun hlen
      rw [this] at hq
      exact noQueued_of_roots (by decide) hq
    · exact noQueued_of_roots (cX_noQueuedB n (by omega) h3) hq

theorem cX_pop_at_3 : cX.tookPop 3 := by
  have h3 : 3 < cXevs.length := by decide
  exact ⟨0, 0, 0, rfl, by
    have := execState_step cXrun h3
    show (Conc.stepE (execState (Conc.init 1 false) cXevs 3) (.at 0 (.pop 0 0))).isSome = true
    rw [show (ConcEvent.at 0 (Event.pop 0 0)) = cXevs[3] from rfl, this]; rfl⟩

end Ecal.Cascade

namespace Ecal.Pool

def cYstart : State := (runFrom repaired init [.swcSet 1]).getD init

theorem cYstart_reachable : Reachable repaired cYstart := ⟨[.swcSet 1], rfl⟩

def cYevs : List Event := [.killPass 0, .bcast, .aPush 1, .pop 0 1]

def cY : Exec := Exec.ofList cYstart cYstart_reachable cYevs

theorem cY_pop_only_at_3 : ∀ n, cY.took isPop n → n = 3 := by
  intro n ⟨e, he, hp, _⟩
  have he' : cYevs[n]? = some e := he
  rcases n with _ | _ | _ | _ | n
  · simp [cYevs] at he'; subst he'; simp [isPop] at hp
  · simp [cYevs] at he'; subst he'; simp [isPop] at hp
  · simp [cYevs] at he'; subst he'; simp [isPop] at hp
  · rfl
  · simp [cYevs] at he'

theorem cY_queue_at_3 : (cY.C 3).queue ≠ [] := by decide

theorem cY_live : ∀ n, 0 < (cY.C n).live := by
  intro n
  rcases n with _ | _ | _ | _ | n
  · decide
  · decide
  · decide
  · decide
  · have : cY.C (n + 4) = execC cYstart cYevs cYevs.length := execC_rest cYstart cYevs (n + 4) (by simp [cYevs])
    rw [this]
    decide

end Ecal.Pool
