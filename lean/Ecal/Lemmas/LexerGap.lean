import Ecal.Lemmas.LexerInv
/-!
The gap between tokens (C18): what skipWhiteSpace skips is a run of blank runes.
-/
namespace Ecal.Lex
open Ecal.Lex.Spec

/-- `[p, q)` is a run of blank runes (unicode.IsSpace ∨ unicode.IsControl, decoded as the lexer
    decodes them, one after the other): exactly what skipWhiteSpace may skip. -/
inductive BlankRun (inp : Bytes) : Nat → Nat → Prop
  | refl (p : Nat) : BlankRun inp p p
  | step {p q : Nat} : p < inp.size → blank (some (decodeRune inp p).1) = true →
      BlankRun inp (p + (decodeRune inp p).2) q → BlankRun inp p q

theorem BlankRun.snoc {inp : Bytes} {p q : Nat} (h : BlankRun inp p q) (hq : q < inp.size)
    (hb : blank (some (decodeRune inp q).1) = true) : BlankRun inp p (q + (decodeRune inp q).2) := by
  induction h with
  | refl p => exact .step hq hb (.refl _)
  | step h1 h2 _ ih => exact .step h1 h2 (ih hq hb)

theorem BlankRun.le {inp : Bytes} {p q : Nat} (h : BlankRun inp p q) : p ≤ q := by
  induction h with
  | refl p => exact Nat.le_refl _
  | step _ _ _ ih => omega

/-- a blank run contains no token start: every rune boundary in it carries a blank rune — in
    particular its first rune, if it is not empty -/
theorem BlankRun.first {inp : Bytes} {p q : Nat} (h : BlankRun inp p q) (hpq : p < q) :
    p < inp.size ∧ blank (some (decodeRune inp p).1) = true := by
  cases h with
  | refl => omega
  | step h1 h2 _ => exact ⟨h1, h2⟩

/-- the loop of skipWhiteSpace: when it returns true, everything from `p0` to where it stops is a
    blank run (`p` = start of the pending rune, `[p0, p)` already known to be blank) -/
theorem sws_loop_blank (fuel : Nat) : ∀ (l : L) (r : Option Nat) (p p0 : Nat), Pend l r p →
    BlankRun l.inp p0 p → (skipWhiteSpace.loop fuel l r).2 = true →
    BlankRun l.inp p0 (skipWhiteSpace.loop fuel l r).1.pos := by
  induction fuel with
  | zero => intro l r p p0 _ _ h; simp [skipWhiteSpace.loop] at h
  | succ n ih =>
    intro l r p p0 hp hrun h
    simp only [skipWhiteSpace.loop] at h ⊢
    split at h
    · rename_i hb
      simp only [hb, if_true]
      generalize hl1 : (if r = some 10 then { l.track r with skippedNl := l.skippedNl + 1 } else l) = l1 at h ⊢
      have e1 : l1.inp = l.inp ∧ l1.pos = l.pos := by
        subst hl1; split <;> simp [L.track]
      obtain ⟨i1, i2⟩ := e1
      by_cases hr2 : (l1.next).2 = none
      · simp [hr2] at h
      · simp only [hr2, if_false] at h ⊢
        obtain ⟨np, nc⟩ := next_spec l1 (by rw [i1, i2]; exact hp.le)
        have c1 := (core_fields nc).1
        -- the pending rune was a real, blank one: the run extends over it
        have hrun' : BlankRun l.inp p0 l.pos := by
          cases r with
          | none =>
            have := hp.none_pos rfl
            rw [this]; exact hrun
          | some c =>
            obtain ⟨q1, q2, q3, q4⟩ := hp.some_pos c rfl
            have := hrun.snoc q1 (by rw [q2]; exact hb)
            rw [q3, ← q4] at this
            exact this
        have := ih (l1.next).1 (l1.next).2 l1.pos p0 np (by rw [c1, i1, i2]; exact hrun') h
        rw [c1, i1] at this
        exact this
    · rename_i hb
      simp only [hb, Bool.false_eq_true, if_false]
      cases r with
      | none => simp [blank] at hb
      | some c =>
        obtain ⟨q1, q2, q3, q4⟩ := hp.some_pos c rfl
        have hpos : (l.backup 0).pos = p := by simp [L.backup]; omega
        show BlankRun l.inp p0 (l.backup 0).pos
        rw [hpos]; exact hrun

/-- **skipWhiteSpace skips a blank run.** If it returns true (a token follows), everything between
    where it started and where it stopped is a run of blank runes, and it stopped in front of a
    rune that is not blank (`Ready`, from `sws_inv_ready`). -/
theorem sws_blank (l : L) (hle : l.pos ≤ l.inp.size) (hok : (skipWhiteSpace l).2 = true) :
    BlankRun l.inp l.pos (skipWhiteSpace l).1.pos := by
  obtain ⟨np, nc⟩ := next_spec l hle
  have c1 := (core_fields nc).1
  simp only [skipWhiteSpace] at hok ⊢
  have hp0 : Pend ({ (l.next).1 with skippedNl := 0 } : L) (l.next).2 l.pos :=
    ⟨np.le, np.none_pos, np.some_pos⟩
  have := sws_loop_blank ((l.next).1.inp.size + 2) { (l.next).1 with skippedNl := 0 } (l.next).2 l.pos l.pos hp0
    (.refl _) hok
  have e : ({ (l.next).1 with skippedNl := 0 } : L).inp = l.inp := c1
  rw [e] at this
  have e2 : (l.next).1.inp.size = l.inp.size := by rw [c1]
  rw [e2]
  exact this

end Ecal.Lex
