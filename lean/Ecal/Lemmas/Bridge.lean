import Ecal.Model.Bridge
/-! Helper lemmas about `Ecal.Bridge` used by the C19 property theorems. -/
namespace Ecal.Bridge

variable {oob : IntKind → Num → Int} {chk : Bool}

/-! ### checkArg -/

/-- whatever the parameter type: a converted number is a plain `intN`/`uintN`/`float32`/`float64` -/
theorem convertNumber_ty (x : Num) (t : Ty) :
    ∃ t', (convertNumber oob x t).ty = some t' ∧ t'.isNumeric = true := by
  induction t with
  | int k =>
    refine ⟨.int k, ?_, rfl⟩
    simp only [convertNumber]
    split
    · split <;> simp [Val.ty]
    · simp [Val.ty]
  | named id u ih => simpa [convertNumber] using ih
  | f32 => exact ⟨.f32, rfl, rfl⟩
  | _ => exact ⟨.f64, rfl, rfl⟩

theorem checkArgCore_of_not_f64 {p : Ty} {a : Val} (hna : ∀ x, a ≠ .f64 x) :
    checkArgCore oob p a =
      if a.ty = some p then .accept a
      else if p.isInterface then (match a.ty with | none => .panic | some _ => .error)
      else if p = .list then .accept a else .error := by
  cases a <;> first | rfl | exact absurd rfl (hna _)

/-- an accepted argument was of a compatible kind -/
theorem checkArgCore_accept_compatible {p : Ty} {a v : Val} (h : checkArgCore oob p a = .accept v) :
    compatible p a = true := by
  by_cases hf : ∃ x, a = .f64 x
  · obtain ⟨x, rfl⟩ := hf
    unfold checkArgCore at h
    simp only at h
    unfold compatible
    simp only
    cases p <;> simp_all [convertNumber, Ty.isNumeric, Val.ty, Ty.isInterface, Ty.list]
    · split at h <;> simp_all
    · rename_i id u
      obtain ⟨t', ht', hn⟩ := convertNumber_ty (oob := oob) x u
      rw [ht'] at h
      split at h
      · rename_i heq; simp at heq; subst heq; simp [Ty.isNumeric] at hn
      · simp at h
  · have hna : ∀ x, a ≠ .f64 x := fun x hx => hf ⟨x, hx⟩
    rw [checkArgCore_of_not_f64 hna] at h
    have hc : compatible p a = (a.ty == some p || p == .list) := by
      cases a <;> first | rfl | exact absurd rfl (hna _)
    rw [hc]
    by_cases h1 : a.ty = some p
    · simp [h1]
    · by_cases h2 : p.isInterface = true
      · simp [h1, h2] at h
        split at h <;> simp at h
      · by_cases h3 : p = .list
        · simp [h3]
        · simp [h1, h2, h3] at h

/-- NULL is only ever let through unchanged -/
theorem checkArgCore_nil {p : Ty} {v : Val} (h : checkArgCore oob p .nil = .accept v) : v = .nil := by
  unfold checkArgCore at h
  simp [Val.ty] at h
  split at h
  · simp at h
  · split at h <;> simp_all

theorem outOfRange_of_not_f64 {p : Ty} {a : Val} (hna : ∀ x, a ≠ .f64 x) : outOfRange p a = false := by
  cases a <;> first | rfl | exact absurd rfl (hna _)

/-- an accepted argument passed the range check and the rest of the loop body -/
theorem checkArg_accept {p : Ty} {a v : Val} (h : checkArg oob p a = .accept v) :
    outOfRange p a = false ∧ checkArgCore oob p a = .accept v := by
  unfold checkArg at h
  split at h
  · simp at h
  · rename_i hr; exact ⟨by simpa using hr, h⟩

theorem checkArg_of_not_f64 {p : Ty} {a : Val} (hna : ∀ x, a ≠ .f64 x) :
    checkArg oob p a = checkArgCore oob p a := by
  simp [checkArg, outOfRange_of_not_f64 hna]

theorem checkArg_accept_compatible {p : Ty} {a v : Val} (h : checkArg oob p a = .accept v) :
    compatible p a = true := checkArgCore_accept_compatible (checkArg_accept h).2

theorem checkArg_nil {p : Ty} {v : Val} (h : checkArg oob p .nil = .accept v) : v = .nil :=
  checkArgCore_nil (checkArg_accept h).2

/-! ### buildArgs -/

theorem buildArgs_ok_cons {p : Ty} {ps : List Ty} {a : Val} {as f : List Val}
    (h : buildArgs chk oob (p :: ps) (a :: as) = .ok f) :
    ∃ v vs, f = v :: vs ∧ checkArg oob p a = .accept v ∧ buildArgs chk oob ps as = .ok vs := by
  simp only [buildArgs] at h
  split at h
  · rename_i v hv
    split at h
    · rename_i vs hvs
      simp at h
      exact ⟨v, vs, h.symm, hv, hvs⟩
    · rename_i hne; exact (hne f h).elim
  · simp at h
  · simp at h

theorem buildArgs_nil_cons_ne_ok {a : Val} {as f : List Val} :
    buildArgs chk oob [] (a :: as) ≠ .ok f := by
  cases chk <;> simp [buildArgs]

theorem buildArgs_ok_length : ∀ {ps : List Ty} {as f : List Val},
    buildArgs chk oob ps as = .ok f → f.length = as.length ∧ as.length ≤ ps.length := by
  intro ps
  induction ps with
  | nil =>
    intro as f h
    cases as with
    | nil => simp [buildArgs] at h; subst h; simp
    | cons a as => exact absurd h buildArgs_nil_cons_ne_ok
  | cons p ps ih =>
    intro as f h
    cases as with
    | nil => simp [buildArgs] at h; subst h; simp
    | cons a as =>
      obtain ⟨v, vs, rfl, _, hb⟩ := buildArgs_ok_cons h
      have := ih hb
      simp; omega

/-- every accepted argument vector is positionwise compatible with the parameters -/
theorem buildArgs_ok_compatible : ∀ {ps : List Ty} {as f : List Val},
    buildArgs chk oob ps as = .ok f →
    ∀ (i : Nat) p a, ps[i]? = some p → as[i]? = some a → compatible p a = true := by
  intro ps
  induction ps with
  | nil =>
    intro as f h i p a hp; simp at hp
  | cons p0 ps ih =>
    intro as f h i p a hp ha
    cases as with
    | nil => simp at ha
    | cons a0 as =>
      obtain ⟨v, vs, _, hc, hb⟩ := buildArgs_ok_cons h
      cases i with
      | zero =>
        simp at hp ha; subst hp ha
        exact checkArg_accept_compatible hc
      | succ i =>
        simp at hp ha
        exact ih hb i p a hp ha

/-- NULL arguments that get through the loop are still NULL (zero Values) for reflect -/
theorem buildArgs_ok_nil_mem : ∀ {ps : List Ty} {as f : List Val},
    buildArgs chk oob ps as = .ok f → Val.nil ∈ as → Val.nil ∈ f := by
  intro ps
  induction ps with
  | nil =>
    intro as f h hm
    cases as with
    | nil => simp at hm
    | cons a as => exact absurd h buildArgs_nil_cons_ne_ok
  | cons p0 ps ih =>
    intro as f h hm
    cases as with
    | nil => simp at hm
    | cons a0 as =>
      obtain ⟨v, vs, rfl, hc, hb⟩ := buildArgs_ok_cons h
      simp at hm
      rcases hm with rfl | hm
      · have := checkArg_nil hc; subst this; simp
      · have := ih hb hm; simp [this]

/-- surplus arguments behind an acceptable prefix meet the explicit arity check -/
theorem buildArgs_surplus : ∀ {ps : List Ty} {pre f : List Val} (extra : List Val),
    buildArgs true oob ps pre = .ok f → pre.length = ps.length → extra ≠ [] →
    buildArgs true oob ps (pre ++ extra) = .error .tooMany := by
  intro ps
  induction ps with
  | nil =>
    intro pre f extra _ hl hne
    cases pre with
    | nil => cases extra with
      | nil => exact absurd rfl hne
      | cons e es => simp [buildArgs]
    | cons _ _ => simp at hl
  | cons p ps ih =>
    intro pre f extra hb hl hne
    cases pre with
    | nil => simp at hl
    | cons a as =>
      obtain ⟨v, vs, _, hc, hb'⟩ := buildArgs_ok_cons hb
      simp at hl
      have := ih extra hb' hl hne
      simp [buildArgs, hc, this]

/-! ### fitting arguments -/

theorem convertNumber_ty_of_numeric {x : Num} {p : Ty} (h : p.isNumeric = true) :
    (convertNumber oob x p).ty = some p := by
  cases p <;> simp [Ty.isNumeric] at h
  · simp only [convertNumber]
    split
    · split <;> simp [Val.ty]
    · simp [Val.ty]
  · simp [convertNumber, Val.ty]
  · simp [convertNumber, Val.ty]

/-- a fitting argument is accepted, as a value of exactly the parameter's type -/
theorem checkArg_of_fits {p : Ty} {a : Val} (h : Fits p a) :
    ∃ v, checkArg oob p a = .accept v ∧ v.ty = some p := by
  rcases h with ⟨x, rfl, hn, hfit⟩ | ⟨ht, hna⟩
  · refine ⟨convertNumber oob x p, ?_, convertNumber_ty_of_numeric hn⟩
    simp [checkArg, outOfRange, hfit, checkArgCore, convertNumber_ty_of_numeric (oob := oob) (x := x) hn]
  · exact ⟨a, by rw [checkArg_of_not_f64 hna, checkArgCore_of_not_f64 hna]; simp [ht], ht⟩

theorem buildArgs_of_fits : ∀ {ps : List Ty} {as : List Val}, AllFit ps as →
    ∃ f, buildArgs chk oob ps as = .ok f ∧ TypesMatch f ps := by
  intro ps
  induction ps with
  | nil =>
    intro as h
    cases as with
    | nil => exact ⟨[], by simp [buildArgs], trivial⟩
    | cons _ _ => simp [AllFit] at h
  | cons p ps ih =>
    intro as h
    cases as with
    | nil => simp [AllFit] at h
    | cons a as =>
      simp only [AllFit] at h
      obtain ⟨v, hv, hty⟩ := checkArg_of_fits (oob := oob) h.1
      obtain ⟨f, hf, hall⟩ := ih h.2
      exact ⟨v :: f, by simp [buildArgs, hv, hf], ⟨hty, hall⟩⟩

theorem allAssignable_of_types : ∀ {f : List Val} {ps : List Ty},
    TypesMatch f ps → allAssignable f ps = true := by
  intro f
  induction f with
  | nil => intro ps h; cases ps <;> simp_all [TypesMatch, allAssignable]
  | cons v vs ih =>
    intro ps h
    cases ps with
    | nil => simp [TypesMatch] at h
    | cons p ps =>
      simp only [TypesMatch] at h
      simp [allAssignable, valAssignable, h.1, assignable, ih h.2]

theorem typesMatch_length : ∀ {f : List Val} {ps : List Ty}, TypesMatch f ps → f.length = ps.length := by
  intro f
  induction f with
  | nil => intro ps h; cases ps <;> simp_all [TypesMatch]
  | cons v vs ih =>
    intro ps h
    cases ps with
    | nil => simp [TypesMatch] at h
    | cons p ps => simp only [TypesMatch] at h; simp [ih h.2]

/-- the loop over a fitting prefix followed by anything -/
theorem buildArgs_append_of_fits : ∀ {ps : List Ty} {as : List Val}, AllFit ps as →
    ∃ f, TypesMatch f ps ∧ ∀ qs bs, buildArgs chk oob (ps ++ qs) (as ++ bs) =
      (match buildArgs chk oob qs bs with
       | .ok g => .ok (f ++ g)
       | r => r) := by
  intro ps
  induction ps with
  | nil =>
    intro as h
    cases as with
    | nil =>
      refine ⟨[], trivial, ?_⟩
      intro qs bs
      cases hq : buildArgs chk oob qs bs <;> simp [hq]
    | cons _ _ => simp [AllFit] at h
  | cons p ps ih =>
    intro as h
    cases as with
    | nil => simp [AllFit] at h
    | cons a as =>
      simp only [AllFit] at h
      obtain ⟨v, hv, hty⟩ := checkArg_of_fits (oob := oob) h.1
      obtain ⟨f, hall, hf⟩ := ih h.2
      refine ⟨v :: f, ⟨hty, hall⟩, ?_⟩
      intro qs bs
      simp only [List.cons_append, buildArgs, hv, hf qs bs]
      cases hq : buildArgs chk oob qs bs <;> simp

/-- a `[]interface{}` parameter lets every value through unchanged -/
theorem checkArg_list (a : Val) : checkArg oob .list a = .accept a := by
  cases a <;> simp [checkArg, outOfRange, numberFits, checkArgCore, convertNumber, Val.ty, Ty.isInterface, Ty.list]

/-! ### reflect.Call -/

theorem allAssignable_length : ∀ {vs : List Val} {ts : List Ty},
    allAssignable vs ts = true → vs.length = ts.length := by
  intro vs
  induction vs with
  | nil => intro ts h; cases ts <;> simp_all [allAssignable]
  | cons v vs ih =>
    intro ts h
    cases ts with
    | nil => simp [allAssignable] at h
    | cons t ts => simp [allAssignable] at h; simp [ih h.2]

theorem allAssignable_nil_mem : ∀ {vs : List Val} {ts : List Ty},
    Val.nil ∈ vs → allAssignable vs ts = false := by
  intro vs
  induction vs with
  | nil => intro ts h; simp at h
  | cons v vs ih =>
    intro ts h
    cases ts with
    | nil => simp [allAssignable]
    | cons t ts =>
      simp at h
      rcases h with rfl | h
      · simp [allAssignable, valAssignable, Val.ty]
      · simp [allAssignable, ih h]

/-- reflect refuses every argument list containing a zero Value -/
theorem callCheck_nil_mem {sig : Sig} {f : List Val} (h : Val.nil ∈ f) : callCheck sig f = false := by
  unfold callCheck
  split
  · split
    · rename_i elem _
      rw [← List.take_append_drop (sig.params.length - 1) f] at h
      rcases List.mem_append.mp h with h | h
      · simp [allAssignable_nil_mem h]
      · have : (List.drop (sig.params.length - 1) f).all (valAssignable · elem) = false := by
          rw [List.all_eq_false]
          exact ⟨Val.nil, h, by simp [valAssignable, Val.ty]⟩
        simp [this]
    · rfl
  · exact allAssignable_nil_mem h

/-- reflect's argument count rule -/
theorem callCheck_length {sig : Sig} {f : List Val} (h : callCheck sig f = true) :
    if sig.variadic then sig.params.length - 1 ≤ f.length else f.length = sig.params.length := by
  unfold callCheck at h
  split
  · rename_i hv
    simp [hv] at h
    split at h
    · simp at h; omega
    · simp at h
  · rename_i hv
    simp [hv] at h
    exact allAssignable_length h

/-! ### numbers -/

theorem Num.trunc_of_isInt {x : Num} {n : Int} (h : x.IsInt n) : x.trunc = some n := by
  obtain ⟨m, e, rfl, h⟩ := h
  rcases h with ⟨he, rfl⟩ | ⟨he, rfl⟩
  · simp [Num.trunc, he]
  · have hne : ¬ (0 ≤ e) := by omega
    have hpos : ((2 : Int) ^ (-e).toNat) ≠ 0 := by
      apply Int.pow_ne_zero; decide
    simp [Num.trunc, hne, Int.mul_tdiv_cancel _ hpos]

theorem Num.isInt_ofInt (n : Int) (_h : n.natAbs ≤ 2 ^ 53) : (Num.fin n 0).IsInt n :=
  ⟨n, 0, rfl, Or.inl ⟨Int.le_refl 0, by simp⟩⟩

/-- what the function receives for a numeric argument -/
theorem buildArgs_numeric_exact : ∀ {ps : List Ty} {as f : List Val}, buildArgs chk oob ps as = .ok f →
    ∀ (i : Nat) (x : Num), as[i]? = some (.f64 x) →
      (∀ k n, ps[i]? = some (.int k) → x.trunc = some n → k.inRange n = true → f[i]? = some (.int k n)) ∧
      (ps[i]? = some .f64 → f[i]? = some (.f64 x)) ∧
      (ps[i]? = some .f32 → f[i]? = some (.f32 x.toF32)) := by
  intro ps
  induction ps with
  | nil =>
    intro as f hb i x ha
    refine ⟨?_, ?_, ?_⟩
    · intro k n hp; simp at hp
    · intro hp; simp at hp
    · intro hp; simp at hp
  | cons p0 ps ih =>
    intro as f hb i x ha
    cases as with
    | nil => simp at ha
    | cons a0 as =>
      obtain ⟨v, vs, rfl, hc, hb'⟩ := buildArgs_ok_cons hb
      cases i with
      | succ i =>
        simp at ha
        have := ih hb' i x ha
        simpa using this
      | zero =>
        simp at ha; subst ha
        refine ⟨?_, ?_, ?_⟩
        · intro k n hp ht hr
          simp at hp; subst hp
          simp [checkArg, outOfRange, numberFits, checkArgCore, convertNumber, ht, hr, Val.ty] at hc
          simp [hc]
        · intro hp
          simp at hp; subst hp
          simp [checkArg, outOfRange, numberFits, checkArgCore, convertNumber, Val.ty] at hc
          simp [hc]
        · intro hp
          simp at hp; subst hp
          simp [checkArg, outOfRange, numberFits, checkArgCore, convertNumber, Val.ty] at hc
          simp [hc]

/-- a `[]interface{}` parameter passes its argument on unchanged -/
theorem buildArgs_list_unchanged : ∀ {ps : List Ty} {as f : List Val}, buildArgs chk oob ps as = .ok f →
    ∀ (i : Nat) a, ps[i]? = some Ty.list → as[i]? = some a → f[i]? = some a := by
  intro ps
  induction ps with
  | nil => intro as f hb i a hp; simp at hp
  | cons p0 ps ih =>
    intro as f hb i a hp ha
    cases as with
    | nil => simp at ha
    | cons a0 as =>
      obtain ⟨v, vs, rfl, hc, hb'⟩ := buildArgs_ok_cons hb
      cases i with
      | succ i => simp at hp ha; simpa using ih hb' i a hp ha
      | zero =>
        simp at hp ha; subst hp ha
        rw [checkArg_list] at hc
        simp at hc; simp [hc]

theorem allAssignable_get : ∀ {vs : List Val} {ts : List Ty}, allAssignable vs ts = true →
    ∀ (i : Nat) v t, vs[i]? = some v → ts[i]? = some t → valAssignable v t = true := by
  intro vs
  induction vs with
  | nil => intro ts _ i v t hv; simp at hv
  | cons v0 vs ih =>
    intro ts h i v t hv ht
    cases ts with
    | nil => simp at ht
    | cons t0 ts =>
      simp [allAssignable] at h
      cases i with
      | zero => simp at hv ht; subst hv ht; exact h.1
      | succ i => simp at hv ht; exact ih h.2 i v t hv ht

/-! ### the result loop -/

/-- without a trailing `error` every result is converted, position by position -/
theorem convertResults_no_error : ∀ (vals : List Val) (outs : List Ty),
    vals.length = outs.length → outs.getLast? ≠ some Ty.error →
    convertResults vals outs = (List.zipWith convertResultNumber outs vals, none) := by
  intro vals
  induction vals with
  | nil => intro outs hl _; cases outs <;> simp_all [convertResults]
  | cons v vs ih =>
    intro outs hl hne
    cases outs with
    | nil => simp at hl
    | cons t ts =>
      simp at hl
      cases vs with
      | nil =>
        cases ts with
        | nil =>
          have : t ≠ Ty.error := by intro h; subst h; simp at hne
          simp [convertResults, this]
        | cons _ _ => simp at hl
      | cons v' vs' =>
        cases ts with
        | nil => simp at hl
        | cons t' ts' =>
          have hne' : (t' :: ts').getLast? ≠ some Ty.error := by
            simpa [List.getLast?_cons_cons] using hne
          have := ih (t' :: ts') (by simpa using hl) hne'
          simp [convertResults, this]


theorem convertResults_trailing_error : ∀ (init : List Val) (outs : List Ty) (e : Val),
    init.length = outs.length →
    convertResults (init ++ [e]) (outs ++ [Ty.error]) =
      (List.zipWith convertResultNumber outs init, if e = .nil then none else some (.func e)) := by
  intro init
  induction init with
  | nil =>
    intro outs e hl
    cases outs with
    | nil => simp [convertResults]
    | cons _ _ => simp at hl
  | cons v vs ih =>
    intro outs e hl
    cases outs with
    | nil => simp at hl
    | cons t ts =>
      simp at hl
      have := ih ts e hl
      cases vs with
      | nil =>
        simp at this ⊢
        cases ts with
        | nil => simp [convertResults] at this ⊢
        | cons _ _ => simp at hl
      | cons v' vs' =>
        simp only [List.cons_append] at this ⊢
        simp [convertResults, this]

/-! ### nested results -/

theorem demandedSeq_toList (t : Ty) : ∀ (xs : Vals),
    (demandedSeq t xs).toList = xs.toList.map (demandedResult t)
  | .nil => by simp [demandedSeq, Vals.toList]
  | .cons v vs => by simp [demandedSeq, Vals.toList, demandedSeq_toList t vs]

theorem numericOf_seq (t' t : Ty) (xs : Vals) : numericOf t' (.seq t xs) = none := by
  cases t' <;> simp [numericOf]

theorem numericOf_gomap (t' kt vt : Ty) (kvs : Vals) : numericOf t' (.gomap kt vt kvs) = none := by
  cases t' <;> simp [numericOf]

end Ecal.Bridge
