import Ecal.Model.Lexer
import Ecal.Model.LexerSpec
import Ecal.Lemmas.LexerPos
/-!
C18, step level: the places where the lexer model changes `line` / `lastnl` (`trackPair`,
`L.track`, `L.hashEnd`) and the place where it reads them (`L.stamp`, `L.emit`). These lemmas are
subsumed by the whole-input theorems of `Ecal.Props.C18` (proved through `Ecal.Lemmas.LexerInv`);
they are kept as the readable core of the argument.
-/
namespace Ecal.Lex.Steps
open Ecal.Lex Ecal.Lex.Spec

/-- The bookkeeping is *true at offset `p`*: `line` newlines before `p`, `lastnl` just after the
    last of them. -/
def Good (inp : Bytes) (p line lastnl : Nat) : Prop :=
  line = nlBefore inp p ∧ lastnl = lineStart inp p

/-- the lexer state's bookkeeping is true at its read position -/
def StateGood (l : L) : Prop := Good l.inp l.pos l.line l.lastnl

instance (inp : Bytes) (p line lastnl : Nat) : Decidable (Good inp p line lastnl) := by
  unfold Good; infer_instance

/-- **lexer_pos_invariant (step).** The bookkeeping step of skipWhiteSpace / lexValue / the block
    comment keeps the bookkeeping true: if it is true at `p`, the rune just read covers `[p, q)`,
    a newline rune is the single byte `'\n'` and any other rune covers no newline byte, then
    after `trackPair r q` it is true at `q`. -/
theorem lexer_pos_invariant_step (inp : Bytes) (p q line lastnl : Nat) (r : Option Nat)
    (hg : Good inp p line lastnl) (hpq : p ≤ q)
    (hnl : r = some 10 → q = p + 1 ∧ inp.getD p 0 = 10)
    (hother : r ≠ some 10 → NoNl inp p q) :
    Good inp q (trackPair r q (line, lastnl)).1 (trackPair r q (line, lastnl)).2 := by
  obtain ⟨h1, h2⟩ := hg
  unfold trackPair
  by_cases hr : r = some 10
  · obtain ⟨rfl, h10⟩ := hnl hr
    simp [hr, Good, nlBefore, lineStart, h10, h1]
  · obtain ⟨e1, e2⟩ := nlBefore_noNl' hpq (hother hr)
    simp [hr, Good, e1, e2, h1, h2]

example : Good #[97, 10, 98] 1 0 0 ∧
    Good #[97, 10, 98] 2 (trackPair (some 10) 2 (0, 0)).1 (trackPair (some 10) 2 (0, 0)).2 := by
  decide

/-- The same step on the lexer state: `L.track` after a rune that ended at `l.pos`. -/
theorem track_good (l : L) (p : Nat) (r : Option Nat)
    (hg : Good l.inp p l.line l.lastnl) (hpq : p ≤ l.pos)
    (hnl : r = some 10 → l.pos = p + 1 ∧ l.inp.getD p 0 = 10)
    (hother : r ≠ some 10 → NoNl l.inp p l.pos) :
    StateGood (l.track r) := by
  have := lexer_pos_invariant_step l.inp p l.pos l.line l.lastnl r hg hpq hnl hother
  simpa [StateGood, L.track] using this

/-- **token_positions_true (stamp).** A token stamped while the bookkeeping is true at the
    token's start carries the true line and column of its first byte. -/
theorem stamp_true (l : L) (hg : Good l.inp l.start l.line l.lastnl) :
    l.stamp = (lineOf l.inp l.start, colOf l.inp l.start) := by
  obtain ⟨h1, h2⟩ := hg
  simp [L.stamp, lineOf, colOf, h1, h2]

/-- … and that is what `emit` (emitToken / emitTokenAndValue / emitError) writes: the token
    appended last has `pos = start` and the stamped line / column; nothing else about the
    state's position changes. -/
theorem emit_token (l : L) (id : Nat) (val : List Nat) (ident ae : Bool) :
    (l.emit id val ident ae).toks = l.toks.push
      { id := id, pos := l.start, val := val, identifier := ident, allowEscapes := ae,
        prefixNl := l.skippedNl, line := l.stamp.1, col := l.stamp.2 } ∧
    (l.emit id val ident ae).pos = l.pos ∧ (l.emit id val ident ae).line = l.line ∧
    (l.emit id val ident ae).lastnl = l.lastnl := by
  simp [L.emit]

/-- **token_positions_true_partial (the `#` branch).** What the `#` comment branch does at its
    terminating newline (`line++`, nothing else): the line stays true, but `lastnl` is left
    strictly *before* the true line start — every token stamped before the next tracked newline
    gets a column that is too large. -/
theorem hash_branch_line_true_column_stale (l : L) (p : Nat)
    (hg : Good l.inp p l.line l.lastnl) (h10 : l.inp.getD p 0 = 10) :
    l.hashEnd.line = nlBefore l.inp (p + 1) ∧
    l.hashEnd.lastnl < lineStart l.inp (p + 1) := by
  obtain ⟨h1, h2⟩ := hg
  have := lineStart_le l.inp p
  simp [L.hashEnd, nlBefore, lineStart, h10, h1, h2]
  omega

/-- … while stamping with a stale `lastnl` still gives the true *line*. -/
theorem stamp_line_true (l : L) (h1 : l.line = nlBefore l.inp l.start) :
    l.stamp.1 = lineOf l.inp l.start := by
  simp [L.stamp, lineOf, h1]

end Ecal.Lex.Steps
