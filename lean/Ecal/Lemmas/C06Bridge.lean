import Ecal.Model.ParserWFS
import Ecal.Lemmas.C06NoPanic
/-!
C06 — the bridge from the parser: every strictly well-formed tree (`WellFormedS`, what C07 proves for every
tree the parser returns) is in the fragment `Frag` of the no-panic theorem.
-/
namespace Ecal.Lemmas.C06
open Ecal.Parse Ecal.Ev
open Ecal.Lex (Tok)

mutual
def nsize : Node → Nat
  | .mk _ _ _ _ _ cs _ => 1 + ksize cs
def ksize : List (Option Node) → Nat
  | [] => 0
  | none :: r => 1 + ksize r
  | some c :: r => 1 + nsize c + ksize r
end

theorem ksize_mem : ∀ (kids : List Node) (c : Node), c ∈ kids → nsize c < ksize (kids.map some) + 1
  | [], _, h => by cases h
  | k :: ks, c, h => by
    simp only [List.map_cons, ksize]
    simp only [List.mem_cons] at h
    rcases h with h | h
    · subst h; omega
    · have := ksize_mem ks c h; omega

theorem kidsWFS_spec : ∀ (cs : List (Option Node)), kidsWFS cs = true →
    ∃ kids : List Node, cs = kids.map some ∧ ∀ c, c ∈ kids → WellFormedS c = true
  | [], _ => ⟨[], rfl, (by intro c h; cases h)⟩
  | none :: _, h => by simp [kidsWFS] at h
  | some c :: r, h => by
    simp only [kidsWFS, Bool.and_eq_true] at h
    obtain ⟨kids, hk, hp⟩ := kidsWFS_spec r h.2
    refine ⟨c :: kids, by simp [hk], ?_⟩
    intro d hd
    simp only [List.mem_cons] at hd
    rcases hd with hd | hd
    · subst hd; exact h.1
    · exact hp d hd

/-- what a parent's shape clause knows about a child -/
def sg (c : Node) : SigS := (c.name, c.children.length, c.tok.isSome)

theorem sigs_map (kids : List Node) : (kids.map some).map sigOfS = kids.map sg := by
  induction kids with
  | nil => rfl
  | cons k ks ih => simp [sigOfS, sg, ih]

theorem opOk_spec (kids : List Node) (h : opOk (kids.map sg) = true) : ∀ c, c ∈ kids → ∃ t, c.tok = some t := by
  intro c hc
  simp only [opOk, List.all_map, List.all_eq_true] at h
  exact Option.isSome_iff_exists.mp (by simpa [sg] using h c hc)

/-- the token condition a parent guarantees for a child in a `Frag` position -/
def TokOK (n : Node) : Prop :=
  (∃ t, n.tok = some t) ∨ n.name = "statements" ∨ n.name = "guard" ∨ n.name = "true"

theorem kindOf_terminal {nm : String} (h : kindOf nm = .terminal) :
    nm = "string" ∨ nm = "number" ∨ nm = "true" ∨ nm = "false" ∨ nm = "null" ∨ nm = "break"
     ∨ nm = "continue" ∨ nm = "EOF" := by
  unfold kindOf at h
  by_cases c0 : nm = "string" ∨ nm = "number" ∨ nm = "true" ∨ nm = "false" ∨ nm = "null" ∨ nm = "break"
     ∨ nm = "continue" ∨ nm = "EOF"
  · exact c0
  rw [if_neg c0] at h
  by_cases c1 : nm = ">=" ∨ nm = "<=" ∨ nm = "!=" ∨ nm = "==" ∨ nm = ">" ∨ nm = "<" ∨ nm = "kvp"
     ∨ nm = "preset" ∨ nm = "times" ∨ nm = "div" ∨ nm = "divint" ∨ nm = "modint" ∨ nm = ":="
     ∨ nm = "and" ∨ nm = "or" ∨ nm = "like" ∨ nm = "in" ∨ nm = "hasprefix" ∨ nm = "hassuffix"
     ∨ nm = "notin"
  · rw [if_pos c1] at h; cases h
  rw [if_neg c1] at h
  by_cases c2 : nm = "plus" ∨ nm = "minus"
  · rw [if_pos c2] at h; cases h
  rw [if_neg c2] at h
  by_cases c3 : nm = "let" ∨ nm = "not" ∨ nm = "kindmatch" ∨ nm = "scopematch" ∨ nm = "statematch"
     ∨ nm = "priority" ∨ nm = "suppresses"
  · rw [if_pos c3] at h; cases h
  rw [if_neg c3] at h
  by_cases c4 : nm = "import"
  · rw [if_pos c4] at h; cases h
  rw [if_neg c4] at h
  by_cases c5 : nm = "identifier"
  · rw [if_pos c5] at h; cases h
  rw [if_neg c5] at h
  by_cases c6 : nm = "compaccess" ∨ nm = "guard" ∨ nm = "as"
  · rw [if_pos c6] at h; cases h
  rw [if_neg c6] at h
  by_cases c7 : nm = "return"
  · rw [if_pos c7] at h; cases h
  rw [if_neg c7] at h
  by_cases c8 : nm = "if"
  · rw [if_pos c8] at h; cases h
  rw [if_neg c8] at h
  by_cases c9 : nm = "loop"
  · rw [if_pos c9] at h; cases h
  rw [if_neg c9] at h
  by_cases c10 : nm = "try"
  · rw [if_pos c10] at h; cases h
  rw [if_neg c10] at h
  by_cases c11 : nm = "except"
  · rw [if_pos c11] at h; cases h
  rw [if_neg c11] at h
  by_cases c12 : nm = "otherwise" ∨ nm = "finally"
  · rw [if_pos c12] at h; cases h
  rw [if_neg c12] at h
  by_cases c13 : nm = "function"
  · rw [if_pos c13] at h; cases h
  rw [if_neg c13] at h
  by_cases c14 : nm = "sink"
  · rw [if_pos c14] at h; cases h
  rw [if_neg c14] at h
  by_cases c15 : nm = "mutex"
  · rw [if_pos c15] at h; cases h
  rw [if_neg c15] at h
  by_cases c16 : nm = "list" ∨ nm = "map" ∨ nm = "funccall" ∨ nm = "params" ∨ nm = "statements"
  · rw [if_pos c16] at h; cases h
  rw [if_neg c16] at h
  cases h
theorem kindOf_binary {nm : String} (h : kindOf nm = .binary) :
    nm = ">=" ∨ nm = "<=" ∨ nm = "!=" ∨ nm = "==" ∨ nm = ">" ∨ nm = "<" ∨ nm = "kvp"
     ∨ nm = "preset" ∨ nm = "times" ∨ nm = "div" ∨ nm = "divint" ∨ nm = "modint" ∨ nm = ":="
     ∨ nm = "and" ∨ nm = "or" ∨ nm = "like" ∨ nm = "in" ∨ nm = "hasprefix" ∨ nm = "hassuffix"
     ∨ nm = "notin" := by
  unfold kindOf at h
  by_cases c0 : nm = "string" ∨ nm = "number" ∨ nm = "true" ∨ nm = "false" ∨ nm = "null" ∨ nm = "break"
     ∨ nm = "continue" ∨ nm = "EOF"
  · rw [if_pos c0] at h; cases h
  rw [if_neg c0] at h
  by_cases c1 : nm = ">=" ∨ nm = "<=" ∨ nm = "!=" ∨ nm = "==" ∨ nm = ">" ∨ nm = "<" ∨ nm = "kvp"
     ∨ nm = "preset" ∨ nm = "times" ∨ nm = "div" ∨ nm = "divint" ∨ nm = "modint" ∨ nm = ":="
     ∨ nm = "and" ∨ nm = "or" ∨ nm = "like" ∨ nm = "in" ∨ nm = "hasprefix" ∨ nm = "hassuffix"
     ∨ nm = "notin"
  · exact c1
  rw [if_neg c1] at h
  by_cases c2 : nm = "plus" ∨ nm = "minus"
  · rw [if_pos c2] at h; cases h
  rw [if_neg c2] at h
  by_cases c3 : nm = "let" ∨ nm = "not" ∨ nm = "kindmatch" ∨ nm = "scopematch" ∨ nm = "statematch"
     ∨ nm = "priority" ∨ nm = "suppresses"
  · rw [if_pos c3] at h; cases h
  rw [if_neg c3] at h
  by_cases c4 : nm = "import"
  · rw [if_pos c4] at h; cases h
  rw [if_neg c4] at h
  by_cases c5 : nm = "identifier"
  · rw [if_pos c5] at h; cases h
  rw [if_neg c5] at h
  by_cases c6 : nm = "compaccess" ∨ nm = "guard" ∨ nm = "as"
  · rw [if_pos c6] at h; cases h
  rw [if_neg c6] at h
  by_cases c7 : nm = "return"
  · rw [if_pos c7] at h; cases h
  rw [if_neg c7] at h
  by_cases c8 : nm = "if"
  · rw [if_pos c8] at h; cases h
  rw [if_neg c8] at h
  by_cases c9 : nm = "loop"
  · rw [if_pos c9] at h; cases h
  rw [if_neg c9] at h
  by_cases c10 : nm = "try"
  · rw [if_pos c10] at h; cases h
  rw [if_neg c10] at h
  by_cases c11 : nm = "except"
  · rw [if_pos c11] at h; cases h
  rw [if_neg c11] at h
  by_cases c12 : nm = "otherwise" ∨ nm = "finally"
  · rw [if_pos c12] at h; cases h
  rw [if_neg c12] at h
  by_cases c13 : nm = "function"
  · rw [if_pos c13] at h; cases h
  rw [if_neg c13] at h
  by_cases c14 : nm = "sink"
  · rw [if_pos c14] at h; cases h
  rw [if_neg c14] at h
  by_cases c15 : nm = "mutex"
  · rw [if_pos c15] at h; cases h
  rw [if_neg c15] at h
  by_cases c16 : nm = "list" ∨ nm = "map" ∨ nm = "funccall" ∨ nm = "params" ∨ nm = "statements"
  · rw [if_pos c16] at h; cases h
  rw [if_neg c16] at h
  cases h
theorem kindOf_plusminus {nm : String} (h : kindOf nm = .plusminus) :
    nm = "plus" ∨ nm = "minus" := by
  unfold kindOf at h
  by_cases c0 : nm = "string" ∨ nm = "number" ∨ nm = "true" ∨ nm = "false" ∨ nm = "null" ∨ nm = "break"
     ∨ nm = "continue" ∨ nm = "EOF"
  · rw [if_pos c0] at h; cases h
  rw [if_neg c0] at h
  by_cases c1 : nm = ">=" ∨ nm = "<=" ∨ nm = "!=" ∨ nm = "==" ∨ nm = ">" ∨ nm = "<" ∨ nm = "kvp"
     ∨ nm = "preset" ∨ nm = "times" ∨ nm = "div" ∨ nm = "divint" ∨ nm = "modint" ∨ nm = ":="
     ∨ nm = "and" ∨ nm = "or" ∨ nm = "like" ∨ nm = "in" ∨ nm = "hasprefix" ∨ nm = "hassuffix"
     ∨ nm = "notin"
  · rw [if_pos c1] at h; cases h
  rw [if_neg c1] at h
  by_cases c2 : nm = "plus" ∨ nm = "minus"
  · exact c2
  rw [if_neg c2] at h
  by_cases c3 : nm = "let" ∨ nm = "not" ∨ nm = "kindmatch" ∨ nm = "scopematch" ∨ nm = "statematch"
     ∨ nm = "priority" ∨ nm = "suppresses"
  · rw [if_pos c3] at h; cases h
  rw [if_neg c3] at h
  by_cases c4 : nm = "import"
  · rw [if_pos c4] at h; cases h
  rw [if_neg c4] at h
  by_cases c5 : nm = "identifier"
  · rw [if_pos c5] at h; cases h
  rw [if_neg c5] at h
  by_cases c6 : nm = "compaccess" ∨ nm = "guard" ∨ nm = "as"
  · rw [if_pos c6] at h; cases h
  rw [if_neg c6] at h
  by_cases c7 : nm = "return"
  · rw [if_pos c7] at h; cases h
  rw [if_neg c7] at h
  by_cases c8 : nm = "if"
  · rw [if_pos c8] at h; cases h
  rw [if_neg c8] at h
  by_cases c9 : nm = "loop"
  · rw [if_pos c9] at h; cases h
  rw [if_neg c9] at h
  by_cases c10 : nm = "try"
  · rw [if_pos c10] at h; cases h
  rw [if_neg c10] at h
  by_cases c11 : nm = "except"
  · rw [if_pos c11] at h; cases h
  rw [if_neg c11] at h
  by_cases c12 : nm = "otherwise" ∨ nm = "finally"
  · rw [if_pos c12] at h; cases h
  rw [if_neg c12] at h
  by_cases c13 : nm = "function"
  · rw [if_pos c13] at h; cases h
  rw [if_neg c13] at h
  by_cases c14 : nm = "sink"
  · rw [if_pos c14] at h; cases h
  rw [if_neg c14] at h
  by_cases c15 : nm = "mutex"
  · rw [if_pos c15] at h; cases h
  rw [if_neg c15] at h
  by_cases c16 : nm = "list" ∨ nm = "map" ∨ nm = "funccall" ∨ nm = "params" ∨ nm = "statements"
  · rw [if_pos c16] at h; cases h
  rw [if_neg c16] at h
  cases h
theorem kindOf_prefix1 {nm : String} (h : kindOf nm = .prefix1) :
    nm = "let" ∨ nm = "not" ∨ nm = "kindmatch" ∨ nm = "scopematch" ∨ nm = "statematch"
     ∨ nm = "priority" ∨ nm = "suppresses" := by
  unfold kindOf at h
  by_cases c0 : nm = "string" ∨ nm = "number" ∨ nm = "true" ∨ nm = "false" ∨ nm = "null" ∨ nm = "break"
     ∨ nm = "continue" ∨ nm = "EOF"
  · rw [if_pos c0] at h; cases h
  rw [if_neg c0] at h
  by_cases c1 : nm = ">=" ∨ nm = "<=" ∨ nm = "!=" ∨ nm = "==" ∨ nm = ">" ∨ nm = "<" ∨ nm = "kvp"
     ∨ nm = "preset" ∨ nm = "times" ∨ nm = "div" ∨ nm = "divint" ∨ nm = "modint" ∨ nm = ":="
     ∨ nm = "and" ∨ nm = "or" ∨ nm = "like" ∨ nm = "in" ∨ nm = "hasprefix" ∨ nm = "hassuffix"
     ∨ nm = "notin"
  · rw [if_pos c1] at h; cases h
  rw [if_neg c1] at h
  by_cases c2 : nm = "plus" ∨ nm = "minus"
  · rw [if_pos c2] at h; cases h
  rw [if_neg c2] at h
  by_cases c3 : nm = "let" ∨ nm = "not" ∨ nm = "kindmatch" ∨ nm = "scopematch" ∨ nm = "statematch"
     ∨ nm = "priority" ∨ nm = "suppresses"
  · exact c3
  rw [if_neg c3] at h
  by_cases c4 : nm = "import"
  · rw [if_pos c4] at h; cases h
  rw [if_neg c4] at h
  by_cases c5 : nm = "identifier"
  · rw [if_pos c5] at h; cases h
  rw [if_neg c5] at h
  by_cases c6 : nm = "compaccess" ∨ nm = "guard" ∨ nm = "as"
  · rw [if_pos c6] at h; cases h
  rw [if_neg c6] at h
  by_cases c7 : nm = "return"
  · rw [if_pos c7] at h; cases h
  rw [if_neg c7] at h
  by_cases c8 : nm = "if"
  · rw [if_pos c8] at h; cases h
  rw [if_neg c8] at h
  by_cases c9 : nm = "loop"
  · rw [if_pos c9] at h; cases h
  rw [if_neg c9] at h
  by_cases c10 : nm = "try"
  · rw [if_pos c10] at h; cases h
  rw [if_neg c10] at h
  by_cases c11 : nm = "except"
  · rw [if_pos c11] at h; cases h
  rw [if_neg c11] at h
  by_cases c12 : nm = "otherwise" ∨ nm = "finally"
  · rw [if_pos c12] at h; cases h
  rw [if_neg c12] at h
  by_cases c13 : nm = "function"
  · rw [if_pos c13] at h; cases h
  rw [if_neg c13] at h
  by_cases c14 : nm = "sink"
  · rw [if_pos c14] at h; cases h
  rw [if_neg c14] at h
  by_cases c15 : nm = "mutex"
  · rw [if_pos c15] at h; cases h
  rw [if_neg c15] at h
  by_cases c16 : nm = "list" ∨ nm = "map" ∨ nm = "funccall" ∨ nm = "params" ∨ nm = "statements"
  · rw [if_pos c16] at h; cases h
  rw [if_neg c16] at h
  cases h
theorem kindOf_import_ {nm : String} (h : kindOf nm = .import_) :
    nm = "import" := by
  unfold kindOf at h
  by_cases c0 : nm = "string" ∨ nm = "number" ∨ nm = "true" ∨ nm = "false" ∨ nm = "null" ∨ nm = "break"
     ∨ nm = "continue" ∨ nm = "EOF"
  · rw [if_pos c0] at h; cases h
  rw [if_neg c0] at h
  by_cases c1 : nm = ">=" ∨ nm = "<=" ∨ nm = "!=" ∨ nm = "==" ∨ nm = ">" ∨ nm = "<" ∨ nm = "kvp"
     ∨ nm = "preset" ∨ nm = "times" ∨ nm = "div" ∨ nm = "divint" ∨ nm = "modint" ∨ nm = ":="
     ∨ nm = "and" ∨ nm = "or" ∨ nm = "like" ∨ nm = "in" ∨ nm = "hasprefix" ∨ nm = "hassuffix"
     ∨ nm = "notin"
  · rw [if_pos c1] at h; cases h
  rw [if_neg c1] at h
  by_cases c2 : nm = "plus" ∨ nm = "minus"
  · rw [if_pos c2] at h; cases h
  rw [if_neg c2] at h
  by_cases c3 : nm = "let" ∨ nm = "not" ∨ nm = "kindmatch" ∨ nm = "scopematch" ∨ nm = "statematch"
     ∨ nm = "priority" ∨ nm = "suppresses"
  · rw [if_pos c3] at h; cases h
  rw [if_neg c3] at h
  by_cases c4 : nm = "import"
  · exact c4
  rw [if_neg c4] at h
  by_cases c5 : nm = "identifier"
  · rw [if_pos c5] at h; cases h
  rw [if_neg c5] at h
  by_cases c6 : nm = "compaccess" ∨ nm = "guard" ∨ nm = "as"
  · rw [if_pos c6] at h; cases h
  rw [if_neg c6] at h
  by_cases c7 : nm = "return"
  · rw [if_pos c7] at h; cases h
  rw [if_neg c7] at h
  by_cases c8 : nm = "if"
  · rw [if_pos c8] at h; cases h
  rw [if_neg c8] at h
  by_cases c9 : nm = "loop"
  · rw [if_pos c9] at h; cases h
  rw [if_neg c9] at h
  by_cases c10 : nm = "try"
  · rw [if_pos c10] at h; cases h
  rw [if_neg c10] at h
  by_cases c11 : nm = "except"
  · rw [if_pos c11] at h; cases h
  rw [if_neg c11] at h
  by_cases c12 : nm = "otherwise" ∨ nm = "finally"
  · rw [if_pos c12] at h; cases h
  rw [if_neg c12] at h
  by_cases c13 : nm = "function"
  · rw [if_pos c13] at h; cases h
  rw [if_neg c13] at h
  by_cases c14 : nm = "sink"
  · rw [if_pos c14] at h; cases h
  rw [if_neg c14] at h
  by_cases c15 : nm = "mutex"
  · rw [if_pos c15] at h; cases h
  rw [if_neg c15] at h
  by_cases c16 : nm = "list" ∨ nm = "map" ∨ nm = "funccall" ∨ nm = "params" ∨ nm = "statements"
  · rw [if_pos c16] at h; cases h
  rw [if_neg c16] at h
  cases h
theorem kindOf_identifier {nm : String} (h : kindOf nm = .identifier) :
    nm = "identifier" := by
  unfold kindOf at h
  by_cases c0 : nm = "string" ∨ nm = "number" ∨ nm = "true" ∨ nm = "false" ∨ nm = "null" ∨ nm = "break"
     ∨ nm = "continue" ∨ nm = "EOF"
  · rw [if_pos c0] at h; cases h
  rw [if_neg c0] at h
  by_cases c1 : nm = ">=" ∨ nm = "<=" ∨ nm = "!=" ∨ nm = "==" ∨ nm = ">" ∨ nm = "<" ∨ nm = "kvp"
     ∨ nm = "preset" ∨ nm = "times" ∨ nm = "div" ∨ nm = "divint" ∨ nm = "modint" ∨ nm = ":="
     ∨ nm = "and" ∨ nm = "or" ∨ nm = "like" ∨ nm = "in" ∨ nm = "hasprefix" ∨ nm = "hassuffix"
     ∨ nm = "notin"
  · rw [if_pos c1] at h; cases h
  rw [if_neg c1] at h
  by_cases c2 : nm = "plus" ∨ nm = "minus"
  · rw [if_pos c2] at h; cases h
  rw [if_neg c2] at h
  by_cases c3 : nm = "let" ∨ nm = "not" ∨ nm = "kindmatch" ∨ nm = "scopematch" ∨ nm = "statematch"
     ∨ nm = "priority" ∨ nm = "suppresses"
  · rw [if_pos c3] at h; cases h
  rw [if_neg c3] at h
  by_cases c4 : nm = "import"
  · rw [if_pos c4] at h; cases h
  rw [if_neg c4] at h
  by_cases c5 : nm = "identifier"
  · exact c5
  rw [if_neg c5] at h
  by_cases c6 : nm = "compaccess" ∨ nm = "guard" ∨ nm = "as"
  · rw [if_pos c6] at h; cases h
  rw [if_neg c6] at h
  by_cases c7 : nm = "return"
  · rw [if_pos c7] at h; cases h
  rw [if_neg c7] at h
  by_cases c8 : nm = "if"
  · rw [if_pos c8] at h; cases h
  rw [if_neg c8] at h
  by_cases c9 : nm = "loop"
  · rw [if_pos c9] at h; cases h
  rw [if_neg c9] at h
  by_cases c10 : nm = "try"
  · rw [if_pos c10] at h; cases h
  rw [if_neg c10] at h
  by_cases c11 : nm = "except"
  · rw [if_pos c11] at h; cases h
  rw [if_neg c11] at h
  by_cases c12 : nm = "otherwise" ∨ nm = "finally"
  · rw [if_pos c12] at h; cases h
  rw [if_neg c12] at h
  by_cases c13 : nm = "function"
  · rw [if_pos c13] at h; cases h
  rw [if_neg c13] at h
  by_cases c14 : nm = "sink"
  · rw [if_pos c14] at h; cases h
  rw [if_neg c14] at h
  by_cases c15 : nm = "mutex"
  · rw [if_pos c15] at h; cases h
  rw [if_neg c15] at h
  by_cases c16 : nm = "list" ∨ nm = "map" ∨ nm = "funccall" ∨ nm = "params" ∨ nm = "statements"
  · rw [if_pos c16] at h; cases h
  rw [if_neg c16] at h
  cases h
theorem kindOf_one {nm : String} (h : kindOf nm = .one) :
    nm = "compaccess" ∨ nm = "guard" ∨ nm = "as" := by
  unfold kindOf at h
  by_cases c0 : nm = "string" ∨ nm = "number" ∨ nm = "true" ∨ nm = "false" ∨ nm = "null" ∨ nm = "break"
     ∨ nm = "continue" ∨ nm = "EOF"
  · rw [if_pos c0] at h; cases h
  rw [if_neg c0] at h
  by_cases c1 : nm = ">=" ∨ nm = "<=" ∨ nm = "!=" ∨ nm = "==" ∨ nm = ">" ∨ nm = "<" ∨ nm = "kvp"
     ∨ nm = "preset" ∨ nm = "times" ∨ nm = "div" ∨ nm = "divint" ∨ nm = "modint" ∨ nm = ":="
     ∨ nm = "and" ∨ nm = "or" ∨ nm = "like" ∨ nm = "in" ∨ nm = "hasprefix" ∨ nm = "hassuffix"
     ∨ nm = "notin"
  · rw [if_pos c1] at h; cases h
  rw [if_neg c1] at h
  by_cases c2 : nm = "plus" ∨ nm = "minus"
  · rw [if_pos c2] at h; cases h
  rw [if_neg c2] at h
  by_cases c3 : nm = "let" ∨ nm = "not" ∨ nm = "kindmatch" ∨ nm = "scopematch" ∨ nm = "statematch"
     ∨ nm = "priority" ∨ nm = "suppresses"
  · rw [if_pos c3] at h; cases h
  rw [if_neg c3] at h
  by_cases c4 : nm = "import"
  · rw [if_pos c4] at h; cases h
  rw [if_neg c4] at h
  by_cases c5 : nm = "identifier"
  · rw [if_pos c5] at h; cases h
  rw [if_neg c5] at h
  by_cases c6 : nm = "compaccess" ∨ nm = "guard" ∨ nm = "as"
  · exact c6
  rw [if_neg c6] at h
  by_cases c7 : nm = "return"
  · rw [if_pos c7] at h; cases h
  rw [if_neg c7] at h
  by_cases c8 : nm = "if"
  · rw [if_pos c8] at h; cases h
  rw [if_neg c8] at h
  by_cases c9 : nm = "loop"
  · rw [if_pos c9] at h; cases h
  rw [if_neg c9] at h
  by_cases c10 : nm = "try"
  · rw [if_pos c10] at h; cases h
  rw [if_neg c10] at h
  by_cases c11 : nm = "except"
  · rw [if_pos c11] at h; cases h
  rw [if_neg c11] at h
  by_cases c12 : nm = "otherwise" ∨ nm = "finally"
  · rw [if_pos c12] at h; cases h
  rw [if_neg c12] at h
  by_cases c13 : nm = "function"
  · rw [if_pos c13] at h; cases h
  rw [if_neg c13] at h
  by_cases c14 : nm = "sink"
  · rw [if_pos c14] at h; cases h
  rw [if_neg c14] at h
  by_cases c15 : nm = "mutex"
  · rw [if_pos c15] at h; cases h
  rw [if_neg c15] at h
  by_cases c16 : nm = "list" ∨ nm = "map" ∨ nm = "funccall" ∨ nm = "params" ∨ nm = "statements"
  · rw [if_pos c16] at h; cases h
  rw [if_neg c16] at h
  cases h
theorem kindOf_return_ {nm : String} (h : kindOf nm = .return_) :
    nm = "return" := by
  unfold kindOf at h
  by_cases c0 : nm = "string" ∨ nm = "number" ∨ nm = "true" ∨ nm = "false" ∨ nm = "null" ∨ nm = "break"
     ∨ nm = "continue" ∨ nm = "EOF"
  · rw [if_pos c0] at h; cases h
  rw [if_neg c0] at h
  by_cases c1 : nm = ">=" ∨ nm = "<=" ∨ nm = "!=" ∨ nm = "==" ∨ nm = ">" ∨ nm = "<" ∨ nm = "kvp"
     ∨ nm = "preset" ∨ nm = "times" ∨ nm = "div" ∨ nm = "divint" ∨ nm = "modint" ∨ nm = ":="
     ∨ nm = "and" ∨ nm = "or" ∨ nm = "like" ∨ nm = "in" ∨ nm = "hasprefix" ∨ nm = "hassuffix"
     ∨ nm = "notin"
  · rw [if_pos c1] at h; cases h
  rw [if_neg c1] at h
  by_cases c2 : nm = "plus" ∨ nm = "minus"
  · rw [if_pos c2] at h; cases h
  rw [if_neg c2] at h
  by_cases c3 : nm = "let" ∨ nm = "not" ∨ nm = "kindmatch" ∨ nm = "scopematch" ∨ nm = "statematch"
     ∨ nm = "priority" ∨ nm = "suppresses"
  · rw [if_pos c3] at h; cases h
  rw [if_neg c3] at h
  by_cases c4 : nm = "import"
  · rw [if_pos c4] at h; cases h
  rw [if_neg c4] at h
  by_cases c5 : nm = "identifier"
  · rw [if_pos c5] at h; cases h
  rw [if_neg c5] at h
  by_cases c6 : nm = "compaccess" ∨ nm = "guard" ∨ nm = "as"
  · rw [if_pos c6] at h; cases h
  rw [if_neg c6] at h
  by_cases c7 : nm = "return"
  · exact c7
  rw [if_neg c7] at h
  by_cases c8 : nm = "if"
  · rw [if_pos c8] at h; cases h
  rw [if_neg c8] at h
  by_cases c9 : nm = "loop"
  · rw [if_pos c9] at h; cases h
  rw [if_neg c9] at h
  by_cases c10 : nm = "try"
  · rw [if_pos c10] at h; cases h
  rw [if_neg c10] at h
  by_cases c11 : nm = "except"
  · rw [if_pos c11] at h; cases h
  rw [if_neg c11] at h
  by_cases c12 : nm = "otherwise" ∨ nm = "finally"
  · rw [if_pos c12] at h; cases h
  rw [if_neg c12] at h
  by_cases c13 : nm = "function"
  · rw [if_pos c13] at h; cases h
  rw [if_neg c13] at h
  by_cases c14 : nm = "sink"
  · rw [if_pos c14] at h; cases h
  rw [if_neg c14] at h
  by_cases c15 : nm = "mutex"
  · rw [if_pos c15] at h; cases h
  rw [if_neg c15] at h
  by_cases c16 : nm = "list" ∨ nm = "map" ∨ nm = "funccall" ∨ nm = "params" ∨ nm = "statements"
  · rw [if_pos c16] at h; cases h
  rw [if_neg c16] at h
  cases h
theorem kindOf_if_ {nm : String} (h : kindOf nm = .if_) :
    nm = "if" := by
  unfold kindOf at h
  by_cases c0 : nm = "string" ∨ nm = "number" ∨ nm = "true" ∨ nm = "false" ∨ nm = "null" ∨ nm = "break"
     ∨ nm = "continue" ∨ nm = "EOF"
  · rw [if_pos c0] at h; cases h
  rw [if_neg c0] at h
  by_cases c1 : nm = ">=" ∨ nm = "<=" ∨ nm = "!=" ∨ nm = "==" ∨ nm = ">" ∨ nm = "<" ∨ nm = "kvp"
     ∨ nm = "preset" ∨ nm = "times" ∨ nm = "div" ∨ nm = "divint" ∨ nm = "modint" ∨ nm = ":="
     ∨ nm = "and" ∨ nm = "or" ∨ nm = "like" ∨ nm = "in" ∨ nm = "hasprefix" ∨ nm = "hassuffix"
     ∨ nm = "notin"
  · rw [if_pos c1] at h; cases h
  rw [if_neg c1] at h
  by_cases c2 : nm = "plus" ∨ nm = "minus"
  · rw [if_pos c2] at h; cases h
  rw [if_neg c2] at h
  by_cases c3 : nm = "let" ∨ nm = "not" ∨ nm = "kindmatch" ∨ nm = "scopematch" ∨ nm = "statematch"
     ∨ nm = "priority" ∨ nm = "suppresses"
  · rw [if_pos c3] at h; cases h
  rw [if_neg c3] at h
  by_cases c4 : nm = "import"
  · rw [if_pos c4] at h; cases h
  rw [if_neg c4] at h
  by_cases c5 : nm = "identifier"
  · rw [if_pos c5] at h; cases h
  rw [if_neg c5] at h
  by_cases c6 : nm = "compaccess" ∨ nm = "guard" ∨ nm = "as"
  · rw [if_pos c6] at h; cases h
  rw [if_neg c6] at h
  by_cases c7 : nm = "return"
  · rw [if_pos c7] at h; cases h
  rw [if_neg c7] at h
  by_cases c8 : nm = "if"
  · exact c8
  rw [if_neg c8] at h
  by_cases c9 : nm = "loop"
  · rw [if_pos c9] at h; cases h
  rw [if_neg c9] at h
  by_cases c10 : nm = "try"
  · rw [if_pos c10] at h; cases h
  rw [if_neg c10] at h
  by_cases c11 : nm = "except"
  · rw [if_pos c11] at h; cases h
  rw [if_neg c11] at h
  by_cases c12 : nm = "otherwise" ∨ nm = "finally"
  · rw [if_pos c12] at h; cases h
  rw [if_neg c12] at h
  by_cases c13 : nm = "function"
  · rw [if_pos c13] at h; cases h
  rw [if_neg c13] at h
  by_cases c14 : nm = "sink"
  · rw [if_pos c14] at h; cases h
  rw [if_neg c14] at h
  by_cases c15 : nm = "mutex"
  · rw [if_pos c15] at h; cases h
  rw [if_neg c15] at h
  by_cases c16 : nm = "list" ∨ nm = "map" ∨ nm = "funccall" ∨ nm = "params" ∨ nm = "statements"
  · rw [if_pos c16] at h; cases h
  rw [if_neg c16] at h
  cases h
theorem kindOf_loop {nm : String} (h : kindOf nm = .loop) :
    nm = "loop" := by
  unfold kindOf at h
  by_cases c0 : nm = "string" ∨ nm = "number" ∨ nm = "true" ∨ nm = "false" ∨ nm = "null" ∨ nm = "break"
     ∨ nm = "continue" ∨ nm = "EOF"
  · rw [if_pos c0] at h; cases h
  rw [if_neg c0] at h
  by_cases c1 : nm = ">=" ∨ nm = "<=" ∨ nm = "!=" ∨ nm = "==" ∨ nm = ">" ∨ nm = "<" ∨ nm = "kvp"
     ∨ nm = "preset" ∨ nm = "times" ∨ nm = "div" ∨ nm = "divint" ∨ nm = "modint" ∨ nm = ":="
     ∨ nm = "and" ∨ nm = "or" ∨ nm = "like" ∨ nm = "in" ∨ nm = "hasprefix" ∨ nm = "hassuffix"
     ∨ nm = "notin"
  · rw [if_pos c1] at h; cases h
  rw [if_neg c1] at h
  by_cases c2 : nm = "plus" ∨ nm = "minus"
  · rw [if_pos c2] at h; cases h
  rw [if_neg c2] at h
  by_cases c3 : nm = "let" ∨ nm = "not" ∨ nm = "kindmatch" ∨ nm = "scopematch" ∨ nm = "statematch"
     ∨ nm = "priority" ∨ nm = "suppresses"
  · rw [if_pos c3] at h; cases h
  rw [if_neg c3] at h
  by_cases c4 : nm = "import"
  · rw [if_pos c4] at h; cases h
  rw [if_neg c4] at h
  by_cases c5 : nm = "identifier"
  · rw [if_pos c5] at h; cases h
  rw [if_neg c5] at h
  by_cases c6 : nm = "compaccess" ∨ nm = "guard" ∨ nm = "as"
  · rw [if_pos c6] at h; cases h
  rw [if_neg c6] at h
  by_cases c7 : nm = "return"
  · rw [if_pos c7] at h; cases h
  rw [if_neg c7] at h
  by_cases c8 : nm = "if"
  · rw [if_pos c8] at h; cases h
  rw [if_neg c8] at h
  by_cases c9 : nm = "loop"
  · exact c9
  rw [if_neg c9] at h
  by_cases c10 : nm = "try"
  · rw [if_pos c10] at h; cases h
  rw [if_neg c10] at h
  by_cases c11 : nm = "except"
  · rw [if_pos c11] at h; cases h
  rw [if_neg c11] at h
  by_cases c12 : nm = "otherwise" ∨ nm = "finally"
  · rw [if_pos c12] at h; cases h
  rw [if_neg c12] at h
  by_cases c13 : nm = "function"
  · rw [if_pos c13] at h; cases h
  rw [if_neg c13] at h
  by_cases c14 : nm = "sink"
  · rw [if_pos c14] at h; cases h
  rw [if_neg c14] at h
  by_cases c15 : nm = "mutex"
  · rw [if_pos c15] at h; cases h
  rw [if_neg c15] at h
  by_cases c16 : nm = "list" ∨ nm = "map" ∨ nm = "funccall" ∨ nm = "params" ∨ nm = "statements"
  · rw [if_pos c16] at h; cases h
  rw [if_neg c16] at h
  cases h
theorem kindOf_try_ {nm : String} (h : kindOf nm = .try_) :
    nm = "try" := by
  unfold kindOf at h
  by_cases c0 : nm = "string" ∨ nm = "number" ∨ nm = "true" ∨ nm = "false" ∨ nm = "null" ∨ nm = "break"
     ∨ nm = "continue" ∨ nm = "EOF"
  · rw [if_pos c0] at h; cases h
  rw [if_neg c0] at h
  by_cases c1 : nm = ">=" ∨ nm = "<=" ∨ nm = "!=" ∨ nm = "==" ∨ nm = ">" ∨ nm = "<" ∨ nm = "kvp"
     ∨ nm = "preset" ∨ nm = "times" ∨ nm = "div" ∨ nm = "divint" ∨ nm = "modint" ∨ nm = ":="
     ∨ nm = "and" ∨ nm = "or" ∨ nm = "like" ∨ nm = "in" ∨ nm = "hasprefix" ∨ nm = "hassuffix"
     ∨ nm = "notin"
  · rw [if_pos c1] at h; cases h
  rw [if_neg c1] at h
  by_cases c2 : nm = "plus" ∨ nm = "minus"
  · rw [if_pos c2] at h; cases h
  rw [if_neg c2] at h
  by_cases c3 : nm = "let" ∨ nm = "not" ∨ nm = "kindmatch" ∨ nm = "scopematch" ∨ nm = "statematch"
     ∨ nm = "priority" ∨ nm = "suppresses"
  · rw [if_pos c3] at h; cases h
  rw [if_neg c3] at h
  by_cases c4 : nm = "import"
  · rw [if_pos c4] at h; cases h
  rw [if_neg c4] at h
  by_cases c5 : nm = "identifier"
  · rw [if_pos c5] at h; cases h
  rw [if_neg c5] at h
  by_cases c6 : nm = "compaccess" ∨ nm = "guard" ∨ nm = "as"
  · rw [if_pos c6] at h; cases h
  rw [if_neg c6] at h
  by_cases c7 : nm = "return"
  · rw [if_pos c7] at h; cases h
  rw [if_neg c7] at h
  by_cases c8 : nm = "if"
  · rw [if_pos c8] at h; cases h
  rw [if_neg c8] at h
  by_cases c9 : nm = "loop"
  · rw [if_pos c9] at h; cases h
  rw [if_neg c9] at h
  by_cases c10 : nm = "try"
  · exact c10
  rw [if_neg c10] at h
  by_cases c11 : nm = "except"
  · rw [if_pos c11] at h; cases h
  rw [if_neg c11] at h
  by_cases c12 : nm = "otherwise" ∨ nm = "finally"
  · rw [if_pos c12] at h; cases h
  rw [if_neg c12] at h
  by_cases c13 : nm = "function"
  · rw [if_pos c13] at h; cases h
  rw [if_neg c13] at h
  by_cases c14 : nm = "sink"
  · rw [if_pos c14] at h; cases h
  rw [if_neg c14] at h
  by_cases c15 : nm = "mutex"
  · rw [if_pos c15] at h; cases h
  rw [if_neg c15] at h
  by_cases c16 : nm = "list" ∨ nm = "map" ∨ nm = "funccall" ∨ nm = "params" ∨ nm = "statements"
  · rw [if_pos c16] at h; cases h
  rw [if_neg c16] at h
  cases h
theorem kindOf_except {nm : String} (h : kindOf nm = .except) :
    nm = "except" := by
  unfold kindOf at h
  by_cases c0 : nm = "string" ∨ nm = "number" ∨ nm = "true" ∨ nm = "false" ∨ nm = "null" ∨ nm = "break"
     ∨ nm = "continue" ∨ nm = "EOF"
  · rw [if_pos c0] at h; cases h
  rw [if_neg c0] at h
  by_cases c1 : nm = ">=" ∨ nm = "<=" ∨ nm = "!=" ∨ nm = "==" ∨ nm = ">" ∨ nm = "<" ∨ nm = "kvp"
     ∨ nm = "preset" ∨ nm = "times" ∨ nm = "div" ∨ nm = "divint" ∨ nm = "modint" ∨ nm = ":="
     ∨ nm = "and" ∨ nm = "or" ∨ nm = "like" ∨ nm = "in" ∨ nm = "hasprefix" ∨ nm = "hassuffix"
     ∨ nm = "notin"
  · rw [if_pos c1] at h; cases h
  rw [if_neg c1] at h
  by_cases c2 : nm = "plus" ∨ nm = "minus"
  · rw [if_pos c2] at h; cases h
  rw [if_neg c2] at h
  by_cases c3 : nm = "let" ∨ nm = "not" ∨ nm = "kindmatch" ∨ nm = "scopematch" ∨ nm = "statematch"
     ∨ nm = "priority" ∨ nm = "suppresses"
  · rw [if_pos c3] at h; cases h
  rw [if_neg c3] at h
  by_cases c4 : nm = "import"
  · rw [if_pos c4] at h; cases h
  rw [if_neg c4] at h
  by_cases c5 : nm = "identifier"
  · rw [if_pos c5] at h; cases h
  rw [if_neg c5] at h
  by_cases c6 : nm = "compaccess" ∨ nm = "guard" ∨ nm = "as"
  · rw [if_pos c6] at h; cases h
  rw [if_neg c6] at h
  by_cases c7 : nm = "return"
  · rw [if_pos c7] at h; cases h
  rw [if_neg c7] at h
  by_cases c8 : nm = "if"
  · rw [if_pos c8] at h; cases h
  rw [if_neg c8] at h
  by_cases c9 : nm = "loop"
  · rw [if_pos c9] at h; cases h
  rw [if_neg c9] at h
  by_cases c10 : nm = "try"
  · rw [if_pos c10] at h; cases h
  rw [if_neg c10] at h
  by_cases c11 : nm = "except"
  · exact c11
  rw [if_neg c11] at h
  by_cases c12 : nm = "otherwise" ∨ nm = "finally"
  · rw [if_pos c12] at h; cases h
  rw [if_neg c12] at h
  by_cases c13 : nm = "function"
  · rw [if_pos c13] at h; cases h
  rw [if_neg c13] at h
  by_cases c14 : nm = "sink"
  · rw [if_pos c14] at h; cases h
  rw [if_neg c14] at h
  by_cases c15 : nm = "mutex"
  · rw [if_pos c15] at h; cases h
  rw [if_neg c15] at h
  by_cases c16 : nm = "list" ∨ nm = "map" ∨ nm = "funccall" ∨ nm = "params" ∨ nm = "statements"
  · rw [if_pos c16] at h; cases h
  rw [if_neg c16] at h
  cases h
theorem kindOf_blockOnly {nm : String} (h : kindOf nm = .blockOnly) :
    nm = "otherwise" ∨ nm = "finally" := by
  unfold kindOf at h
  by_cases c0 : nm = "string" ∨ nm = "number" ∨ nm = "true" ∨ nm = "false" ∨ nm = "null" ∨ nm = "break"
     ∨ nm = "continue" ∨ nm = "EOF"
  · rw [if_pos c0] at h; cases h
  rw [if_neg c0] at h
  by_cases c1 : nm = ">=" ∨ nm = "<=" ∨ nm = "!=" ∨ nm = "==" ∨ nm = ">" ∨ nm = "<" ∨ nm = "kvp"
     ∨ nm = "preset" ∨ nm = "times" ∨ nm = "div" ∨ nm = "divint" ∨ nm = "modint" ∨ nm = ":="
     ∨ nm = "and" ∨ nm = "or" ∨ nm = "like" ∨ nm = "in" ∨ nm = "hasprefix" ∨ nm = "hassuffix"
     ∨ nm = "notin"
  · rw [if_pos c1] at h; cases h
  rw [if_neg c1] at h
  by_cases c2 : nm = "plus" ∨ nm = "minus"
  · rw [if_pos c2] at h; cases h
  rw [if_neg c2] at h
  by_cases c3 : nm = "let" ∨ nm = "not" ∨ nm = "kindmatch" ∨ nm = "scopematch" ∨ nm = "statematch"
     ∨ nm = "priority" ∨ nm = "suppresses"
  · rw [if_pos c3] at h; cases h
  rw [if_neg c3] at h
  by_cases c4 : nm = "import"
  · rw [if_pos c4] at h; cases h
  rw [if_neg c4] at h
  by_cases c5 : nm = "identifier"
  · rw [if_pos c5] at h; cases h
  rw [if_neg c5] at h
  by_cases c6 : nm = "compaccess" ∨ nm = "guard" ∨ nm = "as"
  · rw [if_pos c6] at h; cases h
  rw [if_neg c6] at h
  by_cases c7 : nm = "return"
  · rw [if_pos c7] at h; cases h
  rw [if_neg c7] at h
  by_cases c8 : nm = "if"
  · rw [if_pos c8] at h; cases h
  rw [if_neg c8] at h
  by_cases c9 : nm = "loop"
  · rw [if_pos c9] at h; cases h
  rw [if_neg c9] at h
  by_cases c10 : nm = "try"
  · rw [if_pos c10] at h; cases h
  rw [if_neg c10] at h
  by_cases c11 : nm = "except"
  · rw [if_pos c11] at h; cases h
  rw [if_neg c11] at h
  by_cases c12 : nm = "otherwise" ∨ nm = "finally"
  · exact c12
  rw [if_neg c12] at h
  by_cases c13 : nm = "function"
  · rw [if_pos c13] at h; cases h
  rw [if_neg c13] at h
  by_cases c14 : nm = "sink"
  · rw [if_pos c14] at h; cases h
  rw [if_neg c14] at h
  by_cases c15 : nm = "mutex"
  · rw [if_pos c15] at h; cases h
  rw [if_neg c15] at h
  by_cases c16 : nm = "list" ∨ nm = "map" ∨ nm = "funccall" ∨ nm = "params" ∨ nm = "statements"
  · rw [if_pos c16] at h; cases h
  rw [if_neg c16] at h
  cases h
theorem kindOf_function {nm : String} (h : kindOf nm = .function) :
    nm = "function" := by
  unfold kindOf at h
  by_cases c0 : nm = "string" ∨ nm = "number" ∨ nm = "true" ∨ nm = "false" ∨ nm = "null" ∨ nm = "break"
     ∨ nm = "continue" ∨ nm = "EOF"
  · rw [if_pos c0] at h; cases h
  rw [if_neg c0] at h
  by_cases c1 : nm = ">=" ∨ nm = "<=" ∨ nm = "!=" ∨ nm = "==" ∨ nm = ">" ∨ nm = "<" ∨ nm = "kvp"
     ∨ nm = "preset" ∨ nm = "times" ∨ nm = "div" ∨ nm = "divint" ∨ nm = "modint" ∨ nm = ":="
     ∨ nm = "and" ∨ nm = "or" ∨ nm = "like" ∨ nm = "in" ∨ nm = "hasprefix" ∨ nm = "hassuffix"
     ∨ nm = "notin"
  · rw [if_pos c1] at h; cases h
  rw [if_neg c1] at h
  by_cases c2 : nm = "plus" ∨ nm = "minus"
  · rw [if_pos c2] at h; cases h
  rw [if_neg c2] at h
  by_cases c3 : nm = "let" ∨ nm = "not" ∨ nm = "kindmatch" ∨ nm = "scopematch" ∨ nm = "statematch"
     ∨ nm = "priority" ∨ nm = "suppresses"
  · rw [if_pos c3] at h; cases h
  rw [if_neg c3] at h
  by_cases c4 : nm = "import"
  · rw [if_pos c4] at h; cases h
  rw [if_neg c4] at h
  by_cases c5 : nm = "identifier"
  · rw [if_pos c5] at h; cases h
  rw [if_neg c5] at h
  by_cases c6 : nm = "compaccess" ∨ nm = "guard" ∨ nm = "as"
  · rw [if_pos c6] at h; cases h
  rw [if_neg c6] at h
  by_cases c7 : nm = "return"
  · rw [if_pos c7] at h; cases h
  rw [if_neg c7] at h
  by_cases c8 : nm = "if"
  · rw [if_pos c8] at h; cases h
  rw [if_neg c8] at h
  by_cases c9 : nm = "loop"
  · rw [if_pos c9] at h; cases h
  rw [if_neg c9] at h
  by_cases c10 : nm = "try"
  · rw [if_pos c10] at h; cases h
  rw [if_neg c10] at h
  by_cases c11 : nm = "except"
  · rw [if_pos c11] at h; cases h
  rw [if_neg c11] at h
  by_cases c12 : nm = "otherwise" ∨ nm = "finally"
  · rw [if_pos c12] at h; cases h
  rw [if_neg c12] at h
  by_cases c13 : nm = "function"
  · exact c13
  rw [if_neg c13] at h
  by_cases c14 : nm = "sink"
  · rw [if_pos c14] at h; cases h
  rw [if_neg c14] at h
  by_cases c15 : nm = "mutex"
  · rw [if_pos c15] at h; cases h
  rw [if_neg c15] at h
  by_cases c16 : nm = "list" ∨ nm = "map" ∨ nm = "funccall" ∨ nm = "params" ∨ nm = "statements"
  · rw [if_pos c16] at h; cases h
  rw [if_neg c16] at h
  cases h
theorem kindOf_sink {nm : String} (h : kindOf nm = .sink) :
    nm = "sink" := by
  unfold kindOf at h
  by_cases c0 : nm = "string" ∨ nm = "number" ∨ nm = "true" ∨ nm = "false" ∨ nm = "null" ∨ nm = "break"
     ∨ nm = "continue" ∨ nm = "EOF"
  · rw [if_pos c0] at h; cases h
  rw [if_neg c0] at h
  by_cases c1 : nm = ">=" ∨ nm = "<=" ∨ nm = "!=" ∨ nm = "==" ∨ nm = ">" ∨ nm = "<" ∨ nm = "kvp"
     ∨ nm = "preset" ∨ nm = "times" ∨ nm = "div" ∨ nm = "divint" ∨ nm = "modint" ∨ nm = ":="
     ∨ nm = "and" ∨ nm = "or" ∨ nm = "like" ∨ nm = "in" ∨ nm = "hasprefix" ∨ nm = "hassuffix"
     ∨ nm = "notin"
  · rw [if_pos c1] at h; cases h
  rw [if_neg c1] at h
  by_cases c2 : nm = "plus" ∨ nm = "minus"
  · rw [if_pos c2] at h; cases h
  rw [if_neg c2] at h
  by_cases c3 : nm = "let" ∨ nm = "not" ∨ nm = "kindmatch" ∨ nm = "scopematch" ∨ nm = "statematch"
     ∨ nm = "priority" ∨ nm = "suppresses"
  · rw [if_pos c3] at h; cases h
  rw [if_neg c3] at h
  by_cases c4 : nm = "import"
  · rw [if_pos c4] at h; cases h
  rw [if_neg c4] at h
  by_cases c5 : nm = "identifier"
  · rw [if_pos c5] at h; cases h
  rw [if_neg c5] at h
  by_cases c6 : nm = "compaccess" ∨ nm = "guard" ∨ nm = "as"
  · rw [if_pos c6] at h; cases h
  rw [if_neg c6] at h
  by_cases c7 : nm = "return"
  · rw [if_pos c7] at h; cases h
  rw [if_neg c7] at h
  by_cases c8 : nm = "if"
  · rw [if_pos c8] at h; cases h
  rw [if_neg c8] at h
  by_cases c9 : nm = "loop"
  · rw [if_pos c9] at h; cases h
  rw [if_neg c9] at h
  by_cases c10 : nm = "try"
  · rw [if_pos c10] at h; cases h
  rw [if_neg c10] at h
  by_cases c11 : nm = "except"
  · rw [if_pos c11] at h; cases h
  rw [if_neg c11] at h
  by_cases c12 : nm = "otherwise" ∨ nm = "finally"
  · rw [if_pos c12] at h; cases h
  rw [if_neg c12] at h
  by_cases c13 : nm = "function"
  · rw [if_pos c13] at h; cases h
  rw [if_neg c13] at h
  by_cases c14 : nm = "sink"
  · exact c14
  rw [if_neg c14] at h
  by_cases c15 : nm = "mutex"
  · rw [if_pos c15] at h; cases h
  rw [if_neg c15] at h
  by_cases c16 : nm = "list" ∨ nm = "map" ∨ nm = "funccall" ∨ nm = "params" ∨ nm = "statements"
  · rw [if_pos c16] at h; cases h
  rw [if_neg c16] at h
  cases h
theorem kindOf_mutex {nm : String} (h : kindOf nm = .mutex) :
    nm = "mutex" := by
  unfold kindOf at h
  by_cases c0 : nm = "string" ∨ nm = "number" ∨ nm = "true" ∨ nm = "false" ∨ nm = "null" ∨ nm = "break"
     ∨ nm = "continue" ∨ nm = "EOF"
  · rw [if_pos c0] at h; cases h
  rw [if_neg c0] at h
  by_cases c1 : nm = ">=" ∨ nm = "<=" ∨ nm = "!=" ∨ nm = "==" ∨ nm = ">" ∨ nm = "<" ∨ nm = "kvp"
     ∨ nm = "preset" ∨ nm = "times" ∨ nm = "div" ∨ nm = "divint" ∨ nm = "modint" ∨ nm = ":="
     ∨ nm = "and" ∨ nm = "or" ∨ nm = "like" ∨ nm = "in" ∨ nm = "hasprefix" ∨ nm = "hassuffix"
     ∨ nm = "notin"
  · rw [if_pos c1] at h; cases h
  rw [if_neg c1] at h
  by_cases c2 : nm = "plus" ∨ nm = "minus"
  · rw [if_pos c2] at h; cases h
  rw [if_neg c2] at h
  by_cases c3 : nm = "let" ∨ nm = "not" ∨ nm = "kindmatch" ∨ nm = "scopematch" ∨ nm = "statematch"
     ∨ nm = "priority" ∨ nm = "suppresses"
  · rw [if_pos c3] at h; cases h
  rw [if_neg c3] at h
  by_cases c4 : nm = "import"
  · rw [if_pos c4] at h; cases h
  rw [if_neg c4] at h
  by_cases c5 : nm = "identifier"
  · rw [if_pos c5] at h; cases h
  rw [if_neg c5] at h
  by_cases c6 : nm = "compaccess" ∨ nm = "guard" ∨ nm = "as"
  · rw [if_pos c6] at h; cases h
  rw [if_neg c6] at h
  by_cases c7 : nm = "return"
  · rw [if_pos c7] at h; cases h
  rw [if_neg c7] at h
  by_cases c8 : nm = "if"
  · rw [if_pos c8] at h; cases h
  rw [if_neg c8] at h
  by_cases c9 : nm = "loop"
  · rw [if_pos c9] at h; cases h
  rw [if_neg c9] at h
  by_cases c10 : nm = "try"
  · rw [if_pos c10] at h; cases h
  rw [if_neg c10] at h
  by_cases c11 : nm = "except"
  · rw [if_pos c11] at h; cases h
  rw [if_neg c11] at h
  by_cases c12 : nm = "otherwise" ∨ nm = "finally"
  · rw [if_pos c12] at h; cases h
  rw [if_neg c12] at h
  by_cases c13 : nm = "function"
  · rw [if_pos c13] at h; cases h
  rw [if_neg c13] at h
  by_cases c14 : nm = "sink"
  · rw [if_pos c14] at h; cases h
  rw [if_neg c14] at h
  by_cases c15 : nm = "mutex"
  · exact c15
  rw [if_neg c15] at h
  by_cases c16 : nm = "list" ∨ nm = "map" ∨ nm = "funccall" ∨ nm = "params" ∨ nm = "statements"
  · rw [if_pos c16] at h; cases h
  rw [if_neg c16] at h
  cases h
theorem kindOf_container {nm : String} (h : kindOf nm = .container) :
    nm = "list" ∨ nm = "map" ∨ nm = "funccall" ∨ nm = "params" ∨ nm = "statements" := by
  unfold kindOf at h
  by_cases c0 : nm = "string" ∨ nm = "number" ∨ nm = "true" ∨ nm = "false" ∨ nm = "null" ∨ nm = "break"
     ∨ nm = "continue" ∨ nm = "EOF"
  · rw [if_pos c0] at h; cases h
  rw [if_neg c0] at h
  by_cases c1 : nm = ">=" ∨ nm = "<=" ∨ nm = "!=" ∨ nm = "==" ∨ nm = ">" ∨ nm = "<" ∨ nm = "kvp"
     ∨ nm = "preset" ∨ nm = "times" ∨ nm = "div" ∨ nm = "divint" ∨ nm = "modint" ∨ nm = ":="
     ∨ nm = "and" ∨ nm = "or" ∨ nm = "like" ∨ nm = "in" ∨ nm = "hasprefix" ∨ nm = "hassuffix"
     ∨ nm = "notin"
  · rw [if_pos c1] at h; cases h
  rw [if_neg c1] at h
  by_cases c2 : nm = "plus" ∨ nm = "minus"
  · rw [if_pos c2] at h; cases h
  rw [if_neg c2] at h
  by_cases c3 : nm = "let" ∨ nm = "not" ∨ nm = "kindmatch" ∨ nm = "scopematch" ∨ nm = "statematch"
     ∨ nm = "priority" ∨ nm = "suppresses"
  · rw [if_pos c3] at h; cases h
  rw [if_neg c3] at h
  by_cases c4 : nm = "import"
  · rw [if_pos c4] at h; cases h
  rw [if_neg c4] at h
  by_cases c5 : nm = "identifier"
  · rw [if_pos c5] at h; cases h
  rw [if_neg c5] at h
  by_cases c6 : nm = "compaccess" ∨ nm = "guard" ∨ nm = "as"
  · rw [if_pos c6] at h; cases h
  rw [if_neg c6] at h
  by_cases c7 : nm = "return"
  · rw [if_pos c7] at h; cases h
  rw [if_neg c7] at h
  by_cases c8 : nm = "if"
  · rw [if_pos c8] at h; cases h
  rw [if_neg c8] at h
  by_cases c9 : nm = "loop"
  · rw [if_pos c9] at h; cases h
  rw [if_neg c9] at h
  by_cases c10 : nm = "try"
  · rw [if_pos c10] at h; cases h
  rw [if_neg c10] at h
  by_cases c11 : nm = "except"
  · rw [if_pos c11] at h; cases h
  rw [if_neg c11] at h
  by_cases c12 : nm = "otherwise" ∨ nm = "finally"
  · rw [if_pos c12] at h; cases h
  rw [if_neg c12] at h
  by_cases c13 : nm = "function"
  · rw [if_pos c13] at h; cases h
  rw [if_neg c13] at h
  by_cases c14 : nm = "sink"
  · rw [if_pos c14] at h; cases h
  rw [if_neg c14] at h
  by_cases c15 : nm = "mutex"
  · rw [if_pos c15] at h; cases h
  rw [if_neg c15] at h
  by_cases c16 : nm = "list" ∨ nm = "map" ∨ nm = "funccall" ∨ nm = "params" ∨ nm = "statements"
  · exact c16
  rw [if_neg c16] at h
  cases h

theorem len1 {α : Type} {l : List α} (h : l.length = 1) : ∃ a, l = [a] := by
  match l, h with
  | [a], _ => exact ⟨a, rfl⟩
theorem len2 {α : Type} {l : List α} (h : l.length = 2) : ∃ a b, l = [a, b] := by
  match l, h with
  | [a, b], _ => exact ⟨a, b, rfl⟩

theorem nsize_pos (n : Node) : 1 ≤ nsize n := by cases n; simp [nsize]

/-- unpacking a well-formed node: its children, their well-formedness, sizes, and the shape clause -/
theorem wf_kids (c : Node) (h : WellFormedS c = true) :
    ∃ kids : List Node, c.children = kids.map some ∧ (∀ x, x ∈ kids → WellFormedS x = true) ∧
      (∀ x, x ∈ kids → nsize x < nsize c) ∧ shapeOkS c.name (kids.map sg) = true := by
  obtain ⟨name, tok, b, nud, led, cs, metas⟩ := c
  simp only [WellFormedS, Bool.and_eq_true] at h
  obtain ⟨kids, rfl, hkw⟩ := kidsWFS_spec cs h.2
  refine ⟨kids, rfl, hkw, ?_, by rw [← sigs_map]; exact h.1⟩
  intro x hx
  have := ksize_mem kids x hx
  simp only [nsize]
  omega

theorem ifShapeS_spec : ∀ (kids : List Node), ifShapeS (kids.map sg) = true →
    ∃ pairs : List (Node × Node), kids = pairs.flatMap (fun p => [p.1, p.2]) ∧
      ∀ p, p ∈ pairs → p.1.name = "guard" ∧ p.2.name = "statements"
  | [], _ => ⟨[], rfl, (by intro p h; cases h)⟩
  | [_], h => by simp [ifShapeS] at h
  | g :: s :: r, h => by
    simp only [List.map_cons, sg, ifShapeS, Bool.and_eq_true, decide_eq_true_eq] at h
    obtain ⟨pairs, hp, hq⟩ := ifShapeS_spec r (by simpa [sg] using h.2)
    refine ⟨(g, s) :: pairs, by simp [hp], ?_⟩
    intro p hpm
    simp only [List.mem_cons] at hpm
    rcases hpm with hpm | hpm
    · subst hpm; exact ⟨h.1.1.1, h.1.2⟩
    · exact hq p hpm

/-- `except` = string* (as | identifier)? statements: every child is a string / as / identifier with token, or
    the final statements node; the first child of a clause with several children carries a token -/
theorem exceptShape_spec : ∀ (kids : List Node), exceptShape (kids.map sg) = true →
    kids ≠ [] ∧ (∀ x, x ∈ kids → (∃ t, x.tok = some t) ∨ x.name = "statements") ∧
      (∀ k0 k1 rest, kids = k0 :: k1 :: rest → ∃ t0, k0.tok = some t0)
  | [], h => by simp [exceptShape] at h
  | [s], h => by
    simp only [List.map_cons, List.map_nil, sg, exceptShape, decide_eq_true_eq] at h
    refine ⟨by simp, ?_, by intro k0 k1 rest hk; cases hk⟩
    intro x hx; simp only [List.mem_singleton] at hx; subst hx; exact Or.inr h
  | a :: b :: r, h => by
    simp only [List.map_cons, exceptShape] at h
    refine ⟨by simp, ?_, ?_⟩
    · split at h
      · rename_i hr
        simp only [sg, Bool.and_eq_true, decide_eq_true_eq] at h
        have hr' : r = [] := by simpa using hr
        subst hr'
        intro x hx
        simp only [List.mem_cons, List.not_mem_nil, or_false] at hx
        rcases hx with hx | hx
        · subst hx; exact Or.inl (Option.isSome_iff_exists.mp h.1.2)
        · subst hx; exact Or.inr (of_decide_eq_true h.2)
      · simp only [sg, Bool.and_eq_true, decide_eq_true_eq] at h
        have ih := (exceptShape_spec (b :: r) (by simpa [sg] using h.2)).2.1
        intro x hx
        simp only [List.mem_cons] at hx
        rcases hx with hx | hx
        · subst hx; exact Or.inl (Option.isSome_iff_exists.mp h.1.2)
        · exact ih x (by simpa using hx)
    · intro k0 k1 rest hk
      cases hk
      split at h
      · simp only [sg, Bool.and_eq_true, decide_eq_true_eq] at h
        exact Option.isSome_iff_exists.mp h.1.2
      · simp only [sg, Bool.and_eq_true, decide_eq_true_eq] at h
        exact Option.isSome_iff_exists.mp h.1.2

/-- the children of a `params` node as parameters -/
theorem params_spec (ih : ∀ x, nsize x ≤ K → WellFormedS x = true → TokOK x → Frag x) (params : Node)
    (hw : WellFormedS params = true) (hn : params.name = "params") (hsz : nsize params ≤ K) :
    ∃ ps : List Node, params.children = ps.map some ∧ ∀ p, p ∈ ps → Param p := by
  obtain ⟨ps, hc, hpw, hps, hsh⟩ := wf_kids params hw
  rw [hn] at hsh
  simp only [shapeOkS, show kindOf "params" = Kind.container from by decide] at hsh
  refine ⟨ps, hc, ?_⟩
  intro p hp
  obtain ⟨tp, htp⟩ := opOk_spec _ hsh p hp
  by_cases hid : p.name = "identifier"
  · exact Param.name p tp hid htp
  by_cases hpre : p.name = "preset"
  · obtain ⟨pk, hpc, hpkw, hpks, hpsh⟩ := wf_kids p (hpw p hp)
    rw [hpre] at hpsh
    simp only [shapeOkS, show kindOf "preset" = Kind.binary from by decide, Bool.and_eq_true, decide_eq_true_eq,
      List.length_map] at hpsh
    obtain ⟨nm, d, rfl⟩ := len2 hpsh.1
    obtain ⟨tn, htn⟩ := opOk_spec _ hpsh.2 nm (by simp)
    refine Param.preset p nm d tn hpre hpc htn ?_
    exact ih d (by have := hpks d (by simp); have := hps p hp; omega) (hpkw d (by simp)) (Or.inl (opOk_spec _ hpsh.2 d (by simp)))
  · exact Param.other p ⟨hid, hpre⟩

set_option maxHeartbeats 1000000 in
theorem bridge_k : ∀ (k : Nat) (n : Node), nsize n ≤ k → WellFormedS n = true → TokOK n → Frag n := by
  intro k; induction k with
  | zero => intro n hs; have := nsize_pos n; omega
  | succ k ih =>
    intro n hs hw ht
    obtain ⟨name, tok, b, nud, led, cs, metas⟩ := n
    simp only [WellFormedS, Bool.and_eq_true] at hw
    obtain ⟨hshape, hkids⟩ := hw
    obtain ⟨kids, rfl, hkw⟩ := kidsWFS_spec cs hkids
    rw [sigs_map] at hshape
    have hsz : ∀ c, c ∈ kids → nsize c ≤ k := by
      intro c hc
      have := ksize_mem kids c hc
      simp only [nsize] at hs
      omega
    have recK : ∀ c, c ∈ kids → TokOK c → Frag c := fun c hc htc => ih c (hsz c hc) (hkw c hc) htc
    have recT : ∀ c, c ∈ kids → (∃ t, c.tok = some t) → Frag c := fun c hc h => recK c hc (Or.inl h)
    have myTok : name ≠ "statements" → name ≠ "guard" → name ≠ "true" → ∃ t, tok = some t := by
      intro h1 h2 h3
      rcases ht with h | h | h | h
      · exact h
      · exact absurd h h1
      · exact absurd h h2
      · exact absurd h h3
    unfold shapeOkS at hshape
    split at hshape
    · -- terminal
      rename_i hk
      have hn := kindOf_terminal hk
      have hk0 : kids = [] := by cases kids with | nil => rfl | cons a r => simp at hshape
      subst hk0
      rcases hn with rfl | rfl | rfl | rfl | rfl | rfl | rfl | rfl
      · obtain ⟨t, ht'⟩ := myTok (by decide) (by decide) (by decide); exact Frag.istring _ t ht' rfl
      · obtain ⟨t, ht'⟩ := myTok (by decide) (by decide) (by decide); exact Frag.number _ t ht' rfl
      · exact Frag.const _ (Or.inl rfl)
      · exact Frag.const _ (Or.inr (Or.inl rfl))
      · exact Frag.const _ (Or.inr (Or.inr rfl))
      · obtain ⟨t, ht'⟩ := myTok (by decide) (by decide) (by decide); exact Frag.signal _ t ht' (Or.inl rfl)
      · obtain ⟨t, ht'⟩ := myTok (by decide) (by decide) (by decide); exact Frag.signal _ t ht' (Or.inr rfl)
      · refine Frag.inert _ ?_; simp [Node.name]
    · -- binary
      rename_i hk
      have hn := kindOf_binary hk
      simp only [Bool.and_eq_true, decide_eq_true_eq, List.length_map] at hshape
      obtain ⟨a, b', rfl⟩ := len2 hshape.1
      have hta := opOk_spec _ hshape.2 a (by simp)
      have htb := opOk_spec _ hshape.2 b' (by simp)
      have fa := recT a (by simp) hta
      have fb := recT b' (by simp) htb
      have hmy : name ≠ "statements" ∧ name ≠ "guard" ∧ name ≠ "true" := by
        rcases hn with rfl | rfl | rfl | rfl | rfl | rfl | rfl | rfl | rfl | rfl | rfl | rfl | rfl | rfl | rfl | rfl | rfl | rfl | rfl | rfl <;> decide
      obtain ⟨t, ht'⟩ := myTok hmy.1 hmy.2.1 hmy.2.2
      rcases hn with rfl | rfl | rfl | rfl | rfl | rfl | rfl | rfl | rfl | rfl | rfl | rfl | rfl | rfl | rfl | rfl | rfl | rfl | rfl | rfl
      all_goals first
        | (refine Frag.binary _ t a b' ht' ?_ rfl fa fb; simp [Node.name]; done)
        | exact Frag.assign _ t a b' ht' rfl rfl fa fb
        | (refine Frag.inert _ ?_; simp [Node.name]; done)
    · -- plusminus
      rename_i hk
      have hn := kindOf_plusminus hk
      simp only [Bool.and_eq_true, Bool.or_eq_true, decide_eq_true_eq, List.length_map] at hshape
      have hmy : name ≠ "statements" ∧ name ≠ "guard" ∧ name ≠ "true" := by rcases hn with rfl | rfl <;> decide
      obtain ⟨t, ht'⟩ := myTok hmy.1 hmy.2.1 hmy.2.2
      rcases hshape.1 with h1 | h2
      · obtain ⟨c, rfl⟩ := len1 h1
        have fc := recT c (by simp) (opOk_spec _ hshape.2 c (by simp))
        rcases hn with rfl | rfl
        · exact Frag.unary _ t c ht' (Or.inl rfl) rfl fc
        · exact Frag.unary _ t c ht' (Or.inr (Or.inl rfl)) rfl fc
      · obtain ⟨a, b', rfl⟩ := len2 h2
        have fa := recT a (by simp) (opOk_spec _ hshape.2 a (by simp))
        have fb := recT b' (by simp) (opOk_spec _ hshape.2 b' (by simp))
        rcases hn with rfl | rfl
        · exact Frag.binary _ t a b' ht' (Or.inl rfl) rfl fa fb
        · exact Frag.binary _ t a b' ht' (Or.inr (Or.inl rfl)) rfl fa fb
    · -- prefix1
      rename_i hk
      have hn := kindOf_prefix1 hk
      simp only [Bool.and_eq_true, decide_eq_true_eq, List.length_map] at hshape
      obtain ⟨c, rfl⟩ := len1 hshape.1
      have fc := recT c (by simp) (opOk_spec _ hshape.2 c (by simp))
      rcases hn with rfl | rfl | rfl | rfl | rfl | rfl | rfl
      · obtain ⟨t, ht'⟩ := myTok (by decide) (by decide) (by decide); exact Frag.letN _ t c ht' rfl rfl fc
      · obtain ⟨t, ht'⟩ := myTok (by decide) (by decide) (by decide); exact Frag.unary _ t c ht' (Or.inr (Or.inr rfl)) rfl fc
      all_goals (refine Frag.inert _ ?_; simp [Node.name])
    · -- one: as / guard / compaccess
      rename_i hk
      have hn := kindOf_one hk
      rcases hn with rfl | rfl | rfl
      · refine Frag.inert _ ?_; simp [Node.name]
      · -- guard
        simp only [show ("guard" = "as") = False from by decide, if_false, if_true] at hshape
        cases kids with
        | nil => simp at hshape
        | cons c r =>
          cases r with
          | cons d r' => simp at hshape
          | nil =>
            simp only [List.map_cons, List.map_nil, sg, Bool.or_eq_true, Bool.and_eq_true, decide_eq_true_eq] at hshape
            have htc : TokOK c := by
              rcases hshape with h | h
              · exact Or.inl (Option.isSome_iff_exists.mp h)
              · exact Or.inr (Or.inr (Or.inr h.1))
            exact Frag.guardN _ c rfl rfl (recK c (by simp) htc)
      · -- as
        simp only [if_true, Bool.and_eq_true, decide_eq_true_eq] at hshape
        cases kids with
        | nil => simp at hshape
        | cons v r =>
          cases r with
          | cons d r' => simp at hshape
          | nil =>
            have htv := opOk_spec _ hshape.2 v (by simp)
            obtain ⟨t, ht'⟩ := myTok (by decide) (by decide) (by decide)
            exact Frag.asN _ t v ht' rfl rfl (recT v (by simp) htv) htv
    · -- return
      rename_i hk
      have hn := kindOf_return_ hk
      subst hn
      simp only [Bool.and_eq_true, decide_eq_true_eq, List.length_map] at hshape
      obtain ⟨t, ht'⟩ := myTok (by decide) (by decide) (by decide)
      cases kids with
      | nil => exact Frag.ret0 _ t ht' rfl rfl
      | cons c r =>
        cases r with
        | cons d r' => simp at hshape
        | nil => exact Frag.ret1 _ t c ht' rfl rfl (recT c (by simp) (opOk_spec _ hshape.2 c (by simp)))
    · -- import
      rename_i hk
      have hn := kindOf_import_ hk
      subst hn
      refine Frag.inert _ ?_; simp [Node.name]
    · -- identifier
      rename_i hk
      have hn := kindOf_identifier hk
      subst hn
      obtain ⟨t, ht'⟩ := myTok (by decide) (by decide) (by decide)
      refine Frag.ident _ t kids ht' rfl rfl ?_
      intro c hc
      simp only [List.all_map, List.all_eq_true] at hshape
      have hcs := hshape c hc
      simp only [Function.comp, sg, Bool.or_eq_true, Bool.and_eq_true, decide_eq_true_eq] at hcs
      rcases hcs with (⟨hcn, hct⟩ | hcn) | ⟨hcn, hcl⟩
      · -- field
        have hcn := of_decide_eq_true hcn
        have fc := recT c hc (Option.isSome_iff_exists.mp hct)
        obtain ⟨tc, ck, htc, hck, hcl⟩ := Frag.ident_inv fc hcn
        exact Link.field c tc ck hcn htc hck hcl
      · -- funccall
        have hcn := of_decide_eq_true hcn
        obtain ⟨args, hca, haw, has, hsh⟩ := wf_kids c (hkw c hc)
        rw [hcn] at hsh
        simp only [shapeOkS, show kindOf "funccall" = Kind.container from by decide] at hsh
        refine Link.call c args hcn hca ?_
        intro a ha
        exact ih a (by have := has a ha; have := hsz c hc; omega) (haw a ha) (Or.inl (opOk_spec _ hsh a ha))
      · -- compaccess
        have hcn := of_decide_eq_true hcn
        obtain ⟨args, hca, haw, has, hsh⟩ := wf_kids c (hkw c hc)
        rw [hcn] at hsh
        simp only [shapeOkS, show kindOf "compaccess" = Kind.one from by decide,
          show ("compaccess" = "as") = False from by decide, show ("compaccess" = "guard") = False from by decide,
          if_false, Bool.and_eq_true, decide_eq_true_eq, List.length_map] at hsh
        obtain ⟨e, rfl⟩ := len1 hsh.1
        refine Link.comp c e hcn hca ?_
        exact ih e (by have := has e (by simp); have := hsz c hc; omega) (haw e (by simp)) (Or.inl (opOk_spec _ hsh.2 e (by simp)))
    · -- if
      rename_i hk
      have hn := kindOf_if_ hk
      subst hn
      obtain ⟨t, ht'⟩ := myTok (by decide) (by decide) (by decide)
      obtain ⟨pairs, hp, hq⟩ := ifShapeS_spec kids hshape
      have hmem : ∀ p, p ∈ pairs → p.1 ∈ kids ∧ p.2 ∈ kids := by
        intro p hpm
        rw [hp]
        constructor <;> (apply List.mem_flatMap.mpr; exact ⟨p, hpm, by simp⟩)
      refine Frag.ifN _ t pairs ht' rfl ?_ ?_ ?_
      · show List.map some kids = _
        rw [hp]; simp [List.map_flatMap, List.flatMap_map]
      · intro p hpm; exact recK p.1 (hmem p hpm).1 (Or.inr (Or.inr (Or.inl (hq p hpm).1)))
      · intro p hpm; exact recK p.2 (hmem p hpm).2 (Or.inr (Or.inl (hq p hpm).2))
    · -- loop
      rename_i hk
      have hn := kindOf_loop hk
      subst hn
      obtain ⟨t, ht'⟩ := myTok (by decide) (by decide) (by decide)
      cases kids with
      | nil => simp at hshape
      | cons c0 r =>
        cases r with
        | nil => simp at hshape
        | cons body r' =>
          cases r' with
          | cons d r'' => simp at hshape
          | nil =>
            simp only [List.map_cons, List.map_nil, sg, Bool.and_eq_true, Bool.or_eq_true, decide_eq_true_eq] at hshape
            have hb := hshape.1
            have ht0 : TokOK c0 := by
              rcases hshape.2 with h | h
              · exact Or.inr (Or.inr (Or.inl h.1))
              · exact Or.inl (Option.isSome_iff_exists.mp h.2)
            exact Frag.loop _ t c0 body ht' rfl rfl (recK c0 (by simp) ht0) (recK body (by simp) (Or.inr (Or.inl hb)))
    · -- try
      rename_i hk
      have hn := kindOf_try_ hk
      subst hn
      obtain ⟨t, ht'⟩ := myTok (by decide) (by decide) (by decide)
      cases kids with
      | nil => simp at hshape
      | cons body cl =>
        simp only [List.map_cons, sg, Bool.and_eq_true, List.all_map, List.all_eq_true] at hshape
        have hbn := of_decide_eq_true hshape.1
        refine Frag.tryN _ t body cl ht' rfl rfl (recK body (by simp) (Or.inr (Or.inl hbn))) (by rw [hbn]; decide) ?_
        intro c hc
        have hcs := hshape.2 c hc
        simp only [Function.comp, sg, Bool.and_eq_true, Bool.or_eq_true] at hcs
        obtain ⟨tc, htc⟩ := Option.isSome_iff_exists.mp hcs.2
        obtain ⟨ck, hck, hcw, hcsz, hsh⟩ := wf_kids c (hkw c (by simp [hc]))
        have hszc : nsize c ≤ k := hsz c (by simp [hc])
        rcases hcs.1 with (hcn | hcn) | hcn
        · -- except
          have hcn := of_decide_eq_true hcn
          rw [hcn] at hsh
          simp only [shapeOkS, show kindOf "except" = Kind.except from by decide] at hsh
          obtain ⟨hne, hall, hfirst⟩ := exceptShape_spec ck hsh
          refine Clause.exc c tc ck hcn htc hck hne ?_ hfirst
          intro x hx
          refine ih x (by have := hcsz x hx; omega) (hcw x hx) ?_
          rcases hall x hx with h | h
          · exact Or.inl h
          · exact Or.inr (Or.inl h)
        · -- otherwise
          have hcn := of_decide_eq_true hcn
          rw [hcn] at hsh
          simp only [shapeOkS, show kindOf "otherwise" = Kind.blockOnly from by decide, decide_eq_true_eq] at hsh
          cases ck with
          | nil => simp at hsh
          | cons bb r =>
            cases r with
            | cons d r' => simp at hsh
            | nil =>
              simp only [List.map_cons, List.map_nil, sg, List.cons.injEq, and_true] at hsh
              exact Clause.blk c tc bb (Or.inl hcn) htc hck
                (ih bb (by have := hcsz bb (by simp); omega) (hcw bb (by simp)) (Or.inr (Or.inl hsh)))
        · -- finally
          have hcn := of_decide_eq_true hcn
          rw [hcn] at hsh
          simp only [shapeOkS, show kindOf "finally" = Kind.blockOnly from by decide, decide_eq_true_eq] at hsh
          cases ck with
          | nil => simp at hsh
          | cons bb r =>
            cases r with
            | cons d r' => simp at hsh
            | nil =>
              simp only [List.map_cons, List.map_nil, sg, List.cons.injEq, and_true] at hsh
              exact Clause.blk c tc bb (Or.inr hcn) htc hck
                (ih bb (by have := hcsz bb (by simp); omega) (hcw bb (by simp)) (Or.inr (Or.inl hsh)))
    · -- except (as a node of its own)
      rename_i hk
      have hn := kindOf_except hk
      subst hn
      refine Frag.inert _ ?_; simp [Node.name]
    · -- otherwise / finally (as nodes of their own)
      rename_i hk
      have hn := kindOf_blockOnly hk
      rcases hn with rfl | rfl <;> (refine Frag.inert _ ?_; simp [Node.name])
    · -- function
      rename_i hk
      have hn := kindOf_function hk
      subst hn
      obtain ⟨t, ht'⟩ := myTok (by decide) (by decide) (by decide)
      simp only [Bool.or_eq_true, Bool.and_eq_true, decide_eq_true_eq, List.map_map] at hshape
      rcases hshape with h2 | h3
      · -- anonymous
        cases kids with
        | nil => simp at h2
        | cons params r =>
          cases r with
          | nil => simp at h2
          | cons body r' =>
            cases r' with
            | cons d r'' => simp at h2
            | nil =>
              simp only [List.map_cons, List.map_nil, Function.comp, sg, List.cons.injEq, and_true] at h2
              obtain ⟨ps, hpc, hpp⟩ := params_spec ih params (hkw params (by simp)) h2.1 (hsz params (by simp))
              exact Frag.funcAnon _ t params body ps ht' rfl rfl (by rw [h2.1]; decide) hpc hpp
                (recK body (by simp) (Or.inr (Or.inl h2.2)))
      · -- named
        cases kids with
        | nil => simp at h3
        | cons c0 r =>
          cases r with
          | nil => simp at h3
          | cons params r' =>
            cases r' with
            | nil => simp at h3
            | cons body r'' =>
              cases r'' with
              | cons d r3 => simp at h3
              | nil =>
                simp only [List.map_cons, List.map_nil, Function.comp, sg, List.cons.injEq, and_true, List.take] at h3
                obtain ⟨t0, ht0⟩ := opOk_spec [c0] (by simpa [sg] using h3.2) c0 (by simp)
                obtain ⟨ps, hpc, hpp⟩ := params_spec ih params (hkw params (by simp)) h3.1.2.1 (hsz params (by simp))
                exact Frag.funcNamed _ t t0 c0 params body ps ht' rfl rfl h3.1.1 ht0 hpc hpp
                  (recK body (by simp) (Or.inr (Or.inl h3.1.2.2)))
    · -- sink
      rename_i hk
      have hn := kindOf_sink hk
      subst hn
      refine Frag.inert _ ?_; simp [Node.name]
    · -- mutex
      rename_i hk
      have hn := kindOf_mutex hk
      subst hn
      refine Frag.inert _ ?_; simp [Node.name]
    · -- container
      rename_i hk
      have hn := kindOf_container hk
      have hkt := opOk_spec _ hshape
      rcases hn with rfl | rfl | rfl | rfl | rfl
      · obtain ⟨t, ht'⟩ := myTok (by decide) (by decide) (by decide)
        exact Frag.list _ t kids ht' rfl rfl (fun c hc => recT c hc (hkt c hc)) hkt
      · obtain ⟨t, ht'⟩ := myTok (by decide) (by decide) (by decide)
        refine Frag.map _ t kids ht' rfl rfl ?_
        intro c hc
        by_cases hck : c.name = "kvp"
        · obtain ⟨ck, hcc, hcw, hcs, hsh⟩ := wf_kids c (hkw c hc)
          rw [hck] at hsh
          simp only [shapeOkS, show kindOf "kvp" = Kind.binary from by decide, Bool.and_eq_true, decide_eq_true_eq,
            List.length_map] at hsh
          obtain ⟨ka, kb, rfl⟩ := len2 hsh.1
          exact FragEntry.kvp c ka kb hcc
            (ih ka (by have := hcs ka (by simp); have := hsz c hc; omega) (hcw ka (by simp)) (Or.inl (opOk_spec _ hsh.2 ka (by simp))))
            (ih kb (by have := hcs kb (by simp); have := hsz c hc; omega) (hcw kb (by simp)) (Or.inl (opOk_spec _ hsh.2 kb (by simp))))
        · exact FragEntry.bad c (Or.inl hck)
      · refine Frag.inert _ ?_; simp [Node.name]
      · refine Frag.inert _ ?_; simp [Node.name]
      · exact Frag.statements _ kids rfl rfl (fun c hc => recT c hc (hkt c hc))
    · -- unknown
      cases hshape

/-- **The bridge.** Every strictly well-formed tree whose root carries a token (or is the top-level `statements`
    node) — by C07's `parse_wellformed_strict`: every tree the parser returns — is in the fragment. -/
theorem wellformed_frag (n : Node) (h : WellFormedRoot n = true) : Frag n := by
  simp only [WellFormedRoot, Bool.and_eq_true, Bool.or_eq_true, decide_eq_true_eq] at h
  refine bridge_k (nsize n) n (Nat.le_refl _) h.1 ?_
  rcases h.2 with h2 | h2
  · exact Or.inl (Option.isSome_iff_exists.mp h2)
  · exact Or.inr (Or.inl h2)

end Ecal.Lemmas.C06
