import Ecal.Lemmas.Pool
/-! The inductive invariant of the repaired pool protocol, on the counting abstraction. -/
namespace Ecal.Pool

/-- workers that will look at the queue (and the kill counter) again before they sleep and are not
    busy with a task: each of them can take a queued task without waiting for any task to finish -/
def awake (f : Cls → Nat) : Nat :=
  f .head + f .chkT + f .chkF + f .noTask + f .idleReg + f .hasL + f .readQT + f .readKT + f .woken + f .unlocking + f .unreg

/-- workers that decided to sleep -/
def asleep (f : Cls → Nat) : Nat := f .willWait + f .waiting

/-- calls in flight that will still wake somebody: AddTask after its push, SetWorkerCount after
    setting workerKill -/
def CState.inflight (s : CState) : Nat := s.pushed + s.adderL + s.swcPend + s.swcL

structure CInv (s : CState) : Prop where
  /-- L is held by at most one thread -/
  excl : s.adderL + s.swcL + holders s.cnt ≤ 1
  /-- while somebody sleeps, every queued task is matched by its own non-busy awake worker or by
      the Signal of its own AddTask still to come (or a SetWorkerCount broadcast, waking everybody,
      is still to come) -/
  q : 0 < asleep s.cnt → s.queue ≤ awake s.cnt + s.pushed + s.adderL ∨ 0 < s.swcPend + s.swcL
  /-- a worker that read "queue empty" under L: everything queued since then still has to signal -/
  rq : 0 < s.cnt .readQF → s.queue ≤ s.pushed
  /-- kill request and a sleeper → the broadcast of that SetWorkerCount is still to come -/
  k : 0 < s.kill → 0 < asleep s.cnt → 0 < s.swcPend + s.swcL
  /-- a worker that read "workerKill = 0" under L (kill-first order) while a kill request stands: that
      SetWorkerCount still has to take L for its broadcast -/
  rk : 0 < s.cnt .readKT → 0 < s.kill → 0 < s.swcPend + s.swcL

theorem cinv_init : CInv cinit := by
  constructor <;> simp [cinit, holders, asleep]

set_option maxHeartbeats 3200000 in
theorem cinv_step {s s' : CState} {e : CEvent} (hi : CInv s) (h : cstep s e = some s') : CInv s' := by
  obtain ⟨hx, hq, hrq, hk, hrk⟩ := hi
  simp only [holders, awake, asleep, CState.inflight] at hx hq hrq hk hrk
  cases e with
  | popNone ok =>
    cases ok <;> simp [cstep, CState.mv, clockFree, holders] at h <;> obtain ⟨_, _, rfl⟩ := h <;>
      constructor <;> simp [move, holders, awake, asleep, CState.inflight] <;> omega
  | pop ok =>
    cases ok <;> simp [cstep, CState.mv, clockFree, holders] at h <;> obtain ⟨_, _, rfl⟩ := h <;>
      constructor <;> simp [move, holders, awake, asleep, CState.inflight] <;> omega
  | killPass =>
    by_cases hj : s.kill = -1 <;> simp [cstep, CState.mv, hj] at h <;>
      (first | (obtain ⟨_, _, rfl⟩ := h) | (obtain ⟨_, rfl⟩ := h)) <;>
      constructor <;> simp [move, holders, awake, asleep, CState.inflight, hj] <;> omega
  | drainExit =>
    by_cases hj : s.kill = -1 <;> simp [cstep, CState.mv, hj] at h <;> obtain ⟨_, rfl⟩ := h <;>
      constructor <;> simp [move, holders, awake, asleep, CState.inflight, hj] <;> omega
  | swcSet c =>
    simp only [cstep] at h
    split at h
    · simp at h; subst h
      constructor <;> simp [caddHead, holders, awake, asleep, CState.inflight] <;> omega
    · split at h
      · simp at h; subst h
        constructor <;> simp [holders, awake, asleep, CState.inflight] <;> omega
      · simp at h; subst h
        constructor <;> simp [holders, awake, asleep, CState.inflight] <;> omega
  | readKillFirst =>
    by_cases hk0 : s.kill = 0 <;> simp [cstep, CState.mv, hk0] at h <;> obtain ⟨_, rfl⟩ := h <;>
      constructor <;> simp [move, holders, awake, asleep, CState.inflight, hk0] <;> omega
  | readQSecond =>
    by_cases hq0 : s.queue = 0 <;> simp [cstep, CState.mv, hq0] at h <;> obtain ⟨_, rfl⟩ := h <;>
      constructor <;> simp [move, holders, awake, asleep, CState.inflight, hq0] <;> omega
  | readQ =>
    simp only [cstep] at h
    split at h <;> simp [CState.mv] at h <;> obtain ⟨_, rfl⟩ := h <;>
      constructor <;> simp [move, holders, awake, asleep, CState.inflight] <;> omega
  | readKill p =>
    cases p <;> by_cases hk0 : s.kill = 0 <;> simp [cstep, CState.mv, hk0] at h <;> obtain ⟨_, rfl⟩ := h <;>
      constructor <;> simp [move, holders, awake, asleep, CState.inflight, hk0] <;> omega
  | aSignal w =>
    cases w <;> simp [cstep, CState.mv] at h
    · obtain ⟨_, _, rfl⟩ := h
      constructor <;> simp [move, holders, awake, asleep, CState.inflight] <;> omega
    · obtain ⟨_, _, rfl⟩ := h
      constructor <;> simp [move, holders, awake, asleep, CState.inflight] <;> omega
  | swcUp n =>
    simp [cstep] at h; subst h
    constructor <;> simp [caddHead, holders, awake, asleep, CState.inflight] <;> omega
  | swcBcast =>
    simp [cstep] at h; obtain ⟨_, rfl⟩ := h
    constructor <;> simp [cwakeAll, holders, awake, asleep, CState.inflight] <;> omega
  | bcast =>
    simp [cstep] at h; subst h
    constructor <;> simp [cwakeAll, holders, awake, asleep, CState.inflight] <;> omega
  | _ =>
    simp [cstep, CState.mv, clockFree, holders] at h <;>
    (first
      | (obtain ⟨_, _, rfl⟩ := h)
      | (obtain ⟨_, rfl⟩ := h)
      | subst h) <;>
    constructor <;> simp [move, holders, awake, asleep, CState.inflight] <;> omega

theorem cinv_reachable {c : CState} (h : CReachable c) : CInv c := by
  obtain ⟨es, hes⟩ := h
  suffices ∀ (es : List CEvent) (c0 : CState), CInv c0 → es.foldlM cstep c0 = some c → CInv c from
    this es _ cinv_init hes
  intro es
  induction es with
  | nil => intro c0 h0 h; simp [List.foldlM] at h; subst h; exact h0
  | cons e es ih =>
    intro c0 h0 h
    simp only [List.foldlM_cons] at h
    cases hs : cstep c0 e with
    | none => simp [hs] at h
    | some c1 => simp [hs] at h; exact ih c1 (cinv_step h0 hs) h

/-- events that (re)set the kill counter: a new resize or JoinAll -/
def CEvent.isResize : CEvent → Bool
  | .swcSet _ | .swcUp _ | .swcDown _ | .joinKill => true
  | _ => false

/-- after `SetWorkerCount(c)` (repaired): the workers not yet told to exit minus the kill requests
    still to be taken are exactly `c` -/
def CResize (c : Nat) (s : CState) : Prop :=
  0 ≤ s.kill ∧ (clive s.cnt : Int) = c + s.kill

theorem cresize_set {s s' : CState} {c : Nat} (h : cstep s (.swcSet c) = some s') (hk : 0 ≤ s'.kill) :
    CResize c s' := by
  simp only [cstep] at h
  split at h
  · simp at h; subst h
    refine ⟨by simp, ?_⟩
    simp [clive, caddHead]; simp only [clive] at *; omega
  · split at h
    · simp at h; subst h
      refine ⟨hk, ?_⟩
      simp at hk ⊢; omega
    · simp at h; subst h
      refine ⟨by simp, ?_⟩
      simp; omega

theorem cresize_step {s s' : CState} {c : Nat} {e : CEvent} (hi : CResize c s) (he : e.isResize = false)
    (h : cstep s e = some s') : CResize c s' := by
  obtain ⟨hk, hl⟩ := hi
  simp only [clive] at hl
  cases e with
  | swcSet _ => simp [CEvent.isResize] at he
  | swcUp _ => simp [CEvent.isResize] at he
  | swcDown _ => simp [CEvent.isResize] at he
  | joinKill => simp [CEvent.isResize] at he
  | popNone ok =>
    cases ok <;> simp [cstep, CState.mv] at h <;> obtain ⟨_, _, rfl⟩ := h <;>
      refine ⟨hk, ?_⟩ <;> simp [clive, move] <;> omega
  | pop ok =>
    cases ok <;> simp [cstep, CState.mv] at h <;> obtain ⟨_, _, rfl⟩ := h <;>
      refine ⟨hk, ?_⟩ <;> simp [clive, move] <;> omega
  | killPass =>
    have hj' : s.kill ≠ -1 := by omega
    simp [cstep, CState.mv, hj'] at h
    obtain ⟨_, _, rfl⟩ := h
    refine ⟨hk, ?_⟩; simp [clive, move]; omega
  | drainExit =>
    have hj' : s.kill ≠ -1 := by omega
    simp [cstep, CState.mv, hj'] at h
    obtain ⟨_, rfl⟩ := h
    refine ⟨hk, ?_⟩; simp [clive, move]; omega
  | killExit =>
    simp [cstep, CState.mv] at h
    obtain ⟨_, _, rfl⟩ := h
    refine ⟨by simp; omega, ?_⟩; simp [clive, move]; omega
  | readKillFirst =>
    by_cases hk0 : s.kill = 0 <;> simp [cstep, CState.mv, hk0] at h <;> obtain ⟨_, rfl⟩ := h <;>
      refine ⟨by first | exact hk | (simp [hk0]), ?_⟩ <;> simp [clive, move, hk0] <;> omega
  | readQSecond =>
    by_cases hq0 : s.queue = 0 <;> simp [cstep, CState.mv, hq0] at h <;> obtain ⟨_, rfl⟩ := h <;>
      refine ⟨hk, ?_⟩ <;> simp [clive, move] <;> omega
  | readQ =>
    simp only [cstep] at h
    split at h <;> simp [CState.mv] at h <;> obtain ⟨_, rfl⟩ := h <;>
      refine ⟨hk, ?_⟩ <;> simp [clive, move] <;> omega
  | readKill p =>
    cases p <;> by_cases hk0 : s.kill = 0 <;> simp [cstep, CState.mv, hk0] at h <;> obtain ⟨_, rfl⟩ := h <;>
      refine ⟨by simp [hk0] <;> omega, ?_⟩ <;> simp [clive, move, hk0] <;> omega
  | aSignal w =>
    cases w <;> simp [cstep, CState.mv] at h <;> obtain ⟨_, _, rfl⟩ := h <;>
      refine ⟨hk, ?_⟩ <;> simp [clive, move] <;> omega
  | swcBcast =>
    simp [cstep] at h; obtain ⟨_, rfl⟩ := h
    refine ⟨hk, ?_⟩; simp [clive, cwakeAll]; omega
  | bcast =>
    simp [cstep] at h; subst h
    refine ⟨hk, ?_⟩; simp [clive, cwakeAll]; omega
  | _ =>
    simp [cstep, CState.mv, clockFree, holders] at h <;>
    (first
      | (obtain ⟨_, _, rfl⟩ := h)
      | (obtain ⟨_, rfl⟩ := h)
      | subst h) <;>
    refine ⟨hk, ?_⟩ <;> simp [clive, move] <;> omega

/-! ### ranking: pool-internal steps that do not start a task are bounded -/

/-- events the pool performs on its own (worker steps, the rest of calls already in flight) -/
def CEvent.internal : CEvent → Bool
  | .aPush | .swcUp _ | .swcDown _ | .swcSet _ | .joinKill | .bcast => false
  | _ => true

def CEvent.isPop : CEvent → Bool
  | .pop _ => true
  | _ => false

/-- distance of the pool from the next `Pop` of a queued task: per worker the number of its own
    steps until it is at the Pop (a parked worker needs a notification first), plus the steps left
    of the calls in flight -/
def cmu (s : CState) : Nat :=
  25 * s.cnt .run + 24 * s.cnt .drained + 23 * s.cnt .noTask + 22 * s.cnt .idleReg + 21 * s.cnt .readQF
  + 20 * s.cnt .willWait + 19 * s.cnt .waiting + 18 * s.cnt .woken + 17 * s.cnt .hasL + 16 * s.cnt .readQT + 16 * s.cnt .readKT
  + 6 * s.cnt .unlocking + 5 * s.cnt .unreg + 4 * s.cnt .head + 3 * s.cnt .chkT + 3 * s.cnt .chkF
  + s.cnt .exiting + 2 * s.pushed + s.adderL + 2 * s.swcPend + s.swcL

set_option maxHeartbeats 1600000 in
theorem cmu_step {s s' : CState} {e : CEvent} (h : cstep s e = some s') (hi : e.internal = true)
    (hp : e.isPop = false) (hq : 0 < s.queue) : cmu s' + 1 ≤ cmu s ∧ s'.queue = s.queue := by
  cases e with
  | aPush => simp [CEvent.internal] at hi
  | swcUp _ => simp [CEvent.internal] at hi
  | swcDown _ => simp [CEvent.internal] at hi
  | swcSet _ => simp [CEvent.internal] at hi
  | joinKill => simp [CEvent.internal] at hi
  | bcast => simp [CEvent.internal] at hi
  | pop _ => simp [CEvent.isPop] at hp
  | popNone ok => simp [cstep] at h; omega
  | killPass =>
    by_cases hj : s.kill = -1 <;> simp [cstep, CState.mv, hj] at h <;>
      (first | (obtain ⟨_, _, rfl⟩ := h) | (obtain ⟨_, rfl⟩ := h)) <;> simp [cmu, move] <;> omega
  | drainExit =>
    by_cases hj : s.kill = -1 <;> simp [cstep, CState.mv, hj] at h <;> obtain ⟨_, rfl⟩ := h <;>
      simp [cmu, move] <;> omega
  | readKillFirst =>
    by_cases hk0 : s.kill = 0 <;> simp [cstep, CState.mv, hk0] at h <;> obtain ⟨_, rfl⟩ := h <;>
      simp [cmu, move] <;> omega
  | readQSecond =>
    have hq0 : s.queue ≠ 0 := by omega
    simp [cstep, CState.mv, hq0] at h; obtain ⟨_, rfl⟩ := h
    simp [cmu, move]; omega
  | readQ =>
    simp only [cstep] at h
    split at h <;> simp [CState.mv] at h <;> obtain ⟨_, rfl⟩ := h <;> simp [cmu, move] <;> omega
  | readKill p =>
    cases p <;> by_cases hk0 : s.kill = 0 <;> simp [cstep, CState.mv, hk0] at h <;> obtain ⟨_, rfl⟩ := h <;>
      simp [cmu, move] <;> omega
  | aSignal w =>
    cases w <;> simp [cstep, CState.mv] at h <;> obtain ⟨_, _, rfl⟩ := h <;> simp [cmu, move] <;> omega
  | swcBcast =>
    simp [cstep] at h; obtain ⟨_, rfl⟩ := h
    simp [cmu, cwakeAll]; omega
  | _ =>
    simp [cstep, CState.mv, clockFree, holders] at h <;>
    (first
      | (obtain ⟨_, _, rfl⟩ := h)
      | (obtain ⟨_, rfl⟩ := h)
      | subst h) <;>
    simp [cmu, move] <;> omega

/-! ### ranking while a JoinAll is being carried out (workerKill = -1) -/

/-- distance of the pool from "all tasks processed, all workers gone" while workerKill = -1: every
    queued task costs a full worker round, every worker its remaining steps to the exit -/
def cmuJ (s : CState) : Nat :=
  40 * s.queue + 31 * s.cnt .run + 30 * s.cnt .chkT + 29 * s.cnt .noTask + 28 * s.cnt .idleReg + 28 * s.cnt .readKT + 27 * s.cnt .willWait
  + 26 * s.cnt .waiting + 25 * s.cnt .woken + 24 * s.cnt .hasL + 23 * s.cnt .readQT + 23 * s.cnt .readQF
  + 9 * s.cnt .unlocking + 8 * s.cnt .unreg + 7 * s.cnt .head + 6 * s.cnt .chkF + 5 * s.cnt .drained
  + 4 * s.cnt .exiting + 2 * s.pushed + s.adderL + 2 * s.swcPend + s.swcL

set_option maxHeartbeats 1600000 in
theorem cmuJ_step {s s' : CState} {e : CEvent} (h : cstep s e = some s') (hi : e.internal = true)
    (hk : s.kill = -1) : cmuJ s' + 1 ≤ cmuJ s ∧ s'.kill = -1 := by
  cases e with
  | aPush => simp [CEvent.internal] at hi
  | swcUp _ => simp [CEvent.internal] at hi
  | swcDown _ => simp [CEvent.internal] at hi
  | swcSet _ => simp [CEvent.internal] at hi
  | joinKill => simp [CEvent.internal] at hi
  | bcast => simp [CEvent.internal] at hi
  | killExit => simp [cstep, hk] at h
  | pop ok =>
    cases ok <;> simp [cstep, CState.mv] at h <;> obtain ⟨_, _, rfl⟩ := h <;>
      refine ⟨?_, by first | exact hk | rfl⟩ <;> simp [cmuJ, move] <;> omega
  | popNone ok =>
    cases ok <;> simp [cstep, CState.mv] at h <;> obtain ⟨_, _, rfl⟩ := h <;>
      refine ⟨?_, by first | exact hk | rfl⟩ <;> simp [cmuJ, move] <;> omega
  | killPass =>
    simp [cstep, CState.mv, hk] at h
    obtain ⟨_, rfl⟩ := h
    refine ⟨?_, by first | exact hk | rfl⟩; simp [cmuJ, move]; omega
  | drainExit =>
    simp [cstep, CState.mv, hk] at h
    obtain ⟨_, rfl⟩ := h
    refine ⟨?_, by first | exact hk | rfl⟩; simp [cmuJ, move]; omega
  | readKillFirst =>
    simp [cstep, CState.mv, hk] at h; obtain ⟨_, rfl⟩ := h
    refine ⟨?_, by first | exact hk | rfl⟩; simp [cmuJ, move]; omega
  | readQSecond =>
    by_cases hq0 : s.queue = 0 <;> simp [cstep, CState.mv, hq0] at h <;> obtain ⟨_, rfl⟩ := h <;>
      refine ⟨?_, by first | exact hk | rfl⟩ <;> simp [cmuJ, move] <;> omega
  | readQ =>
    simp only [cstep] at h
    split at h <;> simp [CState.mv] at h <;> obtain ⟨_, rfl⟩ := h <;>
      refine ⟨?_, by first | exact hk | rfl⟩ <;> simp [cmuJ, move] <;> omega
  | readKill p =>
    cases p <;> simp [cstep, CState.mv, hk] at h <;> obtain ⟨_, rfl⟩ := h <;>
      refine ⟨?_, by first | exact hk | rfl⟩ <;> simp [cmuJ, move] <;> omega
  | aSignal w =>
    cases w <;> simp [cstep, CState.mv] at h <;> obtain ⟨_, _, rfl⟩ := h <;>
      refine ⟨?_, by first | exact hk | rfl⟩ <;> simp [cmuJ, move] <;> omega
  | swcBcast =>
    simp [cstep] at h; obtain ⟨_, rfl⟩ := h
    refine ⟨?_, by first | exact hk | rfl⟩; simp [cmuJ, cwakeAll]; omega
  | _ =>
    simp [cstep, CState.mv, clockFree, holders] at h <;>
    (first
      | (obtain ⟨_, _, rfl⟩ := h)
      | (obtain ⟨_, rfl⟩ := h)
      | subst h) <;>
    refine ⟨?_, by first | exact hk | rfl⟩ <;> simp [cmuJ, move] <;> omega

/-- JoinAll's polling broadcast never increases the measure and strictly decreases it when somebody waits -/
theorem cmuJ_bcast {s s' : CState} (h : cstep s .bcast = some s') :
    cmuJ s' + s.cnt .waiting ≤ cmuJ s ∧ s'.kill = s.kill := by
  simp [cstep] at h; subst h
  refine ⟨?_, rfl⟩
  simp [cmuJ, cwakeAll]; omega

/-! ### ranking while kill requests are pending (workerKill > 0) -/

def CEvent.isKillExit : CEvent → Bool
  | .killExit => true
  | _ => false

/-- distance of the pool from the next kill request being TAKEN while workerKill > 0: no worker passes the
    kill check (`killPass` is disabled), so every worker only moves towards the loop head, where it takes
    a request -/
def cmuK (s : CState) : Nat :=
  34 * s.cnt .chkF + 33 * s.cnt .drained + 33 * s.cnt .chkT + 32 * s.cnt .run + 31 * s.cnt .noTask + 30 * s.cnt .idleReg + 30 * s.cnt .readKT
  + 29 * s.cnt .willWait + 28 * s.cnt .waiting + 27 * s.cnt .woken + 26 * s.cnt .hasL + 25 * s.cnt .readQT
  + 25 * s.cnt .readQF + 9 * s.cnt .unlocking + 8 * s.cnt .unreg + 7 * s.cnt .head + 4 * s.cnt .exiting
  + 2 * s.pushed + s.adderL + 2 * s.swcPend + s.swcL

set_option maxHeartbeats 1600000 in
theorem cmuK_step {s s' : CState} {e : CEvent} (h : cstep s e = some s') (hi : e.internal = true)
    (hx : e.isKillExit = false) (hk : 0 < s.kill) : cmuK s' + 1 ≤ cmuK s ∧ s'.kill = s.kill := by
  have hk1 : s.kill ≠ -1 := by omega
  have hk0 : s.kill ≠ 0 := by omega
  cases e with
  | aPush => simp [CEvent.internal] at hi
  | swcUp _ => simp [CEvent.internal] at hi
  | swcDown _ => simp [CEvent.internal] at hi
  | swcSet _ => simp [CEvent.internal] at hi
  | joinKill => simp [CEvent.internal] at hi
  | bcast => simp [CEvent.internal] at hi
  | killExit => simp [CEvent.isKillExit] at hx
  | killPass => simp [cstep, hk] at h
  | pop ok =>
    cases ok <;> simp [cstep, CState.mv] at h <;> obtain ⟨_, _, rfl⟩ := h <;>
      refine ⟨?_, rfl⟩ <;> simp [cmuK, move] <;> omega
  | popNone ok =>
    cases ok <;> simp [cstep, CState.mv] at h <;> obtain ⟨_, _, rfl⟩ := h <;>
      refine ⟨?_, rfl⟩ <;> simp [cmuK, move] <;> omega
  | drainExit =>
    simp [cstep, CState.mv, hk1] at h
    obtain ⟨_, rfl⟩ := h
    refine ⟨?_, rfl⟩; simp [cmuK, move]; omega
  | readKillFirst =>
    simp [cstep, CState.mv, hk0] at h; obtain ⟨_, rfl⟩ := h
    refine ⟨?_, rfl⟩; simp [cmuK, move]; omega
  | readQSecond =>
    by_cases hq0 : s.queue = 0 <;> simp [cstep, CState.mv, hq0] at h <;> obtain ⟨_, rfl⟩ := h <;>
      refine ⟨?_, rfl⟩ <;> simp [cmuK, move] <;> omega
  | readQ =>
    simp only [cstep] at h
    split at h <;> simp [CState.mv] at h <;> obtain ⟨_, rfl⟩ := h <;>
      refine ⟨?_, rfl⟩ <;> simp [cmuK, move] <;> omega
  | readKill p =>
    cases p <;> simp [cstep, CState.mv, hk0] at h <;> obtain ⟨_, rfl⟩ := h <;>
      refine ⟨?_, rfl⟩ <;> simp [cmuK, move] <;> omega
  | aSignal w =>
    cases w <;> simp [cstep, CState.mv] at h <;> obtain ⟨_, _, rfl⟩ := h <;>
      refine ⟨?_, rfl⟩ <;> simp [cmuK, move] <;> omega
  | swcBcast =>
    simp [cstep] at h; obtain ⟨_, rfl⟩ := h
    refine ⟨?_, rfl⟩; simp [cmuK, cwakeAll]; omega
  | _ =>
    simp [cstep, CState.mv, clockFree, holders] at h <;>
    (first
      | (obtain ⟨_, _, rfl⟩ := h)
      | (obtain ⟨_, rfl⟩ := h)
      | subst h) <;>
    refine ⟨?_, rfl⟩ <;> simp [cmuK, move] <;> omega

/-- polling broadcasts do not raise the pop measure -/
theorem cmu_bcast {s s' : CState} (h : cstep s .bcast = some s') :
    cmu s' ≤ cmu s ∧ s'.queue = s.queue := by
  simp [cstep] at h; subst h
  refine ⟨?_, rfl⟩
  simp [cmu, cwakeAll]; omega

/-- reachable states of the per-worker LTS abstract to reachable counting states -/
theorem reachable_abs {s : State} (h : Reachable repaired s) : CReachable (abs s) := by
  obtain ⟨es, hes⟩ := h
  suffices ∀ (es : List Event) (s0 : State), CReachable (abs s0) → runFrom repaired s0 es = some s →
      CReachable (abs s) from this es init ⟨[], rfl⟩ hes
  intro es
  induction es with
  | nil => intro s0 h0 h; simp [runFrom, List.foldlM] at h; subst h; exact h0
  | cons e es ih =>
    intro s0 h0 h
    simp only [runFrom, List.foldlM_cons] at h
    cases hs : step repaired s0 e with
    | none => simp [hs] at h
    | some s1 =>
      simp [hs] at h
      refine ih s1 ?_ h
      obtain ⟨ces, hces⟩ := h0
      refine ⟨ces ++ [absEvent s0 e], ?_⟩
      simp [List.foldlM_append, hces, sim_step hs]

theorem inv_reachable {s : State} (h : Reachable repaired s) : CInv (abs s) :=
  cinv_reachable (reachable_abs h)

end Ecal.Pool
