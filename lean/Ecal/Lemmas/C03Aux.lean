import Ecal.Lemmas.ExprFuel
import Ecal.Gen.C03
import Ecal.Model.ExprLex
import Ecal.Lemmas.C03LexNumber
/-!
# C03 — helper lemmas of `Ecal.Props.C03` (not property statements)
-/
namespace Ecal.Props.C03
open Ecal.Expr Ecal.Expr.Spec

/-- the table of the code under test -/
abbrev T : Table := Ecal.Gen.C03.table


theorem table_fits_bin : ∀ mc ∈ MCtx.all, ∀ o ∈ BinOp.all, (fitsBin mc o = true ↔ mc.val T < bp T o) := by
  decide

theorem table_fits_pre : ∀ fc ∈ FCtx.all, ∀ p ∈ PreOp.all, (fitsPre fc p = true ↔ fc.val T ≤ pbp T p) := by
  decide

theorem table_open_high : ∀ o ∈ BinOp.all, bp T o < T.binding .lp ∧ bp T o < T.binding .lb := by decide


/-- tokens on line 1 -/
def line1 (ks : List TK) : List LTok := ks.map (LTok.mk · 1)

theorem line1_map (ks : List TK) : (line1 ks).map (·.tk) = ks := by
  simp [line1, Function.comp_def]


section Sem
variable {N : Type} (G : Cfg N)

theorem binOp_errL (o : BinOp) (n1 n2 : Str) (k : ErrKind) (s : Str) (p : Option Nat) (o2 : Out N) :
    Impl.binOp G o n1 n2 (.err k s p) o2 = .err k s p := by
  cases o <;> simp [Impl.binOp, Impl.numOp, Impl.cmpOp, Impl.strOp, Impl.genOp, Impl.boolOp, Impl.listOp, Impl.likeOp]

theorem binOp_errR (o : BinOp) (n1 n2 : Str) (v : Val N) (k : ErrKind) (s : Str) (p : Option Nat) :
    Impl.binOp G o n1 n2 (.val v) (.err k s p) = .err k s p := by
  cases o <;> simp [Impl.binOp, Impl.numOp, Impl.cmpOp, Impl.strOp, Impl.genOp, Impl.boolOp, Impl.listOp, Impl.likeOp]

theorem binOp_val (o : BinOp) (n1 n2 : Str) (v1 v2 : Val N)
    (hr : ∀ a b, o = .modint → v1 = .num a → v2 = .num b → (G.C.inInt64 a && G.C.inInt64 b) = true) :
    Impl.binOp G o n1 n2 (.val v1) (.val v2) = (Spec.binSem G o n1 n2 v1 v2).quirk := by
  cases o <;> cases v1 <;> cases v2 <;>
    simp [Impl.binOp, Impl.numOp, Impl.cmpOp, Impl.strOp, Impl.genOp, Impl.boolOp, Impl.listOp, Impl.likeOp,
      Impl.modOp, Spec.binSem, Spec.arith, Spec.compare, Spec.logic, Spec.member, Out.quirk, quirkNode] <;>
    (try split) <;> simp_all [Out.quirk, quirkNode]

theorem preOp_val (p : PreOp) (n : Str) (v : Val N) :
    Impl.preOp G.C p n (.val v) = (Spec.preSem G.C p n v).quirk := by
  cases p <;> cases v <;> simp [Impl.preOp, Impl.numVal, Impl.boolVal, Spec.preSem, Out.quirk, quirkNode]

theorem preOp_err (p : PreOp) (n : Str) (k : ErrKind) (s : Str) (q : Option Nat) :
    Impl.preOp G.C p n (.err k s q) = (.err k s q : Out N) := by
  cases p <;> simp [Impl.preOp, Impl.numVal, Impl.boolVal]

theorem quirk_val (o : Out N) (v : Val N) (h : o.quirk = .val v) : o = .val v := by
  cases o <;> simp_all [Out.quirk]

def quirkE : ErrKind × Str × Option Nat → ErrKind × Str × Option Nat
  | (k, s, p) => (k, s, quirkNode k p)

mutual
/-- evaluation as the interpreter does it = the reference semantics, except for the node an
    error about the right operand of and/or/in/notin is attached to (`Out.quirk`) — for trees
    whose `%` operands stay inside the int64 range -/
theorem eval_eq_quirk_spec_aux : ∀ (e : Expr), Spec.modInRange G e = true → Impl.eval G e = (Spec.eval G e).quirk
  | .atom a, _ => by simp [Impl.eval, Spec.eval, Out.quirk]
  | .list its, h => by
    simp only [Spec.modInRange] at h
    simp only [Impl.eval, Spec.eval, evalItems_eq its h]
    cases Spec.evalItems G its with
    | ok vs => simp [Out.quirk, Except.mapError]
    | error x => obtain ⟨k, s, p⟩ := x; simp [Out.quirk, Except.mapError, quirkE]
  | .bin o t l r, h => by
    simp only [Spec.modInRange, Bool.and_eq_true] at h
    obtain ⟨⟨hl', hr'⟩, hm⟩ := h
    simp only [Impl.eval, Spec.eval, eval_eq_quirk_spec_aux l hl', eval_eq_quirk_spec_aux r hr']
    cases hl : Spec.eval G l with
    | err k s p => simp [Out.quirk, binOp_errL]
    | val v1 =>
      cases hr : Spec.eval G r with
      | err k s p => simp [Out.quirk, binOp_errR]
      | val v2 =>
        simp only [Out.quirk]
        apply binOp_val
        intro a b ho h1 h2
        subst ho h1 h2
        simpa [hl, hr] using hm
  | .pre p t x, h => by
    simp only [Spec.modInRange] at h
    simp only [Impl.eval, Spec.eval, eval_eq_quirk_spec_aux x h]
    cases Spec.eval G x with
    | err k s q => simp [Out.quirk, preOp_err]
    | val v => simp [Out.quirk, preOp_val]
/-- the list literal: as the reference, with the errors of the elements as the code attaches them -/
theorem evalItems_eq : ∀ (its : Items), Spec.modInRangeItems G its = true →
    Impl.evalItems G its = (Spec.evalItems G its).mapError quirkE
  | .nil, _ => by simp [Impl.evalItems, Spec.evalItems, Except.mapError]
  | .cons e rest, h => by
    simp only [Spec.modInRangeItems, Bool.and_eq_true] at h
    simp only [Impl.evalItems, Spec.evalItems, eval_eq_quirk_spec_aux e h.1, evalItems_eq rest h.2]
    cases Spec.eval G e with
    | err k s p => simp [Out.quirk, Except.mapError, quirkE]
    | val v =>
      cases Spec.evalItems G rest with
      | ok vs => simp [Out.quirk, Except.mapError]
      | error x => simp [Out.quirk, Except.mapError]
end

theorem core_quirk (o : Out N) : o.quirk.core = o.core := by
  cases o <;> rfl


end Sem

theorem convAll_cons (num : List (Str × Nat)) (x : Ecal.Lex.Tok) (l : List Ecal.Lex.Tok) (ts : List LTok)
    (h : convAll num (x :: l) = some ts) :
    ∃ a as, convTok num x = some a ∧ convAll num l = some as ∧ ts = a :: as := by
  rw [convAll] at h
  cases hx : convTok num x with
  | none => simp [hx] at h
  | some a =>
    cases hr : convAll num l with
    | none => simp [hx, hr] at h
    | some as => simp [hx, hr] at h; exact ⟨a, as, rfl, rfl, h.symm⟩

theorem convAll_last (num : List (Str × Nat)) : ∀ (l : List Ecal.Lex.Tok) (ts : List LTok) (t : Ecal.Lex.Tok),
    convAll num l = some ts → l.getLast? = some t → ∃ t', ts.getLast? = some t' ∧ convTok num t = some t'
  | [], _, _, _, h => by simp at h
  | [x], ts, t, hc, h => by
    simp only [List.getLast?_singleton, Option.some.injEq] at h
    subst h
    obtain ⟨a, as, h1, h2, rfl⟩ := convAll_cons num _ _ _ hc
    simp only [convAll, Option.some.injEq] at h2
    subst h2
    exact ⟨a, by simp, h1⟩
  | x :: y :: rest, ts, t, hc, h => by
    obtain ⟨a, as, _, h2, rfl⟩ := convAll_cons num _ _ _ hc
    have h' : (y :: rest).getLast? = some t := by simpa [List.getLast?_cons_cons] using h
    obtain ⟨t', h1, h3⟩ := convAll_last num (y :: rest) as t h2 h'
    refine ⟨t', ?_, h3⟩
    cases as with
    | nil => simp at h1
    | cons b bs => simpa [List.getLast?_cons_cons] using h1

theorem filter_getLast {α : Type} (p : α → Bool) : ∀ (l : List α) (t : α), l.getLast? = some t → p t = true →
    (l.filter p).getLast? = some t
  | [], _, h, _ => by simp at h
  | [x], t, h, hp => by
    simp only [List.getLast?_singleton, Option.some.injEq] at h
    subst h
    simp [List.filter, hp]
  | x :: y :: rest, t, h, hp => by
    have h' : (y :: rest).getLast? = some t := by simpa [List.getLast?_cons_cons] using h
    have ih := filter_getLast p (y :: rest) t h' hp
    rw [List.filter_cons (x := x)]
    split
    · cases hf : (y :: rest).filter p with
      | nil => rw [hf] at ih; simp at ih
      | cons b bs => rw [hf] at ih; simpa [List.getLast?_cons_cons] using ih
    · exact ih


end Ecal.Props.C03

/-! ### every error of the reference evaluation (and its variant as the code attaches it) is admissible -/
namespace Ecal.Props.C03
open Ecal.Expr Ecal.Expr.Spec

section Adm
variable {N : Type} (G : Cfg N)

theorem binSem_err_mem (o : BinOp) (n1 n2 : Str) (v1 v2 : Val N) (k : ErrKind) (s : Str) (p : Option Nat)
    (h : Spec.binSem G o n1 n2 v1 v2 = .err k s p) :
    (k, s, p) ∈ ownLeft o n1 v1 ++ ownRight o n2 v2 ++ ownBoth G o v1 v2 ∧
    (k, s, quirkNode k p) ∈ ownLeft o n1 v1 ++ ownRight o n2 v2 ++ ownBoth G o v1 v2 := by
  cases o <;> cases v1 <;> cases v2 <;>
    simp only [Spec.binSem, Spec.arith, Spec.logic, Spec.member, Spec.compare] at h <;>
    (try (split at h)) <;> (try (split at h)) <;> (try (split at h)) <;>
    (try cases h) <;>
    simp_all [ownLeft, ownRight, ownBoth, quirkNode] <;>
    (try (split <;> simp_all))

mutual
theorem spec_err_mem : ∀ (e : Expr) (k : ErrKind) (s : Str) (p : Option Nat), Spec.eval G e = .err k s p →
    (k, s, p) ∈ Spec.errSet G e ∧ (k, s, quirkNode k p) ∈ Spec.errSet G e
  | .atom a, k, s, p, h => by simp [Spec.eval] at h
  | .list its, k, s, p, h => by
    simp only [Spec.eval] at h
    cases hi : Spec.evalItems G its with
    | ok vs => rw [hi] at h; cases h
    | error x =>
      obtain ⟨k', s', p'⟩ := x
      rw [hi] at h
      simp only [Out.err.injEq] at h
      obtain ⟨rfl, rfl, rfl⟩ := h
      simpa [Spec.errSet] using specItems_err_mem its _ _ _ hi
  | .bin o t l r, k, s, p, h => by
    simp only [Spec.eval] at h
    simp only [Spec.errSet]
    cases hl : Spec.eval G l with
    | err k1 s1 p1 =>
      rw [hl] at h
      simp only [Out.err.injEq] at h
      obtain ⟨rfl, rfl, rfl⟩ := h
      have := spec_err_mem l _ _ _ hl
      simp [this.1, this.2]
    | val v1 =>
      rw [hl] at h
      cases hr : Spec.eval G r with
      | err k2 s2 p2 =>
        rw [hr] at h
        simp only [Out.err.injEq] at h
        obtain ⟨rfl, rfl, rfl⟩ := h
        have := spec_err_mem r _ _ _ hr
        simp [this.1, this.2]
      | val v2 =>
        rw [hr] at h
        have := binSem_err_mem G o (opName l) (opName r) v1 v2 k s p h
        simp only [List.mem_append] at this ⊢
        exact ⟨Or.inr this.1, Or.inr this.2⟩
  | .pre q t x, k, s, p, h => by
    simp only [Spec.eval] at h
    simp only [Spec.errSet]
    cases hx : Spec.eval G x with
    | err k1 s1 p1 =>
      rw [hx] at h
      simp only [Out.err.injEq] at h
      obtain ⟨rfl, rfl, rfl⟩ := h
      have := spec_err_mem x _ _ _ hx
      simp [this.1, this.2]
    | val v =>
      rw [hx] at h
      simp only [h, List.mem_append, List.mem_singleton, true_or, or_true, true_and]
      right
      -- a prefix operator's error is attached to child 0: the code's variant is the same
      cases q <;> cases v <;> simp [Spec.preSem] at h <;> (obtain ⟨rfl, rfl, rfl⟩ := h) <;> simp [quirkNode]
theorem specItems_err_mem : ∀ (its : Items) (k : ErrKind) (s : Str) (p : Option Nat),
    Spec.evalItems G its = .error (k, s, p) →
    (k, s, p) ∈ Spec.errSetItems G its ∧ (k, s, quirkNode k p) ∈ Spec.errSetItems G its
  | .nil, k, s, p, h => by simp [Spec.evalItems] at h
  | .cons e rest, k, s, p, h => by
    simp only [Spec.evalItems] at h
    simp only [Spec.errSetItems, List.mem_append]
    cases he : Spec.eval G e with
    | err k1 s1 p1 =>
      rw [he] at h
      simp only [Except.error.injEq, Prod.mk.injEq] at h
      obtain ⟨rfl, rfl, rfl⟩ := h
      have := spec_err_mem e _ _ _ he
      exact ⟨Or.inl this.1, Or.inl this.2⟩
    | val v =>
      rw [he] at h
      cases hr : Spec.evalItems G rest with
      | ok vs => rw [hr] at h; cases h
      | error x =>
        rw [hr] at h
        simp only [Except.error.injEq] at h
        subst h
        have := specItems_err_mem rest _ _ _ hr
        exact ⟨Or.inr this.1, Or.inr this.2⟩
end

end Adm
end Ecal.Props.C03

/-! ### number atoms of the driver's token list come from NUMBER tokens of the lexer model -/
namespace Ecal.Props.C03
open Ecal.Expr

theorem convAll_mem (num : List (Str × Nat)) : ∀ (l : List Ecal.Lex.Tok) (ts : List LTok),
    convAll num l = some ts → ∀ t' ∈ ts, ∃ t ∈ l, convTok num t = some t'
  | [], ts, h, t', ht' => by simp [convAll] at h; subst h; cases ht'
  | x :: l, ts, h, t', ht' => by
    obtain ⟨a, as, h1, h2, rfl⟩ := convAll_cons num x l ts h
    rcases List.mem_cons.1 ht' with rfl | hm
    · exact ⟨x, List.mem_cons_self, h1⟩
    · obtain ⟨t, ht, hc⟩ := convAll_mem num l as h2 t' hm
      exact ⟨t, List.mem_cons_of_mem _ ht, hc⟩

theorem tkOfLex_num (num : List (Str × Nat)) (t : Ecal.Lex.Tok) (txt : Str) (b : Nat)
    (h : tkOfLex num t = some (.atom (.num txt b))) : t.id = Ecal.Lex.tNUMBER ∧ txt = t.val := by
  unfold tkOfLex at h
  split at h
  · cases h
  · split at h
    · cases h
    · split at h
      · cases h
      · split at h
        · rename_i hid
          simp only [Option.map_eq_some_iff] at h
          obtain ⟨p, _, hp⟩ := h
          obtain ⟨p1, p2⟩ := p
          simp only [Option.some.injEq, TK.atom.injEq, Atom.num.injEq] at hp
          exact ⟨hid, hp.1.symm⟩
        · split at h
          · cases h
          · split at h <;> (try cases h)
            rename_i s _ _ _ _ _ _ _ _ _
            simp only [Option.some.injEq] at h
            split at h <;> cases h

end Ecal.Props.C03

namespace Ecal.Props.C03
open Ecal.Expr Ecal.Expr.Spec

/-- the list value `[a₁, …, aₙ]` of literals / identifiers -/
def atomItems : List Atom → Items
  | [] => .nil
  | a :: as => .cons (.atom a) (atomItems as)

theorem atomItems_prints : ∀ (as : List Atom), PrintsItems (atomItems as) (as.map TK.atom ++ [.rb])
  | [] => PrintsItems.nil
  | [a] => PrintsItems.last (ts := [.atom a]) Prints.atom
  | a :: b :: rest =>
    PrintsItems.juxt (ts := [.atom a]) (a := b) (tl := rest.map TK.atom ++ [.rb]) Prints.atom
      (atomItems_prints (b :: rest)) rfl

end Ecal.Props.C03
