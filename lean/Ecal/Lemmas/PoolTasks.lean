import Ecal.Lemmas.PoolInv
/-! Task accounting on the per-worker LTS, and enabledness of worker steps. -/
namespace Ecal.Pool

theorem countP_set_gen (P : PC → Bool) {pcs : List PC} {i : Nat} {p : PC} (q : PC) (h : pcs[i]? = some p) :
    (pcs.set i q).countP P + (if P p then 1 else 0) = pcs.countP P + (if P q then 1 else 0) := by
  induction pcs generalizing i with
  | nil => simp at h
  | cons x xs ih =>
    cases i with
    | zero => simp at h; subst h; simp [List.countP_cons]; omega
    | succ j => simp at h; have := ih h; simp [List.countP_cons]; omega

/-- number of workers running task `t` -/
def runCount (pcs : List PC) (t : Task) : Nat := pcs.countP (fun p => p == .run t)

theorem running_count (pcs : List PC) (t : Task) :
    (pcs.filterMap PC.task?).count t = runCount pcs t := by
  induction pcs with
  | nil => simp [runCount]
  | cons x xs ih =>
    cases x <;> simp_all [List.filterMap_cons, PC.task?, runCount, List.countP_cons, List.count_cons]

theorem runCount_set {pcs : List PC} {i : Nat} {p : PC} (q : PC) (t : Task) (h : pcs[i]? = some p) :
    runCount (pcs.set i q) t + (if p = .run t then 1 else 0) = runCount pcs t + (if q = .run t then 1 else 0) := by
  have := countP_set_gen (fun p => p == .run t) q h
  simpa [runCount] using this

theorem runCount_wakeAll (pcs : List PC) (t : Task) : runCount (wakeAll pcs) t = runCount pcs t := by
  induction pcs with
  | nil => simp [wakeAll, runCount]
  | cons x xs ih =>
    have ih' : runCount (wakeAll xs) t = runCount xs t := ih
    simp only [runCount, wakeAll, List.map_cons, List.countP_cons] at ih' ⊢
    rw [ih']
    cases x <;> simp

theorem runCount_spawn (pcs : List PC) (n : Nat) (t : Task) :
    runCount (pcs ++ List.replicate n .head) t = runCount pcs t := by
  simp [runCount, List.countP_append, List.countP_replicate]

/-- the accounting invariant, per task -/
def Accounted (s : State) : Prop :=
  ∀ t, s.added.count t = s.queue.count t + runCount s.pcs t + s.done.count t

theorem accounted_init : Accounted init := by intro t; simp [init, runCount]

theorem accounted_step {v : Variant} {s s' : State} {e : Event} (ha : Accounted s)
    (h : step v s e = some s') : Accounted s' := by
  intro t0
  have h0 := ha t0
  cases e with
  | pop i t =>
    simp only [step] at h
    split at h <;> try (simp at h)
    rename_i hi
    obtain ⟨hmem, rfl⟩ := h
    have := runCount_set (.run t) t0 hi
    have hc : 0 < s.queue.count t := List.count_pos_iff.2 hmem
    simp [State.goto, List.count_erase] at this h0 ⊢
    by_cases ht : t = t0
    · subst ht; simp at this ⊢; omega
    · have ht' : ¬ t0 = t := fun h => ht h.symm
      simp [ht, ht'] at this ⊢; omega
  | finish i =>
    simp only [step] at h
    split at h <;> try (simp at h)
    rename_i t hi
    subst h
    have := runCount_set .head t0 hi
    simp [State.goto, List.count_cons] at this h0 ⊢
    omega
  | aPush t =>
    simp [step] at h; subst h
    simp [List.count_cons, List.count_append] at h0 ⊢
    omega
  | aLock =>
    simp only [step] at h
    split at h <;> simp at h
    subst h; exact h0
  | aSignal w =>
    simp only [step] at h
    cases hv : v.signalLocked <;> simp [hv] at h <;> obtain ⟨_, h⟩ := h <;> cases w <;> simp at h
    all_goals first
      | (obtain ⟨_, rfl⟩ := h; exact h0)
      | (split at h <;> try (simp at h)
         rename_i hi
         subst h
         have := runCount_set .woken t0 hi
         simp [State.goto] at this h0 ⊢; omega)
  | swcUp n => simp [step] at h; subst h; simpa [runCount_spawn] using h0
  | swcDown k => simp [step] at h; subst h; exact h0
  | swcSet c =>
    simp only [step] at h
    split at h
    · simp at h; subst h; simpa [runCount_spawn] using h0
    · split at h <;> simp at h <;> subst h <;> exact h0
  | swcLock =>
    simp only [step] at h
    split at h <;> simp at h
    subst h; exact h0
  | swcBcast =>
    simp only [step] at h
    split at h <;> simp at h
    subst h; simpa [runCount_wakeAll] using h0
  | joinKill => simp [step] at h; subst h; exact h0
  | bcast => simp [step] at h; subst h; simpa [runCount_wakeAll] using h0
  | killExit i =>
    simp only [step] at h
    split at h <;> try (simp at h)
    rename_i hi
    obtain ⟨_, rfl⟩ := h
    have := runCount_set .exiting t0 hi
    simp [State.goto] at this h0 ⊢; omega
  | killPass i =>
    simp only [step] at h
    split at h <;> try (simp at h)
    rename_i hi
    obtain ⟨_, rfl⟩ := h
    have := runCount_set (.chk (s.kill != -1)) t0 hi
    simp [State.goto] at this h0 ⊢; omega
  | popNone i =>
    simp only [step] at h
    split at h <;> try (simp at h)
    rename_i ok hi hq
    subst h
    have := runCount_set (if ok then .noTask else .drained) t0 hi
    cases ok <;> simp [State.goto] at this h0 ⊢ <;> omega
  | drainExit i =>
    simp only [step] at h
    split at h <;> try (simp at h)
    rename_i hi
    subst h
    have := runCount_set (if s.kill == -1 then .exiting else .noTask) t0 hi
    by_cases hk : s.kill = -1 <;> simp [State.goto, hk] at this h0 ⊢ <;> omega
  | regIdle i =>
    simp only [step] at h
    split at h <;> try (simp at h)
    rename_i hi
    subst h
    have := runCount_set .idleReg t0 hi
    simp [State.goto] at this h0 ⊢; omega
  | wLock i =>
    simp only [step] at h
    split at h <;> try (simp at h)
    rename_i hi
    obtain ⟨_, rfl⟩ := h
    cases hr : v.recheck
    · have := runCount_set .willWait t0 hi
      simp [State.goto] at this h0 ⊢; omega
    · have := runCount_set .hasL t0 hi
      simp [State.goto] at this h0 ⊢; omega
  | readQ i =>
    simp only [step] at h
    split at h
    · rename_i hi
      simp at h; subst h
      have := runCount_set (.readQ (!s.queue.isEmpty)) t0 hi
      simp [State.goto] at this h0 ⊢; omega
    · rename_i z hi
      simp at h; subst h
      have := runCount_set (if s.queue.isEmpty && z then .willWait else .unlocking) t0 hi
      cases z <;> cases hq : s.queue <;> simp [State.goto, hq] at this h0 ⊢ <;> omega
    · simp at h
  | readKill i =>
    simp only [step] at h
    split at h
    · rename_i p hi
      simp at h; subst h
      have := runCount_set (if !p && s.kill == 0 then .willWait else .unlocking) t0 hi
      cases p <;> by_cases hk : s.kill = 0 <;> simp [State.goto, hk] at this h0 ⊢ <;> omega
    · rename_i hi
      simp at h; subst h
      have := runCount_set (.readK (s.kill == 0)) t0 hi
      simp [State.goto] at this h0 ⊢; omega
    · simp at h
  | wWait i =>
    simp only [step] at h
    split at h <;> try (simp at h)
    rename_i hi
    subst h
    have := runCount_set .waiting t0 hi
    simp [State.goto] at this h0 ⊢; omega
  | wRelock i =>
    simp only [step] at h
    split at h <;> try (simp at h)
    rename_i hi
    obtain ⟨_, rfl⟩ := h
    have := runCount_set .unlocking t0 hi
    simp [State.goto] at this h0 ⊢; omega
  | wRecheck i =>
    simp only [step] at h
    split at h <;> try (simp at h)
    rename_i hi
    obtain ⟨_, rfl⟩ := h
    have := runCount_set .hasL t0 hi
    simp [State.goto] at this h0 ⊢; omega
  | wUnlock i =>
    simp only [step] at h
    split at h <;> try (simp at h)
    rename_i hi
    subst h
    have := runCount_set .unreg t0 hi
    simp [State.goto] at this h0 ⊢; omega
  | unregIdle i =>
    simp only [step] at h
    split at h <;> try (simp at h)
    rename_i hi
    subst h
    have := runCount_set .head t0 hi
    simp [State.goto] at this h0 ⊢; omega
  | exit i =>
    simp only [step] at h
    split at h <;> try (simp at h)
    rename_i hi
    subst h
    have := runCount_set .gone t0 hi
    simp [State.goto] at this h0 ⊢; omega

theorem accounted_reachable {v : Variant} {s : State} (h : Reachable v s) : Accounted s := by
  obtain ⟨es, hes⟩ := h
  suffices ∀ (es : List Event) (s0 : State), Accounted s0 → runFrom v s0 es = some s → Accounted s from
    this es init accounted_init hes
  intro es
  induction es with
  | nil => intro s0 h0 h; simp [runFrom, List.foldlM] at h; subst h; exact h0
  | cons e es ih =>
    intro s0 h0 h
    simp only [runFrom, List.foldlM_cons] at h
    cases hs : step v s0 e with
    | none => simp [hs] at h
    | some s1 => simp [hs] at h; exact ih s1 (accounted_step h0 hs) h

end Ecal.Pool
