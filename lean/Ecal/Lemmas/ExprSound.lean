import Ecal.Lemmas.ExprParse
/-!
# C03 — converse: whatever the parser accepts is a writing of the tree it returns

`PrintsW` is `Spec.Prints` with the list forms the parser also accepts (elements without
commas between them). `run_sound` / `loop_sound` / `items_sound`: every successful run of
the executable functions consumed tokens that are a `PrintsW` writing of the result.
-/
namespace Ecal.Expr
open Spec

mutual
inductive PrintsW : Expr → MCtx → FCtx → List TK → Prop
  | atom {a mc fc} : PrintsW (.atom a) mc fc [.atom a]
  | list {its ts mc fc} : PrintsItemsW its ts → PrintsW (.list its) mc fc (.lb :: ts)
  | bin {o txt l r mc fc tl tr} : fitsBin mc o = true → PrintsW l (.leftOf o) (.before o) tl →
      PrintsW r (.rightOf o) fc tr → PrintsW (.bin o txt l r) mc fc (tl ++ (.op o txt :: tr))
  | pre {p txt x mc fc tx} : fitsPre fc p = true → PrintsW x (.operandOf p) fc tx →
      PrintsW (.pre p txt x) mc fc (preTok p txt :: tx)
  | paren {e ts mc fc} : PrintsW e .top .none ts → PrintsW e mc fc (.lp :: (ts ++ [.rp]))
inductive PrintsItemsW : Items → List TK → Prop
  | nil : PrintsItemsW .nil [.rb]
  | comma {e rest ts ts'} : PrintsW e .top .none ts → PrintsItemsW rest ts' →
      PrintsItemsW (.cons e rest) (ts ++ (.comma :: ts'))
  /-- the parser does not insist on commas: the next element (or `]`) may follow directly -/
  | juxt {e rest ts ts'} : PrintsW e .top .none ts → PrintsItemsW rest ts' →
      PrintsItemsW (.cons e rest) (ts ++ ts')
end

mutual
theorem Prints.toW : ∀ {e mc fc ts}, Prints e mc fc ts → PrintsW e mc fc ts
  | _, _, _, _, .atom => .atom
  | _, _, _, _, .list h => .list (PrintsItems.toW h)
  | _, _, _, _, .bin hf hl hr => .bin hf (Prints.toW hl) (Prints.toW hr)
  | _, _, _, _, .pre hf hx => .pre hf (Prints.toW hx)
  | _, _, _, _, .paren h => .paren (Prints.toW h)
theorem PrintsItems.toW : ∀ {its ts}, PrintsItems its ts → PrintsItemsW its ts
  | _, _, .nil => .nil
  | _, _, .last h => .juxt (Prints.toW h) .nil
  | _, _, .cons h hr => .comma (Prints.toW h) (PrintsItems.toW hr)
  | _, _, .juxt h hr _ => .juxt (Prints.toW h) (PrintsItems.toW hr)
end

section
variable (T : Table)

/-- binding of the next token if it can continue an expression (an operator), else 0 -/
def elbp : List TK → Nat
  | .op o _ :: _ => bp T o
  | _ => 0

/-- the follow context describes what really follows -/
def FcFor (fc : FCtx) (ks : List TK) : Prop :=
  fc = .none ∨ ∃ o txt r, ks = .op o txt :: r ∧ fc = .before o

def RunS (f : Nat) : Prop :=
  ∀ m ts e ln rest, Impl.run T f m ts = .ok (e, ln, rest) →
    ∃ ks, ts.map (·.tk) = ks ++ rest.map (·.tk) ∧ elbp T (rest.map (·.tk)) ≤ m ∧
      ∀ mc fc, mc.val T ≤ m → FcFor fc (rest.map (·.tk)) → PrintsW e mc fc ks

def LoopS (f : Nat) : Prop :=
  ∀ m left ll ts e ln rest, Impl.loop T f m left ll ts = .ok (e, ln, rest) →
    ∀ kl t, m < t → elbp T (ts.map (·.tk)) ≤ t →
      (∀ mc fc, mc.val T < t → FcFor fc (ts.map (·.tk)) → PrintsW left mc fc kl) →
      ∃ ks, kl ++ ts.map (·.tk) = ks ++ rest.map (·.tk) ∧ elbp T (rest.map (·.tk)) ≤ m ∧
        ∀ mc fc, mc.val T ≤ m → FcFor fc (rest.map (·.tk)) → PrintsW e mc fc ks

def ItemsS (f : Nat) : Prop :=
  ∀ ts its rest, Impl.items T f ts = .ok (its, rest) →
    ∃ ks, ts.map (·.tk) = ks ++ rest.map (·.tk) ∧ PrintsItemsW its ks
end

section
variable {T : Table}

theorem elbp_le_of_stop (H : Compat T) {m : Nat} {t : LTok} {ts : List LTok}
    (h : ¬ m < T.binding t.tk.kind ∨ T.led t.tk.kind = .none) : elbp T ((t :: ts).map (·.tk)) ≤ m := by
  simp only [List.map_cons]
  cases htk : t.tk with
  | op o txt =>
    simp only [elbp, bp]
    rw [htk] at h
    simp only [TK.kind] at h
    rcases h with h | h
    · omega
    · rw [H.ledOp o] at h; cases h
  | _ => simp [elbp]

theorem loop_sound_step (H : Compat T) (g : Nat) (ihR : RunS T g) (ihL : LoopS T g) : LoopS T (g + 1) := by
  intro m left ll ts e ln rest h kl t hmt helbp HL
  match ts with
  | [] =>
    simp only [Impl.loop] at h
    injection h with h; injection h with h1 h2; injection h2 with h2 h3
    subst h1 h3
    exact ⟨kl, rfl, by simp [elbp], fun mc fc hmc hfc => HL mc fc (by omega) hfc⟩
  | t0 :: ts' =>
    simp only [Impl.loop] at h
    have stop : ∀ (hstop : ¬ m < T.binding t0.tk.kind ∨ T.led t0.tk.kind = .none),
        (Except.ok (left, ll, t0 :: ts') : PRes _) = .ok (e, ln, rest) →
        ∃ ks, kl ++ (t0 :: ts').map (·.tk) = ks ++ rest.map (·.tk) ∧ elbp T (rest.map (·.tk)) ≤ m ∧
          ∀ mc fc, mc.val T ≤ m → FcFor fc (rest.map (·.tk)) → PrintsW e mc fc ks := by
      intro hstop heq
      injection heq with heq; injection heq with h1 h2; injection h2 with h2 h3
      subst h1 h3
      exact ⟨kl, rfl, elbp_le_of_stop H hstop, fun mc fc hmc hfc => HL mc fc (by omega) hfc⟩
    split at h
    · rename_i hlt
      split at h
      · rename_i hled
        split at h
        · exact stop (Or.inr hled) h
        · cases h
      · split at h
        · rename_i hled
          split at h
          · rename_i o txt htk
            split at h
            · rename_i r ln1 ts1 hrun
              obtain ⟨kr, hkr, helr, Pr⟩ := ihR _ _ _ _ _ hrun
              have hbp : T.binding (.op o) + T.infixExtra - T.infixSub = bp T o := by
                simp [bp, H.infix0, H.infixSub0]
              rw [hbp] at helr Pr
              have hlt' : m < bp T o := by rw [htk] at hlt; simpa [TK.kind, bp] using hlt
              have hot : bp T o ≤ t := by
                simp only [List.map_cons, htk, elbp] at helbp; exact helbp
              have hpos := H.pos o
              obtain ⟨ks, hks, hel, P⟩ := ihL _ _ _ _ _ _ _ h (kl ++ (.op o txt :: kr)) (bp T o) hlt' helr (by
                intro mc fc hmc hfc
                apply PrintsW.bin ((H.bin mc o).2 hmc)
                · apply HL
                  · simp only [MCtx.val]; omega
                  · right; exact ⟨o, txt, ts'.map (·.tk), by simp [htk], rfl⟩
                · exact Pr _ _ (by simp [MCtx.val]) hfc)
              refine ⟨ks, ?_, hel, P⟩
              rw [← hks]
              simp [htk, hkr, List.append_assoc]
            · cases h
          · cases h
        · cases h
    · rename_i hlt
      exact stop (Or.inl hlt) h

theorem sound_step (H : Compat T) (g : Nat) (ihR : RunS T g) (ihL : LoopS T g) (ihI : ItemsS T g) :
    RunS T (g + 1) ∧ ItemsS T (g + 1) := by
  refine ⟨?_, ?_⟩
  · intro m ts e ln rest h
    match ts with
    | [] => simp [Impl.run] at h
    | t :: tt =>
      simp only [Impl.run] at h
      -- a null denotation result `left` written as `kl` in every context, followed by the loop
      have viaLoop : ∀ (left : Expr) (ll : Nat) (ts1 : List LTok) (kl : List TK),
          Impl.loop T g m left ll ts1 = .ok (e, ln, rest) →
          (∀ mc fc, FcFor fc (ts1.map (·.tk)) → PrintsW left mc fc kl) →
          ∃ ks, kl ++ ts1.map (·.tk) = ks ++ rest.map (·.tk) ∧ elbp T (rest.map (·.tk)) ≤ m ∧
            ∀ mc fc, mc.val T ≤ m → FcFor fc (rest.map (·.tk)) → PrintsW e mc fc ks := by
        intro left ll ts1 kl hl HL
        exact ihL _ _ _ _ _ _ _ hl kl (m + elbp T (ts1.map (·.tk)) + 1) (by omega) (by omega)
          (fun mc fc _ hfc => HL mc fc hfc)
      split at h
      · -- atom
        rename_i a htk
        have fin : Impl.loop T g m (.atom a) t.line tt = .ok (e, ln, rest) →
            ∃ ks, (t :: tt).map (·.tk) = ks ++ rest.map (·.tk) ∧ elbp T (rest.map (·.tk)) ≤ m ∧
              ∀ mc fc, mc.val T ≤ m → FcFor fc (rest.map (·.tk)) → PrintsW e mc fc ks := by
          intro hl
          obtain ⟨ks, hks, r2, r3⟩ := viaLoop _ _ _ [.atom a] hl (fun _ _ _ => PrintsW.atom)
          exact ⟨ks, by simpa [htk] using hks, r2, r3⟩
        split at h
        · exact fin h
        · split at h
          · split at h
            · cases h
            · exact fin h
          · split at h <;> cases h
      · -- lp
        rename_i htk
        split at h
        · split at h
          · rename_i e1 ln1 ts1 hrun
            obtain ⟨k1, hk1, _, P1⟩ := ihR _ _ _ _ _ hrun
            split at h
            · rename_i l2 ts2
              obtain ⟨ks, hks, r2, r3⟩ := viaLoop _ _ _ (.lp :: (k1 ++ [.rp])) h
                (fun mc fc _ => PrintsW.paren (P1 .top .none (by simp [MCtx.val]) (Or.inl rfl)))
              refine ⟨ks, ?_, r2, r3⟩
              rw [← hks]
              simp [htk, hk1, List.append_assoc]
            · cases h
          · cases h
        · cases h
      · -- lb
        rename_i htk
        split at h
        · split at h
          · rename_i its ts1 hit
            obtain ⟨ki, hki, Pi⟩ := ihI _ _ _ hit
            obtain ⟨ks, hks, r2, r3⟩ := viaLoop _ _ _ (.lb :: ki) h (fun mc fc _ => PrintsW.list Pi)
            refine ⟨ks, ?_, r2, r3⟩
            rw [← hks]
            simp [htk, hki]
          · cases h
        · cases h
      · cases h
      · -- prefix operators
        rename_i tk0 _ _ _ _
        split at h
        · split at h
          · rename_i p txt hpre
            split at h
            · rename_i x ln1 ts1 hrun
              obtain ⟨kx, hkx, helx, Px⟩ := ihR _ _ _ _ _ hrun
              have htk : t.tk = preTok p txt := preOf_some hpre
              have hb : T.binding t.tk.kind + T.prefixExtra - T.prefixSub = pbp T p := by
                rw [htk, preTok_kind]; rfl
              rw [hb] at helx Px
              obtain ⟨ks, hks, r2, r3⟩ := viaLoop _ _ _ (preTok p txt :: kx) h (by
                intro mc fc hfc
                apply PrintsW.pre
                · apply (H.pre fc p).2
                  rcases hfc with rfl | ⟨o, txt', r, hr, rfl⟩
                  · simp [FCtx.val]
                  · rw [hr] at helx; simpa [elbp, FCtx.val] using helx
                · exact Px _ _ (by simp [MCtx.val]) hfc)
              refine ⟨ks, ?_, r2, r3⟩
              rw [← hks]
              simp [htk, hkx]
            · cases h
          · cases h
        · split at h <;> cases h
  · intro ts its rest h
    match ts with
    | [] => simp [Impl.items] at h
    | t :: tt =>
      simp only [Impl.items] at h
      split at h
      · rename_i hrb
        injection h with h; injection h with h1 h2
        subst h1 h2
        exact ⟨[.rb], by simp [hrb], PrintsItemsW.nil⟩
      · split at h
        · cases h
        · split at h
          · rename_i e ln1 ts1 hrun
            obtain ⟨ke, hke, _, Pe⟩ := ihR _ _ _ _ _ hrun
            split at h
            · rename_i irest ts2 hit
              injection h with h; injection h with h1 h2
              subst h1 h2
              obtain ⟨kr, hkr, Pr⟩ := ihI _ _ _ hit
              have pe := Pe .top .none (by simp [MCtx.val]) (Or.inl rfl)
              match ts1, hke, hkr with
              | ⟨.comma, l⟩ :: ts1', hke, hkr =>
                simp only [dropComma] at hkr
                exact ⟨ke ++ (.comma :: kr), by rw [hke]; simp [hkr], PrintsItemsW.comma pe Pr⟩
              | [], hke, hkr =>
                simp only [dropComma] at hkr
                exact ⟨ke ++ kr, by rw [hke, hkr]; simp, PrintsItemsW.juxt pe Pr⟩
              | ⟨.atom _, l⟩ :: ts1', hke, hkr | ⟨.lp, l⟩ :: ts1', hke, hkr | ⟨.rp, l⟩ :: ts1', hke, hkr
              | ⟨.lb, l⟩ :: ts1', hke, hkr | ⟨.rb, l⟩ :: ts1', hke, hkr | ⟨.eof, l⟩ :: ts1', hke, hkr
              | ⟨.not _, l⟩ :: ts1', hke, hkr | ⟨.op _ _, l⟩ :: ts1', hke, hkr | ⟨.other _, l⟩ :: ts1', hke, hkr =>
                simp only [dropComma] at hkr
                exact ⟨ke ++ kr, by rw [hke, hkr]; simp, PrintsItemsW.juxt pe Pr⟩
            · cases h
          · cases h

theorem sound_all (H : Compat T) : ∀ f, RunS T f ∧ LoopS T f ∧ ItemsS T f := by
  intro f
  induction f with
  | zero =>
    refine ⟨?_, ?_, ?_⟩
    · intro m ts e ln rest h; simp [Impl.run] at h
    · intro m left ll ts e ln rest h; simp [Impl.loop] at h
    · intro ts its rest h; simp [Impl.items] at h
  | succ g ih =>
    obtain ⟨ihR, ihL, ihI⟩ := ih
    have h1 := sound_step H g ihR ihL ihI
    exact ⟨h1.1, loop_sound_step H g ihR ihL, h1.2⟩

/-- whatever the parser accepts is a writing (in the wide sense: list elements need no commas)
    of the tree it returns, followed by the EOF token -/
theorem parse_sound_gen (H : Compat T) (ts : List LTok) (e : Expr) (h : Impl.parse T ts = .ok e) :
    ∃ ks rest, ts.map (·.tk) = ks ++ (.eof :: rest) ∧ PrintsW e .top .none ks := by
  simp only [Impl.parse, Impl.parseFuel] at h
  cases hrun : Impl.run T (2 * ts.length + 4) 0 ts with
  | error x => rw [hrun] at h; cases h
  | ok res =>
    obtain ⟨e', ln, rest⟩ := res
    rw [hrun] at h
    obtain ⟨ks, hks, _, P⟩ := (sound_all H _).1 _ _ _ _ _ hrun
    match rest, hks, P, h with
    | [], _, _, h => cases h
    | t :: rest', hks, P, h =>
      simp only at h
      split at h
      · rename_i heof
        injection h with h
        subst h
        refine ⟨ks, rest'.map (·.tk), ?_, P .top .none (by simp [MCtx.val]) (Or.inl rfl)⟩
        rw [hks]; simp [heof]
      · split at h <;> cases h

end
end Ecal.Expr
