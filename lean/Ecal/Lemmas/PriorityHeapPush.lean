import Ecal.Lemmas.PriorityHeap
/-!
`heap.Push` of `container/heap` (append + `up`) keeps the heap order.
-/
namespace Ecal.Priority.Heap
variable {α : Type}

/-- heap order on `l[0:n]` except for the pair (parent of `j`, `j`); the children of `j` are not
    below `j`'s parent -/
def UpInv (lt : α → α → Bool) (l : List α) (n j : Nat) : Prop :=
  (∀ p c, c ≠ j → c < n → (c = 2 * p + 1 ∨ c = 2 * p + 2) → leAt lt l p c) ∧
  (∀ g c, (j = 2 * g + 1 ∨ j = 2 * g + 2) → (c = 2 * j + 1 ∨ c = 2 * j + 2) → c < n → leAt lt l g c)

theorem up_ok {lt : α → α → Bool} (ho : StrictTotal lt) (n : Nat) :
    ∀ fuel (l : List α) j, j < fuel → j < n → n ≤ l.length → UpInv lt l n j →
      Ok lt (up lt fuel l j) n 0 := by
  intro fuel
  induction fuel with
  | zero => intro l j h; omega
  | succ f ih =>
    intro l j hf hjn hn hI
    unfold up
    simp only
    have hj : j < l.length := by omega
    have hi : (j - 1) / 2 < l.length := by omega
    obtain ⟨xj, hxj⟩ : ∃ y, l[j]? = some y := ⟨l[j], List.getElem?_eq_getElem hj⟩
    obtain ⟨xi, hxi⟩ : ∃ y, l[(j - 1) / 2]? = some y := ⟨l[(j - 1) / 2], List.getElem?_eq_getElem hi⟩
    split
    · rename_i hc
      simp only [Bool.or_eq_true, beq_iff_eq, Bool.not_eq_eq_eq_not, Bool.not_true] at hc
      intro p c _ hcn hpc x y hx hy
      by_cases hcj : c = j
      · subst hcj
        have hp : p = (c - 1) / 2 := by omega
        subst hp
        rcases hc with hc | hc
        · omega
        · unfold lessAt at hc
          rw [hy, hx] at hc
          exact hc
      · exact hI.1 p c hcj hcn hpc x y hx hy
    · rename_i hc
      simp only [Bool.or_eq_true, beq_iff_eq, Bool.not_eq_eq_eq_not, Bool.not_true, not_or,
        Bool.not_eq_false] at hc
      obtain ⟨hne, hlt⟩ := hc
      unfold lessAt at hlt
      rw [hxj, hxi] at hlt
      simp only at hlt
      have hij : (j - 1) / 2 < j := by omega
      have hchild : j = 2 * ((j - 1) / 2) + 1 ∨ j = 2 * ((j - 1) / 2) + 2 := by omega
      apply ih
      · omega
      · omega
      · simpa using hn
      · constructor
        · intro p c hci hcn hpc x y hx hy
          rw [getElem?_swp l hi hj] at hx hy
          by_cases hcj : c = j
          · subst hcj
            have hp : p = (c - 1) / 2 := by omega
            subst hp
            have h1 : (c - 1) / 2 ≠ c := by omega
            simp only [h1, if_false, if_true] at hx hy
            rw [hxj] at hx; rw [hxi] at hy
            cases hx; cases hy
            exact ho.asymm _ _ hlt
          · simp only [hcj, hci, if_false] at hy
            by_cases hpi : p = (j - 1) / 2
            · subst hpi
              have h1 : (j - 1) / 2 ≠ j := by omega
              simp only [h1, if_false, if_true] at hx
              rw [hxj] at hx; cases hx
              have h2 := hI.1 _ c hcj hcn hpc xi y hxi hy
              exact ho.le_trans _ _ _ (ho.asymm _ _ hlt) h2
            · by_cases hpj : p = j
              · subst hpj
                simp only [if_true] at hx
                rw [hxi] at hx; cases hx
                exact hI.2 _ c hchild hpc hcn _ y hxi hy
              · simp only [hpj, hpi, if_false] at hx
                exact hI.1 p c hcj hcn hpc x y hx hy
        · intro g c hgi hcc hcn x y hx hy
          rw [getElem?_swp l hi hj] at hx hy
          have hg1 : g ≠ j := by omega
          have hg2 : g ≠ (j - 1) / 2 := by omega
          simp only [hg1, hg2, if_false] at hx
          have hgi' := hI.1 g ((j - 1) / 2) (by omega) (by omega) hgi x xi hx hxi
          by_cases hcj : c = j
          · simp only [hcj, if_true] at hy
            rw [hxi] at hy; cases hy
            exact hgi'
          · have hci : c ≠ (j - 1) / 2 := by omega
            simp only [hcj, hci, if_false] at hy
            have h2 := hI.1 _ c hcj hcn hcc xi y hxi hy
            exact ho.le_trans _ _ _ hgi' h2

/-- **`heap.Push` keeps the heap order** -/
theorem push_ok {lt : α → α → Bool} (ho : StrictTotal lt) (l : List α) (x : α)
    (h : Ok lt l l.length 0) : Ok lt (push lt l x) (push lt l x).length 0 := by
  have hlen : (push lt l x).length = l.length + 1 := by
    rw [(push_perm lt l x).length_eq]; simp
  rw [hlen]
  unfold push
  apply up_ok ho
  · omega
  · omega
  · simp
  · constructor
    · intro p c hcj hcn hpc a b ha hb
      rw [List.getElem?_append_left (by omega)] at ha hb
      exact h p c (Nat.zero_le _) (by omega) hpc a b ha hb
    · intro g c _ hcc hcn; omega

end Ecal.Priority.Heap
