import Ecal.Model.PrattPrint
/-! The minimal unparser `pr` is read back by the Pratt parser, for ALL trees (prototype Pratt2Relational). -/
namespace Ecal.C08

theorem pr_parses_gen (P : Powers) (hpos : ∀ k, 0 < P.bp k) :
    ∀ (e : Expr) (m m' f : Nat) (rest : List Tok) (e' : Expr) (r' : List Tok),
    m ≤ m' → f ≤ m' + 1 → lbp P rest ≤ f →
    Loop P m e rest e' r' → Run P m (pr P e m' f ++ rest) e' r' := by
  intro e
  induction e with
  | atom n =>
    intro m m' f rest e' r' _ _ _ hl
    simp only [pr, List.cons_append, List.nil_append]
    exact Run.atom hl
  | bin k l r ihl ihr =>
    have body : ∀ (m f : Nat) (rest : List Tok) (e' : Expr) (r' : List Tok), m < P.bp k → f ≤ P.bp k →
        lbp P rest ≤ f → Loop P m (Expr.bin k l r) rest e' r' →
        Run P m ((pr P l (P.bp k - 1) (P.bp k) ++ (Tok.op k :: pr P r (P.bp k) f)) ++ rest) e' r' := by
      intro m f rest e' r' hm hf hrest hl
      rw [List.append_assoc]
      apply ihl m (P.bp k - 1) (P.bp k) _ e' r' (by omega) (by omega) (by simp [lbp])
      simp only [List.cons_append]
      apply Loop.op hm (r := r) (ts' := rest)
      · apply ihr (P.bp k) (P.bp k) f rest r rest (Nat.le_refl _) (by omega) hrest
        exact Loop.stop (by omega)
      · exact hl
    intro m m' f rest e' r' hmm hf hrest hl
    simp only [pr]
    split
    · exact body m f rest e' r' (by omega) (by omega) hrest hl
    · simp only [List.cons_append, List.append_assoc, List.nil_append]
      apply Run.paren (e1 := Expr.bin k l r) (ts' := rest)
      · have := body 0 0 (Tok.rp :: rest) (Expr.bin k l r) (Tok.rp :: rest) (hpos k) (by omega)
          (by simp [lbp]) (Loop.stop (by simp [lbp]))
        simpa [List.append_assoc] using this
      · exact hl
  | pre k x ih =>
    have body : ∀ (m f : Nat) (rest : List Tok) (e' : Expr) (r' : List Tok), f ≤ P.pbp k →
        lbp P rest ≤ f → Loop P m (Expr.pre k x) rest e' r' →
        Run P m ((Tok.pre k :: pr P x (P.pbp k) f) ++ rest) e' r' := by
      intro m f rest e' r' hf hrest hl
      simp only [List.cons_append]
      apply Run.pre (x := x) (ts' := rest)
      · apply ih (P.pbp k) (P.pbp k) f rest x rest (Nat.le_refl _) (by omega) hrest
        exact Loop.stop (by omega)
      · exact hl
    intro m m' f rest e' r' hmm hf hrest hl
    simp only [pr]
    split
    · exact body m f rest e' r' (by assumption) hrest hl
    · simp only [List.cons_append, List.append_assoc, List.nil_append]
      apply Run.paren (e1 := Expr.pre k x) (ts' := rest)
      · have := body 0 0 (Tok.rp :: rest) (Expr.pre k x) (Tok.rp :: rest) (by omega)
          (by simp [lbp]) (Loop.stop (by simp [lbp]))
        simpa [List.append_assoc] using this
      · exact hl

theorem pr_parses (P : Powers) (hpos : ∀ k, 0 < P.bp k) (e : Expr) : Run P 0 (pr P e 0 0) e [] := by
  have := pr_parses_gen P hpos e 0 0 0 [] e [] (Nat.le_refl _) (by omega) (by simp [lbp]) (Loop.stop (by simp [lbp]))
  simpa using this


end Ecal.C08
