import Ecal.Model.ParserWalk
import Ecal.Lemmas.ParserShapeS
/-! `WellFormedS t → walkable t`: the strict well-formedness predicate provides every dereference of the census. -/
namespace Ecal.Parse
open Ecal.Lex Ecal.Parse.S

theorem kidsWFS_some : ∀ (cs : List (Option Node)), kidsWFS cs = true →
    ∃ l : List Node, cs = l.map some ∧ ∀ c ∈ l, WellFormedS c = true
  | [], _ => ⟨[], rfl, by simp⟩
  | none :: _, h => by simp [kidsWFS] at h
  | some c :: r, h => by
    simp only [kidsWFS, Bool.and_eq_true] at h
    obtain ⟨l, hl, hw⟩ := kidsWFS_some r h.2
    exact ⟨c :: l, by simp [hl], by intro x hx; rcases List.mem_cons.mp hx with rfl | hx; exact h.1; exact hw x hx⟩

theorem kid_map (n : Node) (l : List Node) (h : n.children = l.map some) (k : Nat) : kid n k = l[k]? := by
  simp only [kid, h, List.getElem?_map]
  cases l[k]? <;> rfl

theorem sig_map (l : List Node) : (l.map some).map sigOfS = l.map sgOf := by
  simp [List.map_map, Function.comp_def, sigOfS, sgOf]

theorem ifShapeS_even : ∀ (l : List Node), ifShapeS (l.map sgOf) = true → l.length % 2 = 0
  | [], _ => rfl
  | [_], h => by simp [ifShapeS] at h
  | a :: b :: r, h => by
    simp only [List.map_cons, ifShapeS, Bool.and_eq_true] at h
    have := ifShapeS_even r h.2
    simp only [List.length_cons]; omega

theorem exceptShape_ne : ∀ (l : List SigS), exceptShape l = true → l ≠ []
  | [], h => by simp [exceptShape] at h
  | _ :: _, _ => by simp

/-- the local clause: the shape of a node gives the dereferences made at it -/
theorem local_ok (n : Node) (l : List Node) (hc : n.children = l.map some)
    (hs : shapeOkS n.name (l.map sgOf) = true) : derefOk n = true := by
  have hk0 := kid_map n l hc 0
  have hk1 := kid_map n l hc 1
  have hk2 := kid_map n l hc 2
  have hlen : n.children.length = l.length := by simp [hc]
  unfold derefOk
  unfold shapeOkS at hs
  cases hk : kindOf n.name <;> simp only [hk] at hs ⊢
  · -- binary
    rcases l with _ | ⟨a, _ | ⟨b, _ | ⟨c, r⟩⟩⟩ <;> simp_all [tokAt, opOk, sgOf]
  · -- plusminus
    rcases l with _ | ⟨a, _ | ⟨b, _ | ⟨c, r⟩⟩⟩ <;> simp_all [tokAt, opOk, sgOf]
  · -- prefix1
    rcases l with _ | ⟨a, _ | ⟨b, r⟩⟩ <;> simp_all [tokAt, opOk, sgOf]
  · -- import
    rcases l with _ | ⟨a, _ | ⟨b, _ | ⟨c, r⟩⟩⟩ <;> simp_all [has]
  · -- one (guard / compaccess / as)
    rcases l with _ | ⟨a, _ | ⟨b, r⟩⟩ <;> simp_all [has, tokAt, opOk, sgOf]
    by_cases has' : n.name = "as"
    · simp [has'] at hs; exact Or.inr hs.2
    · exact Or.inl has'
  · -- return
    rcases l with _ | ⟨a, _ | ⟨b, r⟩⟩ <;> simp_all [has]
  · -- if
    rw [hlen]; simpa using ifShapeS_even l hs
  · -- loop
    rcases l with _ | ⟨a, _ | ⟨b, _ | ⟨c, r⟩⟩⟩ <;> simp_all [has]
  · -- try
    rcases l with _ | ⟨a, r⟩ <;> simp_all [has]
  · -- except
    have hne := exceptShape_ne _ hs
    rcases l with _ | ⟨a, _ | ⟨b, _ | ⟨c, r⟩⟩⟩
    · simp at hne
    · simp_all [has]
    · simp [exceptShape, sgOf] at hs
      simp_all [has]
    · simp_all [has]
  · -- blockOnly
    rcases l with _ | ⟨a, _ | ⟨b, r⟩⟩ <;> simp_all [has]
  · -- function
    rcases l with _ | ⟨a, _ | ⟨b, _ | ⟨c, _ | ⟨d, r⟩⟩⟩⟩ <;> simp_all [has, opOk, sgOf]
  · -- sink
    rcases l with _ | ⟨a, r⟩ <;> simp_all [tokAt, sgOf]
  · -- mutex
    rcases l with _ | ⟨a, _ | ⟨b, _ | ⟨c, r⟩⟩⟩ <;> simp_all [tokAt, has, opOk, sgOf]

mutual
theorem wf_walk : ∀ (n : Node), WellFormedS n = true → walkable n = true
  | .mk nm t b x l cs ms, h => by
    simp only [WellFormedS, Bool.and_eq_true] at h
    simp only [walkable, Bool.and_eq_true]
    obtain ⟨lst, hl, _⟩ := kidsWFS_some cs h.2
    refine ⟨local_ok _ lst (by simp [Node.children, hl]) ?_, kids_walk cs h.2⟩
    have := h.1
    rw [hl, sig_map] at this
    exact this
theorem kids_walk : ∀ (cs : List (Option Node)), kidsWFS cs = true → kidsWalk cs = true
  | [], _ => rfl
  | none :: _, h => by simp [kidsWFS] at h
  | some c :: r, h => by
    simp only [kidsWFS, Bool.and_eq_true] at h
    simp [kidsWalk, wf_walk c h.1, kids_walk r h.2]
end

end Ecal.Parse
