import Ecal.Lemmas.ParserSat
/-! Facts about `WellFormed`, partial nodes and the grammar table used by the parser proof. -/
namespace Ecal.Parse
open Ecal.Lex

def kindCompat (k : Kind) (x : Nud) (l : Led) : Bool :=
  (match x with
   | .term => k == .terminal
   | .prefix => k == .plusminus || k == .prefix1
   | .import_ => k == .import_ | .sink => k == .sink | .func => k == .function | .return_ => k == .return_
   | .identifier => k == .identifier | .guard => k == .if_ | .loop => k == .loop | .try_ => k == .try_
   | .mutex => k == .mutex | .block => false
   | .list => true | .map => true | .inner => true | .none => true) &&
  (match l with | .infix => k == .binary || k == .plusminus | .none => true)

theorem table_kind (id : Nat) {nm b x l} (h : table id = some (nm, b, x, l)) :
    kindCompat (kindOf nm) x l = true := by
  unfold table at h
  split at h <;> first | (cases h; decide) | (simp at h)

end Ecal.Parse

namespace Ecal.Parse
open Ecal.Lex

/-! ### no nil child, recursively -/
mutual
def noNil : Node → Bool
  | .mk _ _ _ _ _ cs _ => kidsNN cs
def kidsNN : List (Option Node) → Bool
  | [] => true
  | none :: _ => false
  | some c :: r => noNil c && kidsNN r
end

theorem noNil_eq (n : Node) : noNil n = kidsNN n.children := by cases n; simp [noNil, Node.children]

theorem kidsNN_append (cs : List (Option Node)) (c : Node) : kidsNN (cs ++ [some c]) = (kidsNN cs && noNil c) := by
  induction cs with
  | nil => simp [kidsNN]
  | cons x xs ih => cases x <;> simp [kidsNN, ih, Bool.and_assoc]

theorem noNil_add {n c : Node} (hn : noNil n = true) (hc : noNil c = true) : noNil (n.add (some c)) = true := by
  rw [noNil_eq] at hn ⊢; simp [kidsNN_append, hn, hc]

@[simp] theorem noNil_addMeta (n : Node) (ms) : noNil (n.addMeta ms) = noNil n := by
  rw [noNil_eq, noNil_eq]; simp

theorem noNil_instanceOf (bb id t) : noNil (instanceOf bb id t) = true := by
  rw [noNil_eq, instanceOf_children]; rfl

theorem Fresh.noNil {n : Node} (h : Fresh n) : noNil n = true := by
  rw [noNil_eq, h.children]; rfl

end Ecal.Parse

namespace Ecal.Parse
open Ecal.Lex

/-! ### every node name is a known node kind and there is no nil child, recursively -/
def knownName (s : String) : Bool := kindOf s != .unknown

mutual
def okTree : Node → Bool
  | .mk nm _ _ _ _ cs _ => knownName nm && kidsOk cs
def kidsOk : List (Option Node) → Bool
  | [] => true
  | none :: _ => false
  | some c :: r => okTree c && kidsOk r
end

theorem okTree_eq (n : Node) : okTree n = (knownName n.name && kidsOk n.children) := by
  cases n; simp [okTree, Node.children, Node.name]

theorem kidsOk_append (cs : List (Option Node)) (c : Node) : kidsOk (cs ++ [some c]) = (kidsOk cs && okTree c) := by
  induction cs with
  | nil => simp [kidsOk]
  | cons x xs ih => cases x <;> simp [kidsOk, ih, Bool.and_assoc]

theorem okTree_add {n c : Node} (hn : okTree n = true) (hc : okTree c = true) : okTree (n.add (some c)) = true := by
  rw [okTree_eq] at hn ⊢; simp [kidsOk_append] at hn ⊢; simp [hn, hc]

@[simp] theorem okTree_addMeta (n : Node) (ms) : okTree (n.addMeta ms) = okTree n := by
  rw [okTree_eq, okTree_eq]; simp

/-- token ids of the nodes the parser constructs itself -/
def constructedId (id : Nat) : Bool := id = 8 || id = 9 || id = 10 || id = 11 || id = 12 || id = 13 || id = 14 || id = 61

theorem okInst {bb id : Nat} {t : Option Tok} (h : constructedId id = true) : okTree (instanceOf bb id t) = true := by
  simp only [constructedId, Bool.or_eq_true, decide_eq_true_eq] at h
  rcases h with ((((((h | h) | h) | h) | h) | h) | h) | h <;> subst h <;>
    simp [instanceOf, T_LBRACE, table, okTree, kidsOk] <;> decide

theorem kind_known_of_nud {k : Kind} {x : Nud} {l : Led} (h : kindCompat k x l = true)
    (h1 : x ≠ .none) (h2 : x ≠ .inner) (h3 : x ≠ .list) (h4 : x ≠ .map) : k ≠ .unknown := by
  cases x <;> cases k <;> simp_all [kindCompat]

theorem kind_known_of_led {k : Kind} {x : Nud} {l : Led} (h : kindCompat k x l = true)
    (h1 : l ≠ .none) : k ≠ .unknown := by
  cases l <;> cases k <;> simp_all [kindCompat]

/-- name, nud, led of a fresh node: a block-start brace (no denotations) or a table entry -/
theorem Fresh.entry {n : Node} (h : Fresh n) :
    (n.nud = .none ∧ n.led = .none) ∨ (∃ b, n.tok.map (·.id) ≠ none ∧ ∃ id, table id = some (n.name, b, n.nud, n.led)) := by
  obtain ⟨bb, t, ms, ht, rfl⟩ := h
  unfold instanceOf
  split
  · left; simp [Node.nud, Node.led, Node.addMeta]
  · cases htab : table t.id with
    | none => simp [htab] at ht
    | some v =>
      obtain ⟨nm, b, x, l⟩ := v
      right
      exact ⟨b, by simp [Node.tok, Node.addMeta], t.id, by simp [htab, Node.name, Node.nud, Node.led, Node.addMeta]⟩

theorem Fresh.ok_of_nud {n : Node} (h : Fresh n) (k : Nud) (hk : n.nud = k)
    (h1 : k ≠ .none) (h2 : k ≠ .inner) (h3 : k ≠ .list) (h4 : k ≠ .map) : okTree n = true := by
  subst hk
  rw [okTree_eq, h.children]
  rcases h.entry with ⟨hn, _⟩ | ⟨b, _, id, htab⟩
  · exact absurd hn h1
  · have := kind_known_of_nud (table_kind id htab) h1 h2 h3 h4
    simp [knownName, kidsOk, this]

theorem Fresh.ok_of_led {n : Node} (h : Fresh n) (h1 : n.led ≠ .none) : okTree n = true := by
  rw [okTree_eq, h.children]
  rcases h.entry with ⟨_, hl⟩ | ⟨b, _, id, htab⟩
  · exact absurd hl h1
  · have := kind_known_of_led (table_kind id htab) h1
    simp [knownName, kidsOk, this]

/-- token ids handed to `acceptChild` -/
def acceptId (id : Nat) : Bool := id = 5 || id = 7 || id = 43 || id = 70 || id = 71 || id = 72

theorem accept_ok {c : Node} {id : Nat} (h : Fresh c) (hid : ∃ t, c.tok = some t ∧ t.id = id)
    (ha : acceptId id = true) : okTree c = true := by
  obtain ⟨t, ht, hidt⟩ := hid
  subst hidt
  rw [okTree_eq, h.children]
  simp only [acceptId, Bool.or_eq_true, decide_eq_true_eq] at ha
  have hne : t.id ≠ 26 := by omega
  rcases ha with ((((ha | ha) | ha) | ha) | ha) | ha
  · rw [h.name_of_id ht hne (by rw [ha]; rfl)]; decide
  · rw [h.name_of_id ht hne (by rw [ha]; rfl)]; decide
  · rw [h.name_of_id ht hne (by rw [ha]; rfl)]; decide
  · rw [h.name_of_id ht hne (by rw [ha]; rfl)]; decide
  · rw [h.name_of_id ht hne (by rw [ha]; rfl)]; decide
  · rw [h.name_of_id ht hne (by rw [ha]; rfl)]; decide

end Ecal.Parse
