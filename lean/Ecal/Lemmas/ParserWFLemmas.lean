import Ecal.Lemmas.ParserSat
/-! Facts about `WellFormed`, partial nodes and the grammar table used by the parser proof. -/
namespace Ecal.Parse
open Ecal.Lex

def kindCompat (k : Kind) (x : Nud) (l : Led) : Bool :=
  (match x with
   | .term => k == .terminal
   | .prefix => k == .plusminus || k == .prefix1
   | .import_ => k == .import_ | .sink => k == .sink | .func => k == .function | .return_ => k == .return_
   | .identifier => k == .identifier | .guard => k == .if_ | .loop => k == .loop | .try_ => k == .try_
   | .mutex => k == .mutex | .block => k == .free
   | .list => true | .map => true | .inner => true | .none => true) &&
  (match l with | .infix => k == .binary || k == .plusminus | .none => true)

theorem table_kind (id : Nat) {nm b x l} (h : table id = some (nm, b, x, l)) :
    kindCompat (kindOf nm) x l = true := by
  unfold table at h
  split at h <;> first | (cases h; decide) | (simp at h)

end Ecal.Parse

namespace Ecal.Parse
open Ecal.Lex

/-! ### no nil child, recursively -/
mutual
def noNil : Node → Bool
  | .mk _ _ _ _ _ cs _ => kidsNN cs
def kidsNN : List (Option Node) → Bool
  | [] => true
  | none :: _ => false
  | some c :: r => noNil c && kidsNN r
end

theorem noNil_eq (n : Node) : noNil n = kidsNN n.children := by cases n; simp [noNil, Node.children]

theorem kidsNN_append (cs : List (Option Node)) (c : Node) : kidsNN (cs ++ [some c]) = (kidsNN cs && noNil c) := by
  induction cs with
  | nil => simp [kidsNN]
  | cons x xs ih => cases x <;> simp [kidsNN, ih, Bool.and_assoc]

theorem noNil_add {n c : Node} (hn : noNil n = true) (hc : noNil c = true) : noNil (n.add (some c)) = true := by
  rw [noNil_eq] at hn ⊢; simp [kidsNN_append, hn, hc]

@[simp] theorem noNil_addMeta (n : Node) (ms) : noNil (n.addMeta ms) = noNil n := by
  rw [noNil_eq, noNil_eq]; simp

theorem noNil_instanceOf (bb id t) : noNil (instanceOf bb id t) = true := by
  rw [noNil_eq, instanceOf_children]; rfl

theorem Fresh.noNil {n : Node} (h : Fresh n) : noNil n = true := by
  rw [noNil_eq, h.children]; rfl

end Ecal.Parse
