import Ecal.Lemmas.Cascade
/-!
Helper lemmas of the C02 property theorems (`Ecal.Props.C02`): enabledness of an occupied
worker's next step, the error report as a fold, the measure under `setMon`, the failure history
under `setMon`, a concrete reachable quiescent state.
-/
namespace Ecal.Cascade

/-- an occupied worker can always take its next step (which is not a `pop`) -/
theorem busy_step {s : State} {j w : Nat} {m : Mon} (hm : s.mons[j]? = some m)
    (hw : m.phase.worker = some w) : ∃ e, e.internal = true ∧ e.isPop = false ∧ (step s e).isSome := by
  cases hph : m.phase with
  | fresh => simp [hph, Phase.worker] at hw
  | queued => simp [hph, Phase.worker] at hw
  | done => simp [hph, Phase.worker] at hw
  | running w' =>
    cases htodo : m.todo with
    | nil => refine ⟨.taskDone j, rfl, rfl, ?_⟩; simp only [step, hm, hph, htodo]; split <;> simp
    | cons r rest => exact ⟨.ruleReturns j true, rfl, rfl, by simp [step, hm, hph, htodo]⟩
  | failing w' => exact ⟨.setErrors j, rfl, rfl, by simp [step, hm, hph]⟩
  | errSet w' => exact ⟨.errFinish j, rfl, rfl, by simp [step, hm, hph]⟩
  | notifying w' => exact ⟨.notified j, rfl, rfl, by simp [step, hm, hph]⟩

theorem busy_enabled {s : State} {j w : Nat} {m : Mon} (hm : s.mons[j]? = some m)
    (hw : m.phase.worker = some w) : ∃ e, e.internal = true ∧ (step s e).isSome := by
  obtain ⟨e, h1, _, h3⟩ := busy_step hm hw
  exact ⟨e, h1, h3⟩

/-- the state after a one-rule cascade with a failing rule has run to its end -/
def sEnd : State :=
  { workers := 1, failFirst := false,
    mons := [{ parent := none, phase := .done, todo := [], failed := [7], err := some [7], inErrors := true }],
    unfinished := 0, posted := 1, waiting := true, handlerReg := true, released := 1, handlerCalls := 1 }

theorem sEnd_reachable : Reachable sEnd :=
  ⟨1, false, [.register, .regHandler, .addEvent 0 true [7], .pop 0 0, .ruleReturns 0 false, .taskDone 0,
    .setErrors 0, .errFinish 0, .notified 0, .dropQueue, .post, .observerRuns .wait, .observerRuns .handler,
    .observerRuns .queue], by decide⟩

theorem sEnd_quiescent : ∀ e, e.internal = true → step sEnd e = none := by
  intro e he
  cases e with
  | pop w i => cases i <;> simp [step, sEnd]
  | ruleReturns i ok => cases i <;> simp [step, sEnd]
  | taskDone i => cases i <;> simp [step, sEnd]
  | setErrors i => cases i <;> simp [step, sEnd]
  | errFinish i => cases i <;> simp [step, sEnd]
  | notified i => cases i <;> simp [step, sEnd]
  | dropQueue => decide
  | post => decide
  | observerRuns o => cases o <;> decide
  | _ => simp [Event.internal] at he

theorem report_eq_expected (l : List Mon) (i : Nat)
    (h : ∀ m ∈ l, m.ok ∧ m.phase.finished = true) : reportFrom i l = expectedFrom i l := by
  induction l generalizing i with
  | nil => rfl
  | cons m ms ih =>
    have hm := h m (by simp)
    have hrest := ih (i + 1) (fun x hx => h x (by simp [hx]))
    simp only [reportFrom, expectedFrom, hrest]
    congr 1
    obtain ⟨hok, hf⟩ := hm
    cases hph : m.phase <;> simp [hph, Phase.finished, Mon.ok] at hf hok
    · obtain ⟨h1, h2, h3, h4⟩ := hok
      simp [h1, h3, h4]
    · obtain ⟨_, h⟩ := hok
      rcases h with ⟨h1, h2, h3⟩ | ⟨h1, h2, h3⟩ <;> simp [h1, h2, h3]

theorem report_mem (l : List Mon) (i k : Nat) (e : Option (List Nat)) (h : (k, e) ∈ reportFrom i l) :
    ∃ m, l[k - i]? = some m ∧ i ≤ k ∧ m.inErrors = true ∧ e = m.err := by
  induction l generalizing i with
  | nil => simp [reportFrom] at h
  | cons m ms ih =>
    simp only [reportFrom, List.mem_append] at h
    rcases h with h | h
    · split at h
      · simp at h
        obtain ⟨rfl, rfl⟩ := h
        exact ⟨m, by simp, Nat.le_refl _, by assumption, rfl⟩
      · simp at h
    · obtain ⟨m', h1, h2, h3, h4⟩ := ih (i + 1) h
      refine ⟨m', ?_, by omega, h3, h4⟩
      have : k - i = (k - (i + 1)) + 1 := by omega
      rw [this]
      simpa using h1

theorem sumWeights_set (l : List Mon) (i : Nat) (m m' : Mon) (h : l[i]? = some m) :
    sumWeights (l.set i m') + m.weight = sumWeights l + m'.weight := by
  induction l generalizing i with
  | nil => simp at h
  | cons x xs ih =>
    cases i with
    | zero => simp at h; subst h; simp [sumWeights]; omega
    | succ i =>
      simp at h
      have := ih i h
      simp [sumWeights]
      omega

theorem workLeft_setMon {s : State} {i : Nat} {m m' : Mon} (hm : s.mons[i]? = some m)
    (hw : m'.weight < m.weight) : workLeft (s.setMon i m') < workLeft s := by
  have := sumWeights_set s.mons i m m' hm
  unfold workLeft State.setMon
  dsimp only
  omega

theorem workLeft_finishOne (s : State) : workLeft (finishOne s) = workLeft s := rfl

/-- what an event appends to the failure history of monitor `i`: the action that was executing
    (head of the trigger sequence) when `ruleReturns i false` happens, nothing otherwise -/
def failedDelta (e : Event) (i : Nat) (m : Mon) : List Nat :=
  match e with
  | .ruleReturns j ok => if j = i ∧ ok = false then m.todo.take 1 else []
  | _ => []

theorem hist_setMon {s : State} {i j : Nat} {m mj x : Mon} (d : List Nat)
    (hm : s.mons[i]? = some m) (hj : s.mons[j]? = some mj)
    (hx : x.failed = mj.failed ++ d) :
    ∃ m', (s.setMon j x).mons[i]? = some m' ∧ m'.failed = m.failed ++ (if j = i then d else []) := by
  obtain ⟨hl, _⟩ := getElem_of_get? hj
  by_cases hji : j = i
  · subst hji
    rw [hm] at hj
    cases hj
    refine ⟨x, ?_, by simp [hx]⟩
    show (s.mons.set j x)[j]? = some x
    simp [hl]
  · refine ⟨m, ?_, by simp [hji]⟩
    show (s.mons.set j x)[i]? = some m
    rw [List.getElem?_set]
    simp [hji, hm]

theorem reachable_step {s s' : State} {e : Event} (h : Reachable s) (hs : step s e = some s') :
    Reachable s' := by
  obtain ⟨w, ff, es, hr⟩ := h
  refine ⟨w, ff, es ++ [e], ?_⟩
  simp [run, List.foldlM_append] at hr ⊢
  simp [hr, hs]

/-- the number of workers is a constant of a cascade -/
theorem workers_const {s s' : State} {e : Event} (hs : step s e = some s') : s'.workers = s.workers := by
  cases e <;> simp only [step] at hs <;> (repeat' split at hs) <;> first | (cases hs; done) | (cases hs; rfl)

end Ecal.Cascade
