import Ecal.Model.Printer
import Ecal.Lemmas.ParserWalk
import Ecal.Lemmas.ParserWFSFacts
/-!
The printer model's `visit` (Model/Printer.lean, C08's executable port of prettyprinter.go) on strictly
well-formed trees: its nil-child branch (`PErr.nilNode`) is never taken. `OnlyPanic x` = the computation `x`
can fail only with `PErr.panic` (missing template, missing token, bad slice, fuel) — never with `PErr.nilNode`.
-/
namespace Ecal.Print
open Ecal.Parse Ecal.Lex

/-- the computation can only fail with `PErr.panic`, never with `PErr.nilNode` -/
structure OnlyPanic {α : Type} (x : Except PErr α) : Prop where
  h : ∀ e, x = .error e → e = .panic

theorem op_pure {α : Type} (a : α) : OnlyPanic (pure a : Except PErr α) := ⟨by
  intro e h; cases h⟩
theorem op_throw {α : Type} : OnlyPanic (throw PErr.panic : Except PErr α) := ⟨by
  intro e h; cases h; rfl⟩
theorem op_bind {α β : Type} {x : Except PErr α} {f : α → Except PErr β}
    (hx : OnlyPanic x) (hf : ∀ a, OnlyPanic (f a)) : OnlyPanic (x >>= f) := ⟨by
  intro e h
  cases x with
  | error e' => simp [bind, Except.bind] at h; subst h; exact hx.h e' rfl
  | ok a => exact (hf a).h e h⟩
theorem op_foldlM {α β : Type} (f : β → α → Except PErr β) (hf : ∀ b a, OnlyPanic (f b a)) :
    ∀ (l : List α) (init : β), OnlyPanic (l.foldlM f init)
  | [], init => by simpa [List.foldlM] using op_pure init
  | a :: l, init => by
    simp only [List.foldlM]
    exact op_bind (hf init a) (fun b => op_foldlM f hf l b)
theorem op_mapM {α β : Type} (f : α → Except PErr β) :
    ∀ (l : List α), (∀ a ∈ l, OnlyPanic (f a)) → OnlyPanic (l.mapM f) := by
  intro l h
  induction l with
  | nil => simpa [List.mapM_nil] using op_pure []
  | cons a l ih =>
    rw [List.mapM_cons]
    exact op_bind (h a (by simp)) (fun b => op_bind (ih (fun x hx => h x (by simp [hx]))) (fun bs => op_pure _))

macro "op_step" : tactic => `(tactic| first
  | exact op_pure _
  | exact op_throw
  | refine op_bind ?_ ?_
  | intro _
  | split
  | dsimp only)
macro "op_auto" : tactic => `(tactic| (iterate 16 (all_goals (try op_step))))

theorem op_ppMetaData (ast : Node) (txt : Txt) : OnlyPanic (ppMetaData ast txt) := by
  unfold ppMetaData
  apply op_foldlM
  op_auto

theorem op_ppPost (ast : Node) (parent : Option Node) (txt : Txt) : OnlyPanic (ppPostProcessing ast parent txt) := by
  unfold ppPostProcessing
  apply op_bind (op_ppMetaData ast txt)
  op_auto

macro "op_step2" : tactic => `(tactic| first
  | exact op_pure _
  | exact op_throw
  | exact op_ppPost _ _ _
  | apply op_foldlM
  | refine op_bind ?_ ?_
  | intro _
  | split
  | dsimp only)
macro "op_auto2" : tactic => `(tactic| (iterate 24 (all_goals (try op_step2))))

theorem mem_zipIdx_fst {α : Type} : ∀ (cs : List α) (k : Nat) (x : α × Nat), x ∈ cs.zipIdx k → x.1 ∈ cs
  | [], _, x, h => by simp at h
  | a :: l, k, x, h => by
    simp only [List.zipIdx_cons, List.mem_cons] at h
    rcases h with rfl | h
    · simp
    · exact List.mem_cons_of_mem _ (mem_zipIdx_fst l (k + 1) x h)

theorem kidsWFS_mem : ∀ (cs : List (Option Node)), kidsWFS cs = true → ∀ ch ∈ cs, ∃ c, ch = some c ∧ WellFormedS c = true
  | [], _, ch, h => by simp at h
  | none :: _, h, _, _ => by simp [kidsWFS] at h
  | some c :: r, h, ch, hm => by
    simp only [kidsWFS, Bool.and_eq_true] at h
    rcases List.mem_cons.mp hm with rfl | hm
    · exact ⟨c, rfl, h.1⟩
    · exact kidsWFS_mem r h.2 ch hm

theorem visit_only_panic (q : Txt → Txt) : ∀ (fuel : Nat) (ast : Node) (parent : Option Node),
    WellFormedS ast = true → OnlyPanic (visitFQ q fuel (some ast) parent)
  | 0, _, _, _ => by unfold visitFQ; exact op_throw
  | fuel+1, ast, parent, hwf => by
    have hk : kidsWFS ast.children = true := by
      rw [wfS_unfold, Bool.and_eq_true] at hwf; exact hwf.2
    unfold visitFQ
    simp only [pure_bind]
    refine op_bind (op_mapM _ _ ?_) ?_
    · intro x hx
      obtain ⟨c, hc, hw⟩ := kidsWFS_mem _ hk x.1 (mem_zipIdx_fst _ _ x hx)
      obtain ⟨ch, i⟩ := x
      simp only at hc
      subst hc
      refine op_bind (visit_only_panic q fuel c (some ast) hw) ?_
      intro res
      exact op_pure _
    · intro ps
      op_auto2

end Ecal.Print
