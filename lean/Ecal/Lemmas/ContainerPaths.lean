namespace Ecal.Sc
/-! Port of notes/lean-prototypes/ContainerPaths.lean (tree-shaped, acyclic values; number parsing is a parameter). -/

inductive Key where
  | num (n : Int) | str (s : String)
  deriving DecidableEq, Repr

inductive Val where
  | null | num (n : Int) | str (s : String)
  | list (vs : List Val)
  | map (kvs : List (Key × Val))
  deriving Repr

variable (atoi : String → Option Int)

def mapGet (kvs : List (Key × Val)) (k : Key) : Option Val :=
  match kvs with
  | [] => none
  | (k', v) :: rest => if k' = k then some v else mapGet rest k

def mapSet (kvs : List (Key × Val)) (k : Key) (x : Val) : List (Key × Val) :=
  match kvs with
  | [] => [(k, x)]
  | (k', v) :: rest => if k' = k then (k, x) :: rest else (k', v) :: mapSet rest k x

theorem mapGet_mapSet_same (kvs : List (Key × Val)) (k : Key) (x : Val) :
    mapGet (mapSet kvs k x) k = some x := by
  induction kvs with
  | nil => simp [mapSet, mapGet]
  | cons kv rest ih => obtain ⟨k', v⟩ := kv; by_cases h : k' = k <;> simp [mapSet, mapGet, h, ih]

theorem mapGet_mapSet_other (kvs : List (Key × Val)) (k k2 : Key) (x : Val) (h : k2 ≠ k) :
    mapGet (mapSet kvs k x) k2 = mapGet kvs k2 := by
  induction kvs with
  | nil => simp [mapSet, mapGet, Ne.symm h]
  | cons kv rest ih =>
    obtain ⟨k', v⟩ := kv
    by_cases h1 : k' = k
    · subst h1; simp [mapSet, mapGet, Ne.symm h]
    · by_cases h2 : k' = k2
      · subst h2; simp [mapSet, mapGet, h1]
      · simp [mapSet, mapGet, h1, h2, ih]

/-- which key of a map a path segment denotes: an existing number key if the segment is a
    number, otherwise the string itself (same rule for reading and – repaired – for writing) -/
def keyFor (kvs : List (Key × Val)) (seg : String) : Key :=
  match atoi seg with
  | some n => if (mapGet kvs (Key.num n)).isSome then Key.num n else Key.str seg
  | none => Key.str seg

/-- list index: number, negative counts from the end, must be inside the list -/
def idxFor (len : Nat) (seg : String) : Option Nat :=
  match atoi seg with
  | some n =>
    let n' := if n < 0 then n + len else n
    if 0 ≤ n' ∧ n'.toNat < len then some n'.toNat else none
  | none => none

inductive Err where | notContainer | outOfBounds | missing
  deriving Repr, DecidableEq

def getPath : Val → List String → Except Err Val
  | v, [] => .ok v
  | .map kvs, seg :: rest =>
    match mapGet kvs (keyFor atoi kvs seg) with
    | some v => getPath v rest
    | none => if rest = [] then .ok .null else .error .missing
  | .list vs, seg :: rest =>
    match idxFor atoi vs.length seg with
    | some i => match vs[i]? with
      | some v => getPath v rest
      | none => .error .outOfBounds
    | none => .error .outOfBounds
  | _, _ :: _ => .error .notContainer

def setPath : Val → List String → Val → Except Err Val
  | _, [], x => .ok x
  | .map kvs, [seg], x => .ok (.map (mapSet kvs (keyFor atoi kvs seg) x))
  | .map kvs, seg :: rest, x =>
    match mapGet kvs (keyFor atoi kvs seg) with
    | some v => match setPath v rest x with
      | .ok v' => .ok (.map (mapSet kvs (keyFor atoi kvs seg) v'))
      | .error e => .error e
    | none => .error .missing
  | .list vs, seg :: rest, x =>
    match idxFor atoi vs.length seg with
    | some i => match vs[i]? with
      | some v => match setPath v rest x with
        | .ok v' => .ok (.list (vs.set i v'))
        | .error e => .error e
      | none => .error .outOfBounds
    | none => .error .outOfBounds
  | _, _ :: _, _ => .error .notContainer

/-- after writing under the chosen key, the same segment chooses the same key again -/
theorem keyFor_mapSet (kvs : List (Key × Val)) (seg : String) (x : Val) :
    keyFor atoi (mapSet kvs (keyFor atoi kvs seg) x) seg = keyFor atoi kvs seg := by
  unfold keyFor
  cases h : atoi seg with
  | none => rfl
  | some n =>
    simp only
    by_cases hn : (mapGet kvs (Key.num n)).isSome
    · simp [hn, mapGet_mapSet_same]
    · simp only [hn]
      have : mapGet (mapSet kvs (Key.str seg) x) (Key.num n) = mapGet kvs (Key.num n) :=
        mapGet_mapSet_other kvs _ _ x (by simp)
      simp [this, hn]

/-- C05: a successful write through a path is read back through the same path -/
theorem read_after_write : ∀ (segs : List String) (v v' x : Val), segs ≠ [] →
    setPath atoi v segs x = .ok v' → getPath atoi v' segs = .ok x := by
  intro segs
  induction segs with
  | nil => intro v v' x h; exact absurd rfl h
  | cons seg rest ih =>
    intro v v' x _ hset
    cases v with
    | null => simp [setPath] at hset
    | num n => simp [setPath] at hset
    | str s => simp [setPath] at hset
    | map kvs =>
      cases rest with
      | nil =>
        simp only [setPath, Except.ok.injEq] at hset; subst hset
        simp [getPath, keyFor_mapSet, mapGet_mapSet_same]
      | cons seg2 rest2 =>
        simp only [setPath] at hset
        cases hg : mapGet kvs (keyFor atoi kvs seg) with
        | none => simp [hg] at hset
        | some child =>
          simp only [hg] at hset
          cases hs : setPath atoi child (seg2 :: rest2) x with
          | error e => simp [hs] at hset
          | ok child' =>
            simp only [hs, Except.ok.injEq] at hset; subst hset
            simp only [getPath, keyFor_mapSet, mapGet_mapSet_same]
            exact ih child child' x (by simp) hs
    | list vs =>
      simp only [setPath] at hset
      cases hi : idxFor atoi vs.length seg with
      | none => simp [hi] at hset
      | some i =>
        simp only [hi] at hset
        cases hv : vs[i]? with
        | none => simp [hv] at hset
        | some child =>
          simp only [hv] at hset
          cases hs : setPath atoi child rest x with
          | error e => simp [hs] at hset
          | ok child' =>
            simp only [hs, Except.ok.injEq] at hset; subst hset
            have hlt : i < vs.length := by
              have := List.getElem?_eq_some_iff.mp hv; exact this.1
            simp only [getPath, List.length_set, hi, List.getElem?_set_self hlt]
            cases rest with
            | nil => simp [setPath] at hs; subst hs; simp [getPath]
            | cons s2 r2 => exact ih child child' x (by simp) hs


end Ecal.Sc
