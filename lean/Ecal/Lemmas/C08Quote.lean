/-!
String literals for C08 (core Lean only): quoting a string value (model of strconv.Quote restricted to the
escapes `\\"`, `\\\\`, `\\n`, `\\U…` and parametric in the printability predicate) and reading it back with the
lexer's scan for the closing quote (escape tracking of lexValue after repair 02ff58e) followed by
unquoting gives the original value and consumes exactly the literal — for every string.
Characters are code points (Nat): 34 = '"', 92 = backslash, 110 = 'n', 10 = newline, 85 = 'U'.
This is a simplified model of the string path (the full `Ecal.Print.quote` emits more escape forms;
the correspondence run compares the real lexer on the real printer's output for all short strings).
-/
namespace Ecal.C08.Q

abbrev Str := List Nat

variable (isPrint : Nat → Bool)

def hexDigit (n : Nat) : Nat := if n < 10 then 48 + n else 87 + n   -- 0-9a-f
def hexVal (c : Nat) : Option Nat :=
  if 48 ≤ c ∧ c ≤ 57 then some (c - 48) else if 97 ≤ c ∧ c ≤ 102 then some (c - 87) else none

theorem hexVal_hexDigit (n : Nat) (h : n < 16) : hexVal (hexDigit n) = some n := by
  unfold hexVal hexDigit
  by_cases h10 : n < 10
  · have h1 : 48 ≤ 48 + n ∧ 48 + n ≤ 57 := by omega
    simp [h10, h1]
  · have h1 : ¬ (48 ≤ 87 + n ∧ 87 + n ≤ 57) := by omega
    have h2 : 97 ≤ 87 + n ∧ 87 + n ≤ 102 := by omega
    simp [h10, h1, h2]

theorem hexDigit_plain (n : Nat) (h : n < 16) : hexDigit n ≠ 34 ∧ hexDigit n ≠ 92 := by
  unfold hexDigit; split <;> omega

/-- the 8 hex digits of a code point (< 2^32) -/
def hex8 (n : Nat) : Str :=
  [hexDigit (n / 268435456 % 16), hexDigit (n / 16777216 % 16), hexDigit (n / 1048576 % 16),
   hexDigit (n / 65536 % 16), hexDigit (n / 4096 % 16), hexDigit (n / 256 % 16), hexDigit (n / 16 % 16), hexDigit (n % 16)]

/-- escape one character -/
def escChar (c : Nat) : Str :=
  if c = 34 then [92, 34]
  else if c = 92 then [92, 92]
  else if c = 10 then [92, 110]
  else if isPrint c then [c]
  else 92 :: 85 :: hex8 c

def quoteBody (s : Str) : Str := s.flatMap (escChar isPrint)
def quote (s : Str) : Str := 34 :: quoteBody isPrint s ++ [34]

/-- the lexer's scan for the closing quote: a backslash escapes the next character
    unless it is escaped itself (the repaired rule) -/
def scanBody : Str → Bool → Option (Str × Str)      -- input, escaped? → (raw body, rest after the quote)
  | [], _ => none
  | c :: cs, esc =>
    if c = 34 ∧ esc = false then some ([], cs)
    else (scanBody cs (!esc && c == 92)).map fun (b, r) => (c :: b, r)

/-- scanning over characters that are neither quote nor backslash, starting un-escaped -/
theorem scan_plain (l : Str) (hl : ∀ c ∈ l, c ≠ 34 ∧ c ≠ 92) (tail : Str) :
    scanBody (l ++ tail) false = (scanBody tail false).map fun (b, r) => (l ++ b, r) := by
  induction l with
  | nil => simp
  | cons c cs ih =>
    have hc := hl c (by simp)
    have hcs : ∀ x ∈ cs, x ≠ 34 ∧ x ≠ 92 := fun x hx => hl x (by simp [hx])
    simp only [List.cons_append, scanBody, hc.1, false_and, if_false]
    have : (!false && c == 92) = false := by simp [hc.2]
    rw [this, ih hcs]
    cases scanBody tail false <;> simp

/-- ... and the same when the first of them is escaped (it follows a backslash) -/
theorem scan_plain_esc (c : Nat) (l : Str) (hl : ∀ c ∈ l, c ≠ 34 ∧ c ≠ 92) (tail : Str) :
    scanBody (c :: l ++ tail) true = (scanBody tail false).map fun (b, r) => (c :: l ++ b, r) := by
  simp only [List.cons_append, scanBody]
  have h1 : ¬ (c = 34 ∧ true = false) := by simp
  simp only [h1, if_false]
  have : (!true && c == 92) = false := by simp
  rw [this, scan_plain l hl tail]
  cases scanBody tail false <;> simp

theorem hex8_plain (n : Nat) : ∀ c ∈ hex8 n, c ≠ 34 ∧ c ≠ 92 := by
  intro c hc
  simp only [hex8, List.mem_cons, List.mem_nil_iff, or_false] at hc
  rcases hc with h|h|h|h|h|h|h|h <;> subst h <;> exact hexDigit_plain _ (Nat.mod_lt _ (by omega))

/-- the scan never stops inside an escape sequence and leaves it un-escaped -/
theorem scan_escChar (c : Nat) (tail : Str) :
    scanBody (escChar isPrint c ++ tail) false =
      (scanBody tail false).map fun (b, r) => (escChar isPrint c ++ b, r) := by
  unfold escChar
  split
  · -- \"
    have := scan_plain_esc 34 [] (by simp) tail
    simp only [List.cons_append, List.nil_append, scanBody] at this ⊢
    simp at this ⊢
    cases h : scanBody tail false <;> simp_all
  · split
    · have := scan_plain_esc 92 [] (by simp) tail
      simp only [List.cons_append, List.nil_append, scanBody] at this ⊢
      simp at this ⊢
      cases h : scanBody tail false <;> simp_all
    · split
      · have := scan_plain_esc 110 [] (by simp) tail
        simp only [List.cons_append, List.nil_append, scanBody] at this ⊢
        simp at this ⊢
        cases h : scanBody tail false <;> simp_all
      · split
        · rename_i h1 h2 h3 h4
          exact scan_plain [c] (by simp; exact ⟨h1, h2⟩) tail
        · -- \Uhhhhhhhh
          have := scan_plain_esc 85 (hex8 c) (hex8_plain c) tail
          simp only [List.cons_append, scanBody] at this ⊢
          simp at this ⊢
          cases h : scanBody (hex8 c ++ tail) false <;> cases h' : scanBody tail false <;> simp_all

/-- the closing quote is found exactly at the end of the quoted body -/
theorem scan_quoteBody (s : Str) (rest : Str) :
    scanBody (quoteBody isPrint s ++ 34 :: rest) false = some (quoteBody isPrint s, rest) := by
  induction s with
  | nil => simp [quoteBody, scanBody]
  | cons c cs ih =>
    simp only [quoteBody, List.flatMap_cons, List.append_assoc] at ih ⊢
    rw [scan_escChar, ih]
    simp

/-- unquote the raw body -/
def unq : Nat → Str → Option Str
  | 0, _ => none
  | _+1, [] => some []
  | f+1, 92 :: 34 :: cs => (unq f cs).map (34 :: ·)
  | f+1, 92 :: 92 :: cs => (unq f cs).map (92 :: ·)
  | f+1, 92 :: 110 :: cs => (unq f cs).map (10 :: ·)
  | f+1, 92 :: 85 :: a :: b :: c :: d :: e :: g :: h :: i :: cs =>
    match hexVal a, hexVal b, hexVal c, hexVal d, hexVal e, hexVal g, hexVal h, hexVal i with
    | some a, some b, some c, some d, some e, some g, some h, some i =>
      (unq f cs).map ((a * 268435456 + b * 16777216 + c * 1048576 + d * 65536 + e * 4096 + g * 256 + h * 16 + i) :: ·)
    | _, _, _, _, _, _, _, _ => none
  | _+1, 92 :: _ => none
  | f+1, c :: cs => (unq f cs).map (c :: ·)

theorem hex8_sum (c : Nat) (hc : c < 4294967296) :
    c / 268435456 % 16 * 268435456 + c / 16777216 % 16 * 16777216 + c / 1048576 % 16 * 1048576 +
      c / 65536 % 16 * 65536 + c / 4096 % 16 * 4096 + c / 256 % 16 * 256 + c / 16 % 16 * 16 + c % 16 = c := by
  omega

/-- unquoting one escape sequence -/
theorem unq_esc (f c : Nat) (tail : Str) (hc : c < 4294967296) :
    unq (f+1) (escChar isPrint c ++ tail) = (unq f tail).map (c :: ·) := by
  unfold escChar
  split
  · rename_i h; subst h; simp [unq]
  · split
    · rename_i _ h; subst h; simp [unq]
    · split
      · rename_i _ _ h; subst h; simp [unq]
      · split
        · rename_i h1 h2 h3 h4
          simp only [List.cons_append, List.nil_append]
          rw [unq]
          all_goals (intros; simp_all)
        · simp only [List.cons_append, hex8, unq]
          simp only [hexVal_hexDigit _ (Nat.mod_lt _ (by omega : 16 > 0))]
          simp only [List.nil_append, hex8_sum c hc]

/-- unquoting the quoted body gives the value back (code points below 2^32) -/
theorem unq_quoteBody (s : Str) (hs : ∀ c ∈ s, c < 4294967296) :
    ∀ f, s.length < f → unq f (quoteBody isPrint s) = some s := by
  induction s with
  | nil => intro f hf; cases f with | zero => omega | succ f => simp [quoteBody, unq]
  | cons c cs ih =>
    intro f hf
    cases f with
    | zero => omega
    | succ f =>
      have hc := hs c (by simp)
      have ih' := ih (fun x hx => hs x (by simp [hx])) f (by simp at hf; omega)
      simp only [quoteBody, List.flatMap_cons] at ih' ⊢
      rw [unq_esc isPrint f c _ hc, ih']
      simp

/-- C08 strings: the lexer reads a quoted value back exactly, whatever follows -/
theorem quote_lex_roundtrip (s rest : Str) (hs : ∀ c ∈ s, c < 4294967296) :
    ∃ body, scanBody (quoteBody isPrint s ++ 34 :: rest) false = some (body, rest) ∧
      unq (s.length + 1) body = some s :=
  ⟨quoteBody isPrint s, scan_quoteBody isPrint s rest, unq_quoteBody isPrint s hs _ (by omega)⟩

end Ecal.C08.Q
