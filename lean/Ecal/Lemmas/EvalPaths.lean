import Ecal.Lemmas.EvalLists
import Ecal.Lemmas.EvalHeap
/-!
Access paths on the heap of `Model/Eval.lean`: `setValue` / `getValue` for dotted names, i.e. `containerWalk` (write
side) and `containerGet` (read side) over the same cells, and the cell write at the end.
-/
namespace Ecal.Ev

/-- the list index a path segment denotes (negative counts from the end), if it is inside the list -/
def listIdx (fld : List Nat) (len : Nat) : Option Nat :=
  match atoi fld with
  | some i =>
    let j := if i < 0 then i + len else i
    if 0 ≤ j && j < (len : Int) then some j.toNat else none
  | none => none

theorem listIndex_run (fld : List Nat) (len : Nat) (st : St) :
    runM (listIndex fld len) st = match listIdx fld len with
      | some i => (.ok i, st)
      | none => match atoi fld with
        | some _ => (.error (plain "Out of bounds access to list"), st)
        | none => (.error (plain "List needs a number index"), st) := by
  unfold listIndex listIdx
  cases atoi fld with
  | none => rfl
  | some i =>
    simp only
    split <;> split <;> rfl

theorem listIdx_lt (fld : List Nat) (len i : Nat) (h : listIdx fld len = some i) : i < len := by
  unfold listIdx at h
  cases ha : atoi fld with
  | none => simp [ha] at h
  | some j =>
    simp only [ha] at h
    by_cases hc : (decide (0 ≤ (if j < 0 then j + len else j)) && decide ((if j < 0 then j + len else j) < (len : Int))) = true
    · simp only [hc, if_true] at h
      injection h with h; subst h
      simp only [Bool.and_eq_true, decide_eq_true_eq] at hc
      omega
    · simp only [hc, if_false] at h
      cases h

/-- one successful step of an access path from container `c` -/
def stepP (st : St) (fld : List Nat) : Val → Option Val
  | .map r => mapFieldLookup (st.entries r) fld
  | .list r l => (listIdx fld l).map fun i => (st.backing r).getD i Val.null
  | _ => none

/-- following the segments `flds` from `c` succeeds and ends in `cont` -/
inductive Steps (st : St) : List (List Nat) → Val → Val → Prop
  | nil (c : Val) : Steps st [] c c
  | cons (fld : List Nat) (rest : List (List Nat)) (c nxt cont : Val) :
      stepP st fld c = some nxt → Steps st rest nxt cont → Steps st (fld :: rest) c cont

/-- write side: one step of `containerWalk` -/
theorem containerWalk_step (f : Nat) (fld : List Nat) (rest : List (List Nat)) (c cont : Val) (st st' : St)
    (h : runM (containerWalk (f + 1) (fld :: rest) c) st = (.ok cont, st')) :
    ∃ nxt, stepP st fld c = some nxt ∧
      (if rest.length > 1 then runM (containerWalk f rest nxt) st = (.ok cont, st') else (cont = nxt ∧ st' = st)) := by
  unfold containerWalk at h
  rw [runM_bind] at h
  cases c with
  | map r =>
    simp only at h
    rw [runM_bind, getMap_run] at h
    simp only at h
    cases hm : mapFieldLookup (st.entries r) fld with
    | none => simp [hm, runM_throw] at h
    | some v =>
      simp only [hm, runM_pure] at h
      refine ⟨v, by simp [stepP, hm], ?_⟩
      split
      · rename_i hl; simpa [hl] using h
      · rename_i hl
        simp only [hl, if_false, runM_pure] at h
        injection h with h1 h2; injection h1 with h1
        exact ⟨h1.symm, h2.symm⟩
  | list r l =>
    simp only at h
    rw [runM_bind, listIndex_run] at h
    cases hi : listIdx fld l with
    | none =>
      simp only [hi] at h
      cases hat : atoi fld <;> simp [hat] at h
    | some i =>
      simp only [hi] at h
      rw [runM_bind, getBacking_run] at h
      simp only [runM_pure] at h
      refine ⟨(st.backing r).getD i Val.null, by simp [stepP, hi], ?_⟩
      split
      · rename_i hl; simpa [hl] using h
      · rename_i hl
        simp only [hl, if_false, runM_pure] at h
        injection h with h1 h2; injection h1 with h1
        exact ⟨h1.symm, h2.symm⟩
  | _ => simp [runM_throw] at h

/-- `containerWalk` over `pre ++ [last]` (at least two segments) follows `pre` and leaves the state alone -/
theorem containerWalk_steps : ∀ (f : Nat) (pre : List (List Nat)) (last : List Nat) (c cont : Val) (st st' : St),
    pre ≠ [] → runM (containerWalk f (pre ++ [last]) c) st = (.ok cont, st') → st' = st ∧ Steps st pre c cont := by
  intro f
  induction f with
  | zero => intro pre last c cont st st' _ h; simp [containerWalk, runM_throw] at h
  | succ f ih =>
    intro pre last c cont st st' hne h
    cases pre with
    | nil => exact absurd rfl hne
    | cons p ps =>
      simp only [List.cons_append] at h
      obtain ⟨nxt, hs, hrest⟩ := containerWalk_step f p (ps ++ [last]) c cont st st' h
      cases ps with
      | nil =>
        simp only [List.nil_append, List.length_singleton, Nat.lt_irrefl, if_false] at hrest
        obtain ⟨e1, e2⟩ := hrest
        subst e1
        exact ⟨e2, Steps.cons p [] c cont cont hs (Steps.nil cont)⟩
      | cons q qs =>
        have hl : (q :: qs ++ [last]).length > 1 := by simp
        simp only [hl, if_true] at hrest
        obtain ⟨e, hst⟩ := ih (q :: qs) last nxt cont st st' (by simp) hrest
        exact ⟨e, Steps.cons p (q :: qs) c nxt cont hs hst⟩

/-- the "found" flag of a read -/
def isSet : Val → Bool
  | .null => false
  | _ => true

theorem isSet_eq (v : Val) : (match v with | .null => false | _ => true) = isSet v := by cases v <;> rfl

/-- read side: one step of `containerGet` when the step succeeds -/
theorem containerGet_step (f : Nat) (fld : List Nat) (rest : List (List Nat)) (c nxt : Val) (st : St)
    (hs : stepP st fld c = some nxt) :
    runM (containerGet (f + 1) (fld :: rest) c) st =
      if rest.isEmpty then (.ok (nxt, isSet nxt), st) else runM (containerGet f rest nxt) st := by
  cases c with
  | map r =>
    simp only [stepP] at hs
    simp only [containerGet]
    rw [runM_bind, runM_bind, getMap_run]
    simp only [hs, Option.getD_some, runM_pure, isSet_eq]
    split <;> rfl
  | list r l =>
    simp only [stepP, Option.map_eq_some_iff] at hs
    obtain ⟨i, hi, hv⟩ := hs
    simp only [containerGet]
    rw [runM_bind, runM_bind, listIndex_run]
    simp only [hi]
    rw [runM_bind, getBacking_run]
    simp only [runM_pure, hv, isSet_eq]
    split <;> rfl
  | _ => simp [stepP] at hs

/-- `containerGet` over `pre ++ rest` follows `pre` first -/
theorem containerGet_steps (st : St) : ∀ (pre : List (List Nat)) (rest : List (List Nat)) (c cont : Val) (f : Nat),
    Steps st pre c cont → rest ≠ [] →
    runM (containerGet (f + pre.length) (pre ++ rest) c) st = runM (containerGet f rest cont) st := by
  intro pre
  induction pre with
  | nil => intro rest c cont f hs _; cases hs; rfl
  | cons p ps ih =>
    intro rest c cont f hs hne
    cases hs with
    | cons _ _ _ nxt _ h1 h2 =>
      simp only [List.cons_append, List.length_cons]
      rw [show f + (ps.length + 1) = (f + ps.length) + 1 by omega, containerGet_step _ p (ps ++ rest) c nxt st h1]
      have : (ps ++ rest).isEmpty = false := by cases ps <;> cases rest <;> simp_all
      simp only [this, Bool.false_eq_true, if_false]
      exact ih rest nxt cont f h2 hne


/-! ### the walk is not disturbed by a write into a cell it does not pass -/

/-- the heap cell a container value refers to: (is a map, index) -/
def cellOf : Val → Option (Bool × Nat)
  | .map r => some (true, r)
  | .list r _ => some (false, r)
  | _ => none

/-- `Steps` that never leave from cell `w` (the cell that is going to be written) -/
inductive StepsAvoid (st : St) (w : Bool × Nat) : List (List Nat) → Val → Val → Prop
  | nil (c : Val) : StepsAvoid st w [] c c
  | cons (fld : List Nat) (rest : List (List Nat)) (c nxt cont : Val) : cellOf c ≠ some w →
      stepP st fld c = some nxt → StepsAvoid st w rest nxt cont → StepsAvoid st w (fld :: rest) c cont

/-- `st'` is `st` except for cell `w` -/
def AgreeBut (w : Bool × Nat) (st st' : St) : Prop :=
  (∀ q, (true, q) ≠ w → st'.entries q = st.entries q) ∧ (∀ q, (false, q) ≠ w → st'.backing q = st.backing q)

theorem stepP_agree (w : Bool × Nat) (st st' : St) (h : AgreeBut w st st') (fld : List Nat) (c : Val)
    (hc : cellOf c ≠ some w) : stepP st' fld c = stepP st fld c := by
  cases c with
  | map r => simp only [stepP, h.1 r (by simpa [cellOf] using hc)]
  | list r l => simp only [stepP, h.2 r (by simpa [cellOf] using hc)]
  | _ => rfl

theorem stepsAvoid_agree (w : Bool × Nat) (st st' : St) (h : AgreeBut w st st') :
    ∀ (pre : List (List Nat)) (c cont : Val), StepsAvoid st w pre c cont → Steps st' pre c cont := by
  intro pre
  induction pre with
  | nil => intro c cont hs; cases hs; exact Steps.nil _
  | cons p ps ih =>
    intro c cont hs
    cases hs with
    | cons _ _ _ nxt _ hc h1 h2 =>
      exact Steps.cons p ps c nxt cont (by rw [stepP_agree w st st' h p c hc]; exact h1) (ih nxt cont h2)

theorem steps_of_avoid (w : Bool × Nat) (st : St) : ∀ (pre : List (List Nat)) (c cont : Val),
    StepsAvoid st w pre c cont → Steps st pre c cont := by
  intro pre
  induction pre with
  | nil => intro c cont hs; cases hs; exact Steps.nil _
  | cons p ps ih =>
    intro c cont hs
    cases hs with
    | cons _ _ _ nxt _ _ h1 h2 => exact Steps.cons p ps c nxt cont h1 (ih nxt cont h2)

theorem steps_det (st : St) : ∀ (pre : List (List Nat)) (c a b : Val), Steps st pre c a → Steps st pre c b → a = b := by
  intro pre
  induction pre with
  | nil => intro c a b h1 h2; cases h1; cases h2; rfl
  | cons p ps ih =>
    intro c a b h1 h2
    cases h1 with
    | cons _ _ _ n1 _ e1 r1 =>
      cases h2 with
      | cons _ _ _ n2 _ e2 r2 =>
        rw [e1] at e2; injection e2 with e2; subst e2
        exact ih n1 a b r1 r2

/-! ### name resolution depends on the scopes only -/
theorem scopeFor_congr (st st' : St) (hs : st'.scopes = st.scopes) (v : String) : ∀ (f sc : Nat) (r : Except Sig (Option Nat)),
    runM (scopeFor f sc v) st = (r, st) → runM (scopeFor f sc v) st' = (r, st') := by
  intro f
  induction f with
  | zero => intro sc r h; rw [scopeFor_zero] at h ⊢; injection h with h1 _; rw [h1]
  | succ f ih =>
    intro sc r h
    rw [scopeFor_succ] at h ⊢
    have e1 : st'.defines sc v = st.defines sc v := by simp [St.defines, St.scope, hs]
    have e2 : st'.scope sc = st.scope sc := by simp [St.scope, hs]
    rw [e1, e2]
    by_cases hd : st.defines sc v = true
    · simp only [hd, if_true] at h ⊢
      injection h with h1 _; rw [h1]
    · have hd' : st.defines sc v = false := by simpa using hd
      simp only [hd', Bool.false_eq_true, if_false] at h ⊢
      cases hp : (st.scope sc).parent with
      | none => simp only [hp] at h ⊢; injection h with h1 _; rw [h1]
      | some p => simp only [hp] at h ⊢; exact ih p r h

theorem lookupVar_congr (st st' : St) (hs : st'.scopes = st.scopes) (sc : Nat) (v : String) (r : Option Val)
    (h : runM (lookupVar sc v) st = (.ok r, st)) : runM (lookupVar sc v) st' = (.ok r, st') := by
  unfold lookupVar at h ⊢
  rw [runM_bind] at h ⊢
  cases hsf : runM (scopeFor 10000 sc v) st with
  | mk r1 s1 =>
    have hs1 : s1 = st := by
      cases r1 with
      | ok o => exact (scopeFor_ok _ _ _ _ _ _ hsf).1
      | error e => rw [hsf] at h; simp at h
    subst hs1
    rw [scopeFor_congr s1 st' hs v 10000 sc r1 hsf]
    rw [hsf] at h
    cases r1 with
    | error e => simp at h
    | ok o =>
      cases o with
      | none => simpa [runM_pure] using h
      | some s =>
        simp only at h ⊢
        rw [runM_bind, getScope_run] at h ⊢
        simp only [runM_pure] at h ⊢
        have e2 : st'.scope s = s1.scope s := by simp [St.scope, hs]
        rw [e2]
        injection h with h1 _
        rw [h1]


/-! ### setValue on a dotted name = walk, then one cell write -/

theorem getLast!_snoc (pre : List (List Nat)) (last : List Nat) : (pre ++ [last]).getLast! = last := by
  induction pre with
  | nil => rfl
  | cons p ps ih =>
    cases ps with
    | nil => rfl
    | cons q qs => simpa [List.getLast!] using ih

/-- what `setValue` did when it succeeded on a dotted name -/
def WriteResult (st st' : St) (last : List Nat) (x cont : Val) : Prop :=
  (cont = .null ∧ st' = st) ∨
  (∃ r, cont = .map r ∧ st' = { st with maps := st.maps.setIfInBounds r (mapStore (st.entries r) (fieldKey (st.entries r) last) x) }) ∨
  (∃ r l i, cont = .list r l ∧ listIdx last l = some i ∧
    st' = { st with lists := st.lists.setIfInBounds r ((st.backing r).set i x) })

/-- `setValue` on `v0.pre….last`: the variable is resolved, `containerWalk` follows `pre` (state unchanged), and the
    container reached gets ONE cell write — under the key `fieldKey` chooses (maps) / at the index `listIdx` gives
    (lists); a null container is silently left alone -/
theorem setValue_path (sc : Nat) (name v0 : List Nat) (pre : List (List Nat)) (last : List Nat) (x c : Val) (st st' : St)
    (hn : splitDots name = v0 :: (pre ++ [last]))
    (hv : runM (lookupVar sc (bytesToString v0)) st = (.ok (some c), st))
    (h : runM (setValue sc name x) st = (.ok (), st')) :
    ∃ cont, Steps st pre c cont ∧ WriteResult st st' last x cont := by
  unfold setValue at h
  -- the tail, once the container is known
  have tail : ∀ cont, Steps st pre c cont →
      runM (match cont with
        | .null => (pure () : M Unit)
        | .map r => do
          let kvs ← getMap r
          let key : Val := match atoi ((pre ++ [last]).getLast!) with
            | some i => if (mapLookup kvs (.num (Float.ofInt i))).isSome then .num (Float.ofInt i) else .str ((pre ++ [last]).getLast!)
            | none => .str ((pre ++ [last]).getLast!)
          setMap r (mapStore kvs key x)
        | .list r l => do
          let i ← listIndex ((pre ++ [last]).getLast!) l
          setBacking r ((← getBacking r).set i x)
        | _ => throw (plain "Variable is not a container")) st = (.ok (), st') →
      ∃ cont, Steps st pre c cont ∧ WriteResult st st' last x cont := by
    intro cont hst ht
    rw [getLast!_snoc] at ht
    refine ⟨cont, hst, ?_⟩
    cases cont with
    | null => simp only [runM_pure] at ht; injection ht with _ h2; exact Or.inl ⟨rfl, h2.symm⟩
    | map r =>
      simp only at ht
      rw [runM_bind, getMap_run] at ht
      simp only at ht
      rw [setMap_run] at ht
      injection ht with _ h2
      exact Or.inr (Or.inl ⟨r, rfl, by rw [← h2]; rfl⟩)
    | list r l =>
      simp only at ht
      rw [runM_bind, listIndex_run] at ht
      cases hi : listIdx last l with
      | none => simp only [hi] at ht; cases hat : atoi last <;> simp [hat] at ht
      | some i =>
        simp only [hi] at ht
        rw [runM_bind, getBacking_run] at ht
        simp only at ht
        rw [setBacking_run] at ht
        injection ht with _ h2
        exact Or.inr (Or.inr ⟨r, l, i, rfl, hi, h2.symm⟩)
    | _ => simp [runM_throw] at ht
  cases pre with
  | nil =>
    simp only [List.nil_append] at hn tail
    simp only [hn] at h
    rw [runM_bind, hv] at h
    simp only [List.length_cons, List.length_nil] at h
    rw [runM_bind] at h
    simp only [show ¬ (0 + 1 + 1 > 2) by omega, if_false, runM_pure] at h
    exact tail c (Steps.nil c) h
  | cons p ps =>
    simp only [List.cons_append] at hn
    simp only [hn] at h
    rw [runM_bind, hv] at h
    simp only [List.length_cons] at h
    rw [runM_bind] at h
    simp only [show ((ps ++ [last]).length + 1 + 1 > 2) by simp, if_true] at h
    cases hw : runM (containerWalk 10000 (p :: (ps ++ [last])) c) st with
    | mk rw s1 =>
      rw [hw] at h
      cases rw with
      | error e => simp at h
      | ok cont =>
        simp only at h
        obtain ⟨e1, hst⟩ := containerWalk_steps 10000 (p :: ps) last c cont st s1 (by simp) (by simpa using hw)
        subst e1
        exact tail cont hst h

/-! ### read after write through the same path -/

theorem getValue_path (sc : Nat) (name v0 : List Nat) (pre : List (List Nat)) (last : List Nat) (c cont nxt : Val) (st : St)
    (hn : splitDots name = v0 :: (pre ++ [last])) (hlen : pre.length < 10000)
    (hv : runM (lookupVar sc (bytesToString v0)) st = (.ok (some c), st))
    (hst : Steps st pre c cont) (hlast : stepP st last cont = some nxt) :
    runM (getValue sc name) st = (.ok (nxt, isSet nxt), st) := by
  have key : runM (containerGet 10000 (pre ++ [last]) c) st = (.ok (nxt, isSet nxt), st) := by
    obtain ⟨k, hk⟩ : ∃ k, 10000 = (k + 1) + pre.length := ⟨10000 - pre.length - 1, by omega⟩
    rw [hk, containerGet_steps st pre [last] c cont (k + 1) hst (by simp), containerGet_step k last [] cont nxt st hlast]
    rfl
  unfold getValue
  cases pre with
  | nil =>
    simp only [List.nil_append] at hn key
    simp only [hn]
    rw [runM_bind, hv]
    exact key
  | cons p ps =>
    simp only [List.cons_append] at hn key
    simp only [hn]
    rw [runM_bind, hv]
    exact key

/-- Containers are references: a successful write through ONE name (`name`: variable `v0`, segments `pre`, last
    segment `last`) into the cell `cont` is read through ANY name (`name2`: variable `v2` seen from scope `sc2`,
    segments `pre2`, same last segment) whose path reaches the same cell — two variables holding the same map or
    list, a parameter and the caller's variable, an element reached through different containers. -/
theorem setValue_getValue_alias (sc : Nat) (name v0 : List Nat) (pre : List (List Nat)) (last : List Nat) (x c cont : Val) (st st' : St)
    (sc2 : Nat) (name2 v2 : List Nat) (pre2 : List (List Nat)) (c2 : Val)
    (hn2 : splitDots name2 = v2 :: (pre2 ++ [last])) (hlen2 : pre2.length < 10000)
    (hv2 : runM (lookupVar sc2 (bytesToString v2)) st = (.ok (some c2), st))
    (hav2 : ∀ w, cellOf cont = some w → StepsAvoid st w pre2 c2 cont)
    (hn : splitDots name = v0 :: (pre ++ [last]))
    (hv : runM (lookupVar sc (bytesToString v0)) st = (.ok (some c), st))
    (hset : runM (setValue sc name x) st = (.ok (), st'))
    (hcell : (∃ r, cont = .map r ∧ r < st.maps.size ∧ StepsAvoid st (true, r) pre c cont ∧
               ∀ i, atoi last = some i → keyEq (.num (Float.ofInt i)) (.num (Float.ofInt i)) = true) ∨
             (∃ r l, cont = .list r l ∧ r < st.lists.size ∧ l ≤ (st.backing r).length ∧ StepsAvoid st (false, r) pre c cont)) :
    runM (getValue sc2 name2) st' = (.ok (x, isSet x), st') := by
  obtain ⟨cont', hst', hw⟩ := setValue_path sc name v0 pre last x c st st' hn hv hset
  rcases hcell with ⟨r, hc, hr, hav, hnum⟩ | ⟨r, l, hc, hr, hl, hav⟩
  · have e := steps_det st pre c cont' cont hst' (steps_of_avoid _ st pre c cont hav)
    subst e; subst hc
    rcases hw with ⟨e, _⟩ | ⟨r', e, hs'⟩ | ⟨r', l', i, e, _, _⟩
    · cases e
    · injection e with e; subst e
      have hagree : AgreeBut (true, r) st st' := by
        rw [hs']
        refine ⟨fun q hq => ?_, fun _ _ => rfl⟩
        have hqr : q ≠ r := by intro e; apply hq; rw [e]
        simp only [St.entries, Array.getD_eq_getD_getElem?]
        rw [Array.getElem?_setIfInBounds_ne (Ne.symm hqr)]
      have hsc : st'.scopes = st.scopes := by rw [hs']
      have hent : st'.entries r = mapStore (st.entries r) (fieldKey (st.entries r) last) x := by
        rw [hs']; simp [St.entries, hr]
      refine getValue_path sc2 name2 v2 pre2 last c2 (.map r) x st' hn2 hlen2 (lookupVar_congr st st' hsc sc2 _ _ hv2)
        (stepsAvoid_agree _ st st' hagree pre2 c2 _ (hav2 _ rfl)) ?_
      simp only [stepP, hent]
      exact mapField_read_after_write _ last x hnum
    · cases e
  · have e := steps_det st pre c cont' cont hst' (steps_of_avoid _ st pre c cont hav)
    subst e; subst hc
    rcases hw with ⟨e, _⟩ | ⟨r', e, _⟩ | ⟨r', l', i, e, hi, hs'⟩
    · cases e
    · cases e
    · injection e with e1 e2; subst e1; subst e2
      have hagree : AgreeBut (false, r) st st' := by
        rw [hs']
        refine ⟨fun _ _ => rfl, fun q hq => ?_⟩
        have hqr : q ≠ r := by intro e; apply hq; rw [e]
        exact backing_set_other st r q _ hqr
      have hsc : st'.scopes = st.scopes := by rw [hs']
      have hb : st'.backing r = (st.backing r).set i x := by rw [hs']; exact backing_set_same st r _ hr
      refine getValue_path sc2 name2 v2 pre2 last c2 (.list r l) x st' hn2 hlen2 (lookupVar_congr st st' hsc sc2 _ _ hv2)
        (stepsAvoid_agree _ st st' hagree pre2 c2 _ (hav2 _ rfl)) ?_
      have hil : i < (st.backing r).length := Nat.lt_of_lt_of_le (listIdx_lt last l i hi) hl
      simp [stepP, hi, hb, List.getD, hil]

/-- C05, clause "after a successful `c[k] := v` / `c.k := v`, reading `c[k]` yields `v`", on `setValue` / `getValue`
    themselves, for any nesting: the same dotted name (variable, segments `pre`, last segment) read after a
    successful write yields the written value.  `cont` is the container the path reaches; hypotheses: it is an
    existing map or list cell (a slice with len ≤ capacity), the walk to it does not leave FROM that very cell (no
    cycle through the written cell), and — for a numeric last segment on a map — `==` is reflexive on that number
    (not NaN).  Covers number and string map keys (`fieldKey`, fix 5e0a7a5) and negative list indices (`listIdx`). -/
theorem setValue_getValue (sc : Nat) (name v0 : List Nat) (pre : List (List Nat)) (last : List Nat) (x c cont : Val) (st st' : St)
    (hn : splitDots name = v0 :: (pre ++ [last])) (hlen : pre.length < 10000)
    (hv : runM (lookupVar sc (bytesToString v0)) st = (.ok (some c), st))
    (hset : runM (setValue sc name x) st = (.ok (), st'))
    (hcell : (∃ r, cont = .map r ∧ r < st.maps.size ∧ StepsAvoid st (true, r) pre c cont ∧
               ∀ i, atoi last = some i → keyEq (.num (Float.ofInt i)) (.num (Float.ofInt i)) = true) ∨
             (∃ r l, cont = .list r l ∧ r < st.lists.size ∧ l ≤ (st.backing r).length ∧ StepsAvoid st (false, r) pre c cont)) :
    runM (getValue sc name) st' = (.ok (x, isSet x), st') := by
  refine setValue_getValue_alias sc name v0 pre last x c cont st st' sc name v0 pre c hn hlen hv ?_ hn hv hset hcell
  intro w hw
  rcases hcell with ⟨r, hc, _, hav, _⟩ | ⟨r, l, hc, _, _, hav⟩
  · subst hc; simp only [cellOf] at hw; injection hw with hw; subst hw; exact hav
  · subst hc; simp only [cellOf] at hw; injection hw with hw; subst hw; exact hav

end Ecal.Ev
