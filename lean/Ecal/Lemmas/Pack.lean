import Ecal.Model.Pack
/-!
Lemmas about the marker scan (`Ecal.Pack.Impl.scanLoop`): for every geometry with
`keep < bufSize`, `|marker| ≤ keep + 1`, `marker ≠ []`, every read schedule and
every file, the block loop returns exactly what `strings.Index` over the whole
file would give (`scanLoop_eq_spec`). Loop invariant: the window starts at file
offset `pos`, no occurrence of the marker starts before `pos`, and at most `keep`
bytes are carried over.
-/
namespace Ecal.Pack

/-! ### `findFirst` is the first occurrence -/

theorem findFirst_some {M : List Nat} : ∀ {l : List Nat} {i : Nat}, findFirst M l = some i →
    occ M l i ∧ ∀ j, j < i → ¬ occ M l j := by
  intro l
  induction l with
  | nil =>
    intro i h
    simp only [findFirst] at h
    split at h
    · rename_i hM; cases h; subst hM; exact ⟨by simp [occ], by intro j hj; omega⟩
    · cases h
  | cons x xs ih =>
    intro i h
    simp only [findFirst] at h
    split at h
    · rename_i hp; cases h
      exact ⟨by simpa [occ] using hp, by intro j hj; omega⟩
    · rename_i hp
      cases hf : findFirst M xs with
      | none => simp [hf] at h
      | some k =>
        simp [hf] at h; subst h
        obtain ⟨h1, h2⟩ := ih hf
        refine ⟨by simpa [occ] using h1, ?_⟩
        intro j hj
        cases j with
        | zero => simpa [occ] using hp
        | succ j => have := h2 j (by omega); simpa [occ] using this

theorem findFirst_none {M : List Nat} (hM : M ≠ []) : ∀ {l : List Nat}, findFirst M l = none →
    ∀ j, ¬ occ M l j := by
  intro l
  induction l with
  | nil =>
    intro _ j h
    simp only [occ, List.drop_nil, List.prefix_nil] at h
    exact hM h
  | cons x xs ih =>
    intro h j
    simp only [findFirst] at h
    split at h
    · cases h
    · rename_i hp
      cases hf : findFirst M xs with
      | some k => simp [hf] at h
      | none =>
        cases j with
        | zero => simpa [occ] using hp
        | succ j => have := ih hf j; simpa [occ] using this

/-- an occurrence lies inside the list -/
theorem occ_bound {M l : List Nat} {i : Nat} (hM : M ≠ []) (h : occ M l i) : i + M.length ≤ l.length := by
  have := h.length_le
  simp only [List.length_drop] at this
  have : 0 < M.length := List.length_pos_iff.mpr hM
  omega

/-- an occurrence inside a prefix `w` of `l` is an occurrence in `l` -/
theorem occ_of_prefix {M w l : List Nat} {i : Nat} (h : occ M w i) (hw : w <+: l) : occ M l i := by
  obtain ⟨t, rfl⟩ := hw
  unfold occ at *
  by_cases hi : i ≤ w.length
  · rw [List.drop_append_of_le_length hi]
    exact h.trans (List.prefix_append _ _)
  · have : w.drop i = [] := List.drop_eq_nil_of_le (by omega)
    rw [this, List.prefix_nil] at h
    subst h; exact List.nil_prefix

/-- an occurrence in `l` that ends inside the prefix `w` is an occurrence in `w` -/
theorem occ_within {M w l : List Nat} {i : Nat} (h : occ M l i) (hw : w <+: l)
    (hlen : i + M.length ≤ w.length) : occ M w i := by
  obtain ⟨t, rfl⟩ := hw
  unfold occ at *
  rw [List.drop_append_of_le_length (by omega)] at h
  exact List.prefix_of_prefix_length_le h (List.prefix_append _ _) (by simp; omega)

/-- shifting by a known front part -/
theorem occ_shift {M A l : List Nat} {i : Nat} : occ M (A ++ l) (A.length + i) ↔ occ M l i := by
  unfold occ
  rw [← List.drop_drop, List.drop_left]

/-- the marker written by `Pack` is an occurrence at `|bin|` -/
theorem occ_layout (M bin zip : List Nat) : occ M (layout M bin zip) bin.length := by
  have : occ M (bin ++ (M ++ zip)) (bin.length + 0) := occ_shift.mpr (by simp [occ])
  simpa [layout] using this

/-! ### writing the target without truncation (witness lemma, used by an `example` in Props.C20) -/

/-- Without truncation an existing longer target keeps a non-empty stale tail behind the new
    archive: the file is the layout of `zip ++ tail`, not of `zip`. -/
theorem pack_keepOld_stale_tail (M old bin zip : List Nat) (h : (layout M bin zip).length < old.length) :
    pack .keepOld M old bin zip = layout M bin (zip ++ old.drop (layout M bin zip).length) ∧
    old.drop (layout M bin zip).length ≠ [] := by
  constructor
  · simp [pack, writeFrom0, layout, List.append_assoc]
  · intro hnil
    have := congrArg List.length hnil
    simp only [List.length_drop, List.length_nil] at this
    omega

namespace Impl

theorem readLen_le_room (room avail want : Nat) : readLen room avail want ≤ room := by
  unfold readLen; omega

theorem readLen_pos {room avail want : Nat} (h1 : 0 < room) (h2 : 0 < avail) : 0 < readLen room avail want := by
  unfold readLen; omega

/-- Case "the file contains the marker, first at `idx`": the loop returns `idx + |M|`. -/
theorem scanLoop_found (g : Geom) (rd : Nat → Nat → Nat) (hcap : g.keep < g.bufSize)
    (hkeep : g.marker.length ≤ g.keep + 1) (hM : g.marker ≠ []) (data : List Nat) (idx : Nat)
    (hocc : occ g.marker data idx) (hfirst : ∀ j, j < idx → ¬ occ g.marker data j) :
    ∀ (fuel : Nat) (rest carry P : List Nat), data = P ++ (carry ++ rest) → P.length ≤ idx →
      carry.length ≤ g.keep → rest.length < fuel →
      scanLoop g rd fuel rest carry P.length = .found (idx + g.marker.length) := by
  intro fuel
  induction fuel with
  | zero => intro rest carry P _ _ _ h; omega
  | succ fuel ih =>
    intro rest carry P hdata hpos hcarry hfuel
    have hML : 0 < g.marker.length := List.length_pos_iff.mpr hM
    -- the first occurrence, seen from the window start
    have hocc' : occ g.marker (carry ++ rest) (idx - P.length) := by
      have : occ g.marker (P ++ (carry ++ rest)) (P.length + (idx - P.length)) := by
        rw [← hdata]; have : P.length + (idx - P.length) = idx := by omega
        rw [this]; exact hocc
      exact occ_shift.mp this
    have hroom : 0 < g.bufSize - carry.length := by omega
    have hnp : ¬ (g.bufSize < carry.length) := by omega
    generalize hn : readLen (g.bufSize - carry.length) rest.length (rd fuel (g.bufSize - carry.length)) = n
    have hwpre : carry ++ rest.take n <+: carry ++ rest := by
      simpa using List.take_prefix n rest
    simp only [scanLoop, hnp, if_false, hn]
    cases hf : findFirst g.marker (carry ++ rest.take n) with
    | some i =>
      simp only
      obtain ⟨hi1, hi2⟩ := findFirst_some hf
      have hdi : occ g.marker data (P.length + i) := by
        rw [hdata]; exact occ_shift.mpr (occ_of_prefix hi1 hwpre)
      have hle : idx ≤ P.length + i := by
        by_cases h : idx ≤ P.length + i
        · exact h
        · exact absurd hdi (hfirst _ (by omega))
      have hge : P.length + i ≤ idx := by
        by_cases h : P.length + i ≤ idx
        · exact h
        · exfalso
          have hlen : i + g.marker.length ≤ (carry ++ rest.take n).length := occ_bound hM hi1
          have : occ g.marker (carry ++ rest.take n) (idx - P.length) :=
            occ_within hocc' hwpre (by omega)
          exact hi2 _ (by omega) this
      have : P.length + (i + g.marker.length) = idx + g.marker.length := by omega
      rw [this]
    | none =>
      simp only
      have hno := findFirst_none hM hf
      have hroom' : ¬ (g.bufSize - carry.length = 0) := by omega
      simp only [hroom', if_false]
      by_cases hr : rest = []
      · exfalso
        subst hr
        simp only [List.take_nil, List.append_nil] at hno
        simp only [List.append_nil] at hocc'
        exact hno _ hocc'
      · simp only [hr, if_false]
        have hrl : 0 < rest.length := List.length_pos_iff.mpr hr
        have hnpos : 0 < n := by rw [← hn]; exact readLen_pos hroom hrl
        have hnle : n ≤ rest.length := by rw [← hn]; unfold readLen; omega
        have hwlen : (carry ++ rest.take n).length = carry.length + n := by simp; omega
        generalize hw : carry ++ rest.take n = w at *
        generalize hk : min g.keep w.length = keep
        have hkeep' : keep ≤ w.length := by omega
        have hsplit : carry ++ rest = (w.take (w.length - keep) ++ w.drop (w.length - keep)) ++ rest.drop n := by
          rw [List.take_append_drop, ← hw, List.append_assoc, List.take_append_drop]
        have hP' : (P ++ w.take (w.length - keep)).length = P.length + (w.length - keep) := by
          simp <;> omega
        have := ih (rest.drop n) (w.drop (w.length - keep)) (P ++ w.take (w.length - keep))
          (by rw [hdata, hsplit]; simp only [List.append_assoc])
          (by
            rw [hP']
            by_cases h : P.length + (w.length - keep) ≤ idx
            · exact h
            · exfalso
              -- then the first occurrence would lie inside the window
              have hk' : keep = g.keep ∨ keep = w.length := by omega
              rcases hk' with hk' | hk'
              · have : occ g.marker w (idx - P.length) := occ_within hocc' hwpre (by omega)
                exact hno _ this
              · omega)
          (by simp only [List.length_drop]; omega)
          (by simp only [List.length_drop]; omega)
        rw [hP'] at this
        exact this

/-- Case "the file does not contain the marker": the loop ends with `notFound`. -/
theorem scanLoop_notFound (g : Geom) (rd : Nat → Nat → Nat) (hcap : g.keep < g.bufSize)
    (data : List Nat) (hnone : ∀ j, ¬ occ g.marker data j) :
    ∀ (fuel : Nat) (rest carry P : List Nat) (pos : Nat), data = P ++ (carry ++ rest) →
      carry.length ≤ g.keep → rest.length < fuel →
      scanLoop g rd fuel rest carry pos = .notFound := by
  intro fuel
  induction fuel with
  | zero => intro rest carry P pos _ _ h; omega
  | succ fuel ih =>
    intro rest carry P pos hdata hcarry hfuel
    have hroom : 0 < g.bufSize - carry.length := by omega
    have hnp : ¬ (g.bufSize < carry.length) := by omega
    generalize hn : readLen (g.bufSize - carry.length) rest.length (rd fuel (g.bufSize - carry.length)) = n
    have hwpre : carry ++ rest.take n <+: carry ++ rest := by
      simpa using List.take_prefix n rest
    simp only [scanLoop, hnp, if_false, hn]
    cases hf : findFirst g.marker (carry ++ rest.take n) with
    | some i =>
      exfalso
      obtain ⟨hi1, _⟩ := findFirst_some hf
      have hdi : occ g.marker data (P.length + i) := by
        rw [hdata]; exact occ_shift.mpr (occ_of_prefix hi1 hwpre)
      exact hnone _ hdi
    | none =>
      simp only
      have hroom' : ¬ (g.bufSize - carry.length = 0) := by omega
      simp only [hroom', if_false]
      by_cases hr : rest = []
      · simp [hr]
      · simp only [hr, if_false]
        have hrl : 0 < rest.length := List.length_pos_iff.mpr hr
        have hnpos : 0 < n := by rw [← hn]; exact readLen_pos hroom hrl
        generalize hw : carry ++ rest.take n = w at *
        generalize hk : min g.keep w.length = keep
        have hkeep' : keep ≤ w.length := by omega
        have hsplit : carry ++ rest = (w.take (w.length - keep) ++ w.drop (w.length - keep)) ++ rest.drop n := by
          rw [List.take_append_drop, ← hw, List.append_assoc, List.take_append_drop]
        exact ih (rest.drop n) (w.drop (w.length - keep)) (P ++ w.take (w.length - keep)) _
          (by rw [hdata, hsplit]; simp only [List.append_assoc])
          (by simp only [List.length_drop]; omega)
          (by simp only [List.length_drop]; omega)

/-- The block loop computes `strings.Index` over the whole file (+ `len(marker)`):
    for every file, read schedule and admissible geometry. -/
theorem scanLoop_eq_spec (g : Geom) (rd : Nat → Nat → Nat) (hcap : g.keep < g.bufSize)
    (hkeep : g.marker.length ≤ g.keep + 1) (hM : g.marker ≠ []) (data : List Nat) :
    scanLoop g rd (data.length + 1) data [] 0 =
      match Spec.find g.marker data with
      | some p => .found p
      | none => .notFound := by
  unfold Spec.find
  cases hf : findFirst g.marker data with
  | some i =>
    obtain ⟨h1, h2⟩ := findFirst_some hf
    have := scanLoop_found g rd hcap hkeep hM data i h1 h2 (data.length + 1) data [] []
      (by simp) (by simp) (by simp) (by omega)
    simpa using this
  | none =>
    have := scanLoop_notFound g rd hcap data (findFirst_none hM hf) (data.length + 1) data [] [] 0
      (by simp) (by simp) (by omega)
    simpa using this

/-! ### the skip loop -/

theorem skipFrom_ge : ∀ (l : List Nat) (pos : Nat), pos ≤ skipFrom l pos := by
  intro l
  induction l with
  | nil => intro pos; simp [skipFrom]
  | cons c cs ih =>
    intro pos
    simp only [skipFrom]
    split
    · have := ih (pos + 1); omega
    · omega

theorem skipFrom_le : ∀ (l : List Nat) (pos : Nat), skipFrom l pos ≤ pos + l.length := by
  intro l
  induction l with
  | nil => intro pos; simp [skipFrom]
  | cons c cs ih =>
    intro pos
    simp only [skipFrom, List.length_cons]
    split
    · have := ih (pos + 1); omega
    · omega

/-- the skip loop stays inside the file (`ReadAt` past the end stops it) -/
theorem skipCtl_le (data : List Nat) (pos : Nat) (h : pos ≤ data.length) : skipCtl data pos ≤ data.length := by
  unfold skipCtl
  have := skipFrom_le (data.drop pos) pos
  simp only [List.length_drop] at this
  omega

/-- nothing is skipped when the byte at `pos` is neither space nor control -/
theorem skipCtl_stop (data : List Nat) (pos : Nat) (c : Nat) (cs : List Nat)
    (h : data.drop pos = c :: cs) (hc : isSkip c = false) : skipCtl data pos = pos := by
  unfold skipCtl
  rw [h]
  simp [skipFrom, hc]

/-- skipping a run of space/control bytes that is followed by another byte -/
theorem skipFrom_run : ∀ (ws : List Nat) (c : Nat) (cs : List Nat) (pos : Nat),
    (∀ b ∈ ws, isSkip b = true) → isSkip c = false →
    skipFrom (ws ++ c :: cs) pos = pos + ws.length := by
  intro ws
  induction ws with
  | nil => intro c cs pos _ hc; simp [skipFrom, hc]
  | cons w ws ih =>
    intro c cs pos hws hc
    have hw : isSkip w = true := hws w (by simp)
    simp only [List.cons_append, skipFrom, hw, if_true, List.length_cons]
    rw [ih c cs (pos + 1) (fun b hb => hws b (by simp [hb])) hc]
    omega

end Impl
end Ecal.Pack
