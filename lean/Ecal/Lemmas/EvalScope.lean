import Ecal.Model.EvalObjects
/-!
Run-level equations for the scope functions of `Model/Eval.lean` (`getScope`, `setScope`, `scopeFor`,
`setVar`, `lookupVar`, `setValue`, `setLocalValue`, `newScope`, `newChild`): what they return and what
state they leave, as plain functions of the state.  Used by `Props/C05.lean`.
-/
namespace Ecal.Ev

/-- run a computation of the evaluator monad on a state -/
def runM {α : Type} (m : M α) (st : St) : Except Sig α × St := m.run.run st

/-- the scope with index `i` -/
def St.scope (st : St) (i : Nat) : Scope := st.scopes.getD i default

/-- `v` is defined in scope `sc` itself -/
def St.defines (st : St) (sc : Nat) (v : String) : Bool := ((st.scope sc).vars.find? (·.1 == v)).isSome

/-- the scope `sc` followed by its ancestors (at most `f` scopes) -/
def St.chain (st : St) : Nat → Nat → List Nat
  | 0, _ => []
  | f+1, sc => sc :: match (st.scope sc).parent with
    | some p => st.chain f p
    | none => []

/-- the variable storage after `storage[v] = x` -/
def updVars (vars : List (String × Val)) (v : String) (x : Val) : List (String × Val) :=
  if (vars.find? (·.1 == v)).isSome then vars.map fun p => if p.1 == v then (v, x) else p else vars ++ [(v, x)]

/-- the state after `storage[v] = x` in scope `sc` -/
def St.withVar (st : St) (sc : Nat) (v : String) (x : Val) : St :=
  { st with scopes := st.scopes.setIfInBounds sc { st.scope sc with vars := updVars (st.scope sc).vars v x } }

theorem getScope_run (i : Nat) (st : St) : runM (getScope i) st = (.ok (st.scope i), st) := rfl

theorem setScope_run (i : Nat) (sc : Scope) (st : St) :
    runM (setScope i sc) st = (.ok (), { st with scopes := st.scopes.setIfInBounds i sc }) := rfl

theorem setVar_run (sc : Nat) (v : String) (x : Val) (st : St) :
    runM (setVar sc v x) st = (.ok (), st.withVar sc v x) := rfl

theorem newScope_run (name : String) (parent : Option Nat) (st : St) :
    runM (newScope name parent) st =
      (.ok st.scopes.size, { st with scopes := st.scopes.push { name := name, parent := parent, children := [], vars := [] } }) := rfl

theorem scopeFor_zero (sc : Nat) (v : String) (st : St) : runM (scopeFor 0 sc v) st = (.error Sig.fuel, st) := rfl

theorem scopeFor_succ (f sc : Nat) (v : String) (st : St) :
    runM (scopeFor (f+1) sc v) st =
      if st.defines sc v then (.ok (some sc), st)
      else match (st.scope sc).parent with
        | some p => runM (scopeFor f p v) st
        | none => (.ok none, st) := by
  have e : st.scopes.getD sc default = st.scopes[sc]?.getD default := by simp
  simp only [scopeFor, runM, St.defines, St.scope, e]
  simp [bind, ExceptT.bind, ExceptT.mk, ExceptT.run, StateT.bind, StateT.run, getScope, ExceptT.bindCont, pure,
    ExceptT.pure, StateT.pure, get, getThe, MonadStateOf.get, liftM, monadLift, MonadLift.monadLift, ExceptT.lift,
    StateT.get, Functor.map, StateT.map]
  split
  · rfl
  · split <;> rename_i h <;> simp [h] <;> rfl


/-! ### the monad, run on a state -/
theorem runM_pure {α : Type} (a : α) (st : St) : runM (pure a : M α) st = (.ok a, st) := rfl
theorem runM_throw {α : Type} (e : Sig) (st : St) : runM (throw e : M α) st = (.error e, st) := rfl

theorem runM_bind {α β : Type} (m : M α) (k : α → M β) (st : St) :
    runM (m >>= k) st = match runM m st with
      | (.ok a, s1) => runM (k a) s1
      | (.error e, s1) => (.error e, s1) := by
  simp only [runM, bind, ExceptT.bind, ExceptT.mk, ExceptT.run, StateT.bind, StateT.run]
  cases h : m st with
  | mk r s1 => cases r <;> simp [ExceptT.bindCont] <;> rfl

/-! ### nearest definition -/
theorem scopeFor_ok : ∀ (f sc : Nat) (v : String) (st st' : St) (r : Option Nat),
    runM (scopeFor f sc v) st = (.ok r, st') →
    st' = st ∧ r = (st.chain f sc).find? (fun s => st.defines s v) := by
  intro f
  induction f with
  | zero => intro sc v st st' r h; simp [scopeFor_zero] at h
  | succ f ih =>
    intro sc v st st' r h
    rw [scopeFor_succ] at h
    by_cases hd : st.defines sc v = true
    · simp only [hd, if_true] at h
      injection h with h1 h2
      injection h1 with h1
      subst h1; subst h2
      simp [St.chain, List.find?, hd]
    · simp only [hd] at h
      cases hp : (st.scope sc).parent with
      | none =>
        simp only [hp] at h
        injection h with h1 h2
        injection h1 with h1
        subst h1; subst h2
        simp [St.chain, List.find?, hd, hp]
      | some p =>
        simp only [hp] at h
        have := ih p v st st' r h
        refine ⟨this.1, ?_⟩
        simp [St.chain, List.find?, hd, hp, this.2]

/-- the value stored for `v` in scope `s` itself -/
def St.valueIn (st : St) (s : Nat) (v : String) : Val :=
  (((st.scope s).vars.find? (·.1 == v)).map (·.2)).getD Val.null

/-- the scope that a plain read / write of `v` from scope `sc` resolves to -/
def St.nearest (st : St) (sc : Nat) (v : String) : Option Nat :=
  (st.chain 10000 sc).find? (fun s => st.defines s v)

theorem lookupVar_ok (sc : Nat) (v : String) (st st' : St) (r : Option Val)
    (h : runM (lookupVar sc v) st = (.ok r, st')) :
    st' = st ∧ r = (st.nearest sc v).map (fun s => st.valueIn s v) := by
  unfold lookupVar at h
  rw [runM_bind] at h
  cases hs : runM (scopeFor 10000 sc v) st with
  | mk r1 s1 =>
    rw [hs] at h
    cases r1 with
    | error e => simp at h
    | ok o =>
      have hk := scopeFor_ok _ _ _ _ _ _ hs
      obtain ⟨h1, h2⟩ := hk
      subst h1
      cases o with
      | none =>
        simp only [runM_pure] at h
        injection h with ha hb
        injection ha with ha
        subst ha; subst hb
        simp [St.nearest, ← h2]
      | some s =>
        simp only [] at h
        rw [runM_bind, getScope_run] at h
        simp only [runM_pure] at h
        injection h with ha hb
        injection ha with ha
        subst ha; subst hb
        simp [St.nearest, ← h2, St.valueIn]

/-! ### storage updates -/
theorem find_map_same (vars : List (String × Val)) (v : String) (x : Val)
    (h : (vars.find? (·.1 == v)).isSome = true) :
    (vars.map fun p => if p.1 == v then (v, x) else p).find? (·.1 == v) = some (v, x) := by
  induction vars with
  | nil => simp at h
  | cons p rest ih =>
    simp only [List.map_cons, List.find?_cons] at h ⊢
    cases hp : (p.1 == v) with
    | true => simp only [if_true, beq_self_eq_true]
    | false =>
      simp only [hp] at h
      simp only [Bool.false_eq_true, if_false, hp]
      exact ih h

theorem find_map_other (vars : List (String × Val)) (v w : String) (x : Val) (hvw : (v == w) = false) :
    ((vars.map fun p => if p.1 == v then (v, x) else p).find? (·.1 == w)).map (·.2) =
      (vars.find? (·.1 == w)).map (·.2) := by
  induction vars with
  | nil => rfl
  | cons p rest ih =>
    simp only [List.map_cons, List.find?_cons]
    cases hp : (p.1 == v) with
    | true =>
      have hpv : p.1 = v := by simpa using hp
      have hpw : (p.1 == w) = false := by rw [hpv]; exact hvw
      simp only [if_true, hvw, hpw]
      exact ih
    | false =>
      simp only [Bool.false_eq_true, if_false]
      cases hpw : (p.1 == w) with
      | true => rfl
      | false => exact ih

theorem updVars_find (vars : List (String × Val)) (v : String) (x : Val) :
    (updVars vars v x).find? (·.1 == v) = some (v, x) := by
  unfold updVars
  split
  · rename_i h; exact find_map_same vars v x h
  · rename_i h
    simp only [Bool.not_eq_true, Option.isSome_eq_false_iff, Option.isNone_iff_eq_none] at h
    rw [List.find?_append, h]
    simp [List.find?]

theorem updVars_find_other (vars : List (String × Val)) (v w : String) (x : Val) (hvw : (v == w) = false) :
    ((updVars vars v x).find? (·.1 == w)).map (·.2) = (vars.find? (·.1 == w)).map (·.2) := by
  unfold updVars
  split
  · exact find_map_other vars v w x hvw
  · rw [List.find?_append]
    simp [List.find?, hvw]

theorem withVar_scope_same (st : St) (sc : Nat) (v : String) (x : Val) (h : sc < st.scopes.size) :
    (st.withVar sc v x).scope sc = { st.scope sc with vars := updVars (st.scope sc).vars v x } := by
  simp [St.withVar, St.scope, h]

theorem withVar_scope_other (st : St) (sc t : Nat) (v : String) (x : Val) (h : t ≠ sc) :
    (st.withVar sc v x).scope t = st.scope t := by
  simp only [St.withVar, St.scope, Array.getD_eq_getD_getElem?]
  rw [Array.getElem?_setIfInBounds_ne (Ne.symm h)]

theorem withVar_heap (st : St) (sc : Nat) (v : String) (x : Val) :
    (st.withVar sc v x).lists = st.lists ∧ (st.withVar sc v x).maps = st.maps ∧
    (st.withVar sc v x).scopes.size = st.scopes.size := by
  simp [St.withVar]


/-! ### plain (undotted) writes -/
theorem setValue_plain (sc : Nat) (name vb : List Nat) (x : Val) (st : St) (hn : splitDots name = [vb]) :
    runM (setValue sc name x) st =
      match runM (scopeFor 10000 sc (bytesToString vb)) st with
      | (.ok (some s), s1) => (.ok (), s1.withVar s (bytesToString vb) x)
      | (.ok none, s1) => (.ok (), s1.withVar sc (bytesToString vb) x)
      | (.error e, s1) => (.error e, s1) := by
  unfold setValue
  simp only [hn]
  rw [runM_bind]
  cases h : runM (scopeFor 10000 sc (bytesToString vb)) st with
  | mk r s1 =>
    cases r with
    | error e => rfl
    | ok o => cases o <;> simp only [setVar_run]

theorem setValue_plain_ok (sc : Nat) (name vb : List Nat) (x : Val) (st st' : St) (hn : splitDots name = [vb])
    (h : runM (setValue sc name x) st = (.ok (), st')) :
    st' = st.withVar ((st.nearest sc (bytesToString vb)).getD sc) (bytesToString vb) x := by
  rw [setValue_plain sc name vb x st hn] at h
  cases hs : runM (scopeFor 10000 sc (bytesToString vb)) st with
  | mk r s1 =>
    rw [hs] at h
    cases r with
    | error e => simp at h
    | ok o =>
      obtain ⟨h1, h2⟩ := scopeFor_ok _ _ _ _ _ _ hs
      subst h1
      cases o with
      | none =>
        simp only [] at h
        injection h with _ hb
        rw [← hb]; simp [St.nearest, ← h2]
      | some s =>
        simp only [] at h
        injection h with _ hb
        rw [← hb]; simp [St.nearest, ← h2]

theorem withVar_defines (st : St) (sc : Nat) (v : String) (x : Val) (h : sc < st.scopes.size) :
    (st.withVar sc v x).defines sc v = true := by
  simp only [St.defines, withVar_scope_same st sc v x h, updVars_find]; rfl

theorem withVar_valueIn (st : St) (sc : Nat) (v : String) (x : Val) (h : sc < st.scopes.size) :
    (st.withVar sc v x).valueIn sc v = x := by
  simp only [St.valueIn, withVar_scope_same st sc v x h, updVars_find]; rfl

theorem nearest_self (st : St) (sc : Nat) (v : String) (h : st.defines sc v = true) : st.nearest sc v = some sc := by
  unfold St.nearest
  rw [show (10000 : Nat) = 9999 + 1 from rfl, St.chain]
  simp only [List.find?_cons, h]

theorem setLocalValue_plain_ok (sc : Nat) (name vb : List Nat) (x : Val) (st st' : St) (hn : splitDots name = [vb])
    (hsc : sc < st.scopes.size) (h : runM (setLocalValue sc name x) st = (.ok (), st')) :
    st' = (st.withVar sc (bytesToString vb) Val.null).withVar sc (bytesToString vb) x := by
  unfold setLocalValue at h
  simp only [hn, List.headD_cons] at h
  rw [runM_bind, setVar_run] at h
  simp only [] at h
  have h2 := setValue_plain_ok sc name vb x _ st' hn h
  have hsz : sc < (st.withVar sc (bytesToString vb) Val.null).scopes.size := by
    rw [(withVar_heap st sc _ _).2.2]; exact hsc
  have hd := withVar_defines st sc (bytesToString vb) Val.null hsc
  have : (st.withVar sc (bytesToString vb) Val.null).nearest sc (bytesToString vb) = some sc := nearest_self _ _ _ hd
  rw [this] at h2
  exact h2

/-! ### what a scope cannot see -/
theorem chain_withVar (st : St) (t : Nat) (w : String) (y : Val) : ∀ (f sc : Nat),
    t ∉ st.chain f sc → (st.withVar t w y).chain f sc = st.chain f sc := by
  intro f
  induction f with
  | zero => intro sc _; rfl
  | succ f ih =>
    intro sc hnot
    simp only [St.chain] at hnot ⊢
    have hne : sc ≠ t := by
      intro h; apply hnot; simp [h]
    rw [withVar_scope_other st t sc w y hne]
    cases hp : (st.scope sc).parent with
    | none => rfl
    | some p =>
      simp only [hp] at hnot
      have : t ∉ st.chain f p := by
        intro h; apply hnot; simp [h]
      simp [ih p this]

theorem defines_withVar_other (st : St) (t s : Nat) (w v : String) (y : Val) (h : s ≠ t) :
    (st.withVar t w y).defines s v = st.defines s v := by
  simp only [St.defines, withVar_scope_other st t s w y h]

theorem valueIn_withVar_other (st : St) (t s : Nat) (w v : String) (y : Val) (h : s ≠ t) :
    (st.withVar t w y).valueIn s v = st.valueIn s v := by
  simp only [St.valueIn, withVar_scope_other st t s w y h]

theorem find_congr_mem {α : Type} (l : List α) (p q : α → Bool) (h : ∀ a ∈ l, p a = q a) : l.find? p = l.find? q := by
  induction l with
  | nil => rfl
  | cons a rest ih =>
    simp only [List.find?_cons, h a (by simp)]
    cases q a with
    | true => rfl
    | false => exact ih (fun b hb => h b (by simp [hb]))

theorem nearest_withVar (st : St) (t sc : Nat) (w v : String) (y : Val) (hnot : t ∉ st.chain 10000 sc) :
    (st.withVar t w y).nearest sc v = st.nearest sc v := by
  simp only [St.nearest, chain_withVar st t w y 10000 sc hnot]
  apply find_congr_mem
  intro s hs
  have : s ≠ t := by intro h; subst h; exact hnot hs
  exact defines_withVar_other st t s w v y this

end Ecal.Ev
