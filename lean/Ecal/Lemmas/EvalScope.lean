import Ecal.Model.EvalObjects
/-!
Run-level equations for the scope functions of `Model/Eval.lean` (`getScope`, `setScope`, `scopeFor`,
`setVar`, `lookupVar`, `setValue`, `setLocalValue`, `newScope`, `newChild`): what they return and what
state they leave, as plain functions of the state.  Used by `Props/C05.lean`.
-/
namespace Ecal.Ev

/-- run a computation of the evaluator monad on a state -/
def runM {α : Type} (m : M α) (st : St) : Except Sig α × St := m.run.run st

/-- the scope with index `i` -/
def St.scope (st : St) (i : Nat) : Scope := st.scopes.getD i default

/-- `v` is defined in scope `sc` itself -/
def St.defines (st : St) (sc : Nat) (v : String) : Bool := ((st.scope sc).vars.find? (·.1 == v)).isSome

/-- the scope `sc` followed by its ancestors (at most `f` scopes) -/
def St.chain (st : St) : Nat → Nat → List Nat
  | 0, _ => []
  | f+1, sc => sc :: match (st.scope sc).parent with
    | some p => st.chain f p
    | none => []

/-- the variable storage after `storage[v] = x` -/
def updVars (vars : List (String × Val)) (v : String) (x : Val) : List (String × Val) :=
  if (vars.find? (·.1 == v)).isSome then vars.map fun p => if p.1 == v then (v, x) else p else vars ++ [(v, x)]

/-- the state after `storage[v] = x` in scope `sc` -/
def St.withVar (st : St) (sc : Nat) (v : String) (x : Val) : St :=
  { st with scopes := st.scopes.setIfInBounds sc { st.scope sc with vars := updVars (st.scope sc).vars v x } }

theorem getScope_run (i : Nat) (st : St) : runM (getScope i) st = (.ok (st.scope i), st) := rfl

theorem setScope_run (i : Nat) (sc : Scope) (st : St) :
    runM (setScope i sc) st = (.ok (), { st with scopes := st.scopes.setIfInBounds i sc }) := rfl

theorem setVar_run (sc : Nat) (v : String) (x : Val) (st : St) :
    runM (setVar sc v x) st = (.ok (), st.withVar sc v x) := rfl

theorem newScope_run (name : String) (parent : Option Nat) (st : St) :
    runM (newScope name parent) st =
      (.ok st.scopes.size, { st with scopes := st.scopes.push { name := name, parent := parent, children := [], vars := [] } }) := rfl

theorem scopeFor_zero (sc : Nat) (v : String) (st : St) : runM (scopeFor 0 sc v) st = (.error Sig.fuel, st) := rfl

theorem scopeFor_succ (f sc : Nat) (v : String) (st : St) :
    runM (scopeFor (f+1) sc v) st =
      if st.defines sc v then (.ok (some sc), st)
      else match (st.scope sc).parent with
        | some p => runM (scopeFor f p v) st
        | none => (.ok none, st) := by
  have e : st.scopes.getD sc default = st.scopes[sc]?.getD default := by simp
  simp only [scopeFor, runM, St.defines, St.scope, e]
  simp [bind, ExceptT.bind, ExceptT.mk, ExceptT.run, StateT.bind, StateT.run, getScope, ExceptT.bindCont, pure,
    ExceptT.pure, StateT.pure, get, getThe, MonadStateOf.get, liftM, monadLift, MonadLift.monadLift, ExceptT.lift,
    StateT.get, Functor.map, StateT.map]
  split
  · rfl
  · split <;> rename_i h <;> simp [h] <;> rfl

end Ecal.Ev
