import Ecal.Lemmas.C03NumberBlock
import Ecal.Lemmas.C03LexPrefix
/-!
# C03 — the first token of a source that starts with a digit

For the complete run of the lexer model on an ASCII source whose first byte is a digit: the first
token is the NUMBER whose text is the longest prefix of the source accepted by the block grammar
(provided that prefix passes the number test) — whatever follows.
-/
namespace Ecal.Lex

theorem lexToken_word (l : L) (d : Nat) (tl : List Nat) (hrem : rem l = d :: tl) (hd : isDig d = true) (hc : d < 128) :
    lexToken l = lexWord { l with start := l.pos } := by
  have hp := peek1_cons hrem hc
  have h1 : 48 ≤ d ∧ d ≤ 57 := by simpa [isDig] using hd
  simp only [lexToken, hp]
  have e1 : (some d = some 47) = False := by simp; omega
  have e2 : (some d = some 35) = False := by simp; omega
  have e3 : (some d = some 34) = False := by simp; omega
  have e4 : (some d = some 39) = False := by simp; omega
  have e5 : (some d = some 114) = False := by simp; omega
  simp [e1, e2, e3, e4, e5]

theorem sws_start (input : List Nat) (d : Nat) (tl : List Nat) (hin : input = d :: tl) (hd : isDig d = true) (hc : d < 128) :
    skipWhiteSpace ({ inp := input.toArray } : L) =
      (({ inp := input.toArray, width := 1 } : L), true) := by
  have h1 : 48 ≤ d ∧ d ≤ 57 := by simpa [isDig] using hd
  have hrem : rem ({ inp := input.toArray } : L) = d :: tl := by simp [rem, hin]
  have hvis := not_blank_of_visible d (by omega) (by omega)
  simp only [skipWhiteSpace, next_cons hrem hc]
  have hf : (({ inp := input.toArray } : L).inp.size + 2) = (input.length + 1) + 1 := by simp
  simp only [hf, skipWhiteSpace.loop, blank, hvis, Bool.false_eq_true, if_false, L.backup]
  simp

/-- the first token of the complete token list -/
theorem lex_first_number (input : List Nat) (d : Nat) (tl : List Nat) (hin : input = d :: tl) (hd : isDig d = true)
    (hasc : ∀ x ∈ input, x < 128)
    (hcand : numberCandidate (lowerGo (input.take (blockLen input))) = true) :
    (lex input).toList.head? =
      some (Tok.mk tNUMBER 0 (lowerGo (input.take (blockLen input))) false false 0 1 1) := by
  have hc : d < 128 := hasc d (by simp [hin])
  let l1 : L := { inp := input.toArray, width := 1 }
  have hrem1 : rem l1 = input := by simp [rem, l1]
  have hsws := sws_start input d tl hin hd hc
  have hlex : lex input = (lex.loop (input.length + 2) l1).toks := by
    simp only [lex, hsws]
    simp [l1]
  rw [hlex]
  -- the first round
  have htok : lexToken l1 = lexWord { l1 with start := l1.pos } := lexToken_word l1 d tl (by rw [hrem1, hin]) hd hc
  have hrem2 : rem ({ l1 with start := l1.pos } : L) = input := hrem1
  have hw := lexWord_number ({ l1 with start := l1.pos } : L) rfl (by rw [hrem2]; exact hasc) (by rw [hrem2]; exact hcand)
  rw [hrem2] at hw
  have hfirst : (lexToken l1).1.toks.toList =
      [Tok.mk tNUMBER 0 (lowerGo (input.take (blockLen input))) false false 0 1 1] := by
    rw [htok, hw]
    simp [l1, L.stamp]
  -- everything later only appends
  have hpre : Pre (lexToken l1).1 (lex.loop (input.length + 2) l1) := lex_loop_first_pre (input.length + 1) l1
  obtain ⟨more, hm⟩ := hpre
  rw [hm, hfirst]
  simp

end Ecal.Lex
