import Ecal.Model.Interp
/-! Helper lemmas about `Ecal.Interp` used by the property theorems in `Ecal.Props.C14`. -/
namespace Ecal.Interp

theorem splitOpen_spec : ∀ {s a b}, splitOpen s = some (a, b) →
    s = a ++ 123 :: 123 :: b ∧ hasOpen a = false := by
  intro s
  induction s using splitOpen.induct with
  | case1 => intro a b h; simp [splitOpen] at h
  | case2 rest => intro a b h; simp [splitOpen] at h; obtain ⟨rfl, rfl⟩ := h; simp [hasOpen]
  | case3 c rest hne ih =>
    intro a b h
    rw [splitOpen] at h
    · cases hr : splitOpen rest with
      | none => simp [hr] at h
      | some p =>
        obtain ⟨a', b'⟩ := p; simp [hr] at h; obtain ⟨rfl, rfl⟩ := h
        obtain ⟨h1, h2⟩ := ih hr
        refine ⟨by simp [h1], ?_⟩
        rw [hasOpen]
        · exact h2
        · intro r hc ha
          subst hc ha
          exact hne (r ++ 123 :: 123 :: b') rfl (by simp [h1])
    · intro rest' h1 h2; exact hne rest' h1 h2

theorem splitClose_spec : ∀ {s a b}, splitClose s = some (a, b) →
    s = a ++ 125 :: 125 :: b ∧ hasClose a = false := by
  intro s
  induction s using splitClose.induct with
  | case1 => intro a b h; simp [splitClose] at h
  | case2 rest => intro a b h; simp [splitClose] at h; obtain ⟨rfl, rfl⟩ := h; simp [hasClose]
  | case3 c rest hne ih =>
    intro a b h
    rw [splitClose] at h
    · cases hr : splitClose rest with
      | none => simp [hr] at h
      | some p =>
        obtain ⟨a', b'⟩ := p; simp [hr] at h; obtain ⟨rfl, rfl⟩ := h
        obtain ⟨h1, h2⟩ := ih hr
        refine ⟨by simp [h1], ?_⟩
        rw [hasClose]
        · exact h2
        · intro r hc ha
          subst hc ha
          exact hne (r ++ 125 :: 125 :: b') rfl (by simp [h1])
    · intro rest' h1 h2; exact hne rest' h1 h2

theorem foldl_log (ev : Str → Str) (segs : List Seg) (o : Str) (l : List Str) :
    segs.foldl (logStep ev) (o, l) = (o ++ segs.flatMap (Seg.out ev), l ++ codes segs) := by
  induction segs generalizing o l with
  | nil => simp [codes]
  | cons seg segs ih =>
    cases seg with
    | text t => simp [List.foldl, ih, Seg.out, logStep, codes]
    | code c => simp [List.foldl, ih, Seg.out, logStep, codes]

theorem mem_codes : ∀ (segs : List Seg) (c : Str), Seg.code c ∈ segs → c ∈ codes segs := by
  intro segs
  induction segs with
  | nil => intro c h; cases h
  | cons seg segs ih =>
    intro c h
    cases seg with
    | text t =>
      simp only [codes]
      rcases List.mem_cons.1 h with h | h
      · cases h
      · exact ih c h
    | code c' =>
      simp only [codes]
      rcases List.mem_cons.1 h with h | h
      · cases h; exact List.mem_cons_self
      · exact List.mem_cons_of_mem _ (ih c h)

theorem evaluated_len (s : Str) : 4 * (evaluated s).length ≤ s.length := by
  induction s using segments.induct with
  | case1 s h1 => simp [evaluated, segments_none h1, codes]
  | case2 s before afterOpen h1 h2 => simp [evaluated, segments_open_only h1 h2, codes]
  | case3 s before afterOpen h1 code afterClose h2 ih =>
    unfold evaluated at ih ⊢
    simp [segments_both h1 h2, codes]
    have := Ecal.Interp.splitOpen_len h1
    have := Ecal.Interp.splitClose_len h2
    omega

end Ecal.Interp
