import Ecal.Model.CascadeShared
import Ecal.Lemmas.Cascade
/-!
The shared system `Conc` seen through `view r` is `Cascade.step`; other roots' views are untouched.
-/
namespace Ecal.Cascade

theorem step_shared_fields {v v' : State} {e : Event} (hs : step v e = some v') :
    v'.sharedFields = obsEffect e v := by
  cases e with
  | register =>
    simp only [step] at hs
    split at hs; · cases hs
    split at hs
    · split at hs
      · cases hs; rfl
      · cases hs
    · cases hs
  | regHandler =>
    simp only [step] at hs
    split at hs; · cases hs
    split at hs
    · split at hs
      · cases hs; rfl
      · cases hs
    · cases hs
  | addEvent i trig rules =>
    simp only [step] at hs
    split at hs
    · split at hs
      · cases trig with
        | true =>
          simp only [if_true] at hs
          split at hs
          · cases hs; rfl
          · cases hs
        | false =>
          simp only [Bool.false_eq_true, if_false] at hs
          split at hs
          · cases hs
          · cases hs; rfl
      all_goals cases hs
    · cases hs
  | newChild p =>
    simp only [step] at hs
    split at hs
    · split at hs
      · cases hs; rfl
      · cases hs
    · cases hs
  | pop w i =>
    simp only [step] at hs
    split at hs
    · split at hs
      · split at hs
        · cases hs; rfl
        · cases hs
      · cases hs
    · cases hs
  | ruleReturns i ok =>
    simp only [step] at hs
    split at hs
    · split at hs
      · cases hs; rfl
      · cases hs
    · cases hs
  | taskDone i =>
    simp only [step] at hs
    split at hs
    · split at hs
      · split at hs
        · cases hs; rfl
        · cases hs; rfl
      · cases hs
    · cases hs
  | setErrors i =>
    simp only [step] at hs
    split at hs
    · split at hs
      · cases hs; rfl
      all_goals cases hs
    · cases hs
  | errFinish i =>
    simp only [step] at hs
    split at hs
    · split at hs
      · cases hs; rfl
      all_goals cases hs
    · cases hs
  | notified i =>
    simp only [step] at hs
    split at hs
    · split at hs
      · cases hs; rfl
      all_goals cases hs
    · cases hs
  | dropQueue =>
    simp only [step] at hs
    split at hs
    · cases hs; rfl
    · cases hs
  | post =>
    simp only [step] at hs
    split at hs
    · cases hs
    · cases hs; rfl
  | observerRuns o =>
    cases o <;> simp only [step] at hs <;> split at hs <;> first | (cases hs; done) | (cases hs; rfl)
  | waitReturns =>
    simp only [step] at hs
    split at hs
    · cases hs; rfl
    · cases hs
  | allErrors =>
    simp only [step] at hs
    cases hs; rfl

/-- the counters of root `r` read off shared structures -/
def counters (table pending : List Entry) (queues : List Nat) (r : Nat) : Nat × Nat × Nat × Bool × Nat × Nat × Nat :=
  (cnt table r .wait, cnt table r .handler, cnt table r .queue, queues.contains r,
   cnt pending r .wait, cnt pending r .handler, cnt pending r .queue)

theorem cnt_append (l : List Entry) (r r' : Nat) (o o' : Obs) :
    cnt (l ++ [(r, o)]) r' o' = cnt l r' o' + (if r = r' ∧ o = o' then 1 else 0) := by
  simp only [cnt, List.count_append, List.count_singleton]
  by_cases h : r = r' ∧ o = o'
  · obtain ⟨rfl, rfl⟩ := h; simp
  · have : ((r, o) == (r', o')) = false := by
      simp only [beq_eq_false_iff_ne, ne_eq, Prod.mk.injEq]; exact h
    simp [this, h]

theorem cnt_filter_ne_self (l : List Entry) (r : Nat) (o : Obs) :
    cnt (l.filter fun e => e.1 != r) r o = 0 := by
  simp only [cnt]
  apply List.count_eq_zero.mpr
  intro hm
  have := (List.mem_filter.mp hm).2
  simp at this

theorem cnt_filter_ne_other (l : List Entry) {r r' : Nat} (h : r' ≠ r) (o : Obs) :
    cnt (l.filter fun e => e.1 != r) r' o = cnt l r' o := by
  simp only [cnt]
  exact List.count_filter (by simpa using h)

theorem cnt_filter_eq_self (l : List Entry) (r : Nat) (o : Obs) :
    cnt (l.filter fun e => e.1 == r) r o = cnt l r o := by
  simp only [cnt]
  exact List.count_filter (by simp)

theorem cnt_filter_eq_other (l : List Entry) {r r' : Nat} (h : r' ≠ r) (o : Obs) :
    cnt (l.filter fun e => e.1 == r) r' o = 0 := by
  simp only [cnt]
  apply List.count_eq_zero.mpr
  intro hm
  have := (List.mem_filter.mp hm).2
  simp at this
  exact h this

theorem cnt_erase (l : List Entry) (r r' : Nat) (o o' : Obs) :
    cnt (l.erase (r, o)) r' o' = cnt l r' o' - (if r = r' ∧ o = o' then 1 else 0) := by
  simp only [cnt]
  by_cases h : r = r' ∧ o = o'
  · obtain ⟨rfl, rfl⟩ := h; simp [List.count_erase_self]
  · have hne : (r', o') ≠ (r, o) := by
      intro heq; cases heq; exact h ⟨rfl, rfl⟩
    simp [List.count_erase_of_ne hne, h]

theorem contains_filter_ne_self (q : List Nat) (r : Nat) : (q.filter fun k => k != r).contains r = false := by
  cases h : (q.filter fun k => k != r).contains r with
  | false => rfl
  | true =>
    have := (List.mem_filter.mp (List.contains_iff_mem.mp h)).2
    simp at this

theorem contains_filter_ne_other (q : List Nat) {r r' : Nat} (h : r' ≠ r) :
    (q.filter fun k => k != r).contains r' = q.contains r' := by
  cases hc : q.contains r' with
  | true =>
    apply List.contains_iff_mem.mpr
    exact List.mem_filter.mpr ⟨List.contains_iff_mem.mp hc, by simpa using h⟩
  | false =>
    cases h2 : (q.filter fun k => k != r).contains r' with
    | false => rfl
    | true =>
      have := (List.mem_filter.mp (List.contains_iff_mem.mp h2)).1
      rw [List.contains_iff_mem.mpr this] at hc
      cases hc

/-- the global operations of an event of root `r` change root `r`'s counters exactly as `Cascade.step`
    changes the corresponding fields of its state -/
theorem shared_counts_self (C : Conc) (r : Nat) (e : Event) (v : State)
    (hv : v.sharedFields = counters C.table C.pending C.queues r) :
    counters (C.shared r e).table (C.shared r e).pending (C.shared r e).queues r = obsEffect e v := by
  simp only [State.sharedFields, counters, Prod.mk.injEq] at hv
  obtain ⟨h1, h2, h3, h4, h5, h6, h7⟩ := hv
  cases e with
  | register =>
    simp [Conc.shared, Conc.addObserver, counters, obsEffect, cnt_append, h1, h2, h3, h4, h5, h6, h7]
  | regHandler =>
    simp [Conc.shared, Conc.addObserver, counters, obsEffect, cnt_append, h1, h2, h3, h4, h5, h6, h7]
  | addEvent i trig rules =>
    cases trig with
    | false => simp [Conc.shared, counters, obsEffect, h1, h2, h3, h4, h5, h6, h7]
    | true =>
      simp only [Conc.shared, obsEffect]
      cases hq : C.queues.contains r with
      | true =>
        have hm := List.contains_iff_mem.mp hq
        simp [counters, h1, h2, h3, h4, h5, h6, h7, hm]
      | false =>
        have hm : ¬ r ∈ C.queues := fun hm => by rw [List.contains_iff_mem.mpr hm] at hq; cases hq
        simp [Conc.addObserver, counters, cnt_append, h1, h2, h3, h4, h5, h6, h7, hm]
  | dropQueue =>
    simp [Conc.shared, counters, obsEffect, contains_filter_ne_self, h1, h2, h3, h5, h6, h7]
  | post =>
    have hf := cnt_filter_eq_self C.table r
    simp only [cnt] at hf
    simp [Conc.shared, Conc.postEvent, counters, obsEffect, cnt, List.count_append, h1, h2, h3, h4, h5, h6, h7, hf]
  | observerRuns o =>
    cases o <;>
      simp [Conc.shared, Conc.removeObservers, counters, obsEffect, cnt_filter_ne_self, cnt_erase, h4, h5, h6, h7]
  | newChild _ => simp [Conc.shared, counters, obsEffect, h1, h2, h3, h4, h5, h6, h7]
  | pop _ _ => simp [Conc.shared, counters, obsEffect, h1, h2, h3, h4, h5, h6, h7]
  | ruleReturns _ _ => simp [Conc.shared, counters, obsEffect, h1, h2, h3, h4, h5, h6, h7]
  | taskDone _ => simp [Conc.shared, counters, obsEffect, h1, h2, h3, h4, h5, h6, h7]
  | setErrors _ => simp [Conc.shared, counters, obsEffect, h1, h2, h3, h4, h5, h6, h7]
  | errFinish _ => simp [Conc.shared, counters, obsEffect, h1, h2, h3, h4, h5, h6, h7]
  | notified _ => simp [Conc.shared, counters, obsEffect, h1, h2, h3, h4, h5, h6, h7]
  | waitReturns => simp [Conc.shared, counters, obsEffect, h1, h2, h3, h4, h5, h6, h7]
  | allErrors => simp [Conc.shared, counters, obsEffect, h1, h2, h3, h4, h5, h6, h7]

/-- … and leave the counters of every other root alone -/
theorem shared_counts_other (C : Conc) (r r' : Nat) (h : r' ≠ r) (e : Event) :
    counters (C.shared r e).table (C.shared r e).pending (C.shared r e).queues r' =
      counters C.table C.pending C.queues r' := by
  have hne : ¬ (r = r') := fun h' => h h'.symm
  cases e with
  | register => simp [Conc.shared, Conc.addObserver, counters, cnt_append, hne]
  | regHandler => simp [Conc.shared, Conc.addObserver, counters, cnt_append, hne]
  | addEvent i trig rules =>
    cases trig with
    | false => simp [Conc.shared]
    | true =>
      simp only [Conc.shared]
      cases hq : C.queues.contains r with
      | true => simp
      | false =>
        simp [Conc.addObserver, counters, cnt_append, hne]
        simp [List.contains_cons, h]
  | dropQueue =>
    have := contains_filter_ne_other C.queues h
    simp only [Conc.shared, counters, this]
  | post =>
    have hf := cnt_filter_eq_other C.table h
    simp only [cnt] at hf
    simp [Conc.shared, Conc.postEvent, counters, cnt, List.count_append, hf]
  | observerRuns o =>
    cases o <;>
      simp [Conc.shared, Conc.removeObservers, counters, cnt_filter_ne_other _ h, cnt_erase, hne]
  | newChild _ => simp [Conc.shared]
  | pop _ _ => simp [Conc.shared]
  | ruleReturns _ _ => simp [Conc.shared]
  | taskDone _ => simp [Conc.shared]
  | setErrors _ => simp [Conc.shared]
  | errFinish _ => simp [Conc.shared]
  | notified _ => simp [Conc.shared]
  | waitReturns => simp [Conc.shared]
  | allErrors => simp [Conc.shared]

theorem shared_roots (C : Conc) (r : Nat) (e : Event) : (C.shared r e).roots = C.roots := by
  cases e with
  | addEvent i trig rules =>
    cases trig with
    | false => rfl
    | true => simp only [Conc.shared]; split <;> rfl
  | observerRuns o => cases o <;> rfl
  | _ => rfl

/-- view = local state + counters -/
def withCounters (s : State) (c : Nat × Nat × Nat × Bool × Nat × Nat × Nat) : State :=
  { s with obsWait := c.1, obsHandler := c.2.1, obsQueue := c.2.2.1, hasQueue := c.2.2.2.1,
           dWait := c.2.2.2.2.1, dHandler := c.2.2.2.2.2.1, dQueue := c.2.2.2.2.2.2 }

theorem view_eq (C : Conc) (r : Nat) :
    C.view r = (C.roots[r]?).map fun s => withCounters s (counters C.table C.pending C.queues r) := rfl

theorem withCounters_local (v : State) : withCounters v.local v.sharedFields = v := by
  cases v; rfl

theorem sharedFields_withCounters (s : State) (c) : (withCounters s c).sharedFields = c := rfl

end Ecal.Cascade
