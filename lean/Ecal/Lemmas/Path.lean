import Ecal.Model.Path
/-!
Helper lemmas about `Ecal.Path`: splitting/joining at `/`, the shape of `Clean`'s
output buffer, `Clean` on an already cleaned path, the element-wise walk of `Rel`,
and the lexical walk in the free directory tree.
-/
namespace Ecal.Path

/-! ### split / join -/

theorem split_append_slash (a b : Str) :
    split (a ++ 47 :: b) = ((split a).1, (split a).2 ++ elems b) := by
  induction a with
  | nil => simp [split, elems]
  | cons c a ih =>
    by_cases hc : c = 47
    · simp [split, hc, ih, elems]
    · simp [split, hc, ih]

/-- the elements of `a/b` are those of `a` followed by those of `b` -/
theorem elems_append_slash (a b : Str) : elems (a ++ 47 :: b) = elems a ++ elems b := by
  simp [elems, split_append_slash]

theorem split_noslash (s : Str) (h : 47 ∉ s) : split s = (s, []) := by
  induction s with
  | nil => simp [split]
  | cons c s ih =>
    have hc : c ≠ 47 := by intro e; apply h; simp [e]
    have hs : 47 ∉ s := by intro e; apply h; simp [e]
    simp [split, hc, ih hs]

theorem elems_noslash (s : Str) (h : 47 ∉ s) : elems s = [s] := by
  simp [elems, split_noslash s h]

theorem elems_slash_cons (s : Str) : elems (47 :: s) = [] :: elems s := by
  simp [elems, split]

/-- no element contains a `/` -/
theorem split_slashfree (s : Str) : 47 ∉ (split s).1 ∧ ∀ e ∈ (split s).2, 47 ∉ e := by
  induction s with
  | nil => simp [split]
  | cons c s ih =>
    by_cases hc : c = 47
    · simp only [split, hc, if_true]
      refine ⟨by simp, ?_⟩
      intro e he
      simp only [List.mem_cons] at he
      rcases he with rfl | he
      · exact ih.1
      · exact ih.2 e he
    · simp only [split, hc, if_false]
      refine ⟨?_, ih.2⟩
      intro hm
      simp only [List.mem_cons] at hm
      rcases hm with e | hm
      · exact hc e.symm
      · exact ih.1 hm

theorem elems_slashfree (s : Str) : ∀ e ∈ elems s, 47 ∉ e := by
  intro e he
  simp only [elems, List.mem_cons] at he
  rcases he with rfl | he
  · exact (split_slashfree s).1
  · exact (split_slashfree s).2 e he

/-- splitting a joined list of slash-free elements gives the list back -/
theorem elems_joinSep (s : Seg) (r : List Seg) (h : ∀ e ∈ s :: r, 47 ∉ e) :
    elems (joinSep (s :: r)) = s :: r := by
  induction r generalizing s with
  | nil => simpa [joinSep] using elems_noslash s (h s (by simp))
  | cons t r ih =>
    have hs : 47 ∉ s := h s (by simp)
    have ht : ∀ e ∈ t :: r, 47 ∉ e := fun e he => h e (by simp [he])
    simp only [joinSep]
    rw [elems_append_slash, elems_noslash s hs, ih t ht]
    simp

/-! ### the shape of `Clean`'s buffer -/

/-- an ordinary name: not empty, not `.`, not `..` -/
def IsName (n : Seg) : Prop := n ≠ [] ∧ n ≠ dot ∧ n ≠ dotdot

theorem cleanStep_names (rooted : Bool) (st : CState) (e : Seg) (P : Seg → Prop)
    (h : ∀ n ∈ st.names, IsName n ∧ P n) (he : P e) :
    ∀ n ∈ (cleanStep rooted st e).names, IsName n ∧ P n := by
  unfold cleanStep
  split
  · exact h
  · split
    · exact h
    · split
      · split
        · rename_i x rest hn
          intro n hm
          exact h n (by rw [hn]; simp [hm])
        · split <;> exact h
      · rename_i h1 h2 h3
        intro n hm
        simp only [List.mem_cons] at hm
        rcases hm with rfl | hm
        · exact ⟨⟨h1, h2, h3⟩, he⟩
        · exact h n hm

theorem cleanStep_k (st : CState) (e : Seg) (h : st.k = 0) : (cleanStep true st e).k = 0 := by
  unfold cleanStep
  repeat' split
  all_goals simp_all

theorem foldl_cleanStep_names (rooted : Bool) (P : Seg → Prop) (es : List Seg) (hes : ∀ e ∈ es, P e) :
    ∀ st : CState, (∀ n ∈ st.names, IsName n ∧ P n) →
      ∀ n ∈ (es.foldl (cleanStep rooted) st).names, IsName n ∧ P n := by
  induction es with
  | nil => intro st h; exact h
  | cons e es ih =>
    intro st h
    exact ih (fun x hx => hes x (by simp [hx])) _
      (cleanStep_names rooted st e P h (hes e (by simp)))

theorem foldl_cleanStep_k (es : List Seg) :
    ∀ st : CState, st.k = 0 → (es.foldl (cleanStep true) st).k = 0 := by
  induction es with
  | nil => intro st h; exact h
  | cons e es ih => intro st h; exact ih _ (cleanStep_k st e h)

/-- a well-formed cleaned path: `k` times `..` (none if rooted) followed by slash-free names -/
def Good (c : CPath) : Prop :=
  ∃ (k : Nat) (names : List Seg), c.segs = List.replicate k dotdot ++ names ∧
    (∀ n ∈ names, IsName n ∧ 47 ∉ n) ∧ (c.rooted = true → k = 0)

theorem cleanP_good (s : Str) : Good (cleanP s) := by
  refine ⟨(cleanFold (isRooted s) (elems s)).k, (cleanFold (isRooted s) (elems s)).names.reverse, rfl, ?_, ?_⟩
  · intro n hn
    exact foldl_cleanStep_names (isRooted s) (fun e => 47 ∉ e) (elems s) (elems_slashfree s) ⟨0, []⟩
      (by simp) n (by simpa [cleanFold] using hn)
  · intro hr
    simp only [cleanP] at hr
    simp only [cleanFold, hr]
    exact foldl_cleanStep_k (elems s) ⟨0, []⟩ rfl

/-! ### `Clean` of a cleaned path -/

theorem foldl_cleanStep_dotdots (k : Nat) : ∀ j : Nat,
    (List.replicate k dotdot).foldl (cleanStep false) ⟨j, []⟩ = ⟨j + k, []⟩ := by
  induction k with
  | zero => intro j; simp
  | succ k ih =>
    intro j
    simp only [List.replicate_succ, List.foldl_cons]
    have : cleanStep false ⟨j, []⟩ dotdot = ⟨j + 1, []⟩ := by simp [cleanStep, dotdot, dot]
    rw [this, ih]
    congr 1
    omega

theorem foldl_cleanStep_namesOnly (rooted : Bool) (names : List Seg) (hn : ∀ n ∈ names, IsName n) :
    ∀ (k : Nat) (acc : List Seg),
      names.foldl (cleanStep rooted) ⟨k, acc⟩ = ⟨k, names.reverse ++ acc⟩ := by
  induction names with
  | nil => intro k acc; simp
  | cons n names ih =>
    intro k acc
    obtain ⟨h1, h2, h3⟩ := hn n (by simp)
    simp only [List.foldl_cons]
    have : cleanStep rooted ⟨k, acc⟩ n = ⟨k, n :: acc⟩ := by simp [cleanStep, h1, h2, h3]
    rw [this, ih (fun x hx => hn x (by simp [hx]))]
    simp

theorem cleanFold_good (rooted : Bool) (k : Nat) (names : List Seg) (hn : ∀ n ∈ names, IsName n)
    (hk : rooted = true → k = 0) :
    cleanFold rooted (List.replicate k dotdot ++ names) = ⟨k, names.reverse⟩ := by
  unfold cleanFold
  rw [List.foldl_append]
  cases rooted with
  | true =>
    have := hk rfl
    subst this
    simpa using foldl_cleanStep_namesOnly true names hn 0 []
  | false =>
    rw [foldl_cleanStep_dotdots k 0]
    simpa using foldl_cleanStep_namesOnly false names hn (0 + k) []

theorem cleanStep_nil (rooted : Bool) (st : CState) : cleanStep rooted st [] = st := by
  simp [cleanStep]

theorem cleanStep_dot (rooted : Bool) (st : CState) : cleanStep rooted st dot = st := by
  simp [cleanStep, dot]

theorem isRooted_joinSep (s : Seg) (r : List Seg) (h1 : s ≠ []) (h2 : 47 ∉ s) :
    isRooted (joinSep (s :: r)) = false := by
  cases s with
  | nil => exact absurd rfl h1
  | cons c s =>
    have hc : c ≠ 47 := by intro e; apply h2; simp [e]
    cases r with
    | nil => simp only [joinSep]; unfold isRooted; split <;> simp_all
    | cons t r => simp only [joinSep, List.cons_append]; unfold isRooted; split <;> simp_all

/-- cleaning the string of a well-formed cleaned path gives that path back -/
theorem cleanP_render (c : CPath) (h : Good c) : cleanP c.render = c := by
  obtain ⟨k, names, hs, hn, hk⟩ := h
  obtain ⟨rooted, segs⟩ := c
  simp only at hs hk
  subst hs
  have hn' : ∀ n ∈ names, IsName n := fun n hm => (hn n hm).1
  have hall : ∀ e ∈ List.replicate k dotdot ++ names, 47 ∉ e ∧ e ≠ [] := by
    intro e he
    simp only [List.mem_append, List.mem_replicate] at he
    rcases he with ⟨_, rfl⟩ | he
    · simp [dotdot]
    · exact ⟨(hn e he).2, (hn e he).1.1⟩
  cases rooted with
  | true =>
    have hk0 := hk rfl
    subst hk0
    simp only [CPath.render, if_true, List.replicate_zero, List.nil_append] at *
    have hr : isRooted (47 :: joinSep names) = true := by simp [isRooted]
    unfold cleanP
    rw [hr, elems_slash_cons]
    cases names with
    | nil => simp [joinSep, elems, split, cleanFold, cleanStep_nil, CState.toSegs]
    | cons n names =>
      rw [elems_joinSep n names (fun e he => (hall e he).1)]
      have := cleanFold_good true 0 (n :: names) hn' (fun _ => rfl)
      simp only [List.replicate_zero, List.nil_append] at this
      simp only [cleanFold, List.foldl_cons, cleanStep_nil] at this ⊢
      rw [this]
      simp [CState.toSegs]
  | false =>
    simp only [CPath.render]
    cases hsegs : List.replicate k dotdot ++ names with
    | nil =>
      simp [cleanP, isRooted, dot, elems, split, cleanFold, cleanStep, CState.toSegs]
    | cons s r =>
      have hs1 := hall s (by rw [hsegs]; simp)
      have hrt := isRooted_joinSep s r hs1.2 hs1.1
      unfold cleanP
      simp only [Bool.false_eq_true, if_false]
      rw [hrt, elems_joinSep s r (fun e he => (hall e (by rw [hsegs]; exact he)).1), ← hsegs,
        cleanFold_good false k names hn' (by simp)]
      simp [CState.toSegs]

/-! ### the walk of `Rel` -/

theorem stripCommon_spec : ∀ (b t : List Seg),
    ∃ c, b = c ++ (stripCommon b t).1 ∧ t = c ++ (stripCommon b t).2 := by
  intro b
  induction b with
  | nil => intro t; exact ⟨[], by simp [stripCommon], by simp [stripCommon]⟩
  | cons x bs ih =>
    intro t
    cases t with
    | nil => exact ⟨[], by simp [stripCommon], by simp [stripCommon]⟩
    | cons y ts =>
      by_cases hxy : x = y
      · subst hxy
        obtain ⟨c, h1, h2⟩ := ih ts
        refine ⟨x :: c, ?_, ?_⟩
        · simp only [stripCommon, if_true, List.cons_append]; rw [← h1]
        · simp only [stripCommon, if_true, List.cons_append]; rw [← h2]
      · exact ⟨[], by simp [stripCommon, hxy], by simp [stripCommon, hxy]⟩

/-- a relative path starting with the element `..` fails `isSubpath`'s string test -/
theorem joinSep_dotdot_bad (r : List Seg) :
    hasUpPrefix (joinSep (dotdot :: r)) = true ∨ joinSep (dotdot :: r) = dotdot := by
  cases r with
  | nil => right; rfl
  | cons t r => left; simp [joinSep, hasUpPrefix, dotdot]

/-- the core of the confinement argument: if `Rel` succeeds with a result that passes
    `isSubpath`'s test, the base's elements are a prefix of the target's and the first
    element after them is not `..` -/
theorem relSegs_accepted (cb ct : CPath) (rs : List Seg) (hdot : dot ∉ cb.segs)
    (h : relSegs cb ct = some rs)
    (hok : hasUpPrefix (joinSep rs) = false ∧ joinSep rs ≠ dotdot) :
    cb.rooted = ct.rooted ∧ ∃ r, ct.segs = cb.segs ++ r ∧ r.head? ≠ some dotdot := by
  unfold relSegs at h
  split at h
  · rename_i heq
    subst heq
    exact ⟨rfl, [], by simp, by simp⟩
  · rename_i hne
    split at h
    · exact absurd h (by simp)
    · rename_i hr
      have hr' : cb.rooted = ct.rooted := by simpa using hr
      refine ⟨hr', ?_⟩
      obtain ⟨c, hb, ht⟩ := stripCommon_spec cb.segs (targElems ct)
      split at h
      · rename_i t' hs
        rw [hs] at hb ht
        simp only [List.append_nil] at hb ht
        simp only [Option.some.injEq] at h
        subst h
        have hhead : t'.head? ≠ some dotdot := by
          cases t' with
          | nil => simp
          | cons x xs =>
            intro hx
            simp only [List.head?_cons, Option.some.injEq] at hx
            subst hx
            rcases joinSep_dotdot_bad xs with hbad | hbad
            · rw [hbad] at hok; exact absurd hok.1 (by simp)
            · exact hok.2 hbad
        unfold targElems at ht
        split at ht
        · rename_i hroot
          -- the target is "." : the base would have to be "." as well
          exfalso
          have : c = [] ∨ c = [dot] := by
            cases c with
            | nil => left; rfl
            | cons x xs =>
              right
              simp only [List.cons_append, List.cons.injEq] at ht
              obtain ⟨hx, hrest⟩ := ht
              have : xs = [] := by
                cases xs with
                | nil => rfl
                | cons _ _ => simp at hrest
              rw [← hx, this]
          rcases this with hc | hc
          · apply hne
            obtain ⟨rb, sb⟩ := cb
            obtain ⟨rt, st⟩ := ct
            simp only at hb hr' hroot hc
            simp [hb, hc, hr', hroot.2]
          · apply hdot
            rw [hb, hc]; simp
        · exact ⟨t', by rw [ht, hb], hhead⟩
      · rename_i b bs t' hs
        exfalso
        split at h
        · exact absurd h (by simp)
        · simp only [Option.some.injEq] at h
          subst h
          rcases joinSep_dotdot_bad (List.replicate bs.length dotdot ++ t') with hbad | hbad
          · simp only [List.replicate_succ, List.cons_append] at hok
            rw [hbad] at hok; exact absurd hok.1 (by simp)
          · simp only [List.replicate_succ, List.cons_append] at hok
            exact hok.2 hbad

/-- in a well-formed cleaned path, a suffix that does not start with `..` consists of names -/
theorem good_suffix_names (c : CPath) (h : Good c) (pre r : List Seg) (hs : c.segs = pre ++ r)
    (hh : r.head? ≠ some dotdot) : ∀ n ∈ r, IsName n ∧ 47 ∉ n := by
  obtain ⟨k, names, hk, hn, _⟩ := h
  rw [hk] at hs
  rcases List.append_eq_append_iff.mp hs with ⟨a', _, h2⟩ | ⟨c', h1, h2⟩
  · intro n hm
    exact hn n (by rw [h2]; simp [hm])
  · cases c' with
    | nil =>
      simp only [List.nil_append] at h2
      intro n hm
      exact hn n (by rw [← h2]; exact hm)
    | cons x xs =>
      exfalso
      have hx : x ∈ List.replicate k dotdot := by rw [h1]; simp
      have hx' : x = dotdot := (List.mem_replicate.mp hx).2
      apply hh
      rw [h2, hx']; simp

/-! ### the lexical walk -/

/-- `k` steps to the parent -/
def up : Nat → Pos → Pos
  | 0, p => p
  | k + 1, p => (up k p).dropLast

theorem up_nil (k : Nat) : up k [] = [] := by
  induction k with
  | zero => rfl
  | succ k ih => simp [up, ih]

/-- the node denoted by a buffer state of `Clean` -/
def posOf (p0 : Pos) (st : CState) : Pos := up st.k p0 ++ st.names.reverse

theorem walkStep_posOf (rooted : Bool) (p0 : Pos) (hp : rooted = true → p0 = []) (st : CState) (e : Seg) :
    walkStep (posOf p0 st) e = posOf p0 (cleanStep rooted st e) := by
  unfold walkStep cleanStep
  split
  · rfl
  · split
    · rfl
    · split
      · split
        · rename_i n rest hn
          simp only [posOf, hn, List.reverse_cons]
          rw [← List.append_assoc, List.dropLast_concat]
        · rename_i hn
          split
          · rename_i hr
            have := hp hr
            subst this
            simp [posOf, hn, up_nil]
          · simp [posOf, hn, up]
      · simp [posOf]

theorem foldl_walkStep_posOf (rooted : Bool) (p0 : Pos) (hp : rooted = true → p0 = []) (es : List Seg) :
    ∀ st : CState, es.foldl walkStep (posOf p0 st) = posOf p0 (es.foldl (cleanStep rooted) st) := by
  induction es with
  | nil => intro st; rfl
  | cons e es ih =>
    intro st
    simp only [List.foldl_cons]
    rw [walkStep_posOf rooted p0 hp st e, ih]

theorem foldl_walkStep_dotdots (k : Nat) (p : Pos) :
    (List.replicate k dotdot).foldl walkStep p = up k p := by
  induction k with
  | zero => rfl
  | succ k ih =>
    rw [List.replicate_succ', List.foldl_append, ih]
    simp [walkStep, dotdot, dot, up]

theorem foldl_walkStep_names (names : List Seg) (hn : ∀ n ∈ names, IsName n) :
    ∀ p : Pos, names.foldl walkStep p = p ++ names := by
  induction names with
  | nil => intro p; simp
  | cons n names ih =>
    intro p
    obtain ⟨h1, h2, h3⟩ := hn n (by simp)
    simp only [List.foldl_cons]
    have : walkStep p n = p ++ [n] := by simp [walkStep, h1, h2, h3]
    rw [this, ih (fun x hx => hn x (by simp [hx]))]
    simp

theorem startPos_rooted (cwd : Pos) (rooted : Bool) : rooted = true → startPos cwd rooted = [] := by
  intro h; simp [startPos, h]

/-- `Clean` preserves the node a string denotes (in a tree without symbolic links) -/
theorem walkStr_eq_walkP (cwd : Pos) (s : Str) : walkStr cwd s = walkP cwd (cleanP s) := by
  have hg := cleanP_good s
  have h1 := foldl_walkStep_posOf (isRooted s) (startPos cwd (isRooted s))
    (startPos_rooted cwd (isRooted s)) (elems s) ⟨0, []⟩
  have h0 : posOf (startPos cwd (isRooted s)) ⟨0, []⟩ = startPos cwd (isRooted s) := by simp [posOf, up]
  rw [h0] at h1
  unfold walkStr
  rw [h1]
  unfold walkP cleanP
  simp only [CState.toSegs, List.foldl_append, foldl_walkStep_dotdots]
  rw [foldl_walkStep_names]
  · rfl
  · intro n hm
    exact (foldl_cleanStep_names (isRooted s) (fun _ => True) (elems s) (by simp) ⟨0, []⟩ (by simp) n
      (by simpa [cleanFold] using hm)).1

theorem visited_append (p : Pos) (a b : List Seg) :
    visited p (a ++ b) = visited p a ++ (visited (a.foldl walkStep p) b).tail := by
  induction a generalizing p with
  | nil => cases b <;> simp [visited]
  | cons e a ih => simp [visited, ih]

theorem visited_names_below (names : List Seg) (hn : ∀ n ∈ names, IsName n) :
    ∀ p : Pos, ∀ q ∈ visited p names, p <+: q := by
  induction names with
  | nil => intro p q hq; simp [visited] at hq; subst hq; exact List.prefix_refl _
  | cons n names ih =>
    intro p q hq
    obtain ⟨h1, h2, h3⟩ := hn n (by simp)
    simp only [visited, List.mem_cons] at hq
    rcases hq with rfl | hq
    · exact List.prefix_refl _
    · have hw : walkStep p n = p ++ [n] := by simp [walkStep, h1, h2, h3]
      rw [hw] at hq
      exact List.IsPrefix.trans (List.prefix_append p [n]) (ih (fun x hx => hn x (by simp [hx])) _ q hq)

/-! ### the converse: what is inside is accepted -/

theorem stripCommon_prefix (a r : List Seg) : stripCommon a (a ++ r) = ([], r) := by
  induction a with
  | nil => cases r <;> simp [stripCommon]
  | cons x a ih => simp [stripCommon, ih]

/-- a relative path whose first element is a slash-free name other than `..` passes
    `isSubpath`'s string test -/
theorem joinSep_name_ok (n : Seg) (rest : List Seg) (h1 : n ≠ []) (h2 : n ≠ dotdot) (h3 : 47 ∉ n) :
    hasUpPrefix (joinSep (n :: rest)) = false ∧ joinSep (n :: rest) ≠ dotdot := by
  match n, rest with
  | [], _ => exact absurd rfl h1
  | [a], [] => simp [joinSep, hasUpPrefix, dotdot]
  | [a], t :: r => simp [joinSep, hasUpPrefix, dotdot]
  | [a, c], [] =>
    simp only [joinSep, hasUpPrefix, dotdot] at *
    simp
    intro ha hc; exact h2 (by simp [ha, hc])
  | [a, c], t :: r =>
    simp only [joinSep, hasUpPrefix, dotdot] at *
    simp
    intro ha hc; exact h2 (by simp [ha, hc])
  | a :: c :: d :: m, [] =>
    have hd : d ≠ 47 := by intro e; apply h3; simp [e]
    simp [joinSep, hasUpPrefix, dotdot, hd]
  | a :: c :: d :: m, t :: r =>
    have hd : d ≠ 47 := by intro e; apply h3; simp [e]
    simp [joinSep, hasUpPrefix, dotdot, hd]

/-- the converse of `relSegs_accepted`: what lies inside the root is accepted -/
theorem inside_isSubpath (root sub : Str) (h : inside root sub) : isSubpath root sub = (true, true) := by
  obtain ⟨hroot, r, hseg, h1, h2, h3⟩ := h
  have hgood := cleanP_good sub
  unfold isSubpath relStr relSegs
  by_cases heq : cleanP root = cleanP sub
  · simp [heq, joinSep, hasUpPrefix, dot, dotdot]
  · have hr : r ≠ [] := by
      intro hr
      apply heq
      rw [hr, List.append_nil] at hseg
      cases hc : cleanP root; cases hs : cleanP sub
      rw [hc, hs] at hroot hseg
      simp only at hroot hseg
      rw [hroot, hseg]
    have hne : (cleanP sub).segs ≠ [] := by
      rw [hseg]; intro hnil; exact hr (List.append_eq_nil_iff.mp hnil).2
    have ht : targElems (cleanP sub) = (cleanP root).segs ++ r := by
      unfold targElems
      rw [if_neg (fun hc => hne hc.2), hseg]
    simp only [heq, if_false, hroot, ne_eq, not_true_eq_false, ht, stripCommon_prefix]
    cases r with
    | nil => exact absurd rfl hr
    | cons n rest =>
      have hn := good_suffix_names (cleanP sub) hgood (cleanP root).segs (n :: rest) hseg
        (by simp only [List.head?_cons, ne_eq, Option.some.injEq]; intro e; exact h1 (by simp [e])) n (by simp)
      obtain ⟨ha, hb⟩ := joinSep_name_ok n rest hn.1.1 hn.1.2.2 hn.2
      simp [ha, hb]
/-! ### helpers of the property theorems -/

/-- The string `Clean` returns is the string of its own cleaned form: splitting it at `/` gives
    back exactly the cleaned elements (`cleanP` is a left inverse of rendering on clean paths). -/
theorem clean_render_roundtrip (s : Str) : cleanP (cleanStr s) = cleanP s :=
  cleanP_render _ (cleanP_good s)

/-- `isSubpath(root, sub)` accepting (`ok = true`, `err = nil`) implies `sub` lies inside `root`. -/
theorem isSubpath_inside (root sub : Str) (h : isSubpath root sub = (true, true)) : inside root sub := by
  unfold isSubpath at h
  split at h
  · simp at h
  · rename_i rel hrel
    unfold relStr at hrel
    obtain ⟨rs, hrs, hj⟩ := Option.map_eq_some_iff.mp hrel
    subst hj
    have hok : hasUpPrefix (joinSep rs) = false ∧ joinSep rs ≠ dotdot := by
      simp only [Prod.mk.injEq, Bool.and_eq_true, Bool.not_eq_eq_eq_not, Bool.not_true, bne_iff_ne,
        ne_eq, and_true] at h
      exact h
    have hgr := cleanP_good root
    have hdot : dot ∉ (cleanP root).segs := by
      obtain ⟨k, names, h1, h2, _⟩ := hgr
      rw [h1]
      intro hm
      simp only [List.mem_append, List.mem_replicate] at hm
      rcases hm with ⟨_, hd⟩ | hm
      · simp [dot, dotdot] at hd
      · exact (h2 dot hm).1.2.1 rfl
    obtain ⟨hroot, r, hseg, hhead⟩ := relSegs_accepted (cleanP root) (cleanP sub) rs hdot hrs hok
    have hnames := good_suffix_names (cleanP sub) (cleanP_good sub) (cleanP root).segs r hseg hhead
    exact ⟨hroot, r, hseg, fun hm => (hnames _ hm).1.2.2 rfl, fun hm => (hnames _ hm).1.2.1 rfl,
      fun hm => (hnames _ hm).1.1 rfl⟩

/-- `Resolve` opens at most one file, namely `Clean(Join(root, p))`, and only if `isSubpath`
    accepts it; in every other case it returns an error and touches no file. -/
theorem resolve_cases (root p : Str) :
    (resolve root p = .opened (cleanStr (joinStr root p)) ∧
      isSubpath root (cleanStr (joinStr root p)) = (true, true)) ∨
    resolve root p = .rejected ∨ resolve root p = .relError := by
  unfold resolve
  simp only
  split
  · right; right; rfl
  · right; left; rfl
  · rename_i h; left; exact ⟨rfl, h⟩

/-- the decision procedure the driver runs is the specification -/
theorem insideB_iff (root q : Str) : insideB root q = true ↔ inside root q := by
  unfold insideB inside
  simp only [Bool.and_eq_true, beq_iff_eq, List.all_eq_true, bne_iff_ne, ne_eq]
  constructor
  · rintro ⟨⟨hr, ht⟩, hall⟩
    refine ⟨hr, (cleanP q).segs.drop (cleanP root).segs.length, ?_, ?_, ?_, ?_⟩
    · conv => lhs; rw [← List.take_append_drop (cleanP root).segs.length (cleanP q).segs]
      rw [ht]
    · intro hm; exact (hall _ hm).1.1 rfl
    · intro hm; exact (hall _ hm).1.2 rfl
    · intro hm; exact (hall _ hm).2 rfl
  · rintro ⟨hr, r, hs, h1, h2, h3⟩
    refine ⟨⟨hr, ?_⟩, ?_⟩
    · rw [hs]; simp
    · rw [hs]
      simp only [List.drop_left']
      intro x hx
      refine ⟨⟨?_, ?_⟩, ?_⟩
      · intro e; exact h1 (e ▸ hx)
      · intro e; exact h2 (e ▸ hx)
      · intro e; exact h3 (e ▸ hx)

end Ecal.Path
