import Ecal.Model.PrattPrint
/-! Lemmas for C08 on the expression-level model: admissible parentheses re-parse; the printer's
local bracket rule yields admissible parentheses; relational parser ⇒ fuel-indexed parser. -/
namespace Ecal.C08

/-- Every admissibly parenthesised tree is read back by the Pratt parser, in any continuation. -/
theorem ok_parses (P : Powers) :
    ∀ (p : PExpr) (m m' f : Nat) (rest : List Tok) (e' : Expr) (r' : List Tok),
    m ≤ m' → Ok P p m' f → lbp P rest ≤ f →
    Loop P m p.strip rest e' r' → Run P m (p.flat ++ rest) e' r' := by
  intro p
  induction p with
  | atom n =>
    intro m m' f rest e' r' _ _ _ hl
    simp only [PExpr.flat, List.cons_append, List.nil_append]
    exact Run.atom hl
  | bin k l r ihl ihr =>
    intro m m' f rest e' r' hmm hok hrest hl
    obtain ⟨hm, hf, okl, okr⟩ := hok
    simp only [PExpr.flat, List.append_assoc, List.cons_append]
    apply ihl m (P.bp k - 1) (P.bp k) _ e' r' (by omega) okl (by simp [lbp])
    apply Loop.op (by omega) (r := r.strip) (ts' := rest)
    · apply ihr (P.bp k) (P.bp k) f rest r.strip rest (Nat.le_refl _) okr hrest
      exact Loop.stop (by omega)
    · exact hl
  | pre k x ih =>
    intro m m' f rest e' r' hmm hok hrest hl
    obtain ⟨hf, okx⟩ := hok
    simp only [PExpr.flat, List.cons_append]
    apply Run.pre (x := x.strip) (ts' := rest)
    · apply ih (P.pbp k) (P.pbp k) f rest x.strip rest (Nat.le_refl _) okx hrest
      exact Loop.stop (by omega)
    · exact hl
  | paren x ih =>
    intro m m' f rest e' r' hmm hok hrest hl
    simp only [PExpr.flat, List.cons_append, List.append_assoc, List.nil_append]
    apply Run.paren (e1 := x.strip) (ts' := rest)
    · apply ih 0 0 0 (Tok.rp :: rest) x.strip (Tok.rp :: rest) (Nat.le_refl _) hok (by simp [lbp])
      exact Loop.stop (by simp [lbp])
    · exact hl

theorem strip_wrap (b : Bool) (p : PExpr) : (wrap b p).strip = p.strip := by
  cases b <;> simp [wrap, PExpr.strip]

theorem strip_annot (P : Powers) (exc : Nat → Nat → Bool) (e : Expr) : (annot P exc e).strip = e := by
  induction e with
  | atom n => simp [annot, PExpr.strip]
  | bin k l r ihl ihr => simp [annot, PExpr.strip, strip_wrap, ihl, ihr]
  | pre k x ih => simp [annot, PExpr.strip, strip_wrap, ih]

/-- context in which the root operator of `e` needs no parentheses -/
def Adm (P : Powers) : Expr → Nat → Nat → Prop
  | .atom _, _, _ => True
  | .bin k _ _, m, f => m < P.bp k ∧ f ≤ P.bp k
  | .pre k _, _, f => f ≤ P.pbp k

theorem adm_zero (P : Powers) (hpos : ∀ k, 0 < P.bp k) (e : Expr) : Adm P e 0 0 := by
  cases e with
  | atom n => trivial
  | bin k l r => exact ⟨hpos k, Nat.zero_le _⟩
  | pre k x => exact Nat.zero_le _

theorem ok_wrap_true (P : Powers) (p : PExpr) (m f : Nat) (h : Ok P p 0 0) : Ok P (wrap true p) m f := by
  simpa [wrap, Ok] using h

/-- The local bracket rule produces admissible parentheses (outside the exception on right operands). -/
theorem annot_ok (P : Powers) (exc : Nat → Nat → Bool)
    (hpos : ∀ k, 0 < P.bp k) (hexc : ∀ K k, exc K k = true → P.bp K ≤ P.bp k) :
    ∀ (e : Expr) (m f : Nat), hasExc P exc e = false → Adm P e m f → Ok P (annot P exc e) m f := by
  intro e
  induction e with
  | atom n => intro m f _ _; simp [annot, Ok]
  | bin k l r ihl ihr =>
    intro m f hne hadm
    obtain ⟨hm, hf⟩ := hadm
    simp only [hasExc, Bool.or_eq_false_iff] at hne
    obtain ⟨⟨hnl, hnr⟩, hnx⟩ := hne
    simp only [annot, Ok]
    refine ⟨hm, hf, ?_, ?_⟩
    · -- left operand
      cases hb : nb P exc (.bin k) l.head 0 (chainPure P exc k (P.bp k) l) with
      | true => exact ok_wrap_true P _ _ _ (ihl 0 0 hnl (adm_zero P hpos l))
      | false =>
        simp only [wrap, Bool.false_eq_true, if_false]
        apply ihl _ _ hnl
        cases l with
        | atom n => trivial
        | bin k2 l2 r2 =>
          simp only [Expr.head, nb] at hb
          have h2 := hpos k2
          by_cases hx : (exc k k2 && chainPure P exc k (P.bp k) (Expr.bin k2 l2 r2)) = true
          · have hx1 : exc k k2 = true := by
              simp only [Bool.and_eq_true] at hx; exact hx.1
            have := hexc k k2 hx1
            exact ⟨by omega, this⟩
          · simp only [hx, Bool.false_eq_true, if_false, Bool.or_eq_false_iff, decide_eq_false_iff_not,
              Bool.and_eq_false_iff] at hb
            exact ⟨by omega, by omega⟩
        | pre k2 x2 =>
          simp only [Expr.head, nb] at hb
          by_cases hs : P.stmt k2 = true
          · simp [hs] at hb
          · simp only [hs, Bool.false_eq_true, if_false, decide_eq_false_iff_not] at hb
            simp only [Adm, Powers.pbp, hs, Bool.false_eq_true, if_false]; omega
    · -- right operand
      cases hb : nb P exc (.bin k) r.head 1 (chainPure P exc k (P.bp k) r) with
      | true => exact ok_wrap_true P _ _ _ (ihr 0 0 hnr (adm_zero P hpos r))
      | false =>
        simp only [wrap, Bool.false_eq_true, if_false]
        apply ihr _ _ hnr
        cases r with
        | atom n => trivial
        | bin k2 l2 r2 =>
          simp only [Expr.head] at hnx
          simp only [Expr.head, nb, hnx, Bool.false_eq_true, if_false, Bool.or_eq_false_iff,
            decide_eq_false_iff_not, Bool.and_eq_false_iff] at hb
          obtain ⟨h1, h2⟩ := hb
          have : ¬ P.bp k = P.bp k2 := by
            rcases h2 with h2 | h2
            · exact h2
            · exact absurd (by omega : 1 > 0) h2
          exact ⟨by omega, by omega⟩
        | pre k2 x2 =>
          simp only [Expr.head, nb] at hb
          by_cases hs : P.stmt k2 = true
          · simp [hs] at hb
          · simp only [hs, Bool.false_eq_true, if_false, decide_eq_false_iff_not] at hb
            simp only [Adm, Powers.pbp, hs, Bool.false_eq_true, if_false]; omega
  | pre k x ih =>
    intro m f hne hadm
    simp only [hasExc] at hne
    simp only [Adm] at hadm
    simp only [annot, Ok]
    refine ⟨hadm, ?_⟩
    cases hb : nb P exc (.pre k) x.head 0 true with
    | true => exact ok_wrap_true P _ _ _ (ih 0 0 hne (adm_zero P hpos x))
    | false =>
      simp only [wrap, Bool.false_eq_true, if_false]
      apply ih _ _ hne
      cases x with
      | atom n => trivial
      | bin k2 l2 r2 =>
        simp only [Expr.head, nb] at hb
        show P.pbp k < P.bp k2 ∧ f ≤ P.bp k2
        have h2 := hpos k2
        by_cases hs : P.stmt k = true
        · simp only [Powers.pbp, hs, if_true] at hadm ⊢; omega
        · simp only [hs, Bool.false_eq_true, if_false, decide_eq_false_iff_not] at hb
          simp only [Powers.pbp, hs, Bool.false_eq_true, if_false] at hadm ⊢; omega
      | pre k2 x2 =>
        simp only [Expr.head, nb] at hb
        show f ≤ P.pbp k2
        by_cases hs : P.stmt k = true
        · simp only [Powers.pbp, hs, if_true] at hadm; omega
        · simp only [hs, Bool.false_eq_true, if_false] at hb
          by_cases hs2 : P.stmt k2 = true
          · simp [hs2] at hb
          · simp only [hs2, Bool.false_eq_true, if_false, decide_eq_false_iff_not] at hb
            simp only [Powers.pbp, hs, hs2, Bool.false_eq_true, if_false] at hadm ⊢; omega

theorem strip_annotW (P : Powers) (exc : Nat → Nat → Bool) (br : Head → Head → Nat → Bool → Bool) (e : Expr) :
    (annotW P exc br e).strip = e := by
  induction e with
  | atom n => simp [annotW, PExpr.strip]
  | bin k l r ihl ihr => simp [annotW, PExpr.strip, strip_wrap, ihl, ihr]
  | pre k x ih => simp [annotW, PExpr.strip, strip_wrap, ih]

theorem annotW_nb (P : Powers) (exc : Nat → Nat → Bool) (e : Expr) : annotW P exc (nb P exc) e = annot P exc e := by
  induction e with
  | atom n => rfl
  | bin k l r ihl ihr => simp [annotW, annot, ihl, ihr]
  | pre k x ih => simp [annotW, annot, ih]

theorem head_ok (ok : Head → Bool) (e : Expr) (h : headsIn ok e = true) (hne : ∀ n, e ≠ .atom n) : ok e.head = true := by
  cases e with
  | atom n => exact absurd rfl (hne n)
  | bin k l r => simp only [headsIn, Bool.and_eq_true] at h; exact h.1.1
  | pre k x => simp only [headsIn, Bool.and_eq_true] at h; exact h.1

/-- `need` never asks for parentheses around an atom -/
theorem need_atom (P : Powers) (p : Head) (i : Nat) : need P p .atom i = false := by
  cases p <;> rfl

/-- **Every sufficient bracket rule produces admissible parentheses** (outside the exception on right operands;
    `ok` delimits the heads for which sufficiency is known, e.g. the real table). -/
theorem annotW_ok (P : Powers) (exc : Nat → Nat → Bool) (br : Head → Head → Nat → Bool → Bool) (ok : Head → Bool)
    (hpos : ∀ k, 0 < P.bp k) (hs : Suff P exc br ok) :
    ∀ (e : Expr) (m f : Nat), headsIn ok e = true → hasExc P exc e = false → Adm P e m f →
      Ok P (annotW P exc br e) m f := by
  intro e
  induction e with
  | atom n => intro m f _ _ _; simp [annotW, Ok]
  | bin k l r ihl ihr =>
    intro m f hin hne hadm
    obtain ⟨hm, hf⟩ := hadm
    simp only [headsIn, Bool.and_eq_true] at hin
    obtain ⟨⟨hok, hinl⟩, hinr⟩ := hin
    simp only [hasExc, Bool.or_eq_false_iff] at hne
    obtain ⟨⟨hnl, hnr⟩, hnx⟩ := hne
    simp only [annotW, Ok]
    refine ⟨hm, hf, ?_, ?_⟩
    · -- left operand
      cases hb : br (.bin k) l.head 0 (chainPure P exc k (P.bp k) l) with
      | true => exact ok_wrap_true P _ _ _ (ihl 0 0 hinl hnl (adm_zero P hpos l))
      | false =>
        simp only [wrap, Bool.false_eq_true, if_false]
        apply ihl _ _ hinl hnl
        cases l with
        | atom n => trivial
        | bin k2 l2 r2 =>
          have hokc := head_ok ok (.bin k2 l2 r2) hinl (by intro n h; cases h)
          have hn : need P (.bin k) (.bin k2) 0 = false := by
            cases hnd : need P (.bin k) (.bin k2) 0 with
            | false => rfl
            | true =>
              rcases hs _ _ _ (chainPure P exc k (P.bp k) (.bin k2 l2 r2)) hok hokc (by omega) hnd with
                h | ⟨_, _, _, _, hi, _⟩
              · rw [hb] at h; exact absurd h (by simp)
              · omega
          simp only [need, Bool.or_eq_false_iff, decide_eq_false_iff_not, Bool.and_eq_false_iff] at hn
          have h2 := hpos k2
          exact ⟨by omega, by omega⟩
        | pre k2 x2 =>
          have hokc := head_ok ok (.pre k2 x2) hinl (by intro n h; cases h)
          have hn : need P (.bin k) (.pre k2) 0 = false := by
            cases hnd : need P (.bin k) (.pre k2) 0 with
            | false => rfl
            | true =>
              rcases hs _ _ _ (chainPure P exc k (P.bp k) (.pre k2 x2)) hok hokc (by omega) hnd with
                h | ⟨_, _, _, hc, _⟩
              · rw [hb] at h; exact absurd h (by simp)
              · cases hc
          simp only [need, decide_eq_false_iff_not] at hn
          simp only [Adm]; omega
    · -- right operand
      cases hb : br (.bin k) r.head 1 (chainPure P exc k (P.bp k) r) with
      | true => exact ok_wrap_true P _ _ _ (ihr 0 0 hinr hnr (adm_zero P hpos r))
      | false =>
        simp only [wrap, Bool.false_eq_true, if_false]
        apply ihr _ _ hinr hnr
        cases r with
        | atom n => trivial
        | bin k2 l2 r2 =>
          have hokc := head_ok ok (.bin k2 l2 r2) hinr (by intro n h; cases h)
          have hn : need P (.bin k) (.bin k2) 1 = false := by
            cases hnd : need P (.bin k) (.bin k2) 1 with
            | false => rfl
            | true =>
              rcases hs _ _ _ (chainPure P exc k (P.bp k) (.bin k2 l2 r2)) hok hokc (by omega) hnd with
                h | ⟨K, k3, hK, hc, _, hex, hpu⟩
              · rw [hb] at h; exact absurd h (by simp)
              · -- the exception: excluded by `hasExc = false`
                injection hK with hK; subst hK
                injection hc with hc; subst hc
                simp only [Expr.head] at hnx
                simp [hex, hpu] at hnx
          simp only [need, Bool.or_eq_false_iff, decide_eq_false_iff_not, Bool.and_eq_false_iff] at hn
          obtain ⟨h1, h2⟩ := hn
          have : ¬ P.bp k = P.bp k2 := by
            rcases h2 with h2 | h2
            · exact h2
            · exact absurd (by omega : 1 > 0) h2
          exact ⟨by omega, by omega⟩
        | pre k2 x2 =>
          have hokc := head_ok ok (.pre k2 x2) hinr (by intro n h; cases h)
          have hn : need P (.bin k) (.pre k2) 1 = false := by
            cases hnd : need P (.bin k) (.pre k2) 1 with
            | false => rfl
            | true =>
              rcases hs _ _ _ (chainPure P exc k (P.bp k) (.pre k2 x2)) hok hokc (by omega) hnd with
                h | ⟨_, _, _, hc, _⟩
              · rw [hb] at h; exact absurd h (by simp)
              · cases hc
          simp only [need, decide_eq_false_iff_not] at hn
          simp only [Adm]; omega
  | pre k x ih =>
    intro m f hin hne hadm
    simp only [headsIn, Bool.and_eq_true] at hin
    obtain ⟨hok, hinx⟩ := hin
    simp only [hasExc] at hne
    simp only [Adm] at hadm
    simp only [annotW, Ok]
    refine ⟨hadm, ?_⟩
    cases hb : br (.pre k) x.head 0 true with
    | true => exact ok_wrap_true P _ _ _ (ih 0 0 hinx hne (adm_zero P hpos x))
    | false =>
      simp only [wrap, Bool.false_eq_true, if_false]
      apply ih _ _ hinx hne
      cases x with
      | atom n => trivial
      | bin k2 l2 r2 =>
        have hokc := head_ok ok (.bin k2 l2 r2) hinx (by intro n h; cases h)
        have hn : need P (.pre k) (.bin k2) 0 = false := by
          cases hnd : need P (.pre k) (.bin k2) 0 with
          | false => rfl
          | true =>
            rcases hs _ _ _ true hok hokc (by omega) hnd with h | ⟨K, _, hK, _⟩
            · rw [hb] at h; exact absurd h (by simp)
            · cases hK
        simp only [need, decide_eq_false_iff_not] at hn
        show P.pbp k < P.bp k2 ∧ f ≤ P.bp k2
        omega
      | pre k2 x2 =>
        have hokc := head_ok ok (.pre k2 x2) hinx (by intro n h; cases h)
        have hn : need P (.pre k) (.pre k2) 0 = false := by
          cases hnd : need P (.pre k) (.pre k2) 0 with
          | false => rfl
          | true =>
            rcases hs _ _ _ true hok hokc (by omega) hnd with h | ⟨K, _, hK, _⟩
            · rw [hb] at h; exact absurd h (by simp)
            · cases hK
        simp only [need, decide_eq_false_iff_not] at hn
        show f ≤ P.pbp k2
        omega

/-- the hand-written rule `nb` suffices (for every table with positive infix bindings and an exception that
    only concerns children binding at least as tightly) -/
theorem nb_suff (P : Powers) (exc : Nat → Nat → Bool)
    (hpos : ∀ k, 0 < P.bp k) (hexc : ∀ K k, exc K k = true → P.bp K ≤ P.bp k) :
    Suff P exc (nb P exc) (fun _ => true) := by
  intro p c i pure _ _ _ hn
  cases p with
  | atom => cases c <;> simp [need] at hn
  | bin K =>
    cases c with
    | atom => simp [need] at hn
    | pre k =>
      left
      simp only [need, decide_eq_true_eq, Powers.pbp] at hn
      simp only [nb]
      by_cases hs : P.stmt k = true
      · simp [hs]
      · simp only [hs, Bool.false_eq_true, if_false, decide_eq_true_eq] at hn ⊢; omega
    | bin k =>
      simp only [need, Bool.or_eq_true, decide_eq_true_eq, Bool.and_eq_true] at hn
      by_cases hx : (exc K k && pure) = true
      · simp only [Bool.and_eq_true] at hx
        have := hexc K k hx.1
        right
        refine ⟨K, k, rfl, rfl, ?_, hx.1, hx.2⟩
        rcases hn with h | ⟨_, h⟩
        · omega
        · exact h
      · left
        simp only [nb, hx, Bool.false_eq_true, if_false, Bool.or_eq_true, decide_eq_true_eq, Bool.and_eq_true]
        exact hn
  | pre K =>
    cases c with
    | atom => simp [need] at hn
    | bin k =>
      left
      simp only [need, decide_eq_true_eq, Powers.pbp] at hn
      simp only [nb]
      by_cases hs : P.stmt K = true
      · simp only [hs, if_true, decide_eq_true_eq] at hn; have := hpos k; omega
      · simp only [hs, Bool.false_eq_true, if_false, decide_eq_true_eq] at hn ⊢; exact hn
    | pre k =>
      left
      simp only [need, decide_eq_true_eq, Powers.pbp] at hn
      simp only [nb]
      by_cases hs : P.stmt K = true
      · simp only [hs, if_true, decide_eq_true_eq] at hn; omega
      · by_cases hs2 : P.stmt k = true
        · simp [hs, hs2]
        · simp only [hs, hs2, Bool.false_eq_true, if_false, decide_eq_true_eq] at hn ⊢; omega

/-! ### relational parser ⇒ fuel-indexed parser -/

theorem mono1 (P : Powers) : ∀ (f : Nat),
    (∀ m ts x, run P f m ts = some x → run P (f+1) m ts = some x) ∧
    (∀ m l ts x, loop P f m l ts = some x → loop P (f+1) m l ts = some x) := by
  intro f
  induction f with
  | zero =>
    constructor
    · intro m ts x h; simp [run] at h
    · intro m l ts x h; simp [loop] at h
  | succ f ih =>
    obtain ⟨ihr, ihl⟩ := ih
    constructor
    · intro m ts x h
      match ts with
      | [] => simp [run] at h
      | Tok.atom n :: ts => simp only [run] at h ⊢; exact ihl _ _ _ _ h
      | Tok.op _ :: _ => simp [run] at h
      | Tok.rp :: _ => simp [run] at h
      | Tok.pre k :: ts =>
        simp only [run] at h ⊢
        cases h1 : run P f (P.pbp k) ts with
        | none => simp [h1] at h
        | some y =>
          obtain ⟨x1, ts'⟩ := y
          rw [h1] at h; rw [ihr _ _ _ h1]
          exact ihl _ _ _ _ h
      | Tok.lp :: ts =>
        simp only [run] at h ⊢
        cases h1 : run P f 0 ts with
        | none => simp [h1] at h
        | some y =>
          obtain ⟨e1, r1⟩ := y
          rw [h1] at h; rw [ihr _ _ _ h1]
          match r1 with
          | [] => simp at h
          | Tok.rp :: ts' => exact ihl _ _ _ _ h
          | Tok.atom _ :: _ => simp at h
          | Tok.op _ :: _ => simp at h
          | Tok.pre _ :: _ => simp at h
          | Tok.lp :: _ => simp at h
    · intro m l ts x h
      match ts with
      | Tok.op k :: ts =>
        simp only [loop] at h ⊢
        split at h
        · rename_i hlt
          simp only [hlt, if_true]
          cases h1 : run P f (P.bp k) ts with
          | none => simp [h1] at h
          | some y =>
            obtain ⟨r, ts'⟩ := y
            rw [h1] at h; rw [ihr _ _ _ h1]
            exact ihl _ _ _ _ h
        · rename_i hlt
          simp only [hlt, if_false]; exact h
      | [] => simp only [loop] at h ⊢; exact h
      | Tok.atom _ :: _ => simp only [loop] at h ⊢; exact h
      | Tok.pre _ :: _ => simp only [loop] at h ⊢; exact h
      | Tok.lp :: _ => simp only [loop] at h ⊢; exact h
      | Tok.rp :: _ => simp only [loop] at h ⊢; exact h

theorem mono (P : Powers) (f g : Nat) (h : f ≤ g) :
    (∀ m ts x, run P f m ts = some x → run P g m ts = some x) ∧
    (∀ m l ts x, loop P f m l ts = some x → loop P g m l ts = some x) := by
  induction h with
  | refl => exact ⟨fun _ _ _ h => h, fun _ _ _ _ h => h⟩
  | step _ ih =>
    exact ⟨fun m ts x h => (mono1 P _).1 m ts x (ih.1 m ts x h),
           fun m l ts x h => (mono1 P _).2 m l ts x (ih.2 m l ts x h)⟩

mutual
theorem Run.toFun (P : Powers) : ∀ {m ts e rest}, Run P m ts e rest → ∃ f, run P f m ts = some (e, rest)
  | _, _, _, _, .atom hl => by
    obtain ⟨f, hf⟩ := Loop.toFun P hl
    exact ⟨f+1, by simp only [run]; exact hf⟩
  | _, _, _, _, .paren hr hl => by
    obtain ⟨f1, hf1⟩ := Run.toFun P hr
    obtain ⟨f2, hf2⟩ := Loop.toFun P hl
    refine ⟨max f1 f2 + 1, ?_⟩
    have h1 := (mono P f1 (max f1 f2) (Nat.le_max_left _ _)).1 _ _ _ hf1
    have h2 := (mono P f2 (max f1 f2) (Nat.le_max_right _ _)).2 _ _ _ _ hf2
    simp only [run, h1]; exact h2
  | _, _, _, _, .pre hr hl => by
    obtain ⟨f1, hf1⟩ := Run.toFun P hr
    obtain ⟨f2, hf2⟩ := Loop.toFun P hl
    refine ⟨max f1 f2 + 1, ?_⟩
    have h1 := (mono P f1 (max f1 f2) (Nat.le_max_left _ _)).1 _ _ _ hf1
    have h2 := (mono P f2 (max f1 f2) (Nat.le_max_right _ _)).2 _ _ _ _ hf2
    simp only [run, h1]; exact h2
theorem Loop.toFun (P : Powers) : ∀ {m l ts e rest}, Loop P m l ts e rest → ∃ f, loop P f m l ts = some (e, rest)
  | m, l, ts, _, _, .stop hn => by
    refine ⟨1, ?_⟩
    match ts with
    | Tok.op k :: ts => simp only [lbp] at hn; simp [loop, hn]
    | [] => simp [loop]
    | Tok.atom _ :: _ => simp [loop]
    | Tok.pre _ :: _ => simp [loop]
    | Tok.lp :: _ => simp [loop]
    | Tok.rp :: _ => simp [loop]
  | _, _, _, _, _, .op hlt hr hl => by
    obtain ⟨f1, hf1⟩ := Run.toFun P hr
    obtain ⟨f2, hf2⟩ := Loop.toFun P hl
    refine ⟨max f1 f2 + 1, ?_⟩
    have h1 := (mono P f1 (max f1 f2) (Nat.le_max_left _ _)).1 _ _ _ hf1
    have h2 := (mono P f2 (max f1 f2) (Nat.le_max_right _ _)).2 _ _ _ _ hf2
    simp only [loop, hlt, if_true, h1]; exact h2
end

end Ecal.C08
