import Ecal.Lemmas.DebugCmd
namespace Ecal.DebugCmd

variable {s : DbgState}

theorem setBreakPoint_safe (src : Str) (line : Int) (v : Bool) (hi : Inv0 s) (hl : s.lock = 0)
    {α : Type} (a : α) : wp (setBreakPoint src line v) (fun _ s' => Post a s') s := by
  simp only [setBreakPoint, wp_locked, hl, true_and]
  leaf hi

theorem removeBreakPoint_safe (src : Str) (line : Int) (hi : Inv0 s) (hl : s.lock = 0)
    {α : Type} (a : α) : wp (removeBreakPoint src line) (fun _ s' => Post a s') s := by
  simp only [removeBreakPoint, wp_locked, wp_bind, wp_getS, hl, true_and]
  rw [wp_ite]
  refine ⟨fun _ => ?_, fun _ => ?_⟩
  · leaf hi
  · simp only [wp_bind, wp_deref]
    refine ⟨?_, ?_⟩
    · simp only [List.all_eq_true, decide_eq_true_eq]
      intro p _
      exact split_length_pos 58 p.1
    · leaf hi

theorem breakOnStart_safe (b : Bool) (hi : Inv0 s) (hl : s.lock = 0)
    {α : Type} (a : α) : wp (breakOnStart b) (fun _ s' => Post a s') s := by
  simp only [breakOnStart, wp_locked, hl, true_and]
  leaf hi

theorem statusOf_safe (hi : Inv0 s) (hl : s.lock = 0) :
    wp (statusOf repaired) (fun o s' => Post o s' ∧ o = (.status, false)) s := by
  have henc : ∀ t : DbgState, (t.stacks.all fun p => threadErrEncodable repaired t p.1) = true := by
    intro t
    simp only [List.all_eq_true, threadErrEncodable]
    intro p _
    split <;> simp [errEncodable, repaired]
  simp only [statusOf, wp_locked, wp_bind, wp_getS, wp_deref, hl, true_and, henc, ↓reduceIte, wp_pure, and_true]
  exact And.intro (stacks_all_of_inv hi) (And.intro (Inv0.of_eq hi rfl rfl) rfl)

theorem threadErrEncodable_repaired (t : DbgState) (tid : Nat) : threadErrEncodable repaired t tid = true := by
  unfold threadErrEncodable
  split <;> simp [errEncodable, repaired]

/-- `status` computed: it returns the status object and leaves the state as it was -/
theorem statusOf_eq (hi : Inv0 s) (hl : s.lock = 0) :
    statusOf repaired s = .ok (.status, false) { s with lock := 0 } := by
  have hA := stacks_all_of_inv hi
  simp [statusOf, locked, bind, getS, deref, pure, hl, hA, threadErrEncodable_repaired]

theorem lockState_safe (hi : Inv0 s) (hl : s.lock = 0) :
    wp (lockState repaired) (fun o s' => Post o s' ∧ o.1 ≠ .unencodable) s := by
  simp only [lockState, repaired, wp_bind, wp_getS, ↓reduceIte]
  cases h1 : s.mutexLogSet <;> cases h2 : s.threadPoolSet <;> simp [Post, hi, hl]

theorem continueThread_safe (tid : Nat) (ct : ContType) (hi : Inv0 s) (hl : s.lock = 0)
    {α : Type} (a : α) : wp (continueThread repaired tid ct) (fun _ s' => Post a s') s := by
  simp only [continueThread, wp_locked, wp_bind, wp_getS, hl, true_and]
  cases hlk : s.istates.lookup tid with
  | none => leaf hi
  | some is =>
    have hg : IGood is := hi.2 _ (mem_of_lookup hlk)
    simp only
    rw [wp_ite]
    refine ⟨fun _ => ?_, fun _ => ?_⟩
    · leaf hi
    · simp only [wp_bind]
      have fin : ∀ is' : Interro, IGood is' →
          wp (modS fun s => { s with istates := put tid is' s.istates })
            (fun _ s' => Post a { s' with lock := s'.lock - 1 }) { s with lock := 1 } := by
        intro is' hg'
        simp only [wp_modS]
        exact And.intro (Inv0.put_istate hi rfl (is := is') hg' rfl) rfl
      cases ct with
      | resume => simp only [wp_pure]; exact fin _ (And.intro hg.1 hg.2)
      | stepIn => simp only [wp_pure]; exact fin _ (And.intro hg.1 hg.2)
      | stepOver => simp only [wp_pure]; exact fin _ (And.intro hg.1 hg.2)
      | stepOut =>
        simp only [repaired, true_and]
        rw [wp_ite]
        refine ⟨fun _ => ?_, fun hlen => ?_⟩
        · simp only [wp_pure]; exact fin _ (And.intro hg.1 hg.2)
        · simp only [wp_bind, wp_sliceTo, wp_pure]
          have : 0 < ((s.stacks.lookup tid).getD []).length := by
            cases hst : (s.stacks.lookup tid).getD [] with
            | nil => simp [hst] at hlen
            | cons => simp
          refine ⟨by omega, ?_⟩
          exact fin _ (And.intro hg.1 hg.2)

theorem describeThread_safe (tid : Nat) (hi : Inv0 s) (hl : s.lock = 0) :
    wp (describeThread repaired tid) (fun o s' => Post o s' ∧ o.1 ≠ .unencodable) s := by
  simp only [describeThread, wp_locked, wp_bind, wp_getS, hl, true_and]
  cases h1 : s.stacks.lookup tid with
  | none => simp only [wp_pure]; exact ⟨And.intro (Inv0.of_eq hi rfl rfl) rfl, by simp⟩
  | some st =>
    cases h2 : s.istates.lookup tid with
    | none => simp only [wp_pure]; exact ⟨And.intro (Inv0.of_eq hi rfl rfl) rfl, by simp⟩
    | some is =>
      have hg : IGood is := hi.2 _ (mem_of_lookup h2)
      have hf := hi.1 _ (mem_of_lookup h1)
      have a1 : (st.all fun f => f.nonNil) = true := by
        simp only [List.all_eq_true]; intro f hfm; exact (hf f hfm).1
      have a2 : (st.all fun f => f.nonNil && f.hasToken) = true := by
        simp only [List.all_eq_true, Bool.and_eq_true]; intro f hfm; exact hf f hfm
      simp only [wp_bind, wp_deref, a1, a2, true_and]
      have he : errEncodable repaired is = true := by simp [errEncodable, repaired]
      cases hr : is.running
      · simp only [Bool.false_eq_true, ↓reduceIte, wp_bind, wp_deref, hg.1, hg.2, true_and, he, wp_pure]
        exact ⟨And.intro (Inv0.of_eq hi rfl rfl) rfl, by simp⟩
      · simp only [↓reduceIte, wp_bind, wp_pure, he]
        exact ⟨And.intro (Inv0.of_eq hi rfl rfl) rfl, by simp⟩

theorem extractValue_safe (tid : Nat) (v d : Str) (hi : Inv0 s) (hl : s.lock = 0) :
    wp (extractValue tid v d) Post s := by
  simp only [extractValue, wp_bind, wp_getS]
  rw [wp_ite]
  refine ⟨fun _ => And.intro hi hl, fun _ => ?_⟩
  simp only [wp_locked, wp_bind, wp_getS, hl, true_and]
  cases h2 : s.istates.lookup tid with
  | none => leaf hi
  | some is =>
    have hg : IGood is := hi.2 _ (mem_of_lookup h2)
    simp only
    rw [wp_ite]
    refine ⟨fun _ => by leaf hi, fun _ => ?_⟩
    simp only [wp_bind, wp_deref, hg.2, true_and]
    rw [wp_ite]
    refine ⟨fun _ => by leaf hi, fun _ => by leaf hi⟩

@[simp] theorem wp_evalExpr (o : EvalOutcome) (Q : Bool → DbgState → Prop) (s : DbgState) :
    wp (evalExpr o) Q s ↔
      match o with
      | .ok => Q true s
      | .error => Q false s
      | .visits r => s.lock = 0 ∧ Q r s
      | .diverges => Inv0 s ∧ s.lock = 0 := by
  cases o with
  | ok => rfl
  | error => rfl
  | diverges => rfl
  | visits r =>
    simp only [wp, evalExpr]
    by_cases h : s.lock = 0 <;> simp [h]

theorem setInThread_safe (env : Env) (tid : Nat) (v : Str) (t : DbgState) {is : Interro}
    (hi : Inv0 s) (hg : IGood is) :
    wp (setInThread env tid v t is) (fun a s' => Post a { s' with lock := s'.lock - 1 }) { s with lock := 1 } := by
  simp only [setInThread, wp_bind, wp_deref, hg.2, true_and]
  rw [wp_ite]
  refine ⟨fun _ => by leaf hi, fun _ => ?_⟩
  rw [wp_ite]
  refine ⟨fun _ => by leaf hi, fun _ => ?_⟩
  rw [wp_ite]
  refine ⟨fun _ => by leaf hi, fun _ => ?_⟩
  simp only [wp_bind, wp_modS, wp_pure]
  exact And.intro (Inv0.put_istate hi rfl (tid := tid) (is := { is with hasVs := true, locals := v :: is.locals }) (And.intro hg.1 rfl) rfl) rfl

theorem injectSecond_safe (env : Env) (tid : Nat) (v : Str) (hi : Inv0 s) (hl : s.lock = 0) :
    wp (injectSecond env tid v) Post s := by
  simp only [injectSecond, wp_locked, wp_bind, wp_getS, hl, true_and]
  cases h2 : s.istates.lookup tid with
  | none => leaf hi
  | some is =>
    have hg : IGood is := hi.2 _ (mem_of_lookup h2)
    simp only
    rw [wp_ite]
    exact ⟨fun _ => by leaf hi, fun _ => setInThread_safe env tid v _ hi hg⟩

theorem injectValue_safe (env : Env) (tid : Nat) (v e : Str) (hi : Inv0 s) (hl : s.lock = 0) :
    wp (injectValue repaired env tid v e) Post s := by
  simp only [injectValue, wp_bind, wp_getS]
  rw [wp_ite]
  refine ⟨fun _ => And.intro hi hl, fun _ => ?_⟩
  simp only [repaired, ↓reduceIte, wp_bind, wp_locked, wp_getS, hl, true_and]
  have second : ∀ t : DbgState, Inv0 t → t.lock = 0 → ∀ b : Bool, wp (if (!b) = true then (pure true : M Bool) else do
        let ok ← evalExpr (env.eval e)
        if (!ok) = true then pure true
        else injectSecond env tid v) Post t := by
    intro t hi hl b
    rw [wp_ite]
    refine ⟨fun _ => And.intro hi hl, fun _ => ?_⟩
    simp only [wp_bind, wp_evalExpr]
    have third : ∀ ok : Bool, wp (if (!ok) = true then (pure true : M Bool)
        else injectSecond env tid v) Post t := by
      intro ok
      rw [wp_ite]
      exact ⟨fun _ => And.intro hi hl, fun _ => injectSecond_safe env tid v hi hl⟩
    cases env.eval e with
    | ok => exact third true
    | error => exact third false
    | visits r => exact ⟨hl, third r⟩
    | diverges => exact ⟨hi, hl⟩
  cases h2 : s.istates.lookup tid with
  | none =>
    simp only [wp_pure]
    refine second _ ?_ ?_ false
    · exact Inv0.of_eq hi rfl rfl
    · rfl
  | some is =>
    simp only [wp_pure]
    refine second _ ?_ ?_ (!is.running)
    · exact Inv0.of_eq hi rfl rfl
    · rfl

end Ecal.DebugCmd

namespace Ecal.DebugCmd
variable {s : DbgState}

theorem wp_idx_lt {α : Type} {l : List α} {i : Nat} {site : String} {Q : α → DbgState → Prop}
    (h : i < l.length) (hq : Q l[i] s) : wp (idx l i site) Q s := by
  rw [wp_idx]; exact ⟨l[i], by simp [h], hq⟩

/-- post-condition of a command's `Run`: good state, lock free, a result json.Marshal accepts -/
def PostO : Out → DbgState → Prop := fun o s' => Post o s' ∧ o.1 ≠ .unencodable

theorem pure_safe (o : Out) (ho : o.1 ≠ .unencodable) (hi : Inv0 s) (hl : s.lock = 0) : wp (pure o : M Out) PostO s :=
  And.intro (And.intro hi hl) ho

theorem toO {m : M Unit} (h : wp m (fun _ s' => Post () s') s) (o : Out) (ho : o.1 ≠ .unencodable) :
    wp m (fun _ s' => PostO o s') s := wp_mono h (fun _ _ h => ⟨h, ho⟩)

theorem runSetBreak_safe (v : Bool) (args : List Str) (hi : Inv0 s) (hl : s.lock = 0) :
    wp (runSetBreak v args) PostO s := by
  unfold runSetBreak
  rw [wp_ite]
  refine ⟨fun _ => pure_safe _ (by decide) hi hl, fun h0 => ?_⟩
  simp only [wp_bind]
  apply wp_idx_lt (by omega)
  try simp only []
  rw [wp_ite]
  refine ⟨fun h1 => ?_, fun _ => pure_safe _ (by decide) hi hl⟩
  simp only [wp_bind]
  apply wp_idx_lt h1
  split
  · simp only [wp_bind]
    apply wp_idx_lt (by omega)
    simp only [wp_pure]
    exact toO (setBreakPoint_safe _ _ _ hi hl ()) _ (by decide)
  · exact pure_safe _ (by decide) hi hl

theorem runRmBreak_safe (args : List Str) (hi : Inv0 s) (hl : s.lock = 0) :
    wp (runRmBreak args) PostO s := by
  unfold runRmBreak
  rw [wp_ite]
  refine ⟨fun _ => pure_safe _ (by decide) hi hl, fun h0 => ?_⟩
  simp only [wp_bind]
  apply wp_idx_lt (by omega)
  try simp only []
  rw [wp_ite]
  refine ⟨fun h1 => ?_, fun _ => ?_⟩
  · simp only [wp_bind]
    apply wp_idx_lt h1
    split
    · simp only [wp_bind]
      apply wp_idx_lt (by omega)
      simp only [wp_pure]
      exact toO (removeBreakPoint_safe _ _ hi hl ()) _ (by decide)
    · exact pure_safe _ (by decide) hi hl
  · simp only [wp_bind]
    apply wp_idx_lt (by omega)
    simp only [wp_pure]
    exact toO (removeBreakPoint_safe _ _ hi hl ()) _ (by decide)

theorem runBreakOnStart_safe (args : List Str) (hi : Inv0 s) (hl : s.lock = 0) :
    wp (runBreakOnStart args) PostO s := by
  unfold runBreakOnStart
  rw [wp_ite]
  refine ⟨fun h0 => ?_, fun _ => ?_⟩
  · simp only [wp_bind]
    apply wp_idx_lt h0
    simp only [wp_pure]
    exact toO (breakOnStart_safe _ hi hl ()) _ (by decide)
  · simp only [wp_bind, wp_pure]
    exact toO (breakOnStart_safe _ hi hl ()) _ (by decide)

theorem runCont_safe (args : List Str) (hi : Inv0 s) (hl : s.lock = 0) :
    wp (runCont repaired args) PostO s := by
  unfold runCont
  rw [wp_ite]
  refine ⟨fun _ => pure_safe _ (by decide) hi hl, fun h0 => ?_⟩
  have h2 : args.length = 2 := by omega
  simp only [wp_bind]
  apply wp_idx_lt (by omega)
  split
  · exact pure_safe _ (by decide) hi hl
  · simp only [wp_bind]
    apply wp_idx_lt (by omega)
    repeat' (rw [wp_ite]; refine ⟨fun _ => ?_, fun _ => ?_⟩)
    all_goals first
      | exact pure_safe _ (by decide) hi hl
      | (simp only [wp_bind, wp_pure]; exact toO (continueThread_safe _ _ hi hl ()) _ (by decide))

theorem runDescribe_safe (args : List Str) (hi : Inv0 s) (hl : s.lock = 0) :
    wp (runDescribe repaired args) PostO s := by
  unfold runDescribe
  rw [wp_ite]
  refine ⟨fun _ => pure_safe _ (by decide) hi hl, fun h0 => ?_⟩
  simp only [wp_bind]
  apply wp_idx_lt (by omega)
  split
  · exact pure_safe _ (by decide) hi hl
  · exact describeThread_safe _ hi hl

theorem runExtract_safe (args : List Str) (hi : Inv0 s) (hl : s.lock = 0) :
    wp (runExtract args) PostO s := by
  unfold runExtract
  rw [wp_ite]
  refine ⟨fun _ => pure_safe _ (by decide) hi hl, fun h0 => ?_⟩
  simp only [wp_bind]
  apply wp_idx_lt (by omega)
  split
  · exact pure_safe _ (by decide) hi hl
  · simp only [wp_bind]
    apply wp_idx_lt (by omega)
    apply wp_idx_lt (by omega)
    rw [wp_ite]
    refine ⟨fun _ => pure_safe _ (by decide) hi hl, fun _ => ?_⟩
    simp only [wp_bind, wp_pure]
    exact wp_mono (extractValue_safe _ _ _ hi hl) (fun _ _ h => ⟨h, by simp⟩)

theorem runInject_safe (env : Env) (args : List Str) (hi : Inv0 s) (hl : s.lock = 0) :
    wp (runInject repaired env args) PostO s := by
  unfold runInject
  rw [wp_ite]
  refine ⟨fun _ => pure_safe _ (by decide) hi hl, fun h0 => ?_⟩
  simp only [wp_bind]
  apply wp_idx_lt (by omega)
  split
  · exact pure_safe _ (by decide) hi hl
  · simp only [wp_bind]
    apply wp_idx_lt (by omega)
    rw [wp_sliceFrom]
    refine ⟨by omega, ?_⟩
    simp only [wp_pure]
    exact wp_mono (injectValue_safe _ _ _ _ hi hl) (fun _ _ h => ⟨h, by simp⟩)

theorem run_safe (env : Env) (c : Cmd) (args : List Str) (hi : Inv0 s) (hl : s.lock = 0) :
    wp (c.run repaired env args) PostO s := by
  cases c <;> simp only [Cmd.run]
  · exact runSetBreak_safe _ _ hi hl
  · exact runBreakOnStart_safe _ hi hl
  · exact runCont_safe _ hi hl
  · exact runDescribe_safe _ hi hl
  · exact runSetBreak_safe _ _ hi hl
  · exact runExtract_safe _ hi hl
  · exact runInject_safe _ _ hi hl
  · exact lockState_safe hi hl
  · exact runRmBreak_safe _ hi hl
  · exact wp_mono (statusOf_safe hi hl) (fun _ _ h => ⟨h.1, by rw [h.2]; decide⟩)

/-- HandleInput returns normally from every good state, for every input line -/
theorem handleInput_safe (env : Env) (line : Str) (hi : Inv0 s) (hl : s.lock = 0) :
    wp (handleInput repaired env line) PostO s := by
  unfold handleInput
  try simp only []
  rw [wp_ite]
  refine ⟨fun h0 => ?_, fun _ => pure_safe _ (by decide) hi hl⟩
  simp only [wp_bind]
  apply wp_idx_lt h0
  split
  · rw [wp_ite]
    refine ⟨fun h1 => ?_, fun _ => run_safe _ _ _ hi hl⟩
    simp only [wp_bind]
    rw [wp_sliceFrom]
    exact ⟨by omega, run_safe _ _ _ hi hl⟩
  · exact pure_safe _ (by decide) hi hl

end Ecal.DebugCmd
