import Ecal.Model.Priority
/-!
The worker loop of the `Cascade` model: every queued event is eventually started, and the events a
rule adds are queued whether or not the rule then fails.
-/
namespace Ecal.Priority.Cascade
open Ecal.Priority.Book

/-- ids of the started events / of the queued events -/
def ids (s : St) : List Nat := s.started.map (·.1)
def qv (s : St) : List Nat := s.q.items.map (·.val)

theorem addEvent_view (cfg : Cfg) (s : St) (idx : Nat) (n : Node) :
    (addEvent cfg s idx n).started = s.started ∧ (addEvent cfg s idx n).errs = s.errs ∧
    qv (addEvent cfg s idx n) = if n.trig then qv s ++ [idx] else qv s := by
  unfold addEvent
  cases ht : n.trig <;> simp [qv, PQ.push]

theorem foldl_view (cfg : Cfg) : ∀ (L : List (Node × Nat)) (s : St),
    (L.foldl (fun s p => addEvent cfg s p.2 p.1) s).started = s.started ∧
    (L.foldl (fun s p => addEvent cfg s p.2 p.1) s).errs = s.errs ∧
    qv (L.foldl (fun s p => addEvent cfg s p.2 p.1) s) = qv s ++ (L.filter (·.1.trig)).map (·.2)
  | [], s => by simp
  | p :: L, s => by
    obtain ⟨h1, h2, h3⟩ := addEvent_view cfg s p.2 p.1
    obtain ⟨g1, g2, g3⟩ := foldl_view cfg L (addEvent cfg s p.2 p.1)
    simp only [List.foldl_cons]
    refine ⟨g1.trans h1, g2.trans h2, ?_⟩
    rw [g3, h3]
    cases ht : p.1.trig <;> simp [List.filter_cons, ht]

/-- the triggering events selected by `sel` -/
def kids (nodes : List Node) (sel : Node → Bool) : List Nat :=
  ((kidsOf nodes sel).filter (·.1.trig)).map (·.2)

theorem mem_kids {nodes : List Node} {sel : Node → Bool} {x : Nat} :
    x ∈ kids nodes sel ↔ ∃ n, nodes[x]? = some n ∧ sel n = true ∧ n.trig = true := by
  unfold kids kidsOf
  simp only [List.mem_map, List.mem_filter, List.mem_zipIdx_iff_getElem?]
  constructor
  · rintro ⟨⟨n, i⟩, ⟨⟨h1, h2⟩, h3⟩, rfl⟩; exact ⟨n, h1, h2, h3⟩
  · rintro ⟨n, h1, h2, h3⟩; exact ⟨(n, x), ⟨⟨h1, h2⟩, h3⟩, rfl⟩

theorem kids_nodup (nodes : List Node) (sel : Node → Bool) : (kids nodes sel).Nodup := by
  unfold kids kidsOf
  have h : (nodes.zipIdx.map (·.2)).Nodup := by
    rw [List.zipIdx_map_snd]; exact List.nodup_range' 1
  exact ((List.filter_sublist.trans List.filter_sublist).map _).nodup h

theorem addAll_view (cfg : Cfg) (nodes : List Node) (sel : Node → Bool) (s : St) :
    (addAll cfg nodes sel s).started = s.started ∧ (addAll cfg nodes sel s).errs = s.errs ∧
    qv (addAll cfg nodes sel s) = qv s ++ kids nodes sel :=
  foldl_view cfg (kidsOf nodes sel) s

theorem minItem_mem : ∀ {l : List Item} {m : Item}, minItem l = some m → m ∈ l
  | [], _, h => by simp [minItem] at h
  | x :: xs, m, h => by
    unfold minItem at h
    split at h
    · cases h; simp
    · rename_i m' hm'
      split at h <;> cases h
      · exact List.mem_cons_of_mem _ (minItem_mem hm')
      · simp

theorem minItem_none : ∀ {l : List Item}, minItem l = none → l = []
  | [], _ => rfl
  | x :: xs, h => by
    unfold minItem at h
    split at h
    · cases h
    · split at h <;> cases h

theorem map_erase_facts {l : List Item} {a : Item} (hnd : (l.map (·.val)).Nodup) (ha : a ∈ l) :
    a.val ∉ (l.erase a).map (·.val) ∧
    ∀ x ∈ l.map (·.val), x ≠ a.val → x ∈ (l.erase a).map (·.val) := by
  induction l with
  | nil => simp at ha
  | cons b bs ih =>
    simp only [List.map_cons, List.nodup_cons] at hnd
    by_cases hba : b = a
    · subst hba
      simp only [List.erase_cons_head]
      refine ⟨hnd.1, ?_⟩
      intro x hx hne
      simp at hx
      rcases hx with rfl | hx
      · exact absurd rfl hne
      · simpa using hx
    · have ha' : a ∈ bs := by
        rcases List.mem_cons.mp ha with h | h
        · exact absurd h.symm hba
        · exact h
      have hba' : (b == a) = false := by simpa using hba
      simp only [List.erase_cons, hba', Bool.false_eq_true, if_false, List.map_cons, List.mem_cons]
      obtain ⟨i1, i2⟩ := ih hnd.2 ha'
      refine ⟨?_, ?_⟩
      · rintro (h | h)
        · exact hnd.1 (by rw [← h]; exact List.mem_map_of_mem ha')
        · exact i1 h
      · intro x hx hne
        rcases hx with rfl | hx
        · exact Or.inl rfl
        · exact Or.inr (i2 x hx hne)

/-- the loop invariant -/
structure LInv (nodes : List Node) (s : St) : Prop where
  n1 : (ids s).Nodup
  n2 : (qv s).Nodup
  n3 : ∀ x ∈ ids s, x ∉ qv s
  bnd : ∀ x, x ∈ ids s ∨ x ∈ qv s → x < nodes.length
  par : ∀ x, x ∈ ids s ∨ x ∈ qv s → ∀ nx p, nodes[x]? = some nx → nx.parent = some p → p ∈ ids s
  clo : ∀ i ∈ ids s, ∀ c nc, nodes[c]? = some nc → nc.parent = some i → nc.trig = true →
          c ∈ ids s ∨ c ∈ qv s
  err : ∀ i ∈ ids s, (nodes[i]?.map (·.fails)).getD false = true → i ∈ s.errs
  ext : ∀ c nc, nodes[c]? = some nc → nc.parent = none → nc.trig = true → c ∈ ids s ∨ c ∈ qv s

theorem ids_length_le {nodes : List Node} {s : St} (h : LInv nodes s) : (ids s).length ≤ nodes.length := by
  have := h.n1.length_le_of_subset (l₂ := List.range nodes.length)
    (by intro x hx; exact List.mem_range.mpr (h.bnd x (Or.inl hx)))
  simpa using this

theorem loop_spec (cfg : Cfg) (nodes : List Node) : ∀ fuel (s : St), LInv nodes s →
    nodes.length + 1 ≤ fuel + (ids s).length →
    LInv nodes (loop cfg nodes fuel s) ∧ qv (loop cfg nodes fuel s) = [] := by
  intro fuel
  induction fuel with
  | zero =>
    intro s h hf
    have := ids_length_le h
    omega
  | succ f ih =>
    intro s h hf
    unfold loop
    split
    · rename_i hpop
      refine ⟨h, ?_⟩
      unfold PQ.pop at hpop
      split at hpop
      · rename_i hm; simp [qv, minItem_none hm]
      · cases hpop
    · rename_i it q' hpop
      have hit : it ∈ s.q.items ∧ q'.items = s.q.items.erase it := by
        unfold PQ.pop at hpop
        split at hpop
        · cases hpop
        · rename_i m hm; cases hpop; exact ⟨minItem_mem hm, rfl⟩
      obtain ⟨hmem, hq'⟩ := hit
      have hidq : it.val ∈ qv s := List.mem_map_of_mem hmem
      obtain ⟨e1, e2⟩ := map_erase_facts h.n2 hmem
      -- the state after the action has added its children
      simp only
      generalize hs1 : ({ s with q := q', started := (it.val, highestPriority s.rm) :: s.started } : St) = s1
      obtain ⟨v1, v2, v3⟩ := addAll_view cfg nodes (fun n => n.parent == some it.val) s1
      generalize hs2 : addAll cfg nodes (fun n => n.parent == some it.val) s1 = s2 at v1 v2 v3 ⊢
      have hids1 : ids s1 = it.val :: ids s := by rw [← hs1]; rfl
      have hqv1 : qv s1 = (s.q.items.erase it).map (·.val) := by rw [← hs1]; simp [qv, hq']
      have hsub : ∀ x ∈ qv s1, x ∈ qv s := by
        intro x hx; rw [hqv1] at hx
        exact (List.erase_sublist.map _).subset hx
      have hkid : ∀ x, x ∈ kids nodes (fun n => n.parent == some it.val) ↔
          ∃ n, nodes[x]? = some n ∧ n.parent = some it.val ∧ n.trig = true := by
        intro x; rw [mem_kids]; simp
      have hnotin : it.val ∉ ids s := fun hx => h.n3 _ hx hidq
      -- the final state of this iteration differs from s2 only in rm / errs / bad
      have key : ∀ s3 : St, ids s3 = it.val :: ids s →
          qv s3 = qv s1 ++ kids nodes (fun n => n.parent == some it.val) →
          (s3.errs = if (nodes[it.val]?.map (·.fails)).getD false then it.val :: s.errs else s.errs) →
          LInv nodes s3 := by
        intro s3 hids3 hqv3 herr3
        refine ⟨?_, ?_, ?_, ?_, ?_, ?_, ?_, ?_⟩
        · rw [hids3]; exact List.nodup_cons.mpr ⟨hnotin, h.n1⟩
        · rw [hqv3, List.nodup_append]
          refine ⟨by rw [hqv1]; exact (List.erase_sublist.map _).nodup h.n2, kids_nodup _ _, ?_⟩
          intro a ha b hb hab
          subst hab
          obtain ⟨n, hn, hp, _⟩ := (hkid a).mp hb
          exact hnotin (h.par a (Or.inr (hsub a ha)) n _ hn hp)
        · intro x hx hxq
          rw [hids3] at hx; rw [hqv3, List.mem_append] at hxq
          rcases List.mem_cons.mp hx with rfl | hx
          · rcases hxq with hxq | hxq
            · rw [hqv1] at hxq; exact e1 hxq
            · obtain ⟨n, hn, hp, _⟩ := (hkid _).mp hxq
              exact hnotin (h.par _ (Or.inr hidq) n _ hn hp)
          · rcases hxq with hxq | hxq
            · exact h.n3 x hx (hsub x hxq)
            · obtain ⟨n, hn, hp, _⟩ := (hkid _).mp hxq
              exact hnotin (h.par x (Or.inl hx) n _ hn hp)
        · intro x hx
          rw [hids3, hqv3, List.mem_cons, List.mem_append] at hx
          rcases hx with (rfl | hx) | (hx | hx)
          · exact h.bnd _ (Or.inr hidq)
          · exact h.bnd x (Or.inl hx)
          · exact h.bnd x (Or.inr (hsub x hx))
          · obtain ⟨n, hn, _, _⟩ := (hkid _).mp hx
            exact (List.getElem?_eq_some_iff.mp hn).1
        · intro x hx nx p hnx hp
          rw [hids3, hqv3, List.mem_cons, List.mem_append] at hx
          rw [hids3]
          rcases hx with (rfl | hx) | (hx | hx)
          · exact List.mem_cons_of_mem _ (h.par _ (Or.inr hidq) nx p hnx hp)
          · exact List.mem_cons_of_mem _ (h.par x (Or.inl hx) nx p hnx hp)
          · exact List.mem_cons_of_mem _ (h.par x (Or.inr (hsub x hx)) nx p hnx hp)
          · obtain ⟨n, hn, hp', _⟩ := (hkid _).mp hx
            rw [hnx] at hn; cases hn
            rw [hp] at hp'; cases hp'
            exact List.mem_cons_self
        · intro i hi c nc hc hp ht
          rw [hids3] at hi ⊢
          rw [hqv3, List.mem_append]
          rcases List.mem_cons.mp hi with rfl | hi
          · exact Or.inr (Or.inr ((hkid c).mpr ⟨nc, hc, hp, ht⟩))
          · rcases h.clo i hi c nc hc hp ht with hcs | hcq
            · exact Or.inl (List.mem_cons_of_mem _ hcs)
            · by_cases hce : c = it.val
              · exact Or.inl (by rw [hce]; exact List.mem_cons_self)
              · exact Or.inr (Or.inl (by rw [hqv1]; exact e2 c hcq hce))
        · intro i hi hf
          rw [hids3] at hi; rw [herr3]
          rcases List.mem_cons.mp hi with rfl | hi
          · simp [hf]
          · have := h.err i hi hf
            split
            · exact List.mem_cons_of_mem _ this
            · exact this
        · intro c nc hc hp ht
          rw [hids3, hqv3, List.mem_append]
          rcases h.ext c nc hc hp ht with hcs | hcq
          · exact Or.inl (List.mem_cons_of_mem _ hcs)
          · by_cases hce : c = it.val
            · exact Or.inl (by rw [hce]; exact List.mem_cons_self)
            · exact Or.inr (Or.inl (by rw [hqv1]; exact e2 c hcq hce))
      have hidsF : ∀ (r : RM) (e : List Nat) (b : Bool),
          ids ({ s2 with rm := r, errs := e, bad := b } : St) = it.val :: ids s := by
        intro r e b; simp only [ids]; rw [v1]; exact hids1
      apply ih
      · apply key
        · exact hidsF _ _ _
        · exact v3
        · simp only; rw [v2, ← hs1]
      · rw [hidsF]; simp; omega

theorem init_inv (cfg : Cfg) (nodes : List Node) :
    LInv nodes (addAll cfg nodes (fun n => n.parent.isNone) {}) := by
  obtain ⟨v1, v2, v3⟩ := addAll_view cfg nodes (fun n => n.parent.isNone) {}
  have hids : ids (addAll cfg nodes (fun n => n.parent.isNone) {}) = [] := by simp [ids, v1]
  have hqv : qv (addAll cfg nodes (fun n => n.parent.isNone) {}) = kids nodes (fun n => n.parent.isNone) := by
    rw [v3]; simp [qv]
  refine ⟨by rw [hids]; simp, by rw [hqv]; exact kids_nodup _ _, by rw [hids]; simp, ?_, ?_,
    by rw [hids]; simp, by rw [hids]; simp, ?_⟩
  rotate_left 2
  · intro c nc hc hp ht
    rw [hqv]
    exact Or.inr (mem_kids.mpr ⟨nc, hc, by simp [hp], ht⟩)
  · intro x hx
    rw [hids, hqv] at hx
    rcases hx with hx | hx
    · simp at hx
    · obtain ⟨n, hn, _, _⟩ := mem_kids.mp hx
      exact (List.getElem?_eq_some_iff.mp hn).1
  · intro x hx nx p hnx hp
    rw [hids, hqv] at hx
    rcases hx with hx | hx
    · simp at hx
    · obtain ⟨n, hn, hsel, _⟩ := mem_kids.mp hx
      rw [hnx] at hn; cases hn
      simp [hp] at hsel

/-- the run of a script ends with an empty queue and satisfies the invariant -/
theorem runScript_spec (cfg : Cfg) (nodes : List Node) :
    LInv nodes (runScript cfg nodes) ∧ qv (runScript cfg nodes) = [] := by
  unfold runScript
  apply loop_spec cfg nodes _ _ (init_inv cfg nodes)
  have : ids (addAll cfg nodes (fun n => n.parent.isNone) {}) = [] := by
    simp [ids, (addAll_view cfg nodes (fun n => n.parent.isNone) {}).1]
  rw [this]; simp

theorem external_started (cfg : Cfg) (nodes : List Node) (c : Nat) (nc : Node)
    (hc : nodes[c]? = some nc) (hp : nc.parent = none) (ht : nc.trig = true) :
    c ∈ (runScript cfg nodes).started.map (·.1) := by
  obtain ⟨hI, hq⟩ := runScript_spec cfg nodes
  rcases hI.ext c nc hc hp ht with h | h
  · exact h
  · rw [hq] at h; cases h

end Ecal.Priority.Cascade
