import Ecal.Model.Priority
/-!
The worker loop of the `Cascade` model: every queued event is eventually started, and the events a
rule adds are queued whether or not the rule then fails.
-/
namespace Ecal.Priority.Cascade
open Ecal.Priority.Book

/-- events taken by the worker / queued events / started (event, rule) pairs -/
def ids (s : St) : List Nat := s.popped
def qv (s : St) : List Nat := s.q.items.map (·.val)
def sr (s : St) : List (Nat × Nat) := s.started.map (·.1)

theorem addEvent_view (cfg : Cfg) (s : St) (idx : Nat) (n : Node) :
    (addEvent cfg s idx n).started = s.started ∧ (addEvent cfg s idx n).errs = s.errs ∧
    (addEvent cfg s idx n).popped = s.popped ∧
    qv (addEvent cfg s idx n) = if n.trig then qv s ++ [idx] else qv s := by
  unfold addEvent
  cases ht : n.trig <;> simp [qv, PQ.push]

theorem foldl_view (cfg : Cfg) : ∀ (L : List (Node × Nat)) (s : St),
    (L.foldl (fun s p => addEvent cfg s p.2 p.1) s).started = s.started ∧
    (L.foldl (fun s p => addEvent cfg s p.2 p.1) s).errs = s.errs ∧
    (L.foldl (fun s p => addEvent cfg s p.2 p.1) s).popped = s.popped ∧
    qv (L.foldl (fun s p => addEvent cfg s p.2 p.1) s) = qv s ++ (L.filter (·.1.trig)).map (·.2)
  | [], s => by simp
  | p :: L, s => by
    obtain ⟨h1, h2, h0, h3⟩ := addEvent_view cfg s p.2 p.1
    obtain ⟨g1, g2, g0, g3⟩ := foldl_view cfg L (addEvent cfg s p.2 p.1)
    simp only [List.foldl_cons]
    refine ⟨g1.trans h1, g2.trans h2, g0.trans h0, ?_⟩
    rw [g3, h3]
    cases ht : p.1.trig <;> simp [List.filter_cons, ht]

/-- the triggering events selected by `sel` -/
def kids (nodes : List Node) (sel : Node → Bool) : List Nat :=
  ((kidsOf nodes sel).filter (·.1.trig)).map (·.2)

theorem mem_kids {nodes : List Node} {sel : Node → Bool} {x : Nat} :
    x ∈ kids nodes sel ↔ ∃ n, nodes[x]? = some n ∧ sel n = true ∧ n.trig = true := by
  unfold kids kidsOf
  simp only [List.mem_map, List.mem_filter, List.mem_zipIdx_iff_getElem?]
  constructor
  · rintro ⟨⟨n, i⟩, ⟨⟨h1, h2⟩, h3⟩, rfl⟩; exact ⟨n, h1, h2, h3⟩
  · rintro ⟨n, h1, h2, h3⟩; exact ⟨(n, x), ⟨⟨h1, h2⟩, h3⟩, rfl⟩

theorem kids_nodup (nodes : List Node) (sel : Node → Bool) : (kids nodes sel).Nodup := by
  unfold kids kidsOf
  have h : (nodes.zipIdx.map (·.2)).Nodup := by
    rw [List.zipIdx_map_snd]; exact List.nodup_range' 1
  exact ((List.filter_sublist.trans List.filter_sublist).map _).nodup h

theorem addAll_view (cfg : Cfg) (nodes : List Node) (sel : Node → Bool) (s : St) :
    (addAll cfg nodes sel s).started = s.started ∧ (addAll cfg nodes sel s).errs = s.errs ∧
    (addAll cfg nodes sel s).popped = s.popped ∧
    qv (addAll cfg nodes sel s) = qv s ++ kids nodes sel :=
  foldl_view cfg (kidsOf nodes sel) s

/-- the events added by the action of rule `k` of event `e` -/
def kidsOfRule (nodes : List Node) (e k : Nat) : List Nat :=
  kids nodes (fun n => n.parent == some (e, k))

theorem mem_kidsOfRule {nodes : List Node} {e k x : Nat} :
    x ∈ kidsOfRule nodes e k ↔ ∃ n, nodes[x]? = some n ∧ n.parent = some (e, k) ∧ n.trig = true := by
  unfold kidsOfRule; rw [mem_kids]; simp

theorem runRules_view (cfg : Cfg) (nodes : List Node) (idx : Nat) : ∀ (ex : List Rule) (s : St),
    sr (ex.foldl (runRule cfg nodes idx) s) = (ex.map fun r => (idx, r.name)).reverse ++ sr s ∧
    (ex.foldl (runRule cfg nodes idx) s).errs = s.errs ∧
    (ex.foldl (runRule cfg nodes idx) s).popped = s.popped ∧
    qv (ex.foldl (runRule cfg nodes idx) s) = qv s ++ ex.flatMap (fun r => kidsOfRule nodes idx r.name)
  | [], s => by simp
  | r :: ex, s => by
    obtain ⟨v1, v2, v0, v3⟩ := addAll_view cfg nodes (fun n => n.parent == some (idx, r.name))
      { s with started := ((idx, r.name), highestPriority s.rm) :: s.started }
    obtain ⟨g1, g2, g0, g3⟩ := runRules_view cfg nodes idx ex (runRule cfg nodes idx s r)
    simp only [List.foldl_cons]
    refine ⟨?_, g2.trans v2, g0.trans v0, ?_⟩
    · rw [g1]; simp only [sr, runRule]; rw [v1]; simp
    · rw [g3]; simp only [runRule]; rw [v3]; simp [qv, kidsOfRule]

theorem execLoop_sublist (f : Bool) : ∀ (l errs : List Rule), (execLoop f l errs).1.Sublist l
  | [], _ => by simp [execLoop]
  | r :: rs, errs => by
    unfold execLoop
    simp only
    repeat' split
    all_goals first
      | exact List.Sublist.cons_cons r (List.nil_sublist rs)
      | exact List.Sublist.cons_cons r (execLoop_sublist f rs _)

/-- names of the rules of event `e` whose action is started / that are in the error map -/
def execNames (sort : List Rule → List Rule) (flag : Bool) (nodes : List Node) (e : Nat) : List Nat :=
  (processRules sort flag (rulesOf nodes e)).1.map (·.name)
def errNames (sort : List Rule → List Rule) (flag : Bool) (nodes : List Node) (e : Nat) : List Nat :=
  (processRules sort flag (rulesOf nodes e)).2.map (·.name)

theorem rulesOf_names_nodup (nodes : List Node) (e : Nat) : ((rulesOf nodes e).map (·.name)).Nodup := by
  unfold rulesOf
  rw [List.map_map]
  have : ((fun r : Rule => r.name) ∘ fun p : (Int × Bool) × Nat => ({ name := p.2, prio := p.1.1, fails := p.1.2 } : Rule))
      = Prod.snd := by funext p; rfl
  rw [this, List.zipIdx_map_snd]
  exact List.nodup_range' 1

theorem execNames_nodup {sort : List Rule → List Rule} (hs : ∀ l, (sort l).Perm l) (flag : Bool)
    (nodes : List Node) (e : Nat) : (execNames sort flag nodes e).Nodup := by
  unfold execNames processRules
  have h1 : ((sort (rulesOf nodes e)).map (·.name)).Nodup :=
    ((hs _).map _).nodup_iff.mpr (rulesOf_names_nodup nodes e)
  exact ((execLoop_sublist flag _ _).map _).nodup h1

theorem minItem_mem : ∀ {l : List Item} {m : Item}, minItem l = some m → m ∈ l
  | [], _, h => by simp [minItem] at h
  | x :: xs, m, h => by
    unfold minItem at h
    split at h
    · cases h; simp
    · rename_i m' hm'
      split at h <;> cases h
      · exact List.mem_cons_of_mem _ (minItem_mem hm')
      · simp

theorem minItem_none : ∀ {l : List Item}, minItem l = none → l = []
  | [], _ => rfl
  | x :: xs, h => by
    unfold minItem at h
    split at h
    · cases h
    · split at h <;> cases h

theorem map_erase_facts {l : List Item} {a : Item} (hnd : (l.map (·.val)).Nodup) (ha : a ∈ l) :
    a.val ∉ (l.erase a).map (·.val) ∧
    ∀ x ∈ l.map (·.val), x ≠ a.val → x ∈ (l.erase a).map (·.val) := by
  induction l with
  | nil => simp at ha
  | cons b bs ih =>
    simp only [List.map_cons, List.nodup_cons] at hnd
    by_cases hba : b = a
    · subst hba
      simp only [List.erase_cons_head]
      refine ⟨hnd.1, ?_⟩
      intro x hx hne
      simp at hx
      rcases hx with rfl | hx
      · exact absurd rfl hne
      · simpa using hx
    · have ha' : a ∈ bs := by
        rcases List.mem_cons.mp ha with h | h
        · exact absurd h.symm hba
        · exact h
      have hba' : (b == a) = false := by simpa using hba
      simp only [List.erase_cons, hba', Bool.false_eq_true, if_false, List.map_cons, List.mem_cons]
      obtain ⟨i1, i2⟩ := ih hnd.2 ha'
      refine ⟨?_, ?_⟩
      · rintro (h | h)
        · exact hnd.1 (by rw [← h]; exact List.mem_map_of_mem ha')
        · exact i1 h
      · intro x hx hne
        rcases hx with rfl | hx
        · exact Or.inl rfl
        · exact Or.inr (i2 x hx hne)

/-- the loop invariant -/
structure LInv (sort : List Rule → List Rule) (flag : Bool) (nodes : List Node) (s : St) : Prop where
  n1 : (ids s).Nodup
  n2 : (qv s).Nodup
  n3 : ∀ x ∈ ids s, x ∉ qv s
  bnd : ∀ x, x ∈ ids s ∨ x ∈ qv s → x < nodes.length
  par : ∀ x, x ∈ ids s ∨ x ∈ qv s → ∀ nx e k, nodes[x]? = some nx → nx.parent = some (e, k) →
          e ∈ ids s ∧ k ∈ execNames sort flag nodes e
  trg : ∀ x, x ∈ ids s ∨ x ∈ qv s → ∀ nx, nodes[x]? = some nx → nx.trig = true
  clo : ∀ e ∈ ids s, ∀ k ∈ execNames sort flag nodes e, ∀ c nc, nodes[c]? = some nc →
          nc.parent = some (e, k) → nc.trig = true → c ∈ ids s ∨ c ∈ qv s
  ext : ∀ c nc, nodes[c]? = some nc → nc.parent = none → nc.trig = true → c ∈ ids s ∨ c ∈ qv s
  srs : ∀ e k, (e, k) ∈ sr s ↔ e ∈ ids s ∧ k ∈ execNames sort flag nodes e
  ers : ∀ e k, (e, k) ∈ s.errs ↔ e ∈ ids s ∧ k ∈ errNames sort flag nodes e

theorem ids_length_le {sort flag} {nodes : List Node} {s : St} (h : LInv sort flag nodes s) :
    (ids s).length ≤ nodes.length := by
  have := h.n1.length_le_of_subset (l₂ := List.range nodes.length)
    (by intro x hx; exact List.mem_range.mpr (h.bnd x (Or.inl hx)))
  simpa using this

theorem loop_spec (cfg : Cfg) (sort : List Rule → List Rule) (hsort : ∀ l, (sort l).Perm l)
    (flag : Bool) (nodes : List Node) : ∀ fuel (s : St), LInv sort flag nodes s →
    nodes.length + 1 ≤ fuel + (ids s).length →
    LInv sort flag nodes (loop cfg sort flag nodes fuel s) ∧ qv (loop cfg sort flag nodes fuel s) = [] := by
  intro fuel
  induction fuel with
  | zero =>
    intro s h hf
    have := ids_length_le h
    omega
  | succ f ih =>
    intro s h hf
    unfold loop
    split
    · rename_i hpop
      refine ⟨h, ?_⟩
      unfold PQ.pop at hpop
      split at hpop
      · rename_i hm; simp [qv, minItem_none hm]
      · cases hpop
    · rename_i it q' hpop
      have hit : it ∈ s.q.items ∧ q'.items = s.q.items.erase it := by
        unfold PQ.pop at hpop
        split at hpop
        · cases hpop
        · rename_i m hm; cases hpop; exact ⟨minItem_mem hm, rfl⟩
      obtain ⟨hmem, hq'⟩ := hit
      have hidq : it.val ∈ qv s := List.mem_map_of_mem hmem
      obtain ⟨e1, e2⟩ := map_erase_facts h.n2 hmem
      simp only
      generalize hs1 : ({ s with q := q', popped := it.val :: s.popped } : St) = s1
      obtain ⟨v1, v2, v0, v3⟩ := runRules_view cfg nodes it.val
        (processRules sort flag (rulesOf nodes it.val)).1 s1
      generalize hs2 : List.foldl (runRule cfg nodes it.val) s1
        (processRules sort flag (rulesOf nodes it.val)).1 = s2 at v1 v2 v0 v3 ⊢
      generalize hK : (processRules sort flag (rulesOf nodes it.val)).1.flatMap
        (fun r => kidsOfRule nodes it.val r.name) = K at v3
      have hqv1 : qv s1 = (s.q.items.erase it).map (·.val) := by rw [← hs1]; simp [qv, hq']
      have hsr1 : sr s1 = sr s := by rw [← hs1]; rfl
      have hsub : ∀ x ∈ qv s1, x ∈ qv s := by
        intro x hx; rw [hqv1] at hx
        exact (List.erase_sublist.map _).subset hx
      have hkid : ∀ x, x ∈ K ↔ ∃ k ∈ execNames sort flag nodes it.val,
          ∃ n, nodes[x]? = some n ∧ n.parent = some (it.val, k) ∧ n.trig = true := by
        intro x
        rw [← hK, List.mem_flatMap]
        constructor
        · rintro ⟨r, hr, hx⟩
          exact ⟨r.name, List.mem_map_of_mem hr, mem_kidsOfRule.mp hx⟩
        · rintro ⟨k, hk, hx⟩
          obtain ⟨r, hr, rfl⟩ := List.mem_map.mp hk
          exact ⟨r, hr, mem_kidsOfRule.mpr hx⟩
      have hKnd : K.Nodup := by
        rw [← hK]
        unfold List.Nodup
        rw [List.pairwise_flatMap]
        refine ⟨fun r _ => kids_nodup _ _, ?_⟩
        have hn := execNames_nodup hsort flag nodes it.val
        unfold execNames at hn
        have hn' := List.pairwise_map.mp hn
        refine hn'.imp ?_
        intro a b hab x hx y hy hxy
        subst hxy
        obtain ⟨n1, hn1, hp1, _⟩ := mem_kidsOfRule.mp hx
        obtain ⟨n2, hn2, hp2, _⟩ := mem_kidsOfRule.mp hy
        rw [hn1] at hn2; cases hn2
        rw [hp1] at hp2
        exact hab (by injection hp2 with h1; injection h1)
      have hnotin : it.val ∉ ids s := fun hx => h.n3 _ hx hidq
      -- the final state of this iteration differs from s2 only in rm / errs / bad
      have key : ∀ s3 : St, ids s3 = it.val :: ids s → qv s3 = qv s1 ++ K →
          sr s3 = ((processRules sort flag (rulesOf nodes it.val)).1.map fun r => (it.val, r.name)).reverse ++ sr s →
          s3.errs = (processRules sort flag (rulesOf nodes it.val)).2.map (fun r => (it.val, r.name)) ++ s.errs →
          LInv sort flag nodes s3 := by
        intro s3 hids3 hqv3 hsr3 herr3
        refine ⟨?_, ?_, ?_, ?_, ?_, ?_, ?_, ?_, ?_, ?_⟩
        · rw [hids3]; exact List.nodup_cons.mpr ⟨hnotin, h.n1⟩
        · rw [hqv3, List.nodup_append]
          refine ⟨by rw [hqv1]; exact (List.erase_sublist.map _).nodup h.n2, hKnd, ?_⟩
          intro a ha b hb hab
          subst hab
          obtain ⟨k, _, n, hn, hp, _⟩ := (hkid a).mp hb
          exact hnotin (h.par a (Or.inr (hsub a ha)) n _ _ hn hp).1
        · intro x hx hxq
          rw [hids3] at hx; rw [hqv3, List.mem_append] at hxq
          rcases List.mem_cons.mp hx with rfl | hx
          · rcases hxq with hxq | hxq
            · rw [hqv1] at hxq; exact e1 hxq
            · obtain ⟨k, _, n, hn, hp, _⟩ := (hkid _).mp hxq
              exact hnotin (h.par _ (Or.inr hidq) n _ _ hn hp).1
          · rcases hxq with hxq | hxq
            · exact h.n3 x hx (hsub x hxq)
            · obtain ⟨k, _, n, hn, hp, _⟩ := (hkid _).mp hxq
              exact hnotin (h.par x (Or.inl hx) n _ _ hn hp).1
        · intro x hx
          rw [hids3, hqv3, List.mem_cons, List.mem_append] at hx
          rcases hx with (rfl | hx) | (hx | hx)
          · exact h.bnd _ (Or.inr hidq)
          · exact h.bnd x (Or.inl hx)
          · exact h.bnd x (Or.inr (hsub x hx))
          · obtain ⟨k, _, n, hn, _, _⟩ := (hkid _).mp hx
            exact (List.getElem?_eq_some_iff.mp hn).1
        · intro x hx nx e k hnx hp
          rw [hids3, hqv3, List.mem_cons, List.mem_append] at hx
          rw [hids3]
          rcases hx with (rfl | hx) | (hx | hx)
          · have := h.par _ (Or.inr hidq) nx e k hnx hp
            exact ⟨List.mem_cons_of_mem _ this.1, this.2⟩
          · have := h.par x (Or.inl hx) nx e k hnx hp
            exact ⟨List.mem_cons_of_mem _ this.1, this.2⟩
          · have := h.par x (Or.inr (hsub x hx)) nx e k hnx hp
            exact ⟨List.mem_cons_of_mem _ this.1, this.2⟩
          · obtain ⟨k', hk', n, hn, hp', _⟩ := (hkid _).mp hx
            rw [hnx] at hn; cases hn
            rw [hp] at hp'; cases hp'
            exact ⟨List.mem_cons_self, hk'⟩
        · intro x hx nx hnx
          rw [hids3, hqv3, List.mem_cons, List.mem_append] at hx
          rcases hx with (rfl | hx) | (hx | hx)
          · exact h.trg _ (Or.inr hidq) nx hnx
          · exact h.trg x (Or.inl hx) nx hnx
          · exact h.trg x (Or.inr (hsub x hx)) nx hnx
          · obtain ⟨k', _, n, hn, _, ht⟩ := (hkid _).mp hx
            rw [hnx] at hn; cases hn; exact ht
        · intro e he k hk c nc hc hp ht
          rw [hids3] at he ⊢
          rw [hqv3, List.mem_append]
          rcases List.mem_cons.mp he with rfl | he
          · exact Or.inr (Or.inr ((hkid c).mpr ⟨k, hk, nc, hc, hp, ht⟩))
          · rcases h.clo e he k hk c nc hc hp ht with hcs | hcq
            · exact Or.inl (List.mem_cons_of_mem _ hcs)
            · by_cases hce : c = it.val
              · exact Or.inl (by rw [hce]; exact List.mem_cons_self)
              · exact Or.inr (Or.inl (by rw [hqv1]; exact e2 c hcq hce))
        · intro c nc hc hp ht
          rw [hids3, hqv3, List.mem_append]
          rcases h.ext c nc hc hp ht with hcs | hcq
          · exact Or.inl (List.mem_cons_of_mem _ hcs)
          · by_cases hce : c = it.val
            · exact Or.inl (by rw [hce]; exact List.mem_cons_self)
            · exact Or.inr (Or.inl (by rw [hqv1]; exact e2 c hcq hce))
        · intro e k
          rw [hsr3, hids3, List.mem_append, List.mem_reverse, List.mem_map, h.srs e k, List.mem_cons]
          constructor
          · rintro (⟨r, hr, heq⟩ | ⟨he, hk⟩)
            · cases heq
              exact ⟨Or.inl rfl, List.mem_map_of_mem hr⟩
            · exact ⟨Or.inr he, hk⟩
          · rintro ⟨rfl | he, hk⟩
            · obtain ⟨r, hr, rfl⟩ := List.mem_map.mp hk
              exact Or.inl ⟨r, hr, rfl⟩
            · exact Or.inr ⟨he, hk⟩
        · intro e k
          rw [herr3, hids3, List.mem_append, List.mem_map, h.ers e k, List.mem_cons]
          constructor
          · rintro (⟨r, hr, heq⟩ | ⟨he, hk⟩)
            · cases heq
              exact ⟨Or.inl rfl, List.mem_map_of_mem hr⟩
            · exact ⟨Or.inr he, hk⟩
          · rintro ⟨rfl | he, hk⟩
            · obtain ⟨r, hr, rfl⟩ := List.mem_map.mp hk
              exact Or.inl ⟨r, hr, rfl⟩
            · exact Or.inr ⟨he, hk⟩
      have hidsF : ∀ (r : RM) (e : List (Nat × Nat)) (b : Bool),
          ids ({ s2 with rm := r, errs := e, bad := b } : St) = it.val :: ids s := by
        intro r e b; simp only [ids]; rw [v0, ← hs1]
      apply ih
      · apply key
        · exact hidsF _ _ _
        · exact v3
        · show sr s2 = _
          rw [v1, hsr1]
        · simp only; rw [v2, ← hs1]
      · rw [hidsF]; simp; omega

theorem init_inv (cfg : Cfg) (sort : List Rule → List Rule) (flag : Bool) (nodes : List Node) :
    LInv sort flag nodes (addAll cfg nodes (fun n => n.parent.isNone) {}) := by
  obtain ⟨v1, v2, v0, v3⟩ := addAll_view cfg nodes (fun n => n.parent.isNone) {}
  have hids : ids (addAll cfg nodes (fun n => n.parent.isNone) {}) = [] := by simp [ids, v0]
  have hqv : qv (addAll cfg nodes (fun n => n.parent.isNone) {}) = kids nodes (fun n => n.parent.isNone) := by
    rw [v3]; simp [qv]
  have hsr : sr (addAll cfg nodes (fun n => n.parent.isNone) {}) = [] := by simp [sr, v1]
  refine ⟨by rw [hids]; simp, by rw [hqv]; exact kids_nodup _ _, by rw [hids]; simp, ?_, ?_, ?_,
    by rw [hids]; simp, ?_, by intro e k; rw [hsr, hids]; simp, by intro e k; rw [v2, hids]; simp⟩
  · intro x hx
    rw [hids, hqv] at hx
    rcases hx with hx | hx
    · simp at hx
    · obtain ⟨n, hn, _, _⟩ := mem_kids.mp hx
      exact (List.getElem?_eq_some_iff.mp hn).1
  · intro x hx nx e k hnx hp
    rw [hids, hqv] at hx
    rcases hx with hx | hx
    · simp at hx
    · obtain ⟨n, hn, hsel, _⟩ := mem_kids.mp hx
      rw [hnx] at hn; cases hn
      simp [hp] at hsel
  · intro x hx nx hnx
    rw [hids, hqv] at hx
    rcases hx with hx | hx
    · simp at hx
    · obtain ⟨n, hn, _, ht⟩ := mem_kids.mp hx
      rw [hnx] at hn; cases hn; exact ht
  · intro c nc hc hp ht
    rw [hqv]
    exact Or.inr (mem_kids.mpr ⟨nc, hc, by simp [hp], ht⟩)

/-- the run of a script ends with an empty queue and satisfies the invariant -/
theorem runScript_spec (cfg : Cfg) (sort : List Rule → List Rule) (hsort : ∀ l, (sort l).Perm l)
    (flag : Bool) (nodes : List Node) :
    LInv sort flag nodes (runScript cfg sort flag nodes) ∧ qv (runScript cfg sort flag nodes) = [] := by
  unfold runScript
  apply loop_spec cfg sort hsort flag nodes _ _ (init_inv cfg sort flag nodes)
  have : ids (addAll cfg nodes (fun n => n.parent.isNone) {}) = [] := by
    simp [ids, (addAll_view cfg nodes (fun n => n.parent.isNone) {}).2.2.1]
  rw [this]; simp

end Ecal.Priority.Cascade
