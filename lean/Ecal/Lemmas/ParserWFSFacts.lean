import Ecal.Lemmas.ParserWalk
/-!
Shape facts exported from the strict well-formedness predicate `WellFormedS` (Model/ParserWFS.lean), for the
consumers' proofs (C06: evaluation of a parser-made tree never panics; C04/C08 alike).
`parse_wellformed_strict` (Props/C07.lean) gives `WellFormedS t` for every tree the parser returns.

* `wfS_parts` — the generic decomposition: no nil child, every child strictly well formed, and the shape clause
  of the node's kind over the child signatures `(name, number of children, has a token)`;
* one lemma per kind of fixed arity, stating the children list and which children carry a token;
* for kinds of variable arity (`if`, `try`, `except`, `sink`, `identifier`, list/map/funccall/params/statements)
  use `wfS_parts` and unfold `shapeOkS` with `kindOf name = …` (the clause is `ifShapeS`, `exceptShape`, `opOk`, …).
-/
namespace Ecal.Parse
open Ecal.Lex Ecal.Parse.S

theorem wfS_unfold (n : Node) : WellFormedS n = (shapeOkS n.name (n.children.map sigOfS) && kidsWFS n.children) := by
  cases n; simp [WellFormedS, Node.children, Node.name]

/-- generic decomposition of a strictly well-formed node -/
theorem wfS_parts {n : Node} (h : WellFormedS n = true) :
    ∃ l : List Node, n.children = l.map some ∧ (∀ c ∈ l, WellFormedS c = true) ∧
      shapeOkS n.name (l.map sgOf) = true := by
  rw [wfS_unfold, Bool.and_eq_true] at h
  obtain ⟨l, hl, hw⟩ := kidsWFS_some n.children h.2
  refine ⟨l, hl, hw, ?_⟩
  have := h.1
  rw [hl, sig_map] at this
  exact this

/-- every child of a container (list, map, funccall, params, statements) carries a token -/
theorem wfS_container {n : Node} (h : WellFormedS n = true) (hk : kindOf n.name = .container) :
    ∃ l : List Node, n.children = l.map some ∧ ∀ c ∈ l, WellFormedS c = true ∧ c.tok.isSome = true := by
  obtain ⟨l, hl, hw, hs⟩ := wfS_parts h
  refine ⟨l, hl, fun c hc => ⟨hw c hc, ?_⟩⟩
  simp only [shapeOkS, hk, opOk, List.all_eq_true, List.mem_map] at hs
  exact hs (sgOf c) ⟨c, hc, rfl⟩

/-- binary operators (comparison, arithmetic, and/or/like/in/notin/hasprefix/hassuffix, `:=`, kvp, preset) -/
theorem wfS_binary {n : Node} (h : WellFormedS n = true) (hk : kindOf n.name = .binary) :
    ∃ a b ta tb, n.children = [some a, some b] ∧ WellFormedS a = true ∧ WellFormedS b = true ∧
      a.tok = some ta ∧ b.tok = some tb := by
  obtain ⟨l, hl, hw, hs⟩ := wfS_parts h
  simp only [shapeOkS, hk] at hs
  rcases l with _ | ⟨a, _ | ⟨b, _ | ⟨c, r⟩⟩⟩
  all_goals try (simp [opOk] at hs; done)
  simp [opOk, sgOf] at hs
  obtain ⟨ta, hta⟩ := Option.isSome_iff_exists.mp hs.1
  obtain ⟨tb, htb⟩ := Option.isSome_iff_exists.mp hs.2
  exact ⟨a, b, ta, tb, hl, hw a (by simp), hw b (by simp), hta, htb⟩

/-- `plus` / `minus`: unary or binary -/
theorem wfS_plusminus {n : Node} (h : WellFormedS n = true) (hk : kindOf n.name = .plusminus) :
    (∃ a ta, n.children = [some a] ∧ WellFormedS a = true ∧ a.tok = some ta) ∨
    (∃ a b ta tb, n.children = [some a, some b] ∧ WellFormedS a = true ∧ WellFormedS b = true ∧
      a.tok = some ta ∧ b.tok = some tb) := by
  obtain ⟨l, hl, hw, hs⟩ := wfS_parts h
  simp only [shapeOkS, hk] at hs
  rcases l with _ | ⟨a, _ | ⟨b, _ | ⟨c, r⟩⟩⟩
  all_goals try (simp [opOk] at hs; done)
  · simp [opOk, sgOf] at hs
    obtain ⟨ta, hta⟩ := Option.isSome_iff_exists.mp hs
    exact Or.inl ⟨a, ta, hl, hw a (by simp), hta⟩
  · simp [opOk, sgOf] at hs
    obtain ⟨ta, hta⟩ := Option.isSome_iff_exists.mp hs.1
    obtain ⟨tb, htb⟩ := Option.isSome_iff_exists.mp hs.2
    exact Or.inr ⟨a, b, ta, tb, hl, hw a (by simp), hw b (by simp), hta, htb⟩

/-- prefix operators (`not`, `let`, sink attributes) -/
theorem wfS_prefix1 {n : Node} (h : WellFormedS n = true) (hk : kindOf n.name = .prefix1) :
    ∃ a ta, n.children = [some a] ∧ WellFormedS a = true ∧ a.tok = some ta := by
  obtain ⟨l, hl, hw, hs⟩ := wfS_parts h
  simp only [shapeOkS, hk] at hs
  rcases l with _ | ⟨a, _ | ⟨b, r⟩⟩
  all_goals try (simp [opOk] at hs; done)
  simp [opOk, sgOf] at hs
  obtain ⟨ta, hta⟩ := Option.isSome_iff_exists.mp hs
  exact ⟨a, ta, hl, hw a (by simp), hta⟩

/-- `guard`: one child, an expression with a token, or the token-less `true` of an `else` -/
theorem wfS_guard {n : Node} (h : WellFormedS n = true) (hn : n.name = "guard") :
    ∃ a, n.children = [some a] ∧ WellFormedS a = true ∧
      ((∃ ta, a.tok = some ta) ∨ (a.name = "true" ∧ a.children = [])) := by
  obtain ⟨l, hl, hw, hs⟩ := wfS_parts h
  rw [hn] at hs
  simp only [shapeOkS, show kindOf "guard" = .one by decide] at hs
  rcases l with _ | ⟨a, _ | ⟨b, r⟩⟩
  all_goals try (simp at hs; done)
  simp [sgOf] at hs
  refine ⟨a, hl, hw a (by simp), ?_⟩
  rcases hs with hs | hs
  · exact Or.inl (Option.isSome_iff_exists.mp hs)
  · exact Or.inr hs

/-- `compaccess`: one child with a token -/
theorem wfS_compaccess {n : Node} (h : WellFormedS n = true) (hn : n.name = "compaccess") :
    ∃ a ta, n.children = [some a] ∧ WellFormedS a = true ∧ a.tok = some ta := by
  obtain ⟨l, hl, hw, hs⟩ := wfS_parts h
  rw [hn] at hs
  simp only [shapeOkS, show kindOf "compaccess" = .one by decide] at hs
  rcases l with _ | ⟨a, _ | ⟨b, r⟩⟩
  all_goals try (simp [opOk] at hs; done)
  simp [opOk, sgOf] at hs
  obtain ⟨ta, hta⟩ := Option.isSome_iff_exists.mp hs
  exact ⟨a, ta, hl, hw a (by simp), hta⟩

/-- `as`: exactly one child, an identifier with its token -/
theorem wfS_as {n : Node} (h : WellFormedS n = true) (hn : n.name = "as") :
    ∃ i ti, n.children = [some i] ∧ i.name = "identifier" ∧ i.tok = some ti ∧ WellFormedS i = true := by
  obtain ⟨l, hl, hw, hs⟩ := wfS_parts h
  rw [hn] at hs
  simp only [shapeOkS, show kindOf "as" = .one by decide] at hs
  rcases l with _ | ⟨a, _ | ⟨b, r⟩⟩
  all_goals try (simp [opOk] at hs; done)
  simp [opOk, sgOf] at hs
  obtain ⟨ta, hta⟩ := Option.isSome_iff_exists.mp hs.2
  exact ⟨a, ta, hl, hs.1, hta, hw a (by simp)⟩

/-- `return`: no child or one child with a token -/
theorem wfS_return {n : Node} (h : WellFormedS n = true) (hn : n.name = "return") :
    n.children = [] ∨ ∃ a ta, n.children = [some a] ∧ WellFormedS a = true ∧ a.tok = some ta := by
  obtain ⟨l, hl, hw, hs⟩ := wfS_parts h
  rw [hn] at hs
  simp only [shapeOkS, show kindOf "return" = .return_ by decide] at hs
  rcases l with _ | ⟨a, _ | ⟨b, r⟩⟩
  · exact Or.inl hl
  · simp [opOk, sgOf] at hs
    obtain ⟨ta, hta⟩ := Option.isSome_iff_exists.mp hs
    exact Or.inr ⟨a, ta, hl, hw a (by simp), hta⟩
  · simp [opOk] at hs

/-- `import`: [string, identifier], both with tokens -/
theorem wfS_import {n : Node} (h : WellFormedS n = true) (hn : n.name = "import") :
    ∃ s i ts ti, n.children = [some s, some i] ∧ s.name = "string" ∧ i.name = "identifier" ∧
      s.tok = some ts ∧ i.tok = some ti ∧ WellFormedS s = true ∧ WellFormedS i = true := by
  obtain ⟨l, hl, hw, hs⟩ := wfS_parts h
  rw [hn] at hs
  simp only [shapeOkS, show kindOf "import" = .import_ by decide] at hs
  rcases l with _ | ⟨a, _ | ⟨b, _ | ⟨c, r⟩⟩⟩
  all_goals try (simp [opOk] at hs; done)
  simp [opOk, sgOf] at hs
  obtain ⟨ta, hta⟩ := Option.isSome_iff_exists.mp hs.2.1
  obtain ⟨tb, htb⟩ := Option.isSome_iff_exists.mp hs.2.2
  exact ⟨a, b, ta, tb, hl, hs.1.1, hs.1.2, hta, htb, hw a (by simp), hw b (by simp)⟩

/-- `loop`: [guard with one child | `in` with two children and a token, statements] -/
theorem wfS_loop {n : Node} (h : WellFormedS n = true) (hn : n.name = "loop") :
    ∃ g st, n.children = [some g, some st] ∧ st.name = "statements" ∧ WellFormedS g = true ∧ WellFormedS st = true ∧
      ((g.name = "guard" ∧ g.children.length = 1) ∨ (g.name = "in" ∧ g.children.length = 2 ∧ g.tok.isSome = true)) := by
  obtain ⟨l, hl, hw, hs⟩ := wfS_parts h
  rw [hn] at hs
  simp only [shapeOkS, show kindOf "loop" = .loop by decide] at hs
  rcases l with _ | ⟨a, _ | ⟨b, _ | ⟨c, r⟩⟩⟩
  all_goals try (simp at hs; done)
  simp [sgOf] at hs
  refine ⟨a, b, hl, hs.1, hw a (by simp), hw b (by simp), ?_⟩
  rcases hs.2 with hg | hg
  · exact Or.inl hg
  · exact Or.inr ⟨hg.1.1, hg.1.2, hg.2⟩

/-- `otherwise` / `finally`: [statements] -/
theorem wfS_blockOnly {n : Node} (h : WellFormedS n = true) (hk : kindOf n.name = .blockOnly) :
    ∃ st, n.children = [some st] ∧ st.name = "statements" ∧ WellFormedS st = true := by
  obtain ⟨l, hl, hw, hs⟩ := wfS_parts h
  simp only [shapeOkS, hk] at hs
  rcases l with _ | ⟨a, _ | ⟨b, r⟩⟩
  all_goals try (simp at hs; done)
  simp [sgOf] at hs
  exact ⟨a, hl, hs, hw a (by simp)⟩

/-- `mutex`: [identifier with token, statements] -/
theorem wfS_mutex {n : Node} (h : WellFormedS n = true) (hn : n.name = "mutex") :
    ∃ i st ti, n.children = [some i, some st] ∧ i.name = "identifier" ∧ i.tok = some ti ∧ st.name = "statements" ∧
      WellFormedS i = true ∧ WellFormedS st = true := by
  obtain ⟨l, hl, hw, hs⟩ := wfS_parts h
  rw [hn] at hs
  simp only [shapeOkS, show kindOf "mutex" = .mutex by decide] at hs
  rcases l with _ | ⟨a, _ | ⟨b, _ | ⟨c, r⟩⟩⟩
  all_goals try (simp [opOk] at hs; done)
  simp [opOk, sgOf] at hs
  obtain ⟨ta, hta⟩ := Option.isSome_iff_exists.mp hs.2
  exact ⟨a, b, ta, hl, hs.1.1, hta, hs.1.2, hw a (by simp), hw b (by simp)⟩

/-- `function`: [params, statements] or [identifier with token, params, statements] -/
theorem wfS_function {n : Node} (h : WellFormedS n = true) (hn : n.name = "function") :
    (∃ ps st, n.children = [some ps, some st] ∧ ps.name = "params" ∧ st.name = "statements" ∧
        WellFormedS ps = true ∧ WellFormedS st = true) ∨
    (∃ i ps st ti, n.children = [some i, some ps, some st] ∧ i.name = "identifier" ∧ i.tok = some ti ∧
        ps.name = "params" ∧ st.name = "statements" ∧ WellFormedS i = true ∧ WellFormedS ps = true ∧ WellFormedS st = true) := by
  obtain ⟨l, hl, hw, hs⟩ := wfS_parts h
  rw [hn] at hs
  simp only [shapeOkS, show kindOf "function" = .function by decide] at hs
  rcases l with _ | ⟨a, _ | ⟨b, _ | ⟨c, _ | ⟨d, r⟩⟩⟩⟩
  all_goals try (simp [opOk] at hs; done)
  · simp [opOk, sgOf] at hs
    exact Or.inl ⟨a, b, hl, hs.1, hs.2, hw a (by simp), hw b (by simp)⟩
  · simp [opOk, sgOf] at hs
    obtain ⟨ta, hta⟩ := Option.isSome_iff_exists.mp hs.2
    exact Or.inr ⟨a, b, c, ta, hl, hs.1.1, hta, hs.1.2.1, hs.1.2.2, hw a (by simp), hw b (by simp), hw c (by simp)⟩

end Ecal.Parse
