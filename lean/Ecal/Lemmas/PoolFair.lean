import Ecal.Lemmas.PoolFifo
/-! Infinite executions of the pool, the fairness assumption, and "a queued task is started". -/
namespace Ecal.Pool

/-- an infinite execution of the repaired pool: at every tick some thread attempts an event (or nothing
    happens); an attempt that is not enabled leaves the state as it is -/
structure Exec where
  C     : Nat → State
  ev    : Nat → Option Event
  start : Reachable repaired (C 0)
  next  : ∀ n, C (n + 1) = match ev n with
    | none => C n
    | some e => (step repaired (C n) e).getD (C n)

/-- some pool-internal event (a worker step, the rest of a call in flight, the return of a running task) is enabled -/
def enabledInternal (s : State) : Prop := ∃ e ∈ internalEvents s, (step repaired s e).isSome = true

/-- at tick `n` an event with property `P` is attempted and succeeds -/
def Exec.took (X : Exec) (P : Event → Bool) (n : Nat) : Prop :=
  ∃ e, X.ev n = some e ∧ P e = true ∧ (step repaired (X.C n) e).isSome = true

/-- FAIRNESS ASSUMPTION (weak, for the pool as a whole): whenever some pool-internal event is enabled, a
    pool-internal event is eventually taken. This is what the Go scheduler (every runnable goroutine is
    eventually run, a goroutine blocked on a mutex that keeps being released eventually gets it) and
    terminating tasks (the return of a running task is a pool-internal event) provide. Assumed, not proved. -/
def Exec.Fair (X : Exec) : Prop := ∀ n, enabledInternal (X.C n) → ∃ m, n ≤ m ∧ X.took isInternal m

/-- from tick `N` on no new call is made: only pool-internal events and polling broadcasts are attempted
    (no AddTask, SetWorkerCount, JoinAll) -/
def Exec.CallsStopAt (X : Exec) (N : Nat) : Prop :=
  ∀ n, N ≤ n → ∀ e, X.ev n = some e → isInternal e = true ∨ e = .bcast

theorem reachable_step {v : Variant} {s s1 : State} {e : Event} (h : Reachable v s) (hs : step v s e = some s1) :
    Reachable v s1 := by
  obtain ⟨es, hes⟩ := h
  refine ⟨es ++ [e], ?_⟩
  simp [runFrom, List.foldlM_append] at hes ⊢
  simp [hes, hs]

theorem exec_reachable (X : Exec) (n : Nat) : Reachable repaired (X.C n) := by
  induction n with
  | zero => exact X.start
  | succ n ih =>
    rw [X.next n]
    cases he : X.ev n with
    | none => simpa using ih
    | some e =>
      cases hs : step repaired (X.C n) e with
      | none => simpa [hs] using ih
      | some s1 => simpa [hs] using reachable_step ih hs

/-- one tick after the calls stopped, no pop taken, queue non-empty: the pop measure does not grow, the
    queue keeps its length, and a taken internal event lowers the measure -/
theorem tick_measure (X : Exec) {N n : Nat} (hc : X.CallsStopAt N) (hn : N ≤ n) (hq : (X.C n).queue ≠ [])
    (hp : ¬ X.took isPop n) :
    cmu (abs (X.C (n + 1))) ≤ cmu (abs (X.C n)) ∧ (X.C (n + 1)).queue.length = (X.C n).queue.length ∧
    (X.took isInternal n → cmu (abs (X.C (n + 1))) + 1 ≤ cmu (abs (X.C n))) := by
  have hq0 : 0 < (abs (X.C n)).queue := by
    cases hl : (X.C n).queue with
    | nil => exact absurd hl hq
    | cons a l => simp [abs, hl]
  rw [X.next n]
  cases he : X.ev n with
  | none =>
    refine ⟨by simp, by simp, ?_⟩
    rintro ⟨e, h1, _⟩; simp [he] at h1
  | some e =>
    cases hs : step repaired (X.C n) e with
    | none =>
      refine ⟨by simp [hs], by simp [hs], ?_⟩
      rintro ⟨e', h1, _, h3⟩
      simp [he] at h1; subst h1; simp [hs] at h3
    | some s1 =>
      simp only [hs, Option.getD_some]
      rcases hc n hn e he with hint | rfl
      · have hnp : isPop e = false := by
          cases hpe : isPop e with
          | false => rfl
          | true => exact absurd ⟨e, he, hpe, by simp [hs]⟩ hp
        have hstep := cmu_step (sim_step hs) (by rw [internal_abs]; exact hint) (by rw [isPop_abs]; exact hnp) hq0
        refine ⟨by omega, by simpa [abs] using hstep.2, fun _ => hstep.1⟩
      · have hstep := cmu_bcast (sim_step hs)
        refine ⟨hstep.1, by simpa [abs] using hstep.2, ?_⟩
        rintro ⟨e', h1, h2, _⟩
        simp [he] at h1; subst h1; simp [isInternal] at h2

/-- over `d` ticks: a pop is taken, or the measure has not grown and the queue is still non-empty -/
theorem ticks_measure (X : Exec) {N : Nat} (hc : X.CallsStopAt N) (d : Nat) {n : Nat} (hn : N ≤ n)
    (hq : (X.C n).queue ≠ []) :
    (∃ j, n ≤ j ∧ j < n + d ∧ X.took isPop j) ∨
    (cmu (abs (X.C (n + d))) ≤ cmu (abs (X.C n)) ∧ (X.C (n + d)).queue ≠ []) := by
  induction d with
  | zero => right; exact ⟨by simp, by simpa using hq⟩
  | succ d ih =>
    rcases ih with ⟨j, h1, h2, h3⟩ | ⟨hm, hq'⟩
    · exact Or.inl ⟨j, h1, by omega, h3⟩
    · by_cases hp : X.took isPop (n + d)
      · exact Or.inl ⟨n + d, by omega, by omega, hp⟩
      · have ht := tick_measure X hc (by omega : N ≤ n + d) hq' hp
        right
        have hadd : n + (d + 1) = n + d + 1 := by omega
        rw [hadd]
        refine ⟨by omega, ?_⟩
        intro hnil
        have hl := ht.2.1
        rw [hnil] at hl
        exact hq' (List.eq_nil_of_length_eq_zero hl.symm)

/-- the execution that attempts the events of a list, one per tick, and then rests -/
def execC (s0 : State) (es : List Event) : Nat → State
  | 0 => s0
  | n + 1 => match es[n]? with
    | none => execC s0 es n
    | some e => (step repaired (execC s0 es n) e).getD (execC s0 es n)

def Exec.ofList (s0 : State) (h : Reachable repaired s0) (es : List Event) : Exec :=
  ⟨execC s0 es, fun n => es[n]?, h, fun _ => rfl⟩

theorem execC_rest (s0 : State) (es : List Event) (n : Nat) (hn : es.length ≤ n) :
    execC s0 es n = execC s0 es es.length := by
  induction n with
  | zero => have : es.length = 0 := by omega
            rw [this]
  | succ n ih =>
    rcases Nat.lt_or_ge n es.length with h | h
    · have : es.length = n + 1 := by omega
      rw [this]
    · have hnone : es[n]? = none := List.getElem?_eq_none h
      simp only [execC, hnone]
      exact ih h

end Ecal.Pool
