import Ecal.Model.Expr
/-!
# C03 — the fuel of `Impl.parse` is never exhausted

For EVERY token list and table, the fuel-indexed functions called with fuel
`2·length + 1` (`run`, `loop`) resp. `2·length + 2` (`items`) never return the
artificial `fuel` error, and what they leave over is (strictly) shorter than their
input. So `Impl.parse` (fuel `2·length + 4`) is a total model of the recursive-descent
code: fuel is a device for structural recursion only.
-/
namespace Ecal.Expr

def RunOK (r : PRes (Expr × Nat × List LTok)) (n : Nat) : Prop :=
  match r with
  | .error e => e ≠ .fuel
  | .ok (_, _, rest) => rest.length < n

def LoopOK (r : PRes (Expr × Nat × List LTok)) (n : Nat) : Prop :=
  match r with
  | .error e => e ≠ .fuel
  | .ok (_, _, rest) => rest.length ≤ n

def ItemsOK (r : PRes (Items × List LTok)) (n : Nat) : Prop :=
  match r with
  | .error e => e ≠ .fuel
  | .ok (_, rest) => rest.length < n

theorem LoopOK.toRun {r n n'} (h : LoopOK r n) (hn : n < n') : RunOK r n' := by
  unfold LoopOK at h; unfold RunOK
  split <;> simp_all <;> omega

theorem LoopOK.mono {r n n'} (h : LoopOK r n) (hn : n ≤ n') : LoopOK r n' := by
  unfold LoopOK at h ⊢
  split <;> simp_all <;> omega

theorem dropComma_length (ts : List LTok) : (dropComma ts).length ≤ ts.length := by
  match ts with
  | [] => simp [dropComma]
  | ⟨tk, l⟩ :: _ => cases tk <;> simp [dropComma]

theorem no_fuel_step (T : Table) (g : Nat)
    (ihR : ∀ m ts, 2 * ts.length + 1 ≤ g → RunOK (Impl.run T g m ts) ts.length)
    (ihL : ∀ m l ll ts, 2 * ts.length + 1 ≤ g → LoopOK (Impl.loop T g m l ll ts) ts.length)
    (ihI : ∀ ts, 2 * ts.length + 2 ≤ g → ItemsOK (Impl.items T g ts) ts.length) :
    (∀ m ts, 2 * ts.length + 1 ≤ g + 1 → RunOK (Impl.run T (g + 1) m ts) ts.length) ∧
    (∀ m l ll ts, 2 * ts.length + 1 ≤ g + 1 → LoopOK (Impl.loop T (g + 1) m l ll ts) ts.length) ∧
    (∀ ts, 2 * ts.length + 2 ≤ g + 1 → ItemsOK (Impl.items T (g + 1) ts) ts.length) := by
  refine ⟨?_, ?_, ?_⟩
  · intro m ts h
    match ts with
    | [] => simp [Impl.run, RunOK]
    | t :: tt =>
      simp only [List.length_cons] at h ⊢
      have hL : ∀ m l ll, RunOK (Impl.loop T g m l ll tt) (tt.length + 1) :=
        fun m l ll => (ihL m l ll tt (by omega)).toRun (by omega)
      simp only [Impl.run]
      split
      · -- atom
        split
        · exact hL _ _ _
        · split
          · split
            · simp [RunOK]
            · exact hL _ _ _
          · split <;> simp [RunOK]
      · -- lp
        split
        · have h1 := ihR T.innerBinding tt (by omega)
          split
          · rename_i e ln ts1 heq
            rw [heq] at h1
            simp only [RunOK] at h1
            split
            · rename_i l2 ts2
              simp only [List.length_cons] at h1
              exact (ihL _ _ _ ts2 (by omega)).toRun (by omega)
            · simp [RunOK]
          · rename_i x heq
            rw [heq] at h1
            simpa [RunOK] using h1
        · simp [RunOK]
      · -- lb
        split
        · have h1 := ihI tt (by omega)
          split
          · rename_i its ts1 heq
            rw [heq] at h1
            simp only [ItemsOK] at h1
            exact (ihL _ _ _ ts1 (by omega)).toRun (by omega)
          · rename_i x heq
            rw [heq] at h1
            simpa [RunOK, ItemsOK] using h1
        · simp [RunOK]
      · simp [RunOK]
      · -- prefix operators and the rest
        split
        · split
          · rename_i p txt _
            have h1 := ihR (T.binding t.tk.kind + T.prefixExtra - T.prefixSub) tt (by omega)
            split
            · rename_i x ln ts1 heq
              rw [heq] at h1
              simp only [RunOK] at h1
              exact (ihL _ _ _ ts1 (by omega)).toRun (by omega)
            · rename_i x heq
              rw [heq] at h1
              simpa [RunOK] using h1
          · simp [RunOK]
        · split <;> simp [RunOK]
  · intro m l ll ts h
    match ts with
    | [] => simp [Impl.loop, LoopOK]
    | t :: tt =>
      simp only [List.length_cons] at h ⊢
      simp only [Impl.loop]
      split
      · split
        · split <;> simp [LoopOK]
        · split
          · split
            · rename_i o txt _
              have h1 := ihR (T.binding (.op o) + T.infixExtra - T.infixSub) tt (by omega)
              split
              · rename_i r ln ts1 heq
                rw [heq] at h1
                simp only [RunOK] at h1
                exact (ihL _ _ _ ts1 (by omega)).mono (by omega)
              · rename_i x heq
                rw [heq] at h1
                simpa [RunOK, LoopOK] using h1
            · simp [LoopOK]
          · simp [LoopOK]
      · simp [LoopOK]
  · intro ts h
    match ts with
    | [] => simp [Impl.items, ItemsOK]
    | t :: tt =>
      simp only [List.length_cons] at h ⊢
      simp only [Impl.items]
      split
      · simp [ItemsOK]
      · split
        · simp [ItemsOK]
        · have h1 := ihR T.listBinding (t :: tt) (by simp only [List.length_cons]; omega)
          split
          · rename_i e ln ts1 heq
            rw [heq] at h1
            simp only [RunOK, List.length_cons] at h1
            have hd := dropComma_length ts1
            have h2 := ihI (dropComma ts1) (by omega)
            split
            · rename_i rest ts2 heq2
              rw [heq2] at h2
              simp only [ItemsOK] at h2 ⊢
              omega
            · rename_i x heq2
              rw [heq2] at h2
              simpa [ItemsOK] using h2
          · rename_i x heq
            rw [heq] at h1
            simpa [RunOK, ItemsOK] using h1

theorem no_fuel (T : Table) : ∀ f,
    (∀ m ts, 2 * ts.length + 1 ≤ f → RunOK (Impl.run T f m ts) ts.length) ∧
    (∀ m l ll ts, 2 * ts.length + 1 ≤ f → LoopOK (Impl.loop T f m l ll ts) ts.length) ∧
    (∀ ts, 2 * ts.length + 2 ≤ f → ItemsOK (Impl.items T f ts) ts.length) := by
  intro f
  induction f with
  | zero =>
    refine ⟨fun m ts h => by omega, fun m l ll ts h => by omega, fun ts h => by omega⟩
  | succ g ih => exact no_fuel_step T g ih.1 ih.2.1 ih.2.2

/-- for every table and every token list the parser's fuel suffices -/
theorem parse_never_out_of_fuel (T : Table) (ts : List LTok) : Impl.parse T ts ≠ .error .fuel := by
  have h := (no_fuel T (2 * ts.length + 4)).1 0 ts (by omega)
  simp only [Impl.parse, Impl.parseFuel]
  unfold RunOK at h
  split at h
  · rename_i e heq
    rw [heq]
    simpa using h
  · rename_i e ln rest heq
    rw [heq]
    simp only
    split
    · simp
    · split
      · simp
      · split <;> simp

end Ecal.Expr
