import Ecal.Model.Printer
import Ecal.Lemmas.LexerPos
/-!
C08, string literals on the REAL models: `Ecal.Print.quote` (what the printer model writes for a string
token) read back by `Ecal.Lex.lexValue` (the string lexer of the lexer model) gives a string token with
exactly the original value and `allowEscapes = true` — for every byte string.
-/
namespace Ecal.C08.QR
open Ecal.Lex Ecal.Print

variable (ip : Nat → Bool)

local macro "om" : tactic => `(tactic| first | trivial | omega | (split <;> omega))

/-- the five outcomes of `utf8.DecodeRune` -/
theorem decodeBytes_shape (n c0 c1 c2 c3 r w : Nat) (h : decodeBytes n c0 c1 c2 c3 = (r, w)) :
    (w = 1 ∧ c0 < 0x80 ∧ r = c0) ∨ (w = 1 ∧ r = runeError ∧ 0x80 ≤ c0) ∨
    (w = 2 ∧ 2 ≤ n ∧ 0xC2 ≤ c0 ∧ c0 < 0xE0 ∧ 0x80 ≤ c1 ∧ c1 ≤ 0xBF ∧ r = (c0 % 32) * 64 + c1 % 64) ∨
    (w = 3 ∧ 3 ≤ n ∧ 0xE0 ≤ c0 ∧ c0 < 0xF0 ∧ (if c0 = 0xE0 then 0xA0 else 0x80) ≤ c1 ∧
      c1 ≤ (if c0 = 0xED then 0x9F else 0xBF) ∧ 0x80 ≤ c2 ∧ c2 ≤ 0xBF ∧
      r = (c0 % 16) * 4096 + (c1 % 64) * 64 + c2 % 64) ∨
    (w = 4 ∧ 4 ≤ n ∧ 0xF0 ≤ c0 ∧ c0 < 0xF5 ∧ (if c0 = 0xF0 then 0x90 else 0x80) ≤ c1 ∧
      c1 ≤ (if c0 = 0xF4 then 0x8F else 0xBF) ∧ 0x80 ≤ c2 ∧ c2 ≤ 0xBF ∧ 0x80 ≤ c3 ∧ c3 ≤ 0xBF ∧
      r = (c0 % 8) * 262144 + (c1 % 64) * 4096 + (c2 % 64) * 64 + c3 % 64) := by
  unfold decodeBytes at h
  simp only [runeError] at h ⊢
  repeat' split at h
  all_goals (simp only [Prod.mk.injEq] at h; obtain ⟨rfl, rfl⟩ := h)
  all_goals (simp only [Bool.and_eq_true, decide_eq_true_eq, ge_iff_le] at *)
  all_goals first
    | exact Or.inl ⟨by om, by om, by om⟩
    | exact Or.inr (Or.inl ⟨by om, by om, by om⟩)
    | exact Or.inr (Or.inr (Or.inl ⟨by om, by om, by om, by om, by om, by om, by om⟩))
    | exact Or.inr (Or.inr (Or.inr (Or.inl ⟨by om, by om, by om, by om, by om, by om, by om, by om, by om⟩)))
    | exact Or.inr (Or.inr (Or.inr (Or.inr ⟨by om, by om, by om, by om, by om, by om, by om, by om, by om, by om, by om⟩)))

theorem decodeBytes_two (n c0 c1 c2 c3 : Nat) (hn : 2 ≤ n) (h0 : 0xC2 ≤ c0) (h1 : c0 < 0xE0)
    (h2 : 0x80 ≤ c1) (h3 : c1 ≤ 0xBF) :
    decodeBytes n c0 c1 c2 c3 = ((c0 % 32) * 64 + c1 % 64, 2) := by
  unfold decodeBytes
  have a1 : ¬ c0 < 0x80 := by omega
  have a2 : ¬ c0 < 0xC2 := by omega
  simp [a1, a2, h1, hn, h2, h3]

theorem decodeBytes_three (n c0 c1 c2 c3 : Nat) (hn : 3 ≤ n) (h0 : 0xE0 ≤ c0) (h1 : c0 < 0xF0)
    (h2 : (if c0 = 0xE0 then 0xA0 else 0x80) ≤ c1) (h3 : c1 ≤ (if c0 = 0xED then 0x9F else 0xBF))
    (h4 : 0x80 ≤ c2) (h5 : c2 ≤ 0xBF) :
    decodeBytes n c0 c1 c2 c3 = ((c0 % 16) * 4096 + (c1 % 64) * 64 + c2 % 64, 3) := by
  unfold decodeBytes
  have a1 : ¬ c0 < 0x80 := by omega
  have a2 : ¬ c0 < 0xC2 := by omega
  have a3 : ¬ c0 < 0xE0 := by omega
  simp [a1, a2, a3, h1, hn, h2, h3, h4, h5]

theorem decodeBytes_four (n c0 c1 c2 c3 : Nat) (hn : 4 ≤ n) (h0 : 0xF0 ≤ c0) (h1 : c0 < 0xF5)
    (h2 : (if c0 = 0xF0 then 0x90 else 0x80) ≤ c1) (h3 : c1 ≤ (if c0 = 0xF4 then 0x8F else 0xBF))
    (h4 : 0x80 ≤ c2) (h5 : c2 ≤ 0xBF) (h6 : 0x80 ≤ c3) (h7 : c3 ≤ 0xBF) :
    decodeBytes n c0 c1 c2 c3 =
      ((c0 % 8) * 262144 + (c1 % 64) * 4096 + (c2 % 64) * 64 + c3 % 64, 4) := by
  unfold decodeBytes
  have a1 : ¬ c0 < 0x80 := by omega
  have a2 : ¬ c0 < 0xC2 := by omega
  have a3 : ¬ c0 < 0xE0 := by omega
  have a4 : ¬ c0 < 0xF0 := by omega
  simp [a1, a2, a3, a4, h1, hn, h2, h3, h4, h5, h6, h7]

theorem decodeHead_ascii (c : Nat) (t : List Nat) (h : c < 0x80) : decodeHead (c :: t) = (c, 1) := by
  simp [decodeHead, decodeBytes, h]

/-- A rune that `DecodeRune` accepts (anything but an invalid byte): decoding depends only on its own
    bytes, re-encoding gives these bytes back, and it is a valid code point. -/
theorem head_facts (c : Nat) (tl : List Nat) (r w : Nat) (h : decodeHead (c :: tl) = (r, w))
    (hv : ¬ (w = 1 ∧ r = runeError)) :
    (∀ t, decodeHead ((c :: tl).take w ++ t) = (r, w)) ∧ encodeRune r = (c :: tl).take w ∧
      validRune r = true ∧ (r < 0x80 → w = 1 ∧ r = c) ∧ (0x80 ≤ r → 0x80 ≤ c) ∧
      (c :: tl).drop w = tl.drop (w - 1) ∧ 1 ≤ w := by
  unfold decodeHead at h
  simp only [List.getD_cons_zero, List.length_cons, List.getD_cons_succ] at h
  rcases decodeBytes_shape _ _ _ _ _ _ _ h with
    ⟨rfl, h1, rfl⟩ | ⟨rfl, h1, _⟩ | ⟨rfl, hn, a0, a1, a2, a3, rfl⟩ |
    ⟨rfl, hn, a0, a1, a2, a3, a4, a5, rfl⟩ | ⟨rfl, hn, a0, a1, a2, a3, a4, a5, a6, a7, rfl⟩
  · refine ⟨fun t => ?_, ?_, ?_, ?_, ?_, ?_, ?_⟩
    · simpa using decodeHead_ascii r t h1
    · simp [encodeRune, h1]
    · simp only [validRune, decide_eq_true_eq, Bool.or_eq_true]; omega
    · intro _; exact ⟨rfl, rfl⟩
    · intro h; omega
    · simp
    · omega
  · exact absurd ⟨rfl, h1⟩ hv
  · cases tl with
    | nil => simp at hn
    | cons c1 tl =>
      simp only [List.getD_cons_zero] at a2 a3 ⊢
      refine ⟨fun t => ?_, ?_, ?_, ?_, ?_, ?_, ?_⟩
      · simp only [List.take_succ_cons, List.take_zero, List.cons_append, List.nil_append, decodeHead,
          List.getD_cons_zero, List.getD_cons_succ, List.length_cons]
        exact decodeBytes_two _ _ _ _ _ (by omega) a0 a1 a2 a3
      · simp only [encodeRune, List.take_succ_cons, List.take_zero]
        have b1 : ¬ (c % 32 * 64 + c1 % 64 < 0x80) := by omega
        have b2 : c % 32 * 64 + c1 % 64 < 0x800 := by omega
        simp only [b1, b2, if_true, if_false]
        congr 1
        · omega
        · congr 1; omega
      · simp only [validRune, decide_eq_true_eq, Bool.or_eq_true]; omega
      · intro h; omega
      · intro _; omega
      · simp
      · omega
  · cases tl with
    | nil => simp at hn
    | cons c1 tl =>
      cases tl with
      | nil => simp at hn
      | cons c2 tl =>
        simp only [List.getD_cons_zero, List.getD_cons_succ] at a2 a3 a4 a5 ⊢
        refine ⟨fun t => ?_, ?_, ?_, ?_, ?_, ?_, ?_⟩
        · simp only [List.take_succ_cons, List.take_zero, List.cons_append, List.nil_append, decodeHead,
            List.getD_cons_zero, List.getD_cons_succ, List.length_cons]
          exact decodeBytes_three _ _ _ _ _ (by omega) a0 a1 a2 a3 a4 a5
        · simp only [encodeRune, List.take_succ_cons, List.take_zero]
          have hc1 : 0x80 ≤ c1 ∧ c1 ≤ 0xBF := by constructor <;> (split at a2 <;> split at a3 <;> omega)
          have hlo : c = 0xE0 → 0xA0 ≤ c1 := by intro e; simp [e] at a2; exact a2
          have b1 : ¬ (c % 16 * 4096 + c1 % 64 * 64 + c2 % 64 < 0x80) := by omega
          have b2 : ¬ (c % 16 * 4096 + c1 % 64 * 64 + c2 % 64 < 0x800) := by
            by_cases e : c = 0xE0
            · have := hlo e; omega
            · omega
          have b3 : c % 16 * 4096 + c1 % 64 * 64 + c2 % 64 < 0x10000 := by omega
          simp only [b1, b2, b3, if_true, if_false]
          congr 1
          · omega
          · congr 1
            · omega
            · congr 1; omega
        · have hc1 : 0x80 ≤ c1 ∧ c1 ≤ 0xBF := by constructor <;> (split at a2 <;> split at a3 <;> omega)
          have hhi : c = 0xED → c1 ≤ 0x9F := by intro e; simp [e] at a3; exact a3
          simp only [validRune, decide_eq_true_eq, Bool.or_eq_true, Bool.and_eq_true]
          by_cases e : c = 0xED
          · have := hhi e; left; omega
          · by_cases e2 : c < 0xED
            · left; omega
            · right; omega
        · intro h
          have hc1 : 0x80 ≤ c1 ∧ c1 ≤ 0xBF := by constructor <;> (split at a2 <;> split at a3 <;> omega)
          have hlo : c = 0xE0 → 0xA0 ≤ c1 := by intro e; simp [e] at a2; exact a2
          by_cases e : c = 0xE0
          · have := hlo e; omega
          · omega
        · intro _; omega
        · simp
        · omega
  · cases tl with
    | nil => simp at hn
    | cons c1 tl =>
      cases tl with
      | nil => simp at hn
      | cons c2 tl =>
        cases tl with
        | nil => simp at hn
        | cons c3 tl =>
          simp only [List.getD_cons_zero, List.getD_cons_succ] at a2 a3 a4 a5 a6 a7 ⊢
          have hc1 : 0x80 ≤ c1 ∧ c1 ≤ 0xBF := by constructor <;> (split at a2 <;> split at a3 <;> omega)
          have hlo : c = 0xF0 → 0x90 ≤ c1 := by intro e; simp [e] at a2; exact a2
          have hhi : c = 0xF4 → c1 ≤ 0x8F := by intro e; simp [e] at a3; exact a3
          refine ⟨fun t => ?_, ?_, ?_, ?_, ?_, ?_, ?_⟩
          · simp only [List.take_succ_cons, List.take_zero, List.cons_append, List.nil_append, decodeHead,
              List.getD_cons_zero, List.getD_cons_succ, List.length_cons]
            exact decodeBytes_four _ _ _ _ _ (by omega) a0 a1 a2 a3 a4 a5 a6 a7
          · simp only [encodeRune, List.take_succ_cons, List.take_zero]
            have b3 : ¬ (c % 8 * 262144 + c1 % 64 * 4096 + c2 % 64 * 64 + c3 % 64 < 0x10000) := by
              by_cases e : c = 0xF0
              · have := hlo e; omega
              · omega
            have b1 : ¬ (c % 8 * 262144 + c1 % 64 * 4096 + c2 % 64 * 64 + c3 % 64 < 0x80) := by omega
            have b2 : ¬ (c % 8 * 262144 + c1 % 64 * 4096 + c2 % 64 * 64 + c3 % 64 < 0x800) := by omega
            simp only [b1, b2, b3, if_false]
            congr 1
            · omega
            · congr 1
              · omega
              · congr 1
                · omega
                · congr 1; omega
          · simp only [validRune, decide_eq_true_eq, Bool.or_eq_true, Bool.and_eq_true]
            right
            by_cases e : c = 0xF4
            · have := hhi e; omega
            · omega
          · intro h; omega
          · intro _; omega
          · simp
          · omega

theorem head_width (c : Nat) (tl : List Nat) :
    1 ≤ (decodeHead (c :: tl)).2 ∧ (decodeHead (c :: tl)).2 ≤ (c :: tl).length := by
  have := decodeBytes_spec (c :: tl).length ((c :: tl).getD 0 0) ((c :: tl).getD 1 0) ((c :: tl).getD 2 0)
    ((c :: tl).getD 3 0) (by simp) (decodeHead (c :: tl)).1 (decodeHead (c :: tl)).2 rfl
  exact ⟨this.1, this.2.1⟩

/-! ### the lexer's scan for the closing quote, on byte lists -/

/-- `lexValue`'s loop (escapes on, end token `"`) on the unread bytes: `esc` = the previous rune was an
    unescaped backslash; result = what is left after the closing quote -/
def scan : Nat → List Nat → Bool → Option (List Nat)
  | 0, _, _ => none
  | _+1, [], _ => none
  | f+1, c :: cs, esc =>
    if (decodeHead (c :: cs)).1 = 34 ∧ esc = false then some ((c :: cs).drop (decodeHead (c :: cs)).2)
    else scan f ((c :: cs).drop (decodeHead (c :: cs)).2) (!esc && (decodeHead (c :: cs)).1 == 92)

theorem scan_mono1 : ∀ (f : Nat) (u : List Nat) (e : Bool) (x : List Nat),
    scan f u e = some x → scan (f+1) u e = some x
  | 0, _, _, _, h => by simp [scan] at h
  | f+1, [], _, _, h => by simp [scan] at h
  | f+1, c :: cs, e, x, h => by
    rw [scan] at h ⊢
    split
    · rename_i hc; simpa [hc] using h
    · rename_i hc; simp only [hc, if_false] at h; exact scan_mono1 f _ _ _ h

theorem scan_mono (f g : Nat) (hfg : f ≤ g) (u : List Nat) (e : Bool) (x : List Nat)
    (h : scan f u e = some x) : scan g u e = some x := by
  induction hfg with
  | refl => exact h
  | step _ ih => exact scan_mono1 _ _ _ _ ih

/-- ASCII bytes other than quote and backslash -/
def Plain (l : List Nat) : Prop := ∀ c ∈ l, c < 0x80 ∧ c ≠ 34 ∧ c ≠ 92

theorem scan_plain : ∀ (q : List Nat), Plain q → ∀ (f : Nat) (t x : List Nat),
    scan f t false = some x → scan (f + q.length) (q ++ t) false = some x
  | [], _, f, t, x, h => by simpa using h
  | c :: q, hp, f, t, x, h => by
    have hc := hp c (by simp)
    have ih := scan_plain q (fun d hd => hp d (by simp [hd])) f t x h
    have : f + (c :: q).length = (f + q.length) + 1 := by simp; omega
    have hb : (c == 92) = false := by simp [hc.2.2]
    rw [this, List.cons_append, scan, decodeHead_ascii c _ hc.1]
    simp only [hc.2.1, false_and, if_false, hb, Bool.and_false, List.drop_succ_cons, List.drop_zero]
    exact ih

/-- an escape sequence: backslash, an ASCII byte, plain bytes -/
theorem scan_escape (e : Nat) (he : e < 0x80) (q : List Nat) (hq : Plain q) (f : Nat) (t x : List Nat)
    (h : scan f t false = some x) : scan (f + (2 + q.length)) (92 :: e :: (q ++ t)) false = some x := by
  have ih := scan_plain q hq f t x h
  have : f + (2 + q.length) = (f + q.length) + 1 + 1 := by omega
  rw [this, scan, decodeHead_ascii 92 _ (by omega)]
  simp only [List.drop_succ_cons, List.drop_zero, Nat.reduceEqDiff, false_and, if_false, Bool.not_false,
    beq_self_eq_true, Bool.and_self]
  rw [scan, decodeHead_ascii e _ he]
  simp
  exact ih

theorem hexDigit_plain (d : Nat) (h : d < 16) : hexDigit d < 0x80 ∧ hexDigit d ≠ 34 ∧ hexDigit d ≠ 92 := by
  unfold hexDigit; split <;> omega

theorem hex2_plain (n : Nat) : Plain (hex2 n) := by
  intro c hc
  simp only [hex2, List.mem_cons, List.mem_nil_iff, or_false] at hc
  rcases hc with rfl | rfl <;> exact hexDigit_plain _ (Nat.mod_lt _ (by omega))

theorem hex4_plain (n : Nat) : Plain (hex4 n) := by
  intro c hc
  simp only [hex4, List.mem_cons, List.mem_nil_iff, or_false] at hc
  rcases hc with rfl | rfl | rfl | rfl <;> exact hexDigit_plain _ (Nat.mod_lt _ (by omega))

theorem hex8_plain (n : Nat) : Plain (hex8 n) := by
  intro c hc
  simp only [hex8, List.mem_append, List.mem_cons, List.mem_nil_iff, or_false] at hc
  rcases hc with (rfl | rfl | rfl | rfl) | hc
  · exact hexDigit_plain _ (Nat.mod_lt _ (by omega))
  · exact hexDigit_plain _ (Nat.mod_lt _ (by omega))
  · exact hexDigit_plain _ (Nat.mod_lt _ (by omega))
  · exact hexDigit_plain _ (Nat.mod_lt _ (by omega))
  · exact hex4_plain n c hc

/-- every way `quotePiece` can go, with what is known in that branch -/
theorem quotePiece_cases (l : List Nat) (r w : Nat) (p : List Nat) (hp : quotePiece ip l r w = p) :
    (w = 1 ∧ r = runeError ∧ p = [92, 120] ++ hex2 (l.getD 0 0)) ∨
    (¬ (w = 1 ∧ r = runeError) ∧
      ((r = 34 ∧ p = [92, 34]) ∨ (r = 92 ∧ p = [92, 92]) ∨
       (r ≠ 34 ∧ r ≠ 92 ∧ ip r = true ∧ p = l.take w) ∨
       (r ≠ 34 ∧ r ≠ 92 ∧ ip r = false ∧
         ((r = 7 ∧ p = [92, 97]) ∨ (r = 8 ∧ p = [92, 98]) ∨ (r = 12 ∧ p = [92, 102]) ∨
          (r = 10 ∧ p = [92, 110]) ∨ (r = 13 ∧ p = [92, 114]) ∨ (r = 9 ∧ p = [92, 116]) ∨
          (r = 11 ∧ p = [92, 118]) ∨
          ((r < 0x20 ∨ r = 0x7F) ∧ p = [92, 120] ++ hex2 r) ∨
          (¬ (r < 0x20 ∨ r = 0x7F) ∧ r < 0x10000 ∧ p = [92, 117] ++ hex4 r) ∨
          (¬ r < 0x10000 ∧ p = [92, 85] ++ hex8 r))))) := by
  unfold quotePiece at hp
  by_cases h1 : (w = 1 && r = runeError) = true
  · rw [if_pos h1] at hp
    simp only [Bool.and_eq_true, decide_eq_true_eq] at h1
    exact Or.inl ⟨h1.1, h1.2, hp.symm⟩
  rw [if_neg h1] at hp
  have hbad' : ¬ (w = 1 ∧ r = runeError) := by
    intro hh; apply h1; simp [hh.1, hh.2]
  refine Or.inr ⟨hbad', ?_⟩
  by_cases h34 : r = 34
  · rw [if_pos h34] at hp; exact Or.inl ⟨h34, hp.symm⟩
  rw [if_neg h34] at hp
  by_cases h92 : r = 92
  · rw [if_pos h92] at hp; exact Or.inr (Or.inl ⟨h92, hp.symm⟩)
  rw [if_neg h92] at hp
  by_cases hpr : ip r = true
  · rw [if_pos hpr] at hp; exact Or.inr (Or.inr (Or.inl ⟨h34, h92, hpr, hp.symm⟩))
  rw [if_neg hpr] at hp
  have hnp' : ip r = false := by simpa using hpr
  refine Or.inr (Or.inr (Or.inr ⟨h34, h92, hnp', ?_⟩))
  by_cases k1 : r = 7
  · rw [if_pos k1] at hp; exact Or.inl ⟨k1, hp.symm⟩
  rw [if_neg k1] at hp
  by_cases k2 : r = 8
  · rw [if_pos k2] at hp; exact Or.inr (Or.inl ⟨k2, hp.symm⟩)
  rw [if_neg k2] at hp
  by_cases k3 : r = 12
  · rw [if_pos k3] at hp; exact Or.inr (Or.inr (Or.inl ⟨k3, hp.symm⟩))
  rw [if_neg k3] at hp
  by_cases k4 : r = 10
  · rw [if_pos k4] at hp; exact Or.inr (Or.inr (Or.inr (Or.inl ⟨k4, hp.symm⟩)))
  rw [if_neg k4] at hp
  by_cases k5 : r = 13
  · rw [if_pos k5] at hp; exact Or.inr (Or.inr (Or.inr (Or.inr (Or.inl ⟨k5, hp.symm⟩))))
  rw [if_neg k5] at hp
  by_cases k6 : r = 9
  · rw [if_pos k6] at hp; exact Or.inr (Or.inr (Or.inr (Or.inr (Or.inr (Or.inl ⟨k6, hp.symm⟩)))))
  rw [if_neg k6] at hp
  by_cases k7 : r = 11
  · rw [if_pos k7] at hp
    exact Or.inr (Or.inr (Or.inr (Or.inr (Or.inr (Or.inr (Or.inl ⟨k7, hp.symm⟩))))))
  rw [if_neg k7] at hp
  by_cases k8 : (decide (r < 0x20) || decide (r = 0x7F)) = true
  · rw [if_pos k8] at hp
    simp only [Bool.or_eq_true, decide_eq_true_eq] at k8
    exact Or.inr (Or.inr (Or.inr (Or.inr (Or.inr (Or.inr (Or.inr (Or.inl ⟨k8, hp.symm⟩)))))))
  rw [if_neg k8] at hp
  simp only [Bool.or_eq_true, decide_eq_true_eq] at k8
  by_cases k9 : r < 0x10000
  · rw [if_pos k9] at hp
    exact Or.inr (Or.inr (Or.inr (Or.inr (Or.inr (Or.inr (Or.inr (Or.inr (Or.inl ⟨k8, k9, hp.symm⟩))))))))
  rw [if_neg k9] at hp
  exact Or.inr (Or.inr (Or.inr (Or.inr (Or.inr (Or.inr (Or.inr (Or.inr (Or.inr ⟨k9, hp.symm⟩))))))))

/-- The scan passes over what `strconv.Quote` writes for one rune and is un-escaped afterwards. -/
theorem scan_piece (c : Nat) (tl : List Nat) (r w : Nat) (hd : decodeHead (c :: tl) = (r, w))
    (f : Nat) (t x : List Nat) (h : scan f t false = some x) :
    scan (f + (quotePiece ip (c :: tl) r w).length) (quotePiece ip (c :: tl) r w ++ t) false = some x := by
  have esc2 : ∀ e, e < 0x80 → scan (f + [92, e].length) ([92, e] ++ t) false = some x := by
    intro e he
    have := scan_escape e he [] (by intro c hc; simp at hc) f t x h
    simpa using this
  have escq : ∀ e q, e < 0x80 → Plain q → scan (f + ([92, e] ++ q).length) (([92, e] ++ q) ++ t) false = some x := by
    intro e q he hq
    have := scan_escape e he q hq f t x h
    have e1 : f + ([92, e] ++ q).length = f + (2 + q.length) := by simp; omega
    rw [e1]
    simpa [List.append_assoc] using this
  rcases quotePiece_cases ip (c :: tl) r w _ rfl with ⟨_, _, hp⟩ | ⟨hv, hrest⟩
  · rw [hp]; exact escq 120 _ (by omega) (hex2_plain _)
  · rcases hrest with ⟨_, hp⟩ | ⟨_, hp⟩ | ⟨h34, h92, _, hp⟩ | ⟨_, _, _, hrest⟩
    · rw [hp]; exact esc2 34 (by omega)
    · rw [hp]; exact esc2 92 (by omega)
    · -- printable: the bytes themselves
      rw [hp]
      obtain ⟨hpre, _, _, hasc, _, hdrop, hw1⟩ := head_facts c tl r w hd hv
      have hw := head_width c tl
      rw [hd] at hw
      have hlen : ((c :: tl).take w).length = w := by
        simp only [List.length_take]; simp only at hw; omega
      by_cases hr : r < 0x80
      · obtain ⟨rfl, rfl⟩ := hasc hr
        have : Plain [r] := by intro d hd; simp at hd; subst hd; exact ⟨hr, h34, h92⟩
        simpa using scan_plain [r] this f t x h
      · cases hl : (c :: tl).take w with
        | nil => rw [hl] at hlen; simp at hlen; omega
        | cons p0 ps =>
          rw [hl] at hlen hpre
          have hf : f + (p0 :: ps).length = (f + (w - 1)) + 1 := by rw [hlen]; omega
          rw [hf, List.cons_append, scan]
          have := hpre t
          rw [List.cons_append] at this
          rw [this]
          dsimp only
          have hdr : (p0 :: (ps ++ t)).drop w = t := by
            have : p0 :: (ps ++ t) = (p0 :: ps) ++ t := rfl
            rw [this, List.drop_append_of_le_length (by rw [hlen]; exact Nat.le_refl _)]
            simp [← hlen]
          rw [hdr]
          have h92' : (r == 92) = false := by simpa using h92
          simp only [h34, false_and, if_false, h92', Bool.and_false]
          exact scan_mono _ _ (by omega) _ _ _ h
    · rcases hrest with ⟨_, hp⟩ | ⟨_, hp⟩ | ⟨_, hp⟩ | ⟨_, hp⟩ | ⟨_, hp⟩ | ⟨_, hp⟩ | ⟨_, hp⟩ | ⟨_, hp⟩ |
        ⟨_, _, hp⟩ | ⟨_, hp⟩
      all_goals rw [hp]
      all_goals first
        | exact esc2 _ (by omega)
        | exact escq _ _ (by omega) (hex2_plain _)
        | exact escq _ _ (by omega) (hex4_plain _)
        | exact escq _ _ (by omega) (hex8_plain _)

/-- The scan for the closing quote stops exactly behind the quoted text, whatever follows. -/
theorem scan_body : ∀ (f : Nat) (v rest : List Nat),
    scan ((quoteBody ip f v).length + 1) (quoteBody ip f v ++ 34 :: rest) false = some rest
  | 0, v, rest => by simp [quoteBody, scan, decodeHead_ascii 34 rest (by omega)]
  | f+1, [], rest => by simp [quoteBody, scan, decodeHead_ascii 34 rest (by omega)]
  | f+1, c :: cs, rest => by
    have ih := scan_body f ((c :: cs).drop (decodeHead (c :: cs)).2) rest
    have := scan_piece ip c cs (decodeHead (c :: cs)).1 (decodeHead (c :: cs)).2 rfl _ _ _ ih
    simp only [quoteBody, List.length_append, List.append_assoc]
    have e : (quotePiece ip (c :: cs) (decodeHead (c :: cs)).1 (decodeHead (c :: cs)).2).length +
        (quoteBody ip f ((c :: cs).drop (decodeHead (c :: cs)).2)).length + 1 =
        (quoteBody ip f ((c :: cs).drop (decodeHead (c :: cs)).2)).length + 1 +
        (quotePiece ip (c :: cs) (decodeHead (c :: cs)).1 (decodeHead (c :: cs)).2).length := by omega
    rw [e]; exact this

/-! ### unquoting -/

theorem hexv_hexDigit (d : Nat) (h : d < 16) : hexv (hexDigit d) = some d := by
  unfold hexv hexDigit
  by_cases h10 : d < 10
  · have a : (decide (48 ≤ 48 + d) && decide (48 + d ≤ 57)) = true := by simp; omega
    rw [if_pos h10, if_pos a]; congr 1; omega
  · have a : ¬ (decide (48 ≤ 87 + d) && decide (87 + d ≤ 57)) = true := by simp; omega
    have b : (decide (97 ≤ 87 + d) && decide (87 + d ≤ 102)) = true := by simp; omega
    rw [if_neg h10, if_neg a, if_pos b]; congr 1; omega

theorem hexN2 (b : Nat) (hb : b < 256) (t : List Nat) : hexN 2 (hex2 b ++ t) = some (b, t) := by
  simp only [hex2, List.cons_append, List.nil_append, hexN,
    hexv_hexDigit _ (Nat.mod_lt _ (by omega : 0 < 16)), Option.map_some]
  congr 2; omega

theorem hexN4 (b : Nat) (hb : b < 65536) (t : List Nat) : hexN 4 (hex4 b ++ t) = some (b, t) := by
  simp only [hex4, List.cons_append, List.nil_append, hexN,
    hexv_hexDigit _ (Nat.mod_lt _ (by omega : 0 < 16)), Option.map_some]
  congr 2; omega

theorem hexN8 (b : Nat) (hb : b < 4294967296) (t : List Nat) : hexN 8 (hex8 b ++ t) = some (b, t) := by
  simp only [hex8, hex4, List.cons_append, List.nil_append, hexN,
    hexv_hexDigit _ (Nat.mod_lt _ (by omega : 0 < 16)), Option.map_some]
  congr 2; omega

theorem decodeRune_toArray (c : Nat) (l : List Nat) : decodeRune (c :: l).toArray 0 = decodeHead (c :: l) := by
  match l with
  | [] => simp [decodeRune, decodeHead, Array.getD, List.getD]
  | [a] => simp [decodeRune, decodeHead, Array.getD, List.getD]
  | [a, b] => simp [decodeRune, decodeHead, Array.getD, List.getD]
  | a :: b :: d :: tl => simp [decodeRune, decodeHead, Array.getD, List.getD]

theorem unq_other (fuel c : Nat) (rest : List Nat) (h10 : c ≠ 10) (h34 : c ≠ 34) (h92 : c ≠ 92) :
    unquoteBody (fuel+1) (c :: rest) =
      if c < 0x80 then (unquoteBody fuel rest).map (c :: ·)
      else (unquoteBody fuel ((c :: rest).drop (decodeHead (c :: rest)).2)).map
        (encodeRune (decodeHead (c :: rest)).1 ++ ·) := by
  rw [unquoteBody]
  · split
    · rfl
    · simp only [decodeRune_toArray]
  all_goals (intros; simp_all)

theorem unq_esc_simple (fuel e b : Nat) (t : List Nat)
    (h : (e = 97 ∧ b = 7) ∨ (e = 98 ∧ b = 8) ∨ (e = 102 ∧ b = 12) ∨ (e = 110 ∧ b = 10) ∨ (e = 114 ∧ b = 13) ∨
      (e = 116 ∧ b = 9) ∨ (e = 118 ∧ b = 11) ∨ (e = 92 ∧ b = 92) ∨ (e = 34 ∧ b = 34)) :
    unquoteBody (fuel+1) (92 :: e :: t) = (unquoteBody fuel t).map (b :: ·) := by
  rcases h with ⟨rfl, rfl⟩ | ⟨rfl, rfl⟩ | ⟨rfl, rfl⟩ | ⟨rfl, rfl⟩ | ⟨rfl, rfl⟩ | ⟨rfl, rfl⟩ | ⟨rfl, rfl⟩ |
    ⟨rfl, rfl⟩ | ⟨rfl, rfl⟩ <;> simp [unquoteBody]

theorem unq_esc_x (fuel b : Nat) (hb : b < 256) (t : List Nat) :
    unquoteBody (fuel+1) (92 :: 120 :: (hex2 b ++ t)) = (unquoteBody fuel t).map (b :: ·) := by
  simp [unquoteBody, hexN2 b hb t]

theorem unq_esc_u (fuel r : Nat) (hr : r < 65536) (hv : validRune r = true) (t : List Nat) :
    unquoteBody (fuel+1) (92 :: 117 :: (hex4 r ++ t)) = (unquoteBody fuel t).map (encodeRune r ++ ·) := by
  simp [unquoteBody, hexN4 r hr t, hv]

theorem unq_esc_U (fuel r : Nat) (hr : r < 4294967296) (hv : validRune r = true) (t : List Nat) :
    unquoteBody (fuel+1) (92 :: 85 :: (hex8 r ++ t)) = (unquoteBody fuel t).map (encodeRune r ++ ·) := by
  simp [unquoteBody, hexN8 r hr t, hv]

/-- Unquoting what `strconv.Quote` wrote for one rune gives the bytes of that rune back. -/
theorem unq_piece (h10 : ip 10 = false) (c : Nat) (tl : List Nat) (r w : Nat) (hd : decodeHead (c :: tl) = (r, w)) (hc : c < 256)
    (fuel : Nat) (t : List Nat) :
    unquoteBody (fuel+1) (quotePiece ip (c :: tl) r w ++ t) =
      (unquoteBody fuel t).map ((c :: tl).take w ++ ·) := by
  rcases quotePiece_cases ip (c :: tl) r w _ rfl with ⟨rfl, _, hp⟩ | ⟨hv, hrest⟩
  · rw [hp]
    exact unq_esc_x fuel c hc t
  · obtain ⟨hpre, henc, hval, hasc, hge, hdrop, hw1⟩ := head_facts c tl r w hd hv
    have hr32 : r < 4294967296 := by
      simp only [validRune, Bool.or_eq_true, decide_eq_true_eq, Bool.and_eq_true] at hval; omega
    rcases hrest with ⟨h, hp⟩ | ⟨h, hp⟩ | ⟨h34, h92, hpr, hp⟩ | ⟨h34, h92, hnp, hrest⟩
    · subst h
      obtain ⟨rfl, rfl⟩ := hasc (by omega)
      rw [hp]; exact unq_esc_simple fuel 34 34 t (by simp)
    · subst h
      obtain ⟨rfl, rfl⟩ := hasc (by omega)
      rw [hp]; exact unq_esc_simple fuel 92 92 t (by simp)
    · rw [hp]
      by_cases hr : r < 0x80
      · obtain ⟨rfl, rfl⟩ := hasc hr
        have h10 : r ≠ 10 := by
          intro e; subst e; rw [h10] at hpr; simp at hpr
        simp only [List.take_succ_cons, List.take_zero, List.cons_append, List.nil_append]
        rw [unq_other fuel r t h10 h34 h92, if_pos hr]
      · have hc80 : 0x80 ≤ c := hge (by omega)
        cases hl : (c :: tl).take w with
        | nil =>
          have : ((c :: tl).take w).length = 0 := by rw [hl]; rfl
          simp only [List.length_take, List.length_cons] at this; omega
        | cons p0 ps =>
          have hp0 : p0 = c := by
            have : ((c :: tl).take w).head? = some c := by
              cases w with
              | zero => omega
              | succ w => simp
            rw [hl] at this; simpa using this
          subst hp0
          rw [List.cons_append, unq_other fuel p0 (ps ++ t) (by omega) (by omega) (by omega),
            if_neg (by omega)]
          have := hpre t
          rw [hl, List.cons_append] at this
          rw [this]
          dsimp only
          have hw := head_width p0 tl
          rw [hd] at hw
          have hlen : (p0 :: ps).length = w := by
            rw [← hl]; simp only [List.length_take]; simp only at hw; omega
          have hdr : (p0 :: (ps ++ t)).drop w = t := by
            have e : p0 :: (ps ++ t) = (p0 :: ps) ++ t := rfl
            rw [e, List.drop_append_of_le_length (by rw [hlen]; exact Nat.le_refl _)]
            simp [← hlen]
          rw [hdr, henc, hl]
    · have hlt : ∀ k, r = k → k < 0x80 → w = 1 ∧ r = c := fun k e hk => hasc (by omega)
      rcases hrest with ⟨h, hp⟩ | ⟨h, hp⟩ | ⟨h, hp⟩ | ⟨h, hp⟩ | ⟨h, hp⟩ | ⟨h, hp⟩ | ⟨h, hp⟩ | ⟨h, hp⟩ |
        ⟨h, h2, hp⟩ | ⟨h, hp⟩
      · subst h
        obtain ⟨rfl, rfl⟩ := hasc (by omega)
        rw [hp]; exact unq_esc_simple fuel 97 7 t (by simp)
      · subst h
        obtain ⟨rfl, rfl⟩ := hasc (by omega)
        rw [hp]; exact unq_esc_simple fuel 98 8 t (by simp)
      · subst h
        obtain ⟨rfl, rfl⟩ := hasc (by omega)
        rw [hp]; exact unq_esc_simple fuel 102 12 t (by simp)
      · subst h
        obtain ⟨rfl, rfl⟩ := hasc (by omega)
        rw [hp]; exact unq_esc_simple fuel 110 10 t (by simp)
      · subst h
        obtain ⟨rfl, rfl⟩ := hasc (by omega)
        rw [hp]; exact unq_esc_simple fuel 114 13 t (by simp)
      · subst h
        obtain ⟨rfl, rfl⟩ := hasc (by omega)
        rw [hp]; exact unq_esc_simple fuel 116 9 t (by simp)
      · subst h
        obtain ⟨rfl, rfl⟩ := hasc (by omega)
        rw [hp]; exact unq_esc_simple fuel 118 11 t (by simp)
      · have hr : r < 0x80 := by omega
        obtain ⟨rfl, rfl⟩ := hasc hr
        rw [hp]; exact unq_esc_x fuel r (by omega) t
      · rw [hp, ← henc]; exact unq_esc_u fuel r h2 hval t
      · rw [hp, ← henc]; exact unq_esc_U fuel r hr32 hval t

theorem drop_len (c : Nat) (cs : List Nat) :
    ((c :: cs).drop (decodeHead (c :: cs)).2).length < (c :: cs).length := by
  have := head_width c cs
  simp only [List.length_drop]; omega

theorem piece_pos (c : Nat) (tl : List Nat) (r w : Nat) (hd : decodeHead (c :: tl) = (r, w)) :
    0 < (quotePiece ip (c :: tl) r w).length := by
  rcases quotePiece_cases ip (c :: tl) r w _ rfl with ⟨_, _, hp⟩ | ⟨_, hrest⟩
  · rw [hp]; simp
  · rcases hrest with ⟨_, hp⟩ | ⟨_, hp⟩ | ⟨_, _, _, hp⟩ | ⟨_, _, _, hrest⟩
    · rw [hp]; simp
    · rw [hp]; simp
    · rw [hp]
      have hw := head_width c tl
      rw [hd] at hw
      simp only [List.length_take, List.length_cons]; simp only at hw; omega
    · rcases hrest with ⟨_, hp⟩ | ⟨_, hp⟩ | ⟨_, hp⟩ | ⟨_, hp⟩ | ⟨_, hp⟩ | ⟨_, hp⟩ | ⟨_, hp⟩ | ⟨_, hp⟩ |
        ⟨_, _, hp⟩ | ⟨_, hp⟩ <;> (rw [hp]; simp)

/-- Unquoting the quoted text gives the value back — every byte string. -/
theorem unq_body (h10 : ip 10 = false) : ∀ (f : Nat) (v : List Nat) (fuel : Nat), v.length < f → (quoteBody ip f v).length < fuel →
    (∀ b ∈ v, b < 256) → unquoteBody fuel (quoteBody ip f v) = some v
  | 0, v, _, hf, _, _ => by omega
  | f+1, [], fuel, _, hfu, _ => by
    cases fuel with
    | zero => simp at hfu
    | succ fuel => simp [quoteBody, unquoteBody]
  | f+1, c :: cs, fuel, hf, hfu, hb => by
    cases fuel with
    | zero => simp at hfu
    | succ fuel =>
      have hlt := drop_len c cs
      have hpp := piece_pos ip c cs (decodeHead (c :: cs)).1 (decodeHead (c :: cs)).2 rfl
      rw [quoteBody, List.length_append] at hfu
      have ih := unq_body h10 f ((c :: cs).drop (decodeHead (c :: cs)).2) fuel
        (by simp only [List.length_cons] at hf hlt ⊢; omega)
        (by omega)
        (fun b hbm => hb b (List.mem_of_mem_drop hbm))
      rw [quoteBody, unq_piece ip h10 c cs (decodeHead (c :: cs)).1 (decodeHead (c :: cs)).2 rfl (hb c (by simp)), ih]
      simp

/-! ### bridge to the lexer state `L` -/

/-- the unread bytes -/
def rem (l : L) : List Nat := l.inp.toList.drop l.pos

theorem decodeRune_rem (l : L) : decodeRune l.inp l.pos = decodeHead (rem l) := by
  have key : ∀ i, (if h : i < l.inp.size then l.inp[i] else 0) = l.inp[i]?.getD 0 := by
    intro i; split <;> simp [*]
  simp [decodeRune, decodeHead, rem, Array.getD, List.getD, List.getElem?_drop, key]

theorem rem_nil_iff (l : L) : rem l = [] ↔ l.inp.size ≤ l.pos := by
  simp [rem, List.drop_eq_nil_iff]

/-- one `next` on a state with unread bytes -/
theorem next_rem (l : L) (c : Nat) (cs : List Nat) (h : rem l = c :: cs) :
    (l.next).2 = some (decodeHead (c :: cs)).1 ∧ rem (l.next).1 = (c :: cs).drop (decodeHead (c :: cs)).2 ∧
      (l.next).1.inp = l.inp ∧ (l.next).1.start = l.start ∧ (l.next).1.toks = l.toks ∧
      (l.next).1.skippedNl = l.skippedNl ∧ (l.next).1.pos = l.pos + (decodeHead (c :: cs)).2 := by
  have hlt : ¬ l.pos ≥ l.inp.size := by
    intro hge
    have := (rem_nil_iff l).2 hge
    rw [h] at this; simp at this
  unfold L.next
  rw [if_neg hlt, decodeRune_rem, h]
  refine ⟨rfl, ?_, rfl, rfl, rfl, rfl, rfl⟩
  simp only [rem] at h ⊢
  rw [← h, List.drop_drop]

/-- `lexValue`'s loop on `L` follows `scan` on the unread bytes. -/
theorem loop_bridge : ∀ (fuel : Nat) (lp : L) (esc : Bool) (ln lnl : Nat) (x : List Nat),
    scan fuel (rem lp) esc = some x →
    ∃ l' ln' lnl', lexValueLoop true (some 34) fuel (lp.next).1 (lp.next).2 esc ln lnl = some (l', ln', lnl') ∧
      l'.inp = lp.inp ∧ l'.start = lp.start ∧ l'.toks = lp.toks ∧ l'.skippedNl = lp.skippedNl ∧ rem l' = x ∧
      l'.pos ≤ l'.inp.size
  | 0, _, _, _, _, _, h => by simp [scan] at h
  | fuel+1, lp, esc, ln, lnl, x, h => by
    cases hr : rem lp with
    | nil => rw [hr] at h; simp [scan] at h
    | cons c cs =>
      rw [hr, scan] at h
      obtain ⟨h2, hrem, hinp, hst, htk, hsk, hpos⟩ := next_rem lp c cs hr
      have hple : (lp.next).1.pos ≤ (lp.next).1.inp.size := by
        have hw := (head_width c cs).2
        have hl : (rem lp).length = lp.inp.size - lp.pos := by simp [rem]
        rw [hr] at hl
        simp only [List.length_cons] at hw hl
        rw [hpos, hinp]; omega
      rw [lexValueLoop, h2]
      by_cases hstop : (decodeHead (c :: cs)).1 = 34 ∧ esc = false
      · rw [if_pos hstop] at h
        have hc : ((!true && some (decodeHead (c :: cs)).1 != some 34) ||
            (true && (some (decodeHead (c :: cs)).1 != some 34 || esc))) = false := by
          simp [hstop.1, hstop.2]
        simp only [hc, Bool.false_eq_true, ↓reduceIte]
        refine ⟨_, _, _, rfl, hinp, hst, htk, hsk, ?_, hple⟩
        rw [hrem]; exact Option.some.inj h
      · rw [if_neg hstop] at h
        have hc : ((!true && some (decodeHead (c :: cs)).1 != some 34) ||
            (true && (some (decodeHead (c :: cs)).1 != some 34 || esc))) = true := by
          by_cases e : (decodeHead (c :: cs)).1 = 34
          · have : esc = true := by
              cases esc with
              | true => rfl
              | false => exact absurd ⟨e, rfl⟩ hstop
            simp [this]
          · simp [e]
        simp only [hc, ↓reduceIte]
        rw [← hrem] at h
        obtain ⟨l', ln', lnl', hl, a1, a2, a3, a4, a5, a6⟩ := loop_bridge fuel (lp.next).1
          (!esc && (decodeHead (c :: cs)).1 == 92) _ _ x h
        have hnn : ¬ (((lp.next).1.next).2 = none) := by
          cases hr2 : rem (lp.next).1 with
          | nil =>
            rw [hr2] at h
            cases fuel <;> simp [scan] at h
          | cons c2 cs2 =>
            rw [(next_rem (lp.next).1 c2 cs2 hr2).1]; simp
        rw [if_neg hnn]
        have hesc : (!esc && decide (some (decodeHead (c :: cs)).1 = some 92)) =
            (!esc && (decodeHead (c :: cs)).1 == 92) := by
          congr 1
          by_cases e : (decodeHead (c :: cs)).1 = 92 <;> simp [e]
        rw [hesc]
        exact ⟨l', ln', lnl', hl, a1.trans hinp, a2.trans hst, a3.trans htk, a4.trans hsk, a5, a6⟩

theorem slice_mid : ∀ (pre qb tail : List Nat),
    ((pre ++ 34 :: (qb ++ tail)).take (pre.length + 1 + qb.length)).drop (pre.length + 1) = qb
  | [], qb, tail => by
    have : 0 + 1 + qb.length = qb.length + 1 := by omega
    simp only [List.nil_append, List.length_nil, this, List.take_succ_cons, List.drop_succ_cons, List.drop_zero]
    exact List.take_left' rfl
  | a :: pre, qb, tail => by
    have : (a :: pre).length + 1 + qb.length = (pre.length + 1 + qb.length) + 1 := by simp; omega
    rw [this]
    simp only [List.cons_append, List.take_succ_cons, List.length_cons, List.drop_succ_cons]
    exact slice_mid pre qb tail

theorem next_inp (l : L) : (l.next).1.inp = l.inp := by
  unfold L.next; split <;> rfl

/-- **lex (quoteWith ip v) = v on the real models.** Wherever the text `Ecal.Print.quoteWith ip v` stands in the input
    (after `pre`, before `rest`), `Ecal.Lex.lexValue` — started at its first byte — emits exactly one
    token: a string token with value `v`, `allowEscapes = true`, `identifier = false`, positioned at the
    literal, and stops directly behind the literal. For EVERY byte string `v` (invalid UTF-8, U+FFFD,
    control characters, quotes, backslashes …). -/
theorem lexValue_quote (h10 : ip 10 = false) (l0 : L) (pre v rest : List Nat) (hv : ∀ b ∈ v, b < 256)
    (hinp : l0.inp = (pre ++ (quoteWith ip v ++ rest)).toArray) (hpos : l0.pos = pre.length) :
    ∃ t : Tok, (lexValue l0).2 = Next.token ∧ (lexValue l0).1.toks = l0.toks.push t ∧
      t.id = tSTRING ∧ t.val = v ∧ t.allowEscapes = true ∧ t.identifier = false ∧ t.pos = pre.length ∧
      (lexValue l0).1.pos = pre.length + (quoteWith ip v).length ∧ (lexValue l0).1.inp = l0.inp := by
  -- the quoted text
  generalize hqb : quoteBody ip (v.length + 1) v = qb
  have hq : quoteWith ip v = 34 :: (qb ++ [34]) := by simp [quoteWith, hqb]
  have hsize : l0.inp.size = pre.length + (qb.length + 2 + rest.length) := by
    rw [hinp, hq]; simp; omega
  -- the state after `start := pos`
  let la : L := { l0 with start := l0.pos }
  have hla : rem la = 34 :: (qb ++ 34 :: rest) := by
    show l0.inp.toList.drop l0.pos = _
    rw [hinp, hpos, hq]; simp
  obtain ⟨n1, r1, i1, s1, t1, k1, p1⟩ := next_rem la 34 (qb ++ 34 :: rest) hla
  rw [decodeHead_ascii 34 _ (by omega)] at n1 r1 p1
  simp only [List.drop_succ_cons, List.drop_zero] at r1
  -- the loop
  have hscan : scan (la.next.1.next.1.inp.size + 2) (rem la.next.1) false = some rest := by
    rw [r1]
    have := scan_body ip (v.length + 1) v rest
    rw [hqb] at this
    refine scan_mono _ _ ?_ _ _ _ this
    rw [next_inp, i1]; show qb.length + 1 ≤ l0.inp.size + 2
    omega
  obtain ⟨l', ln', lnl', hloop, a1, a2, a3, a4, a5, a6⟩ :=
    loop_bridge (la.next.1.next.1.inp.size + 2) la.next.1 false (la.next.1.next.1).line (la.next.1.next.1).lastnl rest hscan
  have hinp' : l'.inp = l0.inp := a1.trans i1
  have hstart' : l'.start = pre.length := by rw [a2, s1]; exact hpos
  have hpos' : l'.pos = pre.length + qb.length + 2 := by
    have : (rem l').length = rest.length := by rw [a5]
    simp only [rem, List.length_drop, Array.length_toList] at this
    rw [hinp'] at this a6
    omega
  have hval : l'.slice (l'.start + 1) (l'.pos - 1) = qb := by
    simp only [L.slice, Array.toList_extract, hinp', hinp, hstart', hpos', hq]
    have := slice_mid pre qb (34 :: rest)
    simp only [List.cons_append, List.append_assoc, List.nil_append] at this ⊢
    have e : pre.length + qb.length + 2 - 1 = pre.length + 1 + qb.length := by omega
    rw [e]
    simpa [List.extract] using this
  have hunq : unquoteBody (qb.length + 2) qb = some v := by
    rw [← hqb]; exact unq_body ip h10 (v.length + 1) v _ (by omega) (by omega) hv
  -- put it together
  have hopen : lexValueOpen l0 = (la.next.1, true, some 34) := by
    unfold lexValueOpen
    show (if (la.next).2 = some 114 && _ then _ else _) = _
    rw [n1]; simp
    rfl
  refine ⟨Tok.mk tSTRING l'.start v false true l'.skippedNl l'.stamp.1 l'.stamp.2, ?_⟩
  have hres : lexValue l0 =
      ({ (l'.emit tSTRING v false true) with line := ln', lastnl := lnl' }, Next.token) := by
    unfold lexValue
    rw [hopen]
    dsimp only
    rw [hloop]
    simp only [lexValueClose, if_true, hval]
    have h39 : ¬ ((some 34 : Option Nat) = some 39) := by simp
    rw [if_neg h39, hunq]
  rw [hres]
  refine ⟨rfl, ?_, rfl, rfl, rfl, rfl, hstart', ?_, ?_⟩
  · simp [L.emit, a3, t1]
    rfl
  · show l'.pos = _
    rw [hpos', hq]; simp; omega
  · exact hinp'

end Ecal.C08.QR
