import Ecal.Model.Pool
/-! Lemmas relating the per-worker pool LTS to its counting abstraction. -/
namespace Ecal.Pool

theorem cntOf_cons (p : PC) (pcs : List PC) (c : Cls) :
    cntOf (p :: pcs) c = cntOf pcs c + (if p.cls = c then 1 else 0) := by
  simp [cntOf, List.countP_cons]

theorem cntOf_pos {pcs : List PC} {i : Nat} {p : PC} (h : pcs[i]? = some p) : 0 < cntOf pcs p.cls := by
  induction pcs generalizing i with
  | nil => simp at h
  | cons x xs ih =>
    rw [cntOf_cons]
    cases i with
    | zero => simp at h; subst h; simp
    | succ j => simp at h; have := ih h; omega

theorem cntOf_set {pcs : List PC} {i : Nat} {p : PC} (q : PC) (h : pcs[i]? = some p) :
    cntOf (pcs.set i q) = move p.cls q.cls (cntOf pcs) := by
  funext c
  induction pcs generalizing i with
  | nil => simp at h
  | cons x xs ih =>
    cases i with
    | zero =>
      simp at h; subst h
      simp only [List.set_cons_zero, cntOf_cons, move]
      by_cases h1 : c = x.cls <;> by_cases h2 : c = q.cls <;> simp [h1, h2, eq_comm] <;> omega
    | succ j =>
      simp at h
      have hp := cntOf_pos h
      simp only [List.set_cons_succ, cntOf_cons, ih h, move]
      by_cases h1 : c = p.cls
      · subst h1; simp; omega
      · simp [h1]; omega

theorem cls_waiting (p : PC) : p.cls = .waiting ↔ p = .waiting := by
  cases p <;> simp [PC.cls] <;> (rename_i b; cases b <;> simp)

theorem cntOf_wakeAll (pcs : List PC) : cntOf (wakeAll pcs) = cwakeAll (cntOf pcs) := by
  funext c
  induction pcs with
  | nil => simp [wakeAll, cntOf, cwakeAll]
  | cons x xs ih =>
    have ih' : cntOf (wakeAll xs) c = cwakeAll (cntOf xs) c := ih
    have : wakeAll (x :: xs) = (if x = .waiting then .woken else x) :: wakeAll xs := by simp [wakeAll]
    rw [this, cntOf_cons, ih']
    by_cases hx : x = .waiting
    · subst hx
      simp only [cwakeAll, cntOf_cons, PC.cls, if_true]
      by_cases h1 : c = .waiting
      · subst h1; simp
      · by_cases h2 : c = .woken
        · subst h2; simp; omega
        · simp [h1, h2, eq_comm]
    · have hc : x.cls ≠ .waiting := fun h => hx ((cls_waiting x).1 h)
      simp only [hx, if_false, cwakeAll, cntOf_cons]
      by_cases h1 : c = .waiting
      · subst h1; simp [hc]
      · by_cases h2 : c = .woken
        · subst h2; simp [hc]; omega
        · simp [h1, h2]

theorem cntOf_spawn (pcs : List PC) (n : Nat) :
    cntOf (pcs ++ List.replicate n .head) = caddHead n (cntOf pcs) := by
  funext c
  simp only [cntOf, List.countP_append, caddHead, List.countP_replicate]
  by_cases h : c = .head <;> simp [h, PC.cls, eq_comm]

theorem length_set_goto (s : State) (i : Nat) (q : PC) : (s.goto i q).pcs.length = s.pcs.length := by
  simp [State.goto]

end Ecal.Pool

namespace Ecal.Pool

@[simp] theorem clockFree_abs (s : State) : clockFree (abs s) = lockFree s := by
  rfl

theorem abs_goto (s : State) {i : Nat} {p : PC} (q : PC) (h : s.pcs[i]? = some p) :
    abs (s.goto i q) = { abs s with cnt := move p.cls q.cls (abs s).cnt } := by
  simp [abs, State.goto, cntOf_set q h]

theorem mv_abs (s : State) {i : Nat} {p : PC} (q : PC) (h : s.pcs[i]? = some p) :
    (abs s).mv p.cls q.cls = some (abs (s.goto i q)) := by
  have hp := cntOf_pos h
  have hp' : 0 < (abs s).cnt p.cls := hp
  simp [CState.mv, abs_goto s q h, hp']

/-- **Simulation**: the counting abstraction commutes with every step of the repaired
    per-worker protocol. -/
theorem sim_step {s s' : State} {e : Event} (h : step repaired s e = some s') :
    cstep (abs s) (absEvent s e) = some (abs s') := by
  cases e with
  | killExit i =>
    simp only [step] at h
    split at h <;> try (simp at h)
    rename_i hi
    obtain ⟨hk, rfl⟩ := h
    have := mv_abs { s with kill := s.kill - 1 } .exiting (i := i) (p := .head) hi
    simpa [cstep, absEvent, hk, abs, State.goto, PC.cls] using this
  | regIdle i =>
    simp only [step] at h
    split at h <;> try (simp at h)
    rename_i hi
    subst h
    simpa [cstep, absEvent, PC.cls] using mv_abs s .idleReg hi
  | wWait i =>
    simp only [step] at h
    split at h <;> try (simp at h)
    rename_i hi
    subst h
    simpa [cstep, absEvent, PC.cls] using mv_abs s .waiting hi
  | wUnlock i =>
    simp only [step] at h
    split at h <;> try (simp at h)
    rename_i hi
    subst h
    simpa [cstep, absEvent, PC.cls] using mv_abs s .unreg hi
  | unregIdle i =>
    simp only [step] at h
    split at h <;> try (simp at h)
    rename_i hi
    subst h
    simpa [cstep, absEvent, PC.cls] using mv_abs s .head hi
  | exit i =>
    simp only [step] at h
    split at h <;> try (simp at h)
    rename_i hi
    subst h
    simpa [cstep, absEvent, PC.cls] using mv_abs s .gone hi
  | killPass i =>
    simp only [step] at h
    split at h <;> try (simp at h)
    rename_i hi
    obtain ⟨hk, rfl⟩ := h
    have hk' : ¬ 0 < s.kill := by omega
    by_cases hj : s.kill = -1
    · have hb : (s.kill != -1) = false := by simp [hj]
      have := mv_abs s (.chk false) hi
      rw [hb]
      simpa [cstep, absEvent, PC.cls, hk', abs, hb] using this
    · have hb : (s.kill != -1) = true := by simp [hj]
      have := mv_abs s (.chk true) hi
      rw [hb]
      simpa [cstep, absEvent, PC.cls, hk', abs, hb] using this
  | pop i t =>
    simp only [step] at h
    split at h <;> try (simp at h)
    rename_i hi
    rename_i b
    obtain ⟨hmem, rfl⟩ := h
    have hpos : 0 < s.queue.length := List.length_pos_of_mem hmem
    have := mv_abs { s with queue := s.queue.erase t } (.run t) hi
    cases b <;> simpa [cstep, absEvent, PC.cls, abs, hi, State.goto, hpos, List.length_erase_of_mem hmem] using this
  | popNone i =>
    simp only [step] at h
    split at h <;> try (simp at h)
    rename_i ok hi hq
    subst h
    have := mv_abs s (if ok then .noTask else .drained) hi
    cases ok <;> simpa [cstep, absEvent, PC.cls, abs, hq, hi] using this
  | drainExit i =>
    simp only [step] at h
    split at h <;> try (simp at h)
    rename_i hi
    subst h
    have := mv_abs s (if s.kill == -1 then .exiting else .noTask) hi
    by_cases hk : s.kill = -1 <;> simp [hk, PC.cls] at this <;>
      simpa [cstep, absEvent, PC.cls, abs, hk] using this
  | finish i =>
    simp only [step] at h
    split at h <;> try (simp at h)
    rename_i t hi
    subst h
    have := mv_abs { s with done := t :: s.done } .head hi
    simpa [cstep, absEvent, PC.cls, abs, State.goto] using this
  | wLock i =>
    simp only [step] at h
    split at h <;> try (simp at h)
    rename_i hi
    obtain ⟨hl, rfl⟩ := h
    simpa [cstep, absEvent, PC.cls, hl, repaired] using mv_abs s .hasL hi
  | readQ i =>
    simp only [step] at h
    split at h
    · rename_i hi
      simp at h; subst h
      have := mv_abs s (.readQ (!s.queue.isEmpty)) hi
      cases hq : s.queue <;> simp [hq] at this <;> simpa [cstep, absEvent, PC.cls, abs, hq, hi] using this
    · rename_i z hi
      simp at h; subst h
      have := mv_abs s (if s.queue.isEmpty && z then .willWait else .unlocking) hi
      cases z <;> cases hq : s.queue <;> simp [hq, PC.cls] at this <;>
        simpa [cstep, absEvent, PC.cls, abs, hq, hi] using this
    · simp at h
  | readKill i =>
    simp only [step] at h
    split at h
    · rename_i pnd hi
      simp at h; subst h
      have := mv_abs s (if !pnd && s.kill == 0 then .willWait else .unlocking) hi
      cases pnd <;> by_cases hk : s.kill = 0 <;>
        simp [hk, PC.cls] at this <;> simpa [cstep, absEvent, PC.cls, abs, hi, hk] using this
    · rename_i hi
      simp at h; subst h
      by_cases hk : s.kill = 0
      · have hb : (s.kill == 0) = true := by simp [hk]
        have := mv_abs s (.readK true) hi
        rw [hb]
        simpa [cstep, absEvent, PC.cls, abs, hi, hk] using this
      · have hb : (s.kill == 0) = false := by simp [hk]
        have := mv_abs s (.readK false) hi
        rw [hb]
        simpa [cstep, absEvent, PC.cls, abs, hi, hk] using this
    · simp at h
  | wRelock i =>
    simp only [step] at h
    split at h <;> try (simp at h)
    rename_i hi
    obtain ⟨hl, rfl⟩ := h
    simpa [cstep, absEvent, PC.cls, hl] using mv_abs s .unlocking hi
  | wRecheck i =>
    simp only [step] at h
    split at h <;> try (simp at h)
    rename_i hi
    obtain ⟨hl, rfl⟩ := h
    simpa [cstep, absEvent, PC.cls, hl] using mv_abs s .hasL hi
  | aPush t =>
    simp only [step] at h
    simp at h; subst h
    simp [cstep, absEvent, abs]
  | aLock =>
    simp only [step, repaired] at h
    simp at h
    obtain ⟨⟨hp, hl⟩, rfl⟩ := h
    have : clockFree (abs s) = true := by simpa using hl
    simp [cstep, absEvent, this]
    simp [abs, hp]
  | aSignal w =>
    simp only [step, repaired] at h
    simp at h
    obtain ⟨ha, h⟩ := h
    cases w with
    | none =>
      simp at h
      obtain ⟨hw, rfl⟩ := h
      simp [cstep, absEvent, abs, ha, hw]
    | some i =>
      simp at h
      split at h <;> try (simp at h)
      rename_i hi
      subst h
      have := mv_abs { s with adderL := 0 } .woken (i := i) (p := .waiting) hi
      simpa [cstep, absEvent, PC.cls, abs, ha, State.goto] using this
  | swcUp n =>
    simp only [step] at h
    simp at h; subst h
    simp [cstep, absEvent, abs, cntOf_spawn]
  | swcDown k =>
    simp only [step] at h
    simp at h; subst h
    simp [cstep, absEvent, abs]
  | swcSet c =>
    simp only [step] at h
    have hlive : s.live = clive (cntOf s.pcs) := rfl
    rw [hlive] at h
    split at h
    · rename_i h1
      simp at h; subst h
      simp [cstep, absEvent, abs, cntOf_spawn, h1]
    · split at h
      · rename_i h1 h2
        simp at h; subst h
        simp [cstep, absEvent, abs, h1, h2]
      · rename_i h1 h2
        simp at h; subst h
        simp [cstep, absEvent, abs, h1, h2]
  | swcLock =>
    simp only [step] at h
    simp at h
    obtain ⟨⟨hp, hl⟩, rfl⟩ := h
    have : clockFree (abs s) = true := by simpa using hl
    simp [cstep, absEvent, this]
    simp [abs, hp]
  | swcBcast =>
    simp only [step] at h
    simp at h
    obtain ⟨hl, rfl⟩ := h
    simp [cstep, absEvent, abs, hl, cntOf_wakeAll]
  | joinKill =>
    simp only [step] at h
    simp at h; subst h
    simp [cstep, absEvent, abs]
  | bcast =>
    simp only [step] at h
    simp at h; subst h
    simp [cstep, absEvent, abs, cntOf_wakeAll]

end Ecal.Pool
