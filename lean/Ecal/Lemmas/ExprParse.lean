import Ecal.Model.Expr
/-!
# C03 — the Pratt loop re-reads every admissible print (helper lemmas)

`Compat T` collects what is needed from the table `T` (all of it is checked on the
generated table by `decide` in `Props/C03.lean`). `G`/`GI`: every token list related
to a tree by `Spec.Prints` is parsed back to that tree by the relational loop;
`Run.toFun` links the relational loop to the executable fuel-indexed parser on
tokens with ARBITRARY line numbers.
-/
namespace Ecal.Expr
open Spec

def Spec.MCtx.val (T : Table) : MCtx → Nat
  | .top => 0
  | .leftOf o => bp T o - 1
  | .rightOf o => bp T o
  | .operandOf p => pbp T p

def Spec.FCtx.val (T : Table) : FCtx → Nat
  | .none => 0
  | .before o => bp T o

/-- what the proof needs from the table -/
structure Compat (T : Table) : Prop where
  /-- the documented grammar and the binding powers agree on every (context, operator) pair -/
  bin : ∀ mc o, fitsBin mc o = true ↔ mc.val T < bp T o
  pre : ∀ fc p, fitsPre fc p = true ↔ fc.val T ≤ pbp T p
  pos : ∀ o, 0 < bp T o
  rp0 : T.binding .rp = 0
  rb0 : T.binding .rb = 0
  comma0 : T.binding .comma = 0
  /-- literals and identifiers do not bind to the left -/
  atom0 : ∀ a : Atom, T.binding a.kind = 0
  /-- `(` and `[` bind tighter than every operator (so they never follow an operand silently) -/
  lpHigh : ∀ o, bp T o < T.binding .lp
  lbHigh : ∀ o, bp T o < T.binding .lb
  -- denotations
  nudNum : T.nud .num = .term
  nudStr : T.nud .str = .term
  nudIdent : T.nud .ident = .ident
  nudTru : T.nud .tru = .term
  nudFls : T.nud .fls = .term
  nudNull : T.nud .null = .term
  nudLp : T.nud .lp = .inner
  nudLb : T.nud .lb = .list
  nudPre : ∀ p, T.nud (preKind p) = .pre
  ledOp : ∀ o, T.led (.op o) = .infix
  infix0 : T.infixExtra = 0
  infixSub0 : T.infixSub = 0
  inner0 : T.innerBinding = 0
  list0 : T.listBinding = 0

section
variable {T : Table}

theorem fc_lt_lp (H : Compat T) (fc : FCtx) : fc.val T < T.binding .lp := by
  cases fc with
  | none => have := H.lpHigh .plus; simp only [FCtx.val]; omega
  | before o => exact H.lpHigh o

theorem fc_lt_lb (H : Compat T) (fc : FCtx) : fc.val T < T.binding .lb := by
  cases fc with
  | none => have := H.lbHigh .plus; simp only [FCtx.val]; omega
  | before o => exact H.lbHigh o

theorem notOpen_of_lbp (H : Compat T) (fc : FCtx) (rest : List TK) (h : lbp T rest ≤ fc.val T) :
    notOpen rest := by
  match rest with
  | [] => trivial
  | .lp :: _ => have := fc_lt_lp H fc; simp only [lbp, TK.kind] at h; omega
  | .lb :: _ => have := fc_lt_lb H fc; simp only [lbp, TK.kind] at h; omega
  | .atom _ :: _ => trivial
  | .rp :: _ => trivial
  | .rb :: _ => trivial
  | .comma :: _ => trivial
  | .eof :: _ => trivial
  | .not _ :: _ => trivial
  | .op _ _ :: _ => trivial
  | .other _ :: _ => trivial

/-- a print starts with a token that can start an expression -/
theorem Prints.starts : ∀ {e mc fc ts}, Prints e mc fc ts → ∀ rest, startsItem (ts ++ rest)
  | _, _, _, _, .atom, _ => trivial
  | _, _, _, _, .list _, _ => trivial
  | _, _, _, _, @Prints.bin o txt _ _ _ _ tl tr _ hl _, rest => by
    have := Prints.starts hl ((.op o txt :: tr) ++ rest)
    simpa [List.append_assoc] using this
  | _, _, _, _, @Prints.pre p txt _ _ _ _ _ _, _ => by
    cases p <;> trivial
  | _, _, _, _, .paren _, _ => trivial

mutual
theorem G (H : Compat T) : ∀ {e mc fc ts}, Prints e mc fc ts →
    ∀ (m : Nat) (rest : List TK) (e' : Expr) (r' : List TK),
    m ≤ mc.val T → fc.val T ≤ mc.val T + 1 → lbp T rest ≤ fc.val T →
    Loop T m e rest e' r' → Run T m (ts ++ rest) e' r'
  | _, _, fc, _, .atom, m, rest, e', r', _, _, hrest, hl => by
    simp only [List.cons_append, List.nil_append]
    exact Run.atom (notOpen_of_lbp H fc rest hrest) hl
  | _, _, _, _, .list hi, m, rest, e', r', _, _, _, hl => by
    simp only [List.cons_append]
    exact Run.list (GI H hi rest) hl
  | _, mc, fc, _, @Prints.bin o txt l r _ _ tl tr hfit hpl hpr, m, rest, e', r', hm, hf, hrest, hl => by
    have hlt : mc.val T < bp T o := (H.bin mc o).1 hfit
    have hpos := H.pos o
    rw [List.append_assoc]
    apply G H hpl m _ e' r' (by simp only [MCtx.val]; omega) (by simp only [MCtx.val, FCtx.val]; omega)
      (by simp [lbp, FCtx.val, TK.kind, bp])
    simp only [List.cons_append]
    apply Loop.op (by omega) (r := r) (ts' := rest)
    · apply G H hpr (bp T o) rest r rest (by simp [MCtx.val]) (by simp only [MCtx.val]; omega) hrest
      exact Loop.stop (by omega)
    · exact hl
  | _, mc, fc, _, @Prints.pre p txt x _ _ tx hfit hpx, m, rest, e', r', hm, hf, hrest, hl => by
    have hle : fc.val T ≤ pbp T p := (H.pre fc p).1 hfit
    simp only [List.cons_append]
    apply Run.pre (preOf_preTok p txt) (x := x) (ts' := rest)
    · apply G H hpx (pbp T p) rest x rest (by simp [MCtx.val]) (by simp only [MCtx.val]; omega) hrest
      exact Loop.stop (by omega)
    · exact hl
  | e, _, _, _, @Prints.paren _ ts _ _ hp, m, rest, e', r', _, _, _, hl => by
    simp only [List.cons_append, List.append_assoc, List.nil_append]
    apply Run.paren (e1 := e) (ts' := rest)
    · apply G H hp 0 (.rp :: rest) e (.rp :: rest) (by simp [MCtx.val]) (by simp [MCtx.val, FCtx.val])
        (by simp [lbp, TK.kind, H.rp0])
      exact Loop.stop (by simp [lbp, TK.kind, H.rp0])
    · exact hl
theorem GI (H : Compat T) : ∀ {its ts}, PrintsItems its ts → ∀ (rest : List TK), ItemsR T (ts ++ rest) its rest
  | _, _, .nil, rest => by
    simp only [List.cons_append, List.nil_append]
    exact ItemsR.done
  | _, _, @PrintsItems.last e ts hp, rest => by
    rw [List.append_assoc]
    apply ItemsR.cons (ts1 := .rb :: rest)
    · exact Prints.starts hp _
    · apply G H hp 0 _ e _ (by simp [MCtx.val]) (by simp [MCtx.val, FCtx.val]) (by simp [lbp, TK.kind, H.rb0])
      exact Loop.stop (by simp [lbp, TK.kind, H.rb0])
    · simp only [dropCommaK]
      exact ItemsR.done
  | _, _, @PrintsItems.cons e irest ts ts' hp hr, rest => by
    rw [List.append_assoc]
    apply ItemsR.cons (ts1 := .comma :: (ts' ++ rest))
    · exact Prints.starts hp _
    · apply G H hp 0 _ e _ (by simp [MCtx.val]) (by simp [MCtx.val, FCtx.val]) (by simp [lbp, TK.kind, H.comma0])
      exact Loop.stop (by simp [lbp, TK.kind, H.comma0])
    · simp only [dropCommaK]
      exact GI H hr rest
  | _, _, @PrintsItems.juxt e irest ts ts' a tl hp hr hts', rest => by
    rw [List.append_assoc]
    have hd : dropCommaK (ts' ++ rest) = ts' ++ rest := by rw [hts']; rfl
    have hl : lbp T (ts' ++ rest) = 0 := by rw [hts']; simp [lbp, TK.kind, H.atom0]
    apply ItemsR.cons (ts1 := ts' ++ rest)
    · exact Prints.starts hp _
    · apply G H hp 0 _ e _ (by simp [MCtx.val]) (by simp [MCtx.val, FCtx.val]) (by simp [hl])
      exact Loop.stop (by simp [hl])
    · rw [hd]
      exact GI H hr rest
end

/-- relational form of `parse (print e) = e` -/
theorem run_prints (H : Compat T) {e : Expr} {ts : List TK} (hp : Prints e .top .none ts)
    (rest : List TK) (hrest : lbp T rest = 0) : Run T 0 (ts ++ rest) e rest :=
  G H hp 0 rest e rest (by simp [MCtx.val]) (by simp [MCtx.val, FCtx.val]) (by simp [FCtx.val, hrest])
    (Loop.stop (by simp [hrest]))

mutual
/-- the minimal print is an admissible print -/
theorem pr_prints : ∀ (e : Expr) (mc : MCtx) (fc : FCtx), Prints e mc fc (pr e mc fc)
  | .atom a, _, _ => by simp only [pr]; exact Prints.atom
  | .list its, _, _ => by simp only [pr]; exact Prints.list (prItems_prints its)
  | .bin o txt l r, mc, fc => by
    simp only [pr]
    split
    · rename_i h
      exact Prints.bin h (pr_prints l _ _) (pr_prints r _ _)
    · exact Prints.paren (Prints.bin rfl (pr_prints l _ _) (pr_prints r _ _))
  | .pre p txt x, mc, fc => by
    simp only [pr]
    split
    · rename_i h
      exact Prints.pre h (pr_prints x _ _)
    · exact Prints.paren (Prints.pre rfl (pr_prints x _ _))
theorem prItems_prints : ∀ (its : Items), PrintsItems its (prItems its)
  | .nil => by simp only [prItems]; exact PrintsItems.nil
  | .cons e .nil => by simp only [prItems]; exact PrintsItems.last (pr_prints e _ _)
  | .cons e (.cons e2 rest) => by
    simp only [prItems]
    exact PrintsItems.cons (pr_prints e _ _) (prItems_prints (.cons e2 rest))
end

end
end Ecal.Expr
