import Ecal.Lemmas.LexerPos
import Ecal.Lemmas.LexerNum
/-!
Whole-input invariants of the lexer model (C18): what `L.next` consumes, the invariant between
tokens, and its preservation by every lexing function.
-/
namespace Ecal.Lex
open Ecal.Lex.Spec

/-- the fields the scanners never touch -/
def L.core (l : L) : Bytes × Nat × Nat × Nat × Array Tok := (l.inp, l.line, l.lastnl, l.start, l.toks)

theorem decodeRune_spec (b : Bytes) (p : Nat) (hp : p < b.size) :
    1 ≤ (decodeRune b p).2 ∧ p + (decodeRune b p).2 ≤ b.size ∧
    ((decodeRune b p).1 < 128 → (decodeRune b p).2 = 1 ∧ b.getD p 0 = (decodeRune b p).1) ∧
    ((decodeRune b p).1 ≠ 10 → NoNl b p (p + (decodeRune b p).2)) := by
  have h := decodeBytes_spec (b.size - p) (b.getD p 0) (b.getD (p+1) 0) (b.getD (p+2) 0) (b.getD (p+3) 0)
    (by omega) (decodeRune b p).1 (decodeRune b p).2 rfl
  obtain ⟨h1, h2, h3, h4, h5⟩ := h
  refine ⟨h1, by omega, h4, ?_⟩
  intro hne j hj1 hj2
  by_cases hlt : (decodeRune b p).1 < 128
  · obtain ⟨hw, hb⟩ := h4 hlt
    have : j = p := by omega
    subst this; rw [hb]; exact hne
  · obtain ⟨g0, g1, g2, g3⟩ := h5 (by omega)
    have : j = p ∨ j = p + 1 ∨ j = p + 2 ∨ j = p + 3 := by omega
    rcases this with rfl | rfl | rfl | rfl
    · omega
    · have := g1 (by omega); omega
    · have := g2 (by omega); omega
    · have := g3 (by omega); omega

/-- rune `r` was read last (`none` = end of input); it started at offset `p` -/
structure Pend (l : L) (r : Option Nat) (p : Nat) : Prop where
  le : l.pos ≤ l.inp.size
  none_pos : r = none → l.pos = p
  some_pos : ∀ c, r = some c → p < l.inp.size ∧ (decodeRune l.inp p).1 = c ∧
    (decodeRune l.inp p).2 = l.width ∧ l.pos = p + l.width

/-- **next_satisfies_step.** What `L.next` returns: the rune decoded at the old position, which it
    has consumed; nothing but `pos` / `width` changes. -/
theorem next_spec (l : L) (hle : l.pos ≤ l.inp.size) :
    Pend (l.next).1 (l.next).2 l.pos ∧ (l.next).1.core = l.core := by
  unfold L.next
  split
  · exact ⟨⟨hle, fun _ => rfl, fun c h => by simp at h⟩, rfl⟩
  · rename_i h
    have hp : l.pos < l.inp.size := by omega
    obtain ⟨h1, h2, _, _⟩ := decodeRune_spec l.inp l.pos hp
    refine ⟨⟨by simpa using h2, fun h => by simp at h, fun c hc => ?_⟩, rfl⟩
    simp only [Option.some.injEq] at hc
    exact ⟨hp, hc, rfl, rfl⟩

/-- the step hypotheses of `lexer_pos_invariant_step`, for the rune a `Pend` describes -/
theorem Pend.facts {l : L} {r : Option Nat} {p : Nat} (h : Pend l r p) :
    p ≤ l.pos ∧ l.pos ≤ l.inp.size ∧
    (r = some 10 → l.pos = p + 1 ∧ l.inp.getD p 0 = 10) ∧
    (r ≠ some 10 → NoNl l.inp p l.pos) := by
  cases r with
  | none =>
    have := h.none_pos rfl
    refine ⟨by omega, h.le, fun h => by simp at h, fun _ => ?_⟩
    rw [this]; exact noNl_empty _ _
  | some c =>
    obtain ⟨hp, hc, hw, hpos⟩ := h.some_pos c rfl
    obtain ⟨h1, h2, h3, h4⟩ := decodeRune_spec l.inp p hp
    refine ⟨by omega, h.le, ?_, ?_⟩
    · intro h10
      simp only [Option.some.injEq] at h10
      subst h10
      obtain ⟨hw1, hb⟩ := h3 (by omega)
      rw [hc] at hb
      exact ⟨by omega, hb⟩
    · intro hne
      have : (decodeRune l.inp p).1 ≠ 10 := by
        intro h'; apply hne; rw [← hc, h']
      have := h4 this
      rw [hpos, ← hw]; exact this

/-! ### the bookkeeping is "true up to the known `#` staleness" -/

/-- the column base `lastnl` is stale at offset `p` in exactly the known way: the last newline
    before `p` is the final byte of a `#` comment token `c`, and `lastnl` is still the base `c`'s own
    column was computed from -/
def HashBase (inp : Bytes) (toks : List Tok) (lastnl p : Nat) : Prop :=
  ∃ c ∈ toks, c.id = tPOSTCOMMENT ∧ c.pos + c.val.length = lineStart inp p ∧ 0 < lineStart inp p ∧
    c.val.getLast? = some 10 ∧ c.col = (c.pos : Int) - (lastnl : Int) + 1

/-- what that means for a token stamped at `pos` with column `col`: it is measured from the same
    line start as that comment -/
def HashRel (inp : Bytes) (toks : List Tok) (pos : Nat) (col : Int) : Prop :=
  ∃ c ∈ toks, c.id = tPOSTCOMMENT ∧ c.pos + c.val.length = lineStart inp pos ∧ 0 < lineStart inp pos ∧
    c.val.getLast? = some 10 ∧ col - (pos : Int) = c.col - (c.pos : Int)

/-- the column base is right at offset `p`, or it is stale in the known way -/
def ColOK (inp : Bytes) (toks : List Tok) (lastnl p : Nat) : Prop :=
  lastnl = lineStart inp p ∨ HashBase inp toks lastnl p

theorem HashBase.congr {inp : Bytes} {toks : List Tok} {lastnl p q : Nat}
    (h : HashBase inp toks lastnl p) (e : lineStart inp q = lineStart inp p) : HashBase inp toks lastnl q := by
  obtain ⟨c, hc, a1, a2, a3, a4, a5⟩ := h
  exact ⟨c, hc, a1, by rw [e]; exact a2, by rw [e]; exact a3, a4, a5⟩

theorem HashBase.mono {inp : Bytes} {toks : List Tok} {lastnl p : Nat} (more : List Tok)
    (h : HashBase inp toks lastnl p) : HashBase inp (toks ++ more) lastnl p := by
  obtain ⟨c, hc, rest⟩ := h
  exact ⟨c, List.mem_append_left _ hc, rest⟩

theorem HashRel.mono {inp : Bytes} {toks : List Tok} {pos : Nat} {col : Int} (more : List Tok)
    (h : HashRel inp toks pos col) : HashRel inp (toks ++ more) pos col := by
  obtain ⟨c, hc, rest⟩ := h
  exact ⟨c, List.mem_append_left _ hc, rest⟩

/-- the classifier of the known finding holds where the relation does -/
theorem HashRel.classified {inp : Bytes} {toks : List Tok} {pos : Nat} {col : Int}
    (h : HashRel inp toks pos col) : afterHashComment inp toks pos = true := by
  obtain ⟨c, hc, a1, a2, a3, a4, _⟩ := h
  simp only [afterHashComment, Bool.and_eq_true, decide_eq_true_eq, List.any_eq_true]
  exact ⟨a3, c, hc, by simp [a1, a2, a4]⟩

def Tr (inp : Bytes) (toks : List Tok) (p line lastnl : Nat) : Prop :=
  line = nlBefore inp p ∧ ColOK inp toks lastnl p

theorem afterHash_congr {inp : Bytes} {toks : List Tok} {p q : Nat}
    (h : lineStart inp q = lineStart inp p) :
    afterHashComment inp toks q = afterHashComment inp toks p := by
  simp [afterHashComment, h]

theorem afterHash_mono {inp : Bytes} {toks : List Tok} {p : Nat} (more : List Tok)
    (h : afterHashComment inp toks p = true) : afterHashComment inp (toks ++ more) p = true := by
  simp only [afterHashComment, Bool.and_eq_true, List.any_append, Bool.or_eq_true] at h ⊢
  exact ⟨h.1, Or.inl h.2⟩

theorem Tr.noNl {inp : Bytes} {toks : List Tok} {p q line lastnl : Nat}
    (h : Tr inp toks p line lastnl) (hpq : p ≤ q) (hn : NoNl inp p q) : Tr inp toks q line lastnl := by
  obtain ⟨e1, e2⟩ := nlBefore_noNl' hpq hn
  obtain ⟨h1, h2⟩ := h
  refine ⟨by rw [e1]; exact h1, ?_⟩
  rcases h2 with h2 | h2
  · left; rw [e2]; exact h2
  · right; exact h2.congr e2

theorem Tr.step {inp : Bytes} {toks : List Tok} {p q line lastnl : Nat} {r : Option Nat}
    (h : Tr inp toks p line lastnl) (hpq : p ≤ q)
    (hnl : r = some 10 → q = p + 1 ∧ inp.getD p 0 = 10) (hother : r ≠ some 10 → NoNl inp p q) :
    Tr inp toks q (trackPair r q (line, lastnl)).1 (trackPair r q (line, lastnl)).2 := by
  by_cases hr : r = some 10
  · obtain ⟨rfl, h10⟩ := hnl hr
    simp only [trackPair, hr, if_true]
    exact ⟨by simp [nlBefore, h10, h.1], Or.inl (by simp [lineStart, h10])⟩
  · simp only [trackPair, hr, if_false]
    exact h.noNl hpq (hother hr)

theorem Tr.mono {inp : Bytes} {toks : List Tok} {p line lastnl : Nat} (more : List Tok)
    (h : Tr inp toks p line lastnl) : Tr inp (toks ++ more) p line lastnl :=
  ⟨h.1, h.2.imp id (HashBase.mono more)⟩

/-- **Pos is the token's first character.** A token other than a comment starts at a non-blank
    rune inside the input; a comment token's `Pos` is the first byte of the comment text, the
    opener (`#` / `/*`) stands directly before it; the error token of an unterminated block
    comment is positioned like that comment. -/
def StartOK (inp : Bytes) (id pos : Nat) : Prop :=
  if id = tPOSTCOMMENT then 1 ≤ pos ∧ inp.getD (pos - 1) 0 = 35
  else if id = tPRECOMMENT then 2 ≤ pos ∧ inp.getD (pos - 2) 0 = 47 ∧ inp.getD (pos - 1) 0 = 42
  else (pos < inp.size ∧ blank (some (decodeRune inp pos).1) = false) ∨
    (id = tERROR ∧ 2 ≤ pos ∧ inp.getD (pos - 2) 0 = 47 ∧ inp.getD (pos - 1) 0 = 42)

/-- **The text at Pos is the token.** Keywords, symbols, identifiers and comments: the bytes at
    `Pos` are the token value (non-empty except for comments); numbers: the value is the lower-cased
    text of a non-empty stretch at `Pos`; strings and error tokens carry a processed value. -/
def TextOK (inp : Bytes) (id pos : Nat) (val : List Nat) : Prop :=
  if id = tSTRING ∨ id = tERROR then True
  else if id = tNUMBER then ∃ e, pos < e ∧ e ≤ inp.size ∧ val = lowerGo (inp.extract pos e).toList
  else pos + val.length ≤ inp.size ∧ (inp.extract pos (pos + val.length)).toList = val ∧
    (id ≠ tPRECOMMENT → id ≠ tPOSTCOMMENT → val ≠ [])

/-- the position property of one token, relative to a token list (for the classifier) -/
def TokOK (inp : Bytes) (toks : List Tok) (t : Tok) : Prop :=
  t.id ≠ tEOF → (t.line = lineOf inp t.pos ∧
    (t.col = colOf inp t.pos ∨ HashRel inp toks t.pos t.col)) ∧
    StartOK inp t.id t.pos ∧ TextOK inp t.id t.pos t.val

def AllOK (l : L) : Prop := ∀ t ∈ l.toks.toList, TokOK l.inp l.toks.toList t

theorem TokOK.mono {inp : Bytes} {toks : List Tok} {t : Tok} (more : List Tok)
    (h : TokOK inp toks t) : TokOK inp (toks ++ more) t :=
  fun hne => ⟨⟨(h hne).1.1, (h hne).1.2.imp id (HashRel.mono more)⟩, (h hne).2⟩

theorem emit_allOK (l : L) (id : Nat) (val : List Nat) (ident ae : Bool) (hok : AllOK l)
    (ht : id = tEOF ∨ Tr l.inp l.toks.toList l.start l.line l.lastnl)
    (hs : id = tEOF ∨ (StartOK l.inp id l.start ∧ TextOK l.inp id l.start val)) :
    AllOK (l.emit id val ident ae) := by
  intro t hm
  simp only [L.emit, Array.toList_push, List.mem_append, List.mem_singleton] at hm ⊢
  rcases hm with hm | rfl
  · exact (hok t hm).mono _
  · intro hne
    rcases ht with ht | ht
    · exact absurd ht hne
    · obtain ⟨h1, h2⟩ := ht
      refine ⟨⟨by simp [L.stamp, lineOf, h1], ?_⟩, ?_⟩
      · rcases h2 with h2 | h2
        · left; simp [L.stamp, colOf, h2]
        · right
          obtain ⟨c, hc, a1, a2, a3, a4, a5⟩ := h2
          refine ⟨c, List.mem_append_left _ hc, a1, a2, a3, a4, ?_⟩
          simp only [L.stamp]
          rw [a5]; omega
      · rcases hs with hs | hs
        · exact absurd hs hne
        · exact hs

/-- **The invariant between tokens**: the read position is inside the input, the bookkeeping is
    true there up to the known `#` staleness, and every token emitted so far is right. -/
structure Inv (l : L) : Prop where
  le : l.pos ≤ l.inp.size
  tr : Tr l.inp l.toks.toList l.pos l.line l.lastnl
  ok : AllOK l

/-- the lexer stands at the first rune of a token: inside the input, not blank -/
def Ready (l : L) : Prop := l.pos < l.inp.size ∧ blank (some (decodeRune l.inp l.pos).1) = false

/-- a token that is neither a comment nor a number / word: start at a non-blank rune suffices -/
theorem startText_of_ready {inp : Bytes} {pos : Nat} (h : pos < inp.size ∧ blank (some (decodeRune inp pos).1) = false)
    (id : Nat) (hid : id = tSTRING ∨ id = tERROR) (val : List Nat) : StartOK inp id pos ∧ TextOK inp id pos val := by
  refine ⟨?_, ?_⟩
  · unfold StartOK
    rcases hid with rfl | rfl <;> simp [tSTRING, tERROR, tPOSTCOMMENT, tPRECOMMENT, h.1, h.2]
  · unfold TextOK; simp [hid]

theorem core_fields {l l' : L} (h : l'.core = l.core) :
    l'.inp = l.inp ∧ l'.line = l.line ∧ l'.lastnl = l.lastnl ∧ l'.start = l.start ∧ l'.toks = l.toks := by
  simpa [L.core] using h

/-- later state: same input, the token list has only grown, by EOF tokens -/
def Ext (l l' : L) : Prop :=
  l'.inp = l.inp ∧ ∃ more, l'.toks.toList = l.toks.toList ++ more ∧ ∀ t ∈ more, t.id = tEOF

theorem Ext.allOK {l l' : L} (h : Ext l l') (hok : AllOK l) : AllOK l' := by
  obtain ⟨hi, more, hm, he⟩ := h
  intro t ht
  rw [hm] at ht
  rw [hi, hm]
  rcases List.mem_append.mp ht with ht | ht
  · exact (hok t ht).mono _
  · intro hne; exact absurd (he t ht) hne

theorem Ext.of_core {l l' : L} (h : l'.core = l.core) : Ext l l' := by
  obtain ⟨h1, _, _, _, h5⟩ := core_fields h
  exact ⟨h1, [], by simp [h5], by simp⟩

theorem Ext.trans {a b c : L} (h1 : Ext a b) (h2 : Ext b c) : Ext a c := by
  obtain ⟨i1, m1, e1, p1⟩ := h1
  obtain ⟨i2, m2, e2, p2⟩ := h2
  refine ⟨i2.trans i1, m1 ++ m2, by rw [e2, e1, List.append_assoc], ?_⟩
  intro t ht
  rcases List.mem_append.mp ht with ht | ht
  · exact p1 t ht
  · exact p2 t ht

theorem Ext.emitEOF (l : L) : Ext l (l.emitToken tEOF) := by
  refine ⟨by simp [L.emitToken, L.emit],
    [Tok.mk tEOF l.start [] false false l.skippedNl l.stamp.1 l.stamp.2], by simp [L.emitToken, L.emit], ?_⟩
  intro t ht; simp at ht; subst ht; rfl

theorem sws_loop_ext (fuel : Nat) : ∀ (l : L) (r : Option Nat), Ext l (skipWhiteSpace.loop fuel l r).1 := by
  induction fuel with
  | zero => intro l r; simp only [skipWhiteSpace.loop]; exact Ext.of_core rfl
  | succ n ih =>
    intro l r
    simp only [skipWhiteSpace.loop]
    split
    · -- blank
      generalize hl1 : (if r = some 10 then { l.track r with skippedNl := l.skippedNl + 1 } else l) = l1
      have e1 : Ext l l1 := by
        subst hl1; split
        · exact ⟨by simp [L.track], [], by simp [L.track], by simp⟩
        · exact Ext.of_core rfl
      rcases hn : l1.next with ⟨l2, r2⟩
      have e2 : Ext l1 l2 := by
        have : l2 = (l1.next).1 := by rw [hn]
        rw [this]; unfold L.next; split
        · exact Ext.of_core rfl
        · exact Ext.of_core rfl
      simp only []
      split
      · exact (e1.trans e2).trans (Ext.emitEOF l2)
      · exact (e1.trans e2).trans (ih l2 r2)
    · exact ⟨by simp [L.backup], [], by simp [L.backup], by simp⟩

theorem sws_loop_inv (fuel : Nat) : ∀ (l : L) (r : Option Nat) (p : Nat), Pend l r p →
    Tr l.inp l.toks.toList p l.line l.lastnl → AllOK l →
    (skipWhiteSpace.loop fuel l r).2 = true →
      Inv (skipWhiteSpace.loop fuel l r).1 ∧ Ready (skipWhiteSpace.loop fuel l r).1 ∧
        p ≤ (skipWhiteSpace.loop fuel l r).1.pos := by
  induction fuel with
  | zero => intro l r p _ _ _ h; simp [skipWhiteSpace.loop] at h
  | succ n ih =>
    intro l r p hp htr hok h
    simp only [skipWhiteSpace.loop] at h ⊢
    obtain ⟨f1, f2, f3, f4⟩ := hp.facts
    split at h
    · rename_i hb
      simp only [hb, if_true]
      generalize hl1 : (if r = some 10 then { l.track r with skippedNl := l.skippedNl + 1 } else l) = l1 at h ⊢
      have hl1' : l1.inp = l.inp ∧ l1.toks = l.toks ∧ l1.pos = l.pos ∧
          Tr l.inp l.toks.toList l.pos l1.line l1.lastnl := by
        have hs := htr.step f1 f3 f4
        subst hl1; split
        · rename_i h10
          refine ⟨by simp [L.track], by simp [L.track], by simp [L.track], ?_⟩
          simpa [L.track] using hs
        · rename_i h10
          refine ⟨rfl, rfl, rfl, ?_⟩
          simpa [trackPair, h10] using hs
      obtain ⟨i1, i2, i3, i4⟩ := hl1'
      have hs := next_spec l1 (by rw [i3, i1]; exact f2)
      rcases hn : l1.next with ⟨l2, r2⟩
      rw [hn] at hs h
      simp only [] at hs h ⊢
      obtain ⟨hp2, hc2⟩ := hs
      obtain ⟨c1, c2, c3, c4, c5⟩ := core_fields hc2
      split at h
      · simp at h
      · rename_i hr2
        simp only [hr2, if_false]
        have hrec := ih l2 r2 l1.pos hp2 (by rw [c1, c2, c3, c5, i1, i2, i3]; exact i4)
          (by intro t ht; rw [c5, i2] at ht; rw [c1, c5, i1, i2]; exact hok t ht) h
        exact ⟨hrec.1, hrec.2.1, by have := hrec.2.2; rw [i3] at this; omega⟩
    · rename_i hb
      simp only [hb, Bool.false_eq_true, if_false]
      cases r with
      | none => simp [blank] at hb
      | some c =>
        obtain ⟨q1, q2, q3, q4⟩ := hp.some_pos c rfl
        have hpos : (l.backup 0).pos = p := by simp [L.backup]; omega
        have hbf : blank (some c) = false := by simpa using hb
        refine ⟨⟨by rw [hpos]; simp [L.backup]; omega, ?_, ?_⟩, ?_, by rw [hpos]; exact Nat.le_refl _⟩
        · rw [hpos]; simpa [L.backup] using htr
        · simpa [AllOK, L.backup] using hok
        · show (l.backup 0).pos < (l.backup 0).inp.size ∧ blank (some (decodeRune (l.backup 0).inp (l.backup 0).pos).1) = false
          rw [hpos]
          show p < l.inp.size ∧ blank (some (decodeRune l.inp p).1) = false
          rw [q2]; exact ⟨q1, hbf⟩

theorem sws_ext (l : L) : Ext l (skipWhiteSpace l).1 := by
  simp only [skipWhiteSpace]
  refine Ext.trans ?_ (sws_loop_ext _ _ _)
  unfold L.next; split
  · exact ⟨rfl, [], by simp, by simp⟩
  · exact ⟨rfl, [], by simp, by simp⟩

theorem sws_inv_ready (l : L) (h : Inv l) (hok : (skipWhiteSpace l).2 = true) :
    Inv (skipWhiteSpace l).1 ∧ Ready (skipWhiteSpace l).1 ∧ l.pos ≤ (skipWhiteSpace l).1.pos := by
  simp only [skipWhiteSpace] at hok ⊢
  obtain ⟨hp, hc⟩ := next_spec l h.le
  obtain ⟨c1, c2, c3, c4, c5⟩ := core_fields hc
  refine sws_loop_inv _ _ _ l.pos ⟨hp.le, hp.none_pos, hp.some_pos⟩ ?_ ?_ hok
  · show Tr (l.next).1.inp (l.next).1.toks.toList l.pos (l.next).1.line (l.next).1.lastnl
    rw [c1, c2, c3, c5]; exact h.tr
  · intro t ht
    change t ∈ (l.next).1.toks.toList at ht
    show TokOK (l.next).1.inp (l.next).1.toks.toList t
    rw [c5] at ht; rw [c1, c5]; exact h.ok t ht

theorem sws_inv (l : L) (h : Inv l) (hok : (skipWhiteSpace l).2 = true) : Inv (skipWhiteSpace l).1 :=
  (sws_inv_ready l h hok).1

/-- on a non-blank rune skipWhiteSpace does not move -/
theorem sws_pos (l : L) (hp : l.pos < l.inp.size) (hb : blank (some (decodeRune l.inp l.pos).1) = false) :
    (skipWhiteSpace l).1.pos = l.pos ∧ (skipWhiteSpace l).1.inp = l.inp := by
  have hn : ¬ l.pos ≥ l.inp.size := by omega
  have h1 := (decodeRune_spec l.inp l.pos hp).1
  simp only [skipWhiteSpace, L.next, hn, if_false]
  rw [show l.inp.size + 2 = (l.inp.size + 1) + 1 from rfl]
  simp only [skipWhiteSpace.loop, hb, Bool.false_eq_true, if_false, L.backup]
  simp

/-- … and returns true -/
theorem sws_true (l : L) (hp : l.pos < l.inp.size) (hb : blank (some (decodeRune l.inp l.pos).1) = false) :
    (skipWhiteSpace l).2 = true := by
  have hn : ¬ l.pos ≥ l.inp.size := by omega
  simp only [skipWhiteSpace, L.next, hn, if_false]
  rw [show l.inp.size + 2 = (l.inp.size + 1) + 1 from rfl]
  simp only [skipWhiteSpace.loop, hb, Bool.false_eq_true, if_false]

theorem next_none_iff (l : L) : (l.next).2 = none ↔ l.inp.size ≤ l.pos := by
  unfold L.next
  by_cases h : l.pos ≥ l.inp.size
  · simp [h]
  · simp [h]

theorem next_none_state (l : L) (h : (l.next).2 = none) : (l.next).1 = l := by
  have := (next_none_iff l).1 h
  unfold L.next
  simp [this]

theorem next_some_progress (l : L) (hle : l.pos ≤ l.inp.size) (h : (l.next).2 ≠ none) :
    l.pos < (l.next).1.pos ∧ (l.next).1.pos ≤ l.inp.size ∧ (l.next).1.inp = l.inp ∧ (l.next).1.toks = l.toks := by
  have hlt : l.pos < l.inp.size := by
    apply Nat.lt_of_not_le; intro hge; exact h ((next_none_iff l).2 hge)
  obtain ⟨h1, h2, _, _⟩ := decodeRune_spec l.inp l.pos hlt
  have hn : ¬ l.pos ≥ l.inp.size := by omega
  simp only [L.next, hn, if_false]
  exact ⟨by omega, h2, trivial, trivial⟩

/-- what skipWhiteSpace's loop returns, with enough fuel: `false` — exactly one token was pushed, the
    EOF token; `true` — nothing was pushed. `q` = position of the state the pending rune was read
    from. -/
theorem sws_loop_total (fuel : Nat) : ∀ (l : L) (r : Option Nat),
    l.pos ≤ l.inp.size → (r = none → l.inp.size ≤ l.pos) → (r ≠ none → l.inp.size - l.pos < fuel) → 1 ≤ fuel →
    ((skipWhiteSpace.loop fuel l r).2 = false →
      ∃ e, (skipWhiteSpace.loop fuel l r).1.toks = l.toks.push e ∧ e.id = tEOF) ∧
    ((skipWhiteSpace.loop fuel l r).2 = true → (skipWhiteSpace.loop fuel l r).1.toks = l.toks) := by
  induction fuel with
  | zero => intro l r _ _ _ h; omega
  | succ n ih =>
    intro l r hle hn hf _
    simp only [skipWhiteSpace.loop]
    split
    · -- blank
      generalize hl1 : (if r = some 10 then { l.track r with skippedNl := l.skippedNl + 1 } else l) = l1
      have e1 : l1.inp = l.inp ∧ l1.pos = l.pos ∧ l1.toks = l.toks := by
        subst hl1; split <;> simp [L.track]
      obtain ⟨i1, i2, i3⟩ := e1
      by_cases hr2 : (l1.next).2 = none
      · simp only [hr2, if_true]
        refine ⟨fun _ => ?_, fun h => by simp at h⟩
        rw [next_none_state l1 hr2]
        exact ⟨Tok.mk tEOF l1.start [] false false l1.skippedNl l1.stamp.1 l1.stamp.2,
          by simp [L.emitToken, L.emit, i3], rfl⟩
      · simp only [hr2, if_false]
        obtain ⟨p1, p2, p3, p4⟩ := next_some_progress l1 (by rw [i1, i2]; exact hle) hr2
        -- the pending rune was a real one, so fuel is left
        have hrs : r ≠ none := by
          intro h0
          have := hn h0
          exact hr2 ((next_none_iff l1).2 (by rw [i1, i2]; exact this))
        have hfl := hf hrs
        rw [i2] at p1
        rw [i1] at p2
        have hm : l.inp.size - (l1.next).1.pos < n := by omega
        have := ih (l1.next).1 (l1.next).2 (by rw [p3, i1]; exact p2) (fun h => absurd h hr2)
          (fun _ => by rw [p3, i1]; exact hm) (by omega)
        rw [p4, i3] at this
        exact this
    · refine ⟨fun h => by simp at h, fun _ => by simp [L.backup]⟩

theorem sws_total (l : L) (hle : l.pos ≤ l.inp.size) :
    ((skipWhiteSpace l).2 = false → ∃ e, (skipWhiteSpace l).1.toks = l.toks.push e ∧ e.id = tEOF) ∧
    ((skipWhiteSpace l).2 = true → (skipWhiteSpace l).1.toks = l.toks) := by
  simp only [skipWhiteSpace]
  by_cases hr : (l.next).2 = none
  · have hs := next_none_state l hr
    have hsz := (next_none_iff l).1 hr
    have := sws_loop_total ((l.next).1.inp.size + 2) { (l.next).1 with skippedNl := 0 } (l.next).2
      (by simp only []; rw [hs]; exact hle) (fun _ => by simp only []; rw [hs]; exact hsz) (fun h => absurd hr h) (by omega)
    simpa [hs] using this
  · obtain ⟨p1, p2, p3, p4⟩ := next_some_progress l hle hr
    have := sws_loop_total ((l.next).1.inp.size + 2) { (l.next).1 with skippedNl := 0 } (l.next).2
      (by simp only []; rw [p3]; exact p2) (fun h => absurd h hr) (fun _ => by simp only []; omega) (by omega)
    simpa [p4] using this

theorem peek1_eq (l : L) : l.peek 1 = (l.next).2 := by
  unfold L.peek L.next
  by_cases h : l.pos ≥ l.inp.size <;> simp [h]

theorem peek_congr {l l' : L} (hi : l'.inp = l.inp) (hp : l'.pos = l.pos) (n : Nat) : l'.peek n = l.peek n := by
  unfold L.peek; rw [hi, hp]

theorem peek1_some {l : L} {c : Nat} (h : l.peek 1 = some c) :
    l.pos < l.inp.size ∧ (decodeRune l.inp l.pos).1 = c := by
  unfold L.peek at h
  by_cases h1 : l.pos ≥ l.inp.size
  · simp [h1] at h
  · simp [h1] at h
    exact ⟨by omega, h⟩

theorem peek2_shift {l l' : L} {d : Nat} (h : l.peek 2 = some d) (hd : d ≠ runeError)
    (hi : l'.inp = l.inp) (hp : l'.pos = l.pos + 1) : l'.peek 1 = some d := by
  unfold L.peek at h ⊢
  rw [hi, hp]
  by_cases h1 : l.pos ≥ l.inp.size
  · simp [h1] at h
  · by_cases h2 : l.pos + 1 ≥ l.inp.size
    · simp [h1, h2] at h; exact absurd h.symm hd
    · simpa [h1, h2] using h

/-- a scanner step: only `pos` / `width` moved, forward, over no newline -/
structure Blk (l l' : L) : Prop where
  core : l'.core = l.core
  ge : l.pos ≤ l'.pos
  le : l'.pos ≤ l'.inp.size
  nonl : NoNl l.inp l.pos l'.pos

theorem Blk.refl (l : L) (h : l.pos ≤ l.inp.size) : Blk l l := ⟨rfl, Nat.le_refl _, h, noNl_empty _ _⟩

theorem Blk.trans {a b c : L} (h1 : Blk a b) (h2 : Blk b c) : Blk a c := by
  have hi := (core_fields h1.core).1
  exact ⟨h2.core.trans h1.core, Nat.le_trans h1.ge h2.ge, h2.le,
    noNl_trans h1.nonl (by rw [← hi]; exact h2.nonl)⟩

/-- consuming a rune known (from a peek) not to be a newline -/
theorem next_blk {l : L} (hle : l.pos ≤ l.inp.size) {c : Nat} (h : l.peek 1 = some c) (hc : c ≠ 10) :
    Blk l (l.next).1 ∧ (c < 128 → (l.next).1.pos = l.pos + 1) := by
  obtain ⟨hp, hcore⟩ := next_spec l hle
  rw [peek1_eq] at h
  obtain ⟨f1, f2, f3, f4⟩ := hp.facts
  have hi := (core_fields hcore).1
  refine ⟨⟨hcore, f1, f2, ?_⟩, ?_⟩
  · rw [← hi]; apply f4; rw [h]; simpa using hc
  · intro hlt
    obtain ⟨q1, q2, q3, q4⟩ := hp.some_pos c h
    have := ((decodeRune_spec _ _ q1).2.2.1 (by rw [q2]; exact hlt)).1
    rw [q4, ← q3, this]

theorem nonblank_ne10 {c : Nat} (h : (isSpace c || isControl c) = false) : c ≠ 10 := by
  intro h10; subst h10; simp [isSpace, isControl] at h

theorem isNumber_ne {d : Nat} (h : isNumber d = true) : d ≠ 10 ∧ d ≠ runeError := by
  constructor
  · intro h'; subst h'; revert h; decide
  · intro h'; subst h'; revert h; decide

/-- the state of a scanner loop: `r` pending from `p`, everything from `p0` to `p` newline-free -/
structure Scan (l0 l : L) (r : Option Nat) : Prop where
  core : l.core = l0.core
  ex : ∃ p, Pend l r p ∧ l0.pos ≤ p ∧ NoNl l0.inp l0.pos p

theorem Scan.next {l0 l : L} {c : Nat} (h : Scan l0 l (some c)) (hc : c ≠ 10) :
    Scan l0 (l.next).1 (l.next).2 := by
  obtain ⟨hcore, p, hp, h1, h2⟩ := h
  obtain ⟨f1, f2, f3, f4⟩ := hp.facts
  obtain ⟨np, nc⟩ := next_spec l f2
  have hi := (core_fields hcore).1
  refine ⟨nc.trans hcore, l.pos, np, by omega, noNl_trans h2 ?_⟩
  rw [← hi]; apply f4; simpa using hc

theorem Scan.blk {l0 l l' : L} {r : Option Nat} (h : Scan l0 l r) (hb : Blk l l')
    (hr : r = none ∨ ∃ c, r = some c ∧ c ≠ 10) : ∃ p, p = l'.pos ∧ l0.pos ≤ p ∧ NoNl l0.inp l0.pos p ∧
      l'.core = l0.core ∧ l'.pos ≤ l'.inp.size := by
  obtain ⟨hcore, p, hp, h1, h2⟩ := h
  obtain ⟨f1, f2, f3, f4⟩ := hp.facts
  have hi := (core_fields hcore).1
  have hn : NoNl l0.inp p l.pos := by
    rw [← hi]; apply f4
    rcases hr with hr | ⟨c, hr, hc⟩
    · rw [hr]; simp
    · rw [hr]; simpa using hc
  refine ⟨_, rfl, by have := hb.ge; omega, noNl_trans (noNl_trans h2 hn) (by rw [← hi]; exact hb.nonl),
    hb.core.trans hcore, hb.le⟩

/-- where a scanner ends after its final `backup`: at the start of the pending rune -/
theorem Scan.finish {l0 l : L} {r : Option Nat} (h : Scan l0 l r) :
    Blk l0 (if r != none then l.backup 0 else l) := by
  obtain ⟨hcore, p, hp, h1, h2⟩ := h
  have hi := (core_fields hcore).1
  cases r with
  | none =>
    have := hp.none_pos rfl
    simp only [bne_self_eq_false, Bool.false_eq_true, if_false]
    exact ⟨hcore, by omega, hp.le, by rw [this]; exact h2⟩
  | some c =>
    obtain ⟨q1, q2, q3, q4⟩ := hp.some_pos c rfl
    have hpos : (l.backup 0).pos = p := by simp [L.backup]; omega
    have : (some c != none) = true := by simp
    simp only [this, if_true]
    refine ⟨by simpa [L.core, L.backup] using hcore, by omega, ?_, by rw [hpos]; exact h2⟩
    rw [hpos]; simp [L.backup]; omega

theorem num_loop (fuel : Nat) : ∀ (l0 l : L) (r : Option Nat), Scan l0 l r →
    Scan l0 (lexNumberBlock.loop fuel l r).1 (lexNumberBlock.loop fuel l r).2 := by
  induction fuel with
  | zero => intro l0 l r h; simpa [lexNumberBlock.loop] using h
  | succ n ih =>
    intro l0 l r h
    cases r with
    | none => simpa [lexNumberBlock.loop] using h
    | some c =>
      simp only [lexNumberBlock.loop]
      split
      · exact h
      · rename_i hb
        have hc10 : c ≠ 10 := nonblank_ne10 (by simpa using hb)
        split
        · split
          · split
            · rename_i d h2
              split
              · exact h
              · rename_i hcond
                simp only [Bool.or_eq_true, bne_iff_ne, ne_eq, Bool.not_eq_true', not_or,
                  Decidable.not_not, Bool.not_eq_false] at hcond
                obtain ⟨hl1, hl2⟩ := hcond
                obtain ⟨hd10, hdre⟩ := isNumber_ne hl2
                have hle : l.pos ≤ l.inp.size := by
                  obtain ⟨_, p, hp, _, _⟩ := h; exact hp.le
                obtain ⟨b1, b1p⟩ := next_blk hle hl1 (by decide)
                have hi1 := (core_fields b1.core).1
                have hpk : (l.next).1.peek 1 = some d := peek2_shift h2 hdre hi1 (b1p (by decide))
                obtain ⟨b2, _⟩ := next_blk b1.le hpk hd10
                obtain ⟨p, hp, g1, g2, g3, g4⟩ := h.blk (b1.trans b2) (Or.inr ⟨c, rfl, hc10⟩)
                obtain ⟨np, nc⟩ := next_spec (l.next).1.next.1 g4
                exact ih _ _ _ ⟨nc.trans g3, _, np, by omega, by rw [← hp]; exact g2⟩
            · simp only [Bool.not_false, Bool.or_true, if_true]
              exact h
          · exact h
        · exact ih _ _ _ (h.next hc10)


theorem lexNumberBlock_blk (l : L) (hle : l.pos ≤ l.inp.size) : Blk l (lexNumberBlock l) := by
  obtain ⟨np, nc⟩ := next_spec l hle
  have h0 : Scan l (l.next).1 (l.next).2 := ⟨nc, l.pos, np, Nat.le_refl _, noNl_empty _ _⟩
  have := (num_loop ((l.next).1.inp.size + 2) l _ _ h0).finish
  simpa [lexNumberBlock] using this

theorem symbolBytes_clean : ∀ p ∈ symbolBytes, ∀ b ∈ p.1, b ≠ 10 ∧ b < 128 := by decide

theorem isSym_clean {k : List Nat} (h : isSym k = true) : ∀ b ∈ k, b ≠ 10 ∧ b < 128 := by
  simp only [isSym, lookupTab, Option.isSome_map, List.find?_isSome] at h
  obtain ⟨p, hp, hk⟩ := h
  have : p.1 = k := by simpa using hk
  rw [← this]; exact symbolBytes_clean p hp

theorem runeKey_clean {r : Option Nat} (h : ∀ b ∈ runeKey r, b ≠ 10 ∧ b < 128) : ∃ c, r = some c ∧ c ≠ 10 := by
  cases r with
  | none => have := (h 0xEF (by simp [runeKey])).2; omega
  | some c =>
    refine ⟨c, rfl, ?_⟩
    intro h10; subst h10
    have := (h 10 (by simp [runeKey, lowerByte])).1
    exact this rfl

theorem blank_ne10 {r : Option Nat} (h : blank r = false) : ∃ c, r = some c ∧ c ≠ 10 := by
  cases r with
  | none => simp [blank] at h
  | some c => exact ⟨c, rfl, nonblank_ne10 (by simpa [blank] using h)⟩

/-- result of the text loop: either it backed up already (`early`) or `r` is still pending -/
theorem text_loop (fuel : Nat) : ∀ (l0 l : L) (r : Option Nat), Scan l0 l r →
    let res := lexTextBlock.loop fuel l r
    Blk l0 (if res.2.2 then res.1 else if res.2.1 != none then res.1.backup 0 else res.1) := by
  induction fuel with
  | zero => intro l0 l r h; simpa [lexTextBlock.loop] using h.finish
  | succ n ih =>
    intro l0 l r h
    simp only [lexTextBlock.loop]
    split
    · simpa using h.finish
    · rename_i hb
      obtain ⟨c, rfl, hc10⟩ := blank_ne10 (by simpa using hb)
      have hfin : Blk l0 (l.backup 0) := by simpa using h.finish
      split
      · simpa using hfin
      · split
        · simpa using hfin
        · exact ih _ _ _ (h.next hc10)

theorem lexTextBlock_blk (l : L) (hle : l.pos ≤ l.inp.size) : Blk l (lexTextBlock l) := by
  obtain ⟨np, nc⟩ := next_spec l hle
  have h0 : Scan l (l.next).1 (l.next).2 := ⟨nc, l.pos, np, Nat.le_refl _, noNl_empty _ _⟩
  simp only [lexTextBlock]
  split
  · rename_i hs
    have hcl := isSym_clean hs
    obtain ⟨c, hr, hc10⟩ := runeKey_clean (r := (l.next).2) (fun b hb => hcl b (List.mem_append_left _ hb))
    obtain ⟨d, hd, hd10⟩ := runeKey_clean (r := (l.next).1.peek 1) (fun b hb => hcl b (List.mem_append_right _ hb))
    obtain ⟨f1, f2, f3, f4⟩ := np.facts
    have b1 : Blk l (l.next).1 := ⟨nc, f1, f2, by
      have hi := (core_fields nc).1
      rw [← hi]; apply f4; rw [hr]; simpa using hc10⟩
    exact b1.trans (next_blk b1.le hd hd10).1
  · split
    · rename_i hs
      obtain ⟨c, hr, hc10⟩ := runeKey_clean (isSym_clean hs)
      obtain ⟨f1, f2, f3, f4⟩ := np.facts
      exact ⟨nc, f1, f2, by
        have hi := (core_fields nc).1
        rw [← hi]; apply f4; rw [hr]; simpa using hc10⟩
    · exact text_loop _ l _ _ h0

theorem next_pos_le (l : L) : l.pos ≤ (l.next).1.pos := by
  unfold L.next; split
  · exact Nat.le_refl _
  · exact Nat.le_add_right _ _

theorem value_loop_pos (ae : Bool) (endTok : Option Nat) (fuel : Nat) :
    ∀ (l : L) (r : Option Nat) (esc : Bool) (a b : Nat) (l' : L) (a' b' : Nat),
    lexValueLoop ae endTok fuel l r esc a b = some (l', a', b') → l.pos ≤ l'.pos := by
  induction fuel with
  | zero => intro l r esc a b l' a' b' h; simp [lexValueLoop] at h
  | succ n ih =>
    intro l r esc a b l' a' b' h
    simp only [lexValueLoop] at h
    split at h
    · split at h
      · simp at h
      · exact Nat.le_trans (next_pos_le l) (ih _ _ _ _ _ _ _ _ h)
    · simp only [Option.some.injEq, Prod.mk.injEq] at h
      obtain ⟨rfl, _, _⟩ := h
      exact Nat.le_refl _

theorem block_loop_pos (fuel : Nat) :
    ∀ (l : L) (r : Option Nat) (a b : Nat) (l' : L) (a' b' : Nat),
    blockLoop fuel l r a b = some (l', a', b') → l.pos ≤ l'.pos := by
  induction fuel with
  | zero => intro l r a b l' a' b' h; simp [blockLoop] at h
  | succ n ih =>
    intro l r a b l' a' b' h
    simp only [blockLoop] at h
    split at h
    · split at h
      · simp at h
      · exact Nat.le_trans (next_pos_le l) (ih _ _ _ _ _ _ _ h)
    · simp only [Option.some.injEq, Prod.mk.injEq] at h
      obtain ⟨rfl, _, _⟩ := h
      exact Nat.le_refl _

/-- where `Pos` lies relative to the boundary state the token was lexed from: at it, or behind the
    comment opener (`#`: one byte, `/*`: two — also for the error token of an unterminated comment) -/
def OffOK (id tpos lpos : Nat) : Prop :=
  (id = tPOSTCOMMENT ∧ tpos = lpos + 1) ∨ ((id = tPRECOMMENT ∨ id = tERROR) ∧ tpos = lpos + 2) ∨ tpos = lpos

/-- where the phase ended, for the tokens whose value is their source text: directly behind it
    (block comment: behind the closing `*/`) -/
def EndOK (id tpos len rpos : Nat) : Prop :=
  (id = tPOSTCOMMENT → rpos = tpos + len) ∧ (id = tPRECOMMENT → rpos = tpos + len + 2) ∧
  (7 ≤ id → rpos = tpos + len) ∧ (id = tNUMBER → rpos = tpos + len)

theorem EndOK.other {id tpos len rpos : Nat} (h1 : id ≠ tPOSTCOMMENT) (h2 : id ≠ tPRECOMMENT) (h3 : ¬ 7 ≤ id)
    (h4 : id ≠ tNUMBER) : EndOK id tpos len rpos :=
  ⟨fun h => absurd h h1, fun h => absurd h h2, fun h => absurd h h3, fun h => absurd h h4⟩

theorem endOK_error {tpos len rpos : Nat} : EndOK tERROR tpos len rpos :=
  EndOK.other (by decide) (by decide) (by decide) (by decide)
theorem endOK_string {tpos len rpos : Nat} : EndOK tSTRING tpos len rpos :=
  EndOK.other (by decide) (by decide) (by decide) (by decide)
theorem endOK_number {tpos len rpos : Nat} (h : rpos = tpos + len) : EndOK tNUMBER tpos len rpos :=
  ⟨fun h' => absurd h' (by decide), fun h' => absurd h' (by decide), fun h' => absurd h' (by decide), fun _ => h⟩

/-- **what a token phase does to the token list and the position**: exactly one token is pushed;
    the position stays inside the input; a phase that continues has moved forward; a phase that
    stops has pushed an error token or stands at the end of the input. -/
def Pushed (l : L) (res : L × Next) : Prop :=
  ∃ t, res.1.toks = l.toks.push t ∧ res.1.pos ≤ res.1.inp.size ∧
    (res.2 = Next.token → t.pos < res.1.pos) ∧
    (res.2 = Next.stop → t.id = tERROR ∨ (res.1.inp.size ≤ res.1.pos ∧ Inv res.1)) ∧
    (t.id ≠ tEOF ∧ l.pos ≤ t.pos ∧
      (t.id = tPOSTCOMMENT ∨ t.id = tPRECOMMENT ∨ t.id = tERROR ∨ t.pos = l.pos) ∧
      OffOK t.id t.pos l.pos ∧ EndOK t.id t.pos t.val.length res.1.pos)

theorem emit_toks (l : L) (id : Nat) (val : List Nat) (ident ae : Bool) :
    (l.emit id val ident ae).toks =
      l.toks.push (Tok.mk id l.start val ident ae l.skippedNl l.stamp.1 l.stamp.2) := rfl

theorem Pushed.congr {l l' : L} {res : L × Next} (h : Pushed l' res) (ht : l'.toks = l.toks) (hp : l'.pos = l.pos) :
    Pushed l res := by
  obtain ⟨t, a, b, c, d, e1, e2, e3, e4, e5⟩ := h
  exact ⟨t, by rw [a, ht], b, c, d, e1, by rw [← hp]; exact e2, by rw [← hp]; exact e3, by rw [← hp]; exact e4, e5⟩

/-- tracked loop of the string lexer: the bookkeeping pair stays true; on exit the pending rune
    is the end token -/
theorem value_loop (ae : Bool) (endTok : Option Nat) (T : List Tok) (fuel : Nat) :
    ∀ (l : L) (r : Option Nat) (esc : Bool) (a b p : Nat) (l' : L) (a' b' : Nat),
    Pend l r p → Tr l.inp T p a b → lexValueLoop ae endTok fuel l r esc a b = some (l', a', b') →
    l'.core = l.core ∧ ∃ p', Pend l' endTok p' ∧ Tr l.inp T p' a' b' := by
  induction fuel with
  | zero => intro l r esc a b p l' a' b' _ _ h; simp [lexValueLoop] at h
  | succ n ih =>
    intro l r esc a b p l' a' b' hp htr h
    simp only [lexValueLoop] at h
    obtain ⟨f1, f2, f3, f4⟩ := hp.facts
    split at h
    · split at h
      · simp at h
      · obtain ⟨np, nc⟩ := next_spec l f2
        obtain ⟨c1, _, _, _, _⟩ := core_fields nc
        have := ih _ _ _ _ _ l.pos l' a' b' np (by rw [c1]; exact htr.step f1 f3 f4) h
        rw [c1] at this
        exact ⟨this.1.trans nc, this.2⟩
    · rename_i hcond
      simp only [Option.some.injEq, Prod.mk.injEq] at h
      obtain ⟨rfl, rfl, rfl⟩ := h
      have hr : r = endTok := by
        cases ae <;> simp at hcond
        · exact hcond
        · exact hcond.1
      subst hr
      exact ⟨rfl, p, hp, htr⟩

theorem block_loop (T : List Tok) (fuel : Nat) :
    ∀ (l : L) (r : Option Nat) (a b p : Nat) (l' : L) (a' b' : Nat),
    Pend l r p → Tr l.inp T p a b → blockLoop fuel l r a b = some (l', a', b') →
    l'.core = l.core ∧ l'.peek 1 = some 47 ∧ ∃ p', Pend l' (some 42) p' ∧ Tr l.inp T p' a' b' ∧ p ≤ p' := by
  induction fuel with
  | zero => intro l r a b p l' a' b' _ _ h; simp [blockLoop] at h
  | succ n ih =>
    intro l r a b p l' a' b' hp htr h
    simp only [blockLoop] at h
    obtain ⟨f1, f2, f3, f4⟩ := hp.facts
    split at h
    · split at h
      · simp at h
      · obtain ⟨np, nc⟩ := next_spec l f2
        obtain ⟨c1, _, _, _, _⟩ := core_fields nc
        have := ih _ _ _ _ l.pos l' a' b' np (by rw [c1]; exact htr.step f1 f3 f4) h
        rw [c1] at this
        obtain ⟨t1, t2, p', t3, t4, t5⟩ := this
        exact ⟨t1.trans nc, t2, p', t3, t4, Nat.le_trans f1 t5⟩
    · rename_i hcond
      simp only [Option.some.injEq, Prod.mk.injEq] at h
      obtain ⟨rfl, rfl, rfl⟩ := h
      simp only [Bool.or_eq_true, bne_iff_ne, ne_eq, not_or, Decidable.not_not] at hcond
      obtain ⟨hr, hpk⟩ := hcond
      subst hr
      exact ⟨rfl, hpk, p, hp, htr, Nat.le_refl _⟩

theorem hash_loop (fuel : Nat) : ∀ (l0 l : L) (r : Option Nat), Scan l0 l r →
    (r = none → l.inp.size ≤ l.pos) → (r ≠ none → l.inp.size - l.pos < fuel) →
    let res := hashLoop fuel l r
    res.1.core = l0.core ∧ res.1.pos ≤ res.1.inp.size ∧
      ((res.2 = none ∧ res.1.inp.size ≤ res.1.pos ∧ l0.pos ≤ res.1.pos ∧ NoNl l0.inp l0.pos res.1.pos) ∨
      (res.2 = some 10 ∧ ∃ p, Pend res.1 (some 10) p ∧ l0.pos ≤ p ∧ NoNl l0.inp l0.pos p)) := by
  induction fuel with
  | zero =>
    intro l0 l r h hn hf
    obtain ⟨p, hp, hp1, hp2⟩ := h.ex
    have hr : r = none := by
      apply Classical.byContradiction; intro h0; have := hf h0; omega
    have hpe := hp.none_pos hr
    exact ⟨h.core, hp.le, Or.inl ⟨rfl, hn hr, by show l0.pos ≤ l.pos; rw [hpe]; exact hp1,
      by show NoNl l0.inp l0.pos l.pos; rw [hpe]; exact hp2⟩⟩
  | succ n ih =>
    intro l0 l r h hn hf
    simp only [hashLoop]
    split
    · rename_i hc
      simp only [Bool.and_eq_true, bne_iff_ne, ne_eq] at hc
      cases r with
      | none => exact absurd rfl hc.2
      | some c =>
        have hle : l.pos ≤ l.inp.size := by obtain ⟨p, hp, _⟩ := h.ex; exact hp.le
        refine ih _ _ _ (h.next (by intro h'; apply hc.1; rw [h'])) ?_ ?_
        · intro h0; rw [next_none_state l h0]; exact (next_none_iff l).1 h0
        · intro h0
          obtain ⟨p1, p2, p3, _⟩ := next_some_progress l hle h0
          have := hf (by simp)
          rw [p3]; omega
    · rename_i hc
      simp only [Bool.and_eq_true, bne_iff_ne, ne_eq, not_and, Decidable.not_not] at hc
      refine ⟨h.core, by obtain ⟨p, hp, _⟩ := h.ex; exact hp.le, ?_⟩
      by_cases h10 : r = some 10
      · right; subst h10; exact ⟨rfl, h.ex⟩
      · left
        obtain ⟨p, hp, hp1, hp2⟩ := h.ex
        have hpe := hp.none_pos (hc h10)
        exact ⟨hc h10, hn (hc h10), by rw [hpe]; exact hp1, by rw [hpe]; exact hp2⟩

/-- emitting a token whose start is covered by the bookkeeping, then continuing at `pos` with a
    bookkeeping pair that is true there, re-establishes the invariant -/
theorem emit_phase (l : L) (id : Nat) (val : List Nat) (ident ae : Bool) (a b : Nat)
    (hok : AllOK l) (hst : Tr l.inp l.toks.toList l.start l.line l.lastnl)
    (hle : l.pos ≤ l.inp.size) (hab : Tr l.inp l.toks.toList l.pos a b)
    (hs : id = tEOF ∨ (StartOK l.inp id l.start ∧ TextOK l.inp id l.start val)) :
    Inv { (l.emit id val ident ae) with line := a, lastnl := b } := by
  have h1 := emit_allOK l id val ident ae hok (Or.inr hst) hs
  refine ⟨by simpa [L.emit] using hle, ?_, ?_⟩
  · have := hab.mono [Tok.mk id l.start val ident ae l.skippedNl l.stamp.1 l.stamp.2]
    simpa [L.emit] using this
  · simpa [AllOK, L.emit] using h1

theorem open_spec (l : L) (hle : l.pos ≤ l.inp.size) (hne : l.peek 1 ≠ some 10) :
    Blk { l with start := l.pos } (lexValueOpen l).1 ∧ (lexValueOpen l).2.2 ≠ some 10 := by
  obtain ⟨np, nc⟩ := next_spec { l with start := l.pos } hle
  obtain ⟨f1, f2, f3, f4⟩ := np.facts
  have hr : ({ l with start := l.pos } : L).next.2 ≠ some 10 := by
    rw [← peek1_eq]; exact hne
  have b1 : Blk { l with start := l.pos } ({ l with start := l.pos } : L).next.1 :=
    ⟨nc, f1, f2, by have := f4 hr; rw [(core_fields nc).1] at this; exact this⟩
  simp only [lexValueOpen]
  split
  · rename_i hc
    simp only [Bool.and_eq_true, decide_eq_true_eq, Bool.or_eq_true] at hc
    obtain ⟨_, hq⟩ := hc
    rcases hq with hq | hq
    · exact ⟨b1.trans (next_blk b1.le hq (by decide)).1, by simp [hq]⟩
    · exact ⟨b1.trans (next_blk b1.le hq (by decide)).1, by simp [hq]⟩
  · exact ⟨b1, hr⟩

/-- the opener of a string literal is consumed: the position moves forward -/
theorem open_strict (l : L) (hr : Ready l) : l.pos < (lexValueOpen l).1.pos := by
  have hnn : ({ l with start := l.pos } : L).next.2 ≠ none := by
    intro h0
    have := (next_none_iff _).1 h0
    have := hr.1
    simp only [] at *; omega
  obtain ⟨p1, _, _, _⟩ := next_some_progress { l with start := l.pos } (Nat.le_of_lt hr.1) hnn
  simp only [lexValueOpen]
  split
  · exact Nat.lt_of_lt_of_le p1 (next_pos_le _)
  · exact p1

theorem lexValue_inv (l : L) (h : Inv l) (hr : Ready l) (hne : l.peek 1 ≠ some 10) :
    AllOK (lexValue l).1 ∧ ((lexValue l).2 = Next.token → Inv (lexValue l).1) ∧ (lexValue l).1.inp = l.inp ∧
      Pushed l (lexValue l) := by
  obtain ⟨ob, oe⟩ := open_spec l h.le hne
  have hos := open_strict l hr
  have hnpl := next_pos_le (lexValueOpen l).1
  obtain ⟨o1, o2, o3, o4, o5⟩ := core_fields ob.core
  simp only [] at o1 o2 o3 o4 o5
  obtain ⟨np, nc⟩ := next_spec (lexValueOpen l).1 ob.le
  obtain ⟨n1, n2, n3, n4, n5⟩ := core_fields nc
  -- bookkeeping true at the start of the body
  have htr0 : Tr l.inp l.toks.toList (lexValueOpen l).1.pos l.line l.lastnl :=
    h.tr.noNl ob.ge ob.nonl
  simp only [lexValue]
  generalize hres : lexValueLoop _ _ _ _ _ _ _ _ = res
  cases res with
  | none =>
    simp only [lexValueClose]
    refine ⟨?_, fun h' => by simp at h', show (lexValueOpen l).1.next.1.inp = l.inp from n1.trans o1,
      _, (emit_toks _ tERROR _ false false).trans (congrArg (fun a => Array.push a _) (n5.trans o5)),
      Nat.le_refl _, fun h' => by simp at h', fun _ => Or.inl rfl,
      (by decide : tERROR ≠ tEOF), Nat.le_of_eq (n4.trans o4).symm, Or.inr (Or.inr (Or.inl rfl)),
      Or.inr (Or.inr (n4.trans o4)), endOK_error⟩
    apply emit_allOK
    · intro t ht; simp only [] at ht ⊢; rw [n5, o5] at ht; rw [n1, n5, o1, o5]; exact h.ok t ht
    · right; simp only []; rw [n1, n2, n3, n4, n5, o1, o2, o3, o4, o5]; exact h.tr
    · right; simp only []; rw [n1, n4, o1, o4]; exact startText_of_ready hr _ (Or.inr rfl) _
  | some x =>
    obtain ⟨l', a', b'⟩ := x
    obtain ⟨lc, p', hp', htr'⟩ := value_loop _ _ l.toks.toList _ _ _ _ _ _ _ _ _ _ np
      (by rw [n1, n2, n3, o1, o2, o3]; exact htr0) hres
    obtain ⟨c1, c2, c3, c4, c5⟩ := core_fields lc
    rw [n1, o1] at htr'
    obtain ⟨g1, g2, g3, g4⟩ := hp'.facts
    have hpos : Tr l.inp l.toks.toList l'.pos a' b' := by
      refine htr'.noNl g1 ?_
      have := g4 oe
      rwa [c1, n1, o1] at this
    have hok' : AllOK l' := by
      intro t ht; rw [c5, n5, o5] at ht; rw [c1, c5, n1, n5, o1, o5]; exact h.ok t ht
    have hst' : Tr l'.inp l'.toks.toList l'.start l'.line l'.lastnl := by
      rw [c1, c2, c3, c4, c5, n1, n2, n3, n4, n5, o1, o2, o3, o4, o5]; exact h.tr
    have hle' : l'.pos ≤ l'.inp.size := g2
    have hpos' : Tr l'.inp l'.toks.toList l'.pos a' b' := by
      rw [c1, c5, n1, n5, o1, o5]; exact hpos
    have hs' : ∀ id, id = tSTRING ∨ id = tERROR → ∀ val, StartOK l'.inp id l'.start ∧ TextOK l'.inp id l'.start val := by
      intro id hid val
      rw [c1, c4, n1, n4, o1, o4]; exact startText_of_ready hr id hid val
    have hT' : l'.toks = l.toks := c5.trans (n5.trans o5)
    have hlp := value_loop_pos _ _ _ _ _ _ _ _ _ _ _ hres
    have hstrict : l.pos < l'.pos := by omega
    have hS' : l'.start = l.pos := c4.trans (n4.trans o4)
    have hstrict' : l'.start < l'.pos := by rw [hS']; exact hstrict
    simp only [lexValueClose]
    split
    · split
      · exact ⟨emit_allOK _ _ _ _ _ hok' (Or.inr hst') (Or.inr (hs' _ (Or.inr rfl) _)), fun h' => by simp at h',
          show l'.inp = l.inp from c1.trans (n1.trans o1),
          _, (emit_toks l' tERROR _ false false).trans (congrArg (fun a => Array.push a _) hT'),
          hle', fun h' => by simp at h', fun _ => Or.inl rfl,
          (by decide : tERROR ≠ tEOF), Nat.le_of_eq hS'.symm, Or.inr (Or.inr (Or.inl rfl)),
          Or.inr (Or.inr hS'), endOK_error⟩
      · exact ⟨(emit_phase l' _ _ _ _ a' b' hok' hst' hle' hpos' (Or.inr (hs' _ (Or.inl rfl) _))).ok,
          fun _ => emit_phase l' _ _ _ _ a' b' hok' hst' hle' hpos' (Or.inr (hs' _ (Or.inl rfl) _)),
          show l'.inp = l.inp from c1.trans (n1.trans o1),
          _, (emit_toks l' tSTRING _ false true).trans (congrArg (fun a => Array.push a _) hT'),
          hle', fun _ => hstrict', fun h' => by simp at h',
          (by decide : tSTRING ≠ tEOF), Nat.le_of_eq hS'.symm, Or.inr (Or.inr (Or.inr hS')),
          Or.inr (Or.inr hS'), endOK_string⟩
    · exact ⟨(emit_phase l' _ _ _ _ a' b' hok' hst' hle' hpos' (Or.inr (hs' _ (Or.inl rfl) _))).ok,
        fun _ => emit_phase l' _ _ _ _ a' b' hok' hst' hle' hpos' (Or.inr (hs' _ (Or.inl rfl) _)),
        show l'.inp = l.inp from c1.trans (n1.trans o1),
        _, (emit_toks l' tSTRING _ false false).trans (congrArg (fun a => Array.push a _) hT'),
        hle', fun _ => hstrict', fun h' => by simp at h',
        (by decide : tSTRING ≠ tEOF), Nat.le_of_eq hS'.symm, Or.inr (Or.inr (Or.inr hS')),
        Or.inr (Or.inr hS'), endOK_string⟩

theorem slice_length (l : L) (a b : Nat) (hab : a ≤ b) (hb : b ≤ l.inp.size) : (l.slice a b).length = b - a := by
  simp [L.slice]; omega

/-- the bytes a slice was cut from stand in the input at its start -/
theorem slice_text (l : L) (a b : Nat) (ha : a ≤ l.inp.size) (hb : b ≤ l.inp.size) :
    a + (l.slice a b).length ≤ l.inp.size ∧
    (l.inp.extract a (a + (l.slice a b).length)).toList = l.slice a b := by
  have hlen : (l.slice a b).length = b - a := by simp [L.slice]; omega
  by_cases hab : a ≤ b
  · have : a + (b - a) = b := by omega
    rw [hlen, this]; exact ⟨hb, rfl⟩
  · have h0 : b - a = 0 := by omega
    rw [hlen, h0]
    refine ⟨ha, ?_⟩
    have e1 : (l.slice a b) = [] := List.eq_nil_of_length_eq_zero (by rw [hlen, h0])
    rw [e1]
    apply List.eq_nil_of_length_eq_zero
    simp

/-- ASCII rune read by `next`: one byte, and that byte -/
theorem Pend.ascii {l : L} {c p : Nat} (h : Pend l (some c) p) (hc : c < 128) :
    l.pos = p + 1 ∧ l.inp.getD p 0 = c := by
  obtain ⟨q1, q2, q3, q4⟩ := h.some_pos c rfl
  obtain ⟨hw, hb⟩ := (decodeRune_spec l.inp p q1).2.2.1 (by rw [q2]; exact hc)
  rw [q2] at hb
  exact ⟨by omega, hb⟩

theorem textOK_comment (l : L) (id a b : Nat) (hid : id = tPOSTCOMMENT ∨ id = tPRECOMMENT)
    (ha : a ≤ l.inp.size) (hb : b ≤ l.inp.size) : TextOK l.inp id a (l.slice a b) := by
  obtain ⟨h1, h2⟩ := slice_text l a b ha hb
  unfold TextOK
  rcases hid with rfl | rfl
  · simp only [tPOSTCOMMENT, tSTRING, tERROR, tNUMBER, tPRECOMMENT]
    simp only [Nat.reduceEqDiff, or_self, if_false]
    exact ⟨h1, h2, fun _ h => absurd rfl h⟩
  · simp only [tPOSTCOMMENT, tSTRING, tERROR, tNUMBER, tPRECOMMENT]
    simp only [Nat.reduceEqDiff, or_self, if_false]
    exact ⟨h1, h2, fun h => absurd rfl h⟩

theorem slice_getLast (l : L) (a b : Nat) (hab : a < b) (hb : b ≤ l.inp.size) :
    (l.slice a b).getLast? = some (l.inp.getD (b - 1) 0) := by
  rw [List.getLast?_eq_getElem?, slice_length l a b (by omega) hb]
  simp only [L.slice, Array.getElem?_toList]
  rw [Array.getElem?_extract]
  have : b - a - 1 < min b l.inp.size - a := by omega
  simp [this, Array.getD]
  have h1 : a + (b - a - 1) = b - 1 := by omega
  have h2 : b - 1 < l.inp.size := by omega
  simp [h1, h2]

/-- the `#` comment: its token is right; afterwards the line is true and the column base is
    stale in exactly the way the classifier recognises -/
theorem hash_inv (l la : L) (h : Inv l) (hp : Pend la (some 35) l.pos) (hc : la.core = l.core) :
    AllOK (lexCommentHash la).1 ∧ ((lexCommentHash la).2 = Next.token → Inv (lexCommentHash la).1) ∧
      (lexCommentHash la).1.inp = l.inp ∧ Pushed l (lexCommentHash la) := by
  obtain ⟨f1, f2, _, f4⟩ := hp.facts
  obtain ⟨a1, a2, a3, a4, a5⟩ := core_fields hc
  have hnl : NoNl l.inp l.pos la.pos := by rw [← a1]; exact f4 (by decide)
  have hscan : Scan { l with start := la.pos } { la with start := la.pos } (some 35) :=
    ⟨by simp [L.core, a1, a2, a3, a5], l.pos, ⟨f2, fun h => by simp at h, hp.some_pos⟩, Nat.le_refl _, noNl_empty _ _⟩
  obtain ⟨rc, rle, rr⟩ := hash_loop (({ la with start := la.pos } : L).inp.size + 2) _ _ _ hscan
    (fun h => by simp at h) (fun _ => by show la.inp.size - la.pos < la.inp.size + 2; omega)
  simp only [lexCommentHash]
  generalize hashLoop _ _ _ = res at rc rle rr ⊢
  obtain ⟨R, r⟩ := res
  simp only [] at rc rle rr ⊢
  obtain ⟨c1, c2, c3, c4, c5⟩ := core_fields rc
  simp only [] at c1 c2 c3 c4 c5
  have hok : AllOK R := by intro t ht; rw [c5] at ht; rw [c1, c5]; exact h.ok t ht
  have hst : Tr R.inp R.toks.toList R.start R.line R.lastnl := by
    rw [c1, c2, c3, c4, c5]; exact h.tr.noNl f1 hnl
  obtain ⟨hap, hab⟩ := hp.ascii (by decide)
  have hshape : StartOK R.inp tPOSTCOMMENT R.start ∧ TextOK R.inp tPOSTCOMMENT R.start (R.slice R.start R.pos) := by
    refine ⟨?_, textOK_comment R _ _ _ (Or.inl rfl) (by rw [c4, c1, ← a1]; exact f2) rle⟩
    unfold StartOK
    simp only [if_true]
    rw [c4, c1, hap]
    exact ⟨by omega, by simpa [a1] using hab⟩
  have hem := emit_allOK R tPOSTCOMMENT (R.slice R.start R.pos) false false hok (Or.inr hst) (Or.inr hshape)
  have htoks : (R.emit tPOSTCOMMENT (R.slice R.start R.pos) false false).toks =
      l.toks.push (Tok.mk tPOSTCOMMENT R.start (R.slice R.start R.pos) false false R.skippedNl R.stamp.1 R.stamp.2) := by
    simp [L.emit, c5]
  split
  · rename_i hr0
    rcases rr with ⟨_, rsz, rge, rnl⟩ | ⟨rr, _⟩
    · -- the comment runs to the end of the input: the invariant holds there too
      have hinvEnd : Inv (R.emit tPOSTCOMMENT (R.slice R.start R.pos) false false) := by
        have hab : Tr R.inp R.toks.toList R.pos R.line R.lastnl := by
          rw [c1, c2, c3, c5]; exact h.tr.noNl rge rnl
        exact emit_phase R tPOSTCOMMENT _ false false R.line R.lastnl hok hst rle hab (Or.inr hshape)
      exact ⟨hem, fun h' => by simp at h', show R.inp = l.inp from c1,
        _, htoks, rle, fun h' => by simp at h', fun _ => Or.inr ⟨rsz, hinvEnd⟩,
        (by decide : tPOSTCOMMENT ≠ tEOF), (by show l.pos ≤ R.start; rw [c4]; exact f1), Or.inl rfl,
        Or.inl ⟨rfl, by show R.start = l.pos + 1; rw [c4]; exact hap⟩,
        ⟨fun _ => by
            show R.pos = R.start + (R.slice R.start R.pos).length
            have hge : R.start ≤ R.pos := by rw [c4]; rw [c1, ← a1] at rsz; omega
            rw [slice_length R _ _ hge rle]; omega,
          fun h => absurd h (by decide : tPOSTCOMMENT ≠ tPRECOMMENT), fun h => absurd h (by decide : ¬ 7 ≤ tPOSTCOMMENT),
          fun h => absurd h (by decide : tPOSTCOMMENT ≠ tNUMBER)⟩⟩
    · rw [hr0] at rr; simp at rr
  · rename_i hr
    rcases rr with ⟨rr, _⟩ | ⟨_, p, hpp, g1, g2⟩
    · exact absurd rr hr
    · obtain ⟨q1, q2, q3, _⟩ := hpp.facts
      obtain ⟨q3a, q3b⟩ := q3 rfl
      rw [c1] at q3b q2
      -- the newline lies behind the `#`
      have hpla : la.pos ≤ p := by
        apply Nat.le_of_not_lt; intro hlt
        exact hnl p g1 hlt q3b
      obtain ⟨e1, e2⟩ := nlBefore_noNl' g1 g2
      refine ⟨by simpa [AllOK, L.hashEnd] using hem, fun _ => ?_, show R.inp = l.inp from c1,
        _, htoks, rle, fun _ => by show R.start < R.pos; rw [c4]; omega, fun h' => by simp at h',
        (by decide : tPOSTCOMMENT ≠ tEOF), (by show l.pos ≤ R.start; rw [c4]; exact f1), Or.inl rfl,
        Or.inl ⟨rfl, by show R.start = l.pos + 1; rw [c4]; exact hap⟩,
        ⟨fun _ => by
            show R.pos = R.start + (R.slice R.start R.pos).length
            have hge : R.start ≤ R.pos := by rw [c4]; omega
            rw [slice_length R _ _ hge rle]; omega,
          fun h => absurd h (by decide : tPOSTCOMMENT ≠ tPRECOMMENT), fun h => absurd h (by decide : ¬ 7 ≤ tPOSTCOMMENT),
          fun h => absurd h (by decide : tPOSTCOMMENT ≠ tNUMBER)⟩⟩
      refine ⟨by simpa [L.hashEnd, L.emit, c1] using q2, ?_, by simpa [AllOK, L.hashEnd] using hem⟩
      have hlen := slice_length R la.pos (p + 1) (by omega) (by rw [c1]; omega)
      have hlast := slice_getLast R la.pos (p + 1) (by omega) (by rw [c1]; omega)
      rw [c1] at hlast
      have hls : lineStart l.inp (p + 1) = p + 1 := by simp [lineStart, q3b]
      show Tr R.inp (R.toks.push (Tok.mk tPOSTCOMMENT R.start (R.slice R.start R.pos) false false R.skippedNl
        R.stamp.1 R.stamp.2)).toList R.pos (R.line + 1) R.lastnl
      rw [Array.toList_push]
      refine ⟨?_, Or.inr ⟨_, List.mem_append_right _ (List.mem_singleton.mpr rfl), rfl, ?_, ?_, ?_, rfl⟩⟩
      · rw [c1, c2, q3a]; simp [nlBefore, q3b, e1, h.tr.1]
      · show R.start + (R.slice R.start R.pos).length = lineStart R.inp R.pos
        rw [c4, q3a, hlen, c1, hls]; omega
      · rw [q3a, c1, hls]; omega
      · show (R.slice R.start R.pos).getLast? = some 10
        rw [c4, q3a, hlast]
        have : p + 1 - 1 = p := by omega
        rw [this, q3b]

theorem block_inv (l la : L) (h : Inv l) (hb : Blk l la) (hpk : la.peek 1 = some 42)
    (h47 : l.inp.getD l.pos 0 = 47 ∧ la.pos = l.pos + 1) :
    AllOK (lexCommentBlock la).1 ∧ ((lexCommentBlock la).2 = Next.token → Inv (lexCommentBlock la).1) ∧
      (lexCommentBlock la).1.inp = l.inp ∧ Pushed l (lexCommentBlock la) := by
  obtain ⟨b2, b2p⟩ := next_blk hb.le hpk (by decide)
  have hlb := hb.trans b2
  obtain ⟨a1, a2, a3, a4, a5⟩ := core_fields hlb.core
  -- the opener `/*` stands directly before the start of the comment text
  have hopen : 2 ≤ (la.next).1.pos ∧ l.inp.getD ((la.next).1.pos - 2) 0 = 47 ∧
      l.inp.getD ((la.next).1.pos - 1) 0 = 42 := by
    have hp2 := b2p (by decide)
    obtain ⟨q1, q2⟩ := peek1_some hpk
    obtain ⟨_, hb42⟩ := (decodeRune_spec la.inp la.pos q1).2.2.1 (by rw [q2]; decide)
    rw [q2, (core_fields hb.core).1] at hb42
    have e2 : (la.next).1.pos - 2 = l.pos := by omega
    have e1 : (la.next).1.pos - 1 = la.pos := by omega
    rw [e2, e1]
    exact ⟨by omega, h47.1, hb42⟩
  have hstartE : StartOK l.inp tERROR (la.next).1.pos := by
    unfold StartOK
    simp only [tERROR, tPOSTCOMMENT, tPRECOMMENT]
    simp only [Nat.reduceEqDiff, if_false]
    exact Or.inr ⟨trivial, hopen⟩
  have hstartP : StartOK l.inp tPRECOMMENT (la.next).1.pos := by
    unfold StartOK
    simp only [tPOSTCOMMENT, tPRECOMMENT]
    simp only [Nat.reduceEqDiff, if_false, if_true]
    exact hopen
  obtain ⟨np, nc⟩ := next_spec { (la.next).1 with start := (la.next).1.pos } hlb.le
  obtain ⟨n1, n2, n3, n4, n5⟩ := core_fields nc
  simp only [] at n1 n2 n3 n4 n5
  have htr0 : Tr l.inp l.toks.toList (la.next).1.pos l.line l.lastnl := h.tr.noNl hlb.ge hlb.nonl
  simp only [lexCommentBlock]
  generalize hres : blockLoop _ _ _ _ _ = res
  cases res with
  | none =>
    simp only []
    refine ⟨?_, fun h' => by simp at h', show ({ (la.next).1 with start := (la.next).1.pos } : L).next.1.inp = l.inp from n1.trans a1,
      _, (emit_toks _ tERROR _ false false).trans (congrArg (fun a => Array.push a _) (n5.trans a5)),
      Nat.le_refl _, fun h' => by simp at h', fun _ => Or.inl rfl,
      (by decide : tERROR ≠ tEOF),
      (by show l.pos ≤ ({ (la.next).1 with start := (la.next).1.pos } : L).next.1.start; rw [n4]; exact hlb.ge),
      Or.inr (Or.inr (Or.inl rfl)),
      Or.inr (Or.inl ⟨Or.inr rfl, by
        show ({ (la.next).1 with start := (la.next).1.pos } : L).next.1.start = l.pos + 2
        rw [n4]; show (la.next).1.pos = l.pos + 2
        have := b2p (by decide); have := h47.2; omega⟩),
      endOK_error⟩
    apply emit_allOK
    · intro t ht; simp only [] at ht ⊢; rw [n5, a5] at ht; rw [n1, n5, a1, a5]; exact h.ok t ht
    · right; simp only []; rw [n1, n2, n3, n4, n5, a1, a2, a3, a5]; exact htr0
    · right; simp only []; rw [n1, n4, a1]
      exact ⟨hstartE, by unfold TextOK; simp⟩
  | some x =>
    obtain ⟨l', a', b'⟩ := x
    obtain ⟨lc, hpk', p', hp', htr', hpp'⟩ := block_loop l.toks.toList _ _ _ _ _ _ _ _ _ np
      (by rw [n1, n2, n3, a1, a2, a3]; exact htr0) hres
    obtain ⟨c1, c2, c3, c4, c5⟩ := core_fields lc
    rw [n1, a1] at htr'
    obtain ⟨g1, g2, g3, g4⟩ := hp'.facts
    have hpos : Tr l.inp l.toks.toList l'.pos a' b' := by
      refine htr'.noNl g1 ?_
      have := g4 (by decide)
      rwa [c1, n1, a1] at this
    have hok' : AllOK l' := by
      intro t ht; rw [c5, n5, a5] at ht; rw [c1, c5, n1, n5, a1, a5]; exact h.ok t ht
    have hst' : Tr l'.inp l'.toks.toList l'.start l'.line l'.lastnl := by
      rw [c1, c2, c3, c4, c5, n1, n2, n3, n4, n5, a1, a2, a3, a5]; exact htr0
    simp only []
    -- the state after the emit, then the final `/`
    have hshape : StartOK l'.inp tPRECOMMENT l'.start ∧
        TextOK l'.inp tPRECOMMENT l'.start (l'.slice l'.start (l'.pos - 1)) := by
      refine ⟨by rw [c1, c4, n1, n4, a1]; exact hstartP,
        textOK_comment l' _ _ _ (Or.inr rfl) ?_ (by omega)⟩
      rw [c4, n4, c1, n1]; exact hlb.le
    have hem := emit_allOK l' tPRECOMMENT (l'.slice l'.start (l'.pos - 1)) false false hok' (Or.inr hst')
      (Or.inr hshape)
    have hpe : (l'.emit tPRECOMMENT (l'.slice l'.start (l'.pos - 1)) false false).peek 1 = some 47 := by
      rw [← hpk']; exact peek_congr rfl rfl 1
    obtain ⟨b3, b3p⟩ := next_blk (l := l'.emit tPRECOMMENT (l'.slice l'.start (l'.pos - 1)) false false)
      (by simpa [L.emit] using g2) hpe (by decide)
    have hlc : (l'.emit tPRECOMMENT (l'.slice l'.start (l'.pos - 1)) false false).next.1.pos = l'.pos + 1 :=
      b3p (by decide)
    have hS' : l'.start = (la.next).1.pos := c4.trans n4
    obtain ⟨d1, d2, d3, d4, d5⟩ := core_fields b3.core
    have hI : l'.inp = l.inp := c1.trans (n1.trans a1)
    have hT : l'.toks = l.toks := c5.trans (n5.trans a5)
    have hn : NoNl l'.inp l'.pos (l'.emit tPRECOMMENT (l'.slice l'.start (l'.pos - 1)) false false).next.1.pos := b3.nonl
    have hge : l'.pos ≤ (l'.emit tPRECOMMENT (l'.slice l'.start (l'.pos - 1)) false false).next.1.pos := b3.ge
    rw [hI] at hn
    have hfin : Inv { (l'.emit tPRECOMMENT (l'.slice l'.start (l'.pos - 1)) false false).next.1 with
        line := a', lastnl := b' } := by
      refine ⟨b3.le, ?_, ?_⟩
      · show Tr (l'.emit tPRECOMMENT (l'.slice l'.start (l'.pos - 1)) false false).next.1.inp
          (l'.emit tPRECOMMENT (l'.slice l'.start (l'.pos - 1)) false false).next.1.toks.toList _ a' b'
        rw [d1, d5]
        show Tr l'.inp (l'.toks.push _).toList _ a' b'
        rw [Array.toList_push, hI, hT]
        exact (hpos.mono _).noNl hge hn
      · intro t ht
        change t ∈ (l'.emit tPRECOMMENT (l'.slice l'.start (l'.pos - 1)) false false).next.1.toks.toList at ht
        show TokOK (l'.emit tPRECOMMENT (l'.slice l'.start (l'.pos - 1)) false false).next.1.inp
          (l'.emit tPRECOMMENT (l'.slice l'.start (l'.pos - 1)) false false).next.1.toks.toList t
        rw [d5] at ht
        rw [d1, d5]
        exact hem t ht
    have hlpos := block_loop_pos _ _ _ _ _ _ _ _ hres
    have hnp := next_pos_le ({ (la.next).1 with start := (la.next).1.pos } : L)
    exact ⟨hfin.ok, fun _ => hfin,
      show (l'.emit tPRECOMMENT (l'.slice l'.start (l'.pos - 1)) false false).next.1.inp = l.inp from d1.trans hI,
      Tok.mk tPRECOMMENT l'.start (l'.slice l'.start (l'.pos - 1)) false false l'.skippedNl l'.stamp.1 l'.stamp.2,
      by show (l'.emit tPRECOMMENT (l'.slice l'.start (l'.pos - 1)) false false).next.1.toks = _
         rw [d5]; simp [L.emit, hT],
      b3.le,
      fun _ => by
        show l'.start < (l'.emit tPRECOMMENT (l'.slice l'.start (l'.pos - 1)) false false).next.1.pos
        have h2 : (la.next).1.pos ≤ l'.pos := Nat.le_trans hnp hlpos
        rw [hlc, hS']; omega,
      fun h' => by simp at h',
      (by decide : tPRECOMMENT ≠ tEOF), (by show l.pos ≤ l'.start; rw [hS']; exact hlb.ge), Or.inr (Or.inl rfl),
      Or.inr (Or.inl ⟨Or.inl rfl, by
        show l'.start = l.pos + 2
        rw [hS']; have := b2p (by decide); have := h47.2; omega⟩),
      ⟨fun h => absurd h (by decide : tPRECOMMENT ≠ tPOSTCOMMENT),
        fun _ => by
          show (l'.emit tPRECOMMENT (l'.slice l'.start (l'.pos - 1)) false false).next.1.pos =
            l'.start + (l'.slice l'.start (l'.pos - 1)).length + 2
          obtain ⟨hq1, _⟩ := hp'.ascii (by decide)
          have hpp2 : (la.next).1.pos ≤ p' := hpp'
          have hge2 : l'.start ≤ l'.pos - 1 := by rw [hS']; omega
          rw [hlc, slice_length l' _ _ hge2 (by omega)]; omega,
        fun h => absurd h (by decide : ¬ 7 ≤ tPRECOMMENT), fun h => absurd h (by decide : tPRECOMMENT ≠ tNUMBER)⟩⟩

theorem lexComment_inv (l : L) (h : Inv l)
    (hcase : l.peek 1 = some 35 ∨ (l.peek 1 = some 47 ∧ l.peek 2 = some 42)) :
    AllOK (lexComment l).1 ∧ ((lexComment l).2 = Next.token → Inv (lexComment l).1) ∧
      (lexComment l).1.inp = l.inp ∧ Pushed l (lexComment l) := by
  obtain ⟨np, nc⟩ := next_spec l h.le
  simp only [lexComment]
  split
  · rename_i h35
    rw [h35] at np
    exact hash_inv l _ h np nc
  · rename_i h35
    rw [← peek1_eq] at h35
    rcases hcase with hc | ⟨h47, h42⟩
    · exact absurd hc h35
    · obtain ⟨b1, b1p⟩ := next_blk h.le h47 (by decide)
      obtain ⟨q1, q2⟩ := peek1_some h47
      obtain ⟨_, hb47⟩ := (decodeRune_spec l.inp l.pos q1).2.2.1 (by rw [q2]; decide)
      rw [q2] at hb47
      exact block_inv l _ h b1 (peek2_shift h42 (by decide) (core_fields b1.core).1 (b1p (by decide)))
        ⟨hb47, b1p (by decide)⟩

/-- a token emitted after a scanner run that started at the token's first byte -/
theorem blk_emit (l l3 : L) (h : Inv l) (hb : Blk { l with start := l.pos } l3)
    (id : Nat) (val : List Nat) (ident ae : Bool)
    (hs : id = tEOF ∨ (StartOK l.inp id l.pos ∧ TextOK l.inp id l.pos val)) :
    Inv (l3.emit id val ident ae) ∧ (l3.emit id val ident ae).inp = l.inp ∧
      (l3.emit id val ident ae).toks =
        l.toks.push (Tok.mk id l3.start val ident ae l3.skippedNl l3.stamp.1 l3.stamp.2) := by
  obtain ⟨c1, c2, c3, c4, c5⟩ := core_fields hb.core
  simp only [] at c1 c2 c3 c4 c5
  have hok : AllOK l3 := by intro t ht; rw [c5] at ht; rw [c1, c5]; exact h.ok t ht
  have hst : Tr l3.inp l3.toks.toList l3.start l3.line l3.lastnl := by
    rw [c1, c2, c3, c4, c5]; exact h.tr
  have hab : Tr l3.inp l3.toks.toList l3.pos l3.line l3.lastnl := by
    rw [c1, c2, c3, c5]; exact h.tr.noNl hb.ge hb.nonl
  exact ⟨emit_phase l3 id val ident ae l3.line l3.lastnl hok hst hb.le hab (by rw [c1, c4]; exact hs), c1,
    (emit_toks l3 id val ident ae).trans (congrArg (fun a => Array.push a _) c5)⟩

/-- the ids and keys of the keyword / symbol tables -/
theorem tables_clean : ∀ p ∈ keywordBytes ++ symbolBytes, 16 ≤ p.2 ∧ p.1 ≠ [] := by decide

theorem lookupTab_mem {tab : List (List Nat × Nat)} {k : List Nat} {t : Nat} (h : lookupTab tab k = some t) :
    ∃ p ∈ tab, p.1 = k ∧ p.2 = t := by
  simp only [lookupTab, Option.map_eq_some_iff] at h
  obtain ⟨p, hp, rfl⟩ := h
  exact ⟨p, List.mem_of_find?_eq_some hp, by simpa using List.find?_some hp, rfl⟩

theorem lookup_ids {k : List Nat} {t : Nat}
    (h : (lookupTab keywordBytes k).orElse (fun _ => lookupTab symbolBytes k) = some t) : 16 ≤ t ∧ k ≠ [] := by
  have : lookupTab keywordBytes k = some t ∨ lookupTab symbolBytes k = some t := by
    cases hk : lookupTab keywordBytes k with
    | some x => rw [hk] at h; left; simpa using h
    | none => rw [hk] at h; right; simpa using h
  rcases this with h | h
  · obtain ⟨p, hp, rfl, rfl⟩ := lookupTab_mem h
    exact tables_clean p (List.mem_append_left _ hp)
  · obtain ⟨p, hp, rfl, rfl⟩ := lookupTab_mem h
    exact tables_clean p (List.mem_append_right _ hp)

theorem lowerGo_ne_nil {s : List Nat} (h : lowerGo s ≠ []) : s ≠ [] := by
  intro hs; subst hs; exact h (by simp [lowerGo])

/-- a word token (keyword, symbol, identifier): the text at its start is its value -/
theorem textOK_word (l : L) (id a b : Nat) (hid : 7 ≤ id) (ha : a ≤ l.inp.size) (hb : b ≤ l.inp.size)
    (hne : l.slice a b ≠ []) : TextOK l.inp id a (l.slice a b) := by
  obtain ⟨h1, h2⟩ := slice_text l a b ha hb
  unfold TextOK
  have n1 : ¬ (id = tSTRING ∨ id = tERROR) := by simp only [tSTRING, tERROR]; omega
  have n2 : ¬ id = tNUMBER := by simp only [tNUMBER]; omega
  simp only [n1, n2, if_false]
  exact ⟨h1, h2, fun _ _ => hne⟩

theorem lowerGo_nil {s : List Nat} (h : (lowerGo s).length > 0) : s.length > 0 := by
  cases s with
  | nil => simp [lowerGo] at h
  | cons _ _ => simp

theorem blank_false_of {c : Nat} (h : c = 47 ∨ c = 35 ∨ c = 34 ∨ c = 39 ∨ c = 114) : blank (some c) = false := by
  rcases h with rfl | rfl | rfl | rfl | rfl <;> decide

/-- skipWhiteSpace in front of a comment / string opener: invariant kept, nothing consumed -/
theorem sws_opener (l : L) (h : Inv l) {c : Nat} (hpk : l.peek 1 = some c)
    (hc : c = 47 ∨ c = 35 ∨ c = 34 ∨ c = 39 ∨ c = 114) :
    AllOK (skipWhiteSpace l).1 ∧ (skipWhiteSpace l).1.inp = l.inp ∧
    ((skipWhiteSpace l).2 = true → Inv (skipWhiteSpace l).1 ∧ (∀ n, (skipWhiteSpace l).1.peek n = l.peek n) ∧
      Ready (skipWhiteSpace l).1) := by
  obtain ⟨hp, hd⟩ := peek1_some hpk
  obtain ⟨e1, e2⟩ := sws_pos l hp (by rw [hd]; exact blank_false_of hc)
  exact ⟨(sws_ext l).allOK h.ok, e2, fun hok => ⟨sws_inv l h hok, fun n => peek_congr e2 e1 n,
    (sws_inv_ready l h hok).2.1⟩⟩

theorem lexWordText_inv (l l2 : L) (h : Inv l) (hr : Ready l) (hb : Blk { l with start := l.pos } l2) :
    AllOK (lexWordText l2).1 ∧ ((lexWordText l2).2 = Next.token → Inv (lexWordText l2).1) ∧
      (lexWordText l2).1.inp = l.inp ∧ Pushed l (lexWordText l2) := by
  have b3 := hb.trans (lexTextBlock_blk l2 hb.le)
  -- a non-empty word has moved the position
  have hprog : (lexTextBlock l2).slice (lexTextBlock l2).start (lexTextBlock l2).pos ≠ [] → l.pos < (lexTextBlock l2).pos := by
    intro hne
    have hs4 : (lexTextBlock l2).start = l.pos := (core_fields b3.core).2.2.2.1
    have hge : (lexTextBlock l2).start ≤ (lexTextBlock l2).pos := by rw [hs4]; exact b3.ge
    have hl := slice_length (lexTextBlock l2) _ _ hge b3.le
    have : 0 < ((lexTextBlock l2).slice (lexTextBlock l2).start (lexTextBlock l2).pos).length :=
      Nat.pos_of_ne_zero (fun h0 => hne (List.eq_nil_of_length_eq_zero h0))
    rw [hl, hs4] at this; omega
  obtain ⟨c1, c2, c3, c4, c5⟩ := core_fields b3.core
  simp only [] at c1 c4
  have hstart : ∀ id, 7 ≤ id ∨ id = tERROR → StartOK l.inp id l.pos := by
    intro id hid
    unfold StartOK
    have n1 : ¬ id = tPOSTCOMMENT := by rcases hid with h | h <;> simp only [tPOSTCOMMENT, tERROR] at * <;> omega
    have n2 : ¬ id = tPRECOMMENT := by rcases hid with h | h <;> simp only [tPRECOMMENT, tERROR] at * <;> omega
    simp only [n1, n2, if_false]
    exact Or.inl hr
  -- the text of the word in terms of the entry state
  have htext : ∀ id, 7 ≤ id → (lexTextBlock l2).slice (lexTextBlock l2).start (lexTextBlock l2).pos ≠ [] →
      TextOK l.inp id l.pos ((lexTextBlock l2).slice (lexTextBlock l2).start (lexTextBlock l2).pos) := by
    intro id hid hne
    have key : ∀ v, TextOK (lexTextBlock l2).inp id (lexTextBlock l2).start v → TextOK l.inp id l.pos v := by
      intro v hv; rw [c1, c4] at hv; exact hv
    exact key _ (textOK_word (lexTextBlock l2) id (lexTextBlock l2).start (lexTextBlock l2).pos hid
      (by rw [c4, c1]; exact h.le) b3.le hne)
  -- the phase ends directly behind the word
  have hwend : (lexTextBlock l2).pos = (lexTextBlock l2).start +
      ((lexTextBlock l2).slice (lexTextBlock l2).start (lexTextBlock l2).pos).length := by
    have hge : (lexTextBlock l2).start ≤ (lexTextBlock l2).pos := by rw [c4]; exact b3.ge
    rw [slice_length _ _ _ hge b3.le]; omega
  simp only [lexWordText]
  split
  · rename_i t hlook
    obtain ⟨ht16, hkne⟩ := lookup_ids hlook
    have hne := lowerGo_ne_nil hkne
    have htne : t ≠ tEOF := by simp only [tEOF]; omega
    unfold L.emitToken
    split
    · rename_i hte; exact absurd hte htne
    · obtain ⟨i1, i2, i3⟩ := blk_emit l _ h b3 t ((lexTextBlock l2).slice (lexTextBlock l2).start (lexTextBlock l2).pos) false false
        (Or.inr ⟨hstart t (Or.inl (by omega)), htext t (by omega) hne⟩)
      exact ⟨i1.ok, fun _ => i1, i2, _, i3, b3.le,
        fun _ => by show (lexTextBlock l2).start < (lexTextBlock l2).pos; rw [c4]; exact hprog hne,
        fun h' => by simp at h', htne, Nat.le_of_eq c4.symm, Or.inr (Or.inr (Or.inr c4)),
        Or.inr (Or.inr c4),
        ⟨fun h => absurd h (by simp only [tPOSTCOMMENT]; omega), fun h => absurd h (by simp only [tPRECOMMENT]; omega),
          fun _ => hwend, fun h => absurd h (by simp only [tNUMBER]; omega)⟩⟩
  · split
    · obtain ⟨i1, i2, i3⟩ := blk_emit l _ h b3 tERROR (str "Cannot parse identifier") false false
        (Or.inr ⟨hstart tERROR (Or.inr rfl), by unfold TextOK; simp⟩)
      exact ⟨i1.ok, fun h' => by simp at h', i2, _, i3, b3.le, fun h' => by simp at h', fun _ => Or.inl rfl,
        (by decide : tERROR ≠ tEOF), Nat.le_of_eq c4.symm, Or.inr (Or.inr (Or.inl rfl)),
        Or.inr (Or.inr c4), endOK_error⟩
    · rename_i hnp
      have hname : namePattern (lowerGo ((lexTextBlock l2).slice (lexTextBlock l2).start (lexTextBlock l2).pos)) = true := by
        simpa using hnp
      have hne : (lexTextBlock l2).slice (lexTextBlock l2).start (lexTextBlock l2).pos ≠ [] := by
        apply lowerGo_ne_nil
        intro h0; rw [h0] at hname; simp [namePattern] at hname
      obtain ⟨i1, i2, i3⟩ := blk_emit l _ h b3 tIDENTIFIER
        ((lexTextBlock l2).slice (lexTextBlock l2).start (lexTextBlock l2).pos) true false
        (Or.inr ⟨hstart tIDENTIFIER (Or.inl (by decide)), htext tIDENTIFIER (by decide) hne⟩)
      exact ⟨i1.ok, fun _ => i1, i2, _, i3, b3.le,
        fun _ => by show (lexTextBlock l2).start < (lexTextBlock l2).pos; rw [c4]; exact hprog hne,
        fun h' => by simp at h', (by decide : tIDENTIFIER ≠ tEOF), Nat.le_of_eq c4.symm, Or.inr (Or.inr (Or.inr c4)),
        Or.inr (Or.inr c4),
        ⟨fun h => absurd h (by decide : tIDENTIFIER ≠ tPOSTCOMMENT), fun h => absurd h (by decide : tIDENTIFIER ≠ tPRECOMMENT),
          fun _ => hwend, fun h => absurd h (by decide : tIDENTIFIER ≠ tNUMBER)⟩⟩

theorem lexWord_inv (l : L) (h : Inv l) (hr : Ready l) :
    AllOK (lexWord { l with start := l.pos }).1 ∧
      ((lexWord { l with start := l.pos }).2 = Next.token → Inv (lexWord { l with start := l.pos }).1) ∧
      (lexWord { l with start := l.pos }).1.inp = l.inp ∧ Pushed l (lexWord { l with start := l.pos }) := by
  have b1 : Blk { l with start := l.pos } (lexNumberBlock { l with start := l.pos }) :=
    lexNumberBlock_blk _ h.le
  simp only [lexWord]
  split
  · rename_i hnum
    obtain ⟨c1, c2, c3, c4, c5⟩ := core_fields b1.core
    simp only [] at c1 c4
    -- a number candidate is not empty
    have hkc : lowerGo ((lexNumberBlock { l with start := l.pos }).slice (lexNumberBlock { l with start := l.pos }).start
        (lexNumberBlock { l with start := l.pos }).pos) ≠ [] := by
      intro h0; rw [h0] at hnum; simp [numberCandidate] at hnum
    have hlen : 0 < ((lexNumberBlock { l with start := l.pos }).slice (lexNumberBlock { l with start := l.pos }).start
        (lexNumberBlock { l with start := l.pos }).pos).length :=
      Nat.pos_of_ne_zero (fun h0 => (lowerGo_ne_nil hkc) (List.eq_nil_of_length_eq_zero h0))
    have hge : (lexNumberBlock { l with start := l.pos }).start ≤ (lexNumberBlock { l with start := l.pos }).pos := by
      rw [c4]; exact b1.ge
    rw [slice_length _ _ _ hge b1.le] at hlen
    have hshape : StartOK l.inp tNUMBER l.pos ∧ TextOK l.inp tNUMBER l.pos
        (lowerGo ((lexNumberBlock { l with start := l.pos }).slice (lexNumberBlock { l with start := l.pos }).start
          (lexNumberBlock { l with start := l.pos }).pos)) := by
      refine ⟨?_, ?_⟩
      · unfold StartOK
        simp only [tNUMBER, tPOSTCOMMENT, tPRECOMMENT]
        simp only [Nat.reduceEqDiff, if_false]
        exact Or.inl hr
      · unfold TextOK
        simp only [tNUMBER, tSTRING, tERROR]
        simp only [Nat.reduceEqDiff, or_self, if_false, if_true]
        refine ⟨(lexNumberBlock { l with start := l.pos }).pos, by rw [c4] at hlen; omega,
          by have := b1.le; rw [c1] at this; exact this, ?_⟩
        simp only [L.slice, c1, c4]
    -- the number's text is ASCII without letters that lower-casing could shorten: the phase ends
    -- directly behind it
    have hnend : (lexNumberBlock { l with start := l.pos }).pos = (lexNumberBlock { l with start := l.pos }).start +
        (lowerGo ((lexNumberBlock { l with start := l.pos }).slice (lexNumberBlock { l with start := l.pos }).start
          (lexNumberBlock { l with start := l.pos }).pos)).length := by
      have hvf : validFloat (lowerGo ((lexNumberBlock { l with start := l.pos }).slice
          (lexNumberBlock { l with start := l.pos }).start (lexNumberBlock { l with start := l.pos }).pos)) = true := by
        simp only [numberCandidate, Bool.and_eq_true] at hnum; exact hnum.2
      have hbytes := validFloat_bytes hvf
      rw [lowerGo_length _ (fun b hb => by
        rcases hbytes b hb with h | h | h | h <;> omega), slice_length _ _ _ hge b1.le]
      omega
    obtain ⟨i1, i2, i3⟩ := blk_emit l _ h b1 tNUMBER
      (lowerGo ((lexNumberBlock { l with start := l.pos }).slice (lexNumberBlock { l with start := l.pos }).start
        (lexNumberBlock { l with start := l.pos }).pos)) false false (Or.inr hshape)
    exact ⟨i1.ok, fun _ => i1, i2, _, i3, b1.le,
      fun _ => by
        show (lexNumberBlock { l with start := l.pos }).start < (lexNumberBlock { l with start := l.pos }).pos
        omega,
      fun h' => by simp at h', (by decide : tNUMBER ≠ tEOF), Nat.le_of_eq c4.symm, Or.inr (Or.inr (Or.inr c4)),
      Or.inr (Or.inr c4), endOK_number hnend⟩
  · apply lexWordText_inv l _ h hr
    obtain ⟨c1, c2, c3, c4, c5⟩ := core_fields b1.core
    simp only [] at c4
    split
    · rename_i hk
      have hlen := lowerGo_nil hk
      have hge : (lexNumberBlock { l with start := l.pos }).start ≤ (lexNumberBlock { l with start := l.pos }).pos := by
        rw [c4]; exact b1.ge
      rw [slice_length _ _ _ hge b1.le] at hlen
      have hpos : ((lexNumberBlock { l with start := l.pos }).backup
          ((lexNumberBlock { l with start := l.pos }).pos - (lexNumberBlock { l with start := l.pos }).start)).pos = l.pos := by
        simp only [L.backup]
        have : ¬ ((lexNumberBlock { l with start := l.pos }).pos - (lexNumberBlock { l with start := l.pos }).start = 0) := by omega
        simp only [this, if_false]
        rw [c4]; have := b1.ge; simp only [] at this; omega
      refine ⟨by simpa [L.core, L.backup] using b1.core, by rw [hpos]; exact Nat.le_refl _, ?_, by rw [hpos]; exact noNl_empty _ _⟩
      rw [hpos]
      show l.pos ≤ (lexNumberBlock { l with start := l.pos }).inp.size
      rw [c1]; exact h.le
    · exact b1

theorem lexToken_inv (l : L) (h : Inv l) (hr : Ready l) :
    AllOK (lexToken l).1 ∧ ((lexToken l).2 = Next.token → Inv (lexToken l).1) ∧ (lexToken l).1.inp = l.inp ∧
      Pushed l (lexToken l) := by
  have htrue := sws_true l hr.1 hr.2
  have hsame := sws_pos l hr.1 hr.2
  have htk := (sws_total l h.le).2 htrue
  simp only [lexToken]
  split
  · rename_i hc
    simp only [Bool.or_eq_true, Bool.and_eq_true, decide_eq_true_eq] at hc
    have hpk : ∃ c, l.peek 1 = some c ∧ (c = 47 ∨ c = 35 ∨ c = 34 ∨ c = 39 ∨ c = 114) := by
      rcases hc with ⟨h1, _⟩ | h1
      · exact ⟨47, h1, Or.inl rfl⟩
      · exact ⟨35, h1, Or.inr (Or.inl rfl)⟩
    obtain ⟨c, hpk, hcc⟩ := hpk
    obtain ⟨s1, s2, s3⟩ := sws_opener l h hpk hcc
    obtain ⟨hinv, hpe, _⟩ := s3 htrue
    have := lexComment_inv _ hinv (by
      rw [hpe 1, hpe 2]
      rcases hc with ⟨h1, h2⟩ | h1
      · exact Or.inr ⟨h1, h2⟩
      · exact Or.inl h1)
    exact ⟨this.1, this.2.1, this.2.2.1.trans s2, this.2.2.2.congr htk hsame.1⟩
  · split
    · rename_i hc
      simp only [Bool.or_eq_true, Bool.and_eq_true, decide_eq_true_eq] at hc
      have hpk : ∃ c, l.peek 1 = some c ∧ (c = 47 ∨ c = 35 ∨ c = 34 ∨ c = 39 ∨ c = 114) := by
        rcases hc with (h1 | h1) | ⟨h1, _⟩
        · exact ⟨34, h1, by simp⟩
        · exact ⟨39, h1, by simp⟩
        · exact ⟨114, h1, by simp⟩
      obtain ⟨c, hpk, hcc⟩ := hpk
      obtain ⟨s1, s2, s3⟩ := sws_opener l h hpk hcc
      obtain ⟨hinv, hpe, hrdy⟩ := s3 htrue
      have := lexValue_inv _ hinv hrdy (by
        rw [hpe 1, hpk]
        rcases hcc with rfl | rfl | rfl | rfl | rfl <;> decide)
      exact ⟨this.1, this.2.1, this.2.2.1.trans s2, this.2.2.2.congr htk hsame.1⟩
    · exact lexWord_inv l h hr

theorem lex_loop_ok (fuel : Nat) : ∀ (l : L), Inv l → Ready l →
    AllOK (lex.loop fuel l) ∧ (lex.loop fuel l).inp = l.inp := by
  induction fuel with
  | zero => intro l h _; exact ⟨h.ok, rfl⟩
  | succ n ih =>
    intro l h hr
    obtain ⟨t1, t2, t3, _⟩ := lexToken_inv l h hr
    have e := sws_ext (lexToken l).1
    simp only [lex.loop]
    split
    · exact ⟨e.allOK t1, e.1.trans t3⟩
    · rename_i hc
      simp only [Bool.or_eq_true, Bool.not_eq_true', decide_eq_true_eq, not_or, Bool.not_eq_false] at hc
      obtain ⟨hok, hnx⟩ := hc
      have htok : (lexToken l).2 = Next.token := by
        cases hx : (lexToken l).2 with
        | token => rfl
        | stop => exact absurd hx hnx
      have := ih _ (sws_inv _ (t2 htok) hok) (sws_inv_ready _ (t2 htok) hok).2.1
      exact ⟨this.1, this.2.trans (e.1.trans t3)⟩

theorem lex_ok (input : List Nat) :
    ∀ t ∈ (lex input).toList, TokOK input.toArray (lex input).toList t := by
  have h0 : Inv ({ inp := input.toArray } : L) :=
    ⟨Nat.zero_le _, ⟨rfl, Or.inl rfl⟩, fun t ht => by simp at ht⟩
  have e := sws_ext ({ inp := input.toArray } : L)
  simp only [lex]
  split
  · have := e.allOK h0.ok
    rw [AllOK, e.1] at this
    exact this
  · rename_i hok
    simp only [Bool.not_eq_true', Bool.not_eq_false] at hok
    have := lex_loop_ok (input.length + 2) _ (sws_inv _ h0 hok) (sws_inv_ready _ h0 hok).2.1
    have hi := this.2.trans e.1
    have h1 := this.1
    rw [AllOK, hi] at h1
    exact h1

end Ecal.Lex
