import Ecal.Model.Prims
import Ecal.Model.Eval
/-!
C06 — the Prims transcriptions of `len`, `del`, `add` agree with the builtins of the evaluator model (`lenB`, `delB`,
`addB`: the functions the driver runs and the correspondence compares with Go): same outcome class (value / error
value) on EVERY argument vector and heap, unless the evaluator model leaves itself (`unsupported` / fuel). The value
abstraction `absV` keeps what the argument checks look at (kind, list length, map size, the integer conversion).
-/
namespace Ecal.Lemmas.C06PrimsTie
open Ecal.Ev Ecal.Prims

/-- what the Prims transcription sees of a value of the evaluator model (lists: their length; maps: their size;
    numbers: the two integer conversions; strings: not a number — the model answers `unsupported` for those) -/
def absV (st : St) : Val → PVal
  | .null => .null
  | .bool b => .bool b
  | .num x => .num x.toInt64.toInt (x + 1).toInt64.toInt
  | .str _ => .str "" none
  | .list _ l => .list (List.replicate l PVal.null)
  | .map r => .map ((st.maps.getD r []).map fun _ => (PVal.null, PVal.null))
  | .func id => .func id
  | .builtin _ => .func 0
  | .opaque _ => .null

inductive Cl where
  | value | error | outside
  deriving DecidableEq, Repr

/-- class of an outcome of the evaluator model (`outside`: the model leaves itself — unsupported / fuel) -/
def clEv : Except Sig Val → Cl
  | .ok _ => .value
  | .error (.err _ _) => .error
  | .error (.plainErr _) => .error
  | .error (.iter _ _) => .error
  | .error (.ret _ _) => .error
  | .error _ => .outside

/-- class of an outcome of the Prims transcription -/
def clP : Ecal.Prims.R PVal → Cl
  | .ok _ => .value
  | .error (.err _) => .error
  | .error .iter => .error
  | .error (.panic _) => .outside

/-- the two answer with the same class, unless the evaluator model leaves itself -/
def Agree (e : Except Sig Val) (p : Ecal.Prims.R PVal) : Prop := clEv e = .outside ∨ clEv e = clP p

theorem goIndex_zero {α : Type} (x : α) (xs : List α) : goIndex (x :: xs) 0 = .ok x := by simp [goIndex]
theorem goIndex_one {α : Type} (x y : α) (xs : List α) : goIndex (x :: y :: xs) 1 = .ok y := by simp [goIndex]
theorem goIndex_two {α : Type} (x y z : α) (xs : List α) : goIndex (x :: y :: z :: xs) 2 = .ok z := by simp [goIndex]

theorem len_agree (args : List Val) (s : St) : Agree ((lenB args).run.run s).1 (lenFunc (args.map (absV s))) := by
  unfold Agree
  cases args with
  | nil => right; rfl
  | cons a rest =>
    cases a <;> (right; simp [lenB, lenFunc, absV, goIndex_zero, goAssertOk, PVal.kind, bind, Except.bind] <;> rfl)

theorem goSlice_ok' {α : Type} (xs : List α) (lo hi : Int) (h : 0 ≤ lo ∧ lo ≤ hi ∧ hi ≤ xs.length) :
    ∃ v, goSlice xs lo hi = .ok v := by
  unfold goSlice; simp [h]

/-- `del` with a list as first argument (any second argument, any heap) -/
theorem del_list_agree (r l : Nat) (k : Val) (s : St) :
    Agree ((delB [.list r l, k]).run.run s).1 (delFunc ([Val.list r l, k].map (absV s))) := by
  unfold Agree
  have hlen : (List.replicate l PVal.null).length = l := List.length_replicate
  cases k with
  | num x =>
    unfold delB
    simp only [numParamB, pure_bind]
    unfold goInt
    split
    · left; rfl
    · right
      simp only [pure_bind]
      simp only [delFunc, delFuncG, List.map_cons, List.map_nil, absV, List.length_cons, List.length_nil,
        goIndex_zero, goIndex_one, goAssertOk, PVal.kind, assertNumParam, bind, Except.bind, if_true, Bool.true_and, hlen]
      by_cases hg : x.toInt64.toInt < 0 ∨ x.toInt64.toInt ≥ (l : Int)
      · have hb : (decide (x.toInt64.toInt < 0) || decide (x.toInt64.toInt ≥ (l : Int))) = true := by
          rcases hg with h | h <;> simp [h]
        simp only [hb, if_true]
        rfl
      · have h1 : ¬ x.toInt64.toInt < 0 := fun h => hg (Or.inl h)
        have h2 : ¬ x.toInt64.toInt ≥ (l : Int) := fun h => hg (Or.inr h)
        have hb : (decide (x.toInt64.toInt < 0) || decide (x.toInt64.toInt ≥ (l : Int))) = false := by simp [h1, h2]
        obtain ⟨v1, e1⟩ := goSlice_ok' (List.replicate l PVal.null) 0 x.toInt64.toInt (by rw [hlen]; omega)
        obtain ⟨v2, e2⟩ := goSlice_ok' (List.replicate l PVal.null) (x.toInt64.toInt + 1) (l : Int) (by rw [hlen]; omega)
        simp only [hb, Bool.false_eq_true, if_false, e1, e2]
        rfl
  | str _ => left; rfl
  | «opaque» _ => left; rfl
  | null => right; rfl
  | bool _ => right; rfl
  | list _ _ => right; rfl
  | map _ => right; rfl
  | func _ => right; rfl
  | builtin _ => right; rfl

/-! the printer only ever fails by leaving the model -/
def OutS (e : Sig) : Prop := e = Sig.fuel ∨ ∃ w, e = Sig.unsupported w
def EO {α : Type} (x : Except Sig α) : Prop := ∀ e, x = .error e → OutS e

theorem EO.ok {α : Type} (a : α) : EO (Except.ok a : Except Sig α) := by intro e h; cases h
theorem EO.pure {α : Type} (a : α) : EO (Pure.pure a : Except Sig α) := by intro e h; cases h
theorem EO.error {α : Type} (e : Sig) (h : OutS e) : EO (Except.error e : Except Sig α) := by
  intro e' h'; cases h'; exact h
theorem EO.throw {α : Type} (e : Sig) (h : OutS e) : EO (throw e : Except Sig α) := EO.error e h
theorem EO.bind {α β : Type} (x : Except Sig α) (f : α → Except Sig β) (hx : EO x) (hf : ∀ a, EO (f a)) : EO (x >>= f) := by
  cases x with
  | ok a => exact hf a
  | error e => intro e' h'; cases h'; exact hx e rfl
theorem EO.mapM {α β : Type} (f : α → Except Sig β) (h : ∀ a, EO (f a)) : ∀ l : List α, EO (l.mapM f) := by
  intro l; induction l with
  | nil => simp only [List.mapM_nil]; exact EO.pure _
  | cons x xs ih =>
    simp only [List.mapM_cons]
    exact EO.bind _ _ (h x) (fun _ => EO.bind _ _ ih (fun _ => EO.pure _))

theorem sprintNum_eo (f : Float) : EO (sprintNum f) := by
  unfold sprintNum; split
  · exact EO.ok _
  · exact EO.error _ (Or.inr ⟨_, rfl⟩)

theorem sprintD_eo (lists : Array (List Val)) (maps : Array (List (Val × Val))) : ∀ (d : Nat) (v : Val), EO (sprintD lists maps d v) := by
  intro d; induction d with
  | zero => intro v; unfold sprintD; exact EO.error _ (Or.inl rfl)
  | succ d ih =>
    intro v
    unfold sprintD
    split
    · exact EO.ok _
    · exact EO.ok _
    · exact EO.ok _
    · exact EO.ok _
    · exact sprintNum_eo _
    · exact EO.error _ (Or.inr ⟨_, rfl⟩)
    · exact EO.bind _ _ (EO.mapM _ (ih) _) (fun _ => EO.pure _)
    · dsimp only []
      repeat' (first
        | with_reducible exact EO.pure _
        | with_reducible exact ih _
        | (with_reducible refine EO.throw _ ?_) <;> exact Or.inr ⟨_, rfl⟩
        | with_reducible refine EO.mapM _ (fun _ => ?_) _
        | with_reducible refine EO.bind _ _ ?_ (fun _ => ?_)
        | split)
    · exact EO.error _ (Or.inr ⟨_, rfl⟩)

theorem get_bind_run {α : Type} (f : St → M α) (s : St) : (get >>= f).run.run s = (f s).run.run s := rfl

/-- `sprint v` either yields a text (state unchanged) or leaves the model -/
theorem sprint_cases (v : Val) (s : St) :
    (∃ t, (sprint v).run.run s = (.ok t, s)) ∨ (∃ e, (sprint v).run.run s = (.error e, s) ∧ OutS e) := by
  have h := sprintD_eo s.lists s.maps 60 v
  unfold sprint
  rw [get_bind_run]
  generalize sprintD s.lists s.maps 60 v = r at h
  cases r with
  | ok t => left; exact ⟨t, rfl⟩
  | error e => right; exact ⟨e, rfl, h e rfl⟩

theorem bind_run_ok {α β : Type} (m : M α) (f : α → M β) (s s' : St) (a : α) (h : m.run.run s = (.ok a, s')) :
    (m >>= f).run.run s = (f a).run.run s' := by
  rw [ExceptT.run_bind, StateT.run_bind, h]; rfl
theorem bind_run_err {α β : Type} (m : M α) (f : α → M β) (s s' : St) (e : Sig) (h : m.run.run s = (.error e, s')) :
    (m >>= f).run.run s = (.error e, s') := by
  rw [ExceptT.run_bind, StateT.run_bind, h]; rfl

theorem clEv_out (e : Sig) (h : OutS e) : clEv (.error e) = .outside := by
  rcases h with rfl | ⟨w, rfl⟩ <;> rfl

/-- `del` with a map as first argument -/
theorem del_map_agree (r : Nat) (k : Val) (s : St) :
    Agree ((delB [.map r, k]).run.run s).1 (delFunc ([Val.map r, k].map (absV s))) := by
  unfold Agree
  unfold delB
  rcases sprint_cases k s with ⟨t, ht⟩ | ⟨e, he, ho⟩
  · right
    rw [bind_run_ok _ _ s s t ht]
    rfl
  · left
    rw [bind_run_err _ _ s s e he]
    exact clEv_out e ho

/-- every other argument vector of `del`: wrong count, or a first argument that is neither list nor map -/
theorem del_other_agree (args : List Val) (s : St)
    (h : ∀ r l k, args ≠ [.list r l, k]) (h' : ∀ r k, args ≠ [.map r, k]) :
    Agree ((delB args).run.run s).1 (delFunc (args.map (absV s))) := by
  unfold Agree
  right
  match args, h, h' with
  | [], _, _ => rfl
  | [a], _, _ => cases a <;> rfl
  | a :: _ :: _ :: _, _, _ => cases a <;> rfl
  | [a, k], h, h' =>
    cases a with
    | list r l => exact absurd rfl (h r l k)
    | map r => exact absurd rfl (h' r k)
    | _ => rfl

/-- **del: the Prims transcription and the evaluator's `delB` answer with the same class** on every argument vector
    and heap, unless the evaluator model leaves itself (a string / opaque index, an index that is NaN or beyond
    ±9e18, a key the model's printer does not cover). -/
theorem del_agree (args : List Val) (s : St) : Agree ((delB args).run.run s).1 (delFunc (args.map (absV s))) := by
  by_cases h1 : ∃ r l k, args = [.list r l, k]
  · obtain ⟨r, l, k, rfl⟩ := h1; exact del_list_agree r l k s
  by_cases h2 : ∃ r k, args = [.map r, k]
  · obtain ⟨r, k, rfl⟩ := h2; exact del_map_agree r k s
  exact del_other_agree args s (fun r l k h => h1 ⟨r, l, k, h⟩) (fun r k h => h2 ⟨r, k, h⟩)

/-- `add(list, v, index)` -/
theorem add_index_agree (r l : Nat) (v ix : Val) (s : St) :
    Agree ((addB [.list r l, v, ix]).run.run s).1 (addFunc ([Val.list r l, v, ix].map (absV s))) := by
  unfold Agree
  have hlen : (List.replicate l PVal.null).length = l := List.length_replicate
  cases ix with
  | num x =>
    unfold addB
    simp only [numParamB, pure_bind]
    unfold goInt
    split
    · left; rfl
    · simp only [pure_bind]
      simp only [addFunc, addFuncG, List.map_cons, List.map_nil, absV, List.length_cons, List.length_nil,
        goIndex_zero, goIndex_one, goIndex_two, goAssertOk, PVal.kind, assertNumParam, assertListParam, bind, Except.bind,
        if_true, Bool.true_and, hlen]
      by_cases hg : x.toInt64.toInt < 0 ∨ x.toInt64.toInt > (l : Int)
      · right
        have hb : (decide (x.toInt64.toInt < 0) || decide (x.toInt64.toInt > (l : Int))) = true := by
          rcases hg with h | h <;> simp [h]
        simp [hb]
        rfl
      · have h1 : ¬ x.toInt64.toInt < 0 := fun h => hg (Or.inl h)
        have h2 : ¬ x.toInt64.toInt > (l : Int) := fun h => hg (Or.inr h)
        have hb : (decide (x.toInt64.toInt < 0) || decide (x.toInt64.toInt > (l : Int))) = false := by simp [h1, h2]
        obtain ⟨v1, e1⟩ := goSlice_ok' (List.replicate l PVal.null) 0 x.toInt64.toInt (by rw [hlen]; omega)
        obtain ⟨v2, e2⟩ := goSlice_ok' (List.replicate l PVal.null) x.toInt64.toInt (l : Int) (by rw [hlen]; omega)
        simp only [hb, Bool.false_eq_true, if_false, e1, e2]
        cases hi : isIntegral x
        · left; simp [hi]; rfl
        · right; simp [hi]; rfl
  | str _ => left; rfl
  | «opaque» _ => left; rfl
  | null => right; rfl
  | bool _ => right; rfl
  | list _ _ => right; rfl
  | map _ => right; rfl
  | func _ => right; rfl
  | builtin _ => right; rfl

/-- **add: the Prims transcription and the evaluator's `addB` answer with the same class** on every argument vector
    and heap, unless the evaluator model leaves itself (string / opaque / NaN / huge / non-integral index). -/
theorem add_agree (args : List Val) (s : St) : Agree ((addB args).run.run s).1 (addFunc (args.map (absV s))) := by
  match args with
  | [] => right; rfl
  | [a] => right; cases a <;> rfl
  | a :: v :: rest =>
    cases a with
    | list r l =>
      match rest with
      | [ix] => exact add_index_agree r l v ix s
      | [] => right; rfl
      | _ :: _ :: _ => right; rfl
    | null => right; cases rest <;> rfl
    | bool _ => right; cases rest <;> rfl
    | num _ => right; cases rest <;> rfl
    | str _ => right; cases rest <;> rfl
    | map _ => right; cases rest <;> rfl
    | func _ => right; cases rest <;> rfl
    | builtin _ => right; cases rest <;> rfl
    | «opaque» _ => right; cases rest <;> rfl

/-! ## round 6: `concat` and `raise` -/

/-- reading a backing array does not change the state (run level) -/
theorem getBacking_bind_run {α : Type} (r : Nat) (f : List Val → M α) (s : St) :
    (getBacking r >>= f).run.run s = (f (s.lists.getD r [])).run.run s := rfl

/-- `append`: a list value, or the model leaves itself (capacity beyond the modelled size classes) -/
theorem appendVals_cases (r len : Nat) (vs : List Val) (s : St) :
    (∃ r' l' s', (appendVals r len vs).run.run s = (.ok (Val.list r' l'), s')) ∨
    (∃ w s', (appendVals r len vs).run.run s = (.error (Sig.unsupported w), s')) := by
  unfold appendVals
  by_cases hv : vs.isEmpty = true
  · left; simp only [hv, if_true]; exact ⟨r, len, s, rfl⟩
  · simp only [hv, Bool.false_eq_true, if_false]
    rw [getBacking_bind_run]
    by_cases hle : len + vs.length ≤ (s.lists.getD r []).length
    · left; simp only [hle, if_true]; exact ⟨_, _, _, rfl⟩
    · simp only [hle, if_false]
      cases hgc : growCap (s.lists.getD r []).length (len + vs.length) with
      | none => right; exact ⟨_, _, rfl⟩
      | some c => left; exact ⟨_, _, _, rfl⟩

/-- is this evaluator value a list? -/
def isListV : Val → Bool
  | .list _ _ => true
  | _ => false

theorem getList_bind_run {α : Type} (r l : Nat) (f : List Val → M α) (s : St) :
    (getList r l >>= f).run.run s = (f ((s.lists.getD r []).take l)).run.run s := rfl

/-- the loop of `concat`: a value if every argument is a list, an error value at the first one that is not —
    unless an append leaves the model first -/
theorem concatGo_cl : ∀ (l : List Val) (cr cl : Nat) (s : St),
    clEv ((concatGo l (.list cr cl)).run.run s).1 = .outside ∨
    clEv ((concatGo l (.list cr cl)).run.run s).1 = (if l.all isListV then Cl.value else Cl.error)
  | [], cr, cl, s => by right; rfl
  | a :: rest, cr, cl, s => by
    cases a with
    | list r l' =>
      unfold concatGo
      simp only []
      rw [getList_bind_run]
      rcases appendVals_cases cr cl ((s.lists.getD r []).take l') s with ⟨r2, l2, s2, h2⟩ | ⟨w, s2, h2⟩
      · rw [bind_run_ok _ _ s s2 _ h2]
        have ih := concatGo_cl rest r2 l2 s2
        simpa [isListV] using ih
      · left
        rw [bind_run_err _ _ s s2 _ h2]
        rfl
    | null => right; rfl
    | bool _ => right; rfl
    | num _ => right; rfl
    | str _ => right; rfl
    | map _ => right; rfl
    | func _ => right; rfl
    | builtin _ => right; rfl
    | «opaque» _ => right; rfl

/-- the Prims side: the list assertions succeed exactly when every argument is a list -/
theorem mapM_assertList (s : St) : ∀ (l : List Val),
    (∃ xs, (l.map (absV s)).mapM assertListParam = .ok xs ∧ l.all isListV = true) ∨
    (∃ m, (l.map (absV s)).mapM assertListParam = .error (.err m) ∧ l.all isListV = false)
  | [] => by left; exact ⟨[], rfl, rfl⟩
  | a :: rest => by
    rcases mapM_assertList s rest with ⟨xs, hx, ha⟩ | ⟨m, hm, ha⟩
    · cases a with
      | list r l => left; exact ⟨List.replicate l PVal.null :: xs, by simp [List.mapM_cons, absV, assertListParam, goAssertOk, PVal.kind, hx, bind, Except.bind, pure, Except.pure], by simp [isListV, ha]⟩
      | _ => right; exact ⟨"Parameter should be a list", by simp [List.mapM_cons, absV, assertListParam, goAssertOk, PVal.kind, bind, Except.bind], by simp [isListV]⟩
    · cases a with
      | list r l => right; exact ⟨m, by simp [List.mapM_cons, absV, assertListParam, goAssertOk, PVal.kind, hm, bind, Except.bind], by simp [isListV, ha]⟩
      | _ => right; exact ⟨"Parameter should be a list", by simp [List.mapM_cons, absV, assertListParam, goAssertOk, PVal.kind, bind, Except.bind], by simp [isListV]⟩

/-- allocating a backing array pushes it and returns its index (run level) -/
theorem newBacking_bind_run {α : Type} (b : List Val) (f : Nat → M α) (s : St) :
    (newBacking b >>= f).run.run s = (f s.lists.size).run.run { s with lists := s.lists.push b } := rfl

/-- **concat: the Prims transcription and the evaluator's `concatB` answer with the same class** on every argument
    vector and heap, unless the evaluator model leaves itself (an append beyond the modelled size classes). -/
theorem concat_agree (args : List Val) (s : St) :
    Agree ((concatB args).run.run s).1 (concatFunc (args.map (absV s))) := by
  unfold Agree concatB concatFunc
  by_cases hlt : args.length < 2
  · right
    have h2 : ¬ (args.map (absV s)).length > 1 := by simp; omega
    simp only [hlt, h2, if_true, if_false]
    rfl
  · have h2 : (args.map (absV s)).length > 1 := by simp; omega
    simp only [hlt, h2, if_true, if_false]
    rw [newBacking_bind_run]
    rcases concatGo_cl args s.lists.size 0 { s with lists := s.lists.push [] } with ho | hv
    · left; exact ho
    · right
      rw [hv]
      rcases mapM_assertList s args with ⟨xs, hx, ha⟩ | ⟨m, hm, ha⟩
      · simp only [hx, ha, if_true, bind, Except.bind]; rfl
      · simp only [hm, ha, Bool.false_eq_true, if_false, bind, Except.bind]; rfl

/-- the Prims transcription of `raise` answers with an error value on every argument vector -/
theorem raiseSite_err : ∀ (args : List PVal), raiseSite args = .error (.err "raised")
  | [] => rfl
  | [_] => rfl
  | [_, _] => rfl
  | _ :: _ :: _ :: _ => by simp [raiseSite, goIndex, bind, Except.bind, pure, Except.pure]

/-- the error type of `raise`: printed without touching the state, or the model leaves itself -/
theorem tyOf_cases (a : Val) (s : St) :
    (∃ ty, ((do let x ← sprint a; pure (bytesToString x)) : M String).run.run s = (.ok ty, s)) ∨
    (∃ e, ((do let x ← sprint a; pure (bytesToString x)) : M String).run.run s = (.error e, s) ∧ OutS e) := by
  rcases sprint_cases a s with ⟨t, ht⟩ | ⟨e, he, ho⟩
  · left; exact ⟨bytesToString t, by rw [bind_run_ok _ _ s s t ht]; rfl⟩
  · right; exact ⟨e, by rw [bind_run_err _ _ s s e he], ho⟩

/-- the throw at the end of `raise` is an error value -/
theorem raiseThrow_cl (node : Ecal.Parse.Node) (ty : String) (detail : List Nat) (data : Val) (s : St) :
    clEv (((match node.tok with
      | some t => throw (raiseSig ty detail data t.line t.col)
      | none => throw (raiseSig ty detail data 0 0)) : M Val).run.run s).1 = Cl.error := by
  cases node.tok <;> rfl

/-- **raise: the Prims transcription and the evaluator's `raise` answer with the same class** (an error value) for
    every argument vector, heap, fuel and call node, unless the evaluator model leaves itself (its printer does not
    cover the error type or the detail). -/
theorem raise_agree (f sc : Nat) (node : Ecal.Parse.Node) (args : List Val) (s : St) :
    Agree ((runBuiltin (f+1) sc node "raise" args).run.run s).1 (raiseSite (args.map (absV s))) := by
  unfold Agree
  rw [raiseSite_err]
  unfold runBuiltin
  simp only []
  match args with
  | [] =>
    right
    simp only [pure_bind]
    exact raiseThrow_cl node _ _ _ s
  | [a] =>
    rcases tyOf_cases a s with ⟨ty, hty⟩ | ⟨e, he, ho⟩
    · right
      rw [bind_run_ok _ _ s s ty hty]
      simp only [pure_bind]
      exact raiseThrow_cl node _ _ _ s
    · left
      rw [bind_run_err _ _ s s e he]
      exact clEv_out e ho
  | a :: d :: rest =>
    rcases tyOf_cases a s with ⟨ty, hty⟩ | ⟨e, he, ho⟩
    · rw [bind_run_ok _ _ s s ty hty]
      have hd := sprint_cases d s
      cases d with
      | null =>
        right
        simp only [pure_bind]
        exact raiseThrow_cl node _ _ _ s
      | _ =>
        simp only []
        rcases hd with ⟨t, ht⟩ | ⟨e, he, ho⟩
        · right
          rw [bind_run_ok _ _ s s t ht]
          exact raiseThrow_cl node _ _ _ s
        · left
          rw [bind_run_err _ _ s s e he]
          exact clEv_out e ho
    · left
      rw [bind_run_err _ _ s s e he]
      exact clEv_out e ho

/-- non-vacuity of `concat_agree`: on two lists both sides are a value, on a list and a boolean both are an error
    value (the evaluator side is inside the model in both cases) -/
example : clEv ((concatB [.list 0 0, .list 0 0]).run.run {}).1 = .value := rfl
example : clP (concatFunc ([Val.list 0 0, Val.list 0 0].map (absV {}))) = .value := rfl
example : clEv ((concatB [.list 0 0, .bool true]).run.run {}).1 = .error := rfl
example : clP (concatFunc ([Val.list 0 0, Val.bool true].map (absV {}))) = .error := rfl

/-- non-vacuity of `raise_agree`: with a string as error type the evaluator side is inside the model and is an
    error value -/
example (node : Ecal.Parse.Node) :
    clEv ((runBuiltin 1 0 node "raise" [.str [97]]).run.run {}).1 = .error := by
  unfold runBuiltin; cases h : node.tok <;> simp only [h] <;> rfl

/-! ## round 8: `type` -/

/-- a computation of the evaluator monad that can only fail by leaving the model (fuel / `unsupported`) -/
def OutM {α : Type} (m : M α) : Prop := ∀ (s s' : St) (e : Sig), m.run.run s = (.error e, s') → OutS e

/-- `pure` never fails -/
theorem OutM.pure {α : Type} (a : α) : OutM (Pure.pure a : M α) := by
  intro s s' e h; cases h

/-- throwing a fuel / `unsupported` signal leaves the model -/
theorem OutM.throw {α : Type} (e : Sig) (h : OutS e) : OutM (throw e : M α) := by
  intro s s' e' h'; cases h'; exact h

/-- `OutM` is closed under bind -/
theorem OutM.bind {α β : Type} (m : M α) (g : α → M β) (hm : OutM m) (hg : ∀ a, OutM (g a)) : OutM (m >>= g) := by
  intro s s' e h
  cases hr : m.run.run s with
  | mk r s1 =>
    cases r with
    | ok a => rw [bind_run_ok m g s s1 a hr] at h; exact hg a _ _ _ h
    | error e1 =>
      rw [bind_run_err m g s s1 e1 hr] at h
      cases h; exact hm _ _ _ hr

/-- `OutM` is closed under `List.mapM` -/
theorem OutM.mapM {α β : Type} (g : α → M β) (h : ∀ a, OutM (g a)) : ∀ l : List α, OutM (l.mapM g) := by
  intro l; induction l with
  | nil => simp only [List.mapM_nil]; exact OutM.pure _
  | cons x xs ih =>
    simp only [List.mapM_cons]
    exact OutM.bind _ _ (h x) (fun _ => OutM.bind _ _ ih (fun _ => OutM.pure _))

/-- the value printer only fails by leaving the model (from `sprint_cases`) -/
theorem OutM.sprint (v : Val) : OutM (sprint v) := by
  intro s s' e h
  rcases sprint_cases v s with ⟨t, ht⟩ | ⟨e1, he, ho⟩
  · rw [ht] at h; cases h
  · rw [he] at h; cases h; exact ho

/-- reading a list window never fails -/
theorem OutM.getList (r l : Nat) : OutM (getList r l) := by
  intro s s' e h; cases h

/-- **the `%#v` printer of the model only ever fails by leaving the model** (fuel, or a value it does not cover) -/
theorem goSyntax_out : ∀ (f : Nat) (v : Val), OutM (goSyntax f v) := by
  intro f
  induction f with
  | zero => intro v; unfold goSyntax; exact OutM.throw _ (Or.inl rfl)
  | succ f ih =>
    intro v
    unfold goSyntax
    cases v with
    | null => exact OutM.pure _
    | bool b => cases b <;> exact OutM.pure _
    | num x =>
      simp only []
      split
      · exact OutM.sprint _
      · exact OutM.throw _ (Or.inr ⟨_, rfl⟩)
    | str t =>
      simp only []
      split
      · exact OutM.pure _
      · exact OutM.throw _ (Or.inr ⟨_, rfl⟩)
    | list r l =>
      simp only []
      split
      · exact OutM.pure _
      · exact OutM.bind _ _ (OutM.getList r l) (fun xs =>
          OutM.bind _ _ (OutM.mapM _ (fun x => by cases x <;> first | exact OutM.pure _ | exact ih _) xs)
            (fun _ => OutM.pure _))
    | _ => exact OutM.throw _ (Or.inr ⟨_, rfl⟩)

/-- the Prims transcription of `type` answers with a value on every non-empty argument vector -/
theorem typeFunc_cons (x : PVal) (xs : List PVal) : typeFunc (x :: xs) = .ok (.str "" none) := by
  simp [typeFunc, goIndex_zero, bind, Except.bind]

/-- printing the first argument of `type`: a value, or the model leaves itself -/
theorem type_tail (f : Nat) (a : Val) (s : St) :
    clEv (((do let x ← goSyntax f a; pure (Val.str x)) : M Val).run.run s).1 = Cl.outside ∨
    clEv (((do let x ← goSyntax f a; pure (Val.str x)) : M Val).run.run s).1 = Cl.value := by
  cases hr : (goSyntax f a).run.run s with
  | mk r s1 =>
    cases r with
    | ok t => right; rw [bind_run_ok _ _ s s1 t hr]; rfl
    | error e => left; rw [bind_run_err _ _ s s1 e hr]; exact clEv_out e (goSyntax_out f a s s1 e hr)

/-- **type: the Prims transcription and the evaluator's `type` answer with the same class** on every argument vector,
    heap, fuel and call node (no argument: an error value; otherwise a value), unless the evaluator model leaves
    itself (fuel, or a value its `%#v` printer does not cover: a map, a function, a non-integral number, a string that
    needs quoting). -/
theorem type_agree (f sc : Nat) (node : Ecal.Parse.Node) (args : List Val) (s : St) :
    Agree ((runBuiltin (f+1) sc node "type" args).run.run s).1 (typeFunc (args.map (absV s))) := by
  unfold Agree
  unfold runBuiltin
  simp only []
  match args with
  | [] => right; rfl
  | a :: rest =>
    rw [List.map_cons, typeFunc_cons]
    cases a with
    | null => right; rfl
    | _ =>
      simp only []
      exact type_tail f _ s

/-- non-vacuity of `type_agree`: on a boolean and on the nil list the evaluator side is inside the model and is a
    value; without an argument both sides are an error value -/
example (node : Ecal.Parse.Node) : clEv ((runBuiltin 2 0 node "type" [.bool true]).run.run {}).1 = .value := by
  unfold runBuiltin; rfl
example (node : Ecal.Parse.Node) : clEv ((runBuiltin 2 0 node "type" [.list 0 0]).run.run {}).1 = .value := by
  unfold runBuiltin; rfl
example (node : Ecal.Parse.Node) : clEv ((runBuiltin 2 0 node "type" []).run.run {}).1 = .error := by
  unfold runBuiltin; rfl
example : clP (typeFunc []) = .error := rfl

end Ecal.Lemmas.C06PrimsTie
