import Ecal.Lemmas.LexerInv
/-!
Totality of the lexer model: the fuel of `lex` (input length + 2 rounds; every inner loop
`size + 2` steps) never runs out, and the token list always ends with the EOF token or with an
error token — the channel of the real lexer is always closed after one of the two.
-/
namespace Ecal.Lex
open Ecal.Lex.Spec

/-- at the end of the input skipWhiteSpace returns false (it emits EOF) -/
theorem sws_false_at_end (l : L) (h : l.inp.size ≤ l.pos) : (skipWhiteSpace l).2 = false := by
  have hn : (l.next).2 = none := (next_none_iff l).2 h
  have hs : (l.next).1 = l := next_none_state l hn
  simp only [skipWhiteSpace, hn, hs]
  rw [show l.inp.size + 2 = (l.inp.size + 1) + 1 from rfl]
  have hn2 : ({ l with skippedNl := 0 } : L).next.2 = none := (next_none_iff _).2 h
  simp [skipWhiteSpace.loop, blank, hn2]

/-- `lex.loop` with enough fuel (more rounds than bytes left) ends with EOF or an error token -/
theorem lex_loop_closes (fuel : Nat) : ∀ (l : L), Inv l → Ready l → l.inp.size - l.pos < fuel →
    ∃ t, (lex.loop fuel l).toks.back? = some t ∧ (t.id = tEOF ∨ t.id = tERROR) := by
  induction fuel with
  | zero => intro l _ _ h; omega
  | succ n ih =>
    intro l h hr hf
    obtain ⟨_, t2, t3, t, ht, hle1, hprog', hstop', _, hge, _⟩ := lexToken_inv l h hr
    have hprog : (lexToken l).2 = Next.token → l.pos < (lexToken l).1.pos :=
      fun hx => Nat.lt_of_le_of_lt hge (hprog' hx)
    have hstop : (lexToken l).2 = Next.stop → t.id = tERROR ∨ (lexToken l).1.inp.size ≤ (lexToken l).1.pos :=
      fun hx => (hstop' hx).imp id (fun h => h.1)
    obtain ⟨sf, st⟩ := sws_total (lexToken l).1 hle1
    have e := sws_ext (lexToken l).1
    simp only [lex.loop]
    split
    · rename_i hc
      simp only [Bool.or_eq_true, Bool.not_eq_true', decide_eq_true_eq] at hc
      cases hok : (skipWhiteSpace (lexToken l).1).2 with
      | false =>
        obtain ⟨eof, he, hid⟩ := sf hok
        exact ⟨eof, by rw [he]; simp, Or.inl hid⟩
      | true =>
        have hnx : (lexToken l).2 = Next.stop := by
          rcases hc with hc | hc
          · rw [hok] at hc; simp at hc
          · exact hc
        refine ⟨t, by rw [st hok, ht]; simp, ?_⟩
        rcases hstop hnx with hid | hend
        · exact Or.inr hid
        · have := sws_false_at_end _ hend
          rw [hok] at this; simp at this
    · rename_i hc
      simp only [Bool.or_eq_true, Bool.not_eq_true', decide_eq_true_eq, not_or, Bool.not_eq_false] at hc
      obtain ⟨hok, hnx⟩ := hc
      have htok : (lexToken l).2 = Next.token := by
        cases hx : (lexToken l).2 with
        | token => rfl
        | stop => exact absurd hx hnx
      obtain ⟨i1, i2, i3⟩ := sws_inv_ready _ (t2 htok) hok
      have hp := hprog htok
      refine ih _ i1 i2 ?_
      rw [e.1, t3]
      rw [t3] at hle1
      omega

/-- **lexer_always_closes.** For every input the token list of the lexer model is not empty and its
    last token is the EOF token or an error token: no loop of the model runs out of fuel (the fuel
    only bounds the recursion for Lean), the lexer always terminates and always announces its end. -/
theorem lexer_always_closes (input : List Nat) :
    ∃ t, (lex input).back? = some t ∧ (t.id = tEOF ∨ t.id = tERROR) := by
  have h0 : Inv ({ inp := input.toArray } : L) :=
    ⟨Nat.zero_le _, ⟨rfl, Or.inl rfl⟩, fun t ht => by simp at ht⟩
  obtain ⟨sf, _⟩ := sws_total ({ inp := input.toArray } : L) (Nat.zero_le _)
  have e := sws_ext ({ inp := input.toArray } : L)
  simp only [lex]
  split
  · rename_i hok
    simp only [Bool.not_eq_true'] at hok
    obtain ⟨eof, he, hid⟩ := sf hok
    exact ⟨eof, by rw [he]; simp, Or.inl hid⟩
  · rename_i hok
    simp only [Bool.not_eq_true', Bool.not_eq_false] at hok
    obtain ⟨i1, i2, i3⟩ := sws_inv_ready _ h0 hok
    refine lex_loop_closes (input.length + 2) _ i1 i2 ?_
    rw [e.1]
    simp
    omega

end Ecal.Lex
