import Ecal.Lemmas.EvalPres
/-!
`eval` preserves the well-formedness of the scope table on the call-free, declaration-free, assignment-by-`let`
fragment `Calm`: constants, numbers, plain variable reads, `let v`, statement sequences, guards and
`if … elif … else` with arbitrary nesting — the leaves proved here, the `if` through `Pres.ifChain`.
-/
namespace Ecal.Ev
open Ecal.Parse (Node)

/-- the invariant: the table is well-formed and the scope indices in use (`L`) exist -/
def IL (L : List Nat) (s : St) : Prop := ScopesWF s ∧ ∀ i ∈ L, i < s.scopes.size

theorem IL_of_scopes_eq (L : List Nat) (s s' : St) (e : s'.scopes = s.scopes) (h : IL L s) : IL L s' := by
  have hsc : ∀ i, s'.scope i = s.scope i := fun i => by simp [St.scope, e]
  exact ⟨⟨fun i p hi hp => h.1.parentBelow i p (by rw [← e]; exact hi) (by rw [← hsc i]; exact hp),
    fun p c hp hc => by
      have := h.1.childOk p c (by rw [← e]; exact hp) (by rw [← hsc p]; exact hc)
      exact ⟨by rw [e]; exact this.1, by rw [hsc c]; exact this.2⟩⟩, fun i hi => by rw [e]; exact h.2 i hi⟩

theorem Pres.ofSame (L : List Nat) {α : Type} (m : M α) (h : ScopesSame m) : Pres (IL L) m :=
  fun s r s' hi hr => IL_of_scopes_eq L s s' (h s r s' hr) hi

theorem tokOf_same (n : Node) : ScopesSame (tokOf n) := by
  unfold tokOf; cases n.tok <;> first | exact ScopesSame.pure _ | exact ScopesSame.throw _
theorem child_same (n : Node) (i : Nat) : ScopesSame (child n i) := by
  unfold child
  cases n.children[i]? with
  | none => exact ScopesSame.throw _
  | some o => cases o <;> first | exact ScopesSame.pure _ | exact ScopesSame.throw _

theorem getValue_plain_same (sc : Nat) (name vb : List Nat) (hn : splitDots name = [vb]) : ScopesSame (getValue sc name) := by
  unfold getValue
  simp only [hn]
  refine ScopesSame.bind _ _ (lookupVar_same sc _) (fun o => ?_)
  cases o <;> exact ScopesSame.pure _

theorem numberOf_same (t : Ecal.Lex.Tok) : ScopesSame (numberOf t) := by
  unfold numberOf
  simp only
  repeat' (first | exact ScopesSame.pure _ | split)

/-- `newChild` always succeeds -/
theorem newChild_total (p : Nat) (nm : String) (st : St) : ∃ c st', runM (newChild p nm) st = (.ok c, st') := by
  unfold newChild
  rw [runM_bind, getScope_run]
  simp only
  rw [runM_bind]
  have hget : runM (get : M St) st = (.ok st, st) := rfl
  rw [hget]
  simp only
  cases (st.scope p).children.find? (fun c => (st.scopes.getD c default).name == nm) with
  | some c0 => exact ⟨c0, st, rfl⟩
  | none =>
    simp only
    rw [runM_bind, newScope_run]
    simp only
    rw [runM_bind, setScope_run]
    exact ⟨_, _, rfl⟩

/-- a block: allocate (or find) the child scope of a live scope, then continue with the child live too -/
theorem Pres.newChildThen (L : List Nat) {α : Type} (sc : Nat) (nm : String) (k : Nat → M α) (hsc : sc ∈ L)
    (hk : ∀ c, Pres (IL (c :: L)) (k c)) : Pres (IL L) (newChild sc nm >>= k) := by
  intro s r s' hi hr
  rw [runM_bind] at hr
  obtain ⟨c, s1, hc⟩ := newChild_total sc nm s
  rw [hc] at hr
  simp only at hr
  obtain ⟨hwf, _, hclt, _, _, hcase⟩ := newChild_spec s s1 hi.1 sc c nm (hi.2 sc hsc) hc
  have hmono : ∀ i ∈ L, i < s1.scopes.size := by
    intro i hiL
    rcases hcase with ⟨e, _⟩ | ⟨e, _⟩
    · rw [e]; exact hi.2 i hiL
    · have := hi.2 i hiL; omega
  have h1 : IL (c :: L) s1 := ⟨hwf, fun i hiL => by
    simp only [List.mem_cons] at hiL
    rcases hiL with e | hiL
    · rw [e]; exact hclt
    · exact hmono i hiL⟩
  have h2 := hk c s1 r s' h1 hr
  exact ⟨h2.1, fun i hiL => h2.2 i (by simp [hiL])⟩

/-- the fragment: no calls, no declarations, no access paths; variables are written by `let` -/
inductive Calm : Node → Prop
  | const (n : Node) (h : n.name = "true" ∨ n.name = "false" ∨ n.name = "null") : Calm n
  | number (n : Node) (h : n.name = "number") : Calm n
  | var (n : Node) (t : Ecal.Lex.Tok) (vb : List Nat) (h : n.name = "identifier") (ht : n.tok = some t)
      (hc : n.children.isEmpty = true) (hn : splitDots t.val = [vb]) : Calm n
  | letv (n lv : Node) (h : n.name = "let") (h0 : n.children[0]? = some (some lv)) (hl : lv.name = "identifier")
      (hlv : Calm lv) : Calm n
  | seq (n : Node) (h : n.name = "statements") (hk : ∀ c, some c ∈ n.children → Calm c) : Calm n
  | guard (n : Node) (h : n.name = "guard") (hk : ∀ c, n.children[0]? = some (some c) → Calm c) : Calm n
  | ifn (n : Node) (h : n.name = "if") (hk : ∀ c, some c ∈ n.children → Calm c) : Calm n
  | arith (n : Node) (h : n.name = "plus" ∨ n.name = "minus" ∨ n.name = "times" ∨ n.name = "div" ∨ n.name = "divint")
      (hk : ∀ c, some c ∈ n.children → Calm c) : Calm n
  | assign (n lhs rhs : Node) (t : Ecal.Lex.Tok) (vb : List Nat) (h : n.name = ":=")
      (h0 : n.children[0]? = some (some lhs)) (h1 : n.children[1]? = some (some rhs))
      (hl : lhs.name = "identifier") (ht : lhs.tok = some t) (hc : lhs.children.isEmpty = true)
      (hn : splitDots t.val = [vb]) (hr : Calm rhs) : Calm n

/-- `child n i >>= k`: the child is one of the node's children; a missing child is an error that changes nothing -/
theorem Pres.childThen (I : St → Prop) {α : Type} (n : Node) (i : Nat) (k : Node → M α)
    (hk : ∀ c, n.children[i]? = some (some c) → Pres I (k c)) : Pres I (child n i >>= k) := by
  intro s r s' hi hr
  rw [runM_bind, runM_child] at hr
  cases hc : n.children[i]? with
  | none => simp only [hc] at hr; injection hr with _ h2; rw [← h2]; exact hi
  | some o =>
    cases o with
    | none => simp only [hc] at hr; injection hr with _ h2; rw [← h2]; exact hi
    | some c => simp only [hc] at hr; exact hk c hc s r s' hi hr

/-- binary arithmetic: both operands are evaluated, nothing else touches the state -/
theorem numOp_pres (I : St → Prop) (f sc : Nat) (n : Node) (op : Float → Float → Val)
    (hev : ∀ c, some c ∈ n.children → Pres I (eval f sc c)) : Pres I (numOp (f + 1) sc n op) := by
  unfold numOp
  have tail : Pres I (do
      let a ← eval f sc (← child n 0)
      let b ← eval f sc (← child n 1)
      match a, b with
      | .num x, .num y => pure (op x y)
      | .num _, _ => throw (rtErr "Operand is not a number" (← child n 1))
      | _, _ => throw (rtErr "Operand is not a number" (← child n 0)) : M Val) := by
    refine Pres.childThen _ n 0 _ (fun c0 h0 => ?_)
    refine Pres.bind _ _ _ (hev c0 (List.mem_of_getElem? h0)) (fun a => ?_)
    refine Pres.childThen _ n 1 _ (fun c1 h1 => ?_)
    refine Pres.bind _ _ _ (hev c1 (List.mem_of_getElem? h1)) (fun b => ?_)
    split
    · exact Pres.pure _ _
    · exact Pres.childThen _ n 1 _ (fun _ _ => Pres.throw _ _)
    · exact Pres.childThen _ n 0 _ (fun _ _ => Pres.throw _ _)
  split
  · exact Pres.bind _ _ _ (Pres.throw _ _) (fun _ => tail)
  · exact tail

/-- unary plus / minus -/
theorem numVal_pres (I : St → Prop) (f sc : Nat) (n : Node) (op : Float → Float)
    (hev : ∀ c, some c ∈ n.children → Pres I (eval f sc c)) : Pres I (numVal (f + 1) sc n op) := by
  unfold numVal
  have tail : Pres I (do
      let v ← eval f sc (← child n 0)
      match v with
      | .num x => pure (.num (op x))
      | _ => throw (rtErr "Operand is not a number" (← child n 0)) : M Val) := by
    refine Pres.childThen _ n 0 _ (fun c0 h0 => ?_)
    refine Pres.bind _ _ _ (hev c0 (List.mem_of_getElem? h0)) (fun a => ?_)
    split
    · exact Pres.pure _ _
    · exact Pres.childThen _ n 0 _ (fun _ _ => Pres.throw _ _)
  split
  · exact Pres.bind _ _ _ (Pres.throw _ _) (fun _ => tail)
  · exact tail

/-- the assignment of a plain variable is `setValue`: one variable write -/
theorem identSet_plain_pres (L : List Nat) (f sc : Nat) (lhs : Node) (t : Ecal.Lex.Tok) (v : Val)
    (ht : lhs.tok = some t) (hc : lhs.children.isEmpty = true) : Pres (IL L) (identSet f sc lhs v) := by
  cases f with
  | zero => unfold identSet; exact Pres.throw _ _
  | succ f =>
    unfold identSet
    intro s r s' hi hr
    rw [runM_bind, runM_tokOf, ht] at hr
    simp only [hc, if_true] at hr
    obtain ⟨w1, w2⟩ := setValue_wf sc t.val v s s' r hi.1 hr
    exact ⟨w1, fun i hiL => by rw [w2]; exact hi.2 i hiL⟩

/-- the branches of an `if`: building them changes nothing, and each is an evaluation with smaller fuel -/
theorem ifBranches_spec (L : List Nat) (bs : Nat) : ∀ (f : Nat) (l : List (Option Node)),
    Pres (IL L) (ifBranches f bs l) ∧
    ∀ s brs s', runM (ifBranches f bs l) s = (.ok brs, s') →
      ∀ gb ∈ brs, ∃ f' g b, f' < f ∧ gb = (eval f' bs g, eval f' bs b) ∧ some g ∈ l ∧ some b ∈ l := by
  intro f
  induction f with
  | zero =>
    intro l
    refine ⟨by unfold ifBranches; exact Pres.throw _ _, ?_⟩
    intro s brs s' h
    unfold ifBranches at h; simp [runM_throw] at h
  | succ f ih =>
    intro l
    match l with
    | [] =>
      refine ⟨by unfold ifBranches; exact Pres.pure _ _, ?_⟩
      intro s brs s' h
      unfold ifBranches at h
      simp only [runM_pure] at h
      injection h with h1 _; injection h1 with h1; subst h1
      intro gb hgb; cases hgb
    | [some g] =>
      refine ⟨by unfold ifBranches; exact Pres.throw _ _, ?_⟩
      intro s brs s' h; unfold ifBranches at h; simp [runM_throw] at h
    | none :: rest =>
      refine ⟨by unfold ifBranches; exact Pres.throw _ _, ?_⟩
      intro s brs s' h; unfold ifBranches at h; simp [runM_throw] at h
    | some g :: none :: rest =>
      refine ⟨by unfold ifBranches; exact Pres.throw _ _, ?_⟩
      intro s brs s' h; unfold ifBranches at h; simp [runM_throw] at h
    | some g :: some body :: rest =>
      obtain ⟨ihp, ihs⟩ := ih rest
      constructor
      · unfold ifBranches
        exact Pres.bind _ _ _ ihp (fun _ => Pres.pure _ _)
      · intro s brs s' h
        unfold ifBranches at h
        rw [runM_bind] at h
        cases hr : runM (ifBranches f bs rest) s with
        | mk r1 s1 =>
          rw [hr] at h
          cases r1 with
          | error e => simp at h
          | ok tl =>
            simp only [runM_pure] at h
            injection h with h1 _; injection h1 with h1; subst h1
            intro gb hgb
            simp only [List.mem_cons] at hgb
            rcases hgb with e | hgb
            · exact ⟨f, g, body, Nat.lt_succ_self f, e, by simp, by simp⟩
            · obtain ⟨f', g', b', h1, h2, h3, h4⟩ := ihs s tl s1 hr gb hgb
              exact ⟨f', g', b', Nat.lt_succ_of_lt h1, h2, by simp [h3], by simp [h4]⟩

/-- the statement sequence: a `forIn` over the children -/
theorem Pres.forInNodes (I : St → Prop) (F : Option Node → Val → M (ForInStep Val)) :
    ∀ (l : List (Option Node)) (init : Val), (∀ c ∈ l, ∀ r, Pres I (F c r)) → Pres I (forIn l init F) := by
  intro l
  induction l with
  | nil => intro init _; simp only [List.forIn_nil]; exact Pres.pure I _
  | cons c rest ih =>
    intro init h
    simp only [List.forIn_cons]
    refine Pres.bind I _ _ (h c (by simp) init) (fun r => ?_)
    cases r with
    | done b => exact Pres.pure I _
    | yield b => exact ih b (fun c' hc' => h c' (by simp [hc']))

/-- **The evaluator preserves the well-formedness of the scope table on the fragment `Calm`**, for every fuel, every
    live scope and every outcome (errors, fuel, malformed trees included). -/
theorem eval_calm_preserves : ∀ (f : Nat) (n : Node) (L : List Nat) (sc : Nat), Calm n → sc ∈ L →
    Pres (IL L) (eval f sc n) := by
  intro f
  induction f using Nat.strongRecOn with
  | _ f ih =>
    intro n L sc hcalm hsc
    cases f with
    | zero => unfold eval; exact Pres.throw _ _
    | succ f =>
      cases hcalm with
      | const n h =>
        unfold eval
        rcases h with h | h | h <;> (simp only [h]; exact Pres.pure _ _)
      | number n h =>
        unfold eval
        simp only [h]
        refine Pres.bind _ _ _ (Pres.ofSame L _ (tokOf_same n)) (fun t => ?_)
        exact Pres.bind _ _ _ (Pres.ofSame L _ (numberOf_same t)) (fun x => Pres.pure _ _)
      | var n t vb h ht hc hn =>
        unfold eval
        simp only [h]
        cases f with
        | zero => unfold evalIdent; exact Pres.throw _ _
        | succ f =>
          unfold evalIdent
          intro s r s' hi hr
          rw [runM_bind, runM_tokOf, ht] at hr
          simp only [hc, if_true] at hr
          exact (Pres.bind _ _ _ (Pres.ofSame L _ (getValue_plain_same sc t.val vb hn)) (fun _ => Pres.pure _ _)) s r s' hi hr
      | letv n lv h h0 hl hlv =>
        intro s r s' hi hr
        unfold eval at hr
        simp only [h] at hr
        rw [runM_bind, runM_child, h0] at hr
        simp only [hl, beq_self_eq_true, if_true] at hr
        have hset : ∀ t : Ecal.Lex.Tok, Pres (IL L) (setLocalValue sc t.val Val.null) := by
          intro t s0 r0 s1 h0' hr0
          obtain ⟨w1, w2⟩ := setLocalValue_wf sc t.val Val.null s0 s1 r0 h0'.1 hr0
          exact ⟨w1, fun i hiL => by rw [w2]; exact h0'.2 i hiL⟩
        have hrest := ih f (Nat.lt_succ_self f) lv L sc hlv hsc
        split at hr
        · exact (Pres.bind _ _ _ (Pres.ofSame L _ (tokOf_same lv)) (fun t =>
            Pres.bind _ _ _ (hset t) (fun _ => hrest))) s r s' hi hr
        · exact (Pres.bind _ _ _ (Pres.throw _ _) (fun _ => hrest)) s r s' hi hr
      | seq n h hk =>
        unfold eval
        simp only [h]
        refine Pres.bind _ _ _ (Pres.forInNodes _ _ _ _ ?_) (fun _ => Pres.pure _ _)
        intro c hc r
        cases c with
        | none => exact Pres.throw _ _
        | some c =>
          exact Pres.bind _ _ _ (ih f (Nat.lt_succ_self f) c L sc (hk c hc) hsc) (fun _ => Pres.pure _ _)
      | guard n h hk =>
        intro s r s' hi hr
        unfold eval at hr
        simp only [h] at hr
        rw [runM_bind, runM_child] at hr
        cases hch : n.children[0]? with
        | none => simp only [hch] at hr; injection hr with _ h2; rw [← h2]; exact hi
        | some o =>
          cases o with
          | none => simp only [hch] at hr; injection hr with _ h2; rw [← h2]; exact hi
          | some c =>
            simp only [hch] at hr
            exact (Pres.bind _ _ _ (ih f (Nat.lt_succ_self f) c L sc (hk c hch) hsc) (fun _ => Pres.pure _ _)) s r s' hi hr
      | ifn n h hk =>
        unfold eval
        simp only [h]
        have hname : Pres (IL L) (scopeName n) := by
          unfold scopeName
          exact Pres.bind _ _ _ (Pres.ofSame L _ (tokOf_same n)) (fun _ => Pres.pure _ _)
        refine Pres.bind _ _ _ hname (fun nm => ?_)
        refine Pres.newChildThen L sc nm _ hsc (fun c => ?_)
        intro s r s' hi hr
        rw [runM_bind] at hr
        obtain ⟨hp, hspec⟩ := ifBranches_spec (c :: L) c f n.children
        cases hb : runM (ifBranches f c n.children) s with
        | mk rb s1 =>
          rw [hb] at hr
          have hi1 := hp s rb s1 hi hb
          cases rb with
          | error e => simp only at hr; injection hr with _ h2; rw [← h2]; exact hi1
          | ok brs =>
            simp only at hr
            refine Pres.ifChain (IL (c :: L)) brs ?_ s1 r s' hi1 hr
            intro gb hgb
            obtain ⟨f', g, b, hlt, e, hg, hbm⟩ := hspec s brs s1 hb gb hgb
            subst e
            exact ⟨ih f' (Nat.lt_succ_of_lt hlt) g (c :: L) c (hk g hg) (by simp),
                   ih f' (Nat.lt_succ_of_lt hlt) b (c :: L) c (hk b hbm) (by simp)⟩

      | arith n h hk =>
        have hev : ∀ f', f' < f + 1 → ∀ c, some c ∈ n.children → Pres (IL L) (eval f' sc c) :=
          fun f' hlt c hc => ih f' hlt c L sc (hk c hc) hsc
        have hop : ∀ op, Pres (IL L) (numOp f sc n op) := by
          intro op
          cases f with
          | zero => unfold numOp; exact Pres.throw _ _
          | succ f' => exact numOp_pres _ f' sc n op (hev f' (by omega))
        have hval : ∀ op, Pres (IL L) (numVal f sc n op) := by
          intro op
          cases f with
          | zero => unfold numVal; exact Pres.throw _ _
          | succ f' => exact numVal_pres _ f' sc n op (hev f' (by omega))
        unfold eval
        rcases h with h | h | h | h | h <;> simp only [h]
        · split <;> first | exact hval _ | exact hop _
        · split <;> first | exact hval _ | exact hop _
        · exact hop _
        · exact hop _
        · exact hop _
      | assign n lhs rhs t vb h h0 h1 hl ht hc hn hr =>
        unfold eval
        simp only [h]
        cases f with
        | zero => unfold evalAssign; exact Pres.throw _ _
        | succ f' =>
          have hlhs : Calm lhs := Calm.var lhs t vb hl ht hc hn
          intro s r s' hi hrun
          unfold evalAssign at hrun
          rw [runM_bind, runM_child, h0] at hrun
          have hnl : (lhs.name == "let") = false := by rw [hl]; decide
          have hid : (lhs.name == "identifier") = true := by rw [hl]; decide
          simp only [hnl, hid, Bool.false_eq_true, if_false, if_true, pure_bind, List.length_singleton,
            beq_self_eq_true] at hrun
          refine (Pres.bind _ _ _ (ih f' (by omega) lhs L sc hlhs hsc) (fun _ =>
            Pres.childThen _ n 1 _ (fun c hcc => ?_))) s r s' hi hrun
          have e : c = rhs := by rw [h1] at hcc; injection hcc with e; injection e with e; exact e.symm
          subst e
          exact Pres.bind _ _ _ (ih f' (by omega) c L sc hr hsc) (fun v =>
            Pres.bind _ _ _ (identSet_plain_pres L f' sc lhs t v ht hc) (fun _ => Pres.pure _ _))

end Ecal.Ev
