import Ecal.Model.Eval
import Ecal.Model.ParserWF
/-!
Wiring lemmas of C04: for every statement kind, `eval (fuel+1) sc n` on a node of that kind IS the
control-flow combinator (Model/Eval.lean, outside the mutual block) applied to the evaluations of the
node's children. Together with the combinator theorems of Props/C04.lean they give the property
theorems at the level of `eval` (Props/C04Eval.lean).
-/
namespace Ecal.Ev
open Ecal.Lex Ecal.Parse

/-! ### break / continue / return -/

theorem eval_break (f sc : Nat) (n : Node) (h : n.name = "break") :
    eval (f+1) sc n = throw (rtErr tBreak n) := by
  rw [eval]; simp [h]

theorem eval_continue (f sc : Nat) (n : Node) (h : n.name = "continue") :
    eval (f+1) sc n = throw (rtErr tContinue n) := by
  rw [eval]; simp [h]

/-- `return e`: the value of `e`, wrapped in the return signal positioned at the statement -/
theorem eval_return_value (f sc : Nat) (n c : Node) (t : Tok) (h : n.name = "return")
    (hc : n.children = [some c]) (ht : n.tok = some t) :
    eval (f+1) sc n = (do let v ← eval f sc c; throw (Sig.ret ⟨tReturn, t.line, t.col⟩ v)) := by
  rw [eval]; simp [h, hc, child, rtErr, ht]

/-- bare `return` -/
theorem eval_return_bare (f sc : Nat) (n : Node) (t : Tok) (h : n.name = "return")
    (hc : n.children = []) (ht : n.tok = some t) :
    eval (f+1) sc n = throw (Sig.ret ⟨tReturn, t.line, t.col⟩ Val.null) := by
  rw [eval]; simp [h, hc, rtErr, ht]

/-! ### if -/

/-- the children of an `if` node: guard, block, guard, block, … -/
def flatPairs : List (Node × Node) → List (Option Node)
  | [] => []
  | (g, b) :: r => some g :: some b :: flatPairs r

/-- the (guard, block) computations `ifBranches` builds: pair number k is evaluated with fuel `f - k` -/
def ifPairs (sc : Nat) : Nat → List (Node × Node) → List (M Val × M Val)
  | _, [] => []
  | 0, _ :: _ => []
  | f+1, (g, b) :: r => (eval f sc g, eval f sc b) :: ifPairs sc f r

theorem ifBranches_eq (sc : Nat) : ∀ (f : Nat) (ps : List (Node × Node)), ps.length < f →
    ifBranches f sc (flatPairs ps) = pure (ifPairs sc f ps)
  | 0, _, h => by omega
  | f+1, [], _ => by unfold ifBranches; simp [flatPairs, ifPairs]
  | f+1, (g, b) :: r, h => by
    unfold ifBranches
    simp only [flatPairs, ifPairs]
    rw [ifBranches_eq sc f r (by simp at h; omega)]
    simp

/-- **eval_if_is_ifChain**: an `if` node is `ifChain` over the evaluations of its guard and block
    children, all in the child scope named after the node -/
theorem eval_if_is_ifChain (f sc : Nat) (n : Node) (ps : List (Node × Node)) (h : n.name = "if")
    (hc : n.children = flatPairs ps) (hf : ps.length < f) :
    eval (f+1) sc n = (do let bs ← newChild sc (← scopeName n); ifChain (ifPairs bs f ps)) := by
  rw [eval]; simp [h, hc, ifBranches_eq _ f ps hf]

/-- a guard node yields the truth value of its expression -/
theorem eval_guard (f sc : Nat) (n c : Node) (h : n.name = "guard") (hc : n.children = [some c]) :
    eval (f+1) sc n = (do let v ← eval f sc c; pure (.bool (truthy v))) := by
  rw [eval]; simp [h, hc, child]

/-! ### try -/

/-- the deferred finally block of a try node whose last child is `last` (its scope is made first) -/
def tryFin (f sc : Nat) (last : Node) : M (Option (M Val)) :=
  if last.name == "finally" then do
    let fs ← newChild sc (← scopeName last)
    pure (some (do eval f fs (← child last 0)))
  else pure none

/-- the except clauses of a try node, in source order, as handlers -/
def tryHandlers (f sc : Nat) (clauses : List Node) : List Handler :=
  (clauses.filter (·.name == "except")).map (exceptHandler f sc)

/-- the (first) otherwise clause -/
def tryOtherwise (f sc : Nat) (clauses : List Node) : Option (M Val) :=
  (clauses.find? (·.name == "otherwise")).map fun o => do
    let ovs ← newChild sc (← scopeName o)
    eval f ovs (← child o 0)

theorem filterMap_ite {α β : Type} (p : α → Prop) [DecidablePred p] (g : α → β) (l : List α) :
    l.filterMap (fun c => if p c then some (g c) else none) = (l.filter (fun c => decide (p c))).map g := by
  induction l with
  | nil => rfl
  | cons c cs ih =>
    by_cases hc : p c
    · simp [List.filterMap_cons, List.filter_cons, hc, ih]
    · simp [List.filterMap_cons, List.filter_cons, hc, ih]

theorem eval_try (f sc : Nat) (n : Node) (h : n.name = "try") : eval (f+1) sc n = evalTry f sc n := by
  rw [eval]; simp [h]

/-- **eval_try_is_tryFinally_tryCore_dispatchExcept**: a try node is `tryFinally` around `tryCore` of its
    block, its except clauses (in source order) and its otherwise clause; `dispatchExcept` (inside
    `tryCore`) walks the handlers -/
theorem evalTry_is_tryFinally_tryCore (f sc : Nat) (n body last : Node) (clauses : List Node)
    (hc : n.children = some body :: clauses.map some) (hl : (body :: clauses).getLast? = some last) :
    evalTry (f+1) sc n = (do
      let fin ← tryFin f sc last
      tryFinally (do
        let tvs ← newChild sc (← scopeName n)
        tryCore (eval f tvs body) (tryHandlers f sc clauses) (tryOtherwise f sc clauses)) fin) := by
  have hl' : n.children.getLast? = some (some last) := by
    rw [hc, show some body :: clauses.map some = (body :: clauses).map some from rfl, List.getLast?_map, hl]; rfl
  have hdec : (fun c : Node => decide (c.name = "except")) = (fun x : Node => x.name == "except") := by
    funext c; by_cases h : c.name = "except" <;> simp [h]
  rw [evalTry]
  simp only [hl', pure_bind]
  cases hfo : clauses.find? (·.name == "otherwise") <;>
    simp [hc, child, tryFin, tryOtherwise, tryHandlers, hfo, Function.comp_def, filterMap_ite, hdec]

theorem eval_try_is_tryFinally_tryCore_dispatchExcept (f sc : Nat) (n body last : Node) (clauses : List Node)
    (h : n.name = "try") (hc : n.children = some body :: clauses.map some)
    (hl : (body :: clauses).getLast? = some last) :
    eval (f+2) sc n = (do
      let fin ← tryFin f sc last
      tryFinally (do
        let tvs ← newChild sc (← scopeName n)
        tryCore (eval f tvs body) (tryHandlers f sc clauses) (tryOtherwise f sc clauses)) fin) := by
  rw [eval_try _ _ _ h, evalTry_is_tryFinally_tryCore f sc n body last clauses hc hl]

end Ecal.Ev
