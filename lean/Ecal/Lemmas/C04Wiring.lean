import Ecal.Model.Eval
import Ecal.Model.ParserWF
/-!
Wiring lemmas of C04: for every statement kind, `eval (fuel+1) sc n` on a node of that kind IS the
control-flow combinator (Model/Eval.lean, outside the mutual block) applied to the evaluations of the
node's children. Together with the combinator theorems of Props/C04.lean they give the property
theorems at the level of `eval` (Props/C04Eval.lean).
-/
namespace Ecal.Ev
open Ecal.Lex Ecal.Parse

/-! ### break / continue / return -/

theorem eval_break (f sc : Nat) (n : Node) (h : n.name = "break") :
    eval (f+1) sc n = throw (rtErr tBreak n) := by
  rw [eval]; simp [h]

theorem eval_continue (f sc : Nat) (n : Node) (h : n.name = "continue") :
    eval (f+1) sc n = throw (rtErr tContinue n) := by
  rw [eval]; simp [h]

/-- `return e`: the value of `e`, wrapped in the return signal positioned at the statement -/
theorem eval_return_value (f sc : Nat) (n c : Node) (t : Tok) (h : n.name = "return")
    (hc : n.children = [some c]) (ht : n.tok = some t) :
    eval (f+1) sc n = (do let v ← eval f sc c; throw (Sig.ret ⟨tReturn, t.line, t.col⟩ v)) := by
  rw [eval]; simp [h, hc, child, rtErr, ht]

/-- bare `return` -/
theorem eval_return_bare (f sc : Nat) (n : Node) (t : Tok) (h : n.name = "return")
    (hc : n.children = []) (ht : n.tok = some t) :
    eval (f+1) sc n = throw (Sig.ret ⟨tReturn, t.line, t.col⟩ Val.null) := by
  rw [eval]; simp [h, hc, rtErr, ht]

/-! ### if -/

/-- the children of an `if` node: guard, block, guard, block, … -/
def flatPairs : List (Node × Node) → List (Option Node)
  | [] => []
  | (g, b) :: r => some g :: some b :: flatPairs r

/-- the (guard, block) computations `ifBranches` builds: pair number k is evaluated with fuel `f - k` -/
def ifPairs (sc : Nat) : Nat → List (Node × Node) → List (M Val × M Val)
  | _, [] => []
  | 0, _ :: _ => []
  | f+1, (g, b) :: r => (eval f sc g, eval f sc b) :: ifPairs sc f r

theorem ifBranches_eq (sc : Nat) : ∀ (f : Nat) (ps : List (Node × Node)), ps.length < f →
    ifBranches f sc (flatPairs ps) = pure (ifPairs sc f ps)
  | 0, _, h => by omega
  | f+1, [], _ => by unfold ifBranches; simp [flatPairs, ifPairs]
  | f+1, (g, b) :: r, h => by
    unfold ifBranches
    simp only [flatPairs, ifPairs]
    rw [ifBranches_eq sc f r (by simp at h; omega)]
    simp

/-- **eval_if_is_ifChain**: an `if` node is `ifChain` over the evaluations of its guard and block
    children, all in the child scope named after the node -/
theorem eval_if_is_ifChain (f sc : Nat) (n : Node) (ps : List (Node × Node)) (h : n.name = "if")
    (hc : n.children = flatPairs ps) (hf : ps.length < f) :
    eval (f+1) sc n = (do let bs ← newChild sc (← scopeName n); ifChain (ifPairs bs f ps)) := by
  rw [eval]; simp [h, hc, ifBranches_eq _ f ps hf]

/-- a guard node yields the truth value of its expression -/
theorem eval_guard (f sc : Nat) (n c : Node) (h : n.name = "guard") (hc : n.children = [some c]) :
    eval (f+1) sc n = (do let v ← eval f sc c; pure (.bool (truthy v))) := by
  rw [eval]; simp [h, hc, child]

/-! ### try -/

/-- the deferred finally block of a try node whose last child is `last` (its scope is made first) -/
def tryFin (f sc : Nat) (last : Node) : M (Option (M Val)) :=
  if last.name == "finally" then do
    let fs ← newChild sc (← scopeName last)
    pure (some (do eval f fs (← child last 0)))
  else pure none

/-- the except clauses of a try node, in source order, as handlers -/
def tryHandlers (f sc : Nat) (clauses : List Node) : List Handler :=
  (clauses.filter (·.name == "except")).map (exceptHandler f sc)

/-- the (first) otherwise clause -/
def tryOtherwise (f sc : Nat) (clauses : List Node) : Option (M Val) :=
  (clauses.find? (·.name == "otherwise")).map fun o => do
    let ovs ← newChild sc (← scopeName o)
    eval f ovs (← child o 0)

theorem filterMap_ite {α β : Type} (p : α → Prop) [DecidablePred p] (g : α → β) (l : List α) :
    l.filterMap (fun c => if p c then some (g c) else none) = (l.filter (fun c => decide (p c))).map g := by
  induction l with
  | nil => rfl
  | cons c cs ih =>
    by_cases hc : p c
    · simp [List.filterMap_cons, List.filter_cons, hc, ih]
    · simp [List.filterMap_cons, List.filter_cons, hc, ih]

theorem eval_try (f sc : Nat) (n : Node) (h : n.name = "try") : eval (f+1) sc n = evalTry f sc n := by
  rw [eval]; simp [h]

/-- **eval_try_is_tryFinally_tryCore_dispatchExcept**: a try node is `tryFinally` around `tryCore` of its
    block, its except clauses (in source order) and its otherwise clause; `dispatchExcept` (inside
    `tryCore`) walks the handlers -/
theorem evalTry_is_tryFinally_tryCore (f sc : Nat) (n body last : Node) (clauses : List Node)
    (hc : n.children = some body :: clauses.map some) (hl : (body :: clauses).getLast? = some last) :
    evalTry (f+1) sc n = (do
      let fin ← tryFin f sc last
      tryFinally (do
        let tvs ← newChild sc (← scopeName n)
        tryCore (eval f tvs body) (tryHandlers f sc clauses) (tryOtherwise f sc clauses)) fin) := by
  have hl' : n.children.getLast? = some (some last) := by
    rw [hc, show some body :: clauses.map some = (body :: clauses).map some from rfl, List.getLast?_map, hl]; rfl
  have hdec : (fun c : Node => decide (c.name = "except")) = (fun x : Node => x.name == "except") := by
    funext c; by_cases h : c.name = "except" <;> simp [h]
  rw [evalTry]
  simp only [hl', pure_bind]
  cases hfo : clauses.find? (·.name == "otherwise") <;>
    simp [hc, child, tryFin, tryOtherwise, tryHandlers, hfo, Function.comp_def, filterMap_ite, hdec]

theorem eval_try_is_tryFinally_tryCore_dispatchExcept (f sc : Nat) (n body last : Node) (clauses : List Node)
    (h : n.name = "try") (hc : n.children = some body :: clauses.map some)
    (hl : (body :: clauses).getLast? = some last) :
    eval (f+2) sc n = (do
      let fin ← tryFin f sc last
      tryFinally (do
        let tvs ← newChild sc (← scopeName n)
        tryCore (eval f tvs body) (tryHandlers f sc clauses) (tryOtherwise f sc clauses)) fin) := by
  rw [eval_try _ _ _ h, evalTry_is_tryFinally_tryCore f sc n body last clauses hc hl]

/-! ### except clauses (the three shapes `exceptHandler` reads from the node's children) -/

/-- the type under which an error is matched by typed clauses -/
def errType : Sig → String
  | .err re _ => re.type
  | .iter re _ => re.type
  | _ => "UnexpectedError"

/-- binding the error object to the clause variable: a failure of the assignment is dropped -/
def bindErr (evs : Nat) (var : List Nat) (e : Sig) : M Unit := do
  let eo ← errObject e
  match ← attemptE (setValue evs var eo) with
  | .error e => if e.isFatal then throw e
  | .ok _ => pure ()

/-- `bindErr` followed by `k`, in the shape the evaluator's code has -/
def bindErrThen {α : Type} (evs : Nat) (var : List Nat) (e : Sig) (k : M α) : M α := do
  let eo ← errObject e
  match ← attemptE (setValue evs var eo) with
  | .error e => if e.isFatal then throw e else k
  | .ok _ => k

theorem bindErrThen_eq {α : Type} (evs : Nat) (var : List Nat) (e : Sig) (k : M α) :
    bindErrThen evs var e k = (do bindErr evs var e; k) := by
  simp only [bindErrThen, bindErr, bind_assoc]
  congr; funext eo; congr; funext r
  cases r with
  | ok _ => simp
  | error e' => by_cases h : e'.isFatal = true <;> simp [h]

/-- `except { block }`: handles every error -/
theorem exceptHandler_bare (f sc : Nat) (c st : Node) (e : Sig) (hc : c.children = [some st]) :
    exceptHandler (f+1) sc c e = (do
      let evs ← newChild sc (← scopeName c)
      let _ ← eval f evs st
      pure (some Val.null)) := by
  rw [exceptHandler.eq_def]; simp [hc, child]

/-- `except e { block }` / `except as e { block }`: handles every error, binds the error object -/
theorem exceptHandler_bind (f sc : Nat) (c c0 st : Node) (e : Sig) (hc : c.children = [some c0, some st])
    (h0 : c0.name ≠ "string") :
    exceptHandler (f+1) sc c e = (do
      let var ← (if c0.name == "as" then do pure (← tokOf (← child c0 0)).val else do pure (← tokOf c0).val)
      let evs ← newChild sc (← scopeName c)
      bindErrThen evs var e (do
        let _ ← eval f evs st
        pure (some Val.null))) := by
  rw [exceptHandler.eq_def]; simp [hc, child, h0, bindErrThen]
  rfl

theorem mapM_some_pure (g : Option Node → M Node) (hg : ∀ x, g (some x) = pure x) (l : List Node) :
    (l.map some).mapM g = pure l := by
  induction l with
  | nil => rfl
  | cons x xs ih => simp [List.mapM_cons, ih, hg]

theorem takeWhile_strs (strs : List Node) (rest : List Node) (hs : ∀ x ∈ strs, x.name = "string")
    (hr : ∀ x, rest.head? = some x → x.name ≠ "string") :
    (strs ++ rest).takeWhile (·.name == "string") = strs ∧ (strs ++ rest).dropWhile (·.name == "string") = rest := by
  induction strs with
  | nil =>
    cases rest with
    | nil => simp
    | cons r rs => have := hr r rfl; simp [List.takeWhile_cons, List.dropWhile_cons, this]
  | cons x xs ih =>
    have hx : x.name = "string" := hs x (by simp)
    have := ih (fun y hy => hs y (by simp [hy]))
    simp [List.takeWhile_cons, List.dropWhile_cons, hx, this]

/-- `except "T1", "T2" { block }`: the type strings are EVALUATED in order (`typedMatch`); the clause
    handles the error iff one of them equals its type -/
theorem exceptHandler_typed (f sc : Nat) (c s0 st : Node) (ss : List Node) (e : Sig)
    (hc : c.children = ((s0 :: ss) ++ [st]).map some) (hs : ∀ x ∈ s0 :: ss, x.name = "string")
    (hst : st.name = "statements") :
    exceptHandler (f+1) sc c e = (do
      if ← typedMatch (errType e) bytesToString ((s0 :: ss).map fun ch => eval f sc ch) then
        let evs ← newChild sc (← scopeName c)
        let _ ← eval f evs st
        pure (some Val.null)
      else pure none) := by
  have h0 : s0.name = "string" := hs s0 (by simp)
  have htd := takeWhile_strs (s0 :: ss) [st] hs (by intro x hx; cases hx; simp [hst])
  have hk : ∀ g : Option Node → M Node, (∀ x, g (some x) = pure x) → c.children.mapM g = pure ((s0 :: ss) ++ [st]) := by
    intro g hg; rw [hc]; exact mapM_some_pure g hg _
  have hlen : (c.children.length == 1) = false := by simp [hc]
  have hne : (s0.name != "string") = false := by simp [h0]
  have h0c : c.children[0]? = some (some s0) := by simp [hc]
  rw [exceptHandler.eq_def]
  simp only [hlen, child, h0c, pure_bind, hne, Bool.and_false]
  rw [hk _ (fun _ => rfl)]
  simp only [pure_bind, htd.1, htd.2]
  simp [errType, hst]
  cases e <;> rfl

/-- `except "T1", "T2" as v { block }` -/
theorem exceptHandler_typed_as (f sc : Nat) (c s0 a av st : Node) (t : Tok) (ss : List Node) (e : Sig)
    (hc : c.children = ((s0 :: ss) ++ [a, st]).map some) (hs : ∀ x ∈ s0 :: ss, x.name = "string")
    (ha : a.name = "as") (hac : a.children = [some av]) (hat : av.tok = some t)
    (hst : st.name = "statements") :
    exceptHandler (f+1) sc c e = (do
      if ← typedMatch (errType e) bytesToString ((s0 :: ss).map fun ch => eval f sc ch) then
        let evs ← newChild sc (← scopeName c)
        bindErrThen evs t.val e (do
          let _ ← eval f evs st
          pure (some Val.null))
      else pure none) := by
  have h0 : s0.name = "string" := hs s0 (by simp)
  have htd := takeWhile_strs (s0 :: ss) [a, st] hs (by intro x hx; cases hx; simp [ha])
  have hk : ∀ g : Option Node → M Node, (∀ x, g (some x) = pure x) → c.children.mapM g = pure ((s0 :: ss) ++ [a, st]) := by
    intro g hg; rw [hc]; exact mapM_some_pure g hg _
  have hlen : (c.children.length == 1) = false := by simp [hc]
  have hne : (s0.name != "string") = false := by simp [h0]
  have h0c : c.children[0]? = some (some s0) := by simp [hc]
  rw [exceptHandler.eq_def]
  simp only [hlen, child, h0c, pure_bind, hne, Bool.and_false]
  rw [hk _ (fun _ => rfl)]
  simp only [pure_bind, htd.1, htd.2]
  simp [errType, hst, ha, hac, hat, tokOf, bindErrThen, child]
  cases e <;> rfl

/-- `except "T1", "T2" v { block }` (strings, an identifier, the block): the identifier is skipped — nothing is
    bound; the clause handles the error iff one of the evaluated type strings equals its type -/
theorem exceptHandler_typed_ident (f sc : Nat) (c s0 a st : Node) (ss : List Node) (e : Sig)
    (hc : c.children = ((s0 :: ss) ++ [a, st]).map some) (hs : ∀ x ∈ s0 :: ss, x.name = "string")
    (ha : a.name = "identifier") (hst : st.name = "statements") :
    exceptHandler (f+1) sc c e = (do
      if ← typedMatch (errType e) bytesToString ((s0 :: ss).map fun ch => eval f sc ch) then
        let evs ← newChild sc (← scopeName c)
        let _ ← eval f evs st
        pure (some Val.null)
      else pure none) := by
  have h0 : s0.name = "string" := hs s0 (by simp)
  have htd := takeWhile_strs (s0 :: ss) [a, st] hs (by intro x hx; cases hx; simp [ha])
  have hk : ∀ g : Option Node → M Node, (∀ x, g (some x) = pure x) → c.children.mapM g = pure ((s0 :: ss) ++ [a, st]) := by
    intro g hg; rw [hc]; exact mapM_some_pure g hg _
  have hlen : (c.children.length == 1) = false := by simp [hc]
  have hne : (s0.name != "string") = false := by simp [h0]
  have h0c : c.children[0]? = some (some s0) := by simp [hc]
  rw [exceptHandler.eq_def]
  simp only [hlen, child, h0c, pure_bind, hne, Bool.and_false]
  rw [hk _ (fun _ => rfl)]
  simp only [pure_bind, htd.1, htd.2]
  simp [errType, hst, ha]
  cases e <;> rfl

/-! ### loops -/

theorem eval_loop (f sc : Nat) (n : Node) (h : n.name = "loop") : eval (f+1) sc n = evalLoop f sc n := by
  rw [eval]; simp [h]

/-- **eval_guardloop_is_guardLoop**: a condition loop is `guardLoop` over the evaluations of its guard and
    its block in the loop's child scope, with a fresh instance-state map -/
theorem evalLoop_is_guardLoop (f sc : Nat) (n g body : Node) (hc : n.children = [some g, some body])
    (hg : g.name = "guard") :
    evalLoop (f+1) sc n = (do
      let ls ← newChild sc (← scopeName n)
      withFreshIs (guardLoop (eval f ls g) (eval f ls body) f)) := by
  rw [evalLoop]; simp [hc, child, hg]

theorem eval_guardloop_is_guardLoop (f sc : Nat) (n g body : Node) (h : n.name = "loop")
    (hc : n.children = [some g, some body]) (hg : g.name = "guard") :
    eval (f+2) sc n = (do
      let ls ← newChild sc (← scopeName n)
      withFreshIs (guardLoop (eval f ls g) (eval f ls body) f)) := by
  rw [eval_loop _ _ _ h, evalLoop_is_guardLoop f sc n g body hc hg]

/-- getIterator: what the loop iterates over, from the value (or iterator signal) of the expression -/
def loopStart (f ls : Nat) (it : Node) : M IterSt := do
  match ← attemptE (eval f ls it) with
  | .error (Sig.iter _ _) => pure IterSt.reeval
  | .error e => if e.isBreak then pure (IterSt.single Val.null true) else throw e
  | .ok v =>
    match v with
    | .list r l => pure (IterSt.list r l 0)
    | .map r => do
      let kvs ← getMap r
      let keyed ← kvs.mapM fun (k, _) => do pure (← sprint k, k)
      let sorted := sortBy (fun a b => bytesLt a.1 b.1) keyed
      if evalLoop.dup sorted then throw (Sig.unsupported "map keys with equal string forms: iteration order unspecified")
      pure (IterSt.map r (sorted.map (·.2)))
    | v => pure (IterSt.single v false)

/-- **eval_iterloop_is_iterLoop** (one loop variable): a `for v in e` loop is `iterLoop` with the iterator
    `iterNext` started by `loopStart`, the binder `bindLoopVars` and the evaluation of the block -/
theorem evalLoop_is_iterLoop (f sc : Nat) (n c0 iv it body : Node) (t : Tok)
    (hc : n.children = [some c0, some body]) (h0 : c0.name = "in") (h0c : c0.children = [some iv, some it])
    (hiv : iv.name = "identifier") (hivc : iv.children = []) (hivt : iv.tok = some t) :
    evalLoop (f+1) sc n = (do
      let ls ← newChild sc (← scopeName n)
      withFreshIs (do
        let start ← loopStart f ls it
        iterLoop (iterNext f ls n it) (bindLoopVars ls n [t.val]) (eval f ls body) f start)) := by
  rw [evalLoop]; simp [hc, child, h0, h0c, hiv, hivc, hivt, tokOf, loopStart]
  rfl

theorem eval_iterloop_is_iterLoop (f sc : Nat) (n c0 iv it body : Node) (t : Tok) (h : n.name = "loop")
    (hc : n.children = [some c0, some body]) (h0 : c0.name = "in") (h0c : c0.children = [some iv, some it])
    (hiv : iv.name = "identifier") (hivc : iv.children = []) (hivt : iv.tok = some t) :
    eval (f+2) sc n = (do
      let ls ← newChild sc (← scopeName n)
      withFreshIs (do
        let start ← loopStart f ls it
        iterLoop (iterNext f ls n it) (bindLoopVars ls n [t.val]) (eval f ls body) f start)) := by
  rw [eval_loop _ _ _ h, evalLoop_is_iterLoop f sc n c0 iv it body t hc h0 h0c hiv hivc hivt]

/-- the iterator over a list: the slice header was captured at loop start; elements are read live -/
theorem iterNext_list (f ls : Nat) (n it : Node) (r l i : Nat) :
    iterNext (f+1) ls n it (.list r l i) =
      (if i ≥ l then throw (rtErr tBreak n) else do pure ((← getBacking r).getD i Val.null, IterSt.list r l (i + 1))) := by
  rw [iterNext]

/-- the iterator over a map: the keys (sorted at loop start) in order, as `[key, value]` pairs -/
theorem iterNext_map_cons (f ls : Nat) (n it : Node) (r : Nat) (k : Val) (ks : List Val) :
    iterNext (f+1) ls n it (.map r (k :: ks)) = (do
      let v := (mapLookup (← getMap r) k).getD Val.null
      pure (← newListExact [k, v], IterSt.map r ks)) := by
  rw [iterNext]
theorem iterNext_map_nil (f ls : Nat) (n it : Node) (r : Nat) :
    iterNext (f+1) ls n it (.map r []) = throw (rtErr tBreak n) := by
  rw [iterNext]

/-- a single value: exactly one step -/
theorem iterNext_single (f ls : Nat) (n it : Node) (v : Val) (done : Bool) :
    iterNext (f+1) ls n it (.single v done) =
      (if done then throw (rtErr tBreak n) else pure (v, IterSt.single v true)) := by
  rw [iterNext]

/-- an iterator function (range): the expression is evaluated again for every step; the value travels
    with the iterator signal -/
theorem iterNext_reeval (f ls : Nat) (n it : Node) :
    iterNext (f+1) ls n it .reeval = (do
      match ← attemptE (eval f ls it) with
      | .ok v => pure (v, IterSt.reeval)
      | .error (Sig.iter e cur) =>
        match it.tok with
        | some t => if e.line == t.line && e.pos == t.col then pure (.num cur, IterSt.reeval) else pure (.null, IterSt.reeval)
        | none => pure (.null, IterSt.reeval)
      | .error e => throw e) := by
  rw [iterNext]; rfl

/-- the end of iteration the iterators raise is a break signal of the loop, not a continue signal -/
theorem loop_end_is_break (n : Node) : (rtErr tBreak n).isBreak = true ∧ (rtErr tBreak n).isContinue = false := by
  unfold rtErr; cases n.tok <;> simp [Sig.isBreak, Sig.isContinue, tBreak, tContinue]

/-! ### calls and raise -/

/-- **eval_call_is_callCore**: running a declared function is `callCore` of the evaluation of its body in
    the frame `buildFrame` made (fresh root scope, `this`/`super`, parameters, then the link to the
    declaration scope), with a fresh instance-state map -/
theorem runFunction_is_callCore (f callerSc id : Nat) (args : List Val) :
    runFunction (f+1) callerSc id args = (do
      let fr ← (match (← get).funcs[id]? with
        | some fr => pure fr
        | none => throw (Sig.unsupported "dangling function id"))
      let c0 ← child fr.decl 0
      let off := if c0.name == "identifier" then 1 else 0
      let params := (← child fr.decl off).children
      let body ← child fr.decl (off + 1)
      let fvs ← buildFrame (fun d => eval f callerSc d) fr params args
      callCore (withFreshIs (eval f fvs body))) := by
  rw [runFunction]; rfl

/-- **eval_raise_is_raiseSig**: the builtin `raise` throws `raiseSig` with the text of its first argument
    as type, of its second as detail, its third as data, positioned at the call -/
theorem runBuiltin_raise_is_raiseSig (f sc : Nat) (node : Node) (t : Tok) (args : List Val) (ht : node.tok = some t) :
    runBuiltin (f+1) sc node "raise" args = (do
      let ty ← (match args with
        | [] => pure "Runtime error"
        | a :: _ => do pure (bytesToString (← sprint a)))
      let detail ← (match args with
        | _ :: .null :: _ => pure []
        | _ :: d :: _ => sprint d
        | _ => pure [])
      throw (raiseSig ty detail (args.getD 2 Val.null) t.line t.col)) := by
  rw [runBuiltin.eq_def]; simp [ht]
  rfl

/-! ### string literals and the decision of a typed clause -/

/-- a raw string literal evaluates to its token text -/
theorem eval_string_raw (f sc : Nat) (n : Node) (t : Tok) (h : n.name = "string") (ht : n.tok = some t)
    (hr : t.allowEscapes = false) : eval (f+1) sc n = pure (.str t.val) := by
  rw [eval]; simp [h, tokOf, ht, hr]

/-- an interpolating literal without `{{` evaluates to its token text -/
theorem eval_string_plain (f sc : Nat) (n : Node) (t : Tok) (h : n.name = "string") (ht : n.tok = some t)
    (hm : segIdx [123, 123] t.val = none) : eval (f+2) sc n = pure (.str t.val) := by
  rw [eval]; simp only [h, tokOf, ht, pure_bind]
  by_cases ha : t.allowEscapes = true
  · simp [ha, interpolate, hm]
  · simp [ha]

/-- `n` is a string literal that evaluates, without effects and at any fuel ≥ 2, to the text `v` -/
def PlainStr (n : Node) (v : List Nat) : Prop := ∀ f sc, eval (f+2) sc n = pure (.str v)

theorem PlainStr.of_raw {n : Node} {t : Tok} (h : n.name = "string") (ht : n.tok = some t)
    (hr : t.allowEscapes = false) : PlainStr n t.val := fun f sc => eval_string_raw (f+1) sc n t h ht hr
theorem PlainStr.of_plain {n : Node} {t : Tok} (h : n.name = "string") (ht : n.tok = some t)
    (hm : segIdx [123, 123] t.val = none) : PlainStr n t.val := fun f sc => eval_string_plain f sc n t h ht hm

theorem typedMatch_values (ty : String) (nm : List Nat → String) (vals : List (List Nat)) :
    typedMatch ty nm (vals.map fun v => (pure (.str v) : M Val)) = pure (vals.any fun b => nm b == ty) := by
  induction vals with
  | nil => rfl
  | cons v vs ih =>
    simp only [List.map_cons, typedMatch, pure_bind, List.any_cons]
    by_cases hb : (nm v == ty) = true
    · simp [hb]
    · simp [hb, ih]

/-- the text of a literal node -/
def textOf (n : Node) : List Nat := (n.tok.map (·.val)).getD []

theorem map_eval_plain (f sc : Nat) (strs : List Node) (h : ∀ x ∈ strs, PlainStr x (textOf x)) :
    (strs.map fun ch => eval (f+2) sc ch) = (strs.map textOf).map fun v => (pure (.str v) : M Val) := by
  rw [List.map_map]
  exact List.map_congr_left fun x hx => h x hx f sc

/-- **a typed clause handles an error iff the type of the error is one of the listed types** (type
    strings that are plain literals): it then runs its block, otherwise declines without any effect -/
theorem exceptHandler_typed_decides (f sc : Nat) (c s0 st : Node) (ss : List Node) (e : Sig)
    (hc : c.children = ((s0 :: ss) ++ [st]).map some) (hs : ∀ x ∈ s0 :: ss, x.name = "string")
    (hst : st.name = "statements") (hv : ∀ x ∈ s0 :: ss, PlainStr x (textOf x)) :
    exceptHandler (f+3) sc c e = (
      if ((s0 :: ss).map textOf).any (fun b => bytesToString b == errType e) then do
        let evs ← newChild sc (← scopeName c)
        let _ ← eval (f+2) evs st
        pure (some Val.null)
      else pure none) := by
  rw [exceptHandler_typed (f+2) sc c s0 st ss e hc hs hst, map_eval_plain f sc _ hv, typedMatch_values]
  simp

/-- the same for `except "T1", "T2" as v { block }` -/
theorem exceptHandler_typed_as_decides (f sc : Nat) (c s0 a av st : Node) (t : Tok) (ss : List Node) (e : Sig)
    (hc : c.children = ((s0 :: ss) ++ [a, st]).map some) (hs : ∀ x ∈ s0 :: ss, x.name = "string")
    (ha : a.name = "as") (hac : a.children = [some av]) (hat : av.tok = some t)
    (hst : st.name = "statements") (hv : ∀ x ∈ s0 :: ss, PlainStr x (textOf x)) :
    exceptHandler (f+3) sc c e = (
      if ((s0 :: ss).map textOf).any (fun b => bytesToString b == errType e) then do
        let evs ← newChild sc (← scopeName c)
        bindErrThen evs t.val e (do
          let _ ← eval (f+2) evs st
          pure (some Val.null))
      else pure none) := by
  rw [exceptHandler_typed_as (f+2) sc c s0 a av st t ss e hc hs ha hac hat hst, map_eval_plain f sc _ hv,
    typedMatch_values]
  simp

/-! ### the loop-variable binder raises no loop signal -/

theorem not_signal_of_fatal {e : Sig} (h : e.isFatal = true) : e.isBreak = false ∧ e.isContinue = false := by
  cases e <;> simp_all [Sig.isFatal, Sig.isBreak, Sig.isContinue]

theorem rtErr_runtime_not_signal (n : Node) :
    (rtErr "Runtime error" n).isBreak = false ∧ (rtErr "Runtime error" n).isContinue = false := by
  unfold rtErr; cases n.tok <;> simp [Sig.isBreak, Sig.isContinue, tBreak, tContinue]

/-! ### `for [a, b, …] in e` -/

theorem mapM_some_ok {β : Type} (g : Option Node → M β) (k : Node → β) : ∀ (l : List Node),
    (∀ x ∈ l, g (some x) = pure (k x)) → (l.map some).mapM g = pure (l.map k)
  | [], _ => rfl
  | x :: xs, h => by
    simp only [List.map_cons, List.mapM_cons, h x (by simp), pure_bind,
      mapM_some_ok g k xs (fun y hy => h y (by simp [hy]))]

/-- **eval_iterloop_is_iterLoop** (several loop variables, the `for [k, v] in map` form) -/
theorem evalLoop_is_iterLoop_list (f sc : Nat) (n c0 iv it body : Node) (ids : List Node)
    (hc : n.children = [some c0, some body]) (h0 : c0.name = "in") (h0c : c0.children = [some iv, some it])
    (hiv : iv.name = "list") (hivc : iv.children = ids.map some)
    (hids : ∀ x ∈ ids, x.name = "identifier" ∧ x.children = [] ∧ ∃ t, x.tok = some t) :
    evalLoop (f+1) sc n = (do
      let ls ← newChild sc (← scopeName n)
      withFreshIs (do
        let start ← loopStart f ls it
        iterLoop (iterNext f ls n it) (bindLoopVars ls n (ids.map textOf)) (eval f ls body) f start)) := by
  have hk : ∀ g : Option Node → M (List Nat), (∀ x ∈ ids, g (some x) = pure (textOf x)) →
      iv.children.mapM g = pure (ids.map textOf) := by
    intro g hg; rw [hivc]; exact mapM_some_ok g textOf ids hg
  rw [evalLoop]
  simp only [hc, child, List.getElem?_cons_zero, pure_bind, h0, beq_self_eq_true, if_true, h0c, hiv]
  rw [hk _ (by
    intro x hx
    obtain ⟨h1, h2, t, h3⟩ := hids x hx
    simp [h1, h2, tokOf, h3, textOf])]
  simp [loopStart]
  rfl

theorem eval_iterloop_is_iterLoop_list (f sc : Nat) (n c0 iv it body : Node) (ids : List Node) (h : n.name = "loop")
    (hc : n.children = [some c0, some body]) (h0 : c0.name = "in") (h0c : c0.children = [some iv, some it])
    (hiv : iv.name = "list") (hivc : iv.children = ids.map some)
    (hids : ∀ x ∈ ids, x.name = "identifier" ∧ x.children = [] ∧ ∃ t, x.tok = some t) :
    eval (f+2) sc n = (do
      let ls ← newChild sc (← scopeName n)
      withFreshIs (do
        let start ← loopStart f ls it
        iterLoop (iterNext f ls n it) (bindLoopVars ls n (ids.map textOf)) (eval f ls body) f start)) := by
  rw [eval_loop _ _ _ h, evalLoop_is_iterLoop_list f sc n c0 iv it body ids hc h0 h0c hiv hivc hids]

/-! ### statement sequences -/

/-- evaluating statements in order; the value is the value of the last one -/
def seqEval (f sc : Nat) : List Node → Val → M Val
  | [], r => pure r
  | c :: cs, _ => do
    let v ← eval f sc c
    seqEval f sc cs v

theorem forIn_seq (f sc : Nat) (g : Option Node → Val → M (ForInStep Val))
    (hg : ∀ c r, g (some c) r = (do let v ← eval f sc c; pure (ForInStep.yield v))) :
    ∀ (cs : List Node) (r : Val), forIn (cs.map some) r g = seqEval f sc cs r
  | [], r => rfl
  | c :: cs, r => by
    simp only [List.map_cons, List.forIn_cons, hg, bind_assoc, pure_bind, seqEval]
    congr; funext v
    exact forIn_seq f sc g hg cs v

/-- **eval_statements**: a `statements` node evaluates its children in order with the same fuel and scope;
    the first signal of a child ends the sequence (monadic bind), the value is that of the last child -/
theorem eval_statements (f sc : Nat) (n : Node) (cs : List Node) (h : n.name = "statements")
    (hc : n.children = cs.map some) : eval (f+1) sc n = seqEval f sc cs Val.null := by
  rw [eval]
  simp only [h, hc]
  rw [forIn_seq f sc _ (fun c r => by simp) cs Val.null]
  simp

/-! ### the call `range(…)` in a `for … in` loop -/

/-- the access path of an identifier whose only child is its argument list is its own name -/
theorem accessString_call (f sc : Nat) (n fc : Node) (pre : List Nat) (hc : n.children = [some fc])
    (hfc : fc.name = "funccall") : accessString (f+1) sc n pre = pure (none, pre) := by
  rw [accessString]
  simp [hc, hfc]

/-- the evaluation of the argument list of a call node: every argument with a fresh instance-state map -/
def argsEval (f sc : Nat) (fc : Node) : M (List Val) :=
  fc.children.mapM fun c => match c with
    | some c => withFreshIs (eval f sc c)
    | none => throw Sig.panic

/-- **eval_range_call**: evaluating the expression `range(a, …)` (an identifier node named `range` with its
    argument list; `range` not shadowed by a function value) evaluates the arguments — each with a fresh
    instance-state map — and then runs the builtin's state machine (`runBuiltin … "range"`, whose step on
    an existing entry is `runBuiltin_range_next`); a plain end-of-iteration text becomes the loop's break
    signal (`wrapCallErr`) -/
theorem eval_range_call (f sc : Nat) (it fc : Node) (t : Tok)
    (hn : it.name = "identifier") (ht : it.tok = some t) (hc : it.children = [some fc]) (hfc : fc.name = "funccall")
    (hname : bytesToString t.val = "range") (hmath : ((splitDots t.val).head? == some (str "math")) = false) :
    eval (f+3) sc it = (do
      let (v', _) ← getValue sc t.val
      -- the value of a variable called `range` only matters when it is a function
      if (match v' with | .func _ => false | .builtin _ => false | _ => true) then do
        let args ← argsEval f sc fc
        match ← attemptE (runBuiltin f sc it "range" args) with
        | .ok r => pure r
        | .error e => throw (wrapCallErr it e)
      else callFunction (f+1) sc it t.val v') := by
  rw [eval]
  simp only [hn]
  rw [evalIdent]
  simp only [tokOf, ht, pure_bind, hc, List.isEmpty_cons, Bool.false_eq_true, if_false,
    accessString_call f sc it fc t.val hc hfc, hmath]
  congr 1; funext p
  obtain ⟨v', b⟩ := p
  simp only [List.any_cons, hfc, beq_self_eq_true, Bool.true_or, if_true]
  have hcall : ∀ w : Val, (match w with | .func _ => false | .builtin _ => false | _ => true) = true →
      callFunction (f+1) sc it t.val w = (do
        let args ← argsEval f sc fc
        match ← attemptE (runBuiltin f sc it "range" args) with
        | .ok r => pure r
        | .error e => throw (wrapCallErr it e)) := by
    intro w hw
    rw [callFunction]
    simp only [hc, List.find?_cons, hfc, beq_self_eq_true, pure_bind, hname, argsEval]
    cases w <;> simp_all <;> rfl
  cases v' with
  | func id => simp
  | builtin nm => simp
  | null => simp [hcall]
  | bool x => simp [hcall]
  | num x => simp [hcall]
  | str x => simp [hcall]
  | list r l => simp [hcall]
  | map r => simp [hcall]
  | «opaque» w => simp [hcall]

/-! ### the call of a declared function at its call node -/

/-- **eval_user_call**: evaluating a call node `name(args)` (an identifier with its argument list; the name is
    neither a logging function nor in package `math`): the value of the variable decides — when it is a declared
    function `id`, the arguments are evaluated (each with a fresh instance-state map) and `runFunction` runs it;
    an error leaving the function is passed through `wrapCallErr` (plain Go errors become runtime errors at the
    call node, everything else — also break and continue signals — is unchanged); any other value goes the
    general way (`callFunction`: builtins, stdlib, "Unknown construct") -/
theorem eval_user_call (f sc : Nat) (n fc : Node) (t : Tok)
    (hn : n.name = "identifier") (ht : n.tok = some t) (hc : n.children = [some fc]) (hfc : fc.name = "funccall")
    (hmath : ((splitDots t.val).head? == some (str "math")) = false)
    (hlog : (bytesToString t.val == "log" || bytesToString t.val == "error" || bytesToString t.val == "debug") = false) :
    eval (f+3) sc n = (do
      let (v, _) ← getValue sc t.val
      match v with
      | .func id => do
        let args ← argsEval f sc fc
        match ← attemptE (runFunction f sc id args) with
        | .ok r => pure r
        | .error e => throw (wrapCallErr n e)
      | v => callFunction (f+1) sc n t.val v) := by
  rw [eval]
  simp only [hn]
  rw [evalIdent]
  simp only [tokOf, ht, pure_bind, hc, List.isEmpty_cons, Bool.false_eq_true, if_false,
    accessString_call f sc n fc t.val hc hfc, hmath]
  congr 1; funext p
  obtain ⟨v, b⟩ := p
  simp only [List.any_cons, hfc, beq_self_eq_true, Bool.true_or, if_true]
  cases v with
  | func id =>
    simp only []
    rw [callFunction]
    simp only [hc, List.find?_cons, hfc, beq_self_eq_true, pure_bind, hlog, Bool.false_eq_true, if_false, argsEval]
    simp
    rfl
  | _ => rfl

/-- everything `runFunction` does before the body runs: the declaration of function `id`, its parameters and body,
    and the frame (`buildFrame`: fresh root scope, `this`/`super`, parameters, link to the declaration scope) -/
def framePrefix (f callerSc id : Nat) (args : List Val) : M (Nat × Node) := do
  let fr ← (match (← get).funcs[id]? with
    | some fr => pure fr
    | none => throw (Sig.unsupported "dangling function id"))
  let c0 ← child fr.decl 0
  let off := if c0.name == "identifier" then 1 else 0
  let params := (← child fr.decl off).children
  let body ← child fr.decl (off + 1)
  let fvs ← buildFrame (fun d => eval f callerSc d) fr params args
  pure (fvs, body)

theorem runFunction_frame_then_callCore (f callerSc id : Nat) (args : List Val) :
    runFunction (f+1) callerSc id args = (do
      let (fvs, body) ← framePrefix f callerSc id args
      callCore (withFreshIs (eval f fvs body))) := by
  rw [runFunction_is_callCore]
  simp [framePrefix]

end Ecal.Ev
