import Ecal.Model.TokenChannel
/-! Lemmas about the token-channel transition system used by Props/C07.lean. -/
namespace Ecal.Chan

/-- measure of what is still to happen once the consumer has stopped parsing -/
def todo (s : St) : Nat :=
  s.toSend + (match s.prod with | .running => 2 | .closed => 1 | .terminated => 0) +
  (if s.cons = .draining then 1 else 0)

/-- invariant of the synchronous drain: no helper ever exists, and a returned call means a closed channel -/
def SyncInv (s : St) : Prop := s.helper = false ∧ (s.cons = .returned → s.prod ≠ .running)

theorem step_inv (s s' : St) (e : Ev) (h : step .sync s e = some s') (hi : SyncInv s) : SyncInv s' := by
  obtain ⟨hh, hr⟩ := hi
  cases e <;> simp only [step] at h <;> (repeat' split at h) <;>
    simp_all [SyncInv] <;> (subst h; simp_all)

/-- In every returned state of the synchronous-drain system: no helper, producer past its close. The safety half
    is immediate from the guard of `drainEnd` (= the semantics of `for range ch`: the loop ends when the channel is
    observed closed) plus "no event ever creates a helper in mode sync". -/
theorem returned_clean (n : Nat) (es : List Ev) (s : St)
    (h : exec .sync (init n) es = some s) (hr : s.cons = .returned) : clean s = true := by
  have gen : ∀ (es : List Ev) (s0 s : St), SyncInv s0 → exec .sync s0 es = some s → SyncInv s := by
    intro es
    induction es with
    | nil => intro s0 s hi h; simp [exec] at h; subst h; exact hi
    | cons e es ih =>
      intro s0 s hi h
      simp only [exec] at h
      split at h
      · next s1 h1 => exact ih s1 s (step_inv s0 s1 e h1 hi) h
      · simp at h
  have := gen es (init n) s (by simp [SyncInv, init]) h
  simp [clean, this.1, this.2 hr]

end Ecal.Chan
