import Ecal.Model.DebugCmd
/-!
Hoare-style rules for the handler monad of `Ecal.DebugCmd` and the safety of every
command: from a state satisfying `Inv0` with the lock free, the command returns
(no panic primitive fails, the lock is not taken twice), `Inv0` holds again and the
lock is free.
-/
namespace Ecal.DebugCmd

/-! ## The invariant -/

def IGood (is : Interro) : Prop := is.hasNode = true ∧ is.hasVs = true

/-- what the command side relies on: call-stack entries are nodes with tokens, every
    interrogation state carries the node and scope the thread stopped at -/
def Inv0 (s : DbgState) : Prop :=
  (∀ p ∈ s.stacks, ∀ f ∈ p.2, f.nonNil = true ∧ f.hasToken = true) ∧ (∀ p ∈ s.istates, IGood p.2)

/-- post-condition of a safe command -/
def Post {α : Type} : α → DbgState → Prop := fun _ s' => Inv0 s' ∧ s'.lock = 0

/-- `m` started in `s` returns normally with a result and state satisfying `Q`, or is evaluating
    an expression (possibly for ever) in a good state with the debugger's lock free -/
def wp {α : Type} (m : M α) (Q : α → DbgState → Prop) (s : DbgState) : Prop :=
  match m s with
  | .ok a s' => Q a s'
  | .evaluating s' => Inv0 s' ∧ s'.lock = 0   -- while an expression is evaluated no lock is held
  | _ => False

@[simp] theorem wp_pure {α : Type} (a : α) (Q : α → DbgState → Prop) (s : DbgState) :
    wp (pure a : M α) Q s ↔ Q a s := Iff.rfl

@[simp] theorem wp_bind {α β : Type} (m : M α) (f : α → M β) (Q : β → DbgState → Prop) (s : DbgState) :
    wp (m >>= f) Q s ↔ wp m (fun a s' => wp (f a) Q s') s := by
  simp only [wp, bind]
  cases m s <;> simp

theorem wp_mono {α : Type} {m : M α} {Q Q' : α → DbgState → Prop} {s : DbgState}
    (h : wp m Q s) (hq : ∀ a s', Q a s' → Q' a s') : wp m Q' s := by
  unfold wp at *
  cases hm : m s <;> simp_all

@[simp] theorem wp_getS (Q : DbgState → DbgState → Prop) (s : DbgState) : wp getS Q s ↔ Q s s := Iff.rfl
@[simp] theorem wp_modS (f : DbgState → DbgState) (Q : Unit → DbgState → Prop) (s : DbgState) :
    wp (modS f) Q s ↔ Q () (f s) := Iff.rfl
@[simp] theorem wp_panicAt {α : Type} (site : String) (Q : α → DbgState → Prop) (s : DbgState) :
    wp (panicAt site : M α) Q s ↔ False := Iff.rfl

@[simp] theorem wp_deref (b : Bool) (site : String) (Q : Unit → DbgState → Prop) (s : DbgState) :
    wp (deref b site) Q s ↔ (b = true ∧ Q () s) := by
  cases b <;> simp [deref]

@[simp] theorem wp_idx {α : Type} (l : List α) (i : Nat) (site : String) (Q : α → DbgState → Prop) (s : DbgState) :
    wp (idx l i site) Q s ↔ ∃ a, l[i]? = some a ∧ Q a s := by
  unfold idx
  cases l[i]? <;> simp

@[simp] theorem wp_sliceFrom {α : Type} (l : List α) (i : Nat) (site : String) (Q : List α → DbgState → Prop)
    (s : DbgState) : wp (sliceFrom l i site) Q s ↔ (i ≤ l.length ∧ Q (l.drop i) s) := by
  unfold sliceFrom
  split <;> simp [*]

@[simp] theorem wp_sliceTo {α : Type} (l : List α) (n : Int) (site : String) (Q : List α → DbgState → Prop)
    (s : DbgState) : wp (sliceTo l n site) Q s ↔ ((0 ≤ n ∧ n ≤ l.length) ∧ Q (l.take n.toNat) s) := by
  unfold sliceTo
  split <;> simp [*]

@[simp] theorem wp_locked {α : Type} (body : M α) (Q : α → DbgState → Prop) (s : DbgState) :
    wp (locked body) Q s ↔
      (s.lock = 0 ∧ wp body (fun a s' => Q a { s' with lock := s'.lock - 1 }) { s with lock := 1 }) := by
  simp only [wp, locked]
  by_cases h : s.lock = 0
  · simp only [h, ne_eq, not_true_eq_false, ↓reduceIte, true_and]
    cases body { s with lock := 1 } <;> simp
  · simp [h]

theorem wp_ite {α : Type} (c : Prop) [Decidable c] (a b : M α) (Q : α → DbgState → Prop) (s : DbgState) :
    wp (if c then a else b) Q s ↔ ((c → wp a Q s) ∧ (¬ c → wp b Q s)) := by
  split <;> simp [*]

theorem mem_of_lookup {β : Type} {l : List (Nat × β)} {k : Nat} {v : β} (h : l.lookup k = some v) :
    (k, v) ∈ l := by
  induction l with
  | nil => simp at h
  | cons p rest ih =>
    obtain ⟨k', v'⟩ := p
    simp only [List.lookup] at h
    split at h
    · rename_i heq
      simp at heq
      simp_all
    · exact List.mem_cons_of_mem _ (ih h)

theorem mem_put {β : Type} {k : Nat} {v : β} {l : List (Nat × β)} {p : Nat × β} (h : p ∈ put k v l) :
    p = (k, v) ∨ p ∈ l := by
  simp only [put, List.mem_cons, List.mem_filter] at h
  rcases h with h | h
  · exact Or.inl h
  · exact Or.inr h.1

theorem mem_del {β : Type} {k : Nat} {l : List (Nat × β)} {p : Nat × β} (h : p ∈ del k l) : p ∈ l := by
  simp only [del, List.mem_filter] at h
  exact h.1

theorem stacks_all_of_inv {s : DbgState} (h : Inv0 s) :
    (s.stacks.all fun p => p.2.all fun f => f.nonNil && f.hasToken) = true := by
  simp only [List.all_eq_true, Bool.and_eq_true]
  intro p hp f hf
  exact h.1 p hp f hf

theorem istates_put {s : DbgState} (h : Inv0 s) {tid : Nat} {is : Interro} (hg : IGood is) :
    ∀ p ∈ put tid is s.istates, IGood p.2 := by
  intro p hp
  rcases mem_put hp with rfl | hp
  · exact hg
  · exact h.2 p hp

theorem Inv0.of_eq {s s' : DbgState} (hi : Inv0 s) (h1 : s'.stacks = s.stacks) (h2 : s'.istates = s.istates) :
    Inv0 s' := by
  unfold Inv0; rw [h1, h2]; exact hi

theorem Inv0.put_istate {s s' : DbgState} (hi : Inv0 s) (h1 : s'.stacks = s.stacks) {tid : Nat} {is : Interro}
    (hg : IGood is) (h2 : s'.istates = put tid is s.istates) : Inv0 s' := by
  unfold Inv0; rw [h1, h2]; exact ⟨hi.1, istates_put hi hg⟩

/-- closes a leaf of a safety proof: the state differs from one satisfying `Inv0` in fields the invariant ignores -/
macro "leaf" hi:ident : tactic =>
  `(tactic| ((try simp only [wp_bind, wp_modS, wp_pure, wp_getS]); exact And.intro (Inv0.of_eq $hi rfl rfl) rfl))

end Ecal.DebugCmd
