import Ecal.Model.GoPrim
/-!
C06 — the guards are what keeps Go's primitives from panicking, and the evaluator model that is compared
with Go on every run is "guard, then primitive" at these places.  Per site of `Ecal.GoPrim.Site`:
refinement (the `Ecal.Ev` expression equals the site), sufficiency (no panic for all operands),
necessity (the unguarded variant panics on the input of the repaired defect).
-/
namespace Ecal.Lemmas.C06Guards
open Ecal.Ev Ecal.GoPrim

def noPanic {α : Type} (x : R α) : Prop := ∀ e, x = .error e → e ≠ Sig.panic

theorem plain_ne_panic (m : String) : plain m ≠ Sig.panic := by simp [plain]

/-! ### sufficiency of the guards -/

theorem index_ok (xs : List Val) (i : Int) (h : 0 ≤ i ∧ i < xs.length) : index xs i = .ok (xs.getD i.toNat Val.null) := by
  simp [index, h]
theorem setIndex_ok (xs : List Val) (i : Int) (v : Val) (h : 0 ≤ i ∧ i < xs.length) : setIndex xs i v = .ok (xs.set i.toNat v) := by
  simp [setIndex, h]
theorem slice_ok (b : List Val) (lo hi : Int) (h : 0 ≤ lo ∧ lo ≤ hi ∧ hi ≤ b.length) :
    slice b lo hi = .ok ((b.take hi.toNat).drop lo.toNat) := by
  simp [slice, h]

theorem listRead_noPanic (xs : List Val) (fld : List Nat) : noPanic (Site.listRead xs fld) := by
  intro e he
  unfold Site.listRead at he
  split at he
  · cases he; exact plain_ne_panic _
  · dsimp only [] at he
    split at he
    · next h => rw [index_ok _ _ h] at he; cases he
    · cases he; exact plain_ne_panic _

theorem listWrite_noPanic (xs : List Val) (fld : List Nat) (v : Val) : noPanic (Site.listWrite xs fld v) := by
  intro e he
  unfold Site.listWrite at he
  split at he
  · cases he; exact plain_ne_panic _
  · dsimp only [] at he
    split at he
    · next h => rw [setIndex_ok _ _ _ h] at he; cases he
    · cases he; exact plain_ne_panic _

theorem del_eq (xs : List Val) (i : Int) :
    Site.del xs i = if i < 0 ∨ i ≥ xs.length then .error (plain "Out of bounds access to list")
      else .ok (xs.take i.toNat ++ xs.drop (i.toNat + 1)) := by
  unfold Site.del
  split
  · rfl
  · next h =>
    have h1 : 0 ≤ i := by omega
    have h2 : i < xs.length := by omega
    rw [slice_ok xs 0 i ⟨by omega, h1, by omega⟩]
    rw [slice_ok xs (i + 1) xs.length ⟨by omega, by omega, by omega⟩]
    have e1 : (i + 1).toNat = i.toNat + 1 := by omega
    simp [bind, Except.bind, pure, Except.pure, e1]

theorem del_noPanic (xs : List Val) (i : Int) : noPanic (Site.del xs i) := by
  intro e he
  rw [del_eq xs i] at he
  split at he
  · cases he; exact plain_ne_panic _
  · cases he

theorem insert_eq (xs : List Val) (v : Val) (i : Int) :
    Site.insert xs v i = if i < 0 ∨ i > xs.length then .error (plain "Out of bounds access to list")
      else .ok (xs.take i.toNat ++ [v] ++ xs.drop i.toNat) := by
  unfold Site.insert
  split
  · rfl
  · next h =>
    have h1 : 0 ≤ i := by omega
    have h2 : i ≤ xs.length := by omega
    rw [slice_ok xs 0 i ⟨by omega, h1, by omega⟩]
    rw [slice_ok xs i xs.length ⟨h1, by omega, by omega⟩]
    simp [bind, Except.bind, pure, Except.pure]

theorem insert_noPanic (xs : List Val) (v : Val) (i : Int) : noPanic (Site.insert xs v i) := by
  intro e he
  rw [insert_eq xs v i] at he
  split at he
  · cases he; exact plain_ne_panic _
  · cases he

theorem mapLit_noPanic (kvs : List (Val × Val)) (k v : Val) (err : Sig) (herr : err ≠ Sig.panic) :
    noPanic (Site.mapLit kvs k v err) := by
  intro e he
  unfold Site.mapLit GoPrim.mapStore at he
  cases hk : hashable k <;> simp [hk] at he
  · cases he; exact herr

theorem modint_noPanic (a b : Int) (err : Sig) (herr : err ≠ Sig.panic) : noPanic (Site.modint a b err) := by
  intro e he
  unfold Site.modint intMod at he
  by_cases hb : b = 0 <;> simp [hb] at he
  · cases he; exact herr

theorem valuesEqual_noPanic (a b : Val) (deep : Bool) : noPanic (Site.valuesEqual a b deep) := by
  intro e he
  unfold Site.valuesEqual ifaceEq at he
  cases hc : (sameDyn a b && uncomparable a) <;> simp [hc] at he

theorem numOperands_noPanic (a b : Val) (errA errB : Sig) (hA : errA ≠ Sig.panic) (hB : errB ≠ Sig.panic) :
    noPanic (Site.numOperands a b errA errB) := by
  intro e he
  unfold Site.numOperands at he
  cases a <;> cases b <;> simp [numOk, assertNum, bind, Except.bind, pure, Except.pure] at he <;>
    first | (cases he; assumption) | skip

/-! ### refinement: the evaluator model uses exactly these sites -/

/-- `containerGet` / `containerWalk`, list branch: `let i ← listIndex fld l; pure (backing.getD i null)` -/
theorem listRead_refines (fld : List Nat) (b : List Val) (l : Nat) (hl : l ≤ b.length) (s : St) :
    ((do let i ← listIndex fld l; pure (b.getD i Val.null) : M Val).run.run s) = (Site.listRead (b.take l) fld, s) := by
  have hlen : (b.take l).length = l := by simp [List.length_take]; omega
  unfold listIndex Site.listRead Site.adjust
  cases atoi fld with
  | none => rfl
  | some i =>
    simp only [hlen]
    generalize (if i < 0 then i + (l : Int) else i) = j
    by_cases h : 0 ≤ j ∧ j < l
    · have hi : j.toNat < l := by omega
      have hg : (b.take l).getD j.toNat Val.null = b.getD j.toNat Val.null := by
        simp [List.getD_eq_getElem?_getD, List.getElem?_take, hi]
      have hib : j.toNat < b.length := by omega
      simp [h.1, h.2, index, hlen, hg]
      simp [List.getElem?_eq_getElem hib]
      rfl
    · have hb : (decide (0 ≤ j) && decide (j < (l : Int))) = false := by
        rcases Classical.not_and_iff_not_or_not.mp h with h' | h' <;> simp [h']
      simp [hb, h]
      rfl

/-- `evalMap`: `if !(hashable k) then throw err …; kvs := mapStore kvs k v` -/
theorem mapLit_refines (kvs : List (Val × Val)) (k v : Val) (err : Sig) :
    Site.mapLit kvs k v err = if !(hashable k) then .error err else .ok (Ecal.Ev.mapStore kvs k v) := by
  unfold Site.mapLit GoPrim.mapStore
  cases hashable k <;> simp

/-- `modint`: `if yi = 0 then throw err else pure (xi.tmod yi)` -/
theorem modint_refines (a b : Int) (err : Sig) :
    Site.modint a b err = if b = 0 then .error err else .ok (a.tmod b) := by
  unfold Site.modint intMod
  by_cases h : b = 0 <;> simp [h]

/-- `numOp`: the operand match of the model -/
theorem numOperands_refines (a b : Val) (errA errB : Sig) :
    Site.numOperands a b errA errB =
      (match a, b with
       | .num x, .num y => .ok (x, y)
       | .num _, _ => .error errB
       | _, _ => .error errA) := by
  cases a <;> cases b <;> rfl

/-- `delAt` (after 4ad50aa): a NEW list holding `Site.del`'s result on the slice's elements — `xs.take i ++ xs.drop (i+1)`
    with `xs = (backing r).take l` — no existing backing array is written -/
theorem delAt_backing (r l i : Nat) (s : St) :
    (delAt r l i).run.run s =
      (.ok (Val.list s.lists.size (List.take i (List.take l (s.lists.getD r [])) ++ List.drop (i + 1) (List.take l (s.lists.getD r []))).length),
       { s with lists := s.lists.push (List.take i (List.take l (s.lists.getD r [])) ++ List.drop (i + 1) (List.take l (s.lists.getD r []))) }) := rfl

/-- `insertAt` (after 4ad50aa): a NEW list holding `Site.insert`'s result `xs.take i ++ [v] ++ xs.drop i` -/
theorem insertAt_backing (r l : Nat) (v : Val) (i : Nat) (s : St) :
    (insertAt r l v i).run.run s =
      (.ok (Val.list s.lists.size (List.take i (List.take l (s.lists.getD r [])) ++ [v] ++ List.drop i (List.take l (s.lists.getD r []))).length),
       { s with lists := s.lists.push (List.take i (List.take l (s.lists.getD r [])) ++ [v] ++ List.drop i (List.take l (s.lists.getD r []))) }) := rfl

/-- `goEq` on operands that Go's `==` can compare (no opaque model value): the comparable branch of valuesEqual -/
theorem valuesEqual_refines (a b : Val) (deep : Bool) (h : (sameDyn a b && uncomparable a) = false) :
    Site.valuesEqual a b deep = .ok (keyEq a b) := by
  unfold Site.valuesEqual ifaceEq
  simp [h]

/-! ### necessity: the code before ee44ab4 (unguarded variants) panics on the inputs of the defects -/

/-- `a := [1]; a[-5]` -/
theorem witness_listRead : Site.listReadUnguarded [Val.null] [45, 53] = .error Sig.panic := by rfl
/-- `a := [1]; a[-5] := 2` -/
theorem witness_listWrite : Site.listWriteUnguarded [Val.null] [45, 53] Val.null = .error Sig.panic := by rfl
/-- `del([1], 5)`: the current code without its bounds test, and the in-place code before ee44ab4 -/
theorem witness_del : Site.delUnguarded [Val.null] 5 = .error Sig.panic := by rfl
theorem witness_del_old : Site.delOldUnguarded [Val.null] 1 5 = .error Sig.panic := by rfl
/-- `add([1], 2, 7)`: the current code without its bounds test, and the in-place code before ee44ab4 (two elements after the append) -/
theorem witness_insert : Site.insertUnguarded [Val.null] Val.null 7 = .error Sig.panic := by rfl
theorem witness_insert_old : Site.insertOldUnguarded [Val.null, Val.null] Val.null 7 = .error Sig.panic := by rfl
/-- `{[1]:2}` -/
theorem witness_mapLit : Site.mapLitUnguarded [] (Val.list 1 1) Val.null = .error Sig.panic := by rfl
/-- `5 % 0` -/
theorem witness_modint : Site.modintUnguarded 5 0 = .error Sig.panic := by rfl
/-- `[1] == [1]` -/
theorem witness_valuesEqual : Site.valuesEqualUnguarded (Val.list 1 1) (Val.list 2 1) = .error Sig.panic := by rfl
/-- `1 + "a"` with an unchecked assertion -/
theorem witness_numOperands : Site.numOperandsUnguarded (Val.num 1) (Val.str []) = .error Sig.panic := by rfl

end Ecal.Lemmas.C06Guards
