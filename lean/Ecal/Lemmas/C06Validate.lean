import Ecal.Model.ValidateS
import Ecal.Lemmas.C06Bridge
/-! C06 — `validateS` never panics on a strictly well-formed tree (every tree the parser returns). -/
namespace Ecal.Lemmas.C06
open Ecal.ValidateS Ecal.Parse Ecal.Ev

abbrev ESig := Ecal.Ev.Sig

theorem ok_bind {α β : Type} (a : α) (f : α → Except ESig β) : (Except.ok a >>= f) = f a := rfl

theorem allIdent_en (err : ESig) (herr : err ≠ Ecal.Ev.Sig.panic) (b : Bool) : ∀ (kids : List Node), EN (allIdent err b (kids.map some))
  | [] => EN.ok _
  | c :: r => by
    simp only [List.map_cons, allIdent]
    split
    · exact EN.error _ herr
    · exact allIdent_en err herr b r

theorem kidsV_en (f : Node → Except ESig Unit) : ∀ (kids : List Node), (∀ c, c ∈ kids → EN (f c)) → EN (kidsV f (kids.map some))
  | [], _ => EN.ok _
  | c :: r, h => by
    simp only [List.map_cons, kidsV]
    exact EN.bind _ _ (h c (by simp)) (fun _ => kidsV_en f r (fun d hd => h d (by simp [hd])))

theorem target_en (err : ESig) (herr : err ≠ Ecal.Ev.Sig.panic) (l : Node) (hl : WellFormedS l = true) : EN (target err l) := by
  obtain ⟨kids, hc, _, _, _⟩ := wf_kids l hl
  unfold target
  split
  · exact EN.ok _
  · split
    · rw [hc]; exact allIdent_en err herr false kids
    · exact EN.error _ herr

/-- children of a well-formed node of a kind with a fixed number of operands -/
theorem wf_children1 (n : Node) (h : WellFormedS n = true) (hk : kindOf n.name = .prefix1) :
    ∃ a : Node, n.children = [some a] ∧ WellFormedS a = true := by
  obtain ⟨kids, hc, hw, _, hsh⟩ := wf_kids n h
  simp only [shapeOkS, hk, Bool.and_eq_true, decide_eq_true_eq, List.length_map] at hsh
  obtain ⟨a, rfl⟩ := len1 hsh.1
  exact ⟨a, hc, hw a (by simp)⟩

theorem wf_children2 (n : Node) (h : WellFormedS n = true) (hk : kindOf n.name = .binary) :
    ∃ a b : Node, n.children = [some a, some b] ∧ WellFormedS a = true ∧ WellFormedS b = true := by
  obtain ⟨kids, hc, hw, _, hsh⟩ := wf_kids n h
  simp only [shapeOkS, hk, Bool.and_eq_true, decide_eq_true_eq, List.length_map] at hsh
  obtain ⟨a, b, rfl⟩ := len2 hsh.1
  exact ⟨a, b, hc, hw a (by simp), hw b (by simp)⟩

theorem wf_childrenLoop (n : Node) (h : WellFormedS n = true) (hn : n.name = "loop") :
    ∃ c0 body : Node, n.children = [some c0, some body] ∧ WellFormedS c0 = true := by
  obtain ⟨kids, hc, hw, _, hsh⟩ := wf_kids n h
  rw [hn] at hsh
  simp only [shapeOkS, show kindOf "loop" = Kind.loop from by decide] at hsh
  match kids, hsh, hc, hw with
  | [c0, body], _, hc, hw => exact ⟨c0, body, hc, hw c0 (by simp)⟩

theorem child0_cons (n a : Node) (r : List (Option Node)) (h : n.children = some a :: r) : child0 n = .ok a := by
  simp [child0, h]

theorem own_en (n : Node) (h : WellFormedS n = true) : EN (own n) := by
  unfold own
  split
  · exact EN.error _ (rtErr_ne_panic _ _)
  · split
    · rename_i hn
      obtain ⟨a, b, hc, hwa, _⟩ := wf_children2 n h (by rw [hn]; decide)
      rw [child0_cons n a _ hc, ok_bind]
      try dsimp only []
      by_cases hlet : a.name = "let"
      · obtain ⟨x, hxc, hwx⟩ := wf_children1 a hwa (by rw [hlet]; decide)
        simp only [hlet, beq_self_eq_true, if_true, child0_cons a x _ hxc, ok_bind]
        exact target_en _ (rtErr_ne_panic _ _) x hwx
      · have : (a.name == "let") = false := by simpa using hlet
        simp only [this, Bool.false_eq_true, if_false]
        exact target_en _ (rtErr_ne_panic _ _) a hwa
    · split
      · rename_i hn
        obtain ⟨a, hc, hwa⟩ := wf_children1 n h (by rw [hn]; decide)
        rw [child0_cons n a _ hc, ok_bind]
        exact target_en _ (rtErr_ne_panic _ _) a hwa
      · split
        · rename_i hn
          obtain ⟨c0, body, hc, hw0⟩ := wf_childrenLoop n h hn
          rw [child0_cons n c0 _ hc, ok_bind]
          try dsimp only []
          split
          · rename_i hin
            have hin' : c0.name = "in" := by simpa using hin
            obtain ⟨iv, it, hcc, hwiv, _⟩ := wf_children2 c0 hw0 (by rw [hin']; decide)
            rw [child0_cons c0 iv _ hcc, ok_bind]
            try dsimp only []
            obtain ⟨ik, hik, _, _, _⟩ := wf_kids iv hwiv
            split
            · split
              · exact EN.error _ (rtErr_ne_panic _ _)
              · exact EN.ok _
            · split
              · rw [hik]; exact allIdent_en _ (rtErr_ne_panic _ _) true ik
              · exact EN.ok _
          · exact EN.ok _
        · split
          · exact EN.error _ (by simp)
          · exact EN.ok _

/-- **validate_never_panics.** On every strictly well-formed tree — every tree the parser returns — the validation
    the driver runs (`validateS`, the structural twin of the shared model's `validate`) ends in a value or an error,
    never in a Go panic: every child it recurses into exists, and the children it indexes (`:=`, `let`, `loop`, the
    `in` of a loop) are there. -/
theorem validateS_no_panic : ∀ (k : Nat) (n : Node), WellFormedS n = true → EN (validateS k n) := by
  intro k; induction k with
  | zero => intro n _; exact EN.error _ (by simp)
  | succ k ih =>
    intro n h
    obtain ⟨kids, hc, hw, _, _⟩ := wf_kids n h
    unfold validateS
    rw [hc]
    exact EN.bind _ _ (kidsV_en _ kids (fun c hc' => ih c (hw c hc'))) (fun _ => own_en n h)

end Ecal.Lemmas.C06
