import Ecal.Model.Lexer
import Ecal.Model.LexerSpec
/-!
Helper lemmas for C18: what one `L.next` consumes, and how `nlBefore` / `lineStart` move over
a stretch of bytes.
-/
namespace Ecal.Lex
open Ecal.Lex.Spec

/-- no newline byte in `[a, b)` -/
def NoNl (inp : Bytes) (a b : Nat) : Prop := ∀ j, a ≤ j → j < b → inp.getD j 0 ≠ 10

theorem noNl_empty (inp : Bytes) (a : Nat) : NoNl inp a a := by
  intro j h1 h2; omega

theorem noNl_trans {inp : Bytes} {a b c : Nat} (h1 : NoNl inp a b) (h2 : NoNl inp b c) : NoNl inp a c := by
  intro j ha hc
  by_cases h : j < b
  · exact h1 j ha h
  · exact h2 j (by omega) hc

theorem noNl_mono {inp : Bytes} {a b b' : Nat} (h : NoNl inp a b) (hb : b' ≤ b) : NoNl inp a b' := by
  intro j ha hc; exact h j ha (by omega)

/-- over a stretch without newline neither the line number nor the line start moves -/
theorem nlBefore_noNl (inp : Bytes) (a : Nat) : ∀ n, NoNl inp a (a + n) →
    nlBefore inp (a + n) = nlBefore inp a ∧ lineStart inp (a + n) = lineStart inp a
  | 0, _ => by simp
  | n+1, h => by
    have hn : inp.getD (a + n) 0 ≠ 10 := h (a + n) (by omega) (by omega)
    have ih := nlBefore_noNl inp a n (noNl_mono h (by omega))
    rw [← Nat.add_assoc]
    simp only [nlBefore, lineStart, hn, if_false]
    simpa using ih

theorem nlBefore_noNl' {inp : Bytes} {a b : Nat} (hab : a ≤ b) (h : NoNl inp a b) :
    nlBefore inp b = nlBefore inp a ∧ lineStart inp b = lineStart inp a := by
  obtain ⟨n, rfl⟩ := Nat.exists_eq_add_of_le hab
  exact nlBefore_noNl inp a n h

/-- the line start never lies behind the offset -/
theorem lineStart_le (inp : Bytes) : ∀ n, lineStart inp n ≤ n
  | 0 => by simp [lineStart]
  | n+1 => by
    simp only [lineStart]
    split
    · omega
    · have := lineStart_le inp n; omega

/-- What one UTF-8 decoding step tells about the bytes it covers: at least one byte and not more
    than exist; an ASCII result (in particular `'\n'`) is the single byte itself; any other result
    covers only bytes ≥ 0x80 (so no newline byte). -/
theorem decodeBytes_spec (n c0 c1 c2 c3 : Nat) (hn : 1 ≤ n) (r w : Nat)
    (h : decodeBytes n c0 c1 c2 c3 = (r, w)) :
    1 ≤ w ∧ w ≤ n ∧ w ≤ 4 ∧ (r < 128 → w = 1 ∧ c0 = r) ∧
    (128 ≤ r → 128 ≤ c0 ∧ (2 ≤ w → 128 ≤ c1) ∧ (3 ≤ w → 128 ≤ c2) ∧ (4 ≤ w → 128 ≤ c3)) := by
  unfold decodeBytes at h
  simp only [runeError] at h
  repeat' split at h
  all_goals (simp only [Prod.mk.injEq] at h; obtain ⟨rfl, rfl⟩ := h)
  all_goals (simp only [Bool.and_eq_true, decide_eq_true_eq, ge_iff_le] at *)
  all_goals first | omega | exact ⟨by omega, by omega, by omega, fun _ => by simp, fun _ => by omega⟩

end Ecal.Lex
