import Ecal.Model.Eval
/-!
The byte order `bytesLt` (order of map keys in `for [k, v] in map`): asymmetric, and "not greater" is
transitive — the two facts `sortBy_sorted` asks for.
-/
namespace Ecal.Ev

theorem bytesLt_asym : ∀ (a b : List Nat), bytesLt a b = true → bytesLt b a = false
  | [], [], h => by simp [bytesLt] at h
  | [], _ :: _, _ => by simp [bytesLt]
  | _ :: _, [], h => by simp [bytesLt] at h
  | x :: xs, y :: ys, h => by
    unfold bytesLt at h ⊢
    by_cases h1 : x < y
    · have : ¬ y < x := by omega
      simp [this, h1]
    · by_cases h2 : y < x
      · simp [h1, h2] at h
      · simp only [h1, h2, if_false] at h ⊢
        exact bytesLt_asym xs ys h

/-- `a ≤ b` (i.e. `¬ b < a`) is transitive -/
theorem bytesLt_le_trans : ∀ (a b c : List Nat), bytesLt b a = false → bytesLt c b = false → bytesLt c a = false
  | [], _, [], _, _ => by simp [bytesLt]
  | [], _, _ :: _, _, _ => by simp [bytesLt]
  | _ :: _, [], _, h1, _ => by simp [bytesLt] at h1
  | _ :: _, _ :: _, [], _, h2 => by simp [bytesLt] at h2
  | x :: xs, y :: ys, z :: zs, h1, h2 => by
    unfold bytesLt at h1 h2 ⊢
    by_cases hyx : y < x
    · simp [hyx] at h1
    · by_cases hxy : x < y
      · -- x < y ≤ z
        by_cases hzy : z < y
        · simp [hzy] at h2
        · have : ¬ z < x := by omega
          have hxz : x < z := by omega
          simp [this, hxz]
      · -- x = y
        simp only [hyx, hxy, if_false] at h1
        by_cases hzy : z < y
        · simp [hzy] at h2
        · by_cases hyz : y < z
          · have : ¬ z < x := by omega
            have hxz : x < z := by omega
            simp [this, hxz]
          · simp only [hzy, hyz, if_false] at h2
            have h3 : ¬ z < x := by omega
            have h4 : ¬ x < z := by omega
            simp only [h3, h4, if_false]
            exact bytesLt_le_trans xs ys zs h1 h2

end Ecal.Ev
