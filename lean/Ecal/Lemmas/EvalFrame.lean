import Ecal.Lemmas.EvalScope
/-!
The frame construction of `function.Run` (`Ecal.Obj.callFrame`: new root scope, `this` / `super`, the
parameters, then the link to the declaration scope) writes into its own fresh scope only.
-/
namespace Ecal.Obj
open Ecal.Ev

/-- a write of a plain name into a scope WITHOUT parent goes into that scope, whatever other scopes hold -/
theorem setValue_parentless (n : Nat) (name vb : List Nat) (x : Val) (s : St) (hn : splitDots name = [vb])
    (hp : (s.scope n).parent = none) :
    runM (setValue n name x) s = (.ok (), s.withVar n (bytesToString vb) x) := by
  rw [setValue_plain n name vb x s hn, show (10000 : Nat) = 9999 + 1 from rfl, scopeFor_succ]
  by_cases hd : s.defines n (bytesToString vb) = true
  · simp only [hd, if_true]
  · simp only [hd, Bool.false_eq_true, if_false, hp]

/-- invariant while a frame `n` is being filled: it is in bounds and parentless, scope `t` is as in `st` -/
def FrameInv (st : St) (n t : Nat) (s : St) : Prop :=
  n < s.scopes.size ∧ s.scope t = st.scope t ∧ (s.scope n).parent = none

theorem frameInv_withVar (st : St) (n t : Nat) (s : St) (v : String) (x : Val) (htn : t ≠ n)
    (h : FrameInv st n t s) : FrameInv st n t (s.withVar n v x) := by
  obtain ⟨h1, h2, h3⟩ := h
  refine ⟨by rw [(withVar_heap s n v x).2.2]; exact h1, ?_, ?_⟩
  · rw [withVar_scope_other s n t v x htn]; exact h2
  · rw [withVar_scope_same s n v x h1]; exact h3

def PlainName (name : List Nat) : Prop := splitDots name = [name]

theorem setAll_inv (st : St) (n t : Nat) (htn : t ≠ n) : ∀ (l : List (List Nat × Val)) (s : St),
    (∀ p ∈ l, PlainName p.1) → FrameInv st n t s →
    ∃ s', runM (setAll n l) s = (.ok (), s') ∧ FrameInv st n t s' := by
  intro l
  induction l with
  | nil => intro s _ h; exact ⟨s, rfl, h⟩
  | cons p rest ih =>
    intro s hpl h
    obtain ⟨nm, v⟩ := p
    have hp : splitDots nm = [nm] := hpl (nm, v) (by simp)
    have := ih (s.withVar n (bytesToString nm) v) (fun q hq => hpl q (by simp [hq]))
      (frameInv_withVar st n t s _ v htn h)
    obtain ⟨s', hs', hi'⟩ := this
    refine ⟨s', ?_, hi'⟩
    simp only [setAll]
    rw [runM_bind, setValue_parentless n nm nm v s hp h.2.2]
    exact hs'

/-- what evaluating a default expression may do: anything except shrinking the scope table or touching
    scope `t` / the unlinked frame `n` (nothing can reach the frame: it is a root nobody holds yet) -/
def DefaultKeeps (ev : Ecal.Parse.Node → M Val) (n t : Nat) : Prop :=
  ∀ d s r s1, runM (ev d) s = (r, s1) → s.scopes.size ≤ s1.scopes.size ∧ s1.scope t = s.scope t ∧ s1.scope n = s.scope n

theorem paramValue_inv (st : St) (ev : Ecal.Parse.Node → M Val) (n t : Nat) (hev : DefaultKeeps ev n t)
    (p : Param) (i : Nat) (args : List Val) (s s1 : St) (r : Except Sig Val)
    (h : FrameInv st n t s) (hr : runM (paramValue ev p i args) s = (r, s1)) : FrameInv st n t s1 := by
  unfold paramValue at hr
  cases ha : args[i]? with
  | some a => simp only [ha, runM_pure] at hr; injection hr with _ h2; rw [← h2]; exact h
  | none =>
    simp only [ha] at hr
    cases hd : p.dflt with
    | none => simp only [hd, runM_pure] at hr; injection hr with _ h2; rw [← h2]; exact h
    | some d =>
      simp only [hd] at hr
      obtain ⟨k1, k2, k3⟩ := hev d s r s1 hr
      exact ⟨Nat.lt_of_lt_of_le h.1 k1, by rw [k2]; exact h.2.1, by rw [k3]; exact h.2.2⟩

theorem bindParams_inv (st : St) (ev : Ecal.Parse.Node → M Val) (n t : Nat) (htn : t ≠ n) (hev : DefaultKeeps ev n t)
    (args : List Val) : ∀ (ps : List Param) (i : Nat) (s s' : St) (r : Except Sig Unit),
    (∀ p ∈ ps, PlainName p.name) → FrameInv st n t s → runM (bindParams ev n ps i args) s = (r, s') →
    FrameInv st n t s' := by
  intro ps
  induction ps with
  | nil => intro i s s' r _ h hr; simp only [bindParams, runM_pure] at hr; injection hr with _ h2; rw [← h2]; exact h
  | cons p rest ih =>
    intro i s s' r hpl h hr
    simp only [bindParams] at hr
    rw [runM_bind] at hr
    cases hv : runM (paramValue ev p i args) s with
    | mk rv s1 =>
      have hi1 := paramValue_inv st ev n t hev p i args s s1 rv h hv
      rw [hv] at hr
      cases rv with
      | error e => simp only at hr; injection hr with _ h2; rw [← h2]; exact hi1
      | ok v =>
        simp only at hr
        rw [runM_bind, setValue_parentless n p.name p.name v s1 (hpl p (by simp)) hi1.2.2] at hr
        simp only at hr
        exact ih (i + 1) _ s' r (fun q hq => hpl q (by simp [hq])) (frameInv_withVar st n t s1 _ v htn hi1) hr

theorem plain_this : PlainName thisName := by unfold PlainName; decide
theorem plain_super : PlainName superName := by unfold PlainName; decide

theorem contextVars_plain (this super : Option Val) : ∀ p ∈ contextVars this super, PlainName p.1 := by
  intro p hp
  unfold contextVars at hp
  cases this <;> cases super <;> simp at hp
  · subst hp; exact plain_super
  · subst hp; exact plain_this
  · rcases hp with h | h <;> subst h
    · exact plain_this
    · exact plain_super

/-- A call builds its frame without writing any existing scope: whatever the outcome (also when a
    default raises an error), every scope `t` that existed before is as it was — provided evaluating the
    default expressions leaves `t` (and the still unreachable frame) alone.  In particular `this`, `super`
    and the parameters never overwrite variables of the same names in enclosing frames. -/
theorem callFrame_keeps_existing (ev : Ecal.Parse.Node → M Val) (name : String) (ds : Nat) (this super : Option Val)
    (params : List Param) (args : List Val) (st st' : St) (r : Except Sig Nat) (t : Nat)
    (ht : t < st.scopes.size) (hpl : ∀ p ∈ params, PlainName p.name)
    (hev : DefaultKeeps ev st.scopes.size t)
    (h : runM (callFrame ev name ds this super params args) st = (r, st')) :
    st'.scope t = st.scope t := by
  have htn : t ≠ st.scopes.size := Nat.ne_of_lt ht
  unfold callFrame at h
  rw [runM_bind, newScope_run] at h
  simp only at h
  have h0 : FrameInv st st.scopes.size t
      { st with scopes := st.scopes.push { name := s!"func: {name}", parent := none, children := [], vars := [] } } := by
    refine ⟨by simp, ?_, ?_⟩
    · simp [St.scope, Array.getElem?_push, htn, ht]
    · simp [St.scope]
  obtain ⟨s1, hs1, hi1⟩ := setAll_inv st st.scopes.size t htn (contextVars this super) _ (contextVars_plain this super) h0
  rw [runM_bind, hs1] at h
  simp only at h
  rw [runM_bind] at h
  cases hb : runM (bindParams ev st.scopes.size params 0 args) s1 with
  | mk rb s2 =>
    have hi2 := bindParams_inv st ev st.scopes.size t htn hev args params 0 s1 s2 rb hpl hi1 hb
    rw [hb] at h
    cases rb with
    | error e => simp only at h; injection h with _ h2; rw [← h2]; exact hi2.2.1
    | ok u =>
      simp only at h
      rw [runM_bind, getScope_run] at h
      simp only at h
      rw [runM_bind, setScope_run] at h
      simp only [runM_pure] at h
      injection h with _ h2
      rw [← h2]
      simp only [St.scope, Array.getD_eq_getD_getElem?]
      rw [Array.getElem?_setIfInBounds_ne (Ne.symm htn)]
      have := hi2.2.1
      simpa [St.scope] using this

end Ecal.Obj
