import Ecal.Lemmas.EvalScope
/-!
The frame construction of `function.Run` — `Ecal.Ev.buildFrame` / `bindParamNodes` / `bindParamNode`, which
`runFunction` calls: new root scope, `this` / `super`, the parameters, then the link to the declaration scope.
It writes into its own fresh scope only, and that scope holds nothing but `this`, `super` and the parameters.
-/
namespace Ecal.Ev
open Ecal.Parse (Node)

/-- a write of a plain name into a scope WITHOUT parent goes into that scope, whatever other scopes hold -/
theorem setValue_parentless (n : Nat) (name vb : List Nat) (x : Val) (s : St) (hn : splitDots name = [vb])
    (hp : (s.scope n).parent = none) :
    runM (setValue n name x) s = (.ok (), s.withVar n (bytesToString vb) x) := by
  rw [setValue_plain n name vb x s hn, show (10000 : Nat) = 9999 + 1 from rfl, scopeFor_succ]
  by_cases hd : s.defines n (bytesToString vb) = true
  · simp only [hd, if_true]
  · simp only [hd, Bool.false_eq_true, if_false, hp]

def PlainName (name : List Nat) : Prop := splitDots name = [name]

/-- invariant while the frame `n` is being filled: it is in bounds and parentless, it defines only names
    allowed by `A`, and scope `t` is as in `st` -/
def FrameInv (st : St) (n t : Nat) (A : String → Prop) (s : St) : Prop :=
  n < s.scopes.size ∧ s.scope t = st.scope t ∧ (s.scope n).parent = none ∧ ∀ w, s.defines n w = true → A w

theorem updVars_defines (vars : List (String × Val)) (v w : String) (x : Val)
    (h : ((updVars vars v x).find? (·.1 == w)).isSome = true) : w = v ∨ (vars.find? (·.1 == w)).isSome = true := by
  by_cases hvw : (v == w) = true
  · left; exact (by simpa using hvw : v = w).symm
  · right
    have hvw' : (v == w) = false := by simpa using hvw
    have := updVars_find_other vars v w x hvw'
    have h2 : (((updVars vars v x).find? (·.1 == w)).map (·.2)).isSome = true := by simpa using h
    rw [this] at h2
    simpa using h2

theorem frameInv_withVar (st : St) (n t : Nat) (A : String → Prop) (s : St) (v : String) (x : Val) (htn : t ≠ n)
    (hA : A v) (h : FrameInv st n t A s) : FrameInv st n t A (s.withVar n v x) := by
  obtain ⟨h1, h2, h3, h4⟩ := h
  refine ⟨by rw [(withVar_heap s n v x).2.2]; exact h1, ?_, ?_, ?_⟩
  · rw [withVar_scope_other s n t v x htn]; exact h2
  · rw [withVar_scope_same s n v x h1]; exact h3
  · intro w hw
    simp only [St.defines, withVar_scope_same s n v x h1] at hw
    rcases updVars_defines _ v w x hw with e | e
    · rw [e]; exact hA
    · exact h4 w e

/-- what evaluating a default expression may do: anything except shrinking the scope table or touching
    scope `t` / the unlinked frame `n` (nothing can reach the frame: it is a root nobody holds yet) -/
def DefaultKeeps (ev : Node → M Val) (n t : Nat) : Prop :=
  ∀ d s r s1, runM (ev d) s = (r, s1) → s.scopes.size ≤ s1.scopes.size ∧ s1.scope t = s.scope t ∧ s1.scope n = s.scope n

theorem frameInv_default (st : St) (ev : Node → M Val) (n t : Nat) (A : String → Prop) (hev : DefaultKeeps ev n t)
    (d : Node) (s s1 : St) (r : Except Sig Val) (h : FrameInv st n t A s) (hr : runM (ev d) s = (r, s1)) :
    FrameInv st n t A s1 := by
  obtain ⟨k1, k2, k3⟩ := hev d s r s1 hr
  exact ⟨Nat.lt_of_lt_of_le h.1 k1, by rw [k2]; exact h.2.1, by rw [k3]; exact h.2.2.1,
    by intro w hw; apply h.2.2.2 w; simpa [St.defines, k3] using hw⟩

/-- the name a parameter node binds -/
def nodeParamName (p : Node) : Option (List Nat) :=
  if p.name == "identifier" then p.tok.map (·.val)
  else if p.name == "preset" then
    match p.children[0]? with
    | some (some c) => c.tok.map (·.val)
    | _ => none
  else none

/-- the parameter names are plain identifiers allowed by `A` -/
def NamesOk (A : String → Prop) (ps : List (Option Node)) : Prop :=
  ∀ p nm, some p ∈ ps → nodeParamName p = some nm → PlainName nm ∧ A (bytesToString nm)

theorem runM_tokOf (p : Node) (s : St) :
    runM (tokOf p) s = match p.tok with | some t => (.ok t, s) | none => (.error Sig.panic, s) := by
  unfold tokOf; cases p.tok <;> rfl

theorem runM_child (p : Node) (i : Nat) (s : St) :
    runM (child p i) s = match p.children[i]? with | some (some c) => (.ok c, s) | _ => (.error Sig.panic, s) := by
  unfold child
  cases h : p.children[i]? with
  | none => rfl
  | some o => cases o <;> rfl

/-- the parameter step preserves every invariant `I` of the frame under construction that implies "the frame has
    no parent", survives writes of the allowed names `W` into the frame, and survives default evaluation -/
theorem bindParamNode_gen (ev : Node → M Val) (n : Nat) (I : St → Prop) (W : String → Prop)
    (hpar : ∀ s, I s → (s.scope n).parent = none)
    (hwv : ∀ s v x, I s → W v → I (s.withVar n v x))
    (p : Node) (hdef : ∀ d, p.children[1]? = some (some d) → ∀ s r s1, I s → runM (ev d) s = (r, s1) → I s1)
    (i : Nat) (args : List Val) (s s' : St) (r : Except Sig Unit)
    (hnm : ∀ nm, nodeParamName p = some nm → PlainName nm ∧ W (bytesToString nm))
    (h : I s) (hr : runM (bindParamNode ev n p i args) s = (r, s')) : I s' := by
  unfold bindParamNode at hr
  by_cases hid : (p.name == "identifier") = true
  · simp only [hid, if_true] at hr
    rw [runM_bind, runM_tokOf] at hr
    cases htk : p.tok with
    | none => simp only [htk] at hr; injection hr with _ h2; rw [← h2]; exact h
    | some tk =>
      simp only [htk] at hr
      have hn := hnm tk.val (by simp [nodeParamName, hid, htk])
      rw [setValue_parentless n tk.val tk.val _ s hn.1 (hpar _ h)] at hr
      injection hr with _ h2; rw [← h2]
      exact hwv _ _ _ h hn.2
  · simp only [hid, Bool.false_eq_true, if_false] at hr
    by_cases hpre : (p.name == "preset") = true
    · simp only [hpre, if_true] at hr
      rw [runM_bind, runM_child] at hr
      cases hc : p.children[0]? with
      | none => simp only [hc] at hr; injection hr with _ h2; rw [← h2]; exact h
      | some o =>
        cases o with
        | none => simp only [hc] at hr; injection hr with _ h2; rw [← h2]; exact h
        | some c =>
          simp only [hc] at hr
          rw [runM_bind, runM_tokOf] at hr
          cases htk : c.tok with
          | none => simp only [htk] at hr; injection hr with _ h2; rw [← h2]; exact h
          | some tk =>
            simp only [htk] at hr
            have hn := hnm tk.val (by simp [nodeParamName, hid, hpre, hc, htk])
            rw [runM_bind] at hr
            by_cases hi : i < args.length
            · simp only [hi, if_true, runM_pure] at hr
              rw [setValue_parentless n tk.val tk.val _ s hn.1 (hpar _ h)] at hr
              injection hr with _ h2; rw [← h2]
              exact hwv _ _ _ h hn.2
            · simp only [hi, if_false] at hr
              rw [runM_bind, runM_child] at hr
              cases hc1 : p.children[1]? with
              | none => simp only [hc1] at hr; injection hr with _ h2; rw [← h2]; exact h
              | some o1 =>
                cases o1 with
                | none => simp only [hc1] at hr; injection hr with _ h2; rw [← h2]; exact h
                | some d =>
                  simp only [hc1] at hr
                  cases hv : runM (ev d) s with
                  | mk rv s1 =>
                    have hi1 := hdef d hc1 s rv s1 h hv
                    rw [hv] at hr
                    cases rv with
                    | error e => simp only at hr; injection hr with _ h2; rw [← h2]; exact hi1
                    | ok v =>
                      simp only at hr
                      rw [setValue_parentless n tk.val tk.val _ s1 hn.1 (hpar _ hi1)] at hr
                      injection hr with _ h2; rw [← h2]
                      exact hwv _ _ _ hi1 hn.2
    · simp only [hpre, Bool.false_eq_true, if_false, runM_pure] at hr
      injection hr with _ h2; rw [← h2]; exact h


theorem bindParamNodes_gen (ev : Node → M Val) (n : Nat) (I : St → Prop) (W : String → Prop)
    (hpar : ∀ s, I s → (s.scope n).parent = none)
    (hwv : ∀ s v x, I s → W v → I (s.withVar n v x))
    (args : List Val) : ∀ (ps : List (Option Node)) (i : Nat) (s s' : St) (r : Except Sig Unit),
    (∀ p d, some p ∈ ps → p.children[1]? = some (some d) → ∀ s r s1, I s → runM (ev d) s = (r, s1) → I s1) →
    (∀ p nm, some p ∈ ps → nodeParamName p = some nm → PlainName nm ∧ W (bytesToString nm)) → I s →
    runM (bindParamNodes ev n ps i args) s = (r, s') → I s' := by
  intro ps
  induction ps with
  | nil => intro i s s' r _ _ h hr; simp only [bindParamNodes, runM_pure] at hr; injection hr with _ h2; rw [← h2]; exact h
  | cons o rest ih =>
    intro i s s' r hdef hok h hr
    cases o with
    | none => simp only [bindParamNodes, runM_throw] at hr; injection hr with _ h2; rw [← h2]; exact h
    | some p =>
      simp only [bindParamNodes] at hr
      rw [runM_bind] at hr
      cases hb : runM (bindParamNode ev n p i args) s with
      | mk rb s1 =>
        have hi1 := bindParamNode_gen ev n I W hpar hwv p (fun d hd => hdef p d (by simp) hd) i args s s1 rb (fun nm hnm => hok p nm (by simp) hnm) h hb
        rw [hb] at hr
        cases rb with
        | error e => simp only at hr; injection hr with _ h2; rw [← h2]; exact hi1
        | ok u =>
          simp only at hr
          exact ih (i + 1) s1 s' r (fun q d hq hd => hdef q d (by simp [hq]) hd) (fun q nm hq hnm => hok q nm (by simp [hq]) hnm) hi1 hr

theorem bindContext_gen (n : Nat) (I : St → Prop) (W : String → Prop)
    (hpar : ∀ s, I s → (s.scope n).parent = none) (hwv : ∀ s v x, I s → W v → I (s.withVar n v x))
    (name : List Nat) (o : Option Val) (s : St) (hp : PlainName name) (hW : W (bytesToString name)) (h : I s) :
    ∃ s1, runM (bindContext n name o) s = (.ok (), s1) ∧ I s1 := by
  cases o with
  | none => exact ⟨s, rfl, h⟩
  | some v => exact ⟨_, setValue_parentless n name name v s hp (hpar _ h), hwv _ _ _ h hW⟩

theorem bindParamNode_inv (st : St) (ev : Node → M Val) (n t : Nat) (A : String → Prop) (htn : t ≠ n)
    (hev : DefaultKeeps ev n t) (p : Node) (i : Nat) (args : List Val) (s s' : St) (r : Except Sig Unit)
    (hnm : ∀ nm, nodeParamName p = some nm → PlainName nm ∧ A (bytesToString nm))
    (h : FrameInv st n t A s) (hr : runM (bindParamNode ev n p i args) s = (r, s')) : FrameInv st n t A s' := by
  unfold bindParamNode at hr
  by_cases hid : (p.name == "identifier") = true
  · simp only [hid, if_true] at hr
    rw [runM_bind, runM_tokOf] at hr
    cases htk : p.tok with
    | none => simp only [htk] at hr; injection hr with _ h2; rw [← h2]; exact h
    | some tk =>
      simp only [htk] at hr
      have hn := hnm tk.val (by simp [nodeParamName, hid, htk])
      rw [setValue_parentless n tk.val tk.val _ s hn.1 h.2.2.1] at hr
      injection hr with _ h2; rw [← h2]
      exact frameInv_withVar st n t A s _ _ htn hn.2 h
  · simp only [hid, Bool.false_eq_true, if_false] at hr
    by_cases hpre : (p.name == "preset") = true
    · simp only [hpre, if_true] at hr
      rw [runM_bind, runM_child] at hr
      cases hc : p.children[0]? with
      | none => simp only [hc] at hr; injection hr with _ h2; rw [← h2]; exact h
      | some o =>
        cases o with
        | none => simp only [hc] at hr; injection hr with _ h2; rw [← h2]; exact h
        | some c =>
          simp only [hc] at hr
          rw [runM_bind, runM_tokOf] at hr
          cases htk : c.tok with
          | none => simp only [htk] at hr; injection hr with _ h2; rw [← h2]; exact h
          | some tk =>
            simp only [htk] at hr
            have hn := hnm tk.val (by simp [nodeParamName, hid, hpre, hc, htk])
            rw [runM_bind] at hr
            by_cases hi : i < args.length
            · simp only [hi, if_true, runM_pure] at hr
              rw [setValue_parentless n tk.val tk.val _ s hn.1 h.2.2.1] at hr
              injection hr with _ h2; rw [← h2]
              exact frameInv_withVar st n t A s _ _ htn hn.2 h
            · simp only [hi, if_false] at hr
              rw [runM_bind, runM_child] at hr
              cases hc1 : p.children[1]? with
              | none => simp only [hc1] at hr; injection hr with _ h2; rw [← h2]; exact h
              | some o1 =>
                cases o1 with
                | none => simp only [hc1] at hr; injection hr with _ h2; rw [← h2]; exact h
                | some d =>
                  simp only [hc1] at hr
                  cases hv : runM (ev d) s with
                  | mk rv s1 =>
                    have hi1 := frameInv_default st ev n t A hev d s s1 rv h hv
                    rw [hv] at hr
                    cases rv with
                    | error e => simp only at hr; injection hr with _ h2; rw [← h2]; exact hi1
                    | ok v =>
                      simp only at hr
                      rw [setValue_parentless n tk.val tk.val _ s1 hn.1 hi1.2.2.1] at hr
                      injection hr with _ h2; rw [← h2]
                      exact frameInv_withVar st n t A s1 _ _ htn hn.2 hi1
    · simp only [hpre, Bool.false_eq_true, if_false, runM_pure] at hr
      injection hr with _ h2; rw [← h2]; exact h

theorem bindParamNodes_inv (st : St) (ev : Node → M Val) (n t : Nat) (A : String → Prop) (htn : t ≠ n)
    (hev : DefaultKeeps ev n t) (args : List Val) : ∀ (ps : List (Option Node)) (i : Nat) (s s' : St) (r : Except Sig Unit),
    NamesOk A ps → FrameInv st n t A s → runM (bindParamNodes ev n ps i args) s = (r, s') → FrameInv st n t A s' := by
  intro ps
  induction ps with
  | nil => intro i s s' r _ h hr; simp only [bindParamNodes, runM_pure] at hr; injection hr with _ h2; rw [← h2]; exact h
  | cons o rest ih =>
    intro i s s' r hok h hr
    cases o with
    | none => simp only [bindParamNodes, runM_throw] at hr; injection hr with _ h2; rw [← h2]; exact h
    | some p =>
      simp only [bindParamNodes] at hr
      rw [runM_bind] at hr
      cases hb : runM (bindParamNode ev n p i args) s with
      | mk rb s1 =>
        have hi1 := bindParamNode_inv st ev n t A htn hev p i args s s1 rb (fun nm hnm => hok p nm (by simp) hnm) h hb
        rw [hb] at hr
        cases rb with
        | error e => simp only at hr; injection hr with _ h2; rw [← h2]; exact hi1
        | ok u =>
          simp only at hr
          exact ih (i + 1) s1 s' r (fun q nm hq hnm => hok q nm (by simp [hq]) hnm) hi1 hr

theorem plain_this : PlainName thisName := by unfold PlainName; decide
theorem plain_super : PlainName superName := by unfold PlainName; decide

theorem bindContext_inv (st : St) (n t : Nat) (A : String → Prop) (htn : t ≠ n) (name : List Nat) (o : Option Val) (s : St)
    (hp : PlainName name) (hA : A (bytesToString name)) (h : FrameInv st n t A s) :
    ∃ s1, runM (bindContext n name o) s = (.ok (), s1) ∧ FrameInv st n t A s1 := by
  cases o with
  | none => exact ⟨s, rfl, h⟩
  | some v =>
    refine ⟨_, setValue_parentless n name name v s hp h.2.2.1, ?_⟩
    exact frameInv_withVar st n t A s _ v htn hA h

/-- what the frame theorems need from the evaluation of default expressions: it preserves the invariant `I` of the
    frame under construction (whatever else it does to the state) -/
def DefaultPreserves (ev : Node → M Val) (ps : List (Option Node)) (I : St → Prop) : Prop :=
  ∀ p d, some p ∈ ps → p.children[1]? = some (some d) → ∀ s r s1, I s → runM (ev d) s = (r, s1) → I s1

theorem defaultPreserves_of_keeps (st : St) (ev : Node → M Val) (ps : List (Option Node)) (n t : Nat) (A : String → Prop)
    (hev : DefaultKeeps ev n t) : DefaultPreserves ev ps (FrameInv st n t A) :=
  fun _ d _ _ s r s1 h hr => frameInv_default st ev n t A hev d s s1 r h hr

/-- no parameter has a default: `ev` is never called -/
def NoPreset (ps : List (Option Node)) : Prop := ∀ p, some p ∈ ps → (p.name == "preset") = false

theorem bindParamNode_noPreset (ev ev' : Node → M Val) (fvs : Nat) (p : Node) (i : Nat) (args : List Val)
    (h : (p.name == "preset") = false) : bindParamNode ev fvs p i args = bindParamNode ev' fvs p i args := by
  simp only [bindParamNode, h, Bool.false_eq_true, if_false]

theorem bindParamNodes_noPreset (ev ev' : Node → M Val) (fvs : Nat) (args : List Val) :
    ∀ (ps : List (Option Node)) (i : Nat), NoPreset ps → bindParamNodes ev fvs ps i args = bindParamNodes ev' fvs ps i args := by
  intro ps
  induction ps with
  | nil => intro i _; rfl
  | cons o rest ih =>
    intro i h
    cases o with
    | none => rfl
    | some p =>
      simp only [bindParamNodes]
      rw [bindParamNode_noPreset ev ev' fvs p i args (h p (by simp)), ih (i + 1) (fun q hq => h q (by simp [hq]))]

theorem buildFrame_noPreset (ev ev' : Node → M Val) (fr : FuncRec) (ps : List (Option Node)) (args : List Val) (h : NoPreset ps) :
    buildFrame ev fr ps args = buildFrame ev' fr ps args := by
  simp only [buildFrame, bindParamNodes_noPreset ev ev' _ args ps 0 h]

theorem defaultPreserves_const (ps : List (Option Node)) (I : St → Prop) :
    DefaultPreserves (fun _ => (pure Val.null : M Val)) ps I := by
  intro p d _ _ s r s1 h hr
  simp only [runM_pure] at hr
  injection hr with _ h2; rw [← h2]; exact h

/-- the state a finished `buildFrame` leaves -/
structure FrameResult (st : St) (fr : FuncRec) (A : String → Prop) (t fvs : Nat) (st' : St) : Prop where
  fresh : fvs = st.scopes.size
  inBounds : fvs < st'.scopes.size
  linked : (st'.scope fvs).parent = some fr.declScope
  onlyAllowed : ∀ w, st'.defines fvs w = true → A w
  kept : st'.scope t = st.scope t

/-- `buildFrame`, every outcome: scope `t` (any scope that existed before) is unchanged; on success the frame is
    the NEW scope index, linked to the declaration scope, and defines only allowed names -/
theorem buildFrame_spec (ev : Node → M Val) (fr : FuncRec) (params : List (Option Node)) (args : List Val)
    (st st' : St) (r : Except Sig Nat) (t : Nat) (A : String → Prop)
    (ht : t < st.scopes.size) (hthis : A (bytesToString thisName)) (hsuper : A (bytesToString superName))
    (hok : NamesOk A params) (hev : DefaultPreserves ev params (FrameInv st st.scopes.size t A))
    (h : runM (buildFrame ev fr params args) st = (r, st')) :
    st'.scope t = st.scope t ∧ ∀ fvs, r = .ok fvs → FrameResult st fr A t fvs st' := by
  have htn : t ≠ st.scopes.size := Nat.ne_of_lt ht
  unfold buildFrame at h
  rw [runM_bind, newScope_run] at h
  simp only at h
  have h0 : FrameInv st st.scopes.size t A
      { st with scopes := st.scopes.push { name := s!"func: {fr.name}", parent := none, children := [], vars := [] } } := by
    refine ⟨by simp, ?_, ?_, ?_⟩
    · simp [St.scope, Array.getElem?_push, htn, ht]
    · simp [St.scope]
    · intro w hw; simp [St.defines, St.scope] at hw
  rw [runM_bind] at h
  obtain ⟨s1, hs1, hi1⟩ := bindContext_inv st st.scopes.size t A htn thisName fr.this _ plain_this hthis h0
  rw [hs1] at h
  simp only at h
  rw [runM_bind] at h
  obtain ⟨s2, hs2, hi2⟩ := bindContext_inv st st.scopes.size t A htn superName fr.super _ plain_super hsuper hi1
  rw [hs2] at h
  simp only at h
  rw [runM_bind] at h
  cases hb : runM (bindParamNodes ev st.scopes.size params 0 args) s2 with
  | mk rb s3 =>
    have hi3 := bindParamNodes_gen ev st.scopes.size (FrameInv st st.scopes.size t A) A (fun s h => h.2.2.1)
      (fun s v x h hv => frameInv_withVar st _ t A s v x htn hv h) args params 0 s2 s3 rb hev hok hi2 hb
    rw [hb] at h
    cases rb with
    | error e =>
      simp only at h; injection h with h1' h2'; rw [← h2']
      refine ⟨hi3.2.1, ?_⟩
      intro fvs hr; rw [← h1'] at hr; cases hr
    | ok u =>
      simp only at h
      rw [runM_bind, getScope_run] at h
      simp only at h
      rw [runM_bind, setScope_run] at h
      simp only [runM_pure] at h
      injection h with h1' h2'
      have hkept : st'.scope t = st.scope t := by
        rw [← h2']
        simp only [St.scope, Array.getD_eq_getD_getElem?]
        rw [Array.getElem?_setIfInBounds_ne (Ne.symm htn)]
        simpa [St.scope] using hi3.2.1
      have hsame : st'.scope st.scopes.size = { s3.scope st.scopes.size with parent := some fr.declScope } := by
        rw [← h2']; simp [St.scope, hi3.1]
      refine ⟨hkept, ?_⟩
      intro fvs hr
      rw [← h1'] at hr
      injection hr with hr
      subst hr
      refine ⟨rfl, by rw [← h2']; simpa using hi3.1, by rw [hsame], ?_, hkept⟩
      intro w hw
      apply hi3.2.2.2 w
      simpa [St.defines, hsame] using hw


/-! ### the value of `this` / `super` in the finished frame -/

/-- the frame `n` under construction defines `N` with value `val` -/
def NameInv (n : Nat) (N : String) (val : Val) (s : St) : Prop :=
  n < s.scopes.size ∧ (s.scope n).parent = none ∧ s.defines n N = true ∧ s.valueIn n N = val

def FrameBase (n : Nat) (s : St) : Prop := n < s.scopes.size ∧ (s.scope n).parent = none

theorem frameBase_withVar (n : Nat) (s : St) (v : String) (x : Val) (h : FrameBase n s) : FrameBase n (s.withVar n v x) :=
  ⟨by rw [(withVar_heap s n v x).2.2]; exact h.1, by rw [withVar_scope_same s n v x h.1]; exact h.2⟩

theorem nameInv_withVar (n : Nat) (N : String) (val : Val) (s : St) (v : String) (x : Val) (hv : v ≠ N)
    (h : NameInv n N val s) : NameInv n N val (s.withVar n v x) := by
  obtain ⟨h1, h2, h3, h4⟩ := h
  have hvn : (v == N) = false := by simpa using hv
  have ho := updVars_find_other (s.scope n).vars v N x hvn
  refine ⟨by rw [(withVar_heap s n v x).2.2]; exact h1, by rw [withVar_scope_same s n v x h1]; exact h2, ?_, ?_⟩
  · simp only [St.defines, withVar_scope_same s n v x h1] at h3 ⊢
    have : (((updVars (s.scope n).vars v x).find? (·.1 == N)).map (·.2)).isSome = true := by rw [ho]; simpa using h3
    simpa using this
  · simp only [St.valueIn, withVar_scope_same s n v x h1] at h4 ⊢
    rw [ho]; exact h4

theorem nameInv_scope_eq (n : Nat) (N : String) (val : Val) (s s1 : St) (hsz : s.scopes.size ≤ s1.scopes.size)
    (hsc : s1.scope n = s.scope n) (h : NameInv n N val s) : NameInv n N val s1 :=
  ⟨Nat.lt_of_lt_of_le h.1 hsz, by rw [hsc]; exact h.2.1, by simpa [St.defines, hsc] using h.2.2.1,
   by simpa [St.valueIn, hsc] using h.2.2.2⟩

/-- parameter names are plain identifiers different from `N` -/
def ParamsAvoid (N : String) (ps : List (Option Node)) : Prop :=
  ∀ p nm, some p ∈ ps → nodeParamName p = some nm → PlainName nm ∧ bytesToString nm ≠ N

/-- default evaluation leaves the unlinked frame alone and does not shrink the scope table -/
def DefaultKeepsFrame (ev : Node → M Val) (n : Nat) : Prop :=
  ∀ d s r s1, runM (ev d) s = (r, s1) → s.scopes.size ≤ s1.scopes.size ∧ s1.scope n = s.scope n

theorem this_ne_super : bytesToString superName ≠ bytesToString thisName := by decide

/-- the tail of `buildFrame` after `this` / `super`: parameters, then the link -/
theorem defaultPreserves_of_keepsFrame (ev : Node → M Val) (ps : List (Option Node)) (n : Nat) (N : String) (val : Val)
    (hev : DefaultKeepsFrame ev n) : DefaultPreserves ev ps (NameInv n N val) :=
  fun _ d _ _ s r s1 h hr => nameInv_scope_eq n N val s s1 (hev d s r s1 hr).1 (hev d s r s1 hr).2 h

theorem frame_finish (ev : Node → M Val) (n ds : Nat) (N : String) (val : Val) (params : List (Option Node)) (args : List Val)
    (s2 s3 st' : St) (hav : ParamsAvoid N params) (hev : DefaultPreserves ev params (NameInv n N val)) (hi2 : NameInv n N val s2)
    (hb : runM (bindParamNodes ev n params 0 args) s2 = (.ok (), s3))
    (hfin : st' = { s3 with scopes := s3.scopes.setIfInBounds n { s3.scope n with parent := some ds } }) :
    st'.defines n N = true ∧ st'.valueIn n N = val ∧ st'.nearest n N = some n := by
  have hi3 : NameInv n N val s3 :=
    bindParamNodes_gen ev n (NameInv n N val) (fun v => v ≠ N) (fun s h => h.2.1)
      (fun s v x h hv => nameInv_withVar n N val s v x hv h)
      args params 0 s2 s3 (.ok ()) hev hav hi2 hb
  have hsame : st'.scope n = { s3.scope n with parent := some ds } := by rw [hfin]; simp [St.scope, hi3.1]
  have hd : st'.defines n N = true := by simpa [St.defines, hsame] using hi3.2.2.1
  exact ⟨hd, by simpa [St.valueIn, hsame] using hi3.2.2.2, nearest_self st' n N hd⟩

/-- a bound function's body finds `this` in its own frame, with the bound value — unless a parameter is itself
    called `this` (then the parameter's value replaces it: parameters are written after `this`) -/
theorem buildFrame_this (ev : Node → M Val) (fr : FuncRec) (params : List (Option Node)) (args : List Val) (st st' : St)
    (fvs : Nat) (tv : Val) (hthis : fr.this = some tv) (hav : ParamsAvoid (bytesToString thisName) params)
    (hev : DefaultPreserves ev params (NameInv st.scopes.size (bytesToString thisName) tv))
    (h : runM (buildFrame ev fr params args) st = (.ok fvs, st')) :
    fvs = st.scopes.size ∧ st'.defines fvs (bytesToString thisName) = true ∧
    st'.valueIn fvs (bytesToString thisName) = tv ∧ st'.nearest fvs (bytesToString thisName) = some fvs := by
  unfold buildFrame at h
  rw [runM_bind, newScope_run] at h
  simp only at h
  rw [runM_bind, hthis] at h
  have hb0 : FrameBase st.scopes.size
      { st with scopes := st.scopes.push { name := s!"func: {fr.name}", parent := none, children := [], vars := [] } } :=
    ⟨by simp, by simp [St.scope]⟩
  have e1 := setValue_parentless st.scopes.size thisName thisName tv _ plain_this hb0.2
  rw [show bindContext st.scopes.size thisName (some tv) = setValue st.scopes.size thisName tv from rfl, e1] at h
  simp only at h
  have hi1 : NameInv st.scopes.size (bytesToString thisName) tv
      (({ st with scopes := st.scopes.push { name := s!"func: {fr.name}", parent := none, children := [], vars := [] } } : St).withVar
        st.scopes.size (bytesToString thisName) tv) :=
    ⟨(frameBase_withVar _ _ _ _ hb0).1, (frameBase_withVar _ _ _ _ hb0).2, withVar_defines _ _ _ _ hb0.1, withVar_valueIn _ _ _ _ hb0.1⟩
  rw [runM_bind] at h
  obtain ⟨s2, hs2, hi2⟩ := bindContext_gen st.scopes.size (NameInv st.scopes.size (bytesToString thisName) tv)
    (fun v => v ≠ bytesToString thisName) (fun s h => h.2.1) (fun s v x h hv => nameInv_withVar _ _ _ s v x hv h)
    superName fr.super _ plain_super this_ne_super hi1
  rw [hs2] at h
  simp only at h
  rw [runM_bind] at h
  cases hb : runM (bindParamNodes ev st.scopes.size params 0 args) s2 with
  | mk rb s3 =>
    rw [hb] at h
    cases rb with
    | error e => simp at h
    | ok u =>
      simp only at h
      rw [runM_bind, getScope_run] at h
      simp only at h
      rw [runM_bind, setScope_run] at h
      simp only [runM_pure] at h
      injection h with h1' h2'
      injection h1' with h1'
      subst h1'
      have := frame_finish ev st.scopes.size fr.declScope _ tv params args s2 s3 st' hav hev hi2 hb h2'.symm
      exact ⟨rfl, this⟩

/-- … and `super` likewise (only a bound `init` has one) -/
theorem buildFrame_super (ev : Node → M Val) (fr : FuncRec) (params : List (Option Node)) (args : List Val) (st st' : St)
    (fvs : Nat) (sl : Val) (hsuper : fr.super = some sl) (hav : ParamsAvoid (bytesToString superName) params)
    (hev : DefaultPreserves ev params (NameInv st.scopes.size (bytesToString superName) sl))
    (h : runM (buildFrame ev fr params args) st = (.ok fvs, st')) :
    fvs = st.scopes.size ∧ st'.defines fvs (bytesToString superName) = true ∧
    st'.valueIn fvs (bytesToString superName) = sl ∧ st'.nearest fvs (bytesToString superName) = some fvs := by
  unfold buildFrame at h
  rw [runM_bind, newScope_run] at h
  simp only at h
  rw [runM_bind] at h
  have hb0 : FrameBase st.scopes.size
      { st with scopes := st.scopes.push { name := s!"func: {fr.name}", parent := none, children := [], vars := [] } } :=
    ⟨by simp, by simp [St.scope]⟩
  obtain ⟨s1, hs1, hb1⟩ := bindContext_gen st.scopes.size (FrameBase st.scopes.size) (fun _ => True) (fun s h => h.2)
    (fun s v x h _ => frameBase_withVar _ s v x h) thisName fr.this _ plain_this trivial hb0
  rw [hs1] at h
  simp only at h
  rw [runM_bind, hsuper] at h
  have e2 := setValue_parentless st.scopes.size superName superName sl s1 plain_super hb1.2
  rw [show bindContext st.scopes.size superName (some sl) = setValue st.scopes.size superName sl from rfl, e2] at h
  simp only at h
  have hi2 : NameInv st.scopes.size (bytesToString superName) sl (s1.withVar st.scopes.size (bytesToString superName) sl) :=
    ⟨(frameBase_withVar _ _ _ _ hb1).1, (frameBase_withVar _ _ _ _ hb1).2, withVar_defines _ _ _ _ hb1.1, withVar_valueIn _ _ _ _ hb1.1⟩
  rw [runM_bind] at h
  cases hb : runM (bindParamNodes ev st.scopes.size params 0 args) (s1.withVar st.scopes.size (bytesToString superName) sl) with
  | mk rb s3 =>
    rw [hb] at h
    cases rb with
    | error e => simp at h
    | ok u =>
      simp only at h
      rw [runM_bind, getScope_run] at h
      simp only at h
      rw [runM_bind, setScope_run] at h
      simp only [runM_pure] at h
      injection h with h1' h2'
      injection h1' with h1'
      subst h1'
      have := frame_finish ev st.scopes.size fr.declScope _ sl params args _ s3 st' hav hev hi2 hb h2'.symm
      exact ⟨rfl, this⟩

/-! ### the contents of a finished frame (parameter lists without defaults) -/

/-- storage after a sequence of `storage[k] = v` -/
def applyBindings (vars : List (String × Val)) (l : List (String × Val)) : List (String × Val) :=
  l.foldl (fun vs kv => updVars vs kv.1 kv.2) vars

/-- what the parameters of a list without defaults bind: position `j` of the argument list, null when missing -/
def paramBindings : List (Option Node) → Nat → List Val → List (String × Val)
  | [], _, _ => []
  | none :: _, _, _ => []
  | some p :: ps, i, args =>
    (if p.name == "identifier" then
      match p.tok with
      | some t => [(bytesToString t.val, args.getD i Val.null)]
      | none => []
     else []) ++ paramBindings ps (i + 1) args

def contextBindings (fr : FuncRec) : List (String × Val) :=
  (match fr.this with | some t => [(bytesToString thisName, t)] | none => []) ++
  (match fr.super with | some s => [(bytesToString superName, s)] | none => [])

theorem withVar_vars (s : St) (n : Nat) (v : String) (x : Val) (hn : n < s.scopes.size) :
    ((s.withVar n v x).scope n).vars = updVars (s.scope n).vars v x := by
  rw [withVar_scope_same s n v x hn]

theorem bindParamNodes_vars (ev : Node → M Val) (n : Nat) (args : List Val) :
    ∀ (ps : List (Option Node)) (i : Nat) (s s' : St), NoPreset ps →
    (∀ p nm, some p ∈ ps → nodeParamName p = some nm → PlainName nm) → FrameBase n s →
    runM (bindParamNodes ev n ps i args) s = (.ok (), s') →
    FrameBase n s' ∧ (s'.scope n).vars = applyBindings (s.scope n).vars (paramBindings ps i args) ∧
    ∀ t, t ≠ n → s'.scope t = s.scope t := by
  intro ps
  induction ps with
  | nil =>
    intro i s s' _ _ hb h
    simp only [bindParamNodes, runM_pure] at h
    injection h with _ h2; subst h2
    exact ⟨hb, rfl, fun _ _ => rfl⟩
  | cons o rest ih =>
    intro i s s' hnp hpl hb h
    cases o with
    | none => simp [bindParamNodes, runM_throw] at h
    | some p =>
      simp only [bindParamNodes] at h
      rw [runM_bind] at h
      have hpre : (p.name == "preset") = false := hnp p (by simp)
      -- one parameter
      have hone : ∃ s1, runM (bindParamNode ev n p i args) s = (.ok (), s1) ∧ FrameBase n s1 ∧
          (s1.scope n).vars = applyBindings (s.scope n).vars
            (if p.name == "identifier" then match p.tok with
              | some t => [(bytesToString t.val, args.getD i Val.null)] | none => [] else []) ∧
          ∀ t, t ≠ n → s1.scope t = s.scope t := by
        cases hs : runM (bindParamNode ev n p i args) s with
        | mk r1 s1 =>
          rw [hs] at h
          cases r1 with
          | error e => simp at h
          | ok u =>
            refine ⟨s1, rfl, ?_⟩
            unfold bindParamNode at hs
            by_cases hid : (p.name == "identifier") = true
            · simp only [hid, if_true] at hs ⊢
              rw [runM_bind, runM_tokOf] at hs
              cases htk : p.tok with
              | none => simp [htk] at hs
              | some tk =>
                simp only [htk] at hs ⊢
                have hplain := hpl p tk.val (by simp) (by simp [nodeParamName, hid, htk])
                rw [setValue_parentless n tk.val tk.val _ s hplain hb.2] at hs
                injection hs with _ h2; subst h2
                exact ⟨frameBase_withVar n s _ _ hb, by rw [withVar_vars s n _ _ hb.1]; rfl,
                  fun t ht => withVar_scope_other s n t _ _ ht⟩
            · simp only [hid, Bool.false_eq_true, if_false, hpre, runM_pure] at hs ⊢
              injection hs with _ h2; subst h2
              exact ⟨hb, rfl, fun _ _ => rfl⟩
      obtain ⟨s1, hs1, hb1, hv1, ho1⟩ := hone
      rw [hs1] at h
      simp only at h
      obtain ⟨hb2, hv2, ho2⟩ := ih (i + 1) s1 s' (fun q hq => hnp q (by simp [hq])) (fun q nm hq => hpl q nm (by simp [hq])) hb1 h
      refine ⟨hb2, ?_, fun t ht => by rw [ho2 t ht, ho1 t ht]⟩
      rw [hv2, hv1]
      simp only [paramBindings, applyBindings, List.foldl_append]

theorem bindContext_vars (n : Nat) (name : List Nat) (o : Option Val) (s : St) (hp : PlainName name) (hb : FrameBase n s) :
    ∃ s1, runM (bindContext n name o) s = (.ok (), s1) ∧ FrameBase n s1 ∧
      (s1.scope n).vars = applyBindings (s.scope n).vars (match o with | some t => [(bytesToString name, t)] | none => []) ∧
      ∀ t, t ≠ n → s1.scope t = s.scope t := by
  cases o with
  | none => exact ⟨s, rfl, hb, rfl, fun _ _ => rfl⟩
  | some v =>
    refine ⟨_, setValue_parentless n name name v s hp hb.2, frameBase_withVar n s _ _ hb, ?_, fun t ht => withVar_scope_other s n t _ _ ht⟩
    rw [withVar_vars s n _ _ hb.1]; rfl

/-- The finished frame of a call whose parameter list has no defaults holds EXACTLY: `this`, `super` (if bound), then
    every parameter with the argument at its position (null when missing) — later parameters of the same name
    overwrite earlier ones — and it is linked to the declaration scope; no other scope changed. -/
theorem buildFrame_contents (ev : Node → M Val) (fr : FuncRec) (params : List (Option Node)) (args : List Val) (st st' : St)
    (fvs : Nat) (hnp : NoPreset params) (hpl : ∀ p nm, some p ∈ params → nodeParamName p = some nm → PlainName nm)
    (h : runM (buildFrame ev fr params args) st = (.ok fvs, st')) :
    fvs = st.scopes.size ∧
    (st'.scope fvs).vars = applyBindings [] (contextBindings fr ++ paramBindings params 0 args) ∧
    (st'.scope fvs).parent = some fr.declScope ∧ ∀ t, t < st.scopes.size → st'.scope t = st.scope t := by
  unfold buildFrame at h
  rw [runM_bind, newScope_run] at h
  simp only at h
  have hb0 : FrameBase st.scopes.size
      { st with scopes := st.scopes.push { name := s!"func: {fr.name}", parent := none, children := [], vars := [] } } :=
    ⟨by simp, by simp [St.scope]⟩
  rw [runM_bind] at h
  obtain ⟨s1, hs1, hb1, hv1, ho1⟩ := bindContext_vars st.scopes.size thisName fr.this _ plain_this hb0
  rw [hs1] at h
  simp only at h
  rw [runM_bind] at h
  obtain ⟨s2, hs2, hb2, hv2, ho2⟩ := bindContext_vars st.scopes.size superName fr.super s1 plain_super hb1
  rw [hs2] at h
  simp only at h
  rw [runM_bind] at h
  cases hb : runM (bindParamNodes ev st.scopes.size params 0 args) s2 with
  | mk rb s3 =>
    rw [hb] at h
    cases rb with
    | error e => simp at h
    | ok u =>
      obtain ⟨hb3, hv3, ho3⟩ := bindParamNodes_vars ev st.scopes.size args params 0 s2 s3 hnp hpl hb2 hb
      simp only at h
      rw [runM_bind, getScope_run] at h
      simp only at h
      rw [runM_bind, setScope_run] at h
      simp only [runM_pure] at h
      injection h with h1' h2'
      injection h1' with h1'
      subst h1'
      have hsame : st'.scope st.scopes.size = { s3.scope st.scopes.size with parent := some fr.declScope } := by
        rw [← h2']; simp [St.scope, hb3.1]
      refine ⟨rfl, ?_, by rw [hsame], ?_⟩
      · rw [hsame]
        simp only
        rw [hv3, hv2, hv1]
        have h0 : (({ st with scopes := st.scopes.push { name := s!"func: {fr.name}", parent := none, children := [], vars := [] } } : St).scope
            st.scopes.size).vars = [] := by simp [St.scope]
        rw [h0]
        simp only [applyBindings, contextBindings, List.foldl_append]
      · intro t ht
        have htn : t ≠ st.scopes.size := Nat.ne_of_lt ht
        rw [← h2']
        simp only [St.scope, Array.getD_eq_getD_getElem?]
        rw [Array.getElem?_setIfInBounds_ne (Ne.symm htn)]
        have := (ho3 t htn).trans ((ho2 t htn).trans (ho1 t htn))
        simp only [St.scope, Array.getD_eq_getD_getElem?] at this
        rw [this]
        simp [Array.getElem?_push, htn, ht]

theorem applyBindings_keeps (nm : String) : ∀ (l : List (String × Val)) (u : List (String × Val)),
    (∀ kv ∈ l, kv.1 ≠ nm) →
    ((applyBindings u l).find? (·.1 == nm)).map (·.2) = (u.find? (·.1 == nm)).map (·.2) := by
  intro l
  induction l with
  | nil => intro u _; rfl
  | cons kv rest ih =>
    intro u h
    have hne : kv.1 ≠ nm := h kv (by simp)
    simp only [applyBindings, List.foldl_cons]
    have := ih (updVars u kv.1 kv.2) (fun kv' h' => h kv' (by simp [h']))
    simp only [applyBindings] at this
    rw [this, updVars_find_other u kv.1 nm kv.2 (by simpa using hne)]

/-- a name bound after which no later binding touches it reads that value -/
theorem applyBindings_find (vars : List (String × Val)) (pre post : List (String × Val)) (nm : String) (v : Val)
    (hpost : ∀ kv ∈ post, kv.1 ≠ nm) :
    ((applyBindings vars (pre ++ [(nm, v)] ++ post)).find? (·.1 == nm)).map (·.2) = some v := by
  have e : applyBindings vars (pre ++ [(nm, v)] ++ post) = applyBindings (updVars (applyBindings vars pre) nm v) post := by
    simp only [applyBindings, List.foldl_append, List.foldl_cons, List.foldl_nil]
  rw [e, applyBindings_keeps nm post _ hpost, updVars_find]
  rfl

end Ecal.Ev
