import Ecal.Lemmas.PoolEnabled
/-! The queue along a run, and the FIFO discipline of `DefaultTaskQueue`. -/
namespace Ecal.Pool

/-- effect of one step on the queue: AddTask appends, a pop removes the popped task, nothing else touches it -/
def queueAfter (q : List Task) : Event → List Task
  | .aPush t => q ++ [t]
  | .pop _ t => q.erase t
  | _ => q

theorem queue_step {v : Variant} {s s1 : State} {e : Event} (h : step v s e = some s1) :
    s1.queue = queueAfter s.queue e := by
  cases e <;> simp only [step] at h <;> (repeat' split at h) <;> simp_all [State.goto, queueAfter] <;>
    (try (obtain ⟨_, rfl⟩ := h; rfl)) <;> (try (subst h; rfl))

/-- tasks pushed by the AddTask events of an event list, in order -/
def pushedOf : List Event → List Task
  | [] => []
  | .aPush t :: es => t :: pushedOf es
  | _ :: es => pushedOf es

/-- tasks started (popped) by an event list, in order -/
def poppedOf : List Event → List Task
  | [] => []
  | .pop _ t :: es => t :: poppedOf es
  | _ :: es => poppedOf es

/-- the run uses the queue first-in-first-out: every `pop` takes the task at the head of the queue
    (what `DefaultTaskQueue.Pop` does; the trace validator checks it on every recorded pop) -/
def fifoFrom (s : State) : List Event → Prop
  | [] => True
  | e :: es => (∀ i t, e = .pop i t → s.queue.head? = some t) ∧
      (∀ s1, step repaired s e = some s1 → fifoFrom s1 es)

/-- FIFO bookkeeping: what was queued at the start followed by what was pushed during the run is what
    was started during the run followed by what is still queued -/
theorem fifo_queue_eq {s s' : State} {es : List Event} (h : runFrom repaired s es = some s')
    (hf : fifoFrom s es) : s.queue ++ pushedOf es = poppedOf es ++ s'.queue := by
  induction es generalizing s with
  | nil => simp [runFrom, List.foldlM] at h; subst h; simp [pushedOf, poppedOf]
  | cons e es ih =>
    simp only [runFrom, List.foldlM_cons] at h
    cases hs : step repaired s e with
    | none => simp [hs] at h
    | some s1 =>
      simp [hs] at h
      obtain ⟨hhead, hrest⟩ := hf
      have hq := queue_step hs
      have := ih h (hrest s1 hs)
      cases e with
      | aPush t => simp [pushedOf, poppedOf, queueAfter] at hq ⊢; rw [← this, hq]; simp
      | pop i t =>
        have hh := hhead i t rfl
        cases hqs : s.queue with
        | nil => simp [hqs] at hh
        | cons a rest =>
          simp [hqs] at hh; subst hh
          simp [pushedOf, poppedOf, queueAfter, hqs] at hq ⊢
          rw [← this, hq]
      | _ => simp [pushedOf, poppedOf, queueAfter] at hq ⊢ <;> rw [← this, hq]

end Ecal.Pool
