import Ecal.Model.FragB
import Ecal.Lemmas.C06NoPanic
/-! C06 — soundness of the decision procedure: `fragB k n = true → Frag n`. -/
namespace Ecal.Lemmas.C06
open Ecal.FragB Ecal.Ev
open Ecal.Parse (Node)
open Ecal.Lex (Tok)

theorem tok_of_isSome {n : Node} (h : n.tok.isSome = true) : ∃ t, n.tok = some t :=
  Option.isSome_iff_exists.mp h

theorem allKids_spec {P : Node → Prop} (f : Node → Bool) (hf : ∀ c, f c = true → P c) :
    ∀ (l : List (Option Node)), allKids f l = true → ∃ kids : List Node, l = kids.map some ∧ ∀ c, c ∈ kids → P c := by
  intro l; induction l with
  | nil => intro _; exact ⟨[], rfl, (by intro c h; cases h)⟩
  | cons x xs ih =>
    intro h
    simp only [allKids, List.all_cons, Bool.and_eq_true] at h
    obtain ⟨kids, hk, hp⟩ := ih (by simpa [allKids] using h.2)
    cases x with
    | none => simp at h
    | some c =>
      refine ⟨c :: kids, by simp [hk], ?_⟩
      intro d hd
      simp only [List.mem_cons] at hd
      rcases hd with hd | hd
      · subst hd; exact hf _ (by simpa using h.1)
      · exact hp d hd

theorem pairsB_spec (f : Node → Bool) (hf : ∀ c, f c = true → Frag c) :
    ∀ (l : List (Option Node)), pairsB f l = true →
      ∃ pairs : List (Node × Node), l = pairs.flatMap (fun p => [some p.1, some p.2]) ∧
        (∀ p, p ∈ pairs → Frag p.1) ∧ (∀ p, p ∈ pairs → Frag p.2)
  | [], _ => ⟨[], rfl, (by intro p h; cases h), (by intro p h; cases h)⟩
  | some g :: some b :: rest, h => by
    simp only [pairsB, Bool.and_eq_true] at h
    obtain ⟨pairs, hl, hg, hb⟩ := pairsB_spec f hf rest h.2
    refine ⟨(g, b) :: pairs, by simp [hl], ?_, ?_⟩
    · intro p hp
      simp only [List.mem_cons] at hp
      rcases hp with hp | hp
      · subst hp; exact hf _ h.1.1
      · exact hg p hp
    · intro p hp
      simp only [List.mem_cons] at hp
      rcases hp with hp | hp
      · subst hp; exact hf _ h.1.2
      · exact hb p hp
  | [some _], h => by simp [pairsB] at h
  | none :: _, h => by simp [pairsB] at h
  | some _ :: none :: _, h => by simp [pairsB] at h

theorem entryB_spec (f : Node → Bool) (hf : ∀ c, f c = true → Frag c) (c : Node) (h : entryB f c = true) : FragEntry c := by
  unfold entryB at h
  split at h
  · rename_i a b hc
    by_cases hn : c.name = "kvp"
    · simp [hn] at h
      exact FragEntry.kvp c a b hc (hf _ h.1) (hf _ h.2)
    · exact FragEntry.bad c (Or.inl hn)
  · by_cases hn : c.name = "kvp"
    · simp [hn] at h
      exact FragEntry.bad c (Or.inr h)
    · exact FragEntry.bad c (Or.inl hn)

theorem clauseB_spec (f : Node → Bool) (hf : ∀ c, f c = true → Frag c) (c : Node) (h : clauseB f c = true) : Clause c := by
  unfold clauseB at h
  split at h
  · rename_i hn
    simp only [Bool.and_eq_true] at h
    obtain ⟨t, ht⟩ := tok_of_isSome h.1.1.1
    obtain ⟨kids, hk, hp⟩ := allKids_spec f hf _ h.1.2
    refine Clause.exc c t kids hn ht hk ?_ hp ?_
    · intro he; subst he; simp [hk] at h
    · intro k0 k1 rest hkk
      have h2 := h.2
      rw [hk, hkk] at h2
      exact tok_of_isSome (by simpa using h2)
  · rename_i hn
    simp only [Bool.and_eq_true] at h
    obtain ⟨t, ht⟩ := tok_of_isSome h.1
    have h2 := h.2
    split at h2
    · rename_i b hc; exact Clause.blk c t b (Or.inl hn) ht hc (hf _ h2)
    · cases h2
  · rename_i hn
    simp only [Bool.and_eq_true] at h
    obtain ⟨t, ht⟩ := tok_of_isSome h.1
    have h2 := h.2
    split at h2
    · rename_i b hc; exact Clause.blk c t b (Or.inr hn) ht hc (hf _ h2)
    · cases h2
  · rename_i h1 h2 h3
    exact Clause.other c ⟨h1, h2, h3⟩

theorem paramB_spec (f : Node → Bool) (hf : ∀ c, f c = true → Frag c) (p : Node) (h : paramB f p = true) : Param p := by
  unfold paramB at h
  split at h
  · rename_i hn
    obtain ⟨t, ht⟩ := tok_of_isSome h
    exact Param.name p t hn ht
  · rename_i hn
    split at h
    · rename_i nm d hc
      simp only [Bool.and_eq_true] at h
      obtain ⟨t, ht⟩ := tok_of_isSome h.1
      exact Param.preset p nm d t hn hc ht (hf _ h.2)
    · cases h
  · rename_i h1 h2
    exact Param.other p ⟨h1, h2⟩


set_option hygiene false in
/-- the name side condition of a `Frag` constructor from the hypothesis `n.name = "…"` left by `split` -/
macro "nm" : term => `(by first | assumption | (simp only [‹n.name = _›]; decide))

set_option maxHeartbeats 1600000 in
theorem fragB_linkB_sound : ∀ k, (∀ n, fragB k n = true → Frag n) ∧ (∀ c, linkB k c = true → Link c) := by
  intro k; induction k with
  | zero => exact ⟨by intro n h; simp [fragB] at h, by intro c h; simp [linkB] at h⟩
  | succ k ih =>
    obtain ⟨ihf, ihl⟩ := ih
    refine ⟨?_, ?_⟩
    · intro n h
      unfold fragB at h
      split at h
      all_goals try simp only [Bool.and_eq_true, bne_iff_ne, ne_eq, beq_iff_eq] at h
      all_goals try split at h
      all_goals try simp only [Bool.and_eq_true, bne_iff_ne, ne_eq, beq_iff_eq, and_true, and_false, Bool.false_eq_true] at h
      all_goals first
        | (cases h; done)
        | exact Frag.const n nm
        | exact Frag.inert n nm
        | exact Frag.guardN n _ nm (by assumption) (ihf _ h)
        | (obtain ⟨t, ht⟩ := tok_of_isSome h
           first | exact Frag.number n t ht nm | exact Frag.istring n t ht nm | exact Frag.signal n t ht nm
                 | exact Frag.ret0 n t ht nm (by assumption))
        | (obtain ⟨t, ht⟩ := tok_of_isSome h.1
           first
             | exact Frag.unary n t _ ht nm (by assumption) (ihf _ h.2)
             | exact Frag.letN n t _ ht nm (by assumption) (ihf _ h.2)
             | exact Frag.ret1 n t _ ht nm (by assumption) (ihf _ h.2)
             | exact Frag.asN n t _ ht nm (by assumption) (ihf _ h.2.1) (tok_of_isSome h.2.2)
             | exact Frag.binary n t _ _ ht nm (by assumption) (ihf _ h.2.1) (ihf _ h.2.2)
             | exact Frag.assign n t _ _ ht nm (by assumption) (ihf _ h.2.1) (ihf _ h.2.2)
             | exact Frag.loop n t _ _ ht nm (by assumption) (ihf _ h.2.1) (ihf _ h.2.2)
             | (obtain ⟨kids, hk, hp⟩ := allKids_spec (P := fun c => Frag c ∧ ∃ tc, c.tok = some tc) _
                  (fun c hc => by
                    simp only [Bool.and_eq_true] at hc
                    exact ⟨ihf _ hc.1, tok_of_isSome hc.2⟩) _ h.2
                exact Frag.list n t kids ht nm hk (fun c hc => (hp c hc).1) (fun c hc => (hp c hc).2))
             | (obtain ⟨kids, hk, hp⟩ := allKids_spec _ (entryB_spec _ ihf) _ h.2
                exact Frag.map n t kids ht nm hk hp)
             | (obtain ⟨kids, hk, hp⟩ := allKids_spec _ ihl _ h.2
                exact Frag.ident n t kids ht nm hk hp)
             | (obtain ⟨pairs, hl, hg, hb⟩ := pairsB_spec _ ihf _ h.2
                exact Frag.ifN n t pairs ht nm hl hg hb)
             | (obtain ⟨cl, hk, hp⟩ := allKids_spec _ (clauseB_spec _ ihf) _ h.2.2
                exact Frag.tryN n t _ cl ht nm (by rw [‹n.children = _›, hk]) (ihf _ h.2.1.1) h.2.1.2 hp)
             | (obtain ⟨ps, hk, hp⟩ := allKids_spec _ (paramB_spec _ ihf) _ h.2.1.2
                obtain ⟨t0, ht0'⟩ := tok_of_isSome h.2.1.1.2
                exact Frag.funcNamed n t t0 _ _ _ ps ht nm (by assumption) h.2.1.1.1 ht0' hk hp (ihf _ h.2.2))
             | (obtain ⟨ps, hk, hp⟩ := allKids_spec _ (paramB_spec _ ihf) _ h.2.1.2
                exact Frag.funcAnon n t _ _ ps ht nm (by assumption) h.2.1.1 hk hp (ihf _ h.2.2)))
        | (obtain ⟨kids, hk, hp⟩ := allKids_spec _ ihf _ h
           exact Frag.statements n kids nm hk hp)
        | skip
    · intro c h
      unfold linkB at h
      split at h
      · rename_i hn
        split at h
        · rename_i e hc; exact Link.comp c e hn hc (ihf _ h)
        · cases h
      · rename_i hn
        simp only [Bool.and_eq_true] at h
        obtain ⟨t, ht⟩ := tok_of_isSome h.1
        obtain ⟨kids, hk, hp⟩ := allKids_spec _ ihl _ h.2
        exact Link.field c t kids hn ht hk hp
      · rename_i hn
        obtain ⟨args, hk, hp⟩ := allKids_spec _ ihf _ h
        exact Link.call c args hn hk hp
      · rename_i h1 h2 h3
        exact Link.other c ⟨h1, h2, h3⟩

/-- soundness of the decision procedure the driver runs on every generated tree -/
theorem fragB_sound (k : Nat) (n : Node) (h : fragB k n = true) : Frag n := (fragB_linkB_sound k).1 n h

end Ecal.Lemmas.C06
