import Ecal.Model.Lexer
/-!
# C03 — where `lexNumberBlock` ends a block (ASCII input)

`blockLen` is the block grammar the model implements, as a function on the remaining bytes:
a maximal run of   digit | `.` | `e` `+` digit .   `numberBlock_ascii`: on input that is ASCII from
the current position on, `lexNumberBlock` advances by exactly `blockLen` of the remaining input.
-/
namespace Ecal.Lex

def isDig (c : Nat) : Bool := 48 ≤ c && c ≤ 57

/-- number of bytes of the block at the head of `s`: digits and dots; an `e` belongs to the block
    only when `+` and a digit follow (then all three do) -/
def blockLen : List Nat → Nat
  | [] => 0
  | c :: rest =>
    if isDig c || c == 46 then 1 + blockLen rest
    else if c == 101 then
      (match rest with
       | 43 :: d :: rest' => if isDig d then 3 + blockLen rest' else 0
       | _ => 0)
    else 0

/-- the input from the current position on -/
def rem (l : L) : List Nat := l.inp.toList.drop l.pos

def Ascii (l : L) : Prop := ∀ c ∈ l.inp.toList, c < 128

theorem rem_cons_pos {l : L} {c : Nat} {rest : List Nat} (h : rem l = c :: rest) :
    l.pos < l.inp.size ∧ l.inp.getD l.pos 0 = c := by
  unfold rem at h
  have hlt : l.pos < l.inp.toList.length := by
    by_cases hl : l.pos < l.inp.toList.length
    · exact hl
    · rw [List.drop_eq_nil_of_le (by omega)] at h; cases h
  refine ⟨by simpa using hlt, ?_⟩
  have h0 : (l.inp.toList.drop l.pos)[0]? = some c := by rw [h]; rfl
  rw [List.getElem?_drop] at h0
  simp only [Nat.add_zero] at h0
  simp [Array.getD, Array.getElem?_toList] at h0 ⊢
  have : l.pos < l.inp.size := by simpa using hlt
  simp [this] at h0 ⊢
  exact h0

theorem rem_nil_pos {l : L} (h : rem l = []) : l.pos ≥ l.inp.size := by
  unfold rem at h
  have := List.drop_eq_nil_iff.1 h
  simpa using this

theorem decode_ascii (b : Bytes) (i c : Nat) (h : b.getD i 0 = c) (hc : c < 128) : decodeRune b i = (c, 1) := by
  simp only [decodeRune, decodeBytes, h]
  simp [hc]

theorem next_cons {l : L} {c : Nat} {rest : List Nat} (h : rem l = c :: rest) (hc : c < 128) :
    l.next = ({ l with width := 1, pos := l.pos + 1 }, some c) := by
  obtain ⟨hp, hg⟩ := rem_cons_pos h
  have hd := decode_ascii l.inp l.pos c hg hc
  unfold L.next
  rw [if_neg (by omega), hd]

theorem rem_next {l : L} {c : Nat} {rest : List Nat} (h : rem l = c :: rest) :
    rem ({ l with width := 1, pos := l.pos + 1 } : L) = rest := by
  unfold rem at h ⊢
  simp only
  rw [← List.drop_drop, h]
  rfl

theorem next_nil {l : L} (h : rem l = []) : l.next = (l, none) := by
  unfold L.next
  rw [if_pos (rem_nil_pos h)]

theorem peek1_cons {l : L} {c : Nat} {rest : List Nat} (h : rem l = c :: rest) (hc : c < 128) : l.peek 1 = some c := by
  obtain ⟨hp, hg⟩ := rem_cons_pos h
  unfold L.peek
  rw [if_neg (by omega), if_neg (by omega)]
  simp [decode_ascii l.inp l.pos c hg hc]

theorem peek1_nil {l : L} (h : rem l = []) : l.peek 1 = none := by
  unfold L.peek
  rw [if_pos (rem_nil_pos h)]

theorem peek2_cons {l : L} {c d : Nat} {rest : List Nat} (h : rem l = c :: d :: rest) (hd : d < 128) :
    l.peek 2 = some d := by
  obtain ⟨hp, _⟩ := rem_cons_pos h
  have h2 : rem ({ l with width := 1, pos := l.pos + 1 } : L) = d :: rest := rem_next h
  obtain ⟨hp2, hg2⟩ := rem_cons_pos h2
  simp only at hp2 hg2
  unfold L.peek
  rw [if_neg (by omega), if_neg (by simp; omega)]
  simp [decode_ascii l.inp (l.pos + 1) d hg2 hd]

theorem peek2_single {l : L} {c : Nat} (h : rem l = [c]) : l.peek 2 = some runeError := by
  obtain ⟨hp, _⟩ := rem_cons_pos h
  have h2 : rem ({ l with width := 1, pos := l.pos + 1 } : L) = [] := rem_next h
  have := rem_nil_pos h2
  simp only at this
  unfold L.peek
  rw [if_neg (by omega), if_pos (by simp; omega)]

/-! ### the loop -/

theorem isNumber_ascii (c : Nat) (hc : c < 128) : isNumber c = isDig c := by
  simp [isNumber, isDig, hc]

theorem isNumber_runeError : isNumber runeError = false := by decide +kernel

theorem not_blank_of_visible (c : Nat) (h1 : 33 ≤ c) (h2 : c < 127) : (isSpace c || isControl c) = false := by
  simp only [isSpace, isControl, Bool.or_eq_false_iff, decide_eq_false_iff_not, Bool.and_eq_false_iff,
    Bool.or_eq_false_iff]
  omega

/-- what `lexNumberBlock` does after its loop -/
def finish (p : L × Option Nat) : L := if p.2 != none then p.1.backup 0 else p.1

theorem finish_stop (l : L) (c : Nat) (hw : l.width = 1) : (finish (l, some c)).pos = l.pos - 1 := by
  simp [finish, L.backup, hw]

theorem loop_none (fuel : Nat) (l : L) (h : 1 ≤ fuel) : lexNumberBlock.loop fuel l none = (l, none) := by
  cases fuel with
  | zero => omega
  | succ n => simp [lexNumberBlock.loop]

theorem blockLen_cont (c : Nat) (rest : List Nat) (hd : (isDig c || c == 46) = true) :
    blockLen (c :: rest) = 1 + blockLen rest := by rw [blockLen.eq_def]; simp [hd]

theorem blockLen_e_go (d : Nat) (r : List Nat) (hd : isDig d = true) :
    blockLen (101 :: 43 :: d :: r) = 3 + blockLen r := by
  simp [blockLen, isDig] at hd ⊢
  intro h; omega

theorem blockLen_e_nil : blockLen [101] = 0 := by simp [blockLen, isDig]
theorem blockLen_e_one (x : Nat) : blockLen [101, x] = 0 := by
  by_cases h : x = 43 <;> simp [blockLen, isDig, h]
theorem blockLen_e_stop (x d : Nat) (r : List Nat) (h : ¬ (x = 43 ∧ isDig d = true)) :
    blockLen (101 :: x :: d :: r) = 0 := by
  by_cases h43 : x = 43
  · subst h43
    have : isDig d = false := by simpa using h
    simp [blockLen, isDig] at this ⊢
    intro h1; exact this h1
  · simp [blockLen, isDig, h43]

/-- the loop advances by the block at the head of the input (the rune `c` has been read, `rest` is
    still to be read) -/
theorem loop_ascii (fuel : Nat) : ∀ (l : L) (c : Nat) (rest : List Nat),
    (∀ x ∈ c :: rest, x < 128) → rem l = rest → l.width = 1 → 1 ≤ l.pos → rest.length + 2 ≤ fuel →
    (finish (lexNumberBlock.loop fuel l (some c))).pos = l.pos - 1 + blockLen (c :: rest) := by
  induction fuel with
  | zero => intro l c rest _ _ _ _ hf; omega
  | succ n ih =>
    intro l c rest hasc hrem hw hpos hf
    have hc : c < 128 := hasc c (List.mem_cons_self)
    have hnum := isNumber_ascii c hc
    simp only [lexNumberBlock.loop]
    by_cases hd : (isDig c || c == 46) = true
    · -- a digit or a dot: read on
      have hvis : (isSpace c || isControl c) = false := by
        apply not_blank_of_visible <;> (simp [isDig] at hd; omega)
      have hcont : (!isNumber c && c != 46) = false := by
        rw [hnum]; simp only [Bool.or_eq_true, beq_iff_eq] at hd
        rcases hd with h | h <;> simp [h]
      simp only [hvis, hcont, Bool.false_eq_true, if_false]
      rw [blockLen_cont c rest hd]
      match rest, hrem, hasc, hf with
      | [], hrem, _, hf =>
        simp only [next_nil hrem, loop_none n l (by simp at hf; omega)]
        simp [finish, blockLen]; omega
      | c' :: rest', hrem, hasc, hf =>
        have hc' : c' < 128 := hasc c' (by simp)
        simp only [next_cons hrem hc']
        have := ih { l with width := 1, pos := l.pos + 1 } c' rest' (fun x hx => hasc x (List.mem_cons_of_mem _ hx))
          (rem_next hrem) rfl (by simp) (by simp at hf ⊢; omega)
        simp only at this
        rw [this]; omega
    · simp only [Bool.not_eq_true] at hd
      by_cases he : c = 101
      · subst he
        have hvis : (isSpace 101 || isControl 101) = false := by decide
        have hcont : (!isNumber 101 && (101 : Nat) != 46) = true := by decide +kernel
        simp only [hvis, hcont, if_true, Bool.false_eq_true, if_false]
        match rest, hrem, hasc, hf with
        | [], hrem, _, _ =>
          simp only [peek1_nil hrem]
          rw [if_pos (by simp)]
          rw [finish_stop _ _ hw, blockLen_e_nil]; omega
        | [x], hrem, hasc, _ =>
          have hx : x < 128 := hasc x (by simp)
          simp only [peek1_cons hrem hx, peek2_single hrem, isNumber_runeError]
          simp only [Bool.not_false, Bool.or_true, if_true]
          rw [finish_stop _ _ hw, blockLen_e_one]; omega
        | x :: d :: rest', hrem, hasc, hf =>
          have hx : x < 128 := hasc x (by simp)
          have hdd : d < 128 := hasc d (by simp)
          simp only [peek1_cons hrem hx, peek2_cons hrem hdd, isNumber_ascii d hdd]
          by_cases hgo : x = 43 ∧ isDig d = true
          · obtain ⟨rfl, hdig⟩ := hgo
            simp only [hdig, bne_self_eq_false, Bool.not_true, Bool.or_self, Bool.false_eq_true, if_false]
            rw [blockLen_e_go d rest' hdig]
            have hrem1 := rem_next hrem
            have hrem2 := rem_next hrem1
            simp only at hrem2
            simp only [next_cons hrem hx, next_cons hrem1 hdd]
            match rest', hrem2, hasc, hf with
            | [], hrem2, _, hf =>
              simp only [next_nil hrem2, loop_none n _ (by simp at hf; omega)]
              simp [finish, blockLen]; omega
            | c'' :: r'', hrem2, hasc, hf =>
              have hc'' : c'' < 128 := hasc c'' (by simp)
              simp only [next_cons hrem2 hc'']
              have := ih { l with width := 1, pos := l.pos + 1 + 1 + 1 } c'' r''
                (fun x hx => hasc x (by simp at hx ⊢; rcases hx with h | h <;> simp [h]))
                (rem_next hrem2) rfl (by simp) (by simp at hf ⊢; omega)
              simp only at this
              rw [this]; omega
          · have hstop : (some x != some 43 || !isDig d) = true := by
              by_cases h43 : x = 43
              · subst h43
                have : isDig d = false := by simpa using hgo
                simp [this]
              · simp [h43]
            simp only [hstop, if_true]
            rw [finish_stop _ _ hw, blockLen_e_stop x d rest' hgo]; omega
      · -- any other character ends the block
        have hb : blockLen (c :: rest) = 0 := by rw [blockLen.eq_def]; simp [hd, he]
        rw [hb]
        have hnn : isNumber c = false := by
          rw [hnum]; simp only [Bool.or_eq_false_iff] at hd; exact hd.1
        have h46 : (c != 46) = true := by
          simp only [Bool.or_eq_false_iff, beq_eq_false_iff_ne] at hd; simp [hd.2]
        by_cases hbl : (isSpace c || isControl c) = true
        · simp only [hbl, if_true]; rw [finish_stop _ _ hw]; omega
        · have hbl' : (isSpace c || isControl c) = false := by simpa using hbl
          simp only [hbl', hnn, h46, Bool.not_false, Bool.and_self, if_true, Bool.false_eq_true, if_false, if_neg he]
          rw [finish_stop _ _ hw]; omega

theorem rem_length_le (l : L) : (rem l).length ≤ l.inp.size := by
  simp [rem]

/-- on input that is ASCII from the current position on, `lexNumberBlock` advances by exactly the
    block at the head of the remaining input -/
theorem numberBlock_ascii (l : L) (hasc : ∀ x ∈ rem l, x < 128) :
    (lexNumberBlock l).pos = l.pos + blockLen (rem l) := by
  have hfin : lexNumberBlock l = finish (lexNumberBlock.loop ((l.next).1.inp.size + 2) (l.next).1 (l.next).2) := by
    simp only [lexNumberBlock, finish]
  rw [hfin]
  cases hr : rem l with
  | nil =>
    rw [next_nil hr, loop_none _ _ (by omega)]
    simp [finish, blockLen]
  | cons c rest =>
    rw [hr] at hasc
    have hc : c < 128 := hasc c (by simp)
    rw [next_cons hr hc]
    have hlen := rem_length_le l
    rw [hr] at hlen
    have := loop_ascii (l.inp.size + 2) { l with width := 1, pos := l.pos + 1 } c rest hasc (rem_next hr) rfl (by simp)
      (by simp at hlen ⊢; omega)
    simp only at this ⊢
    rw [this]; omega

/-! ### the block grammar on the literals of the known finding `number-exponent-split` -/

def allDig (ds : List Nat) : Prop := ∀ d ∈ ds, isDig d = true

/-- digits are taken; whatever ends them decides: here an `e` that is not followed by `+digit` -/
theorem blockLen_digits_then (ds : List Nat) (hds : allDig ds) (tail : List Nat) :
    blockLen (ds ++ tail) = ds.length + blockLen tail := by
  induction ds with
  | nil => simp
  | cons d ds ih =>
    have hd : isDig d = true := hds d (by simp)
    rw [List.cons_append, blockLen_cont d _ (by simp [hd]), ih (fun x hx => hds x (by simp [hx]))]
    simp; omega

/-- `<digits>e<x>…` with `x` not `+` (`1e5`, `2e-1`): the block is the digits only — the exponent is
    split off -/
theorem blockLen_exponent_without_plus (ds : List Nat) (hds : allDig ds) (x : Nat) (rest : List Nat) (hx : x ≠ 43) :
    blockLen (ds ++ 101 :: x :: rest) = ds.length := by
  rw [blockLen_digits_then ds hds]
  cases rest with
  | nil => rw [blockLen_e_one]; rfl
  | cons d r => rw [blockLen_e_stop x d r (fun h => hx h.1)]; rfl

/-- `<digits>E…` (upper case, `1E+5`): the block is the digits only -/
theorem blockLen_upper_exponent (ds : List Nat) (hds : allDig ds) (rest : List Nat) :
    blockLen (ds ++ 69 :: rest) = ds.length := by
  rw [blockLen_digits_then ds hds, blockLen.eq_def]
  simp [isDig]

/-- `<digits>e+<digit>…` is taken as a whole (the documented `1.234560e+02` form) -/
theorem blockLen_exponent_plus (ds : List Nat) (hds : allDig ds) (d : Nat) (hd : isDig d = true) (rest : List Nat) :
    blockLen (ds ++ 101 :: 43 :: d :: rest) = ds.length + 3 + blockLen rest := by
  rw [blockLen_digits_then ds hds, blockLen_e_go d rest hd]; omega

/-- a blank, an operator, a bracket, … ends the block: `1 -2` is `1`, then something else -/
theorem blockLen_digits_then_other (ds : List Nat) (hds : allDig ds) (c : Nat) (rest : List Nat)
    (hc : (isDig c || c == 46) = false) (he : c ≠ 101) : blockLen (ds ++ c :: rest) = ds.length := by
  rw [blockLen_digits_then ds hds, blockLen.eq_def]
  simp [hc, he]

/-! ### the NUMBER token `lexWord` pushes -/

/-- everything but `pos` and `width` is the same -/
def SameBut (l l' : L) : Prop :=
  l'.inp = l.inp ∧ l'.line = l.line ∧ l'.lastnl = l.lastnl ∧ l'.skippedNl = l.skippedNl ∧ l'.start = l.start ∧
    l'.toks = l.toks

theorem SameBut.refl (l : L) : SameBut l l := ⟨rfl, rfl, rfl, rfl, rfl, rfl⟩

theorem SameBut.trans {a b c : L} (h1 : SameBut a b) (h2 : SameBut b c) : SameBut a c :=
  ⟨h2.1.trans h1.1, h2.2.1.trans h1.2.1, h2.2.2.1.trans h1.2.2.1, h2.2.2.2.1.trans h1.2.2.2.1,
    h2.2.2.2.2.1.trans h1.2.2.2.2.1, h2.2.2.2.2.2.trans h1.2.2.2.2.2⟩

theorem sameBut_next (l : L) : SameBut l (l.next).1 := by
  unfold L.next; split <;> exact ⟨rfl, rfl, rfl, rfl, rfl, rfl⟩

theorem sameBut_backup (l : L) (w : Nat) : SameBut l (l.backup w) := ⟨rfl, rfl, rfl, rfl, rfl, rfl⟩

theorem sameBut_loop (fuel : Nat) : ∀ (l : L) (r : Option Nat), SameBut l (lexNumberBlock.loop fuel l r).1 := by
  induction fuel with
  | zero => intro l r; exact SameBut.refl l
  | succ n ih =>
    intro l r
    simp only [lexNumberBlock.loop]
    repeat' split
    all_goals first
      | exact SameBut.refl l
      | exact (sameBut_next l).trans (ih _ _)
      | exact ((sameBut_next l).trans ((sameBut_next _).trans (sameBut_next _))).trans (ih _ _)

theorem sameBut_numberBlock (l : L) : SameBut l (lexNumberBlock l) := by
  simp only [lexNumberBlock]
  split
  · exact ((sameBut_next l).trans (sameBut_loop _ _ _)).trans (sameBut_backup _ _)
  · exact (sameBut_next l).trans (sameBut_loop _ _ _)

theorem slice_eq_take (l : L) (n : Nat) : l.slice l.pos (l.pos + n) = (rem l).take n := by
  simp [L.slice, rem, Array.toList_extract, List.extract_eq_drop_take]

/-- `lexWord`, started at the first byte of ASCII text whose block passes the number test, pushes
    exactly one token: the NUMBER whose text is (the lower-cased) block — the longest prefix of the
    remaining input of the form   (digit | `.` | `e` `+` digit)* -/
theorem lexWord_number (l : L) (hs : l.start = l.pos) (hasc : ∀ x ∈ rem l, x < 128)
    (hcand : numberCandidate (lowerGo ((rem l).take (blockLen (rem l)))) = true) :
    (lexWord l).1.toks =
      l.toks.push (Tok.mk tNUMBER l.start (lowerGo ((rem l).take (blockLen (rem l)))) false false
        l.skippedNl l.stamp.1 l.stamp.2) := by
  obtain ⟨h1, h2, h3, h4, h5, h6⟩ := sameBut_numberBlock l
  have hpos := numberBlock_ascii l hasc
  have hslice : (lexNumberBlock l).slice l.start (lexNumberBlock l).pos =
      (rem l).take (blockLen (rem l)) := by
    rw [hs, hpos, ← slice_eq_take l]
    simp [L.slice, h1]
  simp only [lexWord, L.emit, L.stamp, h2, h3, h4, h5, h6, hslice, hcand, if_true]

end Ecal.Lex
